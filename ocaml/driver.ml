(* Drives the extracted model on a case file; prints one canonical line per case. *)
open BinNums
open Datatypes
open Base
open Sink
open Conv

let parse_sink_op (tok : string) : op =
  match split_on ':' tok with
  | ["W"; w; v] -> OWrite (n_of_int (int_of_string w), n_of_u64_string v)
  | ["M"; w; v; n] -> OMsbs (n_of_int (int_of_string w), n_of_u64_string v, n_of_int (int_of_string n))
  | ["L"; w; v; n] -> OLsbs (n_of_int (int_of_string w), n_of_u64_string v, n_of_int (int_of_string n))
  | ["T"; v; n] -> OTwoc (z_of_i64_string v, n_of_int (int_of_string n))
  | ["Z"; n] -> OZeros (n_of_int (int_of_string n))
  | ["A"] -> OAlign
  | ["B"; h] -> OBytes (hexbytes h)
  | ["B"] -> OBytes []
  | _ -> failwith ("bad sink op " ^ tok)

let run_sink id rest =
  let toks = Stdlib.List.filter (fun s -> s <> "") (split_on ' ' rest) in
  match toks with
  | kind :: ops ->
    let ops = Stdlib.List.map parse_sink_op ops in
    (match kind with
     | "user" ->
       (match Sink.user_run ops with
        | Ok b -> Printf.sprintf "%s ok %d %s" id (int_of_n b.blen_i) (hex_of_n b.bval)
        | _ -> Printf.sprintf "%s panic" id)
     | _ ->
       let k = if kind = "u8" then KU8 else KU64 in
       (match Sink.run k ops with
        | Ok s ->
          Printf.sprintf "%s ok %d [%s] %s" id (int_of_n s.blen)
            (Stdlib.String.concat "," (Stdlib.List.map hex_of_n (Sink.storage s)))
            (hex_of_bytes (Sink.export_bytes k s))
        | _ -> Printf.sprintf "%s panic" id))
  | [] -> id ^ " bad-case"

(* ---- ENC: whole-stream encoding ---- *)

let parse_cfg (s : string) : Encoder.config =
  let kv = Stdlib.List.map (fun x -> match split_on '=' x with [k; v] -> (k, v) | _ -> failwith "cfg") (split_on ';' s) in
  let g k = Stdlib.List.assoc k kv in
  let b k = g k = "1" in
  let n k = n_of_int (int_of_string (g k)) in
  { Encoder.cfg_block_size = n "bs"; cfg_multithread = b "mt";
    cfg_workers = (if g "w" = "-" then None else Some (n "w"));
    cfg_use_leftside = b "ls"; cfg_use_rightside = b "rs"; cfg_use_midside = b "ms";
    cfg_use_constant = b "uc"; cfg_use_fixed = b "uf"; cfg_use_lpc = b "ul";
    cfg_fixed_max_order = n "fo";
    cfg_order_sel = (if g "os" = "bc" then None else Some (n "os"));
    cfg_lpc_order = n "lo"; cfg_quant_precision = n "qp"; cfg_use_direct_mse = b "dm"; cfg_mae_steps = n "ma";
    cfg_window = (let w = g "win" in if w = "r" then None else Some (n_of_int (int_of_string (Stdlib.String.sub w 1 (Stdlib.String.length w - 1)))));
    cfg_max_parameter = n "mp" }

let parse_samples (s : string) : coq_Z list =
  if s = "-" then [] else Stdlib.List.map (fun x -> z_of_int (int_of_string x)) (split_on ',' s)

(* oracle tables: (frame, variant) -> entropies per order, qparams *)
let parse_oracles (toks : string list) =
  let ent = Hashtbl.create 64 and q = Hashtbl.create 64 in
  Stdlib.List.iter (fun t ->
    match split_on ':' t with
    | ["O"; f; v; es; qs] ->
      let f = int_of_string f and v = int_of_string v in
      if es <> "-" then
        Stdlib.List.iteri (fun k e -> Hashtbl.replace ent (f, v, k) (n_of_int (int_of_string e))) (split_on ',' es);
      if qs <> "-" then
        (match split_on ';' qs with
         | [cs; sh; pr] ->
           Hashtbl.replace q (f, v)
             { Predict.q_coefs = Stdlib.List.map (fun x -> z_of_int (int_of_string x)) (split_on ',' cs);
               q_shift = z_of_int (int_of_string sh); q_precision = n_of_int (int_of_string pr) }
         | _ -> failwith "qparams")
    | _ -> ()) toks;
  let missing = ref false in
  let entf f v k = (try Hashtbl.find ent (int_of_n f, int_of_n v, int_of_n k) with Not_found -> missing := true; N0) in
  let qf f v = (try Hashtbl.find q (int_of_n f, int_of_n v) with Not_found -> missing := true;
                  { Predict.q_coefs = [z_of_int 1]; q_shift = Z0; q_precision = n_of_int 2 }) in
  (entf, qf, missing)

let md5_oracle (bytes : coq_N list) : coq_N list =
  let b = Bytes.create (Stdlib.List.length bytes) in
  Stdlib.List.iteri (fun i x -> Bytes.set b i (Char.chr (int_of_n x))) bytes;
  let d = Digest.bytes b in
  Stdlib.List.init 16 (fun i -> n_of_int (Char.code d.[i]))

let sub_summary (s : Component.subframe) : string =
  match s with
  | Component.SConstant _ -> "C"
  | Component.SVerbatim _ -> "V"
  | Component.SFixed (w, r, _) -> Printf.sprintf "F%dp%d" (Stdlib.List.length w) (int_of_n r.Rice.r_order)
  | Component.SLpc (w, _, r, _) -> Printf.sprintf "L%dp%d" (Stdlib.List.length w) (int_of_n r.Rice.r_order)

let frame_summary (f : Component.frame) : string =
  let tag = match f.Component.f_header.Component.h_ch with
    | Codes.Indep n -> int_of_n n - 1 | Codes.LeftSide -> 8 | Codes.RightSide -> 9 | Codes.MidSide -> 10 in
  Printf.sprintf "%d:%s" tag (Stdlib.String.concat "," (Stdlib.List.map sub_summary f.Component.f_subframes))

let res_kind id r = match r with
  | Err e -> Printf.sprintf "%s err%d" id (int_of_n e)
  | Panic s -> Printf.sprintf "%s panic@%d" id (int_of_n s)
  | Ok _ -> id ^ " ok"

let err_name e = match int_of_n e with 4 -> "err-source" | 2 | 3 | 5 -> "err-config" | _ -> "err-other"

let run_enc id rest =
  let (main, orc) = match Str.bounded_split_delim (Str.regexp_string " |") rest 2 with
    | [a; b] -> (a, Stdlib.String.trim b) | [a] -> (a, "") | _ -> failwith "enc case" in
  if orc = "ORACLE-PANIC" then id ^ " oracle-panic" else
  match split_on ' ' main with
  | [cfg; rate; ch; bps; bs; samples] ->
    let cfg = parse_cfg cfg in
    let (entf, qf, missing) = parse_oracles (split_on ' ' orc) in
    let n s = n_of_int (int_of_string s) in
    let r = Encoder.encode_stream entf qf md5_oracle cfg (n rate) (n ch) (n bps) (n bs) (parse_samples samples) in
    (match r with
     | Ok s ->
       (match Component.stream_bytes s with
        | Ok bytes ->
          let sum = if s.Component.s_frames = [] then "-" else Stdlib.String.concat "/" (Stdlib.List.map frame_summary s.Component.s_frames) in
          Printf.sprintf "%s ok %s v cb=%d %s%s" id sum (int_of_n (Component.stream_count_bits s)) (hex_of_bytes bytes) (if !missing then " ORACLE-MISSING" else "")
        | Err e -> Printf.sprintf "%s %s" id (err_name e)
        | Panic st -> Printf.sprintf "%s panic" id)
     | Err e -> Printf.sprintf "%s %s" id (err_name e)
     | Panic st -> Printf.sprintf "%s panic" id)
  | _ -> id ^ " bad-case"

(* ---- DEC: the independent decoder on a byte string ---- *)
let fmt_z_list (l : coq_Z list) : string =
  if l = [] then "-" else Stdlib.String.concat "," (Stdlib.List.map (fun z -> string_of_int (int_of_z z)) l)

let run_dec id rest =
  let bytes = if rest = "-" then [] else hexbytes rest in
  match Flac.decode_stream bytes with
  | None -> id ^ " reject"
  | Some (si, samples) ->
    let lens = (match Flac.read_magic_and_meta (Flac.rd_of bytes) with
      | Some (si2, r) -> (match Flac.frame_lengths (Datatypes.length r.Flac.r_bytes) si2 r.Flac.r_bytes with
                          | Some l -> Stdlib.String.concat "," (Stdlib.List.map (fun x -> string_of_int (int_of_n x)) l)
                          | None -> "?")
      | None -> "?") in
    Printf.sprintf "%s ok rate=%d ch=%d bps=%d total=%d minb=%d maxb=%d minf=%d maxf=%d md5=%s lens=%s %s" id
      (int_of_n si.Flac.i_rate) (int_of_n si.Flac.i_channels) (int_of_n si.Flac.i_bps) (int_of_n si.Flac.i_total)
      (int_of_n si.Flac.i_min_block) (int_of_n si.Flac.i_max_block) (int_of_n si.Flac.i_min_frame) (int_of_n si.Flac.i_max_frame)
      (hex_of_bytes si.Flac.i_md5) (if lens = "" then "-" else lens) (fmt_z_list samples)

(* ---- CNT: count_bits vs written bits ---- *)
let parse_n_list (s : string) : coq_N list =
  if s = "-" then [] else Stdlib.List.map (fun x -> n_of_u64_string x) (split_on ',' s)

(* Residual::verify as far as the generator can violate it: remainders below 2^p *)
let run_cnt id rest =
  if Stdlib.String.length rest > 1 && Stdlib.String.sub rest 0 2 = "E " then id ^ " ok model-not-consulted" else
  match split_on ' ' rest with
  | ["M"; rate; ch; bps; blocks] ->
    let n s = n_of_int (int_of_string s) in
    (match Ctor.streaminfo_ctor (n rate) (n ch) (n bps) with
     | Ok info ->
       let metas = if blocks = "-" then [] else Stdlib.List.map (fun b ->
         match split_on ':' b with
         | [tag; len] -> let tag = int_of_string tag and len = int_of_string len in
           (n_of_int tag, Stdlib.List.init len (fun j -> n_of_int ((tag * 31 + j * 7) mod 256)))
         | _ -> failwith "meta block") (split_on ',' blocks) in
       let st = { Component.s_info = info; s_meta = metas; s_frames = [] } in
       (match Component.stream_ops st, Component.stream_bytes st with
        | Ok ops, Ok bytes ->
          let w = dec_of_n (OpsLen.ops_len N0 ops) in
          Printf.sprintf "%s ok count=%s written=%s written64=%s %s same=1" id (dec_of_n (Component.stream_count_bits st)) w w (hex_of_bytes bytes)
        | _ -> id ^ " write-err")
     | _ -> id ^ " err")
  | ["R"; order; block; warmup; params; quot; rem] ->
    let n s = n_of_int (int_of_string s) in
    (match Ctor.residual_new (n order) (n block) (n warmup) (parse_n_list params) (parse_n_list quot) (parse_n_list rem) with
     | Ok r ->
    let cnt = Component.residual_count_bits r in
    let written = OpsLen.ops_len N0 (Component.residual_ops r) in
    Printf.sprintf "%s ok count=%s written=%s" id (dec_of_n cnt) (dec_of_n written)
     | _ -> id ^ " err")
  | ["H"; block; chtag; bps; rate; kind; num] ->
    let n s = n_of_int (int_of_string s) in
    let chtag = int_of_string chtag in
    let ch = if chtag < 8 then Codes.Indep (n_of_int (chtag + 1)) else if chtag = 8 then Codes.LeftSide else if chtag = 9 then Codes.RightSide else Codes.MidSide in
    if (Codes.sample_rate_code (n rate)).Codes.c_tag = N0 || int_of_string block > 32767 then id ^ " err" else
    (match Codes.block_size_code (n block) with
     | Ok bc ->
       let h = { Component.h_variable = (kind = "S"); h_bs = bc; h_block = n block; h_ch = ch;
                 h_ss_tag = Codes.sample_size_tag (n bps); h_sr = Codes.sample_rate_code (n rate); h_number = n_of_u64_string num } in
       (match Component.header_ops h with
        | Ok ops ->
          (match Component.pack KU8 ops, Component.pack KU64 ops with
           | Ok a, Ok b ->
             Printf.sprintf "%s ok count=%d written=%d written64=%d %s same=%d" id (int_of_n (Component.header_count_bits h))
               (8 * Stdlib.List.length a) (8 * Stdlib.List.length b) (hex_of_bytes a) (if a = b then 1 else 0)
           | _ -> id ^ " panic")
        | Err _ -> Printf.sprintf "%s write-err count=%d" id (int_of_n (Component.header_count_bits h))
        | Panic _ -> id ^ " panic")
     | _ -> id ^ " panic")
  | _ -> id ^ " bad-case"

(* ---- RICE ---- *)
let fmt_n_list (l : coq_N list) : string =
  if l = [] then "-" else Stdlib.String.concat "," (Stdlib.List.map dec_of_n l)

let run_rice id rest =
  match split_on ' ' rest with
  | ["F"; warmup; maxp; errs] ->
    (match Rice.find_prc (parse_samples errs) (n_of_int (int_of_string warmup)) (n_of_int (int_of_string maxp)) with
     | Ok pr -> Printf.sprintf "%s ok order=%d ps=%s bits=%s" id (int_of_n pr.Rice.prc_order) (fmt_n_list pr.Rice.prc_ps) (dec_of_n pr.Rice.prc_bits)
     | _ -> id ^ " panic")
  | ["T"; e] -> Printf.sprintf "%s ok %s" id (fmt_n_list (Rice.table_from_errors (parse_n_list e)))
  | ["M"; a; b] -> Printf.sprintf "%s ok %s" id (fmt_n_list (Rice.table_merge (Rice.table_from_errors (parse_n_list a)) (Rice.table_from_errors (parse_n_list b))))
  | ["Z"; maxp; e] ->
    let (p, bits) = Rice.minimizer (Rice.table_from_errors (parse_n_list e)) (n_of_int (int_of_string maxp)) in
    Printf.sprintf "%s ok p=%d bits=%s" id (int_of_n p) (dec_of_n bits)
  | _ -> id ^ " bad-case"

(* ---- FAIL: sink failing at call k ---- *)
let call_token (o : Sink.op) : string =
  match o with
  | Sink.OAlign -> "A"
  | Sink.OWrite (w, v) -> Printf.sprintf "W:%d:%s" (int_of_n w) (dec_of_n v)
  | Sink.OMsbs (w, v, n) -> Printf.sprintf "M:%d:%s:%d" (int_of_n w) (dec_of_n v) (int_of_n n)
  | Sink.OLsbs (w, v, n) -> Printf.sprintf "L:%d:%s:%d" (int_of_n w) (dec_of_n v) (int_of_n n)
  | _ -> "?"

let fnv_calls (calls : Sink.op list) : string =
  let h = ref 0xcbf29ce484222325L in
  let mulp x = Int64.mul x 0x100000001b3L in
  Stdlib.List.iter (fun o ->
    Stdlib.String.iter (fun c -> h := mulp (Int64.logxor !h (Int64.of_int (Char.code c)))) (call_token o);
    h := mulp (Int64.logxor !h 0x20L)) calls;
  Printf.sprintf "%016Lx" !h

let fnv_raw (l : coq_N list) : string =
  let h = ref 0xcbf29ce484222325L in
  Stdlib.List.iter (fun b -> h := Int64.mul (Int64.logxor !h (Int64.of_int (int_of_n b))) 0x100000001b3L) l;
  Printf.sprintf "%016Lx" !h

let run_fail id rest =
  match Str.bounded_split (Str.regexp_string " ") rest 3 with
  | [kspec; mode; r3] ->
    let (main, orc) = match Str.bounded_split_delim (Str.regexp_string " |") r3 2 with
      | [a; b] -> (a, Stdlib.String.trim b) | [a] -> (a, "") | _ -> failwith "fail case" in
    if orc = "ORACLE-PANIC" then id ^ " oracle-panic" else
    (match split_on ' ' main with
     | [cfg; rate; ch; bps; bs; samples] ->
       let cfg = parse_cfg cfg in
       let (entf, qf, _) = parse_oracles (split_on ' ' orc) in
       let n s = n_of_int (int_of_string s) in
       (match Encoder.encode_stream entf qf md5_oracle cfg (n rate) (n ch) (n bps) (n bs) (parse_samples samples) with
        | Ok s ->
          let s = if mode = "m" then
              { s with Component.s_frames = Stdlib.List.map (fun f -> match Component.precompute f with Ok f' -> f' | _ -> f) s.Component.s_frames }
            else s in
          let nth_mod l i = let n = Stdlib.List.length l in if n = 0 then None else Some (Stdlib.List.nth l (i mod n)) in
          let comp_ops : (Sink.op list) Base.coq_Res option =
            if mode = "s" || mode = "m" then Some (Component.stream_ops s)
            else if mode.[0] = 'x' then begin
              let k = int_of_string (Stdlib.String.sub mode 1 (Stdlib.String.length mode - 1)) in
              let metas = Stdlib.List.init k (fun b -> let tag = 2 + b and len = 3 + 5 * b in
                (n_of_int tag, Stdlib.List.init len (fun j -> n_of_int ((tag * 31 + j * 7) mod 256)))) in
              Some (Component.stream_ops { s with Component.s_meta = metas })
            end else begin
              let kind = Stdlib.String.sub mode 0 1 in
              let idx = Stdlib.String.sub mode 1 (Stdlib.String.length mode - 1) in
              let (i, j) = (match split_on '.' idx with [a; b] -> (int_of_string a, int_of_string b) | [a] -> (int_of_string a, 0) | _ -> (0, 0)) in
              match nth_mod s.Component.s_frames i with
              | None -> None
              | Some f ->
                if kind = "f" then Some (Component.frame_ops f)
                else if kind = "h" then Some (Component.header_ops f.Component.f_header)
                else (match nth_mod f.Component.f_subframes j with
                      | None -> None
                      | Some sf ->
                        if kind = "r" then
                          (match sf with
                           | Component.SFixed (_, r, _) -> Some (Base.Ok (Component.residual_ops r))
                           | Component.SLpc (_, _, r, _) -> Some (Base.Ok (Component.residual_ops r))
                           | _ -> Some (Base.Ok (Component.subframe_ops sf)))
                        else Some (Base.Ok (Component.subframe_ops sf)))
            end in
          (match comp_ops with
           | None -> id ^ " no-component"
           | Some (Ok ops) ->
             let calls = FailSink.expand ops in
             let total = Stdlib.List.length calls in
             let k = if kspec.[0] = 'a' || kspec.[0] = 'A' then int_of_string (Stdlib.String.sub kspec 1 (Stdlib.String.length kspec - 1))
                     else total * int_of_string (Stdlib.String.sub kspec 1 (Stdlib.String.length kspec - 1)) / 1000 in
             let (res, accepted) = FailSink.write_failing (nat_of_int k) ops in
             let verdict = (match res with Ok _ -> "ok" | Err e -> if int_of_n e = 1 then "err-sink" else "err-other" | Panic _ -> "panic") in
             let bits = (match Sink.user_run accepted with Ok b -> int_of_n b.Sink.blen_i | _ -> -1) in
             let retry = (match Component.pack Sink.KU8 ops with Ok b -> fnv_raw b | _ -> "err") in
             Printf.sprintf "%s %s k=%d total=%d accepted=%d calls=%s bits=%d ref=%s retry=%s" id verdict k total (Stdlib.List.length accepted) (fnv_calls accepted) bits retry retry
           | Some _ -> id ^ " ops-error")
        | _ -> id ^ " enc-error")
     | _ -> id ^ " bad-case")
  | _ -> id ^ " bad-case"

(* ---- SRC: delivery units ---- *)
let verbatim_cfg : Encoder.config =
  { Encoder.cfg_block_size = n_of_int 4096; cfg_multithread = false; cfg_workers = None;
    cfg_use_leftside = false; cfg_use_rightside = false; cfg_use_midside = false;
    cfg_use_constant = false; cfg_use_fixed = false; cfg_use_lpc = false;
    cfg_fixed_max_order = n_of_int 4; cfg_order_sel = Some (n_of_int 16);
    cfg_lpc_order = n_of_int 10; cfg_quant_precision = n_of_int 15; cfg_use_direct_mse = false; cfg_mae_steps = N0;
    cfg_window = None; cfg_max_parameter = n_of_int 14 }

let rec interleave_lists (chs : coq_Z list list) : coq_Z list =
  if chs = [] || Stdlib.List.exists (fun c -> c = []) chs then []
  else Stdlib.List.map Stdlib.List.hd chs @ interleave_lists (Stdlib.List.map Stdlib.List.tl chs)

let run_src id rest =
  match split_on ' ' rest with
  | ["D"; ch; stride; src; old] ->
    let r = Source.deinterleave (nat_of_int (int_of_string ch)) (nat_of_int (int_of_string stride)) (parse_samples src) (parse_samples old) in
    Printf.sprintf "%s ok %s" id (fmt_z_list r)
  | ["L"; nb; h] ->
    (match Source.le_bytes_to_i32s (if h = "-" then [] else hexbytes h) (n_of_int (int_of_string nb)) with
     | Ok l -> Printf.sprintf "%s ok %s" id (fmt_z_list l) | _ -> id ^ " panic")
  | ["I"; nb; ints] ->
    (match Source.i32s_to_le_bytes (parse_samples ints) (n_of_int (int_of_string nb)) with
     | Ok l -> Printf.sprintf "%s ok %s" id (hex_of_bytes l) | _ -> id ^ " panic")
  | ["F"; ch; cap; bps; mode; nb; first; second] ->
    let chn = int_of_string ch and capn = int_of_string cap and bpsn = int_of_string bps in
    let nb = n_of_int (int_of_string nb) in
    let declared = n_of_int ((bpsn + 7) / 8) in
    let first = parse_samples first and second = parse_samples second in
    let bytes_of nbv l = Stdlib.List.concat_map (fun x -> Source.le_bytes_of nbv x) l in
    let fb0 = Source.fb_new (nat_of_int chn) (nat_of_int capn) in
    let cx0 = Source.ctx_new (n_of_int bpsn) (n_of_int chn) in
    let fill fb cx l nbv =
      if mode = "b" then
        (match Source.fill_le_bytes fb (bytes_of nbv l) nbv with
         | Ok fb' -> (match Source.ctx_fill_le_bytes cx (bytes_of nbv l) nbv with Ok cx' -> Some (fb', cx') | _ -> None)
         | _ -> None)
      else (match Source.fill_interleaved fb l with Ok fb' -> Some (fb', Source.ctx_fill_interleaved cx l) | _ -> None) in
    (match fill fb0 cx0 first declared with
     | None -> id ^ " first-err"
     | Some (fb1, cx1) ->
       (match fill fb1 cx1 second nb with
        | None ->
          (* which part failed decides what filled_size shows: FrameBuf is filled first *)
          let filled = (if mode = "b" then (match Source.fill_le_bytes fb1 (bytes_of nb second) nb with Ok f -> f | _ -> fb1)
                        else (match Source.fill_interleaved fb1 second with Ok f -> f | _ -> fb1)) in
          Printf.sprintf "%s err filled=%d" id (int_of_nat filled.Source.fb_filled)
        | Some (fb2, cx2) ->
          let (filled, slices) = Source.observable fb2 in
          let block = interleave_lists slices in
          if int_of_nat filled = 0 then
            Printf.sprintf "%s ok filled=0 total=%d frames=%d md5=%s -" id (int_of_n cx2.Source.cx_samples) (int_of_n cx2.Source.cx_frames)
              (hex_of_bytes (md5_oracle cx2.Source.cx_md5in)) else
          let entf _ _ _ = N0 and qf _ _ = { Predict.q_coefs = []; q_shift = Z0; q_precision = n_of_int 1 } in
          (match Encoder.encode_fixed_size_frame entf qf verbatim_cfg (n_of_int 44100) (n_of_int chn) (n_of_int bpsn) N0 N0 block with
           | Ok f -> (match Component.frame_bytes f with
               | Ok b ->
                 let d = md5_oracle cx2.Source.cx_md5in in
                 Printf.sprintf "%s ok filled=%d total=%d frames=%d md5=%s %s" id (int_of_nat filled)
                   (int_of_n cx2.Source.cx_samples) (int_of_n cx2.Source.cx_frames) (hex_of_bytes d) (hex_of_bytes b)
               | _ -> id ^ " frame-bytes-error")
           | Err _ -> Printf.sprintf "%s frame-err filled=%d" id (int_of_nat filled)
           | Panic _ -> id ^ " panic")))
  | _ -> id ^ " bad-case"

(* ---- CFG ---- *)
let key_names = [ (1,"block_size"); (2,"multithread"); (3,"workers"); (4,"stereo_coding"); (5,"subframe_coding");
  (6,"use_leftside"); (7,"use_rightside"); (8,"use_midside"); (9,"use_constant"); (10,"use_fixed"); (11,"use_lpc");
  (12,"fixed"); (13,"qlpc"); (14,"prc"); (15,"max_order"); (16,"order_sel"); (17,"type"); (18,"partitions");
  (19,"lpc_order"); (20,"quant_precision"); (21,"use_direct_mse"); (22,"mae_optimization_steps"); (23,"window");
  (24,"alpha"); (25,"max_parameter") ]
let str_names = [ (1,"BitCount"); (2,"ApproxEnt"); (3,"Rectangle"); (4,"Tukey") ]
let code_of tbl name = try fst (Stdlib.List.find (fun (_, n) -> n = name) tbl) with Not_found -> 1000 + (Hashtbl.hash name mod 1000)
let name_of tbl code = try Stdlib.List.assoc code tbl with Not_found -> "?" ^ string_of_int code

let rec canon_tv (v : Config.tv) : string =
  match v with
  | Config.TInt z -> "i" ^ (match z with Z0 -> "0" | Zpos p -> dec_of_n (Npos p) | Zneg p -> "-" ^ dec_of_n (Npos p))
  | Config.TBool b -> if b then "b1" else "b0"
  | Config.TFloat bits -> "f" ^ dec_of_n bits
  | Config.TStr s -> "s" ^ name_of str_names (int_of_n s)
  | Config.TTable kvs ->
    let items = Stdlib.List.map (fun (k, v) -> name_of key_names (int_of_n k) ^ ":" ^ canon_tv v) kvs in
    "{" ^ Stdlib.String.concat "," (Stdlib.List.sort compare items) ^ "}"

let parse_doc (s : string) : Config.tv =
  let i = ref 0 in
  let n = Stdlib.String.length s in
  let rec pv () : Config.tv =
    if s.[!i] = '{' then begin
      incr i; let items = ref [] in
      while s.[!i] <> '}' do
        let st = !i in while s.[!i] <> ':' do incr i done;
        let k = Stdlib.String.sub s st (!i - st) in incr i;
        let v = pv () in items := (n_of_int (code_of key_names k), v) :: !items;
        if s.[!i] = ',' then incr i
      done;
      incr i; Config.TTable (Stdlib.List.rev !items)
    end else begin
      let c = s.[!i] in incr i; let st = !i in
      while !i < n && s.[!i] <> ',' && s.[!i] <> '}' do incr i done;
      let body = Stdlib.String.sub s st (!i - st) in
      match c with
      | 'i' -> Config.TInt (z_of_i64_string body)
      | 'b' -> Config.TBool (body = "1")
      | 'f' -> Config.TFloat (n_of_u64_string body)
      | _ -> Config.TStr (n_of_int (code_of str_names body))
    end in
  pv ()

let encode_cfg (c : Encoder.config) : string =
  let b x = if x then "1" else "0" in
  let d = dec_of_n in
  Printf.sprintf "bs=%s;mt=%s;w=%s;ls=%s;rs=%s;ms=%s;uc=%s;uf=%s;ul=%s;fo=%s;os=%s;lo=%s;qp=%s;dm=%s;ma=%s;win=%s;mp=%s"
    (d c.Encoder.cfg_block_size) (b c.Encoder.cfg_multithread) (match c.Encoder.cfg_workers with None -> "-" | Some w -> d w)
    (b c.Encoder.cfg_use_leftside) (b c.Encoder.cfg_use_rightside) (b c.Encoder.cfg_use_midside)
    (b c.Encoder.cfg_use_constant) (b c.Encoder.cfg_use_fixed) (b c.Encoder.cfg_use_lpc)
    (d c.Encoder.cfg_fixed_max_order) (match c.Encoder.cfg_order_sel with None -> "bc" | Some p -> d p)
    (d c.Encoder.cfg_lpc_order) (d c.Encoder.cfg_quant_precision) (b c.Encoder.cfg_use_direct_mse) (d c.Encoder.cfg_mae_steps)
    (match c.Encoder.cfg_window with None -> "r" | Some bits -> "t" ^ d bits) (d c.Encoder.cfg_max_parameter)

let parse_cfg_big (s : string) : Encoder.config =
  (* like parse_cfg but with numbers beyond OCaml's int *)
  let kv = Stdlib.List.map (fun x -> match split_on '=' x with [k; v] -> (k, v) | _ -> failwith "cfg") (split_on ';' s) in
  let g k = Stdlib.List.assoc k kv in
  let b k = g k = "1" in
  let n k = n_of_u64_string (g k) in
  { Encoder.cfg_block_size = n "bs"; cfg_multithread = b "mt";
    cfg_workers = (if g "w" = "-" then None else Some (n "w"));
    cfg_use_leftside = b "ls"; cfg_use_rightside = b "rs"; cfg_use_midside = b "ms";
    cfg_use_constant = b "uc"; cfg_use_fixed = b "uf"; cfg_use_lpc = b "ul";
    cfg_fixed_max_order = n "fo";
    cfg_order_sel = (if g "os" = "bc" then None else Some (n "os"));
    cfg_lpc_order = n "lo"; cfg_quant_precision = n "qp"; cfg_use_direct_mse = b "dm"; cfg_mae_steps = n "ma";
    cfg_window = (let w = g "win" in if w = "r" then None else Some (n_of_u64_string (Stdlib.String.sub w 1 (Stdlib.String.length w - 1))));
    cfg_max_parameter = n "mp" }

let experimental_build = (int_of_n Generated.c_FEATURE_EXPERIMENTAL = 1)

let run_cfg id rest =
  match Str.bounded_split (Str.regexp_string " ") rest 2 with
  | ["V"; body] -> if Config.verify experimental_build (parse_cfg_big body) then id ^ " ok" else id ^ " err"
  | ["S"; body] -> Printf.sprintf "%s ok %s" id (canon_tv (Config.TTable (Config.to_doc (parse_cfg_big body))))
  | ["P"; body] ->
    (match parse_doc body with
     | Config.TTable kvs ->
       (match Config.from_doc kvs with
        | Ok c -> Printf.sprintf "%s ok %s verify=%d" id (encode_cfg c) (if Config.verify experimental_build c then 1 else 0)
        | _ -> id ^ " err")
     | _ -> id ^ " err")
  | _ -> id ^ " bad-case"

(* ---- PARSE ---- *)
let run_parse id rest =
  match split_on ' ' rest with
  | [_h; _kind; hx] ->
    let bytes = if hx = "-" then [] else hexbytes hx in
    (match Parser.parse_stream bytes with
     | None -> id ^ " err"
     | Some s ->
       (match Component.stream_bytes s with
        | Ok b -> Printf.sprintf "%s ok %s" id (hex_of_bytes b)
        | Err _ -> id ^ " ok write-err"
        | Panic _ -> id ^ " ok write-panic"))
  | _ -> id ^ " bad-case"

(* ---- PARTRACE: replay of an implementation event log in the extracted LTS ---- *)
let run_partrace id rest =
  match Stdlib.List.map Stdlib.String.trim (Str.split (Str.regexp_string "|") rest) with
  | [hd; f; h; m; w] ->
    (match split_on ' ' hd with
     | [wn; blocks; rf; inv] ->
       let wn = int_of_string wn and blocks = int_of_string blocks in
       let invl = if inv = "-" then [] else Stdlib.List.map int_of_string (split_on ',' inv) in
       let plan = { Par.p_workers = nat_of_int wn; p_blocks = nat_of_int blocks;
                    p_read_fail = (if rf = "-" then None else Some (nat_of_int (int_of_string rf)));
                    p_invalid = (fun n -> Stdlib.List.mem (int_of_nat n) invl) } in
       let toks pref x =
         let body = Stdlib.String.sub x (Stdlib.String.length pref) (Stdlib.String.length x - Stdlib.String.length pref) in
         if Stdlib.String.trim body = "" then [] else split_on ',' (Stdlib.String.trim body) in
       let fq = ref (toks "F:" f) and hq = ref (toks "H:" h) and mq = ref (toks "M:" m) in
       let wbody = Stdlib.String.trim (Stdlib.String.sub w 2 (Stdlib.String.length w - 2)) in
       let wlists = if wbody = "" then [] else Stdlib.List.map (fun x -> if x = "" then [] else split_on ',' x) (split_on ';' wbody) in
       let wq = Array.make wn [] in
       Stdlib.List.iteri (fun i l -> if i < wn then wq.(i) <- l) wlists;
       (* the refill queue is FIFO with a single consumer: the feeder's G tokens fix the order in
          which the workers must have returned their buffers *)
       let gseq = Array.of_list (Stdlib.List.filter_map (fun t -> if t.[0] = 'G' then Some (int_of_string (Stdlib.String.sub t 1 (Stdlib.String.length t - 1))) else None) !fq) in
       let nbufs = int_of_nat (Par.nbuf plan) in
       let num x = int_of_string (Stdlib.String.sub x 1 (Stdlib.String.length x - 1)) in
       (* a search node: model state, remaining labels per thread, number of buffers returned so far *)
       let step st l = Par.step plan st l in
       let push_ok pushes b = let k = nbufs + pushes in k >= Array.length gseq || gseq.(k) = b in
       (* all ways to consume one label from one thread; the data on the label must agree with the model *)
       let moves (st, fq, hq, mq, wq, pushes) =
         let acc = ref [] in
         let add x = acc := x :: !acc in
         (match fq with
          | [] -> ()
          | t :: r ->
            let fire l = (match step st l with Some s' -> add (s', r, hq, mq, wq, pushes) | None -> ()) in
            (match t.[0] with
             | 'G' -> (match st.Par.s_refill with b :: _ when int_of_nat b = num t -> fire Par.LFRecv | _ -> ())
             | 'N' -> if int_of_nat st.Par.s_next = num t && not (Par.read_fails plan st) && int_of_nat st.Par.s_next < blocks then fire Par.LFRead
             | 'Z' -> if not (Par.read_fails plan st) && int_of_nat st.Par.s_next >= blocks then fire Par.LFRead
             | 'F' -> if Par.read_fails plan st then fire Par.LFRead
             | 'S' -> (match st.Par.s_f with Par.FSend b when int_of_nat b = num t -> fire Par.LFSend | _ -> ())
             | 'T' -> fire Par.LFStop
             | _ -> ()));
         (match hq with
          | [] -> ()
          | t :: r ->
            (match st.Par.s_hashq with
             | Some _ :: _ when t = "D" -> (match step st Par.LHRecv with Some s' -> add (s', fq, r, mq, wq, pushes) | None -> ())
             | None :: _ when t = "E" -> (match step st Par.LHRecv with Some s' -> add (s', fq, r, mq, wq, pushes) | None -> ())
             | _ -> ()));
         (match mq with
          | [] -> ()
          | t :: r ->
            let st0 = if t = "SH" && fq = [] then (match step st Par.LFDone with Some s' -> s' | None -> st) else st in
            let l = (match t with "SH" -> Some Par.LMStopHash | "JH" -> Some Par.LMJoinHash | "JW" -> Some Par.LMJoinWorkers | _ -> None) in
            (match l with
             | Some l -> (match step st0 l with Some s' -> add (s', fq, hq, r, wq, pushes) | None -> ())
             | None -> ()));
         Array.iteri (fun i q ->
           match q with
           | [] -> ()
           | t :: r ->
             let ni = nat_of_int i in
             let wq' () = let a = Array.copy wq in a.(i) <- r; a in
             (match t.[0] with
              | 'R' ->
                (match st.Par.s_encq with
                 | Some b :: _ when t <> "RN" && int_of_nat b = num t -> (match step st (Par.LWRecv ni) with Some s' -> add (s', fq, hq, mq, wq' (), pushes) | None -> ())
                 | None :: _ when t = "RN" -> (match step st (Par.LWRecv ni) with Some s' -> add (s', fq, hq, mq, wq' (), pushes) | None -> ())
                 | _ -> ())
              | 'E' ->
                (match split_on ':' (Stdlib.String.sub t 1 (Stdlib.String.length t - 1)) with
                 | [n; okf] ->
                   let n = int_of_string n in
                   (match Stdlib.List.nth_opt st.Par.s_w i with
                    | Some (Par.WEnc b) ->
                      (match Stdlib.List.nth_opt st.Par.s_bufs (int_of_nat b) with
                       | Some (Some fn) when int_of_nat fn = n && (Stdlib.List.mem n invl) = (okf = "0") && push_ok pushes (int_of_nat b) ->
                         (match step st (Par.LWEnc ni) with Some s' -> add (s', fq, hq, mq, wq' (), pushes + 1) | None -> ())
                       | _ -> ())
                    | _ -> ())
                 | _ -> ())
              | 'P' ->
                (match Stdlib.List.nth_opt st.Par.s_w i with
                 | Some (Par.WPush n) when int_of_nat n = num t -> (match step st (Par.LWPush ni) with Some s' -> add (s', fq, hq, mq, wq' (), pushes) | None -> ())
                 | _ -> ())
              | _ -> ())) wq;
         !acc in
       let remaining (_, fq, hq, mq, wq, _) =
         Stdlib.List.length fq + Stdlib.List.length hq + Stdlib.List.length mq + Array.fold_left (fun a l -> a + Stdlib.List.length l) 0 wq in
       (* depth-first search with memoisation over (positions, model state): complete for "is there a
          linearisation of the per-thread label sequences that the LTS accepts" *)
       let visited = Hashtbl.create 1024 in
       let key ((st, fq, hq, mq, wq, pushes) as _n) =
         (Stdlib.List.length fq, Stdlib.List.length hq, Stdlib.List.length mq, Array.to_list (Array.map Stdlib.List.length wq), pushes, Marshal.to_string st []) in
       let best = ref None in
       let found = ref None in
       let nodes = ref 0 in
       let total = remaining (Par.init plan, !fq, !hq, !mq, wq, 0) in
       let rec dfs node =
         if !found = None && !nodes < 400000 then begin
           incr nodes;
           let k = key node in
           if not (Hashtbl.mem visited k) then begin
             Hashtbl.add visited k ();
             let left = remaining node in
             (match !best with Some (l, _) when l <= left -> () | _ -> best := Some (left, node));
             let (st, _, _, _, _, _) = node in
             if left = 0 && Par.final st then found := Some node
             else Stdlib.List.iter dfs (moves node)
           end
         end in
       dfs (Par.init plan, !fq, !hq, !mq, wq, 0);
       let steps = ref 0 and left = ref 0 in
       let st = ref (Par.init plan) in
       (match !found, !best with
        | Some ((s, _, _, _, _, _) as n), _ -> st := s; left := remaining n; steps := total
        | None, Some (l, (s, f2, h2, m2, _, _)) -> st := s; left := l; steps := total - l; fq := f2; hq := h2; mq := m2
        | None, None -> ());
       let left = !left in
       let outcome o = (match o with Par.OutOk (fr, hs) -> Printf.sprintf "ok:%d:%d" (Stdlib.List.length fr) (Stdlib.List.length hs) | Par.OutConfigErr -> "err-config" | Par.OutSourceErr -> "err-source") in
       if left = 0 && Par.final !st then
         Printf.sprintf "%s valid steps=%d lts=%s seq=%s" id !steps (outcome (Par.result_of !st)) (outcome (Par.seq_result plan))
       else
         Printf.sprintf "%s stuck steps=%d left=%d next=F:%s,H:%s,M:%s seq=%s" id !steps left
           (match !fq with t :: _ -> t | [] -> "-") (match !hq with t :: _ -> t | [] -> "-") (match !mq with t :: _ -> t | [] -> "-")
           (outcome (Par.seq_result plan))
     | _ -> id ^ " bad-case")
  | _ -> id ^ " bad-case"

(* ---- API ---- *)
let run_api id rest =
  let v r = (match r with Ok _ -> "ok" | Err _ -> "err" | Panic _ -> "panic") in
  let n s = n_of_u64_string s in
  match split_on ' ' rest with
  | ["SI"; rate; ch; bps] -> Printf.sprintf "%s %s" id (v (Api.streaminfo_new (n rate) (n ch) (n bps)))
  | ["FB"; ch; size] -> Printf.sprintf "%s %s" id (v (Api.framebuf_with_size (n ch) (n size)))
  | ["FI"; ch; cap; cnt] ->
    let r = Api.api_fill_interleaved (n ch) (n cap) (n cnt) in
    Printf.sprintf "%s %s filled=%d" id (v r) (match r with Ok _ -> int_of_string cnt / int_of_string ch | _ -> 0)
  | ["FL"; ch; cap; bps; len; nb] -> Printf.sprintf "%s %s" id (v (Api.api_fill_le_bytes (n ch) (n cap) (n bps) (n len) (n nb)))
  | ["FR"; fnum; bad] -> Printf.sprintf "%s %s" id (v (Api.api_frame (n fnum) (bad = "0" || bad = "6" || bad = "7")))
  | ["ST"; mt; rate; ch; bps; bs; cnt; bad] ->
    let inrange = (int_of_string bad < 0) || (int_of_string cnt = 0) in
    Printf.sprintf "%s %s" id (v (Api.api_stream (mt = "1") (n rate) (n ch) (n bps) (n bs) inrange))
  | _ -> id ^ " bad-case"

(* ---- CTOR: public constructors ---- *)
let plist (conv : string -> 'a) (s : string) : 'a list =
  if s = "-" then [] else
  Stdlib.List.concat_map (fun it ->
    match split_on '*' it with
    | [v; k] -> Stdlib.List.init (int_of_string k) (fun _ -> conv v)
    | _ -> [conv it]) (split_on ',' s)

let fnv_bytes (l : coq_N list) : string =
  let h = ref 0xcbf29ce484222325L in
  let mulp x = Int64.mul x 0x100000001b3L in
  Stdlib.List.iter (fun b ->
    h := mulp (Int64.logxor !h (Int64.of_int (int_of_n b)));
    h := mulp !h; h := mulp !h; h := mulp !h) l;
  Printf.sprintf "%016Lx" !h

exception Inner_err

let ctor_res (t : string list) : Rice.residual Base.coq_Res =
  match t with
  | [po; block; warm; params; q; r] ->
    Ctor.residual_new (n_of_u64_string po) (n_of_u64_string block) (n_of_u64_string warm)
      (plist n_of_u64_string params) (plist n_of_u64_string q) (plist n_of_u64_string r)
  | _ -> failwith "res args"

let ctor_qp (t : string list) : Predict.qparams Base.coq_Res =
  match t with
  | [coefs; order; shift; prec] ->
    Ctor.qparams_new (plist z_of_i64_string coefs) (n_of_u64_string order) (z_of_i64_string shift) (n_of_u64_string prec)
  | _ -> failwith "qp args"

let rec take k l = if k = 0 then [] else match l with [] -> [] | x :: r -> x :: take (k - 1) r
let rec drop k l = if k = 0 then l else match l with [] -> [] | _ :: r -> drop (k - 1) r

let unwrap_inner r = match r with Ok x -> x | _ -> raise Inner_err

let ctor_sub (t : string list) : Component.subframe Base.coq_Res =
  match t with
  | ["CONST"; block; dc; bps] -> Ctor.constant_new (n_of_u64_string block) (z_of_i64_string dc) (n_of_u64_string bps)
  | ["VERB"; xs; bps] -> Ctor.verbatim_new (plist z_of_i64_string xs) (n_of_u64_string bps)
  | "FIXED" :: warm :: bps :: rest ->
    let res = unwrap_inner (ctor_res rest) in
    Ctor.fixed_new (plist z_of_i64_string warm) res (n_of_u64_string bps)
  | "LPC" :: warm :: bps :: rest ->
    let q = unwrap_inner (ctor_qp (take 4 rest)) in
    let res = unwrap_inner (ctor_res (drop 4 rest)) in
    Ctor.lpc_new (plist z_of_i64_string warm) q res (n_of_u64_string bps)
  | _ -> failwith "sub args"

let ctor_header (t : string list) : Component.header Base.coq_Res =
  match t with
  | [block; cha; bps; rate; kind; off] ->
    let c = match cha with "L" -> Codes.LeftSide | "R" -> Codes.RightSide | "M" -> Codes.MidSide
                         | s -> Codes.Indep (n_of_int ((int_of_string (Stdlib.String.sub s 1 (Stdlib.String.length s - 1))) land 255)) in
    let variable = (kind = "S") in
    let o = n_of_u64_string off in
    let o = if variable then o else n_of_u64 (Int64.logand (Int64.of_string ("0u" ^ off)) 0xFFFFFFFFL) in
    Ctor.header_new (n_of_u64_string block) c (n_of_u64_string bps) (n_of_u64_string rate) variable o
  | _ -> failwith "header args"

let verdict_of_bool b = if b then "1" else "0"

let observe_ops (v : bool) (cb : coq_N) (ops : Sink.op list) (same : coq_N list -> bool) : string =
  match Ctor.written ops with
  | Ok ((bits, bytes)) ->
    Printf.sprintf "ok v=%s cb=%s w=%s p=%s hex=%s" (verdict_of_bool v) (dec_of_n cb) (dec_of_n bits)
      (if same bytes then "same" else "diff")
      (if Stdlib.List.length bytes > 4096 then Printf.sprintf "len%d:%s" (Stdlib.List.length bytes) (fnv_bytes bytes) else hex_of_bytes bytes)
  | Err _ -> Printf.sprintf "ok v=%s cb=%s w=err p=na hex=-" (verdict_of_bool v) (dec_of_n cb)
  | Panic _ -> Printf.sprintf "ok v=%s cb=%s w=panic p=na hex=-" (verdict_of_bool v) (dec_of_n cb)

let split_subs (toks : string list) : string list list =
  let rec go cur acc = function
    | [] -> Stdlib.List.rev (if cur = [] then acc else Stdlib.List.rev cur :: acc)
    | ";" :: r -> go [] (if cur = [] then acc else Stdlib.List.rev cur :: acc) r
    | x :: r -> go (x :: cur) acc r in
  go [] [] toks

let run_ctor id rest =
  let t = split_on ' ' rest in
  let lift r k = match r with Ok c -> k c | Err _ -> "err" | Panic _ -> "panic" in
  let body =
    try
      (match t with
       | "RES" :: a -> lift (ctor_res a) (fun r ->
           observe_ops (Ctor.verify_residual r) (Component.residual_count_bits r) (Component.residual_ops r)
             (fun bytes -> match Parser.p_residual r.Rice.r_block r.Rice.r_warmup (Flac.rd_of bytes) with
                | Some ((r', _)) -> r' = r | None -> false))
       | "QP" :: a -> lift (ctor_qp a) (fun q -> Printf.sprintf "ok v=%s cb=0 w=0 p=na hex=-" (verdict_of_bool (Ctor.verify_qparams q)))
       | ("CONST" | "VERB" | "FIXED" | "LPC") :: _ -> lift (ctor_sub t) (fun s ->
           observe_ops (Ctor.verify_subframe s) (Component.subframe_count_bits s) (Component.subframe_ops s)
             (fun bytes -> match Parser.p_subframe (Ctor.sub_block s) (Ctor.sub_bps s) (Flac.rd_of bytes) with
                | Some ((s', _)) -> s' = s | None -> false))
       | "FH" :: a -> lift (ctor_header a) (fun h ->
           match Component.header_ops h with
           | Ok ops -> observe_ops (Ctor.verify_header h) (Component.header_count_bits h) ops
                         (fun bytes -> match Parser.p_frame_header bytes (Flac.rd_of bytes) with
                            | Some ((h', _)) -> h' = h | None -> false)
           | _ -> Printf.sprintf "ok v=%s cb=%s w=err p=na hex=-" (verdict_of_bool (Ctor.verify_header h)) (dec_of_n (Component.header_count_bits h)))
       | "FRAME" :: a ->
         let h = unwrap_inner (ctor_header (take 6 a)) in
         let subs = Stdlib.List.map (fun st -> unwrap_inner (ctor_sub st)) (split_subs (drop 6 a)) in
         lift (Ctor.frame_new h subs) (fun f ->
           let bps = (match Parser.bits_of_ss_tag h.Component.h_ss_tag with Some b -> b | None -> n_of_int 16) in
           match Component.frame_ops f with
           | Ok ops -> observe_ops (Ctor.verify_frame f) (Component.frame_count_bits f) ops
                         (fun bytes -> match Parser.p_frame (Codes.chassign_channels h.Component.h_ch) bps bytes with
                            | Some ((f', [])) -> f' = f | _ -> false)
           | _ -> Printf.sprintf "ok v=%s cb=%s w=err p=na hex=-" (verdict_of_bool (Ctor.verify_frame f)) (dec_of_n (Component.frame_count_bits f)))
       | ["SI"; rate; ch; bps] -> lift (Ctor.streaminfo_ctor (n_of_u64_string rate) (n_of_u64_string ch) (n_of_u64_string bps)) (fun i ->
           observe_ops (Ctor.verify_streaminfo i) (n_of_int 272) (Component.streaminfo_ops i)
             (fun bytes -> match Parser.p_stream_info (Flac.rd_of bytes) with
                | Some ((i', _)) -> i' = i | None -> false))
       | ["UNK"; tag; len] ->
         let n = int_of_string len in
         let tg = (int_of_string tag) land 255 in
         if n > 5000 then
           (* the payload is not materialised in the model: only its length matters to the constructor *)
           (if tg >= 1 && tg <= 126 && n < 16777216 then Printf.sprintf "ok v=1 cb=%d w=%d p=same hex=big" (8 * n) (8 * n) else "err")
         else
           let data = Stdlib.List.init n (fun i -> n_of_int ((i * 7 + tg) mod 256)) in
           lift (Ctor.unknown_new (n_of_int tg) data) (fun m ->
             let ((tag', data')) = m in
             let same _ =
               (match Ctor.streaminfo_ctor (n_of_int 44100) (n_of_int 1) (n_of_int 16) with
                | Ok info ->
                  let s = { Component.s_info = info; s_meta = [(tag', data')]; s_frames = [] } in
                  (match Component.stream_bytes s with
                   | Ok b -> (match Parser.parse_stream b with Some s' -> s' = s | None -> false)
                   | _ -> false)
                | _ -> false) in
             match Ctor.written [Sink.OBytes data'] with
             | Ok ((bits, bytes)) ->
               Printf.sprintf "ok v=1 cb=%d w=%s p=%s hex=len%d:%s" (8 * n) (dec_of_n bits) (if same () then "same" else "diff") (Stdlib.List.length bytes) (fnv_bytes bytes)
             | _ -> "ok v=1 cb=0 w=err p=na hex=-")
       | _ -> "bad-case")
    with Inner_err -> "err-inner" in
  id ^ " " ^ body

(* ---- HIST: the model has no history; every call is evaluated on its own ---- *)
let hist_call (kind : string) (body : string) : string =
  let (main, orc) = match Str.bounded_split_delim (Str.regexp_string " |") body 2 with
    | [a; b] -> (a, Stdlib.String.trim b) | [a] -> (a, "") | _ -> failwith "hist case" in
  if orc = "ORACLE-PANIC" then "oracle-panic" else
  if kind = "X" then "xfail" else
  if kind = "Z" then "poison" else
  match split_on ' ' main with
  | [cfg; rate; ch; bps; bs; samples] ->
    let cfg = parse_cfg cfg in
    let (entf, qf, missing) = parse_oracles (split_on ' ' orc) in
    let n s = n_of_int (int_of_string s) in
    let all = parse_samples samples in
    let frame_only = (kind = "F" && all <> []) in
    let per = int_of_string bs * int_of_string ch in
    let smp = if frame_only then take per all else all in
    let r = Encoder.encode_stream entf qf md5_oracle cfg (n rate) (n ch) (n bps) (n bs) smp in
    (match r with
     | Ok s ->
       (match Component.stream_bytes s with
        | Ok bytes -> (if frame_only then fnv_raw (drop 42 bytes) else fnv_raw bytes) ^ (if !missing then "ORACLE-MISSING" else "")
        | Err e -> err_name e
        | Panic _ -> "panic")
     | Err e -> if frame_only then "err-frame" else err_name e
     | Panic _ -> "panic")
  | _ -> "bad-case"

let run_hist id rest =
  let bodies = Str.split (Str.regexp_string " ;; ") rest in
  let hs = Stdlib.List.map (fun b ->
    match Str.bounded_split (Str.regexp_string " ") b 2 with
    | [k; body] -> hist_call k body
    | _ -> "bad-case") bodies in
  let l = Stdlib.String.concat "," hs in
  Printf.sprintf "%s seq=%s fresh=%s" id l l

(* ---- SCR: scratch clients on explicit stale contents ---- *)
let nl s = if s = "-" then [] else Stdlib.List.map n_of_u64_string (split_on ',' s)
let zl s = if s = "-" then [] else Stdlib.List.map z_of_i64_string (split_on ',' s)
let fmt_nl l = if l = [] then "-" else Stdlib.String.concat "," (Stdlib.List.map dec_of_n l)

let run_scr id rest =
  match split_on ' ' rest with
  | ["RICE"; _se; _nt; sp; sm; warm; maxp; signal] ->
    let st = { Scratch.fd_errors = []; fd_ps = nl sp; fd_min_ps = nl sm } in
    (match Scratch.sfind st (parse_samples signal) (n_of_u64_string warm) (n_of_u64_string maxp) with
     | Ok (st', r) ->
       Printf.sprintf "%s ok %s %s %s | %s | %s" id (dec_of_n r.Rice.prc_order) (fmt_nl r.Rice.prc_ps) (dec_of_n r.Rice.prc_bits)
         (fmt_nl st'.Scratch.fd_ps) (fmt_nl st'.Scratch.fd_min_ps)
     | Err _ -> id ^ " err" | Panic _ -> id ^ " panic")
  | ["QERR"; stale; coefs; shift; prec; signal] ->
    let q = { Predict.q_coefs = zl coefs; q_shift = z_of_int (int_of_string shift); q_precision = n_of_int (int_of_string prec) } in
    (match Scratch.qlpc_error_buffer (zl stale) q (zl signal) with
     | Ok e -> Printf.sprintf "%s ok %s" id (fmt_z_list e)
     | Err _ -> id ^ " err" | Panic _ -> id ^ " panic")
  | ["PLANES"; stale; signal] ->
    let st = Stdlib.List.map (fun x -> Scratch.sv_reset_from_slice (zl x)) (split_on '/' stale) in
    let planes = Scratch.reset_planes st (parse_samples signal) in
    let body = Stdlib.List.map (fun p ->
      Printf.sprintf "%d:%s" (int_of_nat p.Scratch.sv_len) (fmt_z_list (Stdlib.List.concat p.Scratch.sv_inner))) planes in
    Printf.sprintf "%s ok %s" id (Stdlib.String.concat " " body)
  | ["CACHE"; reqs] ->
    let rq = Stdlib.List.map (fun x -> match split_on ':' x with
      | [a; sz] -> ((if a = "r" then None else Some (n_of_u64_string a)), n_of_u64_string sz) | _ -> failwith "cache req") (split_on ',' reqs) in
    (* the value of a window is abstract in the model: the computation is the identity on its arguments *)
    let vals = Scratch.run_cache (fun w sz -> (w, sz)) Scratch.exact_key [] rq in
    let good = Stdlib.List.length (Stdlib.List.filter (fun (a, b) -> a = b) (Stdlib.List.combine vals rq)) in
    Printf.sprintf "%s ok %d/%d" id good (Stdlib.List.length rq)
  | ["KEY"; lo; hi] ->
    let l = n_of_u64_string lo and h = n_of_u64_string hi in
    Printf.sprintf "%s ok mismatches=0 n=%s first=%s last=%s rect=%s" id (dec_of_n (BinNat.N.sub h l))
      (dec_of_n (Scratch.fingerprint (Some l))) (dec_of_n (Scratch.fingerprint (Some (BinNat.N.sub h (n_of_int 1)))))
      (dec_of_n (Scratch.fingerprint None))
  | _ -> id ^ " bad-case"

let run_line (line : string) : string =
  match split_on ' ' line with
  | stream :: id :: _ ->
    let plen = Stdlib.String.length stream + 1 + Stdlib.String.length id in
    let rest = if Stdlib.String.length line > plen then Stdlib.String.sub line (plen + 1) (Stdlib.String.length line - plen - 1) else "" in
    (try
      (match stream with
       | "SINK" -> run_sink id rest
       | "ENC" -> run_enc id rest
       | "DLV" -> (match Str.bounded_split (Str.regexp_string " ") rest 2 with
                   | [mode; r2] ->
                     (* hint digit 2: the source's length hint is wrong (outside the domain of the model) *)
                     if Stdlib.String.length mode > 1 && mode.[1] = '2' then id ^ " ok model-not-consulted" else run_enc id r2
                   | _ -> id ^ " bad-case")
       | "DEC" -> run_dec id rest
       | "CNT" -> run_cnt id rest
       | "FAIL" -> run_fail id rest
       | "SRC" -> run_src id rest
       | "CFG" -> run_cfg id rest
       | "PARSE" -> run_parse id rest
       | "PARTRACE" -> run_partrace id rest
       | "API" -> run_api id rest
       | "CTOR" -> run_ctor id rest
       | "HIST" -> run_hist id rest
       | "SCR" -> run_scr id rest
       | "RICE" -> run_rice id rest
       | _ -> id ^ " unknown-stream")
     with Stack_overflow -> id ^ " model-stack-overflow")
  | _ -> "bad-line"

let () =
  try
    while true do
      let line = input_line stdin in
      if Stdlib.String.length line > 0 && line.[0] <> '#' then print_endline (run_line line)
    done
  with End_of_file -> ()
