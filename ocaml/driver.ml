(* Drives the extracted model on a case file; prints one canonical line per case. *)
open BinNums
open Datatypes
open Base
open Sink
open Conv

let parse_sink_op (tok : string) : op =
  match split_on ':' tok with
  | ["W"; w; v] -> OWrite (n_of_int (int_of_string w), n_of_u64_string v)
  | ["M"; w; v; n] -> OMsbs (n_of_int (int_of_string w), n_of_u64_string v, n_of_int (int_of_string n))
  | ["L"; w; v; n] -> OLsbs (n_of_int (int_of_string w), n_of_u64_string v, n_of_int (int_of_string n))
  | ["T"; v; n] -> OTwoc (z_of_i64_string v, n_of_int (int_of_string n))
  | ["Z"; n] -> OZeros (n_of_int (int_of_string n))
  | ["A"] -> OAlign
  | ["B"; h] -> OBytes (hexbytes h)
  | ["B"] -> OBytes []
  | _ -> failwith ("bad sink op " ^ tok)

let run_sink id rest =
  let toks = Stdlib.List.filter (fun s -> s <> "") (split_on ' ' rest) in
  match toks with
  | kind :: ops ->
    let ops = Stdlib.List.map parse_sink_op ops in
    (match kind with
     | "user" ->
       (match Sink.user_run ops with
        | Ok b -> Printf.sprintf "%s ok %d %s" id (int_of_n b.blen_i) (hex_of_n b.bval)
        | _ -> Printf.sprintf "%s panic" id)
     | _ ->
       let k = if kind = "u8" then KU8 else KU64 in
       (match Sink.run k ops with
        | Ok s ->
          Printf.sprintf "%s ok %d [%s] %s" id (int_of_n s.blen)
            (Stdlib.String.concat "," (Stdlib.List.map hex_of_n (Sink.storage s)))
            (hex_of_bytes (Sink.export_bytes k s))
        | _ -> Printf.sprintf "%s panic" id))
  | [] -> id ^ " bad-case"

let run_line (line : string) : string =
  match split_on ' ' line with
  | stream :: id :: _ ->
    let plen = Stdlib.String.length stream + 1 + Stdlib.String.length id in
    let rest = if Stdlib.String.length line > plen then Stdlib.String.sub line (plen + 1) (Stdlib.String.length line - plen - 1) else "" in
    (try
      (match stream with
       | "SINK" -> run_sink id rest
       | _ -> id ^ " unknown-stream")
     with Stack_overflow -> id ^ " model-stack-overflow")
  | _ -> "bad-line"

let () =
  try
    while true do
      let line = input_line stdin in
      if Stdlib.String.length line > 0 && line.[0] <> '#' then print_endline (run_line line)
    done
  with End_of_file -> ()
