(* Conversions between OCaml ints/strings and the extracted inductive numbers. *)
open BinNums
open Datatypes

let rec pos_of_int (i : int) : positive =
  if i = 1 then Coq_xH else if i land 1 = 0 then Coq_xO (pos_of_int (i lsr 1)) else Coq_xI (pos_of_int (i lsr 1))
let n_of_int (i : int) : coq_N = if i = 0 then N0 else if i < 0 then failwith "n_of_int<0" else Npos (pos_of_int i)
let z_of_int (i : int) : coq_Z = if i = 0 then Z0 else if i > 0 then Zpos (pos_of_int i) else Zneg (pos_of_int (- i))
let rec int_of_pos (p : positive) : int = match p with Coq_xH -> 1 | Coq_xO q -> 2 * int_of_pos q | Coq_xI q -> 2 * int_of_pos q + 1
let int_of_n (x : coq_N) : int = match x with N0 -> 0 | Npos p -> int_of_pos p
let int_of_z (x : coq_Z) : int = match x with Z0 -> 0 | Zpos p -> int_of_pos p | Zneg p -> - (int_of_pos p)
let rec nat_of_int (i : int) : nat = if i <= 0 then O else S (nat_of_int (i - 1))
let rec int_of_nat (x : nat) : int = match x with O -> 0 | S k -> 1 + int_of_nat k

(* unsigned 64-bit value given as Int64 bit pattern *)
let n_of_u64 (x : int64) : coq_N =
  let rec go (k : int) : positive option =
    (* builds bits k..63, least significant first *)
    if k >= 64 then None else
    let b = Int64.logand (Int64.shift_right_logical x k) 1L = 1L in
    match go (k + 1) with
    | None -> if b then Some Coq_xH else None
    | Some p -> Some (if b then Coq_xI p else Coq_xO p) in
  match go 0 with None -> N0 | Some p -> Npos p
let n_of_u64_string (s : string) : coq_N = n_of_u64 (Int64.of_string ("0u" ^ s))
let z_of_i64 (x : int64) : coq_Z =
  if x = 0L then Z0
  else if Int64.compare x 0L > 0 then (match n_of_u64 x with Npos p -> Zpos p | N0 -> Z0)
  else (match n_of_u64 (Int64.neg x) with Npos p -> Zneg p | N0 -> Z0)  (* neg of MIN is MIN: bit pattern 2^63, fine *)
let z_of_i64_string (s : string) : coq_Z = z_of_i64 (Int64.of_string s)

let hex_of_n (x : coq_N) : string =
  match x with
  | N0 -> "0"
  | Npos p ->
    (* collect bits LSB first *)
    let rec bits p acc = match p with Coq_xH -> 1 :: acc | Coq_xO q -> bits q (0 :: acc) | Coq_xI q -> bits q (1 :: acc) in
    (* bits p [] returns MSB first? we cons as we go down: first consed is LSB, last is MSB => list is MSB first *)
    let bl = bits p [] in
    let len = Stdlib.List.length bl in
    let padn = (4 - len mod 4) mod 4 in
    let bl = Stdlib.List.init padn (fun _ -> 0) @ bl in
    let buf = Buffer.create (len / 4 + 1) in
    let rec go l = match l with
      | a :: b :: c :: d :: r -> Buffer.add_char buf "0123456789abcdef".[a * 8 + b * 4 + c * 2 + d]; go r
      | _ -> () in
    go bl; Buffer.contents buf
let n_of_hex (s : string) : coq_N =
  let acc = ref None in
  Stdlib.String.iter (fun c ->
    let d = match c with '0'..'9' -> Char.code c - 48 | 'a'..'f' -> Char.code c - 87 | 'A'..'F' -> Char.code c - 55 | _ -> failwith "hex" in
    for i = 3 downto 0 do
      let b = (d lsr i) land 1 = 1 in
      acc := (match !acc with
        | None -> if b then Some Coq_xH else None
        | Some p -> Some (if b then Coq_xI p else Coq_xO p))
    done) s;
  match !acc with None -> N0 | Some p -> Npos p

let split_on c s = Stdlib.String.split_on_char c s
let hexbytes (s : string) : coq_N list =
  Stdlib.List.init (Stdlib.String.length s / 2) (fun i -> n_of_int (int_of_string ("0x" ^ Stdlib.String.sub s (2 * i) 2)))
let hex_of_bytes (l : coq_N list) : string =
  if l = [] then "-" else Stdlib.String.concat "" (Stdlib.List.map (fun b -> Printf.sprintf "%02x" (int_of_n b)) l)

(* decimal printing of an arbitrary N (values above max_int appear in CNT) *)
let dec_of_n (x : coq_N) : string =
  let h = hex_of_n x in
  if Stdlib.String.length h <= 15 then string_of_int (int_of_string ("0x" ^ h))
  else begin
    (* schoolbook base conversion on a digit array *)
    let digits = ref [0] in   (* little-endian decimal digits *)
    Stdlib.String.iter (fun c ->
      let d = int_of_string ("0x" ^ Stdlib.String.make 1 c) in
      let carry = ref d in
      digits := Stdlib.List.map (fun x -> let v = x * 16 + !carry in carry := v / 10; v mod 10) !digits;
      while !carry > 0 do digits := !digits @ [!carry mod 10]; carry := !carry / 10 done) h;
    Stdlib.String.concat "" (Stdlib.List.rev_map string_of_int !digits)
  end
