(* C16: bursts that touch the CRC field itself.  A frame (header) is accepted when the stored field equals the
   CRC of the bytes before it; for this zero-initialised, non-reflected CRC that is the same as "the remainder of
   message ++ field is zero", so a burst anywhere in message ++ field - inside the message, inside the field or
   straddling the boundary - is detected. *)
From FV Require Import Model.Base Model.Crc Proofs.SinkArith Proofs.CrcP Proofs.CrcBurst.
Local Open Scope N_scope.

Section Field.
  Variable w : N.
  Variable poly : N.
  Hypothesis Hw : 1 <= w.
  Hypothesis Hpoly : poly < 2 ^ w.
  Variable W : nat.
  Hypothesis HW : N.of_nat W = w.
  Hypothesis sweep_zero_step : forall reg, 0 < reg < 2 ^ w -> step w poly reg false <> 0.
  Hypothesis sweep_burst : forall p, length p = W -> existsb (fun b => b) p = true -> run w poly 0 p <> 0.
  (* loading a value through the data input from the zero register = starting from that value and shifting zeros *)
  Hypothesis sweep_load : forall c, c < 2 ^ w -> run w poly 0 (byte_bits W c) = run w poly c (repeat false W).

  Lemma zipxor_zeros_l : forall (l : list bool), zipxor (repeat false (length l)) l = l.
  Proof. induction l as [|b t IH]; [reflexivity|]. cbn [length repeat zipxor]. rewrite IH. destruct b; reflexivity. Qed.

  Lemma zipxor_zeros_zeros n : zipxor (repeat false n) (repeat false n) = repeat false n.
  Proof. rewrite <- (repeat_length false n) at 1. apply zipxor_zeros_l. Qed.

  Lemma byte_bits_length : forall k b, length (byte_bits k b) = k.
  Proof. induction k as [|k IH]; intros b; cbn [byte_bits length]; [reflexivity | rewrite IH; reflexivity]. Qed.

  Lemma run_field r c : c < 2 ^ w ->
    run w poly r (byte_bits W c) = run w poly (N.lxor r c) (repeat false W).
  Proof.
    intros Hc.
    rewrite <- (zipxor_zeros_l (byte_bits W c)), byte_bits_length.
    rewrite <- (N.lxor_0_r r) at 1.
    rewrite (run_linear w poly Hw Hpoly (repeat false W) (byte_bits W c) r 0) by (rewrite repeat_length, byte_bits_length; reflexivity).
    rewrite (sweep_load c Hc).
    rewrite <- (zipxor_zeros_zeros W) at 3.
    rewrite (run_linear w poly Hw Hpoly (repeat false W) (repeat false W) r c) by reflexivity. reflexivity.
  Qed.

  Lemma lxor_lt a b : a < 2 ^ w -> b < 2 ^ w -> N.lxor a b < 2 ^ w.
  Proof.
    intros Ha Hb. destruct (N.eq_dec (N.lxor a b) 0) as [->|Hnz]; [apply pow2_pos|].
    apply N.log2_lt_pow2; [lia|].
    eapply N.le_lt_trans; [apply N.log2_lxor|].
    destruct (N.eq_dec a 0) as [->|Ha0]; destruct (N.eq_dec b 0) as [->|Hb0]; cbn [N.log2 N.max];
      try (apply N.max_lub_lt); try (apply N.log2_lt_pow2; lia); try lia.
    all: rewrite ?N.max_0_l, ?N.max_0_r; try (apply N.log2_lt_pow2; lia).
    all: exfalso; apply Hnz; reflexivity.
  Qed.

  (* the acceptance test of the format *)
  Theorem field_accept_iff r c : r < 2 ^ w -> c < 2 ^ w ->
    (run w poly r (byte_bits W c) = 0 <-> r = c).
  Proof.
    intros Hr Hc. rewrite (run_field r c Hc). split.
    - intros H0. apply N.lxor_eq.
      destruct (N.eq_dec (N.lxor r c) 0) as [e|ne]; [exact e|]. exfalso.
      apply (zeros_preserve_nonzero w poly Hw Hpoly W HW sweep_zero_step W (N.lxor r c)); [|exact H0].
      pose proof (lxor_lt r c Hr Hc). lia.
    - intros ->. rewrite N.lxor_nilpotent. apply run_zeros_zero.
  Qed.

  (* a burst anywhere in message ++ field makes the stored field differ from the CRC of the altered message *)
  Theorem field_burst_detected (m m' : list bool) (c' : N) i j p :
    length m = length m' -> c' < 2 ^ w ->
    zipxor (m ++ byte_bits W (run w poly 0 m)) (m' ++ byte_bits W c') = repeat false i ++ p ++ repeat false j ->
    length p = W -> existsb (fun b => b) p = true ->
    c' <> run w poly 0 m'.
  Proof.
    intros Hl Hc' Hd Hlp Hp Heq.
    assert (Hlt : forall l, run w poly 0 l < 2 ^ w) by (intros l; apply run_lt; [exact Hpoly | apply pow2_pos]).
    apply (burst_detected w poly Hw Hpoly W HW sweep_zero_step sweep_burst _ _ i j p) in Hd; try assumption.
    - apply Hd. rewrite !run_app.
      rewrite (proj2 (field_accept_iff _ _ (Hlt m) (Hlt m)) eq_refl).
      rewrite Heq. rewrite (proj2 (field_accept_iff _ _ (Hlt m') (Hlt m')) eq_refl). reflexivity.
    - rewrite !app_length, !byte_bits_length, Hl. reflexivity.
  Qed.
End Field.

(* ---- instantiation: the facts of Proofs/CrcBurst.v ---- *)
Definition crc16_sweeps := crc16_facts.
Definition crc8_sweeps := crc8_facts.

(* bit level: message bits followed by the stored field, MSB first *)
Theorem crc16_field_burst_detected (m m' : list bool) (c' : N) i j p :
  length m = length m' -> c' < 2 ^ 16 ->
  zipxor (m ++ byte_bits 16 (run 16 32773 0 m)) (m' ++ byte_bits 16 c') = repeat false i ++ p ++ repeat false j ->
  length p = 16%nat -> existsb (fun b => b) p = true ->
  c' <> run 16 32773 0 m'.
Proof.
  destruct crc16_sweeps as (S1 & S2 & S3).
  exact (field_burst_detected 16 32773 ltac:(lia) ltac:(reflexivity) 16%nat eq_refl S1 S2 S3 m m' c' i j p).
Qed.

Theorem crc8_field_burst_detected (m m' : list bool) (c' : N) i j p :
  length m = length m' -> c' < 2 ^ 8 ->
  zipxor (m ++ byte_bits 8 (run 8 7 0 m)) (m' ++ byte_bits 8 c') = repeat false i ++ p ++ repeat false j ->
  length p = 8%nat -> existsb (fun b => b) p = true ->
  c' <> run 8 7 0 m'.
Proof.
  destruct crc8_sweeps as (S1 & S2 & S3).
  exact (field_burst_detected 8 7 ltac:(lia) ltac:(reflexivity) 8%nat eq_refl S1 S2 S3 m m' c' i j p).
Qed.

(* the acceptance tests themselves *)
Theorem crc16_accept_iff (m : list bool) (c : N) : c < 2 ^ 16 ->
  (run 16 32773 0 (m ++ byte_bits 16 c) = 0 <-> c = run 16 32773 0 m).
Proof.
  intros Hc. destruct crc16_sweeps as (S1 & S2 & S3). rewrite run_app.
  pose proof (field_accept_iff 16 32773 ltac:(lia) ltac:(reflexivity) 16%nat eq_refl S1 S3 (run 16 32773 0 m) c
                ltac:(apply run_lt; [reflexivity | apply pow2_pos]) Hc) as H.
  split; intros H'; [symmetry; apply H; exact H' | apply H; symmetry; exact H'].
Qed.

(* byte level, as the frame footer is laid out: body bytes, then the CRC-16 big-endian *)
Definition bytes_bits8 (l : list N) : list bool := flat_map (byte_bits 8) l.

Lemma byte_bits_split16 c : byte_bits 16 c = byte_bits 8 (c / 256) ++ byte_bits 8 (c mod 256).
Proof.
  change 256 with (2 ^ 8). cbn [byte_bits app].
  rewrite !N.div_pow2_bits. rewrite !N.mod_pow2_bits_low by (cbn; lia).
  repeat f_equal.
Qed.

Theorem crc16_footer_burst_detected (body body' : list N) (c' : N) i j p :
  length body = length body' -> c' < 2 ^ 16 ->
  zipxor (bytes_bits8 (body ++ [crc16 body / 256; crc16 body mod 256]))
         (bytes_bits8 (body' ++ [c' / 256; c' mod 256])) = repeat false i ++ p ++ repeat false j ->
  length p = 16%nat -> existsb (fun b => b) p = true ->
  c' <> crc16 body'.
Proof.
  intros Hl Hc Hd Hlp Hp. unfold crc16. rewrite crc_is_run. fold (bytes_bits8 body').
  unfold bytes_bits8 in Hd. rewrite !flat_map_app in Hd. cbn [flat_map] in Hd. rewrite !app_nil_r in Hd.
  rewrite <- !byte_bits_split16 in Hd. unfold crc16 in Hd. rewrite crc_is_run in Hd.
  apply (crc16_field_burst_detected (flat_map (byte_bits 8) body) (flat_map (byte_bits 8) body') c' i j p); try assumption.
  clear -Hl. revert body' Hl. induction body as [|b t IH]; intros [|b' t'] Hl; cbn in Hl; try discriminate; [reflexivity|].
  cbn [flat_map]. rewrite !app_length, !byte_bits_length. f_equal. apply IH. lia.
Qed.
