(* C13: the Rice parameter / partition-order search is cost-optimal over its search space
   whenever the optimum is below the saturation bound. *)
From FV Require Import Generated Model.Base Model.Rice Proofs.SinkArith.
Local Open Scope N_scope.

(* ---- saturation ---- *)

Lemma sat_le x : sat x <= x.
Proof. unfold sat. lia. Qed.

Lemma sat_le_SAT x : sat x <= SAT.
Proof. unfold sat. lia. Qed.

Lemma sat_id x : x <= SAT -> sat x = x.
Proof. unfold sat. lia. Qed.

Lemma sat_mono x y : x <= y -> sat x <= sat y.
Proof. unfold sat. lia. Qed.

Lemma sat_lt_exact x : sat x < SAT -> sat x = x.
Proof. unfold sat. lia. Qed.

Lemma sat_merge x y : 4 <= x -> 4 <= y -> sat (sat x + sat y - 4) = sat (x + y - 4).
Proof.
  assert (HS : 4 <= SAT) by (vm_compute; discriminate).
  unfold sat. lia.
Qed.

(* ---- exact cost ---- *)

Lemma exact_cost_ge4 es p : 4 <= exact_cost es p.
Proof. unfold exact_cost. lia. Qed.

Lemma exact_cost_app a b p : exact_cost (a ++ b) p = exact_cost a p + exact_cost b p - 4.
Proof.
  unfold exact_cost. rewrite app_length, map_app, Nat2N.inj_add.
  assert (E : forall x y : list N, sumN (x ++ y) = sumN x + sumN y).
  { unfold sumN. induction x as [|h t IH]; intros y; cbn [app fold_right]; [reflexivity|]. rewrite IH. lia. }
  rewrite E. lia.
Qed.

(* ---- tables ---- *)

Definition T (es : list N) : table := table_from_errors es.

Lemma combine_map_same {A B C} (f : A -> B) (g : A -> C) l :
  combine (map f l) (map g l) = map (fun x => (f x, g x)) l.
Proof. induction l as [|x t IH]; cbn [map combine]; [reflexivity|]. rewrite IH. reflexivity. Qed.

Lemma table_merge_app a b : table_merge (T a) (T b) = T (a ++ b).
Proof.
  unfold T, table_merge, table_from_errors.
  rewrite combine_map_same. rewrite map_map.
  apply map_ext. intros p. cbn [fst snd].
  rewrite sat_merge by apply exact_cost_ge4. rewrite exact_cost_app. reflexivity.
Qed.

Fixpoint concat_pairs (ps : list (list N)) : list (list N) :=
  match ps with
  | a :: b :: r => (a ++ b) :: concat_pairs r
  | _ => []
  end.

Lemma merge_pairs_T : forall (n : nat) (parts : list (list N)), (length parts <= n)%nat ->
  merge_pairs (map T parts) = map T (concat_pairs parts).
Proof.
  induction n as [|n IH]; intros parts Hn.
  - destruct parts; [reflexivity | cbn in Hn; lia].
  - destruct parts as [|a [|b r]]; try reflexivity.
    cbn [map merge_pairs concat_pairs]. rewrite table_merge_app. f_equal.
    apply IH. cbn [length] in Hn. lia.
Qed.

(* ---- minimizer ---- *)

Definition tget (t : table) (p : N) : N := nth (N.to_nat p) t 0.

Lemma minimizer_go_spec : forall t p maxp bp bb rp rb,
  minimizer_go t p maxp bp bb = (rp, rb) ->
  rb <= bb /\
  (forall i, (i < length t)%nat -> p + N.of_nat i <= maxp -> rb <= nth i t 0) /\
  ((rp, rb) = (bp, bb) \/
   exists i, (i < length t)%nat /\ p + N.of_nat i <= maxp /\ rp = p + N.of_nat i /\ rb = nth i t 0).
Proof.
  induction t as [|x r IH]; intros p maxp bp bb rp rb E; cbn [minimizer_go] in E.
  - inversion E; subst. split; [lia|]. split; [intros i Hi; cbn in Hi; lia | left; reflexivity].
  - destruct (N.ltb_spec maxp p) as [Hmp|Hmp].
    + inversion E; subst. split; [lia|]. split; [intros i Hi Hle; lia | left; reflexivity].
    + destruct (N.ltb_spec x bb) as [Hx|Hx].
      * destruct (IH _ _ _ _ _ _ E) as (H1 & H2 & H3).
        split; [lia|]. split.
        -- intros [|i] Hi Hle; cbn [nth]; [lia|]. apply H2; [cbn in Hi; lia | lia].
        -- right. destruct H3 as [H3|(i & Hi & Hle & Hp & Hb)].
           ++ inversion H3; subst. exists 0%nat. cbn [nth length]. repeat split; try lia.
           ++ exists (S i). cbn [nth length]. repeat split; try lia.
      * destruct (IH _ _ _ _ _ _ E) as (H1 & H2 & H3).
        split; [lia|]. split.
        -- intros [|i] Hi Hle; cbn [nth]; [lia|]. apply H2; [cbn in Hi; lia | lia].
        -- destruct H3 as [H3|(i & Hi & Hle & Hp & Hb)]; [left; assumption|].
           right. exists (S i). cbn [nth length]. repeat split; try lia.
Qed.

Lemma minimizer_full t maxp rp rb :
  (0 < length t)%nat -> minimizer t maxp = (rp, rb) ->
  (N.to_nat rp < length t)%nat /\ rp <= maxp /\ rb = tget t rp /\
  (forall p, (N.to_nat p < length t)%nat -> p <= maxp -> rb <= tget t p).
Proof.
  intros Hlen E. unfold minimizer in E. destruct t as [|x r]; [cbn in Hlen; lia|].
  destruct (minimizer_go_spec _ _ _ _ _ _ _ E) as (H1 & H2 & H3). unfold tget.
  destruct H3 as [H3|(i & Hi & Hle & Hp & Hb)].
  - inversion H3; subst. cbn [length nth N.to_nat]. repeat split; try lia.
    intros p Hp Hpm. destruct (N.to_nat p) as [|k] eqn:Ek; cbn [nth]; [lia|].
    apply H2; [cbn [length] in Hp; lia | lia].
  - subst rp rb. replace (N.to_nat (1 + N.of_nat i)) with (S i) by lia. cbn [nth length].
    repeat split; try lia.
    intros p Hp Hpm. destruct (N.to_nat p) as [|k] eqn:Ek; cbn [nth].
    + specialize (H2 i Hi Hle). lia.
    + apply H2; [cbn [length] in Hp; lia | lia].
Qed.

Lemma T_length es : length (T es) = 16%nat.
Proof. reflexivity. Qed.

Lemma tget_T es p : p <= 15 -> tget (T es) p = sat (exact_cost es p).
Proof.
  intros Hp. unfold tget, T, table_from_errors.
  assert (Hl : (N.to_nat p < 16)%nat) by lia.
  destruct (N.to_nat p) as [|[|[|[|[|[|[|[|[|[|[|[|[|[|[|[|k]]]]]]]]]]]]]]]] eqn:E; try lia;
    cbn [nth map lanes];
    match goal with |- sat (exact_cost es ?c) = _ => replace p with c by lia; reflexivity end.
Qed.

(* cost of coding partition es with parameter p, as the table sees it *)
Definition scost (es : list N) (p : N) : N := sat (exact_cost es p).

Lemma minimizer_T es maxp rp rb :
  minimizer (T es) maxp = (rp, rb) ->
  rp <= maxp /\ rp <= 15 /\ rb = scost es rp /\ (forall p, p <= maxp -> p <= 15 -> rb <= scost es p).
Proof.
  intros E. destruct (minimizer_full (T es) maxp rp rb ltac:(rewrite T_length; lia) E) as (H1 & H2 & H3 & H4).
  rewrite T_length in H1. assert (Hr : rp <= 15) by lia.
  rewrite tget_T in H3 by assumption.
  repeat split; try assumption.
  intros p Hp H15. unfold scost. rewrite <- tget_T by assumption. apply H4; [rewrite T_length; lia | assumption].
Qed.

(* ---- one level: eval_partitions ---- *)

Definition level_cost (cost : list N -> N -> N) (parts : list (list N)) (ps : list N) : N :=
  sumN (map (fun pp => cost (fst pp) (snd pp)) (combine parts ps)).

Lemma eval_partitions_spec parts maxp ps bits :
  eval_partitions (map T parts) maxp = (ps, bits) ->
  length ps = length parts /\ Forall (fun p => p <= maxp /\ p <= 15) ps /\
  bits = level_cost scost parts ps /\
  (forall qs, length qs = length parts -> Forall (fun p => p <= maxp /\ p <= 15) qs ->
              bits <= level_cost scost parts qs).
Proof.
  unfold eval_partitions. intros E. inversion E; subst ps bits. clear E.
  induction parts as [|es r IH]; cbn [map].
  - cbn. repeat split; try constructor. intros qs Hq _. destruct qs; [cbn; lia | discriminate].
  - destruct IH as (IH1 & IH2 & IH3 & IH4).
    destruct (minimizer (T es) maxp) as [rp rb] eqn:Em.
    destruct (minimizer_T es maxp rp rb Em) as (M1 & M2 & M3 & M4).
    cbn [fst snd length]. repeat split.
    + rewrite IH1. reflexivity.
    + constructor; [split; assumption | assumption].
    + unfold level_cost in *. cbn [combine map sumN fold_right fst snd]. unfold sumN in *. rewrite IH3, M3. reflexivity.
    + intros [|q qs] Hq Hall; [discriminate|].
      inversion Hall as [|? ? [Hq1 Hq2] Hall']; subst.
      unfold level_cost in *. cbn [combine map sumN fold_right fst snd].
      specialize (IH4 qs ltac:(cbn in Hq; lia) Hall'). specialize (M4 q Hq1 Hq2).
      unfold sumN in *. lia.
Qed.

(* ---- the bottom-up search ---- *)

(* the partitions after k pairwise concatenations *)
Fixpoint coarsen (k : nat) (parts : list (list N)) : list (list N) :=
  match k with
  | O => parts
  | S k' => coarsen k' (concat_pairs parts)
  end.

(* a candidate of the search space at j merges above the finest level *)
Definition candidate (parts : list (list N)) (maxp : N) (j : nat) (qs : list N) : Prop :=
  length qs = length (coarsen j parts) /\ Forall (fun p => p <= maxp /\ p <= 15) qs.

Lemma search_spec : forall (o : nat) (parts : list (list N)) maxp best res,
  search o (map T parts) maxp best = res ->
  prc_bits res <= prc_bits best /\
  (forall j qs, (1 <= j <= o)%nat -> candidate parts maxp j qs ->
                prc_bits res <= level_cost scost (coarsen j parts) qs) /\
  (res = best \/
   exists j, (1 <= j <= o)%nat /\ prc_order res = N.of_nat (o - j) /\
             candidate parts maxp j (prc_ps res) /\
             prc_bits res = level_cost scost (coarsen j parts) (prc_ps res)).
Proof.
  induction o as [|o IH]; intros parts maxp best res E; cbn [search] in E.
  - subst res. split; [lia|]. split; [intros j qs Hj; lia | left; reflexivity].
  - rewrite (merge_pairs_T (length parts) parts (le_n _)) in E.
    destruct (eval_partitions (map T (concat_pairs parts)) maxp) as [ps bits] eqn:Ee.
    destruct (eval_partitions_spec _ _ _ _ Ee) as (E1 & E2 & E3 & E4).
    set (best' := if bits <? prc_bits best then mkPrc (N.of_nat o) ps bits else best) in *.
    destruct (IH _ _ _ _ E) as (H1 & H2 & H3).
    assert (Hb' : prc_bits best' <= prc_bits best /\ prc_bits best' <= bits).
    { unfold best'. destruct (N.ltb_spec bits (prc_bits best)); cbn [prc_bits]; lia. }
    split; [lia|]. split.
    + intros j qs Hj Hc. destruct j as [|[|j]]; [lia| |].
      * (* j = 1: the level evaluated in this step *)
        cbn [coarsen] in Hc |- *. destruct Hc as [Hc1 Hc2].
        specialize (E4 qs Hc1 Hc2). lia.
      * specialize (H2 (S j) qs ltac:(lia)). cbn [coarsen] in *. apply H2. exact Hc.
    + destruct H3 as [H3|(j & Hj & Ho & Hc & Hbits)].
      * unfold best' in H3. destruct (N.ltb_spec bits (prc_bits best)) as [Hlt|Hge]; [|left; exact H3].
        right. exists 1%nat. rewrite H3. cbn [prc_order prc_ps prc_bits coarsen].
        repeat split; try lia; try assumption.
      * right. exists (S j). cbn [coarsen]. repeat split; try lia; try assumption.
        all: try (rewrite Ho; f_equal; lia).
        all: try (destruct Hc; assumption).
Qed.

(* ---- the finder: optimality at the level of finest partitions ---- *)

(* exact cost of a candidate: sum over its partitions of the exact Rice cost (4-bit parameter
   + quotient/stop/remainder bits) *)
Definition exact_level (parts : list (list N)) (j : nat) (qs : list N) : N :=
  level_cost exact_cost (coarsen j parts) qs.

Lemma level_cost_sat_le parts qs : level_cost scost parts qs <= level_cost exact_cost parts qs.
Proof.
  unfold level_cost. revert qs. induction parts as [|es r IH]; intros [|q qs]; cbn [combine map sumN fold_right]; try lia.
  specialize (IH qs). unfold scost at 1. pose proof (sat_le (exact_cost es q)). cbn [fst snd]. unfold sumN in *. lia.
Qed.

Lemma level_cost_unsat parts qs :
  level_cost scost parts qs < SAT -> level_cost scost parts qs = level_cost exact_cost parts qs.
Proof.
  unfold level_cost. revert qs. induction parts as [|es r IH]; intros [|q qs]; cbn [combine map sumN fold_right fst snd]; try reflexivity.
  intros H. unfold sumN in *.
  assert (H1 : scost es q < SAT) by lia.
  unfold scost in H1 |- *. rewrite (sat_lt_exact _ H1) in *. rewrite IH; [reflexivity | lia].
Qed.

Definition run_search (parts : list (list N)) (order : nat) (maxp : N) : prc :=
  let '(ps, bits) := eval_partitions (map T parts) maxp in
  search order (map T parts) maxp (mkPrc (N.of_nat order) ps bits).

(* Main optimality statement over the finest partitions.  `order` is the finest partition
   order, level j in 0..order is partition order (order - j). *)
Theorem search_optimal parts order maxp :
  let res := run_search parts order maxp in
  exists j, (j <= order)%nat /\ prc_order res = N.of_nat (order - j) /\
    candidate parts maxp j (prc_ps res) /\
    prc_bits res = level_cost scost (coarsen j parts) (prc_ps res) /\
    (forall j' qs, (j' <= order)%nat -> candidate parts maxp j' qs ->
       exact_level parts j' qs < SAT ->
       prc_bits res = exact_level parts j (prc_ps res) /\
       exact_level parts j (prc_ps res) <= exact_level parts j' qs).
Proof.
  cbv zeta. unfold run_search.
  destruct (eval_partitions (map T parts) maxp) as [ps bits] eqn:Ee.
  destruct (eval_partitions_spec _ _ _ _ Ee) as (E1 & E2 & E3 & E4).
  set (best := mkPrc (N.of_nat order) ps bits).
  destruct (search_spec order parts maxp best _ eq_refl) as (H1 & H2 & H3).
  set (res := search order (map T parts) maxp best) in *.
  (* bound of the result against every candidate, including level 0 *)
  assert (Hall : forall j' qs, (j' <= order)%nat -> candidate parts maxp j' qs ->
                 prc_bits res <= level_cost scost (coarsen j' parts) qs).
  { intros j' qs Hj Hc. destruct j' as [|j'].
    - cbn [coarsen] in *. destruct Hc as [Hc1 Hc2]. specialize (E4 qs Hc1 Hc2).
      cbn [prc_bits best] in H1. unfold best in H1. cbn [prc_bits] in H1. lia.
    - apply H2; [lia | assumption]. }
  assert (Hwho : exists j, (j <= order)%nat /\ prc_order res = N.of_nat (order - j) /\
                 candidate parts maxp j (prc_ps res) /\
                 prc_bits res = level_cost scost (coarsen j parts) (prc_ps res)).
  { destruct H3 as [H3|(j & Hj & Ho & Hc & Hb)].
    - exists 0%nat. rewrite H3. unfold best. cbn [prc_order prc_ps prc_bits coarsen].
      repeat split; try lia; try assumption.
    - exists j. split; [lia|]. split; [exact Ho|]. split; [exact Hc | exact Hb]. }
  destruct Hwho as (j & Hj & Ho & Hc & Hb).
  exists j. split; [exact Hj|]. split; [exact Ho|]. split; [exact Hc|]. split; [exact Hb|].
  intros j' qs H H0 H4. split.
  - rewrite Hb. unfold exact_level.
    apply level_cost_unsat. rewrite <- Hb.
    specialize (Hall j' qs H H0). pose proof (level_cost_sat_le (coarsen j' parts) qs). unfold exact_level in H4. lia.
  - specialize (Hall j' qs H H0). pose proof (level_cost_sat_le (coarsen j' parts) qs).
    unfold exact_level in *.
    assert (Hu : level_cost scost (coarsen j parts) (prc_ps res) = level_cost exact_cost (coarsen j parts) (prc_ps res)).
    { apply level_cost_unsat. rewrite <- Hb. lia. }
    rewrite <- Hu, <- Hb. lia.
Qed.
