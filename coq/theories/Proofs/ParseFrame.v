(* C15 / C18 at frame level: the parser model (Parser.p_frame) on the bytes of a frame. *)
From FV Require Import Generated Model.Base Model.Sink Model.Crc Model.Codes Model.Rice Model.Predict
  Model.Component Model.Flac Model.Parser Model.Ctor
  Proofs.SinkArith Proofs.SinkRefine Proofs.OpsLen Proofs.CrcP Proofs.Utf8P Proofs.ReaderP Proofs.ParserP
  Proofs.BitRead Proofs.BitWrite Proofs.BitUnary Proofs.CtorP
  Proofs.ParseResidual Proofs.ParseSubframe Proofs.Lossless Proofs.DecodeSubframe Proofs.CountBits Proofs.DecodeFrame.
Local Open Scope N_scope.

(* ---- the bits of a frame, laid out (shared with the independent decoder's proof) ---- *)
Record frame_layout (f : frame) (ctag : N) (num bytes rest : list N) (hb body : list N) : Prop := mkLayout {
  fl_hb256 : Forall (fun x => x < 256) hb;
  fl_hblen : (8 * length hb = length (header_bits_of (f_header f) ctag num))%nat;
  fl_body256 : Forall (fun x => x < 256) body;
  fl_bytes : bytes = body ++ [crc16 body / 256; crc16 body mod 256];
  fl_bits : bytes_bits (bytes ++ rest) =
            header_bits_of (f_header f) ctag num ++ bits_msb 8 (crc8 hb) ++ concat (map subframe_bits (f_subframes f))
            ++ repeat false (N.to_nat (pad8 (8 * N.of_nat (length hb) + 8 + N.of_nat (length (concat (map subframe_bits (f_subframes f)))))))
            ++ bits_msb 16 (crc16 body) ++ bytes_bits rest;
  fl_pre_hb : firstn (length hb) (bytes ++ rest) = hb;
  fl_pre_body : firstn (length body) (bytes ++ rest) = body;
  fl_body_len : 8 * N.of_nat (length body) =
                8 * N.of_nat (length hb) + 8 + N.of_nat (length (concat (map subframe_bits (f_subframes f))))
                + pad8 (8 * N.of_nat (length hb) + 8 + N.of_nat (length (concat (map subframe_bits (f_subframes f)))))
}.

Lemma frame_layout_exists f bytes rest ctag num :
  f_precomputed f = None -> frame_ops_wfb f = true -> frame_bytes f = Ok bytes ->
  chassign_tag (h_ch (f_header f)) = Ok ctag -> utf8like (h_number (f_header f)) = Ok num ->
  Forall (fun s => verify_subframe s = true) (f_subframes f) ->
  exists hb body, frame_layout f ctag num bytes rest hb body.
Proof.
  intros Hpre Hwfb Hfb Hc Hn Hsubv. set (h := f_header f) in *.
  destruct (frame_bytes_parts f bytes Hpre Hfb) as (hb & body & hops & [Ehops Ehb Ebody Ebytes]). fold h in Ehops.
  unfold frame_ops_wfb in Hwfb. fold h in Hwfb. rewrite Ehops in Hwfb.
  unfold frame_inner_ops, header_ops, header_bytes in Hwfb. fold h in Hwfb. rewrite Ehops in Hwfb. cbn [bind] in Hwfb.
  rewrite Ehb in Hwfb. cbn [bind] in Hwfb.
  rewrite !Bool.andb_true_iff in Hwfb. destruct Hwfb as (((Hwf_h & Hwf_i) & Hxb) & Hxs).
  apply N.eqb_eq in Hxb, Hxs.
  set (subs := f_subframes f) in *.
  destruct (pack_u8_bits hops hb Hwf_h Ehb) as [Hhb256 Hhb_bits].
  pose proof (header_inner_len h hops Ehops) as Hlen_h.
  assert (Hpad_h : pad8 (ops_len 0 hops) = 0).
  { apply pad8_of_mult. rewrite Hlen_h.
    replace (32 + 8 * utf8like_bytesize (h_number h) + c_xbits (h_bs h) + c_xbits (h_sr h))
      with (c_xbits (h_bs h) + c_xbits (h_sr h) + (4 + utf8like_bytesize (h_number h)) * 8) by lia.
    rewrite N.mod_add by lia. rewrite N.add_mod by lia. rewrite Hxb, Hxs. reflexivity. }
  rewrite Hpad_h in Hhb_bits. cbn [N.to_nat repeat] in Hhb_bits. rewrite app_nil_r in Hhb_bits.
  rewrite (header_inner_bits h hops ctag num Hc Hn Ehops) in Hhb_bits.
  set (HB := header_bits_of h ctag num) in *.
  assert (HlenHB : (8 * length hb = length HB)%nat) by (rewrite <- Hhb_bits, bytes_bits_length; reflexivity).
  destruct (pack_u64_bits _ body Hwf_i Ebody) as [Hbody256 Hbody_bits].
  set (SUB := concat (map subframe_bits subs)) in *.
  set (cur1 := 8 * N.of_nat (length hb) + 8).
  set (cur2 := cur1 + N.of_nat (length SUB)).
  assert (Hinner_bits : ops_bitlist 0 ([OBytes hb; OWrite 8 (crc8 hb)] ++ flat_map subframe_ops subs ++ [OAlign])
                        = HB ++ bits_msb 8 (crc8 hb) ++ SUB ++ repeat false (N.to_nat (pad8 cur2))).
  { rewrite !ops_bitlist_app. cbn [ops_bitlist op_bitlist ops_len op_len].
    change (pad8 0) with 0. cbn [N.to_nat repeat app]. rewrite !app_nil_r, Hhb_bits.
    rewrite subframes_ops_bits by exact Hsubv. fold SUB.
    rewrite <- !app_assoc. change (Pos.to_nat 8) with 8%nat.
    rewrite <- (ops_bitlist_length (flat_map subframe_ops subs) (0 + (0 + 8 * N.of_nat (length hb) + (8 + 0)))).
    rewrite subframes_ops_bits by exact Hsubv. fold SUB.
    replace (0 + (0 + 8 * N.of_nat (length hb) + (8 + 0)) + N.of_nat (length SUB)) with cur2 by (unfold cur2, cur1; lia).
    reflexivity. }
  assert (Hinner_len : ops_len 0 ([OBytes hb; OWrite 8 (crc8 hb)] ++ flat_map subframe_ops subs ++ [OAlign]) = cur2 + pad8 cur2).
  { rewrite <- ops_bitlist_length, Hinner_bits, !app_length, bits_msb_length, repeat_length. unfold cur2, cur1. lia. }
  assert (Hpad_b : pad8 (cur2 + pad8 cur2) = 0) by (apply pad8_of_mult; apply pad8_spec).
  rewrite Hinner_bits, Hinner_len, Hpad_b in Hbody_bits. cbn [N.to_nat repeat] in Hbody_bits. rewrite app_nil_r in Hbody_bits.
  assert (Hwf_f : forallb wf_op [OBytes body; OWrite 16 (crc16 body)] = true).
  { cbn [forallb wf_op wf_width]. rewrite !Bool.andb_true_r. apply Bool.andb_true_iff. split.
    - apply forallb_forall. intros x Hx. apply N.ltb_lt. rewrite Forall_forall in Hbody256. apply Hbody256. exact Hx.
    - apply N.ltb_lt. apply crc16_lt. }
  destruct (pack_u8_bits _ bytes Hwf_f Ebytes) as [Hbytes256 Hbytes_bits].
  set (c16 := crc16 body) in *.
  assert (Hbytes_eq : bytes = body ++ [c16 / 256; c16 mod 256]).
  { apply bytes_bits_inj; [exact Hbytes256 | |].
    - apply Forall_app. split; [exact Hbody256|]. pose proof (crc16_lt body) as Hc16. fold c16 in Hc16. change (2 ^ 16) with 65536 in Hc16.
      constructor; [apply N.div_lt_upper_bound; lia | constructor; [apply N.mod_upper_bound; lia | constructor]].
    - rewrite Hbytes_bits. cbn [ops_bitlist op_bitlist ops_len op_len]. change (pad8 0) with 0. cbn [N.to_nat repeat app].
      rewrite app_nil_r.
      assert (Hp : pad8 (0 + 8 * N.of_nat (length body) + (16 + 0)) = 0).
      { apply pad8_of_mult. replace (0 + 8 * N.of_nat (length body) + (16 + 0)) with ((N.of_nat (length body) + 2) * 8) by lia. apply N.mod_mul. lia. }
      rewrite Hp. cbn [N.to_nat repeat]. rewrite app_nil_r, bytes_bits_app. f_equal.
      change (N.to_nat 16) with 16%nat. apply bits16_bytes. apply crc16_lt. }
  set (start := bytes ++ rest).
  assert (Hstart_bits : bytes_bits start = HB ++ bits_msb 8 (crc8 hb) ++ SUB ++ repeat false (N.to_nat (pad8 cur2)) ++ bits_msb 16 c16 ++ bytes_bits rest).
  { unfold start. rewrite Hbytes_eq, !bytes_bits_app, Hbody_bits, <- !app_assoc. do 4 f_equal.
    rewrite <- bits16_bytes by apply crc16_lt. reflexivity. }
  assert (Hbody_pre : body = hb ++ skipn (length hb) body).
  { destruct (bytes_prefix_of_bits body hb (bits_msb 8 (crc8 hb) ++ SUB ++ repeat false (N.to_nat (pad8 cur2))) Hbody256 Hhb256
                ltac:(rewrite Hbody_bits, Hhb_bits; reflexivity)) as [Hbp _]. exact Hbp. }
  assert (Hpre_hb : firstn (length hb) start = hb).
  { unfold start. rewrite Hbytes_eq, Hbody_pre, <- !app_assoc. apply firstn_exact. reflexivity. }
  assert (Hpre_body : firstn (length body) start = body).
  { unfold start. rewrite Hbytes_eq, <- app_assoc. apply firstn_exact. reflexivity. }
  assert (Hbody_len : 8 * N.of_nat (length body) = cur2 + pad8 cur2).
  { apply (f_equal (@length bool)) in Hbody_bits. rewrite bytes_bits_length, !app_length, bits_msb_length, repeat_length in Hbody_bits.
    set (pd := pad8 cur2) in *. unfold cur2, cur1. lia. }
  exists hb, body. constructor; try assumption.
Qed.

(* ---- the header codes chosen by the writer, as the parser reads them back ---- *)
Lemma p_block_code_reads n c :
  block_size_code n = Ok c -> n <= 65536 ->
  reads (p_block_size_code (c_tag c)) (code_xbits c) (c, n).
Proof.
  unfold block_size_code. intros E Hn.
  destruct (N.eqb_spec n 0); [discriminate|].
  repeat match type of E with
  | (if ?n0 =? ?k then Ok ?cc else _) = Ok _ =>
      destruct (N.eqb_spec n0 k) as [->|?];
      [apply Ok_inj in E; subst c; cbn [c_tag c_xbits c_xval]; unfold code_xbits; cbn [c_xbits N.eqb];
       apply reads_ret; intros r; reflexivity |]
  end.
  destruct (N.leb_spec n 256).
  - apply Ok_inj in E. subst c. cbn [c_tag c_xbits c_xval]. unfold code_xbits. cbn [c_xbits c_xval N.eqb Pos.eqb].
    intros r rest Hwf Hb. change (N.to_nat 8) with 8%nat in Hb.
    destruct (reads_rbits 8 (n - 1) ltac:(change (2 ^ 8) with 256; lia) r rest Hwf Hb) as (r1 & E1 & H1).
    exists r1. unfold p_block_size_code. cbn [N.eqb Pos.eqb N.leb N.compare Pos.compare Pos.compare_cont]. rewrite E1.
    replace (n - 1 + 1) with n by lia. exact (conj eq_refl H1).
  - apply Ok_inj in E. subst c. cbn [c_tag c_xbits c_xval]. unfold code_xbits. cbn [c_xbits c_xval N.eqb Pos.eqb].
    intros r rest Hwf Hb. change (N.to_nat 16) with 16%nat in Hb.
    destruct (reads_rbits 16 (n - 1) ltac:(change (2 ^ 16) with 65536; lia) r rest Hwf Hb) as (r1 & E1 & H1).
    exists r1. unfold p_block_size_code. cbn [N.eqb Pos.eqb N.leb N.compare Pos.compare Pos.compare_cont]. rewrite E1.
    replace (n - 1 + 1) with n by lia. exact (conj eq_refl H1).
Qed.

Lemma p_rate_code_reads f :
  let c := sample_rate_code f in
  reads (p_sample_rate_code (c_tag c)) (code_xbits c) c.
Proof.
  cbv zeta. unfold sample_rate_code.
  repeat match goal with
  | |- context [if ?n0 =? ?k then mkCode ?t 0 0 else _] =>
      destruct (N.eqb_spec n0 k) as [->|?];
      [cbn [c_tag c_xbits c_xval]; unfold code_xbits; cbn [c_xbits N.eqb];
       apply reads_ret; intros r; reflexivity |]
  end.
  destruct ((f mod 1000 =? 0) && (f / 1000 <=? 255)) eqn:E12.
  - apply Bool.andb_true_iff in E12. destruct E12 as [Hm Hd]. apply N.leb_le in Hd.
    cbn [c_tag c_xbits c_xval]. unfold code_xbits. cbn [c_xbits c_xval N.eqb Pos.eqb].
    intros r rest Hwf Hb. change (N.to_nat 8) with 8%nat in Hb.
    destruct (reads_rbits 8 (f / 1000) ltac:(change (2 ^ 8) with 256; lia) r rest Hwf Hb) as (r1 & E1 & H1).
    exists r1. unfold p_sample_rate_code. cbn [N.eqb Pos.eqb orb]. rewrite E1. exact (conj eq_refl H1).
  - destruct ((f mod 10 =? 0) && (f / 10 <=? 65535)) eqn:E14.
    + apply Bool.andb_true_iff in E14. destruct E14 as [Hm Hd]. apply N.leb_le in Hd.
      cbn [c_tag c_xbits c_xval]. unfold code_xbits. cbn [c_xbits c_xval N.eqb Pos.eqb].
      intros r rest Hwf Hb. change (N.to_nat 16) with 16%nat in Hb.
      destruct (reads_rbits 16 (f / 10) ltac:(change (2 ^ 16) with 65536; lia) r rest Hwf Hb) as (r1 & E1 & H1).
      exists r1. unfold p_sample_rate_code. cbn [N.eqb Pos.eqb orb]. rewrite E1. exact (conj eq_refl H1).
    + destruct (N.leb_spec f 65535).
      * cbn [c_tag c_xbits c_xval]. unfold code_xbits. cbn [c_xbits c_xval N.eqb Pos.eqb].
        intros r rest Hwf Hb. change (N.to_nat 16) with 16%nat in Hb.
        destruct (reads_rbits 16 f ltac:(change (2 ^ 16) with 65536; lia) r rest Hwf Hb) as (r1 & E1 & H1).
        exists r1. unfold p_sample_rate_code. cbn [N.eqb Pos.eqb orb]. rewrite E1. exact (conj eq_refl H1).
      * cbn [c_tag c_xbits c_xval]. unfold code_xbits. cbn [c_xbits N.eqb].
        apply reads_ret. intros r. reflexivity.
Qed.

Lemma bits16_sync15 v : v < 2 -> bits_msb 16 (65528 + v) = bits_msb 15 32764 ++ bits_msb 1 v.
Proof. intros H. assert (v = 0 \/ v = 1) as [->| ->] by lia; reflexivity. Qed.

Lemma chassign_of_tag_inv cha ctag : chassign_tag cha = Ok ctag -> chassign_of_tag ctag = Some cha /\ ctag < 16.
Proof.
  destruct cha as [n| | |]; cbn [chassign_tag]; intros E; try (apply Ok_inj in E; subst ctag; split; [reflexivity | lia]).
  destruct (N.ltb_spec 8 n); [discriminate|]. destruct (N.eqb_spec n 0); [discriminate|]. apply Ok_inj in E. subst ctag.
  unfold chassign_of_tag. destruct (N.ltb_spec (n - 1) 8); [|lia]. replace (n - 1 + 1) with n by lia. split; [reflexivity | lia].
Qed.

(* ---- the frame header, as the parser reads it ---- *)
Theorem parser_reads_header start h ctag num hb tail :
  chassign_tag (h_ch h) = Ok ctag -> utf8like (h_number h) = Ok num ->
  (h_variable h = false -> h_number h < 2 ^ 32) ->
  c_tag (h_bs h) < 16 -> c_tag (h_sr h) < 16 -> h_ss_tag h < 8 ->
  Forall (fun x => x < 256) start ->
  bytes_bits start = header_bits_of h ctag num ++ bits_msb 8 (crc8 hb) ++ tail ->
  firstn (length hb) start = hb -> (8 * length hb = length (header_bits_of h ctag num))%nat ->
  reads (p_block_size_code (c_tag (h_bs h))) (code_xbits (h_bs h)) (h_bs h, h_block h) ->
  reads (p_sample_rate_code (c_tag (h_sr h))) (code_xbits (h_sr h)) (h_sr h) ->
  exists r, p_frame_header start (rd_of start) = Some (h, r)
            /\ rd_bits r = tail /\ rd_wf r /\ rd_pos r = 8 * (N.of_nat (length hb) + 1) /\ rd_adv (rd_of start) r.
Proof.
  intros Hc Hn Hnum32 Hbs Hsr Hss Hst Hbits Hpre Hlen Hblock Hrate.
  destruct (chassign_of_tag_inv _ _ Hc) as [Hcot Hctag].
  pose proof (utf8like_lt256 _ _ Hn) as Hnum256.
  set (v := if h_variable h then 1 else 0) in *.
  assert (Hv : v < 2) by (unfold v; destruct (h_variable h); lia).
  unfold header_bits_of in Hbits. fold v in Hbits.
  rewrite (bits16_sync15 v Hv), (bits8_nibbles _ _ Hsr), bits4_ss in Hbits. rewrite <- !app_assoc in Hbits.
  pose proof (rd_of_wf start) as Hwf0. pose proof (rd_of_bits start) as Hb0. rewrite Hbits in Hb0.
  destruct (reads_rbits 15 32764 ltac:(reflexivity) _ _ Hwf0 Hb0) as (r1 & E1 & Hb1 & Hwf1 & Hp1 & Hk1).
  destruct (reads_rbits 1 v ltac:(exact Hv) _ _ Hwf1 Hb1) as (r2 & E2 & Hb2 & Hwf2 & Hp2 & Hk2).
  destruct (reads_rbits 4 (c_tag (h_bs h)) ltac:(exact Hbs) _ _ Hwf2 Hb2) as (r4 & E4 & Hb4 & Hwf4 & Hp4 & Hk4).
  destruct (reads_rbits 4 (c_tag (h_sr h)) ltac:(exact Hsr) _ _ Hwf4 Hb4) as (r5 & E5 & Hb5 & Hwf5 & Hp5 & Hk5).
  destruct (reads_rbits 4 ctag ltac:(exact Hctag) _ _ Hwf5 Hb5) as (r6 & E6 & Hb6 & Hwf6 & Hp6 & Hk6).
  destruct (reads_rbits 3 (h_ss_tag h) ltac:(exact Hss) _ _ Hwf6 Hb6) as (r7 & E7 & Hb7 & Hwf7 & Hp7 & Hk7).
  destruct (reads_rbits 1 0 ltac:(reflexivity) _ _ Hwf7 Hb7) as (r8 & E8 & Hb8 & Hwf8 & Hp8 & Hk8).
  rewrite !bits_msb_length in *.
  assert (Hadv8 : rd_adv (rd_of start) r8)
    by exact (rd_adv_trans _ _ _ Hk1 (rd_adv_trans _ _ _ Hk2 (rd_adv_trans _ _ _ Hk4
             (rd_adv_trans _ _ _ Hk5 (rd_adv_trans _ _ _ Hk6 (rd_adv_trans _ _ _ Hk7 Hk8)))))).
  assert (Hpos8 : rd_pos r8 = 8 * 4).
  { rewrite Hp8, Hp7, Hp6, Hp5, Hp4, Hp2, Hp1. unfold rd_pos, rd_of. cbn [r_cnt r_off]. reflexivity. }
  pose proof (rd_from_start start r8 4 Hwf8 Hadv8 Hpos8) as Er8.
  destruct (rd_aligned_bits (skipn (N.to_nat 4) start) 4) as (Hbits8 & _ & _). rewrite <- Er8, Hb8 in Hbits8.
  destruct (bytes_prefix_of_bits _ num _ (Forall_skipn_lt _ _ _ Hst) Hnum256 (eq_sym Hbits8)) as [Esplit Hrest].
  set (B := skipn (length num) (skipn (N.to_nat 4) start)) in *.
  pose proof (p_utf8_roundtrip (h_number h) num B 4 Hn) as Enum. rewrite <- Esplit, <- Er8 in Enum.
  set (r9 := mkRd B 0 (4 + N.of_nat (length num))) in *.
  destruct (rd_aligned_bits B (4 + N.of_nat (length num))) as (Hb9 & Hwf9 & Hp9). fold r9 in Hb9, Hwf9, Hp9. rewrite Hrest in Hb9.
  destruct (Hblock r9 _ Hwf9 Hb9) as (r10 & E10 & Hb10 & Hwf10 & Hp10 & Hk10).
  destruct (Hrate r10 _ Hwf10 Hb10) as (r11 & E11 & Hb11 & Hwf11 & Hp11 & Hk11).
  assert (Hadv9 : rd_adv (rd_of start) r9).
  { unfold r9, B. rewrite skipn_skipn'. replace (N.to_nat 4 + length num)%nat with (N.to_nat (4 + N.of_nat (length num))) by lia. apply rd_adv_skip. }
  assert (Hadv11 : rd_adv (rd_of start) r11) by exact (rd_adv_trans _ _ _ Hadv9 (rd_adv_trans _ _ _ Hk10 Hk11)).
  assert (Hpos11 : rd_pos r11 = 8 * N.of_nat (length hb)).
  { rewrite Hp11, Hp10, Hp9. unfold header_bits_of in Hlen. rewrite !app_length, !bits_msb_length, bytes_bits_length in Hlen. lia. }
  pose proof (rd_from_start start r11 _ Hwf11 Hadv11 Hpos11) as Er11.
  destruct (reads_rbits 8 (crc8 hb) (crc8_lt hb) _ _ Hwf11 Hb11) as (r12 & E12 & Hb12 & Hwf12 & Hp12 & Hk12).
  exists r12. unfold p_frame_header. cbn [rd_of r_cnt].
  change (r_cnt {| r_bytes := start; r_off := 0; r_cnt := 0 |}) with 0.
  rewrite E1. cbn [N.eqb Pos.eqb negb]. rewrite E2, E4, E5, E6, E7, E8. cbn [N.eqb negb]. rewrite Hcot, Enum, E10, E11.
  assert (Hcnt11 : r_cnt r11 = N.of_nat (length hb)) by (rewrite Er11; reflexivity).
  rewrite Hcnt11, N.sub_0_r, Nat2N.id, E12, Hpre, N.eqb_refl. cbn [negb].
  assert (Ehdr : mkHeader (negb (v =? 0)) (h_bs h) (h_block h) (h_ch h) (h_ss_tag h) (h_sr h)
                          (if v =? 0 then h_number h mod 2 ^ 32 else h_number h) = h).
  { unfold v. destruct h as [var bs blk ch ss sr numb]. cbn [h_variable h_bs h_block h_ch h_ss_tag h_sr h_number] in *.
    destruct var; cbn [N.eqb negb]; [reflexivity|]. rewrite N.mod_small by (apply Hnum32; reflexivity). reflexivity. }
  rewrite Ehdr.
  split; [reflexivity|]. split; [exact Hb12|]. split; [exact Hwf12|]. split.
  - rewrite Hp12, Hpos11, bits_msb_length. change (N.of_nat (N.to_nat 8)) with 8. lia.
  - exact (rd_adv_trans _ _ _ Hadv11 Hk12).
Qed.

(* ---- the subframes ---- *)
Definition psub_ready (block : N) (s : subframe) (b : N) : Prop :=
  sub_block s = block /\ sub_bps s = b /\ verify_subframe s = true /\ sub_typed s /\ sub_quot_u32 s.

Lemma parser_reads_subframes cha block bps : forall subs ch,
  (forall i s, nth_error subs i = Some s -> psub_ready block s (bps + bps_offset cha (ch + N.of_nat i))) ->
  reads (p_subframes (length subs) ch cha block bps) (concat (map subframe_bits subs)) subs.
Proof.
  induction subs as [|s t IH]; intros ch Hall rd0 rest Hwf Hb.
  - exists rd0. cbn [length p_subframes map concat app] in *. fin5 Hwf; [lia | apply rd_adv_refl].
  - destruct (Hall 0%nat s eq_refl) as (Hblk & Hbps & Hv & Hty & Hq). rewrite N.add_0_r in Hbps.
    cbn [map concat] in Hb. rewrite <- app_assoc in Hb.
    destruct (reads_subframe s Hv Hty Hq rd0 _ Hwf Hb) as (r1 & E1 & Hb1 & Hwf1 & Hp1 & Hk1).
    assert (Hall' : forall i s', nth_error t i = Some s' -> psub_ready block s' (bps + bps_offset cha (ch + 1 + N.of_nat i))).
    { intros i s' Hi. specialize (Hall (S i) s' Hi). replace (ch + 1 + N.of_nat i) with (ch + N.of_nat (S i)) by lia. exact Hall. }
    destruct (IH (ch + 1) Hall' r1 rest Hwf1 Hb1) as (r2 & E2 & Hb2 & Hwf2 & Hp2 & Hk2).
    exists r2. cbn [length p_subframes]. rewrite <- Hblk at 1. rewrite <- Hbps at 1. rewrite E1, E2.
    split; [reflexivity|]. split; [exact Hb2|]. split; [exact Hwf2|]. split.
    + rewrite Hp2, Hp1. cbn [map concat]. rewrite app_length, Nat2N.inj_add. lia.
    + exact (rd_adv_trans _ _ _ Hk1 Hk2).
Qed.

(* ---- nom's return to byte granularity ---- *)
Lemma skipn_cons_tl {A} : forall n (l : list A) b t, skipn n l = b :: t -> skipn (S n) l = t.
Proof.
  induction n as [|n IH]; intros l b t H.
  - cbn in H. subst l. reflexivity.
  - destruct l as [|x l']; [discriminate|]. cbn [skipn] in *. exact (IH _ _ _ H).
Qed.

Lemma align_rd_spec start r c' :
  rd_wf r -> rd_adv (rd_of start) r -> rd_pos r + pad8 (rd_pos r) = 8 * c' ->
  align_rd r = mkRd (skipn (N.to_nat c') start) 0 c'.
Proof.
  intros Hwf Hadv Hpos. destruct Hwf as [Hoff Hnil].
  pose proof (rd_adv_elim _ _ Hadv) as [_ Hb]. cbn [rd_of r_cnt r_bytes] in Hb. rewrite N.sub_0_r in Hb.
  unfold rd_pos in Hpos. unfold pad8 in Hpos.
  replace (8 * r_cnt r + r_off r) with (r_off r + r_cnt r * 8) in Hpos by lia.
  rewrite N.mod_add in Hpos by lia. rewrite (N.mod_small (r_off r) 8 Hoff) in Hpos.
  unfold align_rd. destruct (N.eqb_spec (r_off r) 0) as [H0|H0].
  - rewrite H0 in Hpos. change ((8 - 0) mod 8) with 0 in Hpos. assert (r_cnt r = c') by lia. subst c'.
    rewrite (rd_eta r) at 1. rewrite H0, Hb. reflexivity.
  - assert (Hm : (8 - r_off r) mod 8 = 8 - r_off r) by (apply N.mod_small; lia). rewrite Hm in Hpos.
    assert (Hc : c' = r_cnt r + 1) by lia. subst c'.
    destruct (r_bytes r) as [|b t] eqn:Eb; [specialize (Hnil eq_refl); lia|].
    f_equal. symmetry. replace (N.to_nat (r_cnt r + 1)) with (S (N.to_nat (r_cnt r))) by lia.
    apply (skipn_cons_tl _ _ b). symmetry. exact Hb.
Qed.

(* ---- one frame ---- *)
Theorem parser_reads_frame f bytes rest ctag num channels bps :
  let h := f_header f in
  f_precomputed f = None -> frame_ops_wfb f = true -> frame_bytes f = Ok bytes ->
  Forall (fun x => x < 256) rest ->
  chassign_tag (h_ch h) = Ok ctag -> utf8like (h_number h) = Ok num ->
  (h_variable h = false -> h_number h < 2 ^ 32) ->
  c_tag (h_bs h) < 16 -> c_tag (h_sr h) < 16 -> h_ss_tag h < 8 ->
  reads (p_block_size_code (c_tag (h_bs h))) (code_xbits (h_bs h)) (h_bs h, h_block h) ->
  reads (p_sample_rate_code (c_tag (h_sr h))) (code_xbits (h_sr h)) (h_sr h) ->
  chassign_channels (h_ch h) = channels -> N.of_nat (length (f_subframes f)) = channels ->
  match bits_of_ss_tag (h_ss_tag h) with Some b => b = bps | None => True end -> bps <= c_MAX_BITS_PER_SAMPLE ->
  (forall i s, nth_error (f_subframes f) i = Some s -> psub_ready (h_block h) s (bps + bps_offset (h_ch h) (N.of_nat i))) ->
  p_frame channels bps (bytes ++ rest) = Some (f, rest).
Proof.
  intros h Hpre Hwfb Hfb Hrest Hc Hn Hnum32 Hbs Hsr Hss Hblock Hrate Hchn Hlen Hsst Hbmax Hsubs.
  set (subs := f_subframes f) in *.
  assert (Hsubv : Forall (fun s => verify_subframe s = true) subs).
  { apply Forall_forall. intros s Hin. apply In_nth_error in Hin. destruct Hin as [i Hi]. destruct (Hsubs i s Hi) as (_ & _ & Hv & _). exact Hv. }
  destruct (frame_layout_exists f bytes rest ctag num Hpre Hwfb Hfb Hc Hn Hsubv) as (hb & body & [Hhb256 HlenHB Hbody256 Hbytes_eq Hstart_bits Hpre_hb Hpre_body Hbody_len]).
  fold h in HlenHB, Hstart_bits. fold subs in Hstart_bits, Hbody_len.
  set (SUB := concat (map subframe_bits subs)) in *.
  set (cur2 := 8 * N.of_nat (length hb) + 8 + N.of_nat (length SUB)) in *.
  set (c16 := crc16 body) in *.
  set (start := bytes ++ rest) in *.
  assert (Hstart256 : Forall (fun x => x < 256) start).
  { unfold start. apply Forall_app. split; [|exact Hrest]. rewrite Hbytes_eq. apply Forall_app. split; [exact Hbody256|].
    pose proof (crc16_lt body) as Hc16. fold c16 in Hc16. change (2 ^ 16) with 65536 in Hc16.
    constructor; [apply N.div_lt_upper_bound; lia | constructor; [apply N.mod_upper_bound; lia | constructor]]. }
  destruct (parser_reads_header start h ctag num hb _ Hc Hn Hnum32 Hbs Hsr Hss Hstart256 Hstart_bits Hpre_hb HlenHB Hblock Hrate)
    as (r1 & E1 & Hb1 & Hwf1 & Hp1 & Hk1).
  assert (Hsubs0 : forall i s, nth_error subs i = Some s -> psub_ready (h_block h) s (bps + bps_offset (h_ch h) (0 + N.of_nat i))).
  { intros i s Hi. rewrite N.add_0_l. exact (Hsubs i s Hi). }
  destruct (parser_reads_subframes (h_ch h) (h_block h) bps subs 0 Hsubs0 r1 _ Hwf1 Hb1) as (r2 & E2 & Hb2 & Hwf2 & Hp2 & Hk2).
  fold SUB in Hp2.
  assert (Hpos2 : rd_pos r2 = cur2) by (rewrite Hp2, Hp1; unfold cur2; lia).
  assert (Hadv2 : rd_adv (rd_of start) r2) by exact (rd_adv_trans _ _ _ Hk1 Hk2).
  assert (Hal : align_rd r2 = mkRd (skipn (N.to_nat (N.of_nat (length body))) start) 0 (N.of_nat (length body))).
  { apply (align_rd_spec start r2 _ Hwf2 Hadv2). rewrite Hpos2. symmetry. exact Hbody_len. }
  rewrite Nat2N.id in Hal.
  assert (Hskip : skipn (length body) start = [c16 / 256; c16 mod 256] ++ rest).
  { unfold start. rewrite Hbytes_eq, <- app_assoc. apply skipn_exact. reflexivity. }
  rewrite Hskip in Hal.
  set (r3 := mkRd ([c16 / 256; c16 mod 256] ++ rest) 0 (N.of_nat (length body))) in *.
  destruct (rd_aligned_bits ([c16 / 256; c16 mod 256] ++ rest) (N.of_nat (length body))) as (Hb3 & Hwf3 & Hp3). fold r3 in Hb3, Hwf3, Hp3.
  rewrite bytes_bits_app, <- bits16_bytes in Hb3 by apply crc16_lt.
  destruct (reads_rbits 16 c16 (crc16_lt body) r3 _ Hwf3 Hb3) as (r4 & E4 & Hb4 & Hwf4 & Hp4 & Hk4).
  assert (Hadv3 : rd_adv (rd_of start) r3).
  { unfold r3. rewrite <- Hskip. rewrite <- (Nat2N.id (length body)) at 1. apply rd_adv_skip. }
  assert (Hpos4 : rd_pos r4 = 8 * N.of_nat (length bytes)).
  { rewrite Hp4, Hp3, bits_msb_length. rewrite Hbytes_eq, app_length. cbn [length]. change (N.of_nat (N.to_nat 16)) with 16. lia. }
  pose proof (rd_from_start start r4 _ Hwf4 (rd_adv_trans _ _ _ Hadv3 Hk4) Hpos4) as Er4.
  unfold p_frame. fold start. rewrite E1. fold h. rewrite Hchn, N.eqb_refl. cbn [negb].
  assert (Hhb : match bits_of_ss_tag (h_ss_tag h) with Some b => b | None => bps end = bps).
  { destruct (bits_of_ss_tag (h_ss_tag h)); [exact Hsst | reflexivity]. }
  rewrite Hhb, N.eqb_refl. cbn [negb orb].
  destruct (N.ltb_spec c_MAX_BITS_PER_SAMPLE bps) as [?|_]; [lia|].
  rewrite <- Hlen, Nat2N.id. fold subs. rewrite E2, Hal. change (r_cnt r3) with (N.of_nat (length body)). rewrite Nat2N.id.
  rewrite E4, Hpre_body. fold c16. rewrite N.eqb_refl. cbn [negb].
  rewrite Er4. cbn [r_bytes]. rewrite Nat2N.id. unfold start. rewrite skipn_exact by reflexivity.
  destruct f as [fh fs fp]. cbn [f_precomputed f_header f_subframes] in *. subst fp. reflexivity.
Qed.
