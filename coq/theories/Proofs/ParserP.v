(* C15 (pieces proved so far): the parser's number decoder inverts the writer's number coding on a
   byte-aligned reader; the parser model has no panicking outcome. *)
From FV Require Import Model.Base Model.Codes Model.Flac Model.Parser
  Proofs.SinkArith Proofs.Utf8P Proofs.ReaderP.
Local Open Scope N_scope.

Lemma trail_lt256 k : forall v, Forall (fun b => b < 256) (utf8_trail k v).
Proof.
  induction k as [|k IH]; intros v; cbn [utf8_trail]; constructor; [|apply IH].
  pose proof (N.mod_lt (v / 2 ^ (6 * N.of_nat k)) 64 ltac:(lia)) as Hm.
  set (g := (v / 2 ^ (6 * N.of_nat k)) mod 64) in *. lia.
Qed.

Lemma trail_fold_mod64 k : forall v acc,
  fold_left (fun a b => a * 64 + b mod 64) (utf8_trail k v) acc
  = fold_left (fun a c => a * 64 + (c - 128)) (utf8_trail k v) acc.
Proof.
  induction k as [|k IH]; intros v acc; cbn [utf8_trail fold_left]; [reflexivity|].
  rewrite IH. f_equal. f_equal.
  pose proof (N.mod_lt (v / 2 ^ (6 * N.of_nat k)) 64 ltac:(lia)) as Hm.
  set (g := (v / 2 ^ (6 * N.of_nat k)) mod 64) in *.
  replace (128 + g - 128) with g by lia.
  replace (128 + g) with (g + 2 * 64) by lia. rewrite N.mod_add by lia. apply N.mod_small. exact Hm.
Qed.

(* classification of the head byte as parser.rs does it (thresholds and masks) *)
Lemma p_head_classify k lead : 1 <= k <= 6 -> lead < 2 ^ (6 - k) ->
  let h := head_byte k lead in
  (if h <? 128 then (0, h mod 128) else if h <? 224 then (1, h mod 32) else if h <? 240 then (2, h mod 16)
   else if h <? 248 then (3, h mod 8) else if h <? 252 then (4, h mod 4) else if h <? 254 then (5, h mod 2)
   else if h =? 254 then (6, 0) else (7, 0)) = (k, lead).
Proof.
  intros Hk Hl. cbv zeta.
  assert (Hc : k = 1 \/ k = 2 \/ k = 3 \/ k = 4 \/ k = 5 \/ k = 6) by lia.
  unfold head_byte, utf8_head.
  destruct Hc as [-> | [-> | [-> | [-> | [-> | ->]]]]].
  - change (2 ^ (6 - 1)) with 32 in Hl. change (1 =? 6) with false. change (256 - 2 ^ (7 - 1)) with 192. cbv iota.
    destruct (N.ltb_spec (192 + lead) 128); [lia|]. destruct (N.ltb_spec (192 + lead) 224); [|lia].
    f_equal. replace (192 + lead) with (lead + 6 * 32) by lia. rewrite N.mod_add by lia. apply N.mod_small. lia.
  - change (2 ^ (6 - 2)) with 16 in Hl. change (2 =? 6) with false. change (256 - 2 ^ (7 - 2)) with 224. cbv iota.
    destruct (N.ltb_spec (224 + lead) 128); [lia|]. destruct (N.ltb_spec (224 + lead) 224); [lia|].
    destruct (N.ltb_spec (224 + lead) 240); [|lia].
    f_equal. replace (224 + lead) with (lead + 14 * 16) by lia. rewrite N.mod_add by lia. apply N.mod_small. lia.
  - change (2 ^ (6 - 3)) with 8 in Hl. change (3 =? 6) with false. change (256 - 2 ^ (7 - 3)) with 240. cbv iota.
    destruct (N.ltb_spec (240 + lead) 128); [lia|]. destruct (N.ltb_spec (240 + lead) 224); [lia|].
    destruct (N.ltb_spec (240 + lead) 240); [lia|]. destruct (N.ltb_spec (240 + lead) 248); [|lia].
    f_equal. replace (240 + lead) with (lead + 30 * 8) by lia. rewrite N.mod_add by lia. apply N.mod_small. lia.
  - change (2 ^ (6 - 4)) with 4 in Hl. change (4 =? 6) with false. change (256 - 2 ^ (7 - 4)) with 248. cbv iota.
    destruct (N.ltb_spec (248 + lead) 128); [lia|]. destruct (N.ltb_spec (248 + lead) 224); [lia|].
    destruct (N.ltb_spec (248 + lead) 240); [lia|]. destruct (N.ltb_spec (248 + lead) 248); [lia|].
    destruct (N.ltb_spec (248 + lead) 252); [|lia].
    f_equal. replace (248 + lead) with (lead + 62 * 4) by lia. rewrite N.mod_add by lia. apply N.mod_small. lia.
  - change (2 ^ (6 - 5)) with 2 in Hl. change (5 =? 6) with false. change (256 - 2 ^ (7 - 5)) with 252. cbv iota.
    destruct (N.ltb_spec (252 + lead) 128); [lia|]. destruct (N.ltb_spec (252 + lead) 224); [lia|].
    destruct (N.ltb_spec (252 + lead) 240); [lia|]. destruct (N.ltb_spec (252 + lead) 248); [lia|].
    destruct (N.ltb_spec (252 + lead) 252); [lia|]. destruct (N.ltb_spec (252 + lead) 254); [|lia].
    f_equal. replace (252 + lead) with (lead + 126 * 2) by lia. rewrite N.mod_add by lia. apply N.mod_small. lia.
  - change (2 ^ (6 - 6)) with 1 in Hl. assert (lead = 0) by lia. subst lead. vm_compute. reflexivity.
Qed.

(* parser.rs utf8_code inverts bitrepr.rs encode_to_utf8like on a byte-aligned reader *)
Theorem p_utf8_roundtrip v bytes rest c :
  utf8like v = Ok bytes ->
  p_utf8 (mkRd (bytes ++ rest) 0 c) = Some (v, mkRd rest 0 (c + N.of_nat (length bytes))).
Proof.
  unfold utf8like.
  destruct (N.leb_spec (code_bits v) 7) as [H7|H7].
  - intros E. inversion E; subst bytes. cbn [app length]. unfold p_utf8.
    assert (Hv : v < 128).
    { unfold code_bits in H7. eapply N.lt_le_trans; [apply N.size_gt|]. change 128 with (2 ^ 7). apply pow2_le. exact H7. }
    rewrite rbits8_aligned by lia.
    destruct (N.ltb_spec v 128); [|lia]. cbn [N.eqb N.to_nat rmany fold_left].
    rewrite N.mod_small by assumption. reflexivity.
  - destruct (N.ltb_spec 36 (code_bits v)) as [?|H36]; [discriminate|].
    destruct (class_bounds v ltac:(lia) H36) as (Hk & Hhi & Hlo).
    cbv zeta. set (k := (code_bits v - 2) / 5) in *.
    intros E. apply (f_equal (fun r => match r with Ok x => x | _ => [] end)) in E. subst bytes.
    assert (Hlead : v / 2 ^ (6 * k) < 2 ^ (6 - k)).
    { apply N.div_lt_upper_bound; [apply pow2_nz|]. rewrite <- N.pow_add_r.
      replace (6 * k + (6 - k)) with (5 * k + 6) by lia. exact Hhi. }
    rewrite (N.mod_small _ _ Hlead).
    set (lead := v / 2 ^ (6 * k)) in *. fold (head_byte k lead).
    destruct (head_classify k lead Hk Hlead) as [H192 _].
    assert (Hh256 : head_byte k lead < 256).
    { unfold head_byte, utf8_head. destruct (N.eqb_spec k 6); [lia|].
      assert (2 ^ (6 - k) <= 2 ^ (7 - k) - 0) by (rewrite N.sub_0_r; apply pow2_le; lia).
      assert (2 ^ (7 - k) <= 2 ^ 7) by (apply pow2_le; lia). change (2 ^ 7) with 128 in *.
      assert (2 ^ (6 - k) * 2 = 2 ^ (7 - k)).
      { replace (7 - k) with (N.succ (6 - k)) by lia. rewrite N.pow_succ_r'. lia. }
      lia. }
    cbn [app length]. unfold p_utf8. rewrite rbits8_aligned by exact Hh256.
    rewrite (p_head_classify k lead Hk Hlead).
    destruct (N.eqb_spec k 7); [lia|].
    rewrite (rmany_bytes_aligned (N.to_nat k) (utf8_trail (N.to_nat k) v) rest (c + 1)
               (trail_length _ _) (trail_lt256 _ _)).
    rewrite trail_fold_mod64, trail_fold, N2Nat.id.
    assert (Hv : lead * 2 ^ (6 * k) + v mod 2 ^ (6 * k) = v) by (symmetry; apply split_hi_lo).
    rewrite Hv, trail_length. do 3 f_equal. lia.
Qed.
