(* C12: a sink failing at its k-th call yields an error, and the accepted calls denote a bit
   prefix of the complete bitstream. *)
From FV Require Import Model.Base Model.Sink Model.Component Model.FailSink
  Proofs.SinkArith Proofs.SinkU64 Proofs.SinkRefine.
Local Open Scope N_scope.

Definition is_prefix {A} (a b : list A) : Prop := exists rest, b = a ++ rest.

Lemma prefix_refl {A} (a : list A) : is_prefix a a.
Proof. exists []. rewrite app_nil_r. reflexivity. Qed.

Lemma prefix_trans {A} (a b c : list A) : is_prefix a b -> is_prefix b c -> is_prefix a c.
Proof. intros [r1 ->] [r2 ->]. exists (r1 ++ r2). rewrite app_assoc. reflexivity. Qed.

Lemma prefix_push b n v : is_prefix (bstr_bits b) (bstr_bits (bpush b n v)).
Proof. exists (bstr_bits (bfield n v)). apply bstr_bits_push. Qed.

Lemma prefix_fold_bytes bs : forall b,
  is_prefix (bstr_bits b) (bstr_bits (fold_left (fun a x => bpush a 8 x) bs b)).
Proof.
  induction bs as [|x t IH]; intros b; cbn [fold_left]; [apply prefix_refl|].
  eapply prefix_trans; [apply prefix_push | apply IH].
Qed.

Lemma prefix_step b o : is_prefix (bstr_bits b) (bstr_bits (ideal_step b o)).
Proof.
  destruct o; cbn [ideal_step]; try apply prefix_push.
  eapply prefix_trans; [apply prefix_push | apply prefix_fold_bytes].
Qed.

Lemma prefix_fold ops : forall b, is_prefix (bstr_bits b) (bstr_bits (fold_left ideal_step ops b)).
Proof.
  induction ops as [|o r IH]; intros b; cbn [fold_left]; [apply prefix_refl|].
  eapply prefix_trans; [apply prefix_step | apply IH].
Qed.

(* the bits of any initial segment of a call sequence are a prefix of the bits of the whole *)
Theorem firstn_bits_prefix k ops :
  is_prefix (bstr_bits (ideal_run (firstn k ops))) (bstr_bits (ideal_run ops)).
Proof.
  unfold ideal_run. rewrite <- (firstn_skipn k ops) at 2. rewrite fold_left_app. apply prefix_fold.
Qed.

(* the expansion into required calls denotes the same bit string *)
Lemma zeros_calls_ideal fuel : forall n b, n <= 64 * N.of_nat fuel + 64 ->
  fold_left ideal_step (zeros_calls fuel n) b = bpush b n 0.
Proof.
  induction fuel as [|f IH]; intros n b Hn; cbn [zeros_calls].
  - cbn [fold_left ideal_step]. rewrite N.mod_0_l, N.div_0_l by apply pow2_nz. reflexivity.
  - destruct (N.ltb_spec 64 n).
    + cbn [fold_left ideal_step]. rewrite IH by lia. rewrite bpush_bpush_zeros. f_equal. lia.
    + cbn [fold_left ideal_step]. rewrite N.mod_0_l, N.div_0_l by apply pow2_nz. reflexivity.
Qed.

Lemma expand_op_ideal b o : wf_op o = true ->
  fold_left ideal_step (expand_op o) b = ideal_step b o.
Proof.
  intros Hwf. destruct o as [w v | w v n | w v n | v n | n | | bs]; cbn [expand_op]; try (cbn [fold_left]; reflexivity).
  - cbn [wf_op] in Hwf. rewrite !Bool.andb_true_iff, !N.leb_le in Hwf. destruct Hwf as [[[H1 H64] _] _].
    cbn [fold_left ideal_step].
    destruct (twoc_shifted_eq v n H1 H64) as [E Hd].
    assert (Hlt : twoc_shifted v n < 2 ^ 64).
    { rewrite E. replace 64 with (n + (64 - n)) at 2 by lia. apply mul_lt_pow2; [assumption|lia]. }
    rewrite (N.mod_small _ _ Hlt), E, mul_div_pow2. reflexivity.
  - apply zeros_calls_ideal. rewrite N2Nat.id.
    pose proof (N.div_mod n 64 ltac:(lia)). pose proof (N.mod_lt n 64 ltac:(lia)).
    set (q := n / 64) in *. set (r := n mod 64) in *. lia.
  - cbn [fold_left ideal_step]. generalize (bpush b ((8 - blen_i b mod 8) mod 8) 0). clear Hwf.
    induction bs as [|x t IH]; intros b0; cbn [map fold_left ideal_step]; [reflexivity|]. apply IH.
Qed.

Lemma expand_ideal ops : forall b, forallb wf_op ops = true ->
  fold_left ideal_step (expand ops) b = fold_left ideal_step ops b.
Proof.
  induction ops as [|o r IH]; intros b Hwf; cbn [expand flat_map fold_left]; [reflexivity|].
  cbn [forallb] in Hwf. apply Bool.andb_true_iff in Hwf. destruct Hwf as [Ho Hr].
  rewrite fold_left_app, expand_op_ideal by assumption. apply IH. assumption.
Qed.

(* C12 *)
Theorem failing_sink k ops :
  forallb wf_op ops = true ->
  let '(res, accepted) := write_failing k ops in
  (res = Err E_SINK \/ res = Ok tt) /\
  (k < length (expand ops) -> res = Err E_SINK)%nat /\
  (length (expand ops) <= k -> res = Ok tt /\ ideal_run accepted = ideal_run ops)%nat /\
  accepted = firstn k (expand ops) /\
  is_prefix (bstr_bits (ideal_run accepted)) (bstr_bits (ideal_run ops)).
Proof.
  intros Hwf. unfold write_failing.
  assert (Hex : ideal_run (expand ops) = ideal_run ops) by (unfold ideal_run; apply expand_ideal; assumption).
  destruct (Nat.ltb_spec k (length (expand ops))) as [Hlt|Hge].
  - repeat split; try (left; reflexivity); try reflexivity; try lia.
    rewrite <- Hex. apply firstn_bits_prefix.
  - repeat split; try (right; reflexivity); try reflexivity; try lia; try assumption.
    + rewrite firstn_all2 by assumption. reflexivity.
    + rewrite Hex. apply prefix_refl.
Qed.
