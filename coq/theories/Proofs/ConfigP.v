(* C07 (exactness of verification) and C19 (TOML round trip and defaults). *)
From FV Require Import Generated Model.Base Model.Encoder Model.Config.
Local Open Scope N_scope.

(* ---- C07: verification accepts exactly the documented ranges ---- *)

Theorem verify_exact experimental c :
  verify experimental c = true <-> in_documented_ranges experimental c.
Proof.
  unfold verify, verify_subframe, verify_fixed, verify_qlpc, verify_prc, verify_order_sel, verify_window,
    in_documented_ranges, in_range.
  change deleg_Encoder_subframe_coding with true. change deleg_SubFrameCoding_fixed with true.
  change deleg_SubFrameCoding_qlpc with true. change deleg_SubFrameCoding_prc with true.
  change deleg_Fixed_order_sel with true. change deleg_Qlpc_window with true.
  change c_MIN_BLOCK_SIZE with 32. change c_MAX_BLOCK_SIZE with 32767. change c_FIXED_MAX_LPC_ORDER with 4.
  change c_MAX_ENTROPY_ESTIMATOR_PARTITIONS with 64. change c_QLPC_MAX_ORDER with 24.
  change c_QLPC_MAX_PRECISION with 15. change c_RICE_MAX_RICE_PARAMETER with 14.
  cbv iota.
  rewrite !Bool.andb_true_iff, !N.leb_le.
  split.
  - intros [[Hb1 Hb2] [[[Hfo Hos] [[[[Hlo1 Hlo2] [Hqp1 Hqp2]] Hexp] Hwin]] Hmp]].
    split; [split; assumption|]. split; [assumption|]. split.
    { intros parts E. rewrite E in Hos. rewrite Bool.andb_true_iff, !N.leb_le in Hos. exact Hos. }
    split; [split; assumption|]. split; [split; assumption|]. split; [assumption|]. split.
    { intros bits E. rewrite E in Hwin. exact Hwin. }
    intros ->. cbn [orb] in Hexp. rewrite Bool.andb_true_iff, Bool.negb_true_iff, N.eqb_eq in Hexp. exact Hexp.
  - intros ([Hb1 Hb2] & Hfo & Hos & [Hlo1 Hlo2] & [Hqp1 Hqp2] & Hmp & Hwin & Hexp).
    split; [split; assumption|]. split; [split|assumption].
    + split; [assumption|]. destruct (cfg_order_sel c) as [parts|]; [|reflexivity].
      destruct (Hos parts eq_refl). rewrite Bool.andb_true_iff, !N.leb_le. split; assumption.
    + split; [split; [split; [split; assumption | split; assumption]|]|].
      * destruct experimental; [reflexivity|]. cbn [orb]. destruct (Hexp eq_refl) as [H1 H2].
        rewrite H1, H2. reflexivity.
      * destruct (cfg_window c) as [bits|]; [apply Hwin; reflexivity | reflexivity].
Qed.

(* ---- C19 ---- *)

Ltac lk := cbn [lookup N.eqb Pos.eqb K_block_size K_multithread K_workers K_stereo_coding K_subframe_coding
  K_use_leftside K_use_rightside K_use_midside K_use_constant K_use_fixed K_use_lpc K_fixed K_qlpc K_prc
  K_max_order K_order_sel K_type K_partitions K_lpc_order K_quant_precision K_use_direct_mse
  K_mae_optimization_steps K_window K_alpha K_max_parameter].

Lemma get_usize_int k v r d : get_usize k ((k, TInt (Z.of_N v)) :: r) d = Ok v.
Proof.
  unfold get_usize. cbn [lookup]. rewrite N.eqb_refl.
  destruct (Z.leb_spec 0 (Z.of_N v)); [|lia]. rewrite N2Z.id. reflexivity.
Qed.

Lemma leb0_of_N v : (0 <=? Z.of_N v)%Z = true.
Proof. apply Z.leb_le. lia. Qed.

Lemma leb1_of_N v : v <> 0 -> (1 <=? Z.of_N v)%Z = true.
Proof. intros H. apply Z.leb_le. lia. Qed.

Ltac doc_eval Hw :=
  cbv - [Z.leb Z.to_N Z.of_N];
  repeat (rewrite ?leb0_of_N, ?N2Z.id; try rewrite leb1_of_N by (intros ->; apply Hw; reflexivity));
  try reflexivity.

Theorem toml_roundtrip c :
  cfg_workers c <> Some 0 -> from_doc (to_doc c) = Ok c.
Proof.
  intros Hw. destruct c as [bs mt w ls rs ms uc uf ul fo os lo qp dm ma win mp].
  cbn [cfg_workers] in Hw.
  destruct w as [wv|]; destruct os as [p|]; destruct win as [bits|]; doc_eval Hw.
Qed.

(* an empty document gives the documented defaults *)
Theorem toml_empty_is_default : from_doc [] = Ok default_config.
Proof. reflexivity. Qed.

(* omitting a whole section gives the defaults for exactly that section *)
Definition erase (k : N) (d : list (N * tv)) : list (N * tv) := filter (fun kv => negb (fst kv =? k)) d.

Theorem toml_omit_stereo c : cfg_workers c <> Some 0 ->
  from_doc (erase K_stereo_coding (to_doc c))
  = Ok (mkCfg (cfg_block_size c) (cfg_multithread c) (cfg_workers c) d_ls d_rs d_ms
              (cfg_use_constant c) (cfg_use_fixed c) (cfg_use_lpc c) (cfg_fixed_max_order c) (cfg_order_sel c)
              (cfg_lpc_order c) (cfg_quant_precision c) (cfg_use_direct_mse c) (cfg_mae_steps c) (cfg_window c)
              (cfg_max_parameter c)).
Proof.
  intros Hw. destruct c as [bs mt w ls rs ms uc uf ul fo os lo qp dm ma win mp].
  cbn [cfg_workers] in Hw.
  destruct w as [wv|]; destruct os as [p|]; destruct win as [bits|]; doc_eval Hw.
Qed.

Theorem toml_omit_subframe c : cfg_workers c <> Some 0 ->
  from_doc (erase K_subframe_coding (to_doc c))
  = Ok (mkCfg (cfg_block_size c) (cfg_multithread c) (cfg_workers c)
              (cfg_use_leftside c) (cfg_use_rightside c) (cfg_use_midside c)
              d_uc d_uf d_ul d_fo d_order_sel d_lo d_qp d_dm d_ma d_window d_mp).
Proof.
  intros Hw. destruct c as [bs mt w ls rs ms uc uf ul fo os lo qp dm ma win mp].
  cbn [cfg_workers] in Hw.
  destruct w as [wv|]; destruct os as [p|]; destruct win as [bits|]; doc_eval Hw.
Qed.

Theorem toml_omit_scalars c :
  from_doc (erase K_workers (erase K_multithread (erase K_block_size (to_doc c))))
  = Ok (mkCfg d_bs d_mt d_workers
              (cfg_use_leftside c) (cfg_use_rightside c) (cfg_use_midside c)
              (cfg_use_constant c) (cfg_use_fixed c) (cfg_use_lpc c) (cfg_fixed_max_order c) (cfg_order_sel c)
              (cfg_lpc_order c) (cfg_quant_precision c) (cfg_use_direct_mse c) (cfg_mae_steps c) (cfg_window c)
              (cfg_max_parameter c)).
Proof.
  destruct c as [bs mt w ls rs ms uc uf ul fo os lo qp dm ma win mp].
  assert (Hw : @None N <> Some 0) by discriminate.
  destruct w as [wv|]; destruct os as [p|]; destruct win as [bits|]; doc_eval Hw.
Qed.

(* a tagged ApproxEnt selector without `partitions` takes the documented default count *)
Theorem toml_partitions_default :
  get_order_sel [(K_order_sel, TTable [(K_type, TStr S_ApproxEnt)])]
  = Ok (Some c_DEFAULT_ENTROPY_ESTIMATOR_PARTITIONS).
Proof. reflexivity. Qed.

(* a parsed configuration is verified exactly like the in-memory value it denotes *)
Theorem toml_verify_agrees experimental d c :
  from_doc d = Ok c -> verify experimental c = true <-> in_documented_ranges experimental c.
Proof. intros _. apply verify_exact. Qed.

(* the defaults are the documented ones and are accepted by verification *)
Example default_values :
  default_config = mkCfg 4096 true None true true true true true true 4 (Some 16) 10 15 false 0
                         (Some 1053609165) 14      (* 0x3ECCCCCD = 0.4f32 *)
  /\ verify false default_config = true.
Proof. split; reflexivity. Qed.
