(* C01 at the bit level: the INDEPENDENT decoder (Flac.read_subframe), started anywhere in a byte
   string on the bits a subframe was serialised to, returns the samples that subframe means
   (Lossless.decode_sub) and stops right after them. *)
From FV Require Import Generated Model.Base Model.Sink Model.Crc Model.Codes Model.Rice Model.Predict
  Model.Component Model.Flac Model.Parser Model.Ctor
  Proofs.SinkArith Proofs.SinkRefine Proofs.OpsLen Proofs.BitRead Proofs.BitWrite Proofs.BitUnary Proofs.CtorP
  Proofs.ParseResidual Proofs.ParseSubframe Proofs.Lossless.
Local Open Scope N_scope.

(* the value a Rice-coded sample stands for *)
Definition rv (p : N) (qr : N * N) : Z := unzigzag (fst qr * 2 ^ p + snd qr).

(* representable as a FLAC residual: below 2^32 - 1 after folding, i.e. -2^31 < value < 2^31 *)
Definition u_ok (p : N) (qr : N * N) : Prop := fst qr * 2 ^ p + snd qr < 2 ^ 32 - 1.

Lemma unzigzag_gt u : u < 2 ^ 32 - 1 -> (- 2 ^ 31 < unzigzag u)%Z.
Proof.
  intros Hu. unfold unzigzag. change (2 ^ 32 - 1) with 4294967295 in Hu.
  destruct (N.odd u) eqn:Eo.
  - assert (Hle : u <= 4294967293).
    { apply N.odd_spec in Eo. destruct Eo as [m Hm]. lia. }
    assert (u / 2 <= 2147483646).
    { change 2147483646 with (4294967293 / 2). apply N.div_le_mono; [lia | exact Hle]. }
    set (h := u / 2) in *. change (2 ^ 31)%Z with 2147483648%Z. lia.
  - set (h := u / 2). change (2 ^ 31)%Z with 2147483648%Z. lia.
Qed.

Lemma reads_rice_sample p q r : r < 2 ^ p -> u_ok p (q, r) ->
  reads (read_rice_sample p) (sample_bits p q r) (rv p (q, r)).
Proof.
  intros Hr Hu rd0 rest Hwf Hb. unfold u_ok in Hu. cbn [fst snd] in Hu.
  destruct (reads_sample p q r Hr rd0 rest Hwf Hb) as (r1 & r2 & E1 & E2 & Hb2 & Hwf2 & Hp2 & Hk2).
  exists r2. unfold read_rice_sample. rewrite E1, E2.
  destruct (N.leb_spec (2 ^ 32) (q * 2 ^ p + r)) as [Hge|_]; [change (2 ^ 32 - 1) with 4294967295 in Hu; change (2 ^ 32) with 4294967296 in Hge; lia|].
  pose proof (unzigzag_gt _ Hu) as Hv.
  destruct (Z.leb_spec (unzigzag (q * 2 ^ p + r)) (- 2 ^ 31)) as [Hle|_]; [lia|].
  split; [reflexivity|]. split; [exact Hb2|]. split; [exact Hwf2|]. split; [|exact Hk2].
  rewrite Hp2. unfold sample_bits. rewrite app_length, repeat_length. cbn [length]. rewrite bits_msb_length. lia.
Qed.

Lemma reads_rice_samples p : forall qs rs,
  length qs = length rs -> Forall (fun r => r < 2 ^ p) rs -> Forall (u_ok p) (combine qs rs) ->
  reads (rmany (length qs) (read_rice_sample p)) (part_bits p qs rs) (map (rv p) (combine qs rs)).
Proof.
  induction qs as [|q qs IH]; intros [|r rs] Hl Hr Hu; cbn [length] in Hl; try discriminate.
  - intros rd0 rest Hwf Hb. exists rd0. cbn [length rmany part_bits app combine map] in *.
    fin5 Hwf; [lia | apply rd_adv_refl].
  - inversion Hr as [|? ? Hr1 Hr2]; subst. cbn [combine] in Hu. inversion Hu as [|? ? Hu1 Hu2]; subst.
    intros rd0 rest Hwf Hb. cbn [part_bits] in Hb. rewrite <- app_assoc in Hb.
    destruct (reads_rice_sample p q r Hr1 Hu1 rd0 _ Hwf Hb) as (r1 & E1 & Hb1 & Hwf1 & Hp1 & Hk1).
    destruct (IH rs ltac:(lia) Hr2 Hu2 r1 rest Hwf1 Hb1) as (r2 & E2 & Hb2 & Hwf2 & Hp2 & Hk2).
    exists r2. cbn [length rmany combine map]. rewrite E1, E2.
    split; [reflexivity|]. split; [exact Hb2|]. split; [exact Hwf2|]. split.
    + rewrite Hp2, Hp1. cbn [part_bits]. rewrite app_length, Nat2N.inj_add. lia.
    + exact (rd_adv_trans _ _ _ Hk1 Hk2).
Qed.

(* ---- partitions: the values, partition by partition ---- *)
Fixpoint parts_values (params : list N) (part skip : nat) (qs rs : list N) : list Z :=
  match params with
  | [] => []
  | p :: ps => map (rv p) (combine (skipn skip (firstn part qs)) (skipn skip (firstn part rs)))
               ++ parts_values ps part 0 (skipn part qs) (skipn part rs)
  end.

Fixpoint parts_u_ok (params : list N) (part skip : nat) (qs rs : list N) : Prop :=
  match params with
  | [] => True
  | p :: ps => Forall (u_ok p) (combine (skipn skip (firstn part qs)) (skipn skip (firstn part rs)))
               /\ parts_u_ok ps part 0 (skipn part qs) (skipn part rs)
  end.

Lemma reads_read_partitions : forall params (first : bool) part warm qs rs,
  let skipW := if first then N.to_nat warm else 0%nat in
  (N.to_nat warm <= part)%nat ->
  Forall (fun p => p < 15) params -> rems_ok params part rs = true ->
  length qs = (length params * part)%nat -> length rs = (length params * part)%nat ->
  parts_u_ok params part skipW qs rs ->
  reads (read_partitions (length params) first (N.of_nat part) warm) (parts_bits params part skipW qs rs)
        (parts_values params part skipW qs rs).
Proof.
  induction params as [|p ps IH]; intros first part warm qs rs skipW Hw Hp Hr Hlq Hlr Hu rd0 rest Hwf Hb.
  - exists rd0. cbn [length read_partitions parts_bits parts_values app] in *.
    fin5 Hwf; [lia | apply rd_adv_refl].
  - inversion Hp as [|? ? Hp1 Hp2]; subst.
    cbn [rems_ok] in Hr. apply Bool.andb_true_iff in Hr. destruct Hr as [Hr1 Hr2].
    cbn [parts_u_ok] in Hu. destruct Hu as [Hu1 Hu2].
    cbn [length] in Hlq, Hlr. cbn [parts_bits] in Hb. rewrite <- !app_assoc in Hb.
    destruct (reads_rbits 4 p ltac:(change (2 ^ 4) with 16; lia) rd0 _ Hwf Hb) as (r1 & E1 & Hb1 & Hwf1 & Hp_1 & Hk1).
    assert (Hskip : (skipW <= part)%nat) by (unfold skipW; destruct first; lia).
    set (qpart := skipn skipW (firstn part qs)) in *. set (rpart := skipn skipW (firstn part rs)) in *.
    assert (Hlen_q : length qpart = (part - skipW)%nat) by (unfold qpart; rewrite skipn_length, firstn_length; lia).
    assert (Hlen_r : length rpart = (part - skipW)%nat) by (unfold rpart; rewrite skipn_length, firstn_length; lia).
    destruct (reads_rice_samples p qpart rpart ltac:(lia)
                ltac:(apply Forall_skipn; apply forallb_Forall_ltb; exact Hr1) Hu1
                r1 _ Hwf1 Hb1) as (r2 & E2 & Hb2 & Hwf2 & Hp_2 & Hk2).
    destruct (IH false part warm (skipn part qs) (skipn part rs) Hw Hp2 Hr2
                ltac:(rewrite skipn_length; lia) ltac:(rewrite skipn_length; lia) Hu2
                r2 rest Hwf2 Hb2) as (r3 & E3 & Hb3 & Hwf3 & Hp_3 & Hk3).
    exists r3. cbn [length read_partitions]. rewrite E1.
    destruct (N.eqb_spec p 15) as [?|_]; [lia|].
    replace (N.to_nat (if first then N.of_nat part - warm else N.of_nat part)) with (length qpart)
      by (rewrite Hlen_q; unfold skipW; destruct first; lia).
    rewrite E2, E3.
    split; [reflexivity|]. split; [exact Hb3|]. split; [exact Hwf3|]. split.
    + rewrite Hp_3, Hp_2, Hp_1. cbn [parts_bits]. fold qpart rpart.
      rewrite !app_length, !Nat2N.inj_add. change (N.to_nat 4) with 4%nat. lia.
    + exact (rd_adv_trans _ _ _ Hk1 (rd_adv_trans _ _ _ Hk2 Hk3)).
Qed.

(* the per-partition values are the component's residual values without the warm-up *)
Lemma combine_app {A B} : forall (a1 a2 : list A) (b1 b2 : list B),
  length a1 = length b1 -> combine (a1 ++ a2) (b1 ++ b2) = combine a1 b1 ++ combine a2 b2.
Proof.
  induction a1 as [|x t IH]; intros a2 [|y u] b2 H; cbn [length] in H; try discriminate; [reflexivity|].
  cbn [app combine]. rewrite IH by lia. reflexivity.
Qed.

Lemma combine_repeat_map {A} (p : N) (f : N -> A -> Z) : forall (l : list A),
  map (fun pq => f (fst pq) (snd pq)) (combine (repeat p (length l)) l) = map (f p) l.
Proof. induction l as [|x t IH]; cbn [length repeat combine map]; [reflexivity|]. rewrite IH. reflexivity. Qed.

Lemma rice_value_rv p q r : rice_value (p, (q, r)) = rv p (q, r).
Proof. reflexivity. Qed.

Lemma parts_values_all : forall params part qs rs,
  length qs = (length params * part)%nat -> length rs = (length params * part)%nat ->
  map rice_value (combine (param_per_sample params part) (combine qs rs)) = parts_values params part 0 qs rs.
Proof.
  induction params as [|p ps IH]; intros part qs rs Hq Hr; cbn [param_per_sample flat_map parts_values]; [reflexivity|].
  fold (param_per_sample ps part). cbn [length] in Hq, Hr. cbn [skipn].
  rewrite <- (firstn_skipn part qs) at 1. rewrite <- (firstn_skipn part rs) at 1.
  rewrite (combine_app (firstn part qs) (skipn part qs) (firstn part rs) (skipn part rs))
    by (rewrite !firstn_length; lia).
  rewrite combine_app by (rewrite repeat_length, combine_length, !firstn_length; lia).
  rewrite map_app. f_equal.
  - replace part with (length (combine (firstn part qs) (firstn part rs))) at 1
      by (rewrite combine_length, !firstn_length; lia).
    rewrite <- (combine_repeat_map p (fun p0 qr => rice_value (p0, qr))). apply map_ext. intros [a [b c]]. reflexivity.
  - apply IH; rewrite skipn_length; lia.
Qed.

Lemma skipn_parts_values : forall params part skip qs rs,
  (skip <= part)%nat -> (1 <= length params)%nat ->
  length qs = (length params * part)%nat -> length rs = (length params * part)%nat ->
  skipn skip (parts_values params part 0 qs rs) = parts_values params part skip qs rs.
Proof.
  intros params part skip qs rs Hs Hn Hq Hr. destruct params as [|p ps]; [cbn in Hn; lia|].
  cbn [parts_values skipn]. cbn [length] in Hq, Hr.
  rewrite skipn_app_le by (rewrite map_length, combine_length, !firstn_length; lia).
  f_equal. rewrite skipn_map. f_equal.
  rewrite skipn_combine. reflexivity.
Qed.

(* ---- the whole residual section, as the independent decoder reads it ---- *)
Definition residual_u_ok (r : residual) : Prop :=
  parts_u_ok (r_params r) (N.to_nat (r_block r / 2 ^ r_order r)) (N.to_nat (r_warmup r)) (r_quot r) (r_rem r).

Lemma forallb_lt15 l : forallb (fun p => p <=? c_RICE_MAX_RICE_PARAMETER) l = true -> Forall (fun p => p < 15) l.
Proof.
  induction l as [|x t IH]; cbn [forallb]; intros H; [constructor|].
  apply Bool.andb_true_iff in H. destruct H as [Hx Ht]. apply N.leb_le in Hx. change c_RICE_MAX_RICE_PARAMETER with 14 in Hx.
  constructor; [lia | apply IH; exact Ht].
Qed.

Theorem reads_read_residual r :
  verify_residual r = true -> residual_u_ok r ->
  reads (read_residual (r_block r) (r_warmup r)) (ParseResidual.residual_bits r)
        (skipn (N.to_nat (r_warmup r)) (residual_values r)).
Proof.
  intros Hv Hu.
  destruct (verify_residual_facts r Hv) as (Hl & Hlq & Hmax & Hpo & Hp & Hpc & Hmod & Hw & Hpar & Hz & Hzr & Hrem).
  change c_RICE_MAX_PARTITION_ORDER with 15 in Hpo.
  set (pc := 2 ^ r_order r) in *.
  assert (Hpcnz : pc <> 0) by (unfold pc; apply pow2_nz).
  set (plen := r_block r / pc) in *.
  assert (Hblk : plen * pc = r_block r).
  { pose proof (N.div_mod (r_block r) pc Hpcnz) as Hd. rewrite Hmod, N.add_0_r in Hd. unfold plen. lia. }
  assert (Hplen1 : 1 <= plen) by nia.
  intros rd0 rest Hwf Hb. unfold ParseResidual.residual_bits in Hb. fold pc plen in Hb.
  change (false :: false :: ?x) with ([false; false] ++ x) in Hb. rewrite <- !app_assoc in Hb.
  destruct (reads_rbits 2 0 ltac:(reflexivity) rd0 _ Hwf Hb) as (r1 & E1 & Hb1 & Hwf1 & Hp1 & Hk1).
  destruct (reads_rbits 4 (r_order r) ltac:(change (2 ^ 4) with 16; lia) r1 _ Hwf1 Hb1) as (r2 & E2 & Hb2 & Hwf2 & Hp2 & Hk2).
  assert (Hparams_len : length (r_params r) = N.to_nat pc) by lia.
  assert (Hlen_q : length (r_quot r) = (length (r_params r) * N.to_nat plen)%nat).
  { rewrite Hparams_len. apply Nat2N.inj. rewrite Nat2N.inj_mul, !N2Nat.id. lia. }
  assert (Hlen_r : length (r_rem r) = (length (r_params r) * N.to_nat plen)%nat) by (rewrite <- Hl; exact Hlen_q).
  assert (Hwp : (N.to_nat (r_warmup r) <= N.to_nat plen)%nat) by lia.
  destruct (reads_read_partitions (r_params r) true (N.to_nat plen) (r_warmup r) (r_quot r) (r_rem r)
              Hwp (forallb_lt15 _ Hpar) Hrem Hlen_q Hlen_r Hu r2 rest Hwf2 Hb2) as (r3 & E3 & Hb3 & Hwf3 & Hp3 & Hk3).
  exists r3. unfold read_residual. rewrite E1. change (negb (0 =? 0)) with false. cbv iota.
  rewrite E2. fold pc. rewrite Hmod. change (negb (0 =? 0)) with false. cbv iota. fold plen.
  destruct (N.ltb_spec plen (r_warmup r)) as [?|_]; [lia|].
  destruct (N.eqb_spec plen 0) as [?|_]; [lia|]. rewrite Bool.andb_false_r.
  rewrite <- Hparams_len. rewrite N2Nat.id in E3. rewrite E3.
  assert (Hval : parts_values (r_params r) (N.to_nat plen) (N.to_nat (r_warmup r)) (r_quot r) (r_rem r)
                 = skipn (N.to_nat (r_warmup r)) (residual_values r)).
  { unfold residual_values. fold pc plen. rewrite parts_values_all by assumption.
    symmetry. apply skipn_parts_values; try assumption. rewrite Hparams_len.
    assert (1 <= pc) by (unfold pc; pose proof (pow2_pos (r_order r)); lia). lia. }
  rewrite Hval.
  split; [reflexivity|]. split; [exact Hb3|]. split; [exact Hwf3|]. split.
  - rewrite Hp3, Hp2, Hp1. rewrite !bits_msb_length. unfold ParseResidual.residual_bits. fold pc plen.
    cbn [length]. rewrite app_length, bits_msb_length, !Nat2N.inj_succ, Nat2N.inj_add.
    change (N.to_nat 2) with 2%nat. change (N.to_nat 4) with 4%nat. lia.
  - exact (rd_adv_trans _ _ _ Hk1 (rd_adv_trans _ _ _ Hk2 Hk3)).
Qed.

(* ---- subframes ---- *)
Lemma bits7_small t : t < 64 -> bits_msb 7 t = false :: bits_msb 6 t.
Proof.
  intros Ht. cbn [bits_msb N.of_nat Pos.of_succ_nat Pos.succ].
  assert (H6 : N.testbit t 6 = false).
  { destruct (N.eq_dec t 0) as [->|Hnz]; [apply N.bits_0|]. apply N.bits_above_log2.
    apply N.log2_lt_pow2; [lia|]. change (2 ^ 6) with 64. lia. }
  rewrite H6. reflexivity.
Qed.

Lemma reads_flac_header tag : tag < 64 ->
  forall rd0 rest, rd_wf rd0 -> rd_bits rd0 = header_bits tag ++ rest ->
  exists r1 r2 r3, rbits 1 rd0 = Some (0, r1) /\ rbits 6 r1 = Some (tag, r2) /\ rbits 1 r2 = Some (0, r3)
                   /\ rd_bits r3 = rest /\ rd_wf r3 /\ rd_pos r3 = rd_pos rd0 + 8 /\ rd_adv rd0 r3.
Proof.
  intros Ht rd0 rest Hwf Hb. unfold header_bits in Hb. rewrite bits7_small in Hb by exact Ht.
  change (false :: bits_msb 6 tag) with (bits_msb (N.to_nat 1) 0 ++ bits_msb (N.to_nat 6) tag) in Hb.
  rewrite <- !app_assoc in Hb.
  destruct (reads_rbits 1 0 ltac:(reflexivity) rd0 _ Hwf Hb) as (r1 & E1 & Hb1 & Hwf1 & Hp1 & Hk1).
  destruct (reads_rbits 6 tag ltac:(change (2 ^ 6) with 64; exact Ht) r1 _ Hwf1 Hb1) as (r2 & E2 & Hb2 & Hwf2 & Hp2 & Hk2).
  change [false] with (bits_msb (N.to_nat 1) 0) in Hb2.
  destruct (reads_rbits 1 0 ltac:(reflexivity) r2 _ Hwf2 Hb2) as (r3 & E3 & Hb3 & Hwf3 & Hp3 & Hk3).
  exists r1, r2, r3. rewrite bits_msb_length in Hp1, Hp2, Hp3.
  split; [exact E1|]. split; [exact E2|]. split; [exact E3|]. split; [exact Hb3|]. split; [exact Hwf3|]. split.
  - rewrite Hp3, Hp2, Hp1. change (N.to_nat 1) with 1%nat. change (N.to_nat 6) with 6%nat. lia.
  - exact (rd_adv_trans _ _ _ Hk1 (rd_adv_trans _ _ _ Hk2 Hk3)).
Qed.

Definition sub_u_ok (s : subframe) : Prop :=
  match s with SFixed _ res _ | SLpc _ _ res _ => residual_u_ok res | _ => True end.

Lemma reads_rsigned_one n x : 1 <= n -> sample_ok n x = true -> reads (rsigned n) (twoc_bits n x) x.
Proof. intros Hn Hx. apply reads_rsigned; [exact Hn | apply sample_ok_range; exact Hx]. Qed.

(* The independent decoder on the bits of a verified subframe returns what the subframe means. *)
Theorem flac_reads_subframe s :
  verify_subframe s = true -> sub_typed s -> sub_u_ok s ->
  reads (read_subframe (sub_block s) (sub_bps s)) (subframe_bits s) (decode_sub s).
Proof.
  destruct s as [blk dc bps | xs bps | warm res bps | warm q res bps];
    cbn [verify_subframe sub_typed sub_u_ok sub_block sub_bps subframe_bits decode_sub]; intros Hv Ht Hu rd0 rest Hwf Hb.
  - rewrite !Bool.andb_true_iff in Hv. destruct Hv as ((Hblk & Hbps) & Hdc). pose proof (bps_ok_range _ Hbps) as Hr.
    rewrite <- app_assoc in Hb.
    destruct (reads_flac_header 0 ltac:(lia) rd0 _ Hwf Hb) as (r1 & r2 & r3 & E1 & E2 & E3 & Hb3 & Hwf3 & Hp3 & Hk3).
    destruct (reads_rsigned_one bps dc ltac:(lia) Hdc r3 rest Hwf3 Hb3) as (r4 & E4 & Hb4 & Hwf4 & Hp4 & Hk4).
    exists r4. unfold read_subframe. rewrite E1. cbn [N.eqb negb]. rewrite E2, E3. cbn [N.eqb negb]. rewrite E4.
    split; [reflexivity|]. split; [exact Hb4|]. split; [exact Hwf4|]. split.
    + rewrite Hp4, Hp3, app_length. unfold header_bits, twoc_bits. rewrite app_length, !bits_msb_length. cbn [length]. lia.
    + exact (rd_adv_trans _ _ _ Hk3 Hk4).
  - rewrite !Bool.andb_true_iff in Hv. destruct Hv as ((Hblk & Hbps) & Hxs). pose proof (bps_ok_range _ Hbps) as Hr.
    rewrite <- app_assoc in Hb.
    destruct (reads_flac_header 1 ltac:(lia) rd0 _ Hwf Hb) as (r1 & r2 & r3 & E1 & E2 & E3 & Hb3 & Hwf3 & Hp3 & Hk3).
    destruct (reads_rmany_signed bps ltac:(lia) xs Hxs r3 rest Hwf3 Hb3) as (r4 & E4 & Hb4 & Hwf4 & Hp4 & Hk4).
    exists r4. unfold read_subframe. rewrite E1. cbn [N.eqb negb]. rewrite E2, E3. cbn [N.eqb Pos.eqb negb].
    rewrite Nat2N.id, E4.
    split; [reflexivity|]. split; [exact Hb4|]. split; [exact Hwf4|]. split.
    + rewrite Hp4, Hp3, app_length. unfold header_bits. rewrite app_length, !bits_msb_length. cbn [length]. lia.
    + exact (rd_adv_trans _ _ _ Hk3 Hk4).
  - rewrite !Bool.andb_true_iff in Hv. destruct Hv as (((Hbps & Hwm) & Hwl) & Hres). pose proof (bps_ok_range _ Hbps) as Hr.
    apply N.eqb_eq in Hwl.
    destruct (verify_residual_facts res Hres) as (_ & _ & _ & _ & _ & Hpc & _ & Hww & _).
    set (order := N.of_nat (length warm)) in *. assert (Ho : order <= 4) by (unfold order; lia).
    assert (Hblk_ge : order <= r_block res).
    { rewrite <- Hwl. eapply N.le_trans; [exact Hww|]. apply N.div_le_upper_bound; [apply pow2_nz|].
      pose proof (pow2_pos (r_order res)). nia. }
    rewrite <- !app_assoc in Hb.
    destruct (reads_flac_header (8 + order) ltac:(lia) rd0 _ Hwf Hb) as (r1 & r2 & r3 & E1 & E2 & E3 & Hb3 & Hwf3 & Hp3 & Hk3).
    destruct (reads_rmany_signed bps ltac:(lia) warm Hwm r3 _ Hwf3 Hb3) as (r4 & E4 & Hb4 & Hwf4 & Hp4 & Hk4).
    pose proof (reads_read_residual res Hres Hu r4 rest Hwf4 Hb4) as (r5 & E5 & Hb5 & Hwf5 & Hp5 & Hk5).
    exists r5. unfold read_subframe. rewrite E1. cbn [N.eqb negb]. rewrite E2, E3. cbn [N.eqb negb].
    destruct (N.eqb_spec (8 + order) 0) as [?|_]; [lia|].
    destruct (N.eqb_spec (8 + order) 1) as [?|_]; [lia|].
    destruct (N.leb_spec 8 (8 + order)) as [_|?]; [|lia].
    destruct (N.leb_spec (8 + order) 12) as [_|?]; [|lia]. cbn [andb].
    replace (8 + order - 8) with order by lia.
    destruct (N.ltb_spec (r_block res) order) as [?|_]; [lia|].
    unfold order at 1. rewrite Nat2N.id, E4.
    rewrite Hwl in E5. rewrite E5. unfold order. rewrite !Nat2N.id.
    split; [reflexivity|]. split; [exact Hb5|]. split; [exact Hwf5|]. split.
    + rewrite Hp5, Hp4, Hp3, !app_length. unfold header_bits. rewrite app_length, !bits_msb_length. cbn [length]. lia.
    + exact (rd_adv_trans _ _ _ Hk3 (rd_adv_trans _ _ _ Hk4 Hk5)).
  - rewrite !Bool.andb_true_iff in Hv. destruct Hv as (((((Hqv & Ho1) & Hwl) & Hbps) & Hwm) & Hres).
    pose proof (bps_ok_range _ Hbps) as Hr. apply N.eqb_eq in Hwl. apply N.leb_le in Ho1.
    destruct (verify_qparams_facts q Hqv) as (Ho & Hs & Hp & Hc). unfold q_order in Ho. rewrite Ht in Ho.
    destruct (verify_residual_facts res Hres) as (_ & _ & _ & _ & _ & Hpc & _ & Hww & _).
    set (order := N.of_nat (length warm)) in *.
    assert (Hblk_ge : order <= r_block res).
    { rewrite <- Hwl. eapply N.le_trans; [exact Hww|]. apply N.div_le_upper_bound; [apply pow2_nz|].
      pose proof (pow2_pos (r_order res)). nia. }
    rewrite <- !app_assoc in Hb.
    destruct (reads_flac_header (32 + (order - 1)) ltac:(lia) rd0 _ Hwf Hb) as (r1 & r2 & r3 & E1 & E2 & E3 & Hb3 & Hwf3 & Hp3 & Hk3).
    destruct (reads_rmany_signed bps ltac:(lia) warm Hwm r3 _ Hwf3 Hb3) as (r4 & E4 & Hb4 & Hwf4 & Hp4 & Hk4).
    destruct (reads_rbits 4 (q_precision q - 1) ltac:(change (2 ^ 4) with 16; lia) r4 _ Hwf4 Hb4) as (r5 & E5 & Hb5 & Hwf5 & Hp5 & Hk5).
    destruct (reads_rsigned 5 (q_shift q) ltac:(lia) ltac:(cbn; lia) r5 _ Hwf5 Hb5) as (r6 & E6 & Hb6 & Hwf6 & Hp6 & Hk6).
    destruct (reads_rmany_signed (q_precision q) ltac:(lia) (q_coefs q) Hc r6 _ Hwf6 Hb6) as (r7 & E7 & Hb7 & Hwf7 & Hp7 & Hk7).
    pose proof (reads_read_residual res Hres Hu r7 rest Hwf7 Hb7) as (r8 & E8 & Hb8 & Hwf8 & Hp8 & Hk8).
    exists r8. unfold read_subframe. rewrite E1. cbn [N.eqb negb]. rewrite E2, E3. cbn [N.eqb negb].
    destruct (N.eqb_spec (32 + (order - 1)) 0) as [?|_]; [lia|].
    destruct (N.eqb_spec (32 + (order - 1)) 1) as [?|_]; [lia|].
    destruct (N.leb_spec 8 (32 + (order - 1))) as [_|?]; [|lia].
    destruct (N.leb_spec (32 + (order - 1)) 12) as [?|_]; [lia|]. cbn [andb].
    destruct (N.leb_spec 32 (32 + (order - 1))) as [_|?]; [|lia].
    replace (32 + (order - 1) - 31) with order by lia.
    destruct (N.ltb_spec (r_block res) order) as [?|_]; [lia|].
    unfold order at 1. rewrite Nat2N.id, E4. rewrite E5.
    destruct (N.eqb_spec (q_precision q - 1) 15) as [?|_]; [lia|].
    rewrite E6.
    destruct (Z.ltb_spec (q_shift q) 0) as [?|_]; [lia|].
    replace (q_precision q - 1 + 1) with (q_precision q) by lia.
    unfold order at 1. rewrite Nat2N.id. rewrite <- Ht at 1. rewrite E7.
    rewrite Hwl in E8. rewrite E8. unfold order. rewrite !Nat2N.id.
    split; [reflexivity|]. split; [exact Hb8|]. split; [exact Hwf8|]. split.
    + rewrite Hp8, Hp7, Hp6, Hp5, Hp4, Hp3, !app_length. unfold header_bits, twoc_bits.
      rewrite app_length, !bits_msb_length. cbn [length]. lia.
    + exact (rd_adv_trans _ _ _ Hk3 (rd_adv_trans _ _ _ Hk4 (rd_adv_trans _ _ _ Hk5 (rd_adv_trans _ _ _ Hk6 (rd_adv_trans _ _ _ Hk7 Hk8))))).
Qed.

(* end to end for one subframe: what the encoder returns, serialised by the byte sink, is decoded by the
   independent decoder to the block it was made from *)
From FV Require Import Model.Encoder.

Theorem subframe_bytes_decode_to_input :
  forall (ent : N -> N -> N -> N) (qlpc : N -> N -> qparams) cfg fi var samples bps sf bytes,
    encode_subframe ent qlpc cfg fi var samples bps = Ok sf ->
    bounded (2 ^ 25) samples ->
    (cfg_use_lpc cfg = true -> lpc_fits (qlpc fi var) samples = true
                               /\ (length (q_coefs (qlpc fi var)) <= length samples)%nat) ->
    verify_subframe sf = true -> sub_typed sf -> sub_u_ok sf ->
    pack KU8 (subframe_ops sf) = Ok bytes ->
    exists r', read_subframe (sub_block sf) (sub_bps sf) (rd_of bytes) = Some (samples, r').
Proof.
  intros ent qlpc cfg fi var samples bps sf bytes He Hb Hl Hv Ht Hu Hp.
  pose proof (encode_subframe_lossless ent qlpc cfg fi var samples bps sf He Hb Hl) as Hdec.
  destruct (verify_subframe_shape sf Ht Hv) as [_ Hwf].
  destruct (pack_u8_bits _ _ Hwf Hp) as [_ Hbits].
  rewrite (subframe_ops_bits sf 0 Hv) in Hbits.
  destruct (flac_reads_subframe sf Hv Ht Hu (rd_of bytes) _ (rd_of_wf bytes) ltac:(rewrite rd_of_bits; exact Hbits)) as (r' & E & _).
  exists r'. rewrite E, Hdec. reflexivity.
Qed.
