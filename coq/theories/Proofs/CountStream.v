(* C08 at stream level: Stream::count_bits equals the bits the stream's operations write. *)
From FV Require Import Generated Model.Base Model.Sink Model.Crc Model.Codes Model.Rice Model.Predict
  Model.Component Model.Flac Model.Ctor
  Proofs.SinkArith Proofs.SinkRefine Proofs.OpsLen Proofs.CrcP Proofs.CountBits
  Proofs.BitRead Proofs.BitWrite Proofs.DecodeFrame Proofs.EncodeFrameE2E
  Proofs.StreamBytes Proofs.DecodeStream Proofs.ParseStream.
Local Open Scope N_scope.

(* frames whose count is known to be exact (C08_frame), or that carry a precomputed bit stream *)
Definition frame_countable (f : frame) : Prop :=
  match f_precomputed f with
  | Some _ => True
  | None => Forall sub_shape (f_subframes f) /\ frame_ops_wfb f = true
  end.

Lemma frame_ops_len f fo cur :
  frame_countable f -> frame_ops f = Ok fo -> cur mod 8 = 0 -> ops_len cur fo = frame_count_bits f.
Proof.
  intros Hc Eo Hcur. unfold frame_countable in Hc.
  destruct (f_precomputed f) as [b|] eqn:Hpre.
  - unfold frame_ops in Eo. rewrite Hpre in Eo. apply Ok_inj in Eo. subst fo.
    unfold frame_count_bits. rewrite Hpre. cbn [ops_len op_len]. rewrite (pad8_of_mult _ Hcur). lia.
  - destruct Hc as [Hshape Hw].
    destruct (frame_ops_shape f Hpre Hw) as (body & Eo' & Hb). rewrite Eo' in Eo. apply Ok_inj in Eo. subst fo.
    destruct (frame_ops_wf body Hb) as [W1 W2].
    destruct (pack_total KU8 _ W1) as [bytes Epk].
    assert (Efb : frame_bytes f = Ok bytes) by (unfold frame_bytes; rewrite Eo'; exact Epk).
    pose proof (frame_count_bits_correct f bytes Hpre Hshape Hw Efb) as Hcnt.
    destruct (pack_u8_bits _ bytes W1 Epk) as [_ Hbits].
    apply (f_equal (@length bool)) in Hbits.
    rewrite bytes_bits_length, app_length, repeat_length, (pad8_of_mult _ W2) in Hbits.
    pose proof (ops_bitlist_length [OBytes body; OWrite 16 (crc16 body)] 0) as Hl.
    destruct (ops_congr [OBytes body; OWrite 16 (crc16 body)] cur 0 ltac:(rewrite Hcur; reflexivity)) as [_ E].
    rewrite E. lia.
Qed.

Lemma frames_ops_len : forall frames fos cur,
  Forall2 (fun f fo => frame_ops f = Ok fo) frames fos -> Forall frame_countable frames -> cur mod 8 = 0 ->
  ops_len cur (concat fos) = sumN (map frame_count_bits frames).
Proof.
  induction frames as [|f fr IH]; intros fos cur HF Hc Hcur; inversion HF as [|? fo ? fr' Ef Hr]; subst; [reflexivity|].
  inversion Hc as [|? ? Hcf Hcr]; subst.
  cbn [concat map sumN fold_right]. fold (sumN (map frame_count_bits fr)).
  rewrite ops_len_app, (frame_ops_len f fo cur Hcf Ef Hcur).
  rewrite (IH fr' (cur + frame_count_bits f) Hr Hcr); [reflexivity|].
  rewrite N.add_mod by lia. rewrite Hcur, frame_count_bits_mod8. reflexivity.
Qed.

Lemma metas_ops_len : forall ms cur, cur mod 8 = 0 ->
  ops_len cur (meta_ops ms) = sumN (map (fun m => 32 + 8 * N.of_nat (length (snd m))) ms).
Proof.
  induction ms as [|[tag data] r IH]; intros cur Hc; [reflexivity|].
  cbn [meta_ops]. unfold metadata_ops. cbn [app ops_len op_len map sumN fold_right snd].
  fold (sumN (map (fun m : N * list N => 32 + 8 * N.of_nat (length (snd m))) r)).
  assert (Hp : pad8 (cur + 8 + 24) = 0) by (apply pad8_of_mult; rewrite <- N.add_assoc, N.add_mod, Hc by lia; reflexivity).
  rewrite Hp, N.add_0_l. rewrite IH; [lia|].
  replace (cur + 8 + 24 + 8 * N.of_nat (length data)) with (cur + (4 + N.of_nat (length data)) * 8) by lia.
  rewrite N.mod_add by lia. exact Hc.
Qed.

Lemma mapM_F2 {A B} (f : A -> Res B) : forall l ys, mapM f l = Ok ys -> Forall2 (fun x y => f x = Ok y) l ys.
Proof.
  induction l as [|x r IH]; intros ys E; cbn [mapM] in E.
  - apply Ok_inj in E. subst. constructor.
  - destruct (f x) as [y| |] eqn:Ex; cbn [bind] in E; try discriminate.
    destruct (mapM f r) as [ys'| |] eqn:Er; cbn [bind] in E; try discriminate.
    apply Ok_inj in E. subst. constructor; [exact Ex | apply IH; reflexivity].
Qed.

Theorem stream_count_bits_correct s ops :
  length (si_md5 (s_info s)) = 16%nat -> Forall frame_countable (s_frames s) ->
  stream_ops s = Ok ops -> ops_len 0 ops = stream_count_bits s.
Proof.
  intros Hmd Hc E. unfold stream_ops in E.
  destruct (mapM frame_ops (s_frames s)) as [fos| |] eqn:Em; cbn [bind] in E; try discriminate.
  apply Ok_inj in E. subst ops.
  set (last := match s_meta s with [] => true | _ => false end).
  rewrite app_assoc. fold (hdr_ops_f last (s_info s)).
  rewrite ops_len_app, (hdr_ops_f_len last _ Hmd), N.add_0_l.
  rewrite ops_len_app, (metas_ops_len _ 336 eq_refl).
  set (M := sumN (map (fun m : N * list N => 32 + 8 * N.of_nat (length (snd m))) (s_meta s))).
  assert (HM : (336 + M) mod 8 = 0).
  { unfold M. clear. induction (s_meta s) as [|m r IH]; [reflexivity|]. cbn [map sumN fold_right].
    fold (sumN (map (fun m : N * list N => 32 + 8 * N.of_nat (length (snd m))) r)).
    set (X := sumN _) in *. replace (336 + (32 + 8 * N.of_nat (length (snd m)) + X)) with (336 + X + (4 + N.of_nat (length (snd m))) * 8) by lia.
    rewrite N.mod_add by lia. exact IH. }
  rewrite (frames_ops_len (s_frames s) fos (336 + M) (mapM_F2 _ _ _ Em) Hc HM).
  unfold stream_count_bits. fold M. lia.
Qed.

(* StreamInfo::new + metadata blocks, no frames *)
Theorem constructed_stream_count_bits rate ch bps i metas ops :
  streaminfo_ctor rate ch bps = Ok i -> stream_ops (mkStream i metas []) = Ok ops ->
  ops_len 0 ops = stream_count_bits (mkStream i metas []).
Proof.
  intros E Eo. apply stream_count_bits_correct; [|constructor | exact Eo].
  unfold streaminfo_ctor in E.
  destruct (guard (rate <=? 96000)) as [[]| |]; cbn [bind] in E; try discriminate.
  destruct (guard ((1 <=? ch) && (ch <=? 8))) as [[]| |]; cbn [bind] in E; try discriminate.
  destruct (guard (bps <=? 255)) as [[]| |]; cbn [bind] in E; try discriminate.
  cbv zeta in E. destruct (guard (verify_streaminfo _)) as [[]| |]; cbn [bind] in E; try discriminate.
  inversion E. reflexivity.
Qed.
