(* C01, one frame, end to end: what encode_frame returns, serialised, is read back by the independent
   decoder as the channels of the block - with every hypothesis of the frame theorem discharged. *)
From FV Require Import Generated Model.Base Model.Sink Model.Crc Model.Codes Model.Rice Model.Predict
  Model.Component Model.Flac Model.Parser Model.Ctor Model.Encoder
  Proofs.SinkArith Proofs.SinkRefine Proofs.OpsLen Proofs.CrcP Proofs.Utf8P Proofs.CountBits
  Proofs.BitRead Proofs.BitWrite Proofs.BitUnary Proofs.CtorP
  Proofs.ParseResidual Proofs.ParseSubframe Proofs.Lossless Proofs.DecodeSubframe Proofs.EncoderVerifies Proofs.DecodeFrame.
Local Open Scope N_scope.

(* ---- well-formedness of the header codes the writer chooses ---- *)
Lemma block_code_wf n c : block_size_code n = Ok c -> n <= 65535 -> c_xval c < 2 ^ 16 /\ c_xbits c <= 16.
Proof.
  unfold block_size_code. intros E Hn. destruct (N.eqb_spec n 0); [discriminate|].
  repeat match type of E with
  | (if ?n0 =? ?k then Ok ?cc else _) = Ok _ =>
      destruct (N.eqb_spec n0 k) as [->|?]; [apply Ok_inj in E; subst c; cbn [c_xbits c_xval]; split; [reflexivity | lia] |]
  end.
  change (2 ^ 16) with 65536.
  destruct (N.leb_spec n 256); apply Ok_inj in E; subst c; cbn [c_xbits c_xval]; split; lia.
Qed.

Lemma rate_code_wf f : f < 2 ^ 32 -> c_xval (sample_rate_code f) < 2 ^ 16 /\ c_xbits (sample_rate_code f) <= 16.
Proof.
  intros Hf. unfold sample_rate_code. change (2 ^ 16) with 65536.
  repeat match goal with
  | |- context [if ?n0 =? ?k then mkCode ?t 0 0 else _] => destruct (N.eqb_spec n0 k) as [->|?]; [cbn [c_xbits c_xval]; split; lia |]
  end.
  destruct ((f mod 1000 =? 0) && (f / 1000 <=? 255)) eqn:E12.
  - apply Bool.andb_true_iff in E12. destruct E12 as [_ Hd]. apply N.leb_le in Hd. cbn [c_xbits c_xval]. split; lia.
  - destruct ((f mod 10 =? 0) && (f / 10 <=? 65535)) eqn:E14.
    + apply Bool.andb_true_iff in E14. destruct E14 as [_ Hd]. apply N.leb_le in Hd. cbn [c_xbits c_xval]. split; lia.
    + destruct (N.leb_spec f 65535); cbn [c_xbits c_xval]; split; lia.
Qed.

Lemma pack_total k ops : forallb wf_op ops = true -> exists b, pack k ops = Ok b.
Proof.
  intros H. destruct (sink_len_is_ops_bits k ops H) as (s & E & _). unfold pack. rewrite E. cbn [bind]. eexists. reflexivity.
Qed.

Lemma subs_ops_wf : forall subs, Forall (fun s => sub_typed s /\ verify_subframe s = true) subs ->
  forallb wf_op (flat_map subframe_ops subs) = true.
Proof.
  induction subs as [|s t IH]; intros H; [reflexivity|]. inversion H as [|? ? [Ht Hv] Hr]; subst.
  cbn [flat_map]. rewrite forallb_app, IH by exact Hr. destruct (verify_subframe_shape s Ht Hv) as [_ Hw]. rewrite Hw. reflexivity.
Qed.

Lemma frame_ops_wfb_intro h subs ctag num :
  chassign_tag (h_ch h) = Ok ctag -> utf8like (h_number h) = Ok num ->
  c_tag (h_bs h) < 16 -> c_tag (h_sr h) < 16 -> h_ss_tag h < 8 ->
  c_xval (h_bs h) < 2 ^ 16 -> c_xbits (h_bs h) <= 16 -> c_xbits (h_bs h) mod 8 = 0 ->
  c_xval (h_sr h) < 2 ^ 16 -> c_xbits (h_sr h) <= 16 -> c_xbits (h_sr h) mod 8 = 0 ->
  Forall (fun s => sub_typed s /\ verify_subframe s = true) subs ->
  frame_ops_wfb (mkFrame h subs None) = true.
Proof.
  intros Hc Hn Hbs Hsr Hss Hbv Hbb Hbm Hsv Hsb Hsm Hsubs.
  assert (Hctag : ctag <= 10).
  { unfold chassign_tag in Hc. destruct (h_ch h) as [n| | |]; try (inversion Hc; lia).
    destruct (N.ltb_spec 8 n); [discriminate|]. destruct (N.eqb_spec n 0); [discriminate|]. inversion Hc. lia. }
  unfold frame_ops_wfb. cbn [f_header].
  assert (Ehops : exists hops, header_inner_ops h = Ok hops /\ forallb wf_op hops = true).
  { unfold header_inner_ops. rewrite Hc, Hn. cbn [bind]. eexists. split; [reflexivity|].
    rewrite !forallb_app. cbn [forallb wf_op wf_width].
    assert (A1 : 65528 + (if h_variable h then 1 else 0) <? 2 ^ 16 = true) by (apply N.ltb_lt; change (2 ^ 16) with 65536; destruct (h_variable h); lia).
    assert (A2 : c_tag (h_bs h) * 16 + c_tag (h_sr h) <? 2 ^ 8 = true) by (apply N.ltb_lt; change (2 ^ 8) with 256; lia).
    assert (A3 : ctag <? 2 ^ 64 = true) by (apply N.ltb_lt; change (2 ^ 64) with 18446744073709551616; lia).
    assert (A4 : h_ss_tag h * 2 <? 2 ^ 8 = true) by (apply N.ltb_lt; change (2 ^ 8) with 256; lia).
    assert (A5 : forallb (fun b => b <? 256) num = true).
    { apply forallb_forall. intros x Hx. apply N.ltb_lt. pose proof (utf8like_lt256 _ _ Hn) as Hl. rewrite Forall_forall in Hl. apply Hl. exact Hx. }
    rewrite A1, A2, A3, A4, A5.
    assert (B1 : forallb wf_op (if c_xbits (h_bs h) =? 0 then [] else [OLsbs 16 (c_xval (h_bs h)) (c_xbits (h_bs h))]) = true).
    { destruct (c_xbits (h_bs h) =? 0); [reflexivity|]. cbn [forallb wf_op wf_width].
      assert (X : c_xval (h_bs h) <? 2 ^ 16 = true) by (apply N.ltb_lt; exact Hbv).
      assert (Y : c_xbits (h_bs h) <=? 16 = true) by (apply N.leb_le; exact Hbb). rewrite X, Y. reflexivity. }
    assert (B2 : forallb wf_op (if c_xbits (h_sr h) =? 0 then [] else [OLsbs 16 (c_xval (h_sr h)) (c_xbits (h_sr h))]) = true).
    { destruct (c_xbits (h_sr h) =? 0); [reflexivity|]. cbn [forallb wf_op wf_width].
      assert (X : c_xval (h_sr h) <? 2 ^ 16 = true) by (apply N.ltb_lt; exact Hsv).
      assert (Y : c_xbits (h_sr h) <=? 16 = true) by (apply N.leb_le; exact Hsb). rewrite X, Y. reflexivity. }
    rewrite B1, B2. reflexivity. }
  destruct Ehops as (hops & Ehops & Hwf_h). rewrite Ehops.
  destruct (pack_total KU8 hops Hwf_h) as [hb Ehb].
  destruct (pack_u8_bits hops hb Hwf_h Ehb) as [Hhb256 _].
  unfold frame_inner_ops, header_ops, header_bytes. cbn [f_header f_subframes]. rewrite Ehops. cbn [bind]. rewrite Ehb. cbn [bind].
  rewrite Hwf_h. rewrite !forallb_app. rewrite (subs_ops_wf subs Hsubs).
  cbn [forallb wf_op wf_width].
  assert (C1 : forallb (fun b => b <? 256) hb = true).
  { apply forallb_forall. intros x Hx. apply N.ltb_lt. rewrite Forall_forall in Hhb256. apply Hhb256. exact Hx. }
  assert (C2 : crc8 hb <? 2 ^ 8 = true) by (apply N.ltb_lt; apply crc8_lt).
  rewrite C1, C2, Hbm, Hsm. reflexivity.
Qed.

(* ---- per-subframe facts gathered from the encoder-side theorems ---- *)
Definition var_bps (bps var : N) : N := if var =? VAR_SIDE then bps + 1 else bps.

Section E2E.
  Variable ent : N -> N -> N -> N.
  Variable qlpc : N -> N -> qparams.

  Definition sub_hyps (cfg : config) (fi bps : N) (n : nat) (var : N) (sig : list Z) : Prop :=
    length sig = n /\ forallb (sample_ok (var_bps bps var)) sig = true /\
    (cfg_use_lpc cfg = true ->
       verify_qparams (qlpc fi var) = true /\ (1 <= length (q_coefs (qlpc fi var)) <= length sig)%nat
       /\ lpc_fits (qlpc fi var) sig = true).

  Lemma one_sub cfg fi bps n var sig s :
    encode_subframe ent qlpc cfg fi var sig (var_bps bps var) = Ok s ->
    sub_hyps cfg fi bps n var sig -> cfg_max_parameter cfg <= 14 -> bps_ok (var_bps bps var) = true ->
    N.of_nat n <= c_MAX_BLOCK_SIZE ->
    sub_ready (N.of_nat n) s (var_bps bps var) /\ decode_sub s = sig.
  Proof.
    intros E (Hlen & Hs & Hq) Hmp Hb Hn. subst n.
    destruct (encode_subframe_good ent qlpc cfg fi var sig _ s E Hmp Hb Hs Hn
                ltac:(intros Hu; destruct (Hq Hu) as (A & B & _); split; assumption)) as (Hv & Ht & Hu & Hq32).
    destruct (encode_subframe_dims ent qlpc cfg fi var sig _ s E ltac:(intros Hu'; destruct (Hq Hu') as (_ & B & _); lia)) as [Hd1 Hd2].
    split; [repeat split; assumption|].
    apply (encode_subframe_lossless ent qlpc cfg fi var sig _ s E (sample_ok_bounded _ _ Hb Hs)).
    intros Hu'. destruct (Hq Hu') as (_ & B & C). split; [exact C | lia].
  Qed.

  Lemma mapM_Forall2 {A B} (f : A -> Res B) : forall l ys, mapM f l = Ok ys -> Forall2 (fun y x => f x = Ok y) ys l.
  Proof.
    induction l as [|x r IH]; intros ys E; cbn [mapM] in E.
    - apply Ok_inj in E. subst. constructor.
    - destruct (f x) as [y| |] eqn:Ex; cbn [bind] in E; try discriminate.
      destruct (mapM f r) as [ys'| |] eqn:Er; cbn [bind] in E; try discriminate.
      apply Ok_inj in E. subst. constructor; [exact Ex | apply IH; reflexivity].
  Qed.
End E2E.

Section E2E_frame.
  Variable ent : N -> N -> N -> N.
  Variable qlpc : N -> N -> qparams.

  Lemma bps_supported bps : In bps [8; 12; 16; 20; 24] ->
    bps_ok bps = true /\ bps_ok (bps + 1) = true /\ sample_size_tag (bps mod 256) < 8 /\
    forall si_bps, bps_of_code (sample_size_tag (bps mod 256)) si_bps = Some bps.
  Proof. intros [<-|[<-|[<-|[<-|[<-|[]]]]]]; repeat split; try reflexivity. Qed.

  Lemma flac_bpss_indep ch bps : 1 <= ch <= 8 -> flac_bpss (ch - 1) bps = repeat bps (N.to_nat ch).
  Proof.
    intros H. unfold flac_bpss. destruct (N.leb_spec (ch - 1) 7); [|lia]. f_equal. lia.
  Qed.

  Lemma Forall2_len {A B} (P : A -> B -> Prop) : forall l1 l2, Forall2 P l1 l2 -> length l1 = length l2.
  Proof. induction 1; cbn [length]; [reflexivity | f_equal; assumption]. Qed.

  Lemma Forall2_repeat_r {A B} (P : A -> B -> Prop) (b : B) : forall (l : list A), Forall (fun a => P a b) l -> Forall2 P l (repeat b (length l)).
  Proof. induction 1; cbn [length repeat]; constructor; assumption. Qed.

  Lemma indep_ready cfg fi bps n : cfg_max_parameter cfg <= 14 -> bps_ok bps = true -> N.of_nat n <= c_MAX_BLOCK_SIZE ->
    forall ics subs,
    Forall2 (fun y (x : N * list Z) => encode_subframe ent qlpc cfg fi (fst x) (snd x) bps = Ok y) subs ics ->
    (forall i c, In (i, c) ics -> i < 8 /\ sub_hyps qlpc cfg fi bps n i c) ->
    Forall2 (fun s (ic : N * list Z) => sub_ready (N.of_nat n) s bps /\ decode_sub s = snd ic) subs ics.
  Proof.
    intros Hmp Hbok Hn ics subs HF. induction HF as [|s [i c] ss ics' Hs _ IH]; intros Hall; constructor.
    - cbn [fst snd] in Hs. destruct (Hall i c (or_introl eq_refl)) as [Hi Hh].
      assert (Hvb : var_bps bps i = bps) by (unfold var_bps, VAR_SIDE; destruct (N.eqb_spec i 9); [lia | reflexivity]).
      rewrite <- Hvb in Hs. destruct (one_sub ent qlpc cfg fi bps n i c s Hs Hh Hmp ltac:(rewrite Hvb; exact Hbok) Hn) as [A B].
      rewrite Hvb in A. split; assumption.
    - apply IH. intros i' c' Hin'. apply Hall. right. exact Hin'.
  Qed.

  (* the hypotheses on one block: every signal the encoder may code (channels, mid, side) is in range, has the
     block's length, and the estimator's answer for it is a verified parameter set that fits *)
  Definition block_hyps (cfg : config) (fi channels bps : N) (block : list Z) (n : nat) : Prop :=
    forall var sig, In (var, sig) (variants channels block) -> sub_hyps qlpc cfg fi bps n var sig.

  Theorem frame_end_to_end_full cfg rate channels bps fi number block f si n :
    encode_frame ent qlpc cfg rate channels bps fi number block = Ok f ->
    cfg_max_parameter cfg <= 14 -> In bps [8; 12; 16; 20; 24] -> rate < 2 ^ 32 -> 1 <= channels <= 8 -> number < 2 ^ 36 ->
    (1 <= n)%nat -> N.of_nat n <= c_MAX_BLOCK_SIZE ->
    block_hyps cfg fi channels bps block n ->
    Forall (bounded (2 ^ 24)) (chans channels block) ->
    forallb (fun c => forallb (in_range bps) c) (chans channels block) = true ->
    i_rate si = rate -> i_bps si = bps ->
    exists ctag, chassign_tag (h_ch (f_header f)) = Ok ctag /\ f_precomputed f = None /\
      ((exists cha, mk_header rate bps cha (N.of_nat n) number = Ok (f_header f) /\ chassign_tag cha = Ok ctag)
       /\ Forall2 (sub_ready (N.of_nat n)) (f_subframes f) (flac_bpss ctag bps)) /\
      frame_ops_wfb f = true /\
      forall bytes rest, Forall (fun x => x < 256) rest -> frame_bytes f = Ok bytes ->
      read_frame si (bytes ++ rest) = Some (mkFH (N.of_nat n) ctag number (rate mod 2 ^ 32) bps, chans channels block, rest).
  Proof.
    intros E Hmp Hbps Hrate Hch Hnum Hn1 Hn Hblk Hbound Hrange Hsr Hsb.
    subst rate bps. set (rate := i_rate si) in *. set (bps := i_bps si) in *.
    assert (Hsr : i_rate si = rate) by reflexivity. assert (Hsb : i_bps si = bps) by reflexivity.
    clearbody rate bps.
    destruct (bps_supported bps Hbps) as (Hbok & Hbok1 & Hsst & Hbpc).
    (* losslessness of the meaning: the stereo transform is undone *)
    assert (Hlen2 : channels = 2 -> forall l r, chans channels block = [l; r] -> length l = length r).
    { intros H2 l r Ecs. assert (Hl : In (0, l) (variants channels block) /\ In (1, r) (variants channels block)).
      { unfold variants. rewrite Ecs, H2. cbn. split; [left; reflexivity | right; left; reflexivity]. }
      destruct Hl as [Hl Hr]. destruct (Hblk _ _ Hl) as [A _]. destruct (Hblk _ _ Hr) as [B _]. lia. }
    assert (Hfit : fit_hyp qlpc cfg fi channels block).
    { intros Hu var sig Hin. destruct (Hblk var sig Hin) as (_ & _ & Hq). destruct (Hq Hu) as (_ & B & C). split; [exact C | lia]. }
    destruct (encode_frame_lossless ent qlpc cfg rate channels bps fi number block f E Hch Hbound Hlen2 Hfit) as (ctag & Hctag & Hundo).
    exists ctag. split; [exact Hctag|].
    (* the shape of the frame *)
    unfold encode_frame in E. fold (chans channels block) in E.
    set (cs := chans channels block) in *. set (idx := map N.of_nat (seq 0 (N.to_nat channels))) in *.
    destruct (mapM _ (combine idx cs)) as [indep| |] eqn:Em; cbn [bind] in E; try discriminate.
    assert (Hlenic : length idx = length cs) by (unfold cs, chans; fold idx; rewrite map_length; reflexivity).
    assert (Hidx_small : forall i c, In (i, c) (combine idx cs) -> i < 8 /\ In (i, c) (variants channels block)).
    { intros i c Hin. split.
      - apply in_combine_l in Hin. unfold idx in Hin. apply in_map_iff in Hin. destruct Hin as (k & <- & Hk). apply in_seq in Hk. lia.
      - unfold variants. fold cs idx. apply in_or_app. left. exact Hin. }
    assert (Hindep : Forall2 (fun s ic => sub_ready (N.of_nat n) s bps /\ decode_sub s = snd ic) indep (combine idx cs)).
    { apply (indep_ready cfg fi bps n Hmp Hbok Hn); [apply (mapM_Forall2 _ _ _ Em)|].
      intros i c Hin. destruct (Hidx_small i c Hin) as [Hi Hv]. split; [exact Hi | apply Hblk; exact Hv]. }
    assert (Hhdr : forall cha h, mk_header rate bps cha (match cs with c :: _ => N.of_nat (length c) | [] => 0 end) number = Ok h ->
              chassign_tag cha = Ok ctag -> forall subs,
              Forall2 (sub_ready (N.of_nat n)) subs (flac_bpss ctag bps) ->
              undo_stereo ctag (map decode_sub subs) = Some cs ->
              ((exists cha', mk_header rate bps cha' (N.of_nat n) number = Ok h /\ chassign_tag cha' = Ok ctag)
               /\ Forall2 (sub_ready (N.of_nat n)) subs (flac_bpss ctag bps)) /\
              frame_ops_wfb (mkFrame h subs None) = true /\
              forall bytes rest, Forall (fun x => x < 256) rest -> frame_bytes (mkFrame h subs None) = Ok bytes ->
              read_frame si (bytes ++ rest) = Some (mkFH (N.of_nat n) ctag number (rate mod 2 ^ 32) bps, cs, rest)).
    { intros cha h Eh Hct subs Hsubs Hun.
      assert (Hn0 : match cs with c :: _ => N.of_nat (length c) | [] => 0 end = N.of_nat n).
      { destruct cs as [|c0 cr] eqn:Ecs.
        - exfalso. assert (length idx = 0%nat) by (rewrite Hlenic; reflexivity). unfold idx in H. rewrite map_length, seq_length in H. lia.
        - assert (Hin : In (0, c0) (variants channels block)).
          { unfold variants. fold cs idx. rewrite Ecs. apply in_or_app. left.
            unfold idx. destruct (N.to_nat channels) as [|k] eqn:Ek; [lia|]. cbn [seq map combine]. left. reflexivity. }
          destruct (Hblk _ _ Hin) as [A _]. rewrite A. reflexivity. }
      rewrite Hn0 in Eh. split; [split; [exists cha; split; assumption | exact Hsubs]|]. unfold mk_header in Eh.
      destruct (block_size_code (N.of_nat n mod 2 ^ 16)) as [bc| |] eqn:Ebc; cbn [bind] in Eh; try discriminate.
      apply Ok_inj in Eh. subst h.
      assert (Hn16 : N.of_nat n mod 2 ^ 16 = N.of_nat n) by (apply N.mod_small; change c_MAX_BLOCK_SIZE with 32767 in Hn; change (2 ^ 16) with 65536; lia).
      rewrite Hn16 in Ebc.
      destruct (block_code_reads _ _ Ebc ltac:(change c_MAX_BLOCK_SIZE with 32767 in Hn; lia)) as (Hbr & Hbt & Hbm).
      destruct (block_code_wf _ _ Ebc ltac:(change c_MAX_BLOCK_SIZE with 32767 in Hn; lia)) as (Hbv & Hbb).
      assert (Hr32 : rate mod 2 ^ 32 = rate) by (apply N.mod_small; exact Hrate).
      destruct (rate_code_reads (rate mod 2 ^ 32) (i_rate si) ltac:(rewrite Hsr, Hr32; reflexivity)) as (Hrr & Hrt & Hrm).
      destruct (rate_code_wf (rate mod 2 ^ 32) ltac:(rewrite Hr32; exact Hrate)) as (Hrv & Hrb).
      destruct (utf8_defined number Hnum) as [num Enum].
      assert (Htyp : Forall (fun s => sub_typed s /\ verify_subframe s = true) subs).
      { clear -Hsubs. induction Hsubs as [|s b ss bs (A & B & C & D & _) _ IH]; constructor; [split; assumption | exact IH]. }
      match goal with |- frame_ops_wfb (mkFrame ?hh _ _) = _ /\ _ =>
        pose proof (frame_ops_wfb_intro hh subs ctag num) as HW
      end.
      cbn [f_header f_subframes f_precomputed h_variable h_ch h_number h_bs h_sr h_ss_tag h_block] in HW.
      split; [apply HW; assumption|]. intros bytes rest Hrest Hfb'.
      match type of Hfb' with frame_bytes (mkFrame ?hh _ _) = _ =>
        pose proof (flac_reads_frame si (mkFrame hh subs None) bytes rest ctag num (rate mod 2 ^ 32) bps cs) as HF
      end.
      cbv zeta in HF. cbn [f_header f_subframes f_precomputed h_variable h_ch h_number h_bs h_sr h_ss_tag h_block] in HF.
      apply HF; try assumption; try reflexivity.
      - apply HW; assumption.
      - apply Hbpc. }
    clear Hsr Hsb.
    destruct (N.eqb_spec channels 2) as [H2|H2].
    - subst channels.
      destruct cs as [|l [|r [|? ?]]] eqn:Ecs; try discriminate.
      destruct indep as [|sl [|sr [|? ?]]] eqn:Eind; try discriminate.
      fold (mids l r) in E. fold (sides l r) in E.
      destruct (encode_subframe ent qlpc cfg fi VAR_MID (mids l r) bps) as [sm| |] eqn:Esm; cbn [bind] in E; try discriminate.
      destruct (encode_subframe ent qlpc cfg fi VAR_SIDE (sides l r) (bps + 1)) as [ss| |] eqn:Ess; cbn [bind] in E; try discriminate.
      cbv zeta in E.
      match type of E with context [mk_header _ _ (fst ?b) _ _] => set (best := b) in * end.
      destruct (mk_header rate bps (fst best) _ number) as [h| |] eqn:Eh; cbn [bind] in E; try discriminate.
      apply Ok_inj in E. subst f. cbn [f_header f_subframes] in *.
      assert (Hch_eq : h_ch h = fst best).
      { unfold mk_header in Eh. destruct (block_size_code _); cbn [bind] in Eh; try discriminate. apply Ok_inj in Eh. subst h. reflexivity. }
      rewrite Hch_eq in Hctag.
      inversion Hindep as [|? ? ? ? [Hsl _] Hrest2]; subst. inversion Hrest2 as [|? ? ? ? [Hsr' _] _]; subst.
      assert (Hmid_in : In (VAR_MID, mids l r) (variants 2 block)).
      { unfold variants. fold cs. rewrite Ecs. cbn [N.eqb Pos.eqb]. apply in_or_app. right. left. reflexivity. }
      assert (Hside_in : In (VAR_SIDE, sides l r) (variants 2 block)).
      { unfold variants. fold cs. rewrite Ecs. cbn [N.eqb Pos.eqb]. apply in_or_app. right. right. left. reflexivity. }
      assert (Hsm : sub_ready (N.of_nat n) sm bps).
      { assert (Hvb : var_bps bps VAR_MID = bps) by reflexivity. rewrite <- Hvb in Esm.
        destruct (one_sub ent qlpc cfg fi bps n VAR_MID _ sm Esm (Hblk _ _ Hmid_in) Hmp ltac:(rewrite Hvb; exact Hbok) Hn) as [A _]. rewrite Hvb in A. exact A. }
      assert (Hss : sub_ready (N.of_nat n) ss (bps + 1)).
      { assert (Hvb : var_bps bps VAR_SIDE = bps + 1) by reflexivity. rewrite <- Hvb in Ess.
        destruct (one_sub ent qlpc cfg fi bps n VAR_SIDE _ ss Ess (Hblk _ _ Hside_in) Hmp ltac:(rewrite Hvb; exact Hbok1) Hn) as [A _]. rewrite Hvb in A. exact A. }
      split; [reflexivity|]. refine (Hhdr (fst best) h Eh Hctag _ _ Hundo).
      destruct (fst best) eqn:Eb; cbn [chassign_tag] in Hctag.
      + assert (n0 = 2).
        { unfold best in Eb. repeat match type of Eb with
            | context [if ?c then _ else _] => destruct c; cbn [fst snd] in Eb end; inversion Eb; reflexivity. }
        subst n0. cbn in Hctag. apply Ok_inj in Hctag. subst ctag. cbn. constructor; [exact Hsl | constructor; [exact Hsr' | constructor]].
      + apply Ok_inj in Hctag. subst ctag. cbn. constructor; [exact Hsl | constructor; [exact Hss | constructor]].
      + apply Ok_inj in Hctag. subst ctag. cbn. constructor; [exact Hss | constructor; [exact Hsr' | constructor]].
      + apply Ok_inj in Hctag. subst ctag. cbn. constructor; [exact Hsm | constructor; [exact Hss | constructor]].
    - destruct (mk_header rate bps (Indep channels) _ number) as [h| |] eqn:Eh; cbn [bind] in E; try discriminate.
      apply Ok_inj in E. subst f. cbn [f_header f_subframes] in *.
      assert (Hch_eq : h_ch h = Indep channels).
      { unfold mk_header in Eh. destruct (block_size_code _); cbn [bind] in Eh; try discriminate. apply Ok_inj in Eh. subst h. reflexivity. }
      rewrite Hch_eq in Hctag. cbn [chassign_tag] in Hctag.
      destruct (N.ltb_spec 8 channels) as [?|_]; [lia|]. destruct (N.eqb_spec channels 0) as [?|_]; [lia|].
      apply Ok_inj in Hctag. subst ctag.
      assert (Hct2 : chassign_tag (Indep channels) = Ok (channels - 1)).
      { cbn [chassign_tag]. destruct (N.ltb_spec 8 channels); [lia|]. destruct (N.eqb_spec channels 0); [lia | reflexivity]. }
      split; [reflexivity|]. refine (Hhdr (Indep channels) h Eh Hct2 _ _ Hundo).
      rewrite flac_bpss_indep by exact Hch.
      assert (Hli : length indep = N.to_nat channels).
      { apply Forall2_len in Hindep. rewrite Hindep, combine_length, Hlenic, Nat.min_id. unfold cs, chans. rewrite !map_length, seq_length. reflexivity. }
      rewrite <- Hli. apply Forall2_repeat_r. clear -Hindep. induction Hindep as [|s ic ss ics [A _] _ IH]; constructor; assumption.
  Qed.

  Corollary frame_end_to_end cfg rate channels bps fi number block f si bytes rest n :
    encode_frame ent qlpc cfg rate channels bps fi number block = Ok f ->
    cfg_max_parameter cfg <= 14 -> In bps [8; 12; 16; 20; 24] -> rate < 2 ^ 32 -> 1 <= channels <= 8 -> number < 2 ^ 36 ->
    (1 <= n)%nat -> N.of_nat n <= c_MAX_BLOCK_SIZE ->
    block_hyps cfg fi channels bps block n ->
    Forall (bounded (2 ^ 24)) (chans channels block) ->
    forallb (fun c => forallb (in_range bps) c) (chans channels block) = true ->
    i_rate si = rate -> i_bps si = bps ->
    Forall (fun x => x < 256) rest ->
    frame_bytes f = Ok bytes ->
    exists ctag, read_frame si (bytes ++ rest) = Some (mkFH (N.of_nat n) ctag number (rate mod 2 ^ 32) bps, chans channels block, rest).
  Proof.
    intros E Hmp Hbps Hrate Hch Hnum Hn1 Hn Hblk Hbound Hrange Hsr Hsb Hrest Hfb.
    destruct (frame_end_to_end_full cfg rate channels bps fi number block f si n E Hmp Hbps Hrate Hch Hnum Hn1 Hn Hblk Hbound Hrange Hsr Hsb)
      as (ctag & _ & _ & _ & _ & H). exists ctag. exact (H bytes rest Hrest Hfb).
  Qed.
End E2E_frame.

(* the hypotheses on a block are satisfiable: a mono block with the LPC branch off *)
Example block_hyps_satisfiable :
  let cfg := mkCfg 64 false None true true true true true false 4 None 10 15 false 0 None 14 in
  block_hyps (fun _ _ => mkQ [] 0%Z 1) cfg 0 1 16 [1; -2; 3; 4]%Z 4.
Proof.
  cbv zeta. intros var sig Hin. vm_compute in Hin. destruct Hin as [E|[]]. inversion E; subst.
  split; [reflexivity|]. split; [vm_compute; reflexivity|]. intros Hu. discriminate.
Qed.
