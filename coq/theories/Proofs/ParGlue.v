(* C05: what the abstract outcome of the protocol LTS means in terms of the encoder model.
   The single-threaded reference of Model/Par.v (seq_result) is the outcome of Encoder.encode_blocks on the same
   blocks: all frames, in order, when every block is valid; the configuration error when one is not. *)
From FV Require Import Generated Model.Base Model.Rice Model.Predict Model.Component Model.Encoder Model.Par Proofs.ParP.
Local Open Scope N_scope.

Section Glue.
  Variable ent : N -> N -> N -> N.
  Variable qlpc : N -> N -> qparams.
  Variables (cfg : config) (rate channels bps : N).

  Definition plan_of (workers : nat) (blocks : list (list Z)) : plan :=
    mkPlan workers (length blocks) None (fun j => negb (samples_ok bps (nth j blocks []))).

  (* the frame encoder answers on every valid block (C07's totality theorem gives this for verified configurations) *)
  Definition frames_total (blocks : list (list Z)) : Prop :=
    forall j b, nth_error blocks j = Some b -> samples_ok bps b = true ->
      exists f, encode_frame ent qlpc cfg rate channels bps (N.of_nat j) (N.of_nat j) b = Ok f.

  Lemma seq_outcome_suffix (w : nat) (blocks : list (list Z)) :
    frames_total blocks -> N.of_nat (length blocks) <= 2 ^ 31 ->
    forall (r : list (list Z)) (i fuel : nat),
      skipn i blocks = r -> (i + length r = length blocks)%nat -> (length r < fuel)%nat ->
      match encode_blocks ent qlpc cfg rate channels bps (N.of_nat i) r with
      | Ok frames => seq_outcome (plan_of w blocks) fuel i = OutOk (seq 0 (length blocks)) (seq 0 (length blocks))
                     /\ length frames = length r
      | Err e => seq_outcome (plan_of w blocks) fuel i = OutConfigErr /\ e = E_VERIFY
      | Panic _ => False
      end.
  Proof.
    intros Htot Hn. induction r as [|b r IH]; intros i fuel Hs Hl Hf.
    - cbn [encode_blocks length] in *. destruct fuel as [|fuel]; [lia|]. cbn [seq_outcome plan_of p_read_fail p_blocks].
      replace i with (length blocks) by lia. rewrite Nat.ltb_irrefl. split; reflexivity.
    - cbn [encode_blocks length] in *. destruct fuel as [|fuel]; [lia|].
      assert (Hnth : nth_error blocks i = Some b).
      { rewrite <- (firstn_skipn i blocks), Hs. rewrite nth_error_app2 by (rewrite firstn_length; lia).
        rewrite firstn_length. replace (i - Nat.min i (length blocks))%nat with 0%nat by lia. reflexivity. }
      assert (Hnthd : nth i blocks [] = b) by (apply nth_error_nth; exact Hnth).
      cbn [seq_outcome plan_of p_read_fail p_blocks p_invalid].
      assert (Hlt : Nat.ltb i (length blocks) = true) by (apply Nat.ltb_lt; lia). rewrite Hlt, Hnthd.
      unfold encode_fixed_size_frame.
      destruct (N.leb_spec (2 ^ 31) (N.of_nat i)) as [?|_]; [lia|].
      destruct (samples_ok bps b) eqn:Hso; cbn [negb].
      + destruct (Htot i b Hnth Hso) as [f Ef]. rewrite Ef. cbn [bind].
        assert (Hs' : skipn (S i) blocks = r).
        { clear -Hs. revert blocks Hs. induction i as [|i IHi]; intros blocks Hs.
          - cbn in Hs. subst blocks. reflexivity.
          - destruct blocks as [|x t]; [discriminate|]. cbn [skipn] in *. exact (IHi t Hs). }
        specialize (IH (S i) fuel Hs' ltac:(lia) ltac:(lia)).
        replace (N.of_nat i + 1) with (N.of_nat (S i)) by lia.
        destruct (encode_blocks ent qlpc cfg rate channels bps (N.of_nat (S i)) r) as [fs|e|k]; cbn [bind].
        * destruct IH as [A B]. split; [exact A | cbn [length]; lia].
        * exact IH.
        * exact IH.
      + cbn [bind]. split; reflexivity.
  Qed.

  Theorem seq_result_is_encode_blocks (w : nat) (blocks : list (list Z)) :
    frames_total blocks -> N.of_nat (length blocks) <= 2 ^ 31 ->
    match encode_blocks ent qlpc cfg rate channels bps 0 blocks with
    | Ok frames => seq_result (plan_of w blocks) = OutOk (seq 0 (length blocks)) (seq 0 (length blocks))
                   /\ length frames = length blocks
    | Err e => seq_result (plan_of w blocks) = OutConfigErr /\ e = E_VERIFY
    | Panic _ => False
    end.
  Proof.
    intros Htot Hn. unfold seq_result. change (p_blocks (plan_of w blocks)) with (length blocks).
    exact (seq_outcome_suffix w blocks Htot Hn blocks 0 (S (length blocks)) eq_refl eq_refl ltac:(lia)).
  Qed.

  (* with the general refinement theorem: whatever the schedule, the worker count and the interleaving, a completed
     multi-threaded run delivers the frames of encode_blocks, all of them, in order - or its configuration error *)
  Theorem par_result_is_encode_blocks (w : nat) (blocks : list (list Z)) (ls : list label) (s : pstate) :
    (1 <= w)%nat -> frames_total blocks -> N.of_nat (length blocks) <= 2 ^ 31 ->
    run (plan_of w blocks) (init (plan_of w blocks)) ls = Some s -> final s = true ->
    match encode_blocks ent qlpc cfg rate channels bps 0 blocks with
    | Ok frames => result_of s = OutOk (seq 0 (length blocks)) (seq 0 (length blocks)) /\ length frames = length blocks
    | Err e => result_of s = OutConfigErr /\ e = E_VERIFY
    | Panic _ => False
    end.
  Proof.
    intros Hw Htot Hn Hrun Hfin.
    rewrite (par_refines_seq (plan_of w blocks) ls s Hw Hrun Hfin).
    exact (seq_result_is_encode_blocks w blocks Htot Hn).
  Qed.
End Glue.
