(* C18 / C15: frames made by the public constructors, serialised, parse back to the identical frame. *)
From FV Require Import Generated Model.Base Model.Sink Model.Crc Model.Codes Model.Rice Model.Predict
  Model.Component Model.Flac Model.Parser Model.Ctor
  Proofs.SinkArith Proofs.OpsLen Proofs.Utf8P Proofs.BitRead Proofs.BitWrite Proofs.CtorP
  Proofs.ParseResidual Proofs.ParseSubframe Proofs.CountBits Proofs.DecodeFrame Proofs.EncodeFrameE2E Proofs.ParseFrame.
Local Open Scope N_scope.

Lemma guard_ok b : guard b = Ok tt -> b = true.
Proof. destruct b; [reflexivity | discriminate]. Qed.

Lemma subs_consistent_nth h : forall subs ch, subs_consistent h ch subs = true ->
  forall i s, nth_error subs i = Some s ->
    sub_block s = h_block h /\
    match bits_of_ss_tag (h_ss_tag h) with Some b => b + bps_offset (h_ch h) (ch + N.of_nat i) = sub_bps s | None => True end.
Proof.
  induction subs as [|s0 t IH]; intros ch H i s Hi; [destruct i; discriminate|].
  cbn [subs_consistent] in H. rewrite !Bool.andb_true_iff in H. destruct H as [[Hb Hp] Hr].
  destruct i as [|i]; cbn [nth_error] in Hi.
  - inversion Hi; subst s0. rewrite N.add_0_r. split; [apply N.eqb_eq; exact Hb|].
    destruct (bits_of_ss_tag (h_ss_tag h)); [apply N.eqb_eq; exact Hp | exact I].
  - replace (ch + N.of_nat (S i)) with (ch + 1 + N.of_nat i) by lia. exact (IH _ Hr i s Hi).
Qed.

(* a header whose codes are the writer's own, and the facts the parser needs about it *)
Record header_canon (h : header) (bps : N) : Prop := mkCanon {
  hc_bs : block_size_code (h_block h) = Ok (h_bs h);
  hc_block : 1 <= h_block h <= 65535;
  hc_sr : exists rate, rate < 2 ^ 32 /\ h_sr h = sample_rate_code rate;
  hc_ss : h_ss_tag h < 8;
  hc_bps : match bits_of_ss_tag (h_ss_tag h) with Some b => b = bps | None => True end;
  hc_num : h_number h < 2 ^ 36;
  hc_num32 : h_variable h = false -> h_number h < 2 ^ 32;
  hc_ch : verify_chassign (h_ch h) = true
}.

Lemma canonical_frame_wfb f bps :
  f_precomputed f = None -> header_canon (f_header f) bps ->
  (forall i s, nth_error (f_subframes f) i = Some s ->
     psub_ready (h_block (f_header f)) s (bps + bps_offset (h_ch (f_header f)) (N.of_nat i))) ->
  frame_ops_wfb f = true.
Proof.
  intros Hpre [Hbs Hblk (rate & Hrate & Hsr) Hss Hbps Hnum Hnum32 Hch] Hsubs.
  set (h := f_header f) in *.
  destruct (utf8_defined (h_number h) Hnum) as [num Enum].
  assert (Hctag : exists ctag, chassign_tag (h_ch h) = Ok ctag).
  { destruct (h_ch h) as [n| | |]; cbn [chassign_tag verify_chassign] in *; try (eexists; reflexivity).
    apply Bool.andb_true_iff in Hch. destruct Hch as [A B]. apply N.leb_le in A, B. change c_MAX_CHANNELS with 8 in B.
    destruct (N.ltb_spec 8 n); [lia|]. destruct (N.eqb_spec n 0); [lia|]. eexists; reflexivity. }
  destruct Hctag as [ctag Hctag].
  destruct (block_code_reads _ _ Hbs ltac:(lia)) as (_ & Hbt & Hbm).
  destruct (block_code_wf _ _ Hbs ltac:(lia)) as (Hbv & Hbb).
  destruct (rate_code_reads rate rate eq_refl) as (_ & Hrt & Hrm).
  destruct (rate_code_wf rate Hrate) as (Hrv & Hrb).
  cbv zeta in Hrt, Hrm. rewrite <- Hsr in Hrt, Hrm, Hrv, Hrb.
  assert (Htyp : Forall (fun s => sub_typed s /\ verify_subframe s = true) (f_subframes f)).
  { apply Forall_forall. intros s Hin. apply In_nth_error in Hin. destruct Hin as [i Hi].
    destruct (Hsubs i s Hi) as (_ & _ & Hv & Hty & _). split; assumption. }
  destruct f as [fh fs fp]. cbn [f_precomputed f_header f_subframes] in *. subst fp.
  apply (frame_ops_wfb_intro fh fs ctag num); assumption.
Qed.

Theorem canonical_frame_parses_back f bytes rest channels bps :
  f_precomputed f = None -> header_canon (f_header f) bps ->
  chassign_channels (h_ch (f_header f)) = channels -> N.of_nat (length (f_subframes f)) = channels ->
  bps <= c_MAX_BITS_PER_SAMPLE ->
  (forall i s, nth_error (f_subframes f) i = Some s ->
     psub_ready (h_block (f_header f)) s (bps + bps_offset (h_ch (f_header f)) (N.of_nat i))) ->
  frame_bytes f = Ok bytes -> Forall (fun x => x < 256) rest ->
  p_frame channels bps (bytes ++ rest) = Some (f, rest).
Proof.
  intros Hpre [Hbs Hblk (rate & Hrate & Hsr) Hss Hbps Hnum Hnum32 Hch] Hchn Hlen Hbmax Hsubs Hfb Hrest.
  set (h := f_header f) in *.
  destruct (utf8_defined (h_number h) Hnum) as [num Enum].
  assert (Hctag : exists ctag, chassign_tag (h_ch h) = Ok ctag).
  { destruct (h_ch h) as [n| | |]; cbn [chassign_tag verify_chassign] in *; try (eexists; reflexivity).
    apply Bool.andb_true_iff in Hch. destruct Hch as [A B]. apply N.leb_le in A, B. change c_MAX_CHANNELS with 8 in B.
    destruct (N.ltb_spec 8 n); [lia|]. destruct (N.eqb_spec n 0); [lia|]. eexists; reflexivity. }
  destruct Hctag as [ctag Hctag].
  destruct (block_code_reads _ _ Hbs ltac:(lia)) as (_ & Hbt & Hbm).
  destruct (block_code_wf _ _ Hbs ltac:(lia)) as (Hbv & Hbb).
  pose proof (p_block_code_reads _ _ Hbs ltac:(lia)) as Hpb.
  destruct (rate_code_reads rate rate eq_refl) as (_ & Hrt & Hrm).
  destruct (rate_code_wf rate Hrate) as (Hrv & Hrb).
  pose proof (p_rate_code_reads rate) as Hpr. cbv zeta in Hrt, Hrm, Hpr. rewrite <- Hsr in Hrt, Hrm, Hrv, Hrb, Hpr.
  assert (Htyp : Forall (fun s => sub_typed s /\ verify_subframe s = true) (f_subframes f)).
  { apply Forall_forall. intros s Hin. apply In_nth_error in Hin. destruct Hin as [i Hi].
    destruct (Hsubs i s Hi) as (_ & _ & Hv & Hty & _). split; assumption. }
  assert (Hwfb : frame_ops_wfb f = true).
  { destruct f as [fh fs fp]. cbn [f_precomputed f_header f_subframes] in *. subst fp.
    apply (frame_ops_wfb_intro fh fs ctag num); assumption. }
  apply (parser_reads_frame f bytes rest ctag num channels bps); try assumption.
Qed.

(* frames whose headers carry the writer's own codes *)
Definition frame_canon (channels bps : N) (f : frame) : Prop :=
  f_precomputed f = None /\ header_canon (f_header f) bps /\
  chassign_channels (h_ch (f_header f)) = channels /\ N.of_nat (length (f_subframes f)) = channels /\
  (forall i s, nth_error (f_subframes f) i = Some s ->
     psub_ready (h_block (f_header f)) s (bps + bps_offset (h_ch (f_header f)) (N.of_nat i))).

(* such a frame serialises to exactly the number of bits it reports (C08_frame's hypotheses hold) *)
Theorem canonical_frame_count_bits f bytes channels bps :
  frame_canon channels bps f -> frame_bytes f = Ok bytes -> 8 * N.of_nat (length bytes) = frame_count_bits f.
Proof.
  intros (Hpre & Hcan & _ & _ & Hsubs) Hfb.
  apply (frame_count_bits_correct f bytes Hpre); [|exact (canonical_frame_wfb f bps Hpre Hcan Hsubs) | exact Hfb].
  apply Forall_forall. intros s Hin. apply In_nth_error in Hin. destruct Hin as [i Hi].
  destruct (Hsubs i s Hi) as (_ & _ & Hv & Hty & _). destruct (verify_subframe_shape s Hty Hv) as [Hs _]. exact Hs.
Qed.

(* FrameHeader::new + Frame::new *)
Theorem constructed_frame_canon block cha bps rate variable off h subs f :
  header_new block cha bps rate variable off = Ok h -> frame_new h subs = Ok f ->
  bps < 256 -> rate < 2 ^ 32 -> (variable = false -> off < 2 ^ 32) ->
  Forall (fun s => sub_typed s /\ sub_quot_u32 s) subs ->
  frame_canon (chassign_channels cha) bps f /\ bps <= c_MAX_BITS_PER_SAMPLE.
Proof.
  intros Eh Ef Hbps Hrate Hoff Hsubs.
  unfold header_new in Eh.
  destruct (guard (block_ok block)) as [[]| |] eqn:G1; cbn [bind] in Eh; try discriminate. apply guard_ok in G1.
  destruct (guard (1 <=? block)) as [[]| |] eqn:G2; cbn [bind] in Eh; try discriminate. apply guard_ok in G2.
  destruct (guard (negb variable || (off <? 2 ^ 36))) as [[]| |] eqn:G3; cbn [bind] in Eh; try discriminate. apply guard_ok in G3.
  destruct (block_size_code block) as [bcode| |] eqn:Ebc; cbn [bind] in Eh; try discriminate.
  cbv zeta in Eh. rewrite (N.mod_small bps (2 ^ 8)) in Eh by (change (2 ^ 8) with 256; exact Hbps).
  destruct (guard (negb (sample_size_tag bps =? 0))) as [[]| |] eqn:G4; cbn [bind] in Eh; try discriminate. apply guard_ok in G4.
  destruct (guard (negb (bps =? 32))) as [[]| |] eqn:G5; cbn [bind] in Eh; try discriminate. apply guard_ok in G5.
  destruct (guard (verify_chassign cha)) as [[]| |] eqn:G6; cbn [bind] in Eh; try discriminate. apply guard_ok in G6.
  destruct (guard (negb (c_tag (sample_rate_code (rate mod 2 ^ 32)) =? 0))) as [[]| |] eqn:G7; cbn [bind] in Eh; try discriminate.
  apply Ok_inj in Eh. subst h.
  unfold block_ok in G1. apply N.leb_le in G1, G2. change c_MAX_BLOCK_SIZE with 32767 in G1.
  assert (Hbpsin : In bps [8; 12; 16; 20; 24]).
  { unfold sample_size_tag in G4.
    repeat match type of G4 with context [if ?x =? ?k then _ else _] => destruct (N.eqb_spec x k) as [->|?]; [cbn [In]; tauto|] end.
    - destruct (N.eqb_spec bps 32); discriminate. }
  unfold frame_new in Ef. cbn [h_ch] in Ef.
  destruct (guard (chassign_channels cha =? N.of_nat (length subs))) as [[]| |] eqn:F1; cbn [bind] in Ef; try discriminate. apply guard_ok in F1.
  cbv zeta in Ef.
  destruct (guard (verify_frame _)) as [[]| |] eqn:F2; cbn [bind] in Ef; try discriminate. apply guard_ok in F2.
  apply Ok_inj in Ef. subst f. apply N.eqb_eq in F1.
  unfold verify_frame in F2. cbn [f_subframes f_header] in F2. rewrite !Bool.andb_true_iff in F2.
  destruct F2 as (((Fv & Fh) & _) & Fc).
  assert (Hss : bits_of_ss_tag (sample_size_tag bps) = Some bps /\ sample_size_tag bps < 8).
  { cbn [In] in Hbpsin. destruct Hbpsin as [<-|[<-|[<-|[<-|[<-|[]]]]]]; split; reflexivity. }
  destruct Hss as [Hss1 Hss2].
  split; [|cbn [In] in Hbpsin; change c_MAX_BITS_PER_SAMPLE with 24; destruct Hbpsin as [<-|[<-|[<-|[<-|[<-|[]]]]]]; lia].
  unfold frame_canon. cbn [f_precomputed f_header f_subframes h_ch h_block].
  split; [reflexivity|]. split; [|split; [reflexivity|]; split].
  - constructor; cbn [h_block h_bs h_sr h_ss_tag h_number h_variable h_ch].
    + exact Ebc.
    + lia.
    + exists (rate mod 2 ^ 32). split; [apply N.mod_upper_bound; apply pow2_nz | reflexivity].
    + exact Hss2.
    + rewrite Hss1. reflexivity.
    + destruct variable; cbn [negb orb] in G3; [apply N.ltb_lt; exact G3|].
      specialize (Hoff eq_refl). change (2 ^ 32) with 4294967296 in Hoff. change (2 ^ 36) with 68719476736. lia.
    + exact Hoff.
    + exact G6.
  - symmetry. exact F1.
  - intros i s Hi.
    destruct (subs_consistent_nth _ subs 0 Fc i s Hi) as [A B]. cbn [h_block h_ss_tag h_ch] in A, B. rewrite Hss1, N.add_0_l in B.
    pose proof (nth_error_In _ _ Hi) as Hin.
    rewrite forallb_forall in Fv. rewrite Forall_forall in Hsubs. destruct (Hsubs s Hin) as [Ht Hq].
    split; [exact A|]. split; [symmetry; exact B|]. split; [apply Fv; exact Hin|]. split; assumption.
Qed.

Theorem constructed_frame_parses_back block cha bps rate variable off h subs f bytes rest :
  header_new block cha bps rate variable off = Ok h -> frame_new h subs = Ok f ->
  bps < 256 -> rate < 2 ^ 32 -> (variable = false -> off < 2 ^ 32) ->
  Forall (fun s => sub_typed s /\ sub_quot_u32 s) subs ->
  frame_bytes f = Ok bytes -> Forall (fun x => x < 256) rest ->
  p_frame (chassign_channels cha) bps (bytes ++ rest) = Some (f, rest).
Proof.
  intros Eh Ef Hbps Hrate Hoff Hsubs Hfb Hrest.
  destruct (constructed_frame_canon block cha bps rate variable off h subs f Eh Ef Hbps Hrate Hoff Hsubs)
    as [(Hpre & Hcan & Hchn & Hlen & Hs) Hb].
  exact (canonical_frame_parses_back f bytes rest (chassign_channels cha) bps Hpre Hcan Hchn Hlen Hb Hs Hfb Hrest).
Qed.

(* ... and writes exactly the number of bits it reports *)
Theorem constructed_frame_count_bits block cha bps rate variable off h subs f bytes :
  header_new block cha bps rate variable off = Ok h -> frame_new h subs = Ok f ->
  bps < 256 -> rate < 2 ^ 32 -> (variable = false -> off < 2 ^ 32) ->
  Forall (fun s => sub_typed s /\ sub_quot_u32 s) subs ->
  frame_bytes f = Ok bytes -> 8 * N.of_nat (length bytes) = frame_count_bits f.
Proof.
  intros Eh Ef Hbps Hrate Hoff Hsubs Hfb.
  destruct (constructed_frame_canon block cha bps rate variable off h subs f Eh Ef Hbps Hrate Hoff Hsubs) as [Hc _].
  exact (canonical_frame_count_bits f bytes (chassign_channels cha) bps Hc Hfb).
Qed.

(* a canonical frame passes Frame::verify *)
Lemma subs_consistent_intro h : forall subs ch,
  (forall i s, nth_error subs i = Some s ->
     sub_block s = h_block h /\
     match bits_of_ss_tag (h_ss_tag h) with Some b => b + bps_offset (h_ch h) (ch + N.of_nat i) = sub_bps s | None => True end) ->
  subs_consistent h ch subs = true.
Proof.
  induction subs as [|s t IH]; intros ch H; [reflexivity|]. cbn [subs_consistent].
  destruct (H 0%nat s eq_refl) as [A B]. rewrite N.add_0_r in B.
  rewrite A, N.eqb_refl. cbn [andb].
  assert (C : match bits_of_ss_tag (h_ss_tag h) with Some b => b + bps_offset (h_ch h) ch =? sub_bps s | None => true end = true).
  { destruct (bits_of_ss_tag (h_ss_tag h)); [apply N.eqb_eq; exact B | reflexivity]. }
  rewrite C. cbn [andb]. apply IH. intros i s' Hi. specialize (H (S i) s' Hi).
  replace (ch + 1 + N.of_nat i) with (ch + N.of_nat (S i)) by lia. exact H.
Qed.

Theorem canonical_frame_verifies f channels bps :
  frame_canon channels bps f -> h_block (f_header f) <= c_MAX_BLOCK_SIZE -> verify_frame f = true.
Proof.
  intros (Hpre & [Hbs Hblk Hsr Hss Hbps Hnum Hnum32 Hch] & Hchn & Hlen & Hsubs) Hmax.
  unfold verify_frame. rewrite !Bool.andb_true_iff. repeat split.
  - apply forallb_forall. intros s Hin. apply In_nth_error in Hin. destruct Hin as [i Hi]. destruct (Hsubs i s Hi) as (_ & _ & Hv & _). exact Hv.
  - unfold verify_header. rewrite !Bool.andb_true_iff. repeat split.
    + unfold block_ok. apply N.leb_le. exact Hmax.
    + apply Bool.orb_true_iff. right. apply N.ltb_lt. exact Hnum.
    + exact Hch.
  - apply N.eqb_eq. rewrite Hlen, Hchn. reflexivity.
  - apply subs_consistent_intro. intros i s Hi. destruct (Hsubs i s Hi) as (A & B & _). split; [exact A|].
    rewrite N.add_0_l. destruct (bits_of_ss_tag (h_ss_tag (f_header f))) as [b|]; [|exact I]. rewrite Hbps. symmetry. exact B.
Qed.
