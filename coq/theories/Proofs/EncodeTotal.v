(* C07 at stream level: a verified configuration encodes every valid input - no panic, no error - and (with the C01
   stream theorem) losslessly. *)
From FV Require Import Generated Model.Base Model.Sink Model.Crc Model.Codes Model.Rice Model.Predict
  Model.Component Model.Flac Model.Encoder Model.Ctor Model.Config
  Proofs.SinkArith Proofs.OpsLen Proofs.CountBits Proofs.BitRead Proofs.BitWrite Proofs.CtorP
  Proofs.Lossless Proofs.NoPanic Proofs.ConfigP Proofs.EncoderVerifies Proofs.DecodeFrame Proofs.EncodeFrameE2E
  Proofs.StreamBytes Proofs.StreamLists Proofs.DecodeStream.
Local Open Scope N_scope.

Lemma mapM_total {A B} (f : A -> Res B) : forall l, (forall x, In x l -> exists y, f x = Ok y) -> exists ys, mapM f l = Ok ys.
Proof.
  induction l as [|x r IH]; intros H; [exists []; reflexivity|].
  destruct (H x (or_introl eq_refl)) as [y Ey]. destruct (IH (fun z Hz => H z (or_intror Hz))) as [ys Eys].
  exists (y :: ys). cbn [mapM]. rewrite Ey. cbn [bind]. rewrite Eys. reflexivity.
Qed.

Lemma block_size_code_total n : 1 <= n -> exists c, block_size_code n = Ok c.
Proof.
  intros H. unfold block_size_code. destruct (N.eqb_spec n 0); [lia|].
  repeat match goal with |- context [if ?a =? ?b then _ else _] => destruct (a =? b); [eexists; reflexivity|] end.
  destruct (n <=? 256); eexists; reflexivity.
Qed.

Section Total.
  Variable ent : N -> N -> N -> N.
  Variable qlpc : N -> N -> qparams.

  (* one signal the encoder may code: the subframe encoder answers *)
  Lemma sub_total experimental cfg fi bps n var sig :
    verify experimental cfg = true -> In bps [8; 12; 16; 20; 24] -> (1 <= n)%nat ->
    sub_hyps qlpc cfg fi bps n var sig ->
    exists sf, encode_subframe ent qlpc cfg fi var sig (var_bps bps var) = Ok sf.
  Proof.
    intros Hv Hbps Hn (Hlen & Hs & Hq).
    assert (Hvb : var_bps bps var <= 25).
    { unfold var_bps. cbn [In] in Hbps. destruct (var =? VAR_SIDE); destruct Hbps as [<-|[<-|[<-|[<-|[<-|[]]]]]]; lia. }
    assert (Hvb1 : 1 <= var_bps bps var).
    { unfold var_bps. cbn [In] in Hbps. destruct (var =? VAR_SIDE); destruct Hbps as [<-|[<-|[<-|[<-|[<-|[]]]]]]; lia. }
    apply (encode_subframe_no_panic ent qlpc experimental cfg fi var sig (var_bps bps var) Hv).
    - intros ->. cbn in Hlen. lia.
    - apply Forall_forall. intros x Hx. rewrite forallb_forall in Hs. specialize (Hs x Hx).
      apply ParseSubframe.sample_ok_range in Hs.
      assert (2 ^ (Z.of_N (var_bps bps var) - 1) <= 2 ^ 25)%Z by (apply Z.pow_le_mono_r; lia). lia.
    - lia.
    - intros Hu _. destruct (Hq Hu) as (Hvq & Hord & Hfit).
      destruct (verify_qparams_facts _ Hvq) as (Ho & Hsh & _). unfold q_order in Ho.
      split; [lia|]. split; [exact Hfit | lia].
  Qed.

  Lemma mk_header_total rate bps cha n number : (1 <= n)%nat -> N.of_nat n <= c_MAX_BLOCK_SIZE ->
    exists h, mk_header rate bps cha (N.of_nat n) number = Ok h.
  Proof.
    intros H1 H2. change c_MAX_BLOCK_SIZE with 32767 in H2. unfold mk_header.
    rewrite (N.mod_small (N.of_nat n) (2 ^ 16)) by (change (2 ^ 16) with 65536; lia).
    destruct (block_size_code_total (N.of_nat n) ltac:(lia)) as [c Ec]. rewrite Ec. cbn [bind]. eexists. reflexivity.
  Qed.

  Theorem encode_frame_total experimental cfg rate channels bps fi number block n :
    verify experimental cfg = true -> In bps [8; 12; 16; 20; 24] -> 1 <= channels <= 8 ->
    (1 <= n)%nat -> N.of_nat n <= c_MAX_BLOCK_SIZE ->
    block_hyps qlpc cfg fi channels bps block n ->
    exists f, encode_frame ent qlpc cfg rate channels bps fi number block = Ok f.
  Proof.
    intros Hv Hbps Hch Hn1 Hn Hblk. unfold encode_frame. fold (chans channels block).
    set (cs := chans channels block) in *. set (idx := map N.of_nat (seq 0 (N.to_nat channels))) in *.
    assert (Hlenic : length idx = length cs) by (unfold cs, chans; fold idx; rewrite map_length; reflexivity).
    assert (Hlen_idx : length idx = N.to_nat channels) by (unfold idx; rewrite map_length, seq_length; reflexivity).
    assert (Hm : exists indep, mapM (fun ic : N * list Z => encode_subframe ent qlpc cfg fi (fst ic) (snd ic) bps) (combine idx cs) = Ok indep).
    { apply mapM_total. intros [i c] Hin. cbn [fst snd].
      assert (Hi : i < 8).
      { apply in_combine_l in Hin. unfold idx in Hin. apply in_map_iff in Hin. destruct Hin as (k & <- & Hk). apply in_seq in Hk. lia. }
      assert (Hvar : In (i, c) (variants channels block)) by (unfold variants; fold cs idx; apply in_or_app; left; exact Hin).
      assert (Hvb : var_bps bps i = bps) by (unfold var_bps, VAR_SIDE; destruct (N.eqb_spec i 9); [lia | reflexivity]).
      rewrite <- Hvb. exact (sub_total experimental cfg fi bps n i c Hv Hbps Hn1 (Hblk i c Hvar)). }
    destruct Hm as [indep Em]. rewrite Em. cbn [bind].
    assert (Hn0 : match cs with c :: _ => N.of_nat (length c) | [] => 0 end = N.of_nat n).
    { destruct cs as [|c0 cr] eqn:Ecs.
      - exfalso. cbn in Hlenic. lia.
      - assert (Hin : In (0, c0) (variants channels block)).
        { unfold variants. fold cs idx. rewrite Ecs. apply in_or_app. left.
          unfold idx. destruct (N.to_nat channels) as [|k] eqn:Ek; [lia|]. cbn [seq map combine]. left. reflexivity. }
        destruct (Hblk _ _ Hin) as [A _]. rewrite A. reflexivity. }
    rewrite Hn0.
    destruct (N.eqb_spec channels 2) as [H2|H2].
    - subst channels. change (N.to_nat 2) with 2%nat in *.
      destruct cs as [|l [|r [|? ?]]] eqn:Ecs; cbn [length] in Hlenic; try lia.
      pose proof (EncodeFrameE2E.mapM_Forall2 _ _ _ Em) as HF. apply Forall2_len in HF.
      rewrite combine_length, Hlen_idx in HF. cbn [length Nat.min] in HF.
      destruct indep as [|sl [|sr [|? ?]]]; cbn [length] in HF; try lia.
      fold (mids l r). fold (sides l r).
      assert (Hmid_in : In (VAR_MID, mids l r) (variants 2 block)).
      { unfold variants. fold cs. rewrite Ecs. cbn [N.eqb Pos.eqb]. apply in_or_app. right. left. reflexivity. }
      assert (Hside_in : In (VAR_SIDE, sides l r) (variants 2 block)).
      { unfold variants. fold cs. rewrite Ecs. cbn [N.eqb Pos.eqb]. apply in_or_app. right. right. left. reflexivity. }
      destruct (sub_total experimental cfg fi bps n VAR_MID _ Hv Hbps Hn1 (Hblk _ _ Hmid_in)) as [sm Esm].
      destruct (sub_total experimental cfg fi bps n VAR_SIDE _ Hv Hbps Hn1 (Hblk _ _ Hside_in)) as [ss Ess].
      change (var_bps bps VAR_MID) with bps in Esm. change (var_bps bps VAR_SIDE) with (bps + 1) in Ess.
      rewrite Esm. cbn [bind]. rewrite Ess. cbn [bind]. cbv zeta.
      match goal with |- context [mk_header _ _ (fst ?b) _ _] => set (best := b) end.
      destruct (mk_header_total rate bps (fst best) n number Hn1 Hn) as [h Eh]. rewrite Eh. cbn [bind]. eexists. reflexivity.
    - destruct (mk_header_total rate bps (Indep channels) n number Hn1 Hn) as [h Eh]. rewrite Eh. cbn [bind]. eexists. reflexivity.
  Qed.
End Total.

(* ---- streams ---- *)
Lemma stream_bytes_total i frames :
  info_wf i -> Forall (fun f => f_precomputed f = None /\ frame_ops_wfb f = true) frames ->
  exists bytes, stream_bytes (mkStream i [] frames) = Ok bytes.
Proof.
  intros Hi Hall.
  assert (Hfos : exists fos, mapM frame_ops frames = Ok fos /\ forallb wf_op (concat fos) = true).
  { induction Hall as [|f fr [Hpre Hw] _ (fos & E & W)]; [exists []; split; reflexivity|].
    destruct (frame_ops_shape f Hpre Hw) as (body & Eo & Hb). destruct (frame_ops_wf body Hb) as [W1 _].
    exists ([OBytes body; OWrite 16 (crc16 body)] :: fos). split.
    - cbn [mapM]. rewrite Eo. cbn [bind]. rewrite E. reflexivity.
    - cbn [concat]. rewrite forallb_app, W1, W. reflexivity. }
  destruct Hfos as (fos & Em & Hw).
  unfold stream_bytes, stream_ops. cbn [s_frames s_meta s_info]. rewrite Em. cbn [bind meta_ops].
  apply pack_total.
  change ([OBytes [102; 76; 97; 67]] ++ metadata_ops true 0 272 (streaminfo_ops i) ++ [] ++ concat fos)
    with ([OBytes [102; 76; 97; 67]] ++ metadata_ops true 0 272 (streaminfo_ops i) ++ concat fos).
  rewrite app_assoc. fold (hdr_ops i). rewrite forallb_app, (hdr_ops_wf i Hi), Hw. reflexivity.
Qed.

Section TotalStream.
  Variable ent : N -> N -> N -> N.
  Variable qlpc : N -> N -> qparams.
  Variable md5 : list N -> list N.

  Lemma encode_blocks_total experimental cfg rate channels bps :
    verify experimental cfg = true -> In bps [8; 12; 16; 20; 24] -> 1 <= channels <= 8 ->
    forall blocks fi,
    blocks_hyps qlpc cfg channels bps fi blocks -> Forall (fun b => samples_ok bps b = true) blocks ->
    fi + N.of_nat (length blocks) <= 2 ^ 31 ->
    exists frames, encode_blocks ent qlpc cfg rate channels bps fi blocks = Ok frames.
  Proof.
    intros Hv Hbps Hch. induction blocks as [|b br IH]; intros fi Hh Hs Hfi; [exists []; reflexivity|].
    destruct Hh as [(n & Hn1 & Hn & Hlen & Hblk) Hr]. inversion Hs as [|? ? Hsb Hsr]; subst.
    cbn [encode_blocks]. unfold encode_fixed_size_frame.
    cbn [length] in Hfi.
    destruct (N.leb_spec (2 ^ 31) fi) as [?|_]; [lia|]. rewrite Hsb. cbn [negb].
    destruct (encode_frame_total ent qlpc experimental cfg rate channels bps fi fi b n Hv Hbps Hch Hn1 Hn Hblk) as [f Ef].
    rewrite Ef. cbn [bind].
    destruct (IH (fi + 1) Hr Hsr ltac:(lia)) as [fs Efs]. rewrite Efs. cbn [bind]. eexists. reflexivity.
  Qed.

  Lemma chunks_samples_ok bps (k : nat) (samples : list Z) : (1 <= k)%nat -> samples_ok bps samples = true ->
    Forall (fun b => samples_ok bps b = true) (chunks k samples).
  Proof.
    intros Hk Hs. apply Forall_forall. intros b Hb. unfold samples_ok in *. apply forallb_forall. intros x Hx.
    rewrite forallb_forall in Hs. apply Hs. rewrite <- (chunks_concat k samples Hk). apply in_concat. exists b. split; assumption.
  Qed.

  Theorem encode_stream_bytes_total experimental cfg rate channels bps bs samples (total : nat) :
    verify experimental cfg = true -> In bps [8; 12; 16; 20; 24] -> rate < 2 ^ 32 -> 1 <= channels <= 8 ->
    1 <= bs <= c_MAX_BLOCK_SIZE ->
    length samples = (total * N.to_nat channels)%nat -> N.of_nat total < 2 ^ 36 ->
    N.of_nat (length (chunks (N.to_nat (bs * channels)) samples)) <= 2 ^ 31 ->
    samples_ok bps samples = true ->
    length (md5 (md5_input bps samples)) = 16%nat -> Forall lt256 (md5 (md5_input bps samples)) ->
    (forall j b, nth_error (chunks (N.to_nat (bs * channels)) samples) j = Some b ->
                 block_hyps qlpc cfg (N.of_nat j) channels bps b (length b / N.to_nat channels)) ->
    exists bytes, encode_stream_bytes ent qlpc md5 cfg rate channels bps bs samples = Ok bytes.
  Proof.
    intros Hv Hbps Hrate Hch Hbs Hlen Htot Hnb Hso Hml Hm256 Hblocks.
    assert (Hmp : cfg_max_parameter cfg <= 14).
    { apply verify_exact in Hv. destruct Hv as (_ & _ & _ & _ & _ & H & _). exact H. }
    set (c := N.to_nat channels) in *. set (bsn := N.to_nat bs).
    assert (Hk : N.to_nat (bs * channels) = (bsn * c)%nat) by (unfold bsn, c; lia).
    unfold encode_stream_bytes, encode_stream. rewrite Hk in *.
    set (blocks := chunks (bsn * c) samples) in *.
    assert (Hchunked : chunked (bsn * c) c blocks).
    { apply (chunks_chunked (bsn * c) c bsn samples total); [unfold bsn, c; nia | reflexivity | exact Hlen]. }
    assert (Hbsn : N.of_nat bsn = bs) by (unfold bsn; lia).
    assert (Hhyps : blocks_hyps qlpc cfg channels bps 0 blocks).
    { apply (blocks_hyps_of_nth qlpc cfg channels bps bsn); [lia | unfold bsn; lia | rewrite Hbsn; lia | exact Hchunked | exact Hblocks]. }
    destruct (encode_blocks_total experimental cfg rate channels bps Hv Hbps Hch blocks 0 Hhyps
                (chunks_samples_ok bps (bsn * c) samples ltac:(unfold bsn, c; nia) Hso) ltac:(lia)) as [frames Ebl].
    rewrite Ebl. cbn [bind].
    match goal with |- exists bytes, stream_bytes (mkStream ?ii _ _) = _ => set (i2 := ii) end.
    destruct (encode_blocks_decode ent qlpc cfg rate channels bps (mkSinfo 0 0 0 0 rate 0 bps 0 []) Hmp Hbps Hrate Hch eq_refl eq_refl blocks 0 frames Ebl Hhyps)
      as (fbs & out & HF2 & _ & _).
    apply stream_bytes_total.
    - constructor; cbn [si_total si_md5 i2]; try assumption.
      rewrite Hlen, Nat2N.inj_mul. unfold c. rewrite N2Nat.id, N.div_mul by lia.
      change (2 ^ 36) with 68719476736 in Htot. change (2 ^ 64) with 18446744073709551616. lia.
    - clear -HF2. induction HF2 as [|f fb fr fbr (_ & A & B) _ IH]; constructor; [split; assumption | exact IH].
  Qed.

  (* no panic, no error, and the independent strict decoder returns the input *)
  Corollary verified_config_lossless experimental cfg rate channels bps bs samples (total : nat) :
    verify experimental cfg = true -> In bps [8; 12; 16; 20; 24] -> 1 <= rate < 2 ^ 20 -> 1 <= channels <= 8 ->
    16 <= bs <= c_MAX_BLOCK_SIZE ->
    length samples = (total * N.to_nat channels)%nat -> N.of_nat total < 2 ^ 36 ->
    N.of_nat (length (chunks (N.to_nat (bs * channels)) samples)) <= 2 ^ 31 ->
    samples_ok bps samples = true ->
    length (md5 (md5_input bps samples)) = 16%nat -> Forall lt256 (md5 (md5_input bps samples)) ->
    (forall j b, nth_error (chunks (N.to_nat (bs * channels)) samples) j = Some b ->
                 block_hyps qlpc cfg (N.of_nat j) channels bps b (length b / N.to_nat channels)) ->
    exists bytes minf maxf,
      encode_stream_bytes ent qlpc md5 cfg rate channels bps bs samples = Ok bytes /\
      decode_stream bytes = Some (mkSinfo bs bs minf maxf rate channels bps (N.of_nat total) (md5 (md5_input bps samples)), samples).
  Proof.
    intros Hv Hbps Hrate Hch Hbs Hlen Htot Hnb Hso Hml Hm256 Hblocks.
    assert (Hmp : cfg_max_parameter cfg <= 14).
    { apply verify_exact in Hv. destruct Hv as (_ & _ & _ & _ & _ & H & _). exact H. }
    destruct (encode_stream_bytes_total experimental cfg rate channels bps bs samples total Hv Hbps
                ltac:(change (2 ^ 20) with 1048576 in Hrate; change (2 ^ 32) with 4294967296; lia) Hch ltac:(lia) Hlen Htot Hnb Hso Hml Hm256 Hblocks)
      as [bytes E].
    destruct (stream_end_to_end ent qlpc md5 cfg rate channels bps bs samples bytes total E Hmp Hbps Hrate Hch Hbs Hlen Htot Hml Hm256 Hblocks)
      as (minf & maxf & D).
    exists bytes, minf, maxf. split; assumption.
  Qed.
End TotalStream.

(* non-vacuity: the configuration of stream_hyps_satisfiable is a verified one and its input is in range *)
Example verified_config_example :
  let cfg := mkCfg 64 false None true true true true true false 4 None 10 15 false 0 None 14 in
  verify false cfg = true /\ samples_ok 16 [1; -2; 3; 4]%Z = true /\
  N.of_nat (length (chunks (N.to_nat (16 * 1)) [1; -2; 3; 4]%Z)) <= 2 ^ 31.
Proof. cbv zeta. split; [vm_compute; reflexivity|]. split; [vm_compute; reflexivity|]. vm_compute. discriminate. Qed.

(* ---- the frame-level entry point: its own argument checks supply the range hypotheses ---- *)
Section FrameEntry.
  Variable ent : N -> N -> N -> N.
  Variable qlpc : N -> N -> qparams.

  Theorem fixed_size_frame_end_to_end cfg rate channels bps fi number block f si bytes rest n :
    encode_fixed_size_frame ent qlpc cfg rate channels bps fi number block = Ok f ->
    cfg_max_parameter cfg <= 14 -> In bps [8; 12; 16; 20; 24] -> rate < 2 ^ 32 -> 1 <= channels <= 8 ->
    (1 <= n)%nat -> N.of_nat n <= c_MAX_BLOCK_SIZE ->
    block_hyps qlpc cfg fi channels bps block n ->
    i_rate si = rate -> i_bps si = bps ->
    Forall (fun x => x < 256) rest ->
    frame_bytes f = Ok bytes ->
    number < 2 ^ 31 /\
    exists ctag, read_frame si (bytes ++ rest) = Some (mkFH (N.of_nat n) ctag number (rate mod 2 ^ 32) bps, chans channels block, rest).
  Proof.
    intros E Hmp Hbps Hrate Hch Hn1 Hn Hblk Hsr Hsb Hrest Hfb.
    unfold encode_fixed_size_frame in E.
    destruct (N.leb_spec (2 ^ 31) number) as [?|Hnum]; [discriminate|].
    destruct (samples_ok bps block) eqn:Hso; cbn [negb] in E; [|discriminate].
    destruct (samples_ok_chans bps channels block Hbps Hso) as [Hbound Hrange].
    split; [exact Hnum|].
    apply (frame_end_to_end ent qlpc cfg rate channels bps fi number block f si bytes rest n E Hmp Hbps Hrate Hch
             ltac:(change (2 ^ 31) with 2147483648 in Hnum; change (2 ^ 36) with 68719476736; lia) Hn1 Hn Hblk Hbound Hrange Hsr Hsb Hrest Hfb).
  Qed.
End FrameEntry.
