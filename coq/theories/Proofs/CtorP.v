(* C18: constructors are total, what they return verifies, and it serialises (on either sink,
   without a panicking outcome) to exactly the number of bits it reports. *)
From FV Require Import Generated Model.Base Model.Sink Model.Crc Model.Codes Model.Rice Model.Predict
  Model.Component Model.Flac Model.Parser Model.Ctor
  Proofs.SinkArith Proofs.SinkRefine Proofs.OpsLen Proofs.CrcP Proofs.CountBits.
Local Open Scope N_scope.

Lemma guard_ok b : guard b = Ok tt -> b = true.
Proof. destruct b; [reflexivity | discriminate]. Qed.

Lemma guard_cases b : (b = true /\ guard b = Ok tt) \/ (b = false /\ guard b = Err E_VERIFY).
Proof. destruct b; [left | right]; split; reflexivity. Qed.

(* step through `do _ <- guard b; k` *)
Ltac gstep H :=
  match type of H with
  | bind (guard ?b) _ = Ok _ =>
      let Hb := fresh "Hg" in
      destruct (guard_cases b) as [[Hb Hgd]|[Hb Hgd]]; rewrite Hgd in H; cbn [bind] in H; [clear Hgd | discriminate H]
  end.

Ltac np_guard :=
  repeat match goal with
  | |- bind (guard ?b) _ <> Panic _ => destruct (guard_cases b) as [[_ Hgd]|[_ Hgd]]; rewrite Hgd; clear Hgd; cbn [bind]; [| discriminate]
  end.

(* ---------------- totality ---------------- *)

Lemma block_size_code_no_panic n site : 1 <= n -> block_size_code n <> Panic site.
Proof.
  intros Hn. unfold block_size_code.
  destruct (N.eqb_spec n 0); [lia|].
  repeat match goal with |- (if ?c then _ else _) <> _ => destruct c; [discriminate|] end. discriminate.
Qed.

Theorem ctor_total :
  (forall po block warm params q r site, residual_new po block warm params q r <> Panic site) /\
  (forall coefs order shift prec site, qparams_new coefs order shift prec <> Panic site) /\
  (forall block dc bps site, constant_new block dc bps <> Panic site) /\
  (forall xs bps site, verbatim_new xs bps <> Panic site) /\
  (forall warm res bps site, fixed_new warm res bps <> Panic site) /\
  (forall warm q res bps site, lpc_new warm q res bps <> Panic site) /\
  (forall block cha bps rate variable off site, header_new block cha bps rate variable off <> Panic site) /\
  (forall h subs site, frame_new h subs <> Panic site) /\
  (forall rate ch bps site, streaminfo_ctor rate ch bps <> Panic site) /\
  (forall tag data site, unknown_new tag data <> Panic site).
Proof.
  repeat split; intros;
    unfold residual_new, qparams_new, constant_new, verbatim_new, fixed_new, lpc_new, frame_new,
      streaminfo_ctor, unknown_new; np_guard; try discriminate.
  unfold header_new.
  destruct (guard_cases (block_ok block)) as [[_ Hgd]|[_ Hgd]]; rewrite Hgd; clear Hgd; cbn [bind]; [|discriminate].
  destruct (guard_cases (1 <=? block)) as [[H1 Hgd]|[_ Hgd]]; rewrite Hgd; clear Hgd; cbn [bind]; [|discriminate].
  np_guard.
  destruct (block_size_code block) as [c|e|s] eqn:Ec; cbn [bind]; [| discriminate |].
  - np_guard. discriminate.
  - exfalso. apply (block_size_code_no_panic block s); [apply N.leb_le; exact H1 | exact Ec].
Qed.

(* ---------------- what is returned verifies ---------------- *)

Theorem residual_new_verifies po block warm params q r res :
  residual_new po block warm params q r = Ok res ->
  res = mkResidual po block warm params q r /\ verify_residual res = true.
Proof.
  unfold residual_new. intros H. do 4 gstep H. apply Ok_inj in H. subst res. split; [reflexivity | assumption].
Qed.

Theorem qparams_new_verifies coefs order shift prec qp :
  qparams_new coefs order shift prec = Ok qp ->
  qp = mkQ coefs shift prec /\ N.of_nat (length coefs) = order /\ verify_qparams qp = true.
Proof.
  unfold qparams_new. intros H. do 3 gstep H. apply Ok_inj in H. subst qp.
  repeat split; try assumption. apply N.eqb_eq. assumption.
Qed.

Theorem subframe_ctor_verifies :
  (forall block dc bps s, constant_new block dc bps = Ok s -> s = SConstant block dc bps /\ verify_subframe s = true) /\
  (forall xs bps s, verbatim_new xs bps = Ok s -> s = SVerbatim xs bps /\ verify_subframe s = true) /\
  (forall warm res bps s, fixed_new warm res bps = Ok s ->
      s = SFixed warm res bps /\ verify_subframe s = true /\ (length warm <= 4)%nat) /\
  (forall warm qp res bps s, lpc_new warm qp res bps = Ok s ->
      s = SLpc warm qp res bps /\ verify_subframe s = true /\ length (q_coefs qp) = length warm).
Proof.
  repeat split.
  - unfold constant_new in H. do 3 gstep H. apply Ok_inj in H. auto.
  - unfold constant_new in H. do 3 gstep H. apply Ok_inj in H. subst s. cbn [verify_subframe].
    rewrite Hg, Hg0, Hg1. reflexivity.
  - unfold verbatim_new in H. do 3 gstep H. apply Ok_inj in H. auto.
  - unfold verbatim_new in H. do 3 gstep H. apply Ok_inj in H. subst s. cbn [verify_subframe].
    rewrite Hg, Hg0, Hg1. reflexivity.
  - unfold fixed_new in H. do 4 gstep H. apply Ok_inj in H. auto.
  - unfold fixed_new in H. do 4 gstep H. apply Ok_inj in H. subst s. assumption.
  - unfold fixed_new in H. do 4 gstep H. apply N.leb_le in Hg1. change c_FIXED_MAX_LPC_ORDER with 4 in Hg1. lia.
  - unfold lpc_new in H. do 5 gstep H. apply Ok_inj in H. auto.
  - unfold lpc_new in H. do 5 gstep H. apply Ok_inj in H. subst s. assumption.
  - unfold lpc_new in H. do 5 gstep H. apply N.eqb_eq in Hg2. unfold q_order in Hg2. lia.
Qed.

Theorem frame_new_verifies h subs f :
  frame_new h subs = Ok f -> f = mkFrame h subs None /\ verify_frame f = true.
Proof.
  unfold frame_new. intros H. do 2 gstep H. apply Ok_inj in H. subst f. split; [reflexivity | assumption].
Qed.

Theorem streaminfo_ctor_verifies rate ch bps i :
  streaminfo_ctor rate ch bps = Ok i -> verify_streaminfo i = true /\ si_rate i = rate /\ si_channels i = ch /\ si_bps i = bps.
Proof.
  unfold streaminfo_ctor. intros H. do 4 gstep H. apply Ok_inj in H. subst i. repeat split. assumption.
Qed.

(* ---------------- verified residuals are well-formed and serialise ---------------- *)

Lemma forallb_zero_repeat : forall l, forallb (N.eqb 0) l = true -> l = repeat 0 (length l).
Proof.
  induction l as [|x t IH]; cbn [forallb length repeat]; intros H; [reflexivity|].
  apply Bool.andb_true_iff in H. destruct H as [Hx Ht]. apply N.eqb_eq in Hx. subst x. rewrite <- IH by assumption. reflexivity.
Qed.

Ltac split_andb H :=
  repeat match type of H with
  | (_ && _) = true => let H2 := fresh "Hv" in apply Bool.andb_true_iff in H; destruct H as [H H2]
  end.

Lemma verify_residual_facts r :
  verify_residual r = true ->
  length (r_quot r) = length (r_rem r) /\ N.of_nat (length (r_quot r)) = r_block r /\
  r_block r <= c_MAX_BLOCK_SIZE /\ r_order r <= c_RICE_MAX_PARTITION_ORDER /\
  N.of_nat (length (r_params r)) = 2 ^ r_order r /\ 2 ^ r_order r <= r_block r /\
  r_block r mod 2 ^ r_order r = 0 /\ r_warmup r <= r_block r / 2 ^ r_order r /\
  forallb (fun p => p <=? c_RICE_MAX_RICE_PARAMETER) (r_params r) = true /\
  forallb (N.eqb 0) (firstn (N.to_nat (r_warmup r)) (r_quot r)) = true /\
  forallb (N.eqb 0) (firstn (N.to_nat (r_warmup r)) (r_rem r)) = true /\
  rems_ok (r_params r) (N.to_nat (r_block r / 2 ^ r_order r)) (r_rem r) = true.
Proof.
  unfold verify_residual, block_ok. intros H. rewrite !Bool.andb_true_iff in H.
  destruct H as (((((((((((Hl & Hmax) & Hq) & Hpo) & Hp) & Hpc) & Hmod) & Hw) & Hpar) & Hz) & Hzr) & Hrem).
  apply N.eqb_eq in Hl, Hq, Hp, Hmod. apply N.leb_le in Hmax, Hpo, Hpc, Hw.
  repeat split; try assumption; try lia.
Qed.

Theorem verify_residual_wf r : verify_residual r = true -> wf_residual r.
Proof.
  intros H. destruct (verify_residual_facts r H) as (Hl & Hq & Hmax & Hpo & Hp & Hpc & Hmod & Hw & Hpar & Hz & Hzr & Hrem).
  set (pc := 2 ^ r_order r) in *.
  assert (Hpcpos : pc <> 0) by (unfold pc; apply N.pow_nonzero; lia).
  exists (N.to_nat (r_block r / pc)).
  assert (Hblk : r_block r = pc * (r_block r / pc)).
  { pose proof (N.div_mod (r_block r) pc Hpcpos). lia. }
  assert (Hlen : (length (r_params r) * N.to_nat (r_block r / pc))%nat = N.to_nat (r_block r)).
  { apply Nat2N.inj. rewrite Nat2N.inj_mul, Hp, !N2Nat.id. symmetry. exact Hblk. }
  repeat split.
  - exact Hp.
  - rewrite Hlen, N2Nat.id. reflexivity.
  - rewrite N2Nat.id. reflexivity.
  - rewrite Hlen. apply Nat2N.inj. rewrite N2Nat.id. exact Hq.
  - rewrite Hlen, <- Hl. apply Nat2N.inj. rewrite N2Nat.id. exact Hq.
  - lia.
  - pose proof (forallb_zero_repeat _ Hz) as E. rewrite firstn_length in E.
    replace (Nat.min (N.to_nat (r_warmup r)) (length (r_quot r))) with (N.to_nat (r_warmup r)) in E; [exact E|].
    assert (r_block r / pc <= r_block r) by (apply N.div_le_upper_bound; [assumption | nia]). lia.
  - intros E. rewrite E in Hp. cbn in Hp. unfold pc in *. pose proof (N.pow_nonzero 2 (r_order r)). lia.
Qed.

Lemma part_ops_wf p : p <= 14 -> forall qs rs, forallb wf_op (residual_part_ops p qs rs) = true.
Proof.
  intros Hp. induction qs as [|q qs IH]; intros [|r rs]; cbn [residual_part_ops forallb]; try reflexivity.
  rewrite IH. cbn [wf_op].
  assert (A : (N.lor r (2 ^ p) * 2 ^ (32 - (p + 1))) mod 2 ^ 32 <? 2 ^ 32 = true)
    by (apply N.ltb_lt; apply N.mod_upper_bound; apply N.pow_nonzero; lia).
  assert (B : p + 1 <=? 32 = true) by (apply N.leb_le; lia).
  rewrite A, B. reflexivity.
Qed.

Lemma parts_ops_wf : forall params part skip qs rs,
  forallb (fun p => p <=? c_RICE_MAX_RICE_PARAMETER) params = true ->
  forallb wf_op (residual_parts_ops params part skip qs rs) = true.
Proof.
  induction params as [|p ps IH]; intros part skip qs rs H; cbn [residual_parts_ops forallb]; [reflexivity|].
  cbn [forallb] in H. apply Bool.andb_true_iff in H. destruct H as [Hp Hps]. apply N.leb_le in Hp.
  change c_RICE_MAX_RICE_PARAMETER with 14 in Hp.
  rewrite forallb_app, part_ops_wf, IH by assumption.
  cbn [wf_op].
  assert (A : p <? 2 ^ 8 = true) by (apply N.ltb_lt; change (2 ^ 8) with 256; lia).
  rewrite A. reflexivity.
Qed.

Theorem verify_residual_ops_wf r : verify_residual r = true -> forallb wf_op (residual_ops r) = true.
Proof.
  intros H. destruct (verify_residual_facts r H) as (_ & _ & _ & Hpo & _ & _ & _ & _ & Hpar & _).
  unfold residual_ops. cbn [forallb]. rewrite parts_ops_wf by assumption.
  cbn [wf_op].
  assert (A : r_order r <? 2 ^ 32 = true)
    by (apply N.ltb_lt; change c_RICE_MAX_PARTITION_ORDER with 15 in Hpo; change (2 ^ 32) with 4294967296; lia).
  rewrite A. reflexivity.
Qed.

(* ---------------- subframes ---------------- *)

Lemma bps_ok_range b : bps_ok b = true -> 8 <= b <= 25.
Proof.
  unfold bps_ok. change c_MIN_BITS_PER_SAMPLE with 8. change (c_MAX_BITS_PER_SAMPLE + 1) with 25.
  intros H. apply Bool.andb_true_iff in H. destruct H as [H _]. apply Bool.andb_true_iff in H. destruct H as [H1 H2].
  apply N.leb_le in H1, H2. lia.
Qed.

Lemma sample_ok_wf bps v : 1 <= bps <= 64 -> sample_ok bps v = true -> wf_op (OTwoc v bps) = true.
Proof.
  intros Hb H. unfold sample_ok in H. apply Bool.andb_true_iff in H. destruct H as [H1 H2].
  apply Z.leb_le in H1. apply Z.ltb_lt in H2.
  assert (Hpow : (2 ^ (Z.of_N bps - 1) <= 2 ^ 63)%Z) by (apply Z.pow_le_mono_r; lia).
  cbn [wf_op]. repeat (apply Bool.andb_true_iff; split).
  - apply N.leb_le. lia.
  - apply N.leb_le. lia.
  - apply Z.leb_le. lia.
  - apply Z.ltb_lt. lia.
Qed.

Lemma twoc_ops_wf bps l : 1 <= bps <= 64 -> forallb (sample_ok bps) l = true -> forallb wf_op (twoc_ops bps l) = true.
Proof.
  intros Hb. induction l as [|x t IH]; cbn [twoc_ops map forallb]; intros H; [reflexivity|].
  apply Bool.andb_true_iff in H. destruct H as [Hx Ht].
  fold (twoc_ops bps t). rewrite IH by assumption. rewrite (sample_ok_wf bps x Hb Hx). reflexivity.
Qed.

(* capacities the Rust types enforce: heapless::Vec<i32, 4> for the fixed predictor's warm-up, and
   Lpc::from_parts's invariant warm_up.len() == parameters.order() *)
Definition sub_typed (s : subframe) : Prop :=
  match s with
  | SFixed warm _ _ => (length warm <= 4)%nat
  | SLpc warm q _ _ => length (q_coefs q) = length warm
  | _ => True
  end.

Lemma verify_qparams_facts q : verify_qparams q = true ->
  q_order q <= 24 /\ (0 <= q_shift q <= 15)%Z /\ 1 <= q_precision q <= 15 /\ forallb (sample_ok (q_precision q)) (q_coefs q) = true.
Proof.
  unfold verify_qparams. change c_QLPC_MAX_ORDER with 24. change (Z.of_N c_QLPC_MIN_SHIFT) with 0%Z.
  change (Z.of_N c_QLPC_MAX_SHIFT) with 15%Z. change c_QLPC_MAX_PRECISION with 15.
  intros H. rewrite !Bool.andb_true_iff in H. destruct H as ((((Ho & Hs1 & Hs2) & Hp1) & Hp2) & Hc).
  apply N.leb_le in Ho, Hp1, Hp2. apply Z.leb_le in Hs1, Hs2. repeat split; assumption.
Qed.

Theorem verify_subframe_shape s :
  sub_typed s -> verify_subframe s = true -> sub_shape s /\ forallb wf_op (subframe_ops s) = true.
Proof.
  destruct s as [blk dc bps | xs bps | warm res bps | warm qp res bps];
    cbn [sub_typed verify_subframe sub_shape subframe_ops]; intros Ht H.
  - split; [exact I|]. rewrite !Bool.andb_true_iff in H. destruct H as ((Hb & Hbps) & Hdc). pose proof (bps_ok_range _ Hbps).
    cbn [forallb]. rewrite (sample_ok_wf bps dc) by (assumption || lia). reflexivity.
  - split; [exact I|]. rewrite !Bool.andb_true_iff in H. destruct H as ((Hb & Hbps) & Hxs). pose proof (bps_ok_range _ Hbps).
    cbn [forallb]. rewrite twoc_ops_wf by (assumption || lia). reflexivity.
  - rewrite !Bool.andb_true_iff in H. destruct H as (((Hbps & Hwm) & Hwl) & Hres). pose proof (bps_ok_range _ Hbps).
    split; [apply verify_residual_wf; assumption|].
    cbn [forallb]. rewrite forallb_app, twoc_ops_wf, verify_residual_ops_wf by (assumption || lia).
    cbn [wf_op].
    assert (A : 16 + 2 * N.of_nat (length warm) <? 2 ^ 8 = true) by (apply N.ltb_lt; change (2 ^ 8) with 256; lia).
    rewrite A. reflexivity.
  - rewrite !Bool.andb_true_iff in H. destruct H as (((((Hq & Ho1) & Hwl) & Hbps) & Hwm) & Hres). pose proof (bps_ok_range _ Hbps).
    destruct (verify_qparams_facts qp Hq) as (Ho & Hs & Hp & Hc). unfold q_order in Ho.
    apply N.leb_le in Ho1.
    split; [split; [apply verify_residual_wf; assumption | split; [assumption | lia]]|].
    cbn [forallb]. rewrite !forallb_app, !twoc_ops_wf, verify_residual_ops_wf by (assumption || lia).
    cbn [forallb wf_op].
    assert (A : 64 + 2 * (N.of_nat (length warm) - 1) <? 2 ^ 8 = true) by (apply N.ltb_lt; change (2 ^ 8) with 256; lia).
    assert (B : q_precision qp - 1 <? 2 ^ 64 = true) by (apply N.ltb_lt; change (2 ^ 64) with 18446744073709551616; lia).
    assert (C : (- 2 ^ 63 <=? q_shift qp)%Z = true) by (apply Z.leb_le; lia).
    assert (D : (q_shift qp <? 2 ^ 63)%Z = true) by (apply Z.ltb_lt; lia).
    rewrite A, B, C, D. reflexivity.
Qed.

Corollary subframe_ctor_serialises :
  forall s, sub_typed s -> verify_subframe s = true ->
  forall k, exists snk, run k (subframe_ops s) = Ok snk /\ blen snk = subframe_count_bits s.
Proof.
  intros s Ht Hv k. destruct (verify_subframe_shape s Ht Hv) as [Hs Hw].
  destruct (sink_len_is_ops_bits k _ Hw) as (snk & Hr & Hl). exists snk. split; [exact Hr|].
  rewrite Hl, ops_bits_len. apply subframe_count_bits_correct. exact Hs.
Qed.

Corollary residual_ctor_serialises :
  forall r, verify_residual r = true ->
  forall k, exists snk, run k (residual_ops r) = Ok snk /\ blen snk = residual_count_bits r.
Proof.
  intros r Hv k. destruct (sink_len_is_ops_bits k _ (verify_residual_ops_wf r Hv)) as (snk & Hr & Hl).
  exists snk. split; [exact Hr|]. rewrite Hl, ops_bits_len. apply residual_count_bits_correct. apply verify_residual_wf. exact Hv.
Qed.

(* ---------------- the constructors, end to end ---------------- *)

Theorem residual_new_sound po block warm params q r res :
  residual_new po block warm params q r = Ok res ->
  verify_residual res = true /\
  forall k, exists snk, run k (residual_ops res) = Ok snk /\ blen snk = residual_count_bits res.
Proof.
  intros H. destruct (residual_new_verifies _ _ _ _ _ _ _ H) as [_ Hv].
  split; [exact Hv | apply residual_ctor_serialises; exact Hv].
Qed.

Definition sub_sound (s : subframe) : Prop :=
  verify_subframe s = true /\
  forall k, exists snk, run k (subframe_ops s) = Ok snk /\ blen snk = subframe_count_bits s.

Theorem subframe_ctors_sound :
  (forall block dc bps s, constant_new block dc bps = Ok s -> sub_sound s) /\
  (forall xs bps s, verbatim_new xs bps = Ok s -> sub_sound s) /\
  (forall warm res bps s, fixed_new warm res bps = Ok s -> sub_sound s) /\
  (forall warm qp res bps s, lpc_new warm qp res bps = Ok s -> sub_sound s).
Proof.
  destruct subframe_ctor_verifies as (Hc & Hvb & Hf & Hl).
  repeat split.
  - apply (Hc _ _ _ _ H).
  - destruct (Hc _ _ _ _ H) as [-> Hv]. apply subframe_ctor_serialises; [exact I | exact Hv].
  - apply (Hvb _ _ _ H).
  - destruct (Hvb _ _ _ H) as [-> Hv]. apply subframe_ctor_serialises; [exact I | exact Hv].
  - apply (Hf _ _ _ _ H).
  - destruct (Hf _ _ _ _ H) as (-> & Hv & Hlen). apply subframe_ctor_serialises; [exact Hlen | exact Hv].
  - apply (Hl _ _ _ _ _ H).
  - destruct (Hl _ _ _ _ _ H) as (-> & Hv & Hlen). apply subframe_ctor_serialises; [exact Hlen | exact Hv].
Qed.

(* the premises are satisfiable: a residual, an LPC subframe and a frame built by the constructors *)
Example ex_ctor_res : exists r, residual_new 1 8 2 [3; 0] [0; 0; 1; 0; 2; 0; 0; 5] [0; 0; 7; 1; 0; 0; 0; 0] = Ok r.
Proof. eexists. vm_compute. reflexivity. Qed.

Example ex_ctor_lpc : exists q r s,
  qparams_new [5; -3]%Z 2 4%Z 5 = Ok q /\
  residual_new 0 4 2 [2] [0; 0; 1; 0] [0; 0; 3; 1] = Ok r /\
  lpc_new [100; -100]%Z q r 16 = Ok s.
Proof. do 3 eexists. repeat split; vm_compute; reflexivity. Qed.

Example ex_ctor_rejects :
  residual_new 1 8 5 [3; 0] (repeat 0 8) (repeat 0 8) = Err E_VERIFY /\     (* warm-up longer than a partition *)
  qparams_new [5]%Z 1 4%Z 0 = Err E_VERIFY /\                               (* precision 0 *)
  qparams_new [16]%Z 1 4%Z 5 = Err E_VERIFY /\                              (* coefficient wider than the precision *)
  residual_new 0 4 0 [15] [0; 0; 1; 0] [0; 0; 3; 1] = Err E_VERIFY /\       (* parameter above 14 *)
  header_new 0 (Indep 2) 16 44100 false 0 = Err E_VERIFY.                   (* block size 0 *)
Proof. repeat split; vm_compute; reflexivity. Qed.
