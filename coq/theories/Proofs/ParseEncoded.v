(* C15 for emitted streams: the parser model on the bytes of an encoded stream returns the encoder's own
   component tree (which therefore verifies, re-serialises to the same bytes and decodes to the input). *)
From FV Require Import Generated Model.Base Model.Sink Model.Crc Model.Codes Model.Rice Model.Predict
  Model.Component Model.Flac Model.Parser Model.Ctor Model.Encoder
  Proofs.SinkArith Proofs.OpsLen Proofs.Utf8P Proofs.BitRead Proofs.BitWrite Proofs.CtorP
  Proofs.ParseResidual Proofs.ParseSubframe Proofs.CountBits Proofs.Lossless Proofs.DecodeFrame Proofs.EncodeFrameE2E
  Proofs.EncoderSize Proofs.StreamInfoP
  Proofs.StreamBytes Proofs.StreamLists Proofs.DecodeStream Proofs.ParseFrame Proofs.ParseFrameCtor Proofs.ParseStream.
Local Open Scope N_scope.

Lemma utf8like_bytesize_le7 v : v < 2 ^ 36 -> utf8like_bytesize v <= 7.
Proof.
  intros H. unfold utf8like_bytesize, code_bits.
  assert (Hs : N.size v <= 36).
  { destruct (N.eq_dec v 0) as [->|Hnz]; [cbn; lia|]. destruct (size_bounds v Hnz) as [Hlo _].
    destruct (N.le_gt_cases (N.size v) 36) as [?|Hgt]; [assumption|]. exfalso.
    assert (2 ^ 36 <= 2 ^ (N.size v - 1)) by (apply N.pow_le_mono_r; lia). lia. }
  destruct (N.leb_spec (N.size v) 7); [lia|].
  assert ((N.size v - 2) / 5 <= 6); [|lia].
  apply N.lt_succ_r. apply N.div_lt_upper_bound; lia.
Qed.

(* ---- from the facts the frame theorem exposes to the parser's notion of a canonical frame ---- *)
Lemma nth_flac_bpss cha ctag bps i b :
  chassign_tag cha = Ok ctag -> nth_error (flac_bpss ctag bps) i = Some b -> b = bps + bps_offset cha (N.of_nat i).
Proof.
  intros Hc Hn. destruct cha as [k| | |]; cbn [chassign_tag] in Hc.
  - destruct (N.ltb_spec 8 k); [discriminate|]. destruct (N.eqb_spec k 0); [discriminate|]. apply Ok_inj in Hc. subst ctag.
    unfold flac_bpss in Hn. destruct (N.leb_spec (k - 1) 7); [|lia].
    apply nth_error_In in Hn. apply repeat_spec in Hn. subst b. cbn [bps_offset]. lia.
  - apply Ok_inj in Hc. subst ctag. cbn in Hn. destruct i as [|[|i]]; cbn in Hn; inversion Hn; subst; cbn; try lia. destruct i; discriminate.
  - apply Ok_inj in Hc. subst ctag. cbn in Hn. destruct i as [|[|i]]; cbn in Hn; inversion Hn; subst; cbn; try lia. destruct i; discriminate.
  - apply Ok_inj in Hc. subst ctag. cbn in Hn. destruct i as [|[|i]]; cbn in Hn; inversion Hn; subst; cbn; try lia. destruct i; discriminate.
Qed.

Lemma Forall2_nth {A B} (P : A -> B -> Prop) : forall l1 l2, Forall2 P l1 l2 ->
  forall i a, nth_error l1 i = Some a -> exists b, nth_error l2 i = Some b /\ P a b.
Proof.
  induction 1 as [|x y l1 l2 Hxy _ IH]; intros i a Hi; [destruct i; discriminate|].
  destruct i as [|i]; cbn [nth_error] in *; [inversion Hi; subst; eexists; split; [reflexivity | exact Hxy] | exact (IH i a Hi)].
Qed.

Lemma ready_to_canon rate bps cha n number h subs ctag channels :
  mk_header rate bps cha (N.of_nat n) number = Ok h -> chassign_tag cha = Ok ctag ->
  Forall2 (sub_ready (N.of_nat n)) subs (flac_bpss ctag bps) -> nch_of ctag = channels ->
  In bps [8; 12; 16; 20; 24] -> (1 <= n)%nat -> N.of_nat n <= c_MAX_BLOCK_SIZE -> number < 2 ^ 31 ->
  frame_canon channels bps (mkFrame h subs None).
Proof.
  intros Eh Hc Hsubs Hnch Hbps Hn1 Hn Hnum. change c_MAX_BLOCK_SIZE with 32767 in Hn.
  unfold mk_header in Eh. rewrite (N.mod_small (N.of_nat n) (2 ^ 16)) in Eh by (change (2 ^ 16) with 65536; lia).
  destruct (block_size_code (N.of_nat n)) as [bc| |] eqn:Ebc; cbn [bind] in Eh; try discriminate.
  apply Ok_inj in Eh. subst h.
  assert (Hss : bits_of_ss_tag (sample_size_tag (bps mod 256)) = Some bps /\ sample_size_tag (bps mod 256) < 8).
  { cbn [In] in Hbps. destruct Hbps as [<-|[<-|[<-|[<-|[<-|[]]]]]]; split; reflexivity. }
  destruct Hss as [Hss1 Hss2].
  assert (Hcc : chassign_channels cha = channels /\ verify_chassign cha = true).
  { unfold nch_of in Hnch. destruct cha as [k| | |]; cbn [chassign_tag chassign_channels verify_chassign] in *.
    - destruct (N.ltb_spec 8 k); [discriminate|]. destruct (N.eqb_spec k 0); [discriminate|]. apply Ok_inj in Hc. subst ctag.
      destruct (N.leb_spec (k - 1) 7); [|lia]. split; [lia|]. apply Bool.andb_true_iff. split; apply N.leb_le; change c_MAX_CHANNELS with 8; lia.
    - apply Ok_inj in Hc. subst ctag. cbn in Hnch. split; [exact Hnch | reflexivity].
    - apply Ok_inj in Hc. subst ctag. cbn in Hnch. split; [exact Hnch | reflexivity].
    - apply Ok_inj in Hc. subst ctag. cbn in Hnch. split; [exact Hnch | reflexivity]. }
  destruct Hcc as [Hcc Hvc].
  unfold frame_canon. cbn [f_precomputed f_header f_subframes h_ch h_block].
  split; [reflexivity|]. split.
  - constructor; cbn [h_block h_bs h_sr h_ss_tag h_number h_variable h_ch].
    + exact Ebc.
    + lia.
    + exists (rate mod 2 ^ 32). split; [apply N.mod_upper_bound; apply pow2_nz | reflexivity].
    + exact Hss2.
    + rewrite Hss1. reflexivity.
    + change (2 ^ 31) with 2147483648 in Hnum. change (2 ^ 36) with 68719476736. lia.
    + intros _. change (2 ^ 31) with 2147483648 in Hnum. change (2 ^ 32) with 4294967296. lia.
    + exact Hvc.
  - split; [exact Hcc|]. split.
    + rewrite (Forall2_len _ _ _ Hsubs). rewrite <- Hnch. unfold flac_bpss, nch_of.
      destruct (N.leb_spec ctag 7); [rewrite repeat_length; lia|]. destruct (ctag =? 9); reflexivity.
    + intros i s Hi. destruct (Forall2_nth _ _ _ Hsubs i s Hi) as (b & Hb & (A & B & C & D & _ & F)).
      rewrite (nth_flac_bpss cha ctag bps i b Hc Hb) in B. repeat split; assumption.
Qed.

Section Encoded.
  Variable ent : N -> N -> N -> N.
  Variable qlpc : N -> N -> qparams.

  Lemma frame_channels_lengths channels (b : list Z) n :
    1 <= channels -> length b = (n * N.to_nat channels)%nat ->
    Forall (fun c => length c = n) (frame_channels channels b).
  Proof.
    intros Hc Hl. unfold frame_channels. apply Forall_forall. intros c Hin.
    apply in_map_iff in Hin. destruct Hin as (k & <- & Hk). apply in_map_iff in Hk. destruct Hk as (j & <- & Hj). apply in_seq in Hj.
    unfold channel_samples. rewrite Nat2N.id. apply deint_length; [lia | exact Hl | rewrite Hl; nia].
  Qed.

  Lemma sum_verbatim_le bps n : forall chs, Forall (fun c : list Z => length c = n) chs ->
    sumN (map (fun c => verbatim_bits c bps) chs) <= N.of_nat (length chs) * (8 + N.of_nat n * bps).
  Proof.
    induction 1 as [|c r Hc _ IH]; [cbn; lia|]. cbn [map sumN fold_right length].
    fold (sumN (map (fun c => verbatim_bits c bps) r)). unfold verbatim_bits at 1. rewrite Hc. lia.
  Qed.

  Lemma encoded_frame_canon cfg rate channels bps fi b f n :
    encode_frame ent qlpc cfg rate channels bps fi fi b = Ok f ->
    cfg_max_parameter cfg <= 14 -> In bps [8; 12; 16; 20; 24] -> rate < 2 ^ 32 -> 1 <= channels <= 8 -> fi < 2 ^ 31 ->
    (1 <= n)%nat -> N.of_nat n <= c_MAX_BLOCK_SIZE -> length b = (n * N.to_nat channels)%nat ->
    block_hyps qlpc cfg fi channels bps b n -> samples_ok bps b = true ->
    frame_canon channels bps f /\ frame_size_field f < 2 ^ 24 /\ frame_count_bits f / 8 < 2 ^ 24.
  Proof.
    intros E Hmp Hbps Hrate Hch Hfi Hn1 Hn Hlen Hblk Hso.
    destruct (samples_ok_chans bps channels b Hbps Hso) as [Hbound Hrange].
    assert (Hnum : fi < 2 ^ 36) by (change (2 ^ 31) with 2147483648 in Hfi; change (2 ^ 36) with 68719476736; lia).
    destruct (frame_end_to_end_full ent qlpc cfg rate channels bps fi fi b f (mkSinfo 0 0 0 0 rate 0 bps 0 []) n
                E Hmp Hbps Hrate Hch Hnum Hn1 Hn Hblk Hbound Hrange eq_refl eq_refl)
      as (ctag & Hct & Hpre & ((cha & Eh & Hc) & Hsubs) & Hwfb & _).
    pose proof (encode_frame_nch ent qlpc cfg rate channels bps fi fi b f ctag E Hch Hct) as Hnch.
    assert (Ef : f = mkFrame (f_header f) (f_subframes f) None) by (destruct f; cbn in *; subst; reflexivity).
    split.
    - rewrite Ef. exact (ready_to_canon rate bps cha n fi _ _ ctag channels Eh Hc Hsubs Hnch Hbps Hn1 Hn Hfi).
    - (* size *)
      pose proof (frame_channels_lengths channels b n ltac:(lia) Hlen) as Hlens.
      assert (Hne : Forall (fun c : list Z => c <> []) (frame_channels channels b)).
      { eapply Forall_impl; [|exact Hlens]. intros c Hc0 ->. cbn in Hc0. lia. }
      destruct (encode_frame_le_verbatim ent qlpc cfg rate channels bps fi fi b f E Hne) as [_ Hle].
      pose proof (sum_verbatim_le bps n _ Hlens) as Hsum.
      assert (Hcnt : N.of_nat (length (frame_channels channels b)) = channels).
      { unfold frame_channels. rewrite !map_length, seq_length. lia. }
      rewrite Hcnt in Hsum.
      pose proof (frame_bits_le f Hpre) as Hfb.
      assert (Hhdr : header_count_bits (f_header f) <= 128).
      { unfold mk_header in Eh. destruct (block_size_code (N.of_nat n mod 2 ^ 16)) as [bc| |] eqn:Ebc; cbn [bind] in Eh; try discriminate.
        apply Ok_inj in Eh. rewrite <- Eh. unfold header_count_bits. cbn [h_number h_bs h_sr].
        change c_MAX_BLOCK_SIZE with 32767 in Hn.
        rewrite (N.mod_small (N.of_nat n) (2 ^ 16)) in Ebc by (change (2 ^ 16) with 65536; lia).
        destruct (block_code_wf _ _ Ebc ltac:(lia)) as [_ A].
        destruct (rate_code_wf (rate mod 2 ^ 32) ltac:(apply N.mod_upper_bound; apply pow2_nz)) as [_ B].
        pose proof (utf8like_bytesize_le7 fi Hnum). lia. }
      assert (Hb24 : bps <= 24) by (cbn [In] in Hbps; destruct Hbps as [<-|[<-|[<-|[<-|[<-|[]]]]]]; lia).
      change c_MAX_BLOCK_SIZE with 32767 in Hn.
      assert (Hbits : frame_count_bits f <= 6291479).
      { assert (channels * (8 + N.of_nat n * bps) <= 8 * (8 + 32767 * 24)) by nia. lia. }
      unfold frame_size_field.
      assert (frame_count_bits f / 8 <= 786434).
      { apply N.lt_succ_r. apply N.div_lt_upper_bound; lia. }
      rewrite N.mod_small by (change (2 ^ 32) with 4294967296; lia). change (2 ^ 24) with 16777216. split; lia.
  Qed.

  Lemma encoded_frame_verifies cfg rate channels bps fi b f n :
    encode_frame ent qlpc cfg rate channels bps fi fi b = Ok f ->
    cfg_max_parameter cfg <= 14 -> In bps [8; 12; 16; 20; 24] -> rate < 2 ^ 32 -> 1 <= channels <= 8 -> fi < 2 ^ 31 ->
    (1 <= n)%nat -> N.of_nat n <= c_MAX_BLOCK_SIZE -> length b = (n * N.to_nat channels)%nat ->
    block_hyps qlpc cfg fi channels bps b n -> samples_ok bps b = true ->
    verify_frame f = true.
  Proof.
    intros E Hmp Hbps Hrate Hch Hfi Hn1 Hn Hlen Hblk Hso.
    destruct (encoded_frame_canon cfg rate channels bps fi b f n E Hmp Hbps Hrate Hch Hfi Hn1 Hn Hlen Hblk Hso) as [Hc _].
    apply (canonical_frame_verifies f channels bps Hc).
    destruct (samples_ok_chans bps channels b Hbps Hso) as [Hbound Hrange].
    assert (Hnum : fi < 2 ^ 36) by (change (2 ^ 31) with 2147483648 in Hfi; change (2 ^ 36) with 68719476736; lia).
    destruct (frame_end_to_end_full ent qlpc cfg rate channels bps fi fi b f (mkSinfo 0 0 0 0 rate 0 bps 0 []) n
                E Hmp Hbps Hrate Hch Hnum Hn1 Hn Hblk Hbound Hrange eq_refl eq_refl)
      as (ctag & _ & _ & ((cha & Eh & _) & _) & _ & _).
    unfold mk_header in Eh. destruct (block_size_code _) as [bc| |]; cbn [bind] in Eh; try discriminate.
    apply Ok_inj in Eh. rewrite <- Eh. cbn [h_block]. exact Hn.
  Qed.

  Lemma encoded_blocks_verify cfg rate channels bps :
    cfg_max_parameter cfg <= 14 -> In bps [8; 12; 16; 20; 24] -> rate < 2 ^ 32 -> 1 <= channels <= 8 ->
    forall blocks fi frames,
    encode_blocks ent qlpc cfg rate channels bps fi blocks = Ok frames ->
    blocks_hyps qlpc cfg channels bps fi blocks ->
    Forall (fun f => verify_frame f = true) frames.
  Proof.
    intros Hmp Hbps Hrate Hch. induction blocks as [|b br IH]; intros fi frames E Hh.
    - cbn [encode_blocks] in E. apply Ok_inj in E. subst frames. constructor.
    - cbn [encode_blocks] in E. destruct Hh as [(n & Hn1 & Hn & Hlen & Hblk) Hr].
      destruct (encode_fixed_size_frame ent qlpc cfg rate channels bps fi fi b) as [f| |] eqn:Ef; cbn [bind] in E; try discriminate.
      destruct (encode_blocks ent qlpc cfg rate channels bps (fi + 1) br) as [fs| |] eqn:Efs; cbn [bind] in E; try discriminate.
      apply Ok_inj in E. subst frames. constructor; [|exact (IH _ _ Efs Hr)].
      unfold encode_fixed_size_frame in Ef.
      destruct (N.leb_spec (2 ^ 31) fi) as [?|Hfi]; [discriminate|].
      destruct (samples_ok bps b) eqn:Hso; cbn [negb] in Ef; [|discriminate].
      exact (encoded_frame_verifies cfg rate channels bps fi b f n Ef Hmp Hbps Hrate Hch Hfi Hn1 Hn Hlen Hblk Hso).
  Qed.

  Lemma encoded_blocks_canon cfg rate channels bps :
    cfg_max_parameter cfg <= 14 -> In bps [8; 12; 16; 20; 24] -> rate < 2 ^ 32 -> 1 <= channels <= 8 ->
    forall blocks fi frames,
    encode_blocks ent qlpc cfg rate channels bps fi blocks = Ok frames ->
    blocks_hyps qlpc cfg channels bps fi blocks ->
    Forall (fun f => frame_canon channels bps f /\ frame_size_field f < 2 ^ 24 /\ frame_count_bits f / 8 < 2 ^ 24) frames.
  Proof.
    intros Hmp Hbps Hrate Hch. induction blocks as [|b br IH]; intros fi frames E Hh.
    - cbn [encode_blocks] in E. apply Ok_inj in E. subst frames. constructor.
    - cbn [encode_blocks] in E. destruct Hh as [(n & Hn1 & Hn & Hlen & Hblk) Hr].
      destruct (encode_fixed_size_frame ent qlpc cfg rate channels bps fi fi b) as [f| |] eqn:Ef; cbn [bind] in E; try discriminate.
      destruct (encode_blocks ent qlpc cfg rate channels bps (fi + 1) br) as [fs| |] eqn:Efs; cbn [bind] in E; try discriminate.
      apply Ok_inj in E. subst frames. constructor; [|exact (IH _ _ Efs Hr)].
      unfold encode_fixed_size_frame in Ef.
      destruct (N.leb_spec (2 ^ 31) fi) as [?|Hfi]; [discriminate|].
      destruct (samples_ok bps b) eqn:Hso; cbn [negb] in Ef; [|discriminate].
      exact (encoded_frame_canon cfg rate channels bps fi b f n Ef Hmp Hbps Hrate Hch Hfi Hn1 Hn Hlen Hblk Hso).
  Qed.
End Encoded.

Section EncodedStream.
  Variable ent : N -> N -> N -> N.
  Variable qlpc : N -> N -> qparams.
  Variable md5 : list N -> list N.

  Lemma encoded_stream_canon cfg rate channels bps bs samples s (total : nat) :
    encode_stream ent qlpc md5 cfg rate channels bps bs samples = Ok s ->
    cfg_max_parameter cfg <= 14 -> In bps [8; 12; 16; 20; 24] -> rate <= 96000 -> 1 <= channels <= 8 ->
    1 <= bs <= c_MAX_BLOCK_SIZE ->
    length samples = (total * N.to_nat channels)%nat -> N.of_nat total < 2 ^ 36 ->
    length (md5 (md5_input bps samples)) = 16%nat -> Forall lt256 (md5 (md5_input bps samples)) ->
    (forall j b, nth_error (chunks (N.to_nat (bs * channels)) samples) j = Some b ->
                 block_hyps qlpc cfg (N.of_nat j) channels bps b (length b / N.to_nat channels)) ->
    info_canon (s_info s) /\ Forall meta_ok (s_meta s) /\ si_bps (s_info s) <= c_MAX_BITS_PER_SAMPLE /\
    Forall (frame_canon (si_channels (s_info s)) (si_bps (s_info s))) (s_frames s).
  Proof.
    intros E Hmp Hbps Hrate Hch Hbs Hlen Htot Hml Hm256 Hblocks.
    pose proof (streaminfo_of_encoded ent qlpc md5 cfg rate channels bps bs samples s E) as Hsi. cbv zeta in Hsi.
    destruct Hsi as (Sr & Sc & Sb & St & Sm & Smax & Smin & Sfr).
    set (c := N.to_nat channels) in *. set (bsn := N.to_nat bs).
    assert (Hk : N.to_nat (bs * channels) = (bsn * c)%nat) by (unfold bsn, c; lia).
    unfold encode_stream in E. rewrite Hk in E, Hblocks.
    set (blocks := chunks (bsn * c) samples) in *.
    assert (Hchunked : chunked (bsn * c) c blocks).
    { apply (chunks_chunked (bsn * c) c bsn samples total); [unfold bsn, c; nia | reflexivity | exact Hlen]. }
    destruct (encode_blocks ent qlpc cfg rate channels bps 0 blocks) as [frames| |] eqn:Ebl; cbn [bind] in E; try discriminate.
    assert (Hbsn : N.of_nat bsn = bs) by (unfold bsn; lia).
    assert (Hhyps : blocks_hyps qlpc cfg channels bps 0 blocks).
    { apply (blocks_hyps_of_nth qlpc cfg channels bps bsn); [lia | unfold bsn; lia | rewrite Hbsn; lia | exact Hchunked | exact Hblocks]. }
    assert (Hr32 : rate < 2 ^ 32) by (change (2 ^ 32) with 4294967296; lia).
    pose proof (encoded_blocks_canon ent qlpc cfg rate channels bps Hmp Hbps Hr32 Hch blocks 0 frames Ebl Hhyps) as Hcanon.
    assert (Hfr : s_frames s = frames) by (apply Ok_inj in E; subst s; reflexivity).
    assert (Hmt : s_meta s = []) by (apply Ok_inj in E; subst s; reflexivity).
    assert (Hmn : si_min_frame (s_info s) = si_min_frame (fold_left update_info frames (init_info rate channels bps bs))
                  /\ si_max_frame (s_info s) = si_max_frame (fold_left update_info frames (init_info rate channels bps bs)))
      by (apply Ok_inj in E; subst s; split; reflexivity).
    clear E.
    assert (Htotal : si_total (s_info s) = N.of_nat total).
    { rewrite St, Hlen, Nat2N.inj_mul. unfold c. rewrite N2Nat.id. apply N.div_mul. lia. }
    split; [|split; [|split]].
    - change c_MAX_BLOCK_SIZE with 32767 in Hbs. constructor.
      + right. rewrite Smin, Smax. lia.
      + rewrite Hfr in Sfr. destruct frames as [|f0 fr] eqn:Efr.
        * left. destruct Hmn as [H1 H2]. rewrite H1, H2. cbn [fold_left init_info si_min_frame si_max_frame]. split; reflexivity.
        * right. destruct (Sfr ltac:(discriminate)) as (Hmin & Hmax & Hall).
          apply in_map_iff in Hmin. destruct Hmin as (fa & Ea & Hina). apply in_map_iff in Hmax. destruct Hmax as (fb & Eb' & Hinb).
          split.
          -- rewrite <- Ea. apply (Hall fa Hina).
          -- rewrite <- Eb'. rewrite Forall_forall in Hcanon. apply (Hcanon fb Hinb).
      + rewrite Sr. exact Hrate.
      + rewrite Sc. exact Hch.
      + rewrite Sb. cbn [In] in Hbps. destruct Hbps as [<-|[<-|[<-|[<-|[<-|[]]]]]]; (split; [lia | left; reflexivity]).
      + rewrite Htotal. exact Htot.
      + rewrite Sm. exact Hml.
      + rewrite Sm. exact Hm256.
    - rewrite Hmt. constructor.
    - rewrite Sb. change c_MAX_BITS_PER_SAMPLE with 24. cbn [In] in Hbps. destruct Hbps as [<-|[<-|[<-|[<-|[<-|[]]]]]]; lia.
    - rewrite Sc, Sb, Hfr. eapply Forall_impl; [|exact Hcanon]. intros f [A _]. exact A.
  Qed.

  Theorem encoded_stream_parses_back cfg rate channels bps bs samples s bytes (total : nat) :
    encode_stream ent qlpc md5 cfg rate channels bps bs samples = Ok s -> stream_bytes s = Ok bytes ->
    cfg_max_parameter cfg <= 14 -> In bps [8; 12; 16; 20; 24] -> rate <= 96000 -> 1 <= channels <= 8 ->
    1 <= bs <= c_MAX_BLOCK_SIZE ->
    length samples = (total * N.to_nat channels)%nat -> N.of_nat total < 2 ^ 36 ->
    length (md5 (md5_input bps samples)) = 16%nat -> Forall lt256 (md5 (md5_input bps samples)) ->
    (forall j b, nth_error (chunks (N.to_nat (bs * channels)) samples) j = Some b ->
                 block_hyps qlpc cfg (N.of_nat j) channels bps b (length b / N.to_nat channels)) ->
    parse_stream bytes = Some s.
  Proof.
    intros E Eb Hmp Hbps Hrate Hch Hbs Hlen Htot Hml Hm256 Hblocks.
    destruct (encoded_stream_canon cfg rate channels bps bs samples s total E Hmp Hbps Hrate Hch Hbs Hlen Htot Hml Hm256 Hblocks)
      as (A & B & C & D).
    exact (stream_parses_back s bytes A B C D Eb).
  Qed.

  (* the tree the parser returns for an emitted stream (= the encoder's own, by the theorem above) verifies *)
  Theorem encoded_stream_verifies cfg rate channels bps bs samples s (total : nat) :
    encode_stream ent qlpc md5 cfg rate channels bps bs samples = Ok s ->
    cfg_max_parameter cfg <= 14 -> In bps [8; 12; 16; 20; 24] -> rate <= 96000 -> 1 <= channels <= 8 ->
    1 <= bs <= c_MAX_BLOCK_SIZE ->
    length samples = (total * N.to_nat channels)%nat ->
    (forall j b, nth_error (chunks (N.to_nat (bs * channels)) samples) j = Some b ->
                 block_hyps qlpc cfg (N.of_nat j) channels bps b (length b / N.to_nat channels)) ->
    verify_streaminfo (s_info s) = true /\ Forall (fun f => verify_frame f = true) (s_frames s).
  Proof.
    intros E Hmp Hbps Hrate Hch Hbs Hlen Hblocks.
    pose proof (streaminfo_of_encoded ent qlpc md5 cfg rate channels bps bs samples s E) as Hsi. cbv zeta in Hsi.
    destruct Hsi as (Sr & Sc & Sb & St & Sm & Smax & Smin & Sfr).
    set (c := N.to_nat channels) in *. set (bsn := N.to_nat bs).
    assert (Hk : N.to_nat (bs * channels) = (bsn * c)%nat) by (unfold bsn, c; lia).
    unfold encode_stream in E. rewrite Hk in E, Hblocks.
    set (blocks := chunks (bsn * c) samples) in *.
    assert (Hchunked : chunked (bsn * c) c blocks).
    { apply (chunks_chunked (bsn * c) c bsn samples total); [unfold bsn, c; nia | reflexivity | exact Hlen]. }
    destruct (encode_blocks ent qlpc cfg rate channels bps 0 blocks) as [frames| |] eqn:Ebl; cbn [bind] in E; try discriminate.
    assert (Hbsn : N.of_nat bsn = bs) by (unfold bsn; lia).
    assert (Hhyps : blocks_hyps qlpc cfg channels bps 0 blocks).
    { apply (blocks_hyps_of_nth qlpc cfg channels bps bsn); [lia | unfold bsn; lia | rewrite Hbsn; lia | exact Hchunked | exact Hblocks]. }
    assert (Hr32 : rate < 2 ^ 32) by (change (2 ^ 32) with 4294967296; lia).
    pose proof (encoded_blocks_verify ent qlpc cfg rate channels bps Hmp Hbps Hr32 Hch blocks 0 frames Ebl Hhyps) as Hver.
    assert (Hfr : s_frames s = frames) by (apply Ok_inj in E; subst s; reflexivity).
    clear E. split; [|rewrite Hfr; exact Hver].
    unfold verify_streaminfo. rewrite Sr, Sc, Sb, Smin, Smax.
    assert (A : (rate <=? 96000) = true) by (apply N.leb_le; exact Hrate).
    assert (B : (1 <=? channels) = true) by (apply N.leb_le; lia).
    assert (C : (channels <=? 8) = true) by (apply N.leb_le; lia).
    assert (D : bps_ok bps = true) by (cbn [In] in Hbps; destruct Hbps as [<-|[<-|[<-|[<-|[<-|[]]]]]]; reflexivity).
    rewrite A, B, C, D, !Bool.andb_true_r.
    rewrite Hfr in Sfr. destruct frames as [|f0 fr] eqn:Efr.
    - (* no frame: no block, no sample *)
      assert (Hs0 : samples = []).
      { assert (Hb0 : blocks = []).
        { destruct blocks as [|b0 br]; [reflexivity|]. cbn [encode_blocks] in Ebl.
          destruct (encode_fixed_size_frame _ _ _ _ _ _ _ _ b0) ; cbn [bind] in Ebl; try discriminate.
          destruct (encode_blocks _ _ _ _ _ _ _ br); cbn [bind] in Ebl; discriminate. }
        rewrite <- (chunks_concat (bsn * c) samples ltac:(unfold bsn, c; nia)). fold blocks. rewrite Hb0. reflexivity. }
      rewrite St, Hs0. cbn [length]. rewrite N.div_0_l by lia. reflexivity.
    - destruct (Sfr ltac:(discriminate)) as (Hmin & Hmax & Hall).
      apply in_map_iff in Hmin. destruct Hmin as (fa & Ea & Hina).
      apply Bool.orb_true_iff. right. unfold block_ok. change c_MAX_BLOCK_SIZE with 32767 in *.
      assert (X1 : (bs <=? bs) = true) by (apply N.leb_le; lia).
      assert (X2 : (bs <=? 32767) = true) by (apply N.leb_le; lia).
      assert (X3 : (si_min_frame (s_info s) <=? si_max_frame (s_info s)) = true).
      { apply N.leb_le. rewrite <- Ea. apply (Hall fa Hina). }
      rewrite X1, X2, X3. reflexivity.
  Qed.
End EncodedStream.
