(* C01, semantic level: every subframe the encoder model can return reconstructs, with the
   decoder-side recurrences of RFC 9639, exactly the samples it was made from; the stereo
   transforms are inverted by the RFC recombination. *)
From FV Require Import Generated Model.Base Model.Codes Model.Rice Model.Predict Model.Component
  Model.Encoder Model.Flac Proofs.SinkArith Proofs.RiceFind.
Local Open Scope Z_scope.

(* ---- sign folding and quotient/remainder ---- *)

Lemma unzigzag_zigzag v : unzigzag (zigzag v) = v.
Proof.
  unfold zigzag, unzigzag.
  destruct (Z.ltb_spec v 0) as [Hn|Hp].
  - assert (E : Z.to_N (2 * - v - 1) = (1 + 2 * Z.to_N (- v - 1))%N) by lia.
    rewrite E. rewrite N.odd_add_mul_2. change (N.odd 1) with true. cbv iota.
    replace (1 + 2 * Z.to_N (- v - 1))%N with (2 * Z.to_N (- v - 1) + 1)%N by lia.
    replace ((2 * Z.to_N (- v - 1) + 1) / 2)%N with (Z.to_N (- v - 1)).
    + lia.
    + apply N.div_unique with (r := 1%N); lia.
  - assert (E : Z.to_N (2 * v) = (2 * Z.to_N v)%N) by lia.
    rewrite E. rewrite N.odd_mul, Bool.andb_false_l.
    rewrite N.mul_comm, N.div_mul by lia. lia.
Qed.

Lemma quot_rem_recombine p e :
  let '(q, r) := quot_rem p e in (q * 2 ^ p + r)%N = zigzag e.
Proof.
  unfold quot_rem. rewrite DIV2_eq, MOD2_eq.
  rewrite N.mul_comm. symmetry. apply N.div_mod. apply pow2_nz.
Qed.

(* ---- fixed predictors ---- *)

Fixpoint diff_exact (prev : Z) (l : list Z) : list Z :=
  match l with
  | [] => []
  | x :: r => (x - prev) :: diff_exact x r
  end.

Definition bounded (B : Z) (l : list Z) : Prop := Forall (fun x => - B <= x <= B) l.

Lemma wrap32s_id z : -2147483648 <= z < 2147483648 -> wrap32s z = z.
Proof.
  intros H. unfold wrap32s.
  destruct (Z.leb_spec (-2147483648) z); destruct (Z.ltb_spec z 2147483648); cbn [andb]; try reflexivity; lia.
Qed.

Lemma diff_from_exact B : forall l prev,
  0 <= B -> 2 * B < 2147483648 -> - B <= prev <= B -> bounded B l ->
  diff_from prev l = diff_exact prev l /\ bounded (2 * B) (diff_exact prev l).
Proof.
  induction l as [|x r IH]; intros prev HB H2 Hp Hl; cbn [diff_from diff_exact].
  - split; [reflexivity | constructor].
  - inversion Hl as [|? ? Hx Hr]; subst.
    destruct (IH x HB H2 Hx Hr) as [E1 E2].
    rewrite wrap32s_id by lia. rewrite E1. split; [reflexivity|].
    constructor; [lia | assumption].
Qed.

(* the k-th difference computed with wrapping equals the exact one for bounded input *)
Fixpoint fixed_exact (k : nat) (l : list Z) : list Z :=
  match k with O => l | S k' => diff_exact 0 (fixed_exact k' l) end.

Lemma fixed_errors_exact B : forall k l,
  0 <= B -> 2 ^ Z.of_nat k * B < 2147483648 -> bounded B l ->
  fixed_errors k l = fixed_exact k l /\ bounded (2 ^ Z.of_nat k * B) (fixed_exact k l).
Proof.
  induction k as [|k IH]; intros l HB Hlim Hl.
  - cbn [fixed_errors fixed_exact]. split; [reflexivity|]. rewrite Z.mul_1_l. assumption.
  - cbn [fixed_errors fixed_exact]. rewrite Nat2Z.inj_succ, Z.pow_succ_r in Hlim |- * by lia.
    assert (Hp : 0 < 2 ^ Z.of_nat k) by (apply Z.pow_pos_nonneg; lia).
    destruct (IH l HB ltac:(nia) Hl) as [E1 E2].
    unfold diff1. rewrite E1.
    destruct (diff_from_exact (2 ^ Z.of_nat k * B) (fixed_exact k l) 0 ltac:(nia) ltac:(nia) ltac:(nia) E2) as [E3 E4].
    rewrite E3. split; [reflexivity|]. replace (2 * 2 ^ Z.of_nat k * B) with (2 * (2 ^ Z.of_nat k * B)) by ring.
    assumption.
Qed.

(* restore with the fixed coefficients inverts exact differencing: one lemma per order,
   generalised over the running state *)
Lemma restore0 : forall rest hist, lpc_restore_from [] 0 hist rest = rest.
Proof.
  induction rest as [|x r IH]; intros hist; cbn [lpc_restore_from dot]; [reflexivity|].
  rewrite Z.shiftr_0_r, Z.add_0_r, IH. reflexivity.
Qed.

Lemma restore1 : forall rest p tl,
  lpc_restore_from [1] 0 (p :: tl) (diff_exact p rest) = rest.
Proof.
  induction rest as [|x r IH]; intros p tl; cbn [diff_exact lpc_restore_from dot]; [reflexivity|].
  rewrite Z.shiftr_0_r. replace (x - p + (1 * p + 0)) with x by ring. rewrite IH. reflexivity.
Qed.

Lemma restore2 : forall rest p1 p2 tl,
  lpc_restore_from [2; -1] 0 (p1 :: p2 :: tl) (diff_exact (p1 - p2) (diff_exact p1 rest)) = rest.
Proof.
  induction rest as [|x r IH]; intros p1 p2 tl; cbn [diff_exact lpc_restore_from dot]; [reflexivity|].
  rewrite Z.shiftr_0_r.
  replace (x - p1 - (p1 - p2) + (2 * p1 + (-1 * p2 + 0))) with x by ring.
  rewrite (IH x p1). reflexivity.
Qed.

Lemma restore3 : forall rest p1 p2 p3 tl,
  lpc_restore_from [3; -3; 1] 0 (p1 :: p2 :: p3 :: tl)
    (diff_exact (p1 - p2 - (p2 - p3)) (diff_exact (p1 - p2) (diff_exact p1 rest))) = rest.
Proof.
  induction rest as [|x r IH]; intros p1 p2 p3 tl; cbn [diff_exact lpc_restore_from dot]; [reflexivity|].
  rewrite Z.shiftr_0_r.
  replace (x - p1 - (p1 - p2) - (p1 - p2 - (p2 - p3)) + (3 * p1 + (-3 * p2 + (1 * p3 + 0)))) with x by ring.
  rewrite (IH x p1 p2). reflexivity.
Qed.

Lemma restore4 : forall rest p1 p2 p3 p4 tl,
  lpc_restore_from [4; -6; 4; -1] 0 (p1 :: p2 :: p3 :: p4 :: tl)
    (diff_exact (p1 - p2 - (p2 - p3) - (p2 - p3 - (p3 - p4)))
       (diff_exact (p1 - p2 - (p2 - p3)) (diff_exact (p1 - p2) (diff_exact p1 rest)))) = rest.
Proof.
  induction rest as [|x r IH]; intros p1 p2 p3 p4 tl; cbn [diff_exact lpc_restore_from dot]; [reflexivity|].
  rewrite Z.shiftr_0_r.
  replace (x - p1 - (p1 - p2) - (p1 - p2 - (p2 - p3)) - (p1 - p2 - (p2 - p3) - (p2 - p3 - (p3 - p4)))
           + (4 * p1 + (-6 * p2 + (4 * p3 + (-1 * p4 + 0))))) with x by ring.
  rewrite (IH x p1 p2 p3). reflexivity.
Qed.

(* the decoder's reconstruction of a fixed-predictor subframe from warm-up + residual *)
Definition fixed_restore (k : nat) (warm res : list Z) : list Z :=
  warm ++ lpc_restore_from (fixed_coefs k) 0 (rev warm) res.

Theorem fixed_roundtrip_exact k l :
  (k <= 4)%nat -> (k <= length l)%nat ->
  fixed_restore k (firstn k l) (skipn k (fixed_exact k l)) = l.
Proof.
  intros Hk Hl. unfold fixed_restore.
  destruct k as [|[|[|[|[|k]]]]]; try lia.
  - cbn [firstn skipn fixed_exact fixed_coefs rev app]. apply restore0.
  - destruct l as [|x0 r]; [cbn in Hl; lia|].
    cbn [firstn skipn fixed_exact diff_exact fixed_coefs rev app].
    rewrite restore1. reflexivity.
  - destruct l as [|x0 [|x1 r]]; try (cbn in Hl; lia).
    cbn [firstn skipn fixed_exact diff_exact fixed_coefs rev app].
    rewrite restore2. reflexivity.
  - destruct l as [|x0 [|x1 [|x2 r]]]; try (cbn in Hl; lia).
    cbn [firstn skipn fixed_exact diff_exact fixed_coefs rev app].
    rewrite restore3. reflexivity.
  - destruct l as [|x0 [|x1 [|x2 [|x3 r]]]]; try (cbn in Hl; lia).
    cbn [firstn skipn fixed_exact diff_exact fixed_coefs rev app].
    rewrite restore4. reflexivity.
Qed.

(* for in-range audio (|x| <= 2^25 covers 24-bit samples and the 25-bit side channel) the
   encoder's wrapping differences are the exact ones, so the decoder recovers the block *)
Theorem fixed_roundtrip k l :
  (k <= 4)%nat -> (k <= length l)%nat -> bounded (2 ^ 25) l ->
  fixed_restore k (firstn k l) (skipn k (fixed_errors k l)) = l.
Proof.
  intros Hk Hl Hb.
  assert (Hlim : 2 ^ Z.of_nat k * 2 ^ 25 < 2147483648).
  { assert (2 ^ Z.of_nat k <= 2 ^ 4) by (apply Z.pow_le_mono_r; lia). lia. }
  destruct (fixed_errors_exact (2 ^ 25) k l ltac:(lia) Hlim Hb) as [E _].
  rewrite E. apply fixed_roundtrip_exact; assumption.
Qed.

(* ---- quantised LPC ---- *)

Lemma lpc_restore_errors cs sh : forall rest hist,
  lpc_restore_from cs sh hist (lpc_errors_from cs sh hist rest) = rest.
Proof.
  induction rest as [|x r IH]; intros hist; cbn [lpc_errors_from lpc_restore_from]; [reflexivity|].
  replace (x - Z.shiftr (dot cs hist) sh + Z.shiftr (dot cs hist) sh) with x by ring.
  rewrite IH. reflexivity.
Qed.

Lemma map_wrap32s_id l :
  forallb (fun e => (-2147483648 <? e) && (e <? 2147483648)) l = true -> map wrap32s l = l.
Proof.
  induction l as [|x r IH]; cbn [forallb map]; [reflexivity|].
  rewrite Bool.andb_true_iff, Bool.andb_true_iff, Z.ltb_lt, Z.ltb_lt.
  intros [[H1 H2] Hr]. rewrite wrap32s_id by lia. rewrite IH by assumption. reflexivity.
Qed.

Lemma Ok_inj' {A} (a b : A) : Ok a = Ok b -> a = b.
Proof. intros H. inversion H. reflexivity. Qed.

(* whenever the residuals are representable (the named hypothesis lpc_fits), whichever path
   compute_error takes, the decoder's recurrence restores the block *)
Theorem lpc_roundtrip q l errs :
  (length (q_coefs q) <= length l)%nat ->
  lpc_fits q l = true ->
  lpc_errors q l = Ok errs ->
  let order := length (q_coefs q) in
  firstn order l ++ lpc_restore_from (q_coefs q) (q_shift q) (rev (firstn order l)) (skipn order errs) = l.
Proof.
  intros Hlen Hfit. unfold lpc_errors, lpc_fits in *.
  set (order := length (q_coefs q)) in *.
  set (exact := lpc_errors_from (q_coefs q) (q_shift q) (rev (firstn order l)) (skipn order l)) in *.
  destruct (Z.ltb_spec (q_shift q) 0); [discriminate|].
  replace (Nat.min order (length l)) with order by lia.
  assert (Hsk : forall tail, skipn order (repeat 0 order ++ tail) = tail).
  { intros tail. rewrite skipn_app, repeat_length, Nat.sub_diag. cbn [skipn].
    rewrite skipn_all2 by (rewrite repeat_length; lia). reflexivity. }
  destruct (maxabs l * sumabs (q_coefs q) <? 2147483647).
  - intros E.
    destruct (forallb (fun e : Z => (-2147483648 <=? e) && (e <? 2147483648)) exact); [|discriminate]. apply Ok_inj' in E. rewrite <- E. cbv zeta. rewrite Hsk. unfold exact.
    rewrite lpc_restore_errors. apply firstn_skipn.
  - intros E. apply Ok_inj' in E. rewrite <- E. cbv zeta. rewrite Hsk.
    rewrite (map_wrap32s_id exact Hfit). unfold exact.
    rewrite lpc_restore_errors. apply firstn_skipn.
Qed.

(* ---- stereo ---- *)

Lemma midside_inverse l r :
  let m := mid l r in let s := side l r in
  let m' := 2 * m + s mod 2 in
  Z.shiftr (m' + s) 1 = l /\ Z.shiftr (m' - s) 1 = r.
Proof.
  unfold mid, side. cbv zeta. rewrite !Z.shiftr_div_pow2 by lia. change (2 ^ 1) with 2.
  assert (Hpar : (l - r) mod 2 = (l + r) mod 2).
  { replace (l - r) with (l + r + (- r) * 2) by ring. apply Z.mod_add. lia. }
  rewrite Hpar.
  assert (E : 2 * ((l + r) / 2) + (l + r) mod 2 = l + r) by (symmetry; apply Z.div_mod; lia).
  rewrite E. split.
  - replace (l + r + (l - r)) with (l * 2) by ring. apply Z.div_mul. lia.
  - replace (l + r - (l - r)) with (r * 2) by ring. apply Z.div_mul. lia.
Qed.

Lemma map_fst_combine {A B} : forall (a : list A) (b : list B), length a = length b -> map fst (combine a b) = a.
Proof. induction a as [|x t IH]; intros [|y u] H; cbn in H; try discriminate; [reflexivity|]. cbn. f_equal. apply IH. lia. Qed.

Lemma map_snd_combine {A B} : forall (a : list A) (b : list B), length a = length b -> map snd (combine a b) = b.
Proof. induction a as [|x t IH]; intros [|y u] H; cbn in H; try discriminate; [reflexivity|]. cbn. f_equal. apply IH. lia. Qed.

Definition ms_undo (p : Z * Z) : Z * Z :=
  let m := 2 * fst p + snd p mod 2 in (Z.shiftr (m + snd p) 1, Z.shiftr (m - snd p) 1).

Lemma ms_undo_map : forall ls rs, length ls = length rs ->
  map ms_undo (combine (map (fun lr => mid (fst lr) (snd lr)) (combine ls rs))
                       (map (fun lr => side (fst lr) (snd lr)) (combine ls rs))) = combine ls rs.
Proof.
  induction ls as [|l t IH]; intros [|r u] Hl; cbn in Hl; try discriminate; [reflexivity|].
  cbn [combine map fst snd]. rewrite IH by lia. f_equal.
  unfold ms_undo. cbn [fst snd]. destruct (midside_inverse l r) as [H1 H2]. cbv zeta in H1, H2.
  rewrite H1, H2. reflexivity.
Qed.

Lemma undo_stereo_midside ls rs :
  length ls = length rs ->
  undo_stereo 10 [map (fun lr => mid (fst lr) (snd lr)) (combine ls rs);
                  map (fun lr => side (fst lr) (snd lr)) (combine ls rs)] = Some [ls; rs].
Proof.
  intros Hl. unfold undo_stereo.
  change (10 <=? 7)%N with false. change (10 =? 8)%N with false. change (10 =? 9)%N with false. cbv iota.
  fold ms_undo. rewrite (ms_undo_map ls rs Hl).
  rewrite map_fst_combine, map_snd_combine by assumption. reflexivity.
Qed.

Lemma undo_stereo_leftside ls rs :
  length ls = length rs ->
  undo_stereo 8 [ls; map (fun lr => side (fst lr) (snd lr)) (combine ls rs)] = Some [ls; rs].
Proof.
  intros Hl. unfold undo_stereo. change (8 <=? 7)%N with false. change (8 =? 8)%N with true. cbv iota.
  do 3 f_equal.
  revert rs Hl. induction ls as [|l t IH]; intros [|r u] Hl; cbn in Hl; try discriminate; [reflexivity|].
  cbn [combine map fst snd]. unfold side at 1. f_equal; [ring|]. apply IH. lia.
Qed.

Lemma undo_stereo_rightside ls rs :
  length ls = length rs ->
  undo_stereo 9 [map (fun lr => side (fst lr) (snd lr)) (combine ls rs); rs] = Some [ls; rs].
Proof.
  intros Hl. unfold undo_stereo. change (9 <=? 7)%N with false. change (9 =? 8)%N with false.
  change (9 =? 9)%N with true. cbv iota.
  do 2 f_equal.
  revert rs Hl. induction ls as [|l t IH]; intros [|r u] Hl; cbn in Hl; try discriminate; [reflexivity|].
  cbn [combine map fst snd]. unfold side at 1. f_equal; [ring|]. apply IH. lia.
Qed.

(* ---- residual values carried by a Residual component ---- *)

Definition rice_value (pqr : N * (N * N)) : Z :=
  unzigzag (fst (snd pqr) * 2 ^ fst pqr + snd (snd pqr))%N.

Definition residual_values (r : residual) : list Z :=
  let part := N.to_nat (r_block r / 2 ^ r_order r)%N in
  map rice_value (combine (param_per_sample (r_params r) part) (combine (r_quot r) (r_rem r))).

Lemma skipn_map {A B} (f : A -> B) n l : skipn n (map f l) = map f (skipn n l).
Proof. revert l. induction n as [|n IH]; intros [|x t]; cbn [skipn map]; try reflexivity. apply IH. Qed.

Lemma skipn_combine {A B} n : forall (a : list A) (b : list B),
  skipn n (combine a b) = combine (skipn n a) (skipn n b).
Proof.
  induction n as [|n IH]; intros [|x a] [|y b]; cbn [skipn combine]; try reflexivity.
  - destruct (skipn n a); reflexivity.
  - apply IH.
Qed.

Lemma skipn_repeat_app {A} (z : A) w (l : list A) : skipn w (repeat z w ++ l) = l.
Proof.
  rewrite skipn_app, repeat_length, Nat.sub_diag. cbn [skipn].
  rewrite skipn_all2 by (rewrite repeat_length; lia). reflexivity.
Qed.

Lemma rice_values_of_quot_rem : forall (pps : list N) (errs : list Z),
  length pps = length errs ->
  let qr := map (fun pe => quot_rem (fst pe) (snd pe)) (combine pps errs) in
  map rice_value (combine pps (combine (map fst qr) (map snd qr))) = errs.
Proof.
  induction pps as [|p ps IH]; intros [|e es] Hl; cbn in Hl; try discriminate; [reflexivity|].
  cbv zeta in *. cbn [combine map fst snd]. rewrite IH by lia. f_equal.
  unfold rice_value. cbn [fst snd].
  pose proof (quot_rem_recombine p e) as H. destruct (quot_rem p e) as [q r]. cbn [fst snd].
  rewrite H. apply unzigzag_zigzag.
Qed.

Lemma param_per_sample_length ps part : length (param_per_sample ps part) = (length ps * part)%nat.
Proof.
  unfold param_per_sample. induction ps as [|p t IH]; cbn [flat_map length]; [reflexivity|].
  rewrite app_length, repeat_length, IH. lia.
Qed.

Theorem residual_values_of_encoded errs warmup pr :
  let n := length errs in
  let part := Nat.div n (Nat.pow 2 (N.to_nat (prc_order pr))) in
  (length (prc_ps pr) * part)%nat = n ->
  skipn (N.to_nat warmup) (residual_values (encode_residual_with errs warmup pr))
  = skipn (N.to_nat warmup) errs.
Proof.
  cbv zeta. intros Hn. unfold residual_values, encode_residual_with.
  cbn [r_block r_order r_params r_quot r_rem].
  assert (Hpart : N.to_nat (N.of_nat (length errs) / 2 ^ prc_order pr)
                  = Nat.div (length errs) (Nat.pow 2 (N.to_nat (prc_order pr)))).
  { rewrite N2Nat.inj_div, Nat2N.id. f_equal.
    rewrite <- (N2Nat.id (prc_order pr)) at 1. generalize (N.to_nat (prc_order pr)) as k. intros k.
    induction k as [|k IH]; [reflexivity|].
    rewrite Nat2N.inj_succ, N.pow_succ_r', N2Nat.inj_mul, IH. reflexivity. }
  rewrite Hpart.
  set (part := Nat.div (length errs) (Nat.pow 2 (N.to_nat (prc_order pr)))) in *.
  set (pps := param_per_sample (prc_ps pr) part).
  set (qr := map (fun pe => quot_rem (fst pe) (snd pe)) (combine pps errs)).
  set (w := N.to_nat warmup).
  rewrite skipn_map, !skipn_combine, !skipn_repeat_app.
  rewrite <- !skipn_combine, <- skipn_map.
  f_equal. apply rice_values_of_quot_rem.
  unfold pps. rewrite param_per_sample_length. exact Hn.
Qed.

Lemma pow2_nat_N k : N.of_nat (Nat.pow 2 k) = (2 ^ N.of_nat k)%N.
Proof.
  induction k as [|k IH]; [reflexivity|].
  rewrite Nat2N.inj_succ, N.pow_succ_r'. cbn [Nat.pow]. rewrite Nat2N.inj_mul, IH. reflexivity.
Qed.

(* the finder's parameters cover the block exactly (nat-level form of find_prc_shape) *)
Lemma find_prc_shape_nat errs warmup maxp pr :
  find_prc errs warmup maxp = Ok pr ->
  (length (prc_ps pr) * Nat.div (length errs) (Nat.pow 2 (N.to_nat (prc_order pr))))%nat = length errs.
Proof.
  intros E. destruct (find_prc_shape _ _ _ _ E) as (o' & Ho & Hlen & _ & Hdiv & _).
  rewrite Ho, Hlen, Nat2N.id.
  pose proof (pow2_nat_N o') as Hp.
  apply Nat2N.inj. rewrite Nat2N.inj_mul, Nat2N.inj_div, Hp.
  pose proof (N.div_mod (N.of_nat (length errs)) (2 ^ N.of_nat o') (pow2_nz _)) as Hd.
  rewrite Hdiv, N.add_0_r in Hd. symmetry. exact Hd.
Qed.

(* ---- decoder-side meaning of a subframe ---- *)

Definition decode_sub (s : subframe) : list Z :=
  match s with
  | SConstant blk dc _ => repeat dc (N.to_nat blk)
  | SVerbatim l _ => l
  | SFixed warm res _ =>
      fixed_restore (length warm) warm (skipn (length warm) (residual_values res))
  | SLpc warm q res _ =>
      warm ++ lpc_restore_from (q_coefs q) (q_shift q) (rev warm) (skipn (length warm) (residual_values res))
  end.

Lemma is_constant_repeat : forall l x, is_constant (x :: l) = true -> x :: l = repeat x (S (length l)).
Proof.
  induction l as [|y t IH]; intros x H; cbn [repeat length]; [reflexivity|].
  cbn [is_constant] in H. apply Bool.andb_true_iff in H. destruct H as [E H].
  apply Z.eqb_eq in E. subst y. f_equal. apply IH. exact H.
Qed.

Lemma first_min_in {A} (key : A -> N) : forall l x, first_min key l = Some x -> In x l.
Proof.
  intros [|a t] x H; cbn [first_min] in H; [discriminate|].
  inversion H; subst x. clear H.
  revert a. induction t as [|b u IH]; intros a; cbn [min_by]; [left; reflexivity|].
  destruct (key b <? key a)%N.
  - destruct (IH b) as [E|Hin]; [right; left; exact E | right; right; exact Hin].
  - destruct (IH a) as [E|Hin]; [left; exact E | right; right; exact Hin].
Qed.

Section Sub.
  Variable ent : N -> N -> N -> N.
  Variable qlpc : N -> N -> qparams.

  Lemma mapM_In {A B} (f : A -> Res B) : forall l ys y,
    mapM f l = Ok ys -> In y ys -> exists x, In x l /\ f x = Ok y.
  Proof.
    induction l as [|x r IH]; intros ys y E Hin; cbn [mapM] in E.
    - apply Ok_inj' in E. subst ys. contradiction.
    - destruct (f x) as [y0| |] eqn:Ex; cbn [bind] in E; try discriminate.
      destruct (mapM f r) as [ys'| |] eqn:Er; cbn [bind] in E; try discriminate.
      apply Ok_inj' in E. subst ys. destruct Hin as [->|Hin].
      + exists x. split; [left; reflexivity | exact Ex].
      + destruct (IH ys' y eq_refl Hin) as (x' & Hx' & Hf). exists x'. split; [right; exact Hx' | exact Hf].
  Qed.

  (* what a returned fixed candidate looks like *)
  Lemma fixed_candidate_form cfg fi var signal bps baseline sf :
    fixed_candidate ent cfg fi var signal bps baseline = Ok (Some sf) ->
    exists k pr, (k <= 4)%N /\
      find_prc (fixed_errors (N.to_nat k) signal) k (cfg_max_parameter cfg) = Ok pr /\
      sf = SFixed (firstn (N.to_nat k) signal)
                  (encode_residual_with (fixed_errors (N.to_nat k) signal) k pr) bps.
  Proof.
    unfold fixed_candidate.
    set (maxo := N.min (cfg_fixed_max_order cfg) 4).
    set (cands := map (fun k => (k, fixed_errors (N.to_nat k) signal)) (orders_upto maxo)).
    assert (Hc : forall k e, In (k, e) cands -> (k <= 4)%N /\ e = fixed_errors (N.to_nat k) signal).
    { intros k e Hin. unfold cands in Hin. apply in_map_iff in Hin. destruct Hin as (k0 & E & Hin).
      inversion E; subst. split; [|reflexivity].
      unfold orders_upto in Hin. apply in_map_iff in Hin. destruct Hin as (i & <- & Hi).
      apply in_seq in Hi. unfold maxo in Hi. lia. }
    destruct (cfg_order_sel cfg) as [parts|].
    - destruct (parts =? 0)%N; [discriminate|].
      destruct (first_min _ _) as [[[k e] bits]|] eqn:Em; [|discriminate].
      destruct (bits <? baseline)%N; [|discriminate].
      apply first_min_in in Em. apply in_map_iff in Em. destruct Em as ([k0 e0] & E & Hin).
      cbn [fst snd] in E. inversion E; subst k0 e0. destruct (Hc k e Hin) as [Hk He]. subst e.
      unfold residual_checked, encode_residual.
      destruct (forallb in_i32 _); [|discriminate].
      destruct (find_prc _ k _) as [pr| |] eqn:Ef; cbn [bind]; try discriminate.
      intros E2. apply Ok_inj' in E2. inversion E2. exists k, pr. repeat split; assumption.
    - destruct (mapM _ cands) as [scored| |] eqn:Es; cbn [bind]; try discriminate.
      destruct (first_min _ scored) as [[[[k e] pr] bits]|] eqn:Em; [|discriminate].
      destruct (bits <? baseline)%N; [|discriminate].
      intros E2. apply Ok_inj' in E2. inversion E2. subst sf. clear E2.
      apply first_min_in in Em.
      destruct (mapM_In _ _ _ _ Es Em) as ([k0 e0] & Hin & Hf).
      destruct (forallb in_i32 _); [|discriminate].
      destruct (find_prc e0 k0 _) as [pr0| |] eqn:Ef; cbn [bind] in Hf; try discriminate.
      apply Ok_inj' in Hf. inversion Hf; subst. destruct (Hc k e Hin) as [Hk He]. subst e.
      exists k, pr. repeat split; assumption.
  Qed.

  (* C01 at subframe level *)
  Theorem encode_subframe_lossless cfg fi var samples bps sf :
    encode_subframe ent qlpc cfg fi var samples bps = Ok sf ->
    bounded (2 ^ 25) samples ->
    (cfg_use_lpc cfg = true -> lpc_fits (qlpc fi var) samples = true
                               /\ (length (q_coefs (qlpc fi var)) <= length samples)%nat) ->
    decode_sub sf = samples.
  Proof.
    unfold encode_subframe. intros E Hb Hfit.
    destruct (cfg_use_constant cfg && is_constant samples) eqn:Ec.
    - destruct samples as [|x r]; [discriminate|]. apply Ok_inj' in E. subst sf. cbn [decode_sub].
      apply Bool.andb_true_iff in Ec. destruct Ec as [_ Hc].
      rewrite Nat2N.id. symmetry. apply is_constant_repeat. exact Hc.
    - set (n := N.of_nat (length samples)) in *. set (baseline := (8 + n * bps)%N) in *.
      destruct (n <? MIN_PRED)%N eqn:Eshort; cbn [negb andb] in E.
      + (* too short: verbatim *)
        cbn [bind] in E. apply Ok_inj' in E. subst sf. reflexivity.
      + assert (Hn64 : (MIN_PRED <= n)%N) by (apply N.ltb_ge; exact Eshort).
        destruct (if cfg_use_fixed cfg then if (30 <=? bps)%N then Panic 308
                                            else fixed_candidate ent cfg fi var samples bps baseline
                  else Ok None) as [fixed0| |] eqn:Ef; cbn [bind] in E; try discriminate.
        assert (Hfixed : forall x, fixed0 = Some x -> decode_sub x = samples).
        { intros x Hx. subst fixed0. destruct (cfg_use_fixed cfg); [|discriminate].
          destruct (30 <=? bps)%N; [discriminate|].
          destruct (fixed_candidate_form _ _ _ _ _ _ _ Ef) as (k & pr & Hk & Hfind & ->).
          cbn [decode_sub]. rewrite firstn_length.
          assert (Hkn : (N.to_nat k <= length samples)%nat).
          { unfold n, MIN_PRED in Hn64. assert (4 <= c_MIN_BLOCK_SIZE_FOR_PREDICTION)%N by (vm_compute; discriminate). lia. }
          replace (Nat.min (N.to_nat k) (length samples)) with (N.to_nat k) by lia.
          pose proof (find_prc_shape_nat _ _ _ _ Hfind) as Hshape.
          pose proof (residual_values_of_encoded (fixed_errors (N.to_nat k) samples) k pr Hshape) as Hrv.
          rewrite Hrv. apply fixed_roundtrip; [lia | assumption | assumption]. }
        set (fixed := match fixed0 with
                      | Some x => if (subframe_count_bits x <? baseline)%N then Some x else None
                      | None => None end) in *.
        assert (Hfixed2 : forall x, fixed = Some x -> decode_sub x = samples).
        { intros x Hx. unfold fixed in Hx. destruct fixed0 as [y|]; [|discriminate].
          destruct (subframe_count_bits y <? baseline)%N; [|discriminate].
          inversion Hx; subst. apply Hfixed. reflexivity. }
        destruct (if cfg_use_lpc cfg then _ else Ok None) as [lpc| |] eqn:El; cbn [bind] in E; try discriminate.
        assert (Hlpc : forall c, lpc = Some c -> decode_sub c = samples).
        { intros c Hc. subst lpc. destruct (cfg_use_lpc cfg) eqn:Eul; [|discriminate].
          destruct (Hfit eq_refl) as [Hfits Hlen].
          unfold lpc_candidate in El.
          destruct (lpc_errors (qlpc fi var) samples) as [errs| |] eqn:Ee; cbn [bind] in El; try discriminate.
          unfold residual_checked, encode_residual in El.
          destruct (forallb in_i32 _); [|discriminate].
          destruct (find_prc errs _ _) as [pr| |] eqn:Efp; cbn [bind] in El; try discriminate.
          match type of El with
          | Ok (if ?b then Some ?cand else None) = _ => destruct b; [|discriminate]
          end.
          apply Ok_inj' in El. inversion El; subst c. cbn [decode_sub].
          rewrite firstn_length. replace (Nat.min _ (length samples)) with (length (q_coefs (qlpc fi var))) by lia.
          pose proof (find_prc_shape_nat _ _ _ _ Efp) as Hshape.
          pose proof (residual_values_of_encoded errs (q_order (qlpc fi var)) pr Hshape) as Hrv.
          unfold q_order in *. rewrite Nat2N.id in Hrv. rewrite Hrv.
          apply (lpc_roundtrip _ _ _ Hlen Hfits Ee). }
        destruct lpc as [c|]; [apply Ok_inj' in E; subst; apply Hlpc; reflexivity|].
        destruct fixed as [x|] eqn:Efx; apply Ok_inj' in E; subst sf.
        * apply Hfixed2. reflexivity.
        * reflexivity.
  Qed.
End Sub.

(* ---- frame level ---- *)

Section Frame.
  Variable ent : N -> N -> N -> N.
  Variable qlpc : N -> N -> qparams.

  Definition chans (channels : N) (block : list Z) : list (list Z) :=
    map (fun c => channel_samples channels block c) (map N.of_nat (seq 0 (N.to_nat channels))).

  Definition mids (l r : list Z) : list Z := map (fun lr => mid (fst lr) (snd lr)) (combine l r).
  Definition sides (l r : list Z) : list Z := map (fun lr => side (fst lr) (snd lr)) (combine l r).

  (* the (variant, signal) pairs the estimators may be asked about for one block *)
  Definition variants (channels : N) (block : list Z) : list (N * list Z) :=
    let cs := chans channels block in
    combine (map N.of_nat (seq 0 (N.to_nat channels))) cs ++
    match cs with
    | [l; r] => if (channels =? 2)%N then [(VAR_MID, mids l r); (VAR_SIDE, sides l r)] else []
    | _ => []
    end.

  Definition fit_hyp (cfg : config) (fi channels : N) (block : list Z) : Prop :=
    cfg_use_lpc cfg = true ->
    forall var sig, In (var, sig) (variants channels block) ->
      lpc_fits (qlpc fi var) sig = true /\ (length (q_coefs (qlpc fi var)) <= length sig)%nat.

  Lemma bounded_mids l r : bounded (2 ^ 24) l -> bounded (2 ^ 24) r -> bounded (2 ^ 25) (mids l r).
  Proof.
    intros Hl. revert r. unfold mids. induction Hl as [|x l Hx Hl IH]; intros r Hr; [constructor|].
    destruct Hr as [|y r Hy Hr]; [constructor|].
    cbn [combine map fst snd]. constructor; [|apply IH; assumption].
    unfold mid. rewrite Z.shiftr_div_pow2 by lia. change (2 ^ 1) with 2.
    pose proof (Z.div_mod (x + y) 2 ltac:(lia)). pose proof (Z.mod_pos_bound (x + y) 2 ltac:(lia)). lia.
  Qed.

  Lemma bounded_sides l r : bounded (2 ^ 24) l -> bounded (2 ^ 24) r -> bounded (2 ^ 25) (sides l r).
  Proof.
    intros Hl. revert r. unfold sides. induction Hl as [|x l Hx Hl IH]; intros r Hr; [constructor|].
    destruct Hr as [|y r Hy Hr]; [constructor|].
    cbn [combine map fst snd]. constructor; [|apply IH; assumption]. unfold side. lia.
  Qed.

  Lemma bounded_weaken B B' l : B <= B' -> bounded B l -> bounded B' l.
  Proof. intros HB H. eapply Forall_impl; [|exact H]. cbn. intros; lia. Qed.

  Lemma mapM_decode cfg fi bps : forall (ics : list (N * list Z)) subs,
    mapM (fun ic => encode_subframe ent qlpc cfg fi (fst ic) (snd ic) bps) ics = Ok subs ->
    Forall (fun ic => bounded (2 ^ 25) (snd ic)) ics ->
    (cfg_use_lpc cfg = true -> forall ic, In ic ics ->
       lpc_fits (qlpc fi (fst ic)) (snd ic) = true /\ (length (q_coefs (qlpc fi (fst ic))) <= length (snd ic))%nat) ->
    map decode_sub subs = map snd ics.
  Proof.
    induction ics as [|ic r IH]; intros subs E Hb Hf; cbn [mapM] in E.
    - apply Ok_inj' in E. subst. reflexivity.
    - destruct (encode_subframe _ _ _ _ _ _ _) as [y| |] eqn:Ey; cbn [bind] in E; try discriminate.
      destruct (mapM _ r) as [ys| |] eqn:Er; cbn [bind] in E; try discriminate.
      apply Ok_inj' in E. subst subs. inversion Hb as [|? ? Hb1 Hb2]; subst.
      cbn [map]. f_equal.
      + eapply encode_subframe_lossless; [exact Ey | exact Hb1 |].
        intros Hu. apply (Hf Hu ic). left. reflexivity.
      + apply IH; [reflexivity | assumption |]. intros Hu ic' Hin. apply (Hf Hu). right. assumption.
  Qed.

  Theorem encode_frame_lossless cfg rate channels bps fi number block f :
    encode_frame ent qlpc cfg rate channels bps fi number block = Ok f ->
    (1 <= channels <= 8)%N ->
    Forall (bounded (2 ^ 24)) (chans channels block) ->
    (channels = 2%N -> forall l r, chans channels block = [l; r] -> length l = length r) ->
    fit_hyp cfg fi channels block ->
    exists tag, chassign_tag (h_ch (f_header f)) = Ok tag /\
      undo_stereo tag (map decode_sub (f_subframes f)) = Some (chans channels block).
  Proof.
    unfold encode_frame. fold (chans channels block).
    set (cs := chans channels block). set (idx := map N.of_nat (seq 0 (N.to_nat channels))).
    intros E Hch Hb Hlen Hfit.
    destruct (mapM _ (combine idx cs)) as [indep| |] eqn:Em; cbn [bind] in E; try discriminate.
    assert (Hlenic : length idx = length cs) by (unfold cs, chans; fold idx; rewrite map_length; reflexivity).
    assert (Hb25 : Forall (fun ic : N * list Z => bounded (2 ^ 25) (snd ic)) (combine idx cs)).
    { apply Forall_forall. intros [i c] Hin. apply in_combine_r in Hin. cbn [snd].
      rewrite Forall_forall in Hb. apply (bounded_weaken (2 ^ 24)); [lia | apply Hb; assumption]. }
    assert (Hf1 : cfg_use_lpc cfg = true -> forall ic, In ic (combine idx cs) ->
              lpc_fits (qlpc fi (fst ic)) (snd ic) = true /\ (length (q_coefs (qlpc fi (fst ic))) <= length (snd ic))%nat).
    { intros Hu [i c] Hin. apply (Hfit Hu). unfold variants. fold cs idx. apply in_or_app. left. exact Hin. }
    pose proof (mapM_decode cfg fi bps _ _ Em Hb25 Hf1) as Hdec.
    rewrite map_snd_combine in Hdec by exact Hlenic.
    destruct (N.eqb_spec channels 2) as [H2|H2].
    - subst channels.
      destruct cs as [|l [|r [|? ?]]] eqn:Ecs; try discriminate.
      destruct indep as [|sl [|sr [|? ?]]] eqn:Eind; try discriminate.
      fold (mids l r) in E. fold (sides l r) in E.
      destruct (encode_subframe ent qlpc cfg fi VAR_MID (mids l r) bps) as [sm| |] eqn:Esm; cbn [bind] in E; try discriminate.
      destruct (encode_subframe ent qlpc cfg fi VAR_SIDE (sides l r) (bps + 1)) as [ss| |] eqn:Ess; cbn [bind] in E; try discriminate.
      cbv zeta in E.
      match type of E with context [mk_header _ _ (fst ?b) _ _] => set (best := b) in * end.
      destruct (mk_header rate bps (fst best) _ number) as [h| |] eqn:Eh; cbn [bind] in E; try discriminate.
      apply Ok_inj' in E. subst f. cbn [f_header f_subframes].
      unfold mk_header in Eh. destruct (block_size_code _) as [bc| |]; cbn [bind] in Eh; try discriminate.
      apply Ok_inj' in Eh. subst h. cbn [h_ch].
      inversion Hb as [|? ? Hbl Hb']; subst. inversion Hb' as [|? ? Hbr _]; subst.
      assert (Hll : length l = length r) by (apply (Hlen eq_refl l r); reflexivity).
      cbn [map] in Hdec. inversion Hdec as [[Hdl Hdr]].
      assert (Hdm : decode_sub sm = mids l r).
      { eapply encode_subframe_lossless; [exact Esm | apply bounded_mids; assumption |].
        intros Hu. apply (Hfit Hu). unfold variants. fold cs. rewrite Ecs. cbn [N.eqb Pos.eqb].
        apply in_or_app. right. left. reflexivity. }
      assert (Hds : decode_sub ss = sides l r).
      { eapply encode_subframe_lossless; [exact Ess | apply bounded_sides; assumption |].
        intros Hu. apply (Hfit Hu). unfold variants. fold cs. rewrite Ecs. cbn [N.eqb Pos.eqb].
        apply in_or_app. right. right. left. reflexivity. }
      destruct (fst best) eqn:Eb; cbn [chassign_tag map].
      + (* independent *)
        assert (n = 2%N).
        { unfold best in Eb. repeat match type of Eb with
            | context [if ?c then _ else _] => destruct c; cbn [fst snd] in Eb end; inversion Eb; reflexivity. }
        subst n. cbn [N.ltb N.compare Pos.compare Pos.compare_cont N.eqb]. eexists. split; [reflexivity|].
        rewrite ?Hdl, ?Hdr. reflexivity.
      + eexists. split; [reflexivity|]. rewrite ?Hdl, ?Hdr, ?Hds. apply undo_stereo_leftside. exact Hll.
      + eexists. split; [reflexivity|]. rewrite ?Hdl, ?Hdr, ?Hds. apply undo_stereo_rightside. exact Hll.
      + eexists. split; [reflexivity|]. rewrite ?Hdl, ?Hdr, ?Hdm, ?Hds. apply undo_stereo_midside. exact Hll.
    - destruct (mk_header rate bps (Indep channels) _ number) as [h| |] eqn:Eh; cbn [bind] in E; try discriminate.
      apply Ok_inj' in E. subst f. cbn [f_header f_subframes].
      unfold mk_header in Eh. destruct (block_size_code _) as [bc| |]; cbn [bind] in Eh; try discriminate.
      apply Ok_inj' in Eh. subst h. cbn [h_ch chassign_tag].
      destruct (N.ltb_spec 8 channels) as [?|_]; [lia|].
      destruct (N.eqb_spec channels 0) as [?|_]; [lia|].
      eexists. split; [reflexivity|].
      unfold undo_stereo. destruct (N.leb_spec (channels - 1) 7) as [_|?]; [|lia].
      rewrite Hdec. reflexivity.
  Qed.
End Frame.
