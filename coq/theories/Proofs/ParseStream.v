(* C15 / C18 at stream level: the parser model (Parser.parse_stream) on the bytes of a stream. *)
From FV Require Import Generated Model.Base Model.Sink Model.Crc Model.Codes Model.Rice Model.Predict
  Model.Component Model.Flac Model.Parser Model.Ctor
  Proofs.SinkArith Proofs.SinkRefine Proofs.OpsLen Proofs.CrcP Proofs.CountBits
  Proofs.BitRead Proofs.BitWrite Proofs.ParseResidual Proofs.DecodeFrame Proofs.EncodeFrameE2E
  Proofs.StreamBytes Proofs.StreamLists Proofs.DecodeStream Proofs.ParseFrame Proofs.ParseFrameCtor.
Local Open Scope N_scope.

(* ---- STREAMINFO as the parser accepts and returns it ---- *)
Record info_canon (i : streaminfo) : Prop := mkInfoCanon {
  ic_blocks : (si_min_block i = 65535 /\ si_max_block i = 0) \/ (si_min_block i <= si_max_block i /\ si_max_block i <= 32767);
  ic_frames : (si_min_frame i = 2 ^ 32 - 1 /\ si_max_frame i = 0) \/ (si_min_frame i <= si_max_frame i /\ si_max_frame i < 2 ^ 24);
  ic_rate : si_rate i <= 96000;
  ic_ch : 1 <= si_channels i <= 8;
  ic_bps : 8 <= si_bps i <= 25 /\ (si_bps i mod 4 = 0 \/ si_bps i mod 4 = 1);
  ic_total : si_total i < 2 ^ 36;
  ic_md5_len : length (si_md5 i) = 16%nat;
  ic_md5 : Forall lt256 (si_md5 i)
}.

Definition info_bits (i : streaminfo) : list bool :=
  bits_msb 16 (si_min_block i mod 2 ^ 16) ++ bits_msb 16 (si_max_block i mod 2 ^ 16)
  ++ bits_msb 24 (si_min_frame i mod 2 ^ 32) ++ bits_msb 24 (si_max_frame i mod 2 ^ 32)
  ++ bits_msb 20 (si_rate i mod 2 ^ 32) ++ bits_msb 3 ((si_channels i - 1) mod 256) ++ bits_msb 5 ((si_bps i - 1) mod 256)
  ++ bits_msb 36 (si_total i) ++ bytes_bits (si_md5 i).

Lemma info_bits_length i : length (si_md5 i) = 16%nat -> length (info_bits i) = 272%nat.
Proof. intros H. unfold info_bits. rewrite !app_length, !bits_msb_length, bytes_bits_length, H. reflexivity. Qed.

Theorem reads_stream_info i : info_canon i -> reads p_stream_info (info_bits i) i.
Proof.
  intros [Hblk Hfrm Hrate Hch [Hbps Hbm] Htot Hml Hm] r rest Hwf0 Hb0.
  assert (Hminb : si_min_block i < 2 ^ 16) by (change (2 ^ 16) with 65536; lia).
  assert (Hmaxb : si_max_block i < 2 ^ 16) by (change (2 ^ 16) with 65536; lia).
  assert (Hr20 : si_rate i < 2 ^ 20) by (change (2 ^ 20) with 1048576; lia).
  unfold info_bits in Hb0. rewrite <- !app_assoc in Hb0.
  rewrite (N.mod_small _ _ Hminb), (N.mod_small _ _ Hmaxb) in Hb0.
  rewrite (N.mod_small (si_rate i) (2 ^ 32)) in Hb0 by (change (2 ^ 32) with 4294967296; lia).
  rewrite (N.mod_small (si_channels i - 1) 256), (N.mod_small (si_bps i - 1) 256) in Hb0 by lia.
  destruct (reads_rbits 16 _ Hminb _ _ Hwf0 Hb0) as (r5 & E5 & Hb5 & Hwf5 & Hp5 & Hk5).
  destruct (reads_rbits 16 _ Hmaxb _ _ Hwf5 Hb5) as (r6 & E6 & Hb6 & Hwf6 & Hp6 & Hk6).
  destruct (rbits_field 24 _ _ _ Hwf6 Hb6) as (r7 & E7 & Hb7 & Hwf7 & Hp7 & Hk7).
  destruct (rbits_field 24 _ _ _ Hwf7 Hb7) as (r8 & E8 & Hb8 & Hwf8 & Hp8 & Hk8).
  destruct (reads_rbits 20 _ Hr20 _ _ Hwf8 Hb8) as (r9 & E9 & Hb9 & Hwf9 & Hp9 & Hk9).
  destruct (reads_rbits 3 (si_channels i - 1) ltac:(change (2 ^ 3) with 8; lia) _ _ Hwf9 Hb9) as (r10 & E10 & Hb10 & Hwf10 & Hp10 & Hk10).
  destruct (reads_rbits 5 (si_bps i - 1) ltac:(change (2 ^ 5) with 32; lia) _ _ Hwf10 Hb10) as (r11 & E11 & Hb11 & Hwf11 & Hp11 & Hk11).
  destruct (reads_rbits 36 _ Htot _ _ Hwf11 Hb11) as (r12 & E12 & Hb12 & Hwf12 & Hp12 & Hk12).
  destruct (reads_bytes _ Hm _ _ Hwf12 Hb12) as (r13 & E13 & Hb13 & Hwf13 & Hp13 & Hk13).
  rewrite Hml in E13.
  exists r13. unfold p_stream_info, read_streaminfo. rewrite E5, E6, E7, E8, E9, E10, E11, E12, E13.
  cbn [i_min_block i_max_block i_min_frame i_max_frame i_rate i_channels i_bps i_total i_md5].
  replace (si_channels i - 1 + 1) with (si_channels i) by lia. replace (si_bps i - 1 + 1) with (si_bps i) by lia.
  set (minf := (si_min_frame i mod 2 ^ 32) mod 2 ^ 24). set (maxf := (si_max_frame i mod 2 ^ 32) mod 2 ^ 24).
  assert (Hfr : (if (minf =? 16777215) && (maxf =? 0) then 2 ^ 32 - 1 else minf) = si_min_frame i /\ maxf = si_max_frame i
                /\ (negb ((minf =? 16777215) && (maxf =? 0)) && (maxf <? minf)) = false).
  { unfold minf, maxf. destruct Hfrm as [[A B]|[A B]].
    - rewrite A, B. vm_compute. repeat split; reflexivity.
    - assert (C : si_min_frame i < 2 ^ 24) by lia. change (2 ^ 24) with 16777216 in *.
      rewrite (N.mod_small (si_min_frame i) (2 ^ 32)), (N.mod_small (si_max_frame i) (2 ^ 32)) by (change (2 ^ 32) with 4294967296; lia).
      rewrite !N.mod_small by lia.
      destruct (N.eqb_spec (si_min_frame i) 16777215) as [e|e]; destruct (N.eqb_spec (si_max_frame i) 0) as [e'|e']; cbn [andb negb];
        try lia; (split; [reflexivity|]; split; [reflexivity|]; apply N.ltb_ge; lia). }
  destruct Hfr as (F1 & F2 & F3). rewrite F1, F2. rewrite F2 in F3. rewrite F3.
  assert (G1 : (96000 <? si_rate i) = false) by (apply N.ltb_ge; exact Hrate).
  assert (G2 : (si_bps i <? 8) = false) by (apply N.ltb_ge; lia).
  assert (G3 : (25 <? si_bps i) = false) by (apply N.ltb_ge; lia).
  assert (G4 : negb ((si_bps i mod 4 =? 0) || (si_bps i mod 4 =? 1)) = false).
  { destruct Hbm as [e|e]; rewrite e; reflexivity. }
  assert (G5 : (negb ((si_min_block i =? 65535) && (si_max_block i =? 0))
               && ((32767 <? si_min_block i) || (32767 <? si_max_block i) || (si_max_block i <? si_min_block i))) = false).
  { destruct Hblk as [[A B]|[A B]].
    - rewrite A, B. reflexivity.
    - assert (X : (32767 <? si_min_block i) = false) by (apply N.ltb_ge; lia).
      assert (Y : (32767 <? si_max_block i) = false) by (apply N.ltb_ge; lia).
      assert (Z : (si_max_block i <? si_min_block i) = false) by (apply N.ltb_ge; lia).
      rewrite X, Y, Z. apply Bool.andb_false_r. }
  rewrite G1, G2, G3, G4, G5. cbn [orb].
  split; [destruct i; reflexivity|]. split; [exact Hb13|]. split; [exact Hwf13|]. split.
  - rewrite Hp13, Hp12, Hp11, Hp10, Hp9, Hp8, Hp7, Hp6, Hp5. unfold info_bits.
    rewrite !app_length, !bits_msb_length, !bytes_bits_length. lia.
  - exact (rd_adv_trans _ _ _ Hk5 (rd_adv_trans _ _ _ Hk6 (rd_adv_trans _ _ _ Hk7 (rd_adv_trans _ _ _ Hk8
          (rd_adv_trans _ _ _ Hk9 (rd_adv_trans _ _ _ Hk10 (rd_adv_trans _ _ _ Hk11 (rd_adv_trans _ _ _ Hk12 Hk13)))))))).
Qed.

(* ---- further metadata blocks ---- *)
Definition meta_ok (m : N * list N) : Prop :=
  1 <= fst m <= 126 /\ N.of_nat (length (snd m)) < 2 ^ 24 /\ Forall lt256 (snd m).

Fixpoint metas_bits (ms : list (N * list N)) : list bool :=
  match ms with
  | [] => []
  | (tag, data) :: r =>
      bits_msb 1 (match r with [] => 1 | _ => 0 end) ++ bits_msb 7 tag ++ bits_msb 24 (N.of_nat (length data))
      ++ bytes_bits data ++ metas_bits r
  end.

Lemma bits8_flag_tag (flag : bool) tag : tag < 128 ->
  bits_msb 8 (tag + (if flag then 128 else 0)) = bits_msb 1 (if flag then 1 else 0) ++ bits_msb 7 tag.
Proof.
  intros H. replace (tag + (if flag then 128 else 0)) with ((if flag then 1 else 0) * 2 ^ 7 + tag) by (change (2 ^ 7) with 128; destruct flag; lia).
  exact (bits_msb_concat 1 _ 7 tag H).
Qed.

Lemma meta_ops_bits : forall ms cur, cur mod 8 = 0 -> Forall meta_ok ms ->
  ops_bitlist cur (meta_ops ms) = metas_bits ms /\ ops_len cur (meta_ops ms) mod 8 = 0 /\ forallb wf_op (meta_ops ms) = true.
Proof.
  induction ms as [|[tag data] r IH]; intros cur Hc Hall; [repeat split; reflexivity|].
  inversion Hall as [|? ? (Ht & Hl & Hd) Hr]; subst. cbn [fst snd] in *.
  cbn [meta_ops]. unfold metadata_ops. cbn [app].
  assert (Elen : (8 * N.of_nat (length data) / 8) mod 2 ^ 32 = N.of_nat (length data)).
  { rewrite N.mul_comm, N.div_mul by lia. apply N.mod_small. change (2 ^ 24) with 16777216 in Hl. change (2 ^ 32) with 4294967296. lia. }
  rewrite Elen.
  assert (Hp : pad8 (cur + 8 + 24) = 0) by (apply pad8_of_mult; rewrite <- N.add_assoc, N.add_mod, Hc by lia; reflexivity).
  set (flag := match r with [] => true | _ => false end).
  assert (Hcur' : (cur + 8 + 24 + (pad8 (cur + 8 + 24) + 8 * N.of_nat (length data))) mod 8 = 0).
  { rewrite Hp, N.add_0_l. replace (cur + 8 + 24 + 8 * N.of_nat (length data)) with (cur + (4 + N.of_nat (length data)) * 8) by lia.
    rewrite N.mod_add by lia. exact Hc. }
  destruct (IH _ Hcur' Hr) as (B1 & B2 & B3).
  split; [|split].
  - cbn [ops_bitlist op_bitlist op_len]. rewrite B1. set (pp := pad8 (cur + 8 + 24)) in *. rewrite Hp.
    change (N.to_nat 8) with 8%nat. change (N.to_nat 24) with 24%nat. change (N.to_nat 0) with 0%nat. cbn [repeat app]. rewrite (bits8_flag_tag flag tag ltac:(lia)).
    unfold flag. cbn [metas_bits]. rewrite <- !app_assoc. destruct r; reflexivity.
  - cbn [ops_len op_len]. set (pp := pad8 (cur + 8 + 24)) in *. set (tailpos := cur + 8 + 24 + (pp + 8 * N.of_nat (length data))) in *.
    set (X := ops_len tailpos (meta_ops r)) in *. rewrite Hp, N.add_0_l.
    replace (8 + (24 + (8 * N.of_nat (length data) + X))) with (X + (4 + N.of_nat (length data)) * 8) by lia.
    rewrite N.mod_add by lia. exact B2.
  - cbn [forallb wf_op wf_width]. rewrite B3.
    assert (A1 : tag + (if flag then 128 else 0) <? 2 ^ 8 = true) by (apply N.ltb_lt; change (2 ^ 8) with 256; destruct flag; lia).
    assert (A2 : N.of_nat (length data) <? 2 ^ 32 = true) by (apply N.ltb_lt; change (2 ^ 24) with 16777216 in Hl; change (2 ^ 32) with 4294967296; lia).
    assert (A3 : forallb (fun b => b <? 256) data = true).
    { apply forallb_forall. intros x Hx. apply N.ltb_lt. rewrite Forall_forall in Hd. apply Hd. exact Hx. }
    fold flag. rewrite A1, A2, A3. reflexivity.
Qed.

Lemma reads_more_meta : forall ms fuel, ms <> [] -> Forall meta_ok ms -> (length ms <= fuel)%nat ->
  reads (p_more_meta fuel) (metas_bits ms) ms.
Proof.
  induction ms as [|[tag data] r IH]; intros fuel Hne Hall Hf; [congruence|].
  inversion Hall as [|? ? (Ht & Hl & Hd) Hr]; subst. cbn [fst snd] in *.
  destruct fuel as [|fuel]; [cbn in Hf; lia|].
  intros r0 rest Hwf0 Hb0. cbn [metas_bits] in Hb0. rewrite <- !app_assoc in Hb0.
  set (lastv := match r with [] => 1 | _ => 0 end) in *.
  destruct (reads_rbits 1 lastv ltac:(unfold lastv; destruct r; reflexivity) _ _ Hwf0 Hb0) as (r1 & E1 & Hb1 & Hwf1 & Hp1 & Hk1).
  destruct (reads_rbits 7 tag ltac:(change (2 ^ 7) with 128; lia) _ _ Hwf1 Hb1) as (r2 & E2 & Hb2 & Hwf2 & Hp2 & Hk2).
  destruct (reads_rbits 24 _ Hl _ _ Hwf2 Hb2) as (r3 & E3 & Hb3 & Hwf3 & Hp3 & Hk3).
  destruct (reads_bytes data Hd _ _ Hwf3 Hb3) as (r4 & E4 & Hb4 & Hwf4 & Hp4 & Hk4).
  assert (Eblock : p_metadata_block r0 = Some (lastv =? 1, tag, data, r4)).
  { unfold p_metadata_block. rewrite E1, E2, E3.
    destruct (N.eqb_spec tag 0); [lia|]. destruct (N.eqb_spec tag 127); [lia|]. rewrite Nat2N.id, E4. reflexivity. }
  rewrite !bits_msb_length in *.
  destruct r as [|m2 r'] eqn:Er.
  - exists r4. cbn [p_more_meta]. rewrite Eblock. unfold lastv. cbn [N.eqb Pos.eqb].
    cbn [metas_bits app] in Hb4.
    split; [reflexivity|]. split; [exact Hb4|]. split; [exact Hwf4|]. split.
    + rewrite Hp4, Hp3, Hp2, Hp1. cbn [metas_bits]. rewrite !app_length, !bits_msb_length, bytes_bits_length. cbn [length]. lia.
    + exact (rd_adv_trans _ _ _ Hk1 (rd_adv_trans _ _ _ Hk2 (rd_adv_trans _ _ _ Hk3 Hk4))).
  - rewrite <- Er in *.
    destruct (IH fuel ltac:(rewrite Er; discriminate) Hr ltac:(cbn [length] in Hf; lia) r4 rest Hwf4 Hb4) as (r5 & E5 & Hb5 & Hwf5 & Hp5 & Hk5).
    exists r5. cbn [p_more_meta]. rewrite Eblock. unfold lastv. rewrite Er. cbn [N.eqb]. rewrite <- Er, E5.
    split; [reflexivity|]. split; [exact Hb5|]. split; [exact Hwf5|]. split.
    + rewrite Hp5, Hp4, Hp3, Hp2, Hp1. cbn [metas_bits]. rewrite !app_length, !bits_msb_length, bytes_bits_length. lia.
    + exact (rd_adv_trans _ _ _ Hk1 (rd_adv_trans _ _ _ Hk2 (rd_adv_trans _ _ _ Hk3 (rd_adv_trans _ _ _ Hk4 Hk5)))).
Qed.

(* ---- the frame loop ---- *)
Fixpoint pframes_spec (channels bps : N) (fbs : list (list N)) (frames : list frame) : Prop :=
  match fbs, frames with
  | [], [] => True
  | fb :: fr, f :: fs =>
      fb <> [] /\ Forall lt256 fb
      /\ (forall rest, Forall lt256 rest -> p_frame channels bps (fb ++ rest) = Some (f, rest))
      /\ pframes_spec channels bps fr fs
  | _, _ => False
  end.

Lemma pframes_spec_lt256 channels bps : forall fbs frames, pframes_spec channels bps fbs frames -> Forall lt256 (concat fbs).
Proof.
  induction fbs as [|fb fr IH]; intros frames H; [constructor|]. destruct frames as [|f fs]; [destruct H|].
  destruct H as (_ & H256 & _ & Hr). cbn [concat]. apply Forall_app. split; [exact H256 | exact (IH _ Hr)].
Qed.

Lemma pframes_spec_count channels bps : forall fbs frames, pframes_spec channels bps fbs frames -> (length fbs <= length (concat fbs))%nat.
Proof.
  induction fbs as [|fb fr IH]; intros frames H; [cbn; lia|]. destruct frames as [|f fs]; [destruct H|].
  destruct H as (Hne & _ & _ & Hr). cbn [concat length]. rewrite app_length. specialize (IH _ Hr).
  destruct fb; [congruence|]. cbn [length]. lia.
Qed.

Lemma p_frames_all channels bps : forall fbs frames fuel,
  pframes_spec channels bps fbs frames -> (length fbs <= fuel)%nat ->
  p_frames fuel channels bps (concat fbs) = Some frames.
Proof.
  induction fbs as [|fb fr IH]; intros frames fuel H Hf.
  - destruct frames; [|destruct H]. cbn [concat]. destruct fuel; reflexivity.
  - destruct frames as [|f fs]; [destruct H|]. destruct H as (Hne & H256 & Hread & Hr).
    destruct fuel as [|fuel]; [cbn in Hf; lia|]. cbn [concat p_frames].
    destruct (fb ++ concat fr) as [|b0 t0] eqn:Ecat; [destruct fb; [congruence | discriminate]|]. rewrite <- Ecat.
    rewrite (Hread _ (pframes_spec_lt256 channels bps _ _ Hr)).
    rewrite (IH _ fuel Hr) by (cbn in Hf; lia). reflexivity.
Qed.

(* ---- the stream header with its is-last flag ---- *)
Definition hdr_ops_f (last : bool) (i : streaminfo) : list op :=
  [OBytes [102; 76; 97; 67]] ++ metadata_ops last 0 272 (streaminfo_ops i).

Lemma hdr_ops_f_bits last i :
  ops_bitlist 0 (hdr_ops_f last i)
  = bits_msb 32 1716281667 ++ bits_msb 1 (if last then 1 else 0) ++ bits_msb 7 0 ++ bits_msb 24 34 ++ info_bits i.
Proof.
  unfold hdr_ops_f, metadata_ops, streaminfo_ops, info_bits.
  cbn [app ops_bitlist op_bitlist ops_len op_len length].
  change (pad8 0) with 0. cbn [N.to_nat repeat app].
  match goal with |- context [pad8 ?p] => let v := eval vm_compute in (pad8 p) in change (pad8 p) with v end.
  cbn [N.to_nat repeat app]. rewrite !app_nil_r.
  change (bytes_bits [102; 76; 97; 67]) with (bits_msb 32 1716281667).
  change (272 / 8 mod 2 ^ 32) with 34.
  change (Pos.to_nat 8) with 8%nat. rewrite (bits8_flag_tag last 0 ltac:(lia)).
  rewrite <- ?app_assoc. reflexivity.
Qed.

Lemma hdr_ops_f_len last i : length (si_md5 i) = 16%nat -> ops_len 0 (hdr_ops_f last i) = 336.
Proof.
  intros H. unfold hdr_ops_f, metadata_ops, streaminfo_ops.
  cbn [app ops_len op_len length]. rewrite H.
  match goal with |- context [pad8 ?p] => let v := eval vm_compute in (pad8 p) in change (pad8 p) with v end.
  change (pad8 0) with 0. reflexivity.
Qed.

Lemma hdr_ops_f_wf last i : info_wf i -> forallb wf_op (hdr_ops_f last i) = true.
Proof.
  intros Hi. pose proof (hdr_ops_wf i Hi) as H. unfold hdr_ops, hdr_ops_f, metadata_ops in *.
  cbn [app forallb wf_op wf_width] in *. destruct last; [exact H|].
  rewrite !Bool.andb_true_iff in *. repeat match goal with H : _ /\ _ |- _ => destruct H end.
  repeat split; try assumption; reflexivity.
Qed.

Theorem stream_parses_back s bytes :
  info_canon (s_info s) -> Forall meta_ok (s_meta s) -> si_bps (s_info s) <= c_MAX_BITS_PER_SAMPLE ->
  Forall (frame_canon (si_channels (s_info s)) (si_bps (s_info s))) (s_frames s) ->
  stream_bytes s = Ok bytes -> parse_stream bytes = Some s.
Proof.
  intros Hic Hmetas Hbmax Hframes E.
  destruct s as [i metas frames]. cbn [s_info s_meta s_frames] in *.
  set (channels := si_channels i) in *. set (bps := si_bps i) in *.
  (* frames: operations, bytes, parse specification *)
  assert (Hfos : exists fos fbs, Forall2 (fun f fo => frame_ops f = Ok fo) frames fos
                               /\ Forall2 (fun fo fb => pack KU8 fo = Ok fb) fos fbs
                               /\ Forall (fun fo => forallb wf_op fo = true /\ ops_len 0 fo mod 8 = 0) fos
                               /\ pframes_spec channels bps fbs frames).
  { clear -Hframes Hbmax. induction Hframes as [|f fr (Hpre & Hcan & Hchn & Hlen & Hsubs) _ (fos & fbs & A & B & C & D)].
    - exists [], []. repeat split; constructor.
    - pose proof (canonical_frame_wfb f bps Hpre Hcan Hsubs) as Hw.
      destruct (frame_ops_shape f Hpre Hw) as (body & Eo & Hb). destruct (frame_ops_wf body Hb) as [W1 W2].
      destruct (pack_total KU8 _ W1) as [fb Epk].
      assert (Efb : frame_bytes f = Ok fb) by (unfold frame_bytes; rewrite Eo; exact Epk).
      destruct (frame_bytes_nonempty f fb Hpre Hw Efb) as [Hne H256].
      exists ([OBytes body; OWrite 16 (crc16 body)] :: fos), (fb :: fbs).
      split; [constructor; assumption|]. split; [constructor; assumption|]. split; [constructor; [split; assumption | exact C]|].
      cbn [pframes_spec]. split; [exact Hne|]. split; [exact H256|]. split; [|exact D].
      intros rest Hrest. exact (canonical_frame_parses_back f fb rest channels bps Hpre Hcan Hchn Hlen Hbmax Hsubs Efb Hrest). }
  destruct Hfos as (fos & fbs & Hfo1 & Hfo2 & Hfo3 & Hspec).
  unfold stream_bytes, stream_ops in E. cbn [s_frames s_meta s_info] in E.
  rewrite (Forall2_mapM frame_ops frames fos Hfo1) in E. cbn [bind] in E.
  set (last := match metas with [] => true | _ => false end) in *.
  rewrite app_assoc in E. fold (hdr_ops_f last i) in E. rewrite app_assoc in E.
  assert (Hiw : info_wf i).
  { destruct Hic. constructor; try assumption. change (2 ^ 36) with 68719476736 in *. change (2 ^ 64) with 18446744073709551616. lia. }
  pose proof (hdr_ops_f_wf last i Hiw) as Hhw.
  pose proof (hdr_ops_f_len last i (ic_md5_len _ Hic)) as Hhl.
  destruct (meta_ops_bits metas 336 eq_refl Hmetas) as (Hmb & Hml & Hmw).
  set (PRE := hdr_ops_f last i ++ meta_ops metas) in *.
  assert (Hpw : forallb wf_op PRE = true) by (unfold PRE; rewrite forallb_app, Hhw, Hmw; reflexivity).
  assert (Hpl : ops_len 0 PRE mod 8 = 0).
  { unfold PRE. rewrite ops_len_app, Hhl, N.add_0_l. rewrite N.add_mod by lia. rewrite Hml. reflexivity. }
  assert (Hpbits : ops_bitlist 0 PRE = bits_msb 32 1716281667 ++ bits_msb 1 (if last then 1 else 0) ++ bits_msb 7 0 ++ bits_msb 24 34
                                       ++ info_bits i ++ metas_bits metas).
  { unfold PRE. rewrite ops_bitlist_app, hdr_ops_f_bits, Hhl, N.add_0_l, Hmb, <- !app_assoc. reflexivity. }
  destruct (pack_total KU8 _ Hpw) as [pb Epb].
  destruct (pack_concat_aligned fos PRE pb Hpw Hpl Epb Hfo3) as (fbs' & Hfb' & Epack).
  assert (fbs' = fbs).
  { clear -Hfo2 Hfb'. revert fbs' Hfb'. induction Hfo2 as [|fo fb r rb H1 _ IH]; intros fbs' H; inversion H as [|? fb' ? rb' H2 Hr]; subst; [reflexivity|].
    rewrite H1 in H2. apply Ok_inj in H2. subst fb'. f_equal. apply IH. exact Hr. }
  subst fbs'. rewrite Epack in E. apply Ok_inj in E. subst bytes.
  destruct (pack_u8_bits _ pb Hpw Epb) as [Hpb256 Hpb_bits].
  rewrite (pad8_of_mult _ Hpl) in Hpb_bits. cbn [N.to_nat repeat] in Hpb_bits. rewrite app_nil_r, Hpbits in Hpb_bits.
  (* the parser *)
  pose proof (pframes_spec_lt256 channels bps fbs frames Hspec) as Hrest256.
  set (start := pb ++ concat fbs).
  pose proof (rd_of_wf start) as Hwf0. pose proof (rd_of_bits start) as Hb0.
  unfold start in Hb0 at 2. rewrite bytes_bits_app, Hpb_bits in Hb0. rewrite <- !app_assoc in Hb0.
  destruct (reads_rbits 32 1716281667 ltac:(reflexivity) _ _ Hwf0 Hb0) as (r1 & E1 & Hb1 & Hwf1 & Hp1 & Hk1).
  destruct (reads_rbits 1 (if last then 1 else 0) ltac:(destruct last; reflexivity) _ _ Hwf1 Hb1) as (r2 & E2 & Hb2 & Hwf2 & Hp2 & Hk2).
  destruct (reads_rbits 7 0 ltac:(reflexivity) _ _ Hwf2 Hb2) as (r3 & E3 & Hb3 & Hwf3 & Hp3 & Hk3).
  destruct (reads_rbits 24 34 ltac:(reflexivity) _ _ Hwf3 Hb3) as (r4 & E4 & Hb4 & Hwf4 & Hp4 & Hk4).
  destruct (reads_stream_info i Hic r4 _ Hwf4 Hb4) as (r5 & E5 & Hb5 & Hwf5 & Hp5 & Hk5).
  assert (Hmeta : exists r6, (if (if last then 1 else 0) =? 1 then Some ([], r5) else p_more_meta (S (length (r_bytes r5))) r5) = Some (metas, r6)
                             /\ rd_bits r6 = bytes_bits (concat fbs) /\ rd_wf r6 /\ rd_pos r6 = rd_pos r5 + N.of_nat (length (metas_bits metas))
                             /\ rd_adv r5 r6).
  { unfold last. destruct metas as [|m0 mr] eqn:Em.
    - exists r5. cbn [N.eqb Pos.eqb metas_bits app length] in *. fin5 Hwf5; [lia | apply rd_adv_refl].
    - rewrite <- Em in *. cbn [N.eqb].
      assert (Hfuel : (length metas <= S (length (r_bytes r5)))%nat).
      { (* every block occupies at least 32 bits of what remains *)
        assert (Hmlen : forall ms, (32 * length ms <= length (metas_bits ms))%nat).
        { induction ms as [|[t d] r' IH]; [cbn; lia|]. cbn [metas_bits length]. rewrite !app_length, !bits_msb_length. lia. }
        specialize (Hmlen metas).
        assert (Hrb : (length (rd_bits r5) <= 8 * length (r_bytes r5))%nat).
        { unfold rd_bits. rewrite skipn_length, bytes_bits_length. lia. }
        rewrite Hb5, app_length in Hrb. lia. }
      destruct (reads_more_meta metas _ ltac:(rewrite Em; discriminate) Hmetas Hfuel r5 _ Hwf5 Hb5) as (r6 & E6 & H6).
      exists r6. split; [exact E6 | exact H6]. }
  destruct Hmeta as (r6 & E6 & Hb6 & Hwf6 & Hp6 & Hk6).
  assert (Hadv : rd_adv (rd_of start) r6)
    by exact (rd_adv_trans _ _ _ Hk1 (rd_adv_trans _ _ _ Hk2 (rd_adv_trans _ _ _ Hk3 (rd_adv_trans _ _ _ Hk4 (rd_adv_trans _ _ _ Hk5 Hk6))))).
  assert (Hpos : rd_pos r6 = 8 * N.of_nat (length pb)).
  { rewrite Hp6, Hp5, Hp4, Hp3, Hp2, Hp1. apply (f_equal (@length bool)) in Hpb_bits.
    rewrite bytes_bits_length, !app_length, !bits_msb_length in Hpb_bits. rewrite !bits_msb_length.
    unfold rd_pos, rd_of. cbn [r_cnt r_off]. lia. }
  pose proof (rd_from_start start r6 _ Hwf6 Hadv Hpos) as Er6.
  assert (Hskip : skipn (N.to_nat (N.of_nat (length pb))) start = concat fbs).
  { unfold start. rewrite Nat2N.id. apply skipn_exact. reflexivity. }
  rewrite Hskip in Er6.
  unfold parse_stream. fold start. rewrite E1. cbn [N.eqb Pos.eqb negb]. rewrite E2, E3, E4. cbn [N.eqb negb].
  rewrite E5, E6. rewrite Er6. cbn [r_bytes]. fold channels bps.
  rewrite (p_frames_all channels bps fbs frames _ Hspec (pframes_spec_count channels bps fbs frames Hspec)). reflexivity.
Qed.

(* ---- C18: StreamInfo::new and MetadataBlockData::new_unknown, serialised as a stream, parse back ---- *)
Lemma unknown_new_ok tag data m : unknown_new tag data = Ok m -> Forall lt256 data -> meta_ok m.
Proof.
  unfold unknown_new. intros E Hd.
  destruct (guard ((1 <=? tag) && (tag <=? 126))) as [[]| |] eqn:G1; cbn [bind] in E; try discriminate. apply guard_ok in G1.
  destruct (guard (N.of_nat (length data) <? 2 ^ 24)) as [[]| |] eqn:G2; cbn [bind] in E; try discriminate. apply guard_ok in G2.
  apply Ok_inj in E. subst m. apply Bool.andb_true_iff in G1. destruct G1 as [A B]. apply N.leb_le in A, B. apply N.ltb_lt in G2.
  unfold meta_ok. cbn [fst snd]. repeat split; assumption.
Qed.

Theorem constructed_stream_parses_back rate ch bps i metas bytes :
  streaminfo_ctor rate ch bps = Ok i -> bps <= 24 -> Forall meta_ok metas ->
  stream_bytes (mkStream i metas []) = Ok bytes -> parse_stream bytes = Some (mkStream i metas []).
Proof.
  intros E Hb Hm Eb. unfold streaminfo_ctor in E.
  destruct (guard (rate <=? 96000)) as [[]| |] eqn:G1; cbn [bind] in E; try discriminate. apply guard_ok in G1.
  destruct (guard ((1 <=? ch) && (ch <=? 8))) as [[]| |] eqn:G2; cbn [bind] in E; try discriminate. apply guard_ok in G2.
  destruct (guard (bps <=? 255)) as [[]| |] eqn:G3; cbn [bind] in E; try discriminate.
  cbv zeta in E. destruct (guard (verify_streaminfo _)) as [[]| |] eqn:G4; cbn [bind] in E; try discriminate. apply guard_ok in G4.
  apply Ok_inj in E. subst i.
  unfold verify_streaminfo in G4. cbn [si_total si_rate si_channels si_bps N.eqb orb] in G4.
  rewrite !Bool.andb_true_iff in G4. destruct G4 as (_ & Hbok). unfold bps_ok in Hbok.
  rewrite !Bool.andb_true_iff in Hbok. destruct Hbok as ((B1 & B2) & B3).
  apply N.leb_le in G1, B1, B2. apply Bool.andb_true_iff in G2. destruct G2 as [C1 C2]. apply N.leb_le in C1, C2.
  change c_MIN_BITS_PER_SAMPLE with 8 in B1.
  apply stream_parses_back; cbn [s_info s_meta s_frames si_bps si_channels]; try assumption.
  - constructor; cbn [si_min_block si_max_block si_min_frame si_max_frame si_rate si_channels si_bps si_total si_md5].
    + left. split; reflexivity.
    + left. split; reflexivity.
    + exact G1.
    + lia.
    + split; [lia|]. apply Bool.orb_true_iff in B3. destruct B3 as [e|e]; apply N.eqb_eq in e; [left | right]; exact e.
    + reflexivity.
    + reflexivity.
    + repeat constructor.
  - constructor.
Qed.
