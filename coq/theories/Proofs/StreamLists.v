(* List facts for the stream level: blocks (chunks), de-interleaving into channels, and the decoder's
   re-interleaving. *)
From FV Require Import Model.Base Model.Rice Model.Flac Model.Encoder.
Local Open Scope nat_scope.

(* ---- chunks ---- *)
Lemma chunks_fuel_concat {A} (k : nat) : 1 <= k -> forall fuel (l : list A), length l <= fuel -> concat (chunks_fuel fuel k l) = l.
Proof.
  intros Hk. induction fuel as [|f IH]; intros l Hl.
  - destruct l; [reflexivity | cbn in Hl; lia].
  - cbn [chunks_fuel]. destruct l as [|x t] eqn:El; [reflexivity|]. rewrite <- El in *. cbn [concat].
    rewrite IH; [apply firstn_skipn|]. rewrite skipn_length. subst l. cbn [length] in *. lia.
Qed.
Lemma chunks_concat {A} (k : nat) (l : list A) : 1 <= k -> concat (chunks k l) = l.
Proof. intros Hk. apply chunks_fuel_concat; [exact Hk | lia]. Qed.

(* every chunk but the last has k elements; the last has between 1 and k; with the total a multiple of c, so is each *)
Inductive chunked {A} (k c : nat) : list (list A) -> Prop :=
| ck_nil : chunked k c []
| ck_last b : 1 <= length b <= k -> (exists m, length b = m * c) -> chunked k c [b]
| ck_cons b b2 r : length b = k -> chunked k c (b2 :: r) -> chunked k c (b :: b2 :: r).

Lemma chunks_fuel_chunked {A} (k c q : nat) : 1 <= k -> k = q * c ->
  forall fuel (l : list A) m, length l <= fuel -> length l = m * c -> chunked k c (chunks_fuel fuel k l).
Proof.
  intros Hk Hq. induction fuel as [|f IH]; intros l m Hl Hm.
  - constructor.
  - cbn [chunks_fuel]. destruct l as [|x t] eqn:El; [constructor|]. rewrite <- El in *.
    assert (Hlen : 1 <= length l) by (subst l; cbn; lia).
    destruct (Nat.le_gt_cases (length l) k) as [Hle|Hgt].
    + rewrite firstn_all2 by exact Hle. rewrite skipn_all2 by exact Hle.
      destruct f; cbn [chunks_fuel]; apply ck_last; try lia; exists m; exact Hm.
    + assert (Hsk : length (skipn k l) = (m - q) * c) by (rewrite skipn_length, Hm, Hq; nia).
      assert (Hsk1 : 1 <= length (skipn k l)) by (rewrite skipn_length; lia).
      assert (Hsf : length (skipn k l) <= f) by (rewrite skipn_length; lia).
      pose proof (IH (skipn k l) (m - q) Hsf Hsk) as Hc.
      destruct f; [lia|]. cbn [chunks_fuel] in *. destruct (skipn k l) as [|y u] eqn:Es; [cbn in Hsk1; lia|].
      apply ck_cons; [rewrite firstn_length; lia | exact Hc].
Qed.
Lemma chunks_chunked {A} (k c q : nat) (l : list A) m : 1 <= k -> k = q * c -> length l = m * c -> chunked k c (chunks k l).
Proof. intros Hk Hq Hm. apply (chunks_fuel_chunked k c q Hk Hq (length l) l m); [lia | exact Hm]. Qed.

(* ---- de-interleaving a block of rows ---- *)
Lemma deint_nil c ch f : deinterleave_from c ch [] f = [].
Proof. destruct f; cbn [deinterleave_from]; [reflexivity|]. destruct ch; reflexivity. Qed.

Lemma deint_step c ch (row l' : list Z) f : length row = c -> ch < c ->
  deinterleave_from c ch (row ++ l') (S f) = nth ch row 0%Z :: deinterleave_from c ch l' f.
Proof.
  intros Hr Hch. cbn [deinterleave_from].
  rewrite nth_error_app1 by lia. rewrite (nth_error_nth' row 0%Z) by lia.
  rewrite <- Hr. rewrite skipn_app, skipn_all, Nat.sub_diag. reflexivity.
Qed.

Lemma deint_length c ch : ch < c -> forall n (l : list Z) f, length l = n * c -> n <= f -> length (deinterleave_from c ch l f) = n.
Proof.
  intros Hch. induction n as [|n IH]; intros l f Hl Hf.
  - destruct l; [|cbn in Hl; lia]. rewrite deint_nil. reflexivity.
  - destruct f as [|f]; [lia|].
    rewrite <- (firstn_skipn c l). rewrite deint_step; [|rewrite firstn_length; lia | exact Hch].
    cbn [length]. rewrite IH; [reflexivity | rewrite skipn_length; lia | lia].
Qed.

Lemma deint_in c ch : forall f (l : list Z) x, In x (deinterleave_from c ch l f) -> In x l.
Proof.
  induction f as [|f IH]; intros l x H; [destruct H|]. cbn [deinterleave_from] in H.
  destruct (nth_error l ch) as [y|] eqn:E; [|destruct H]. destruct H as [<-|H].
  - apply nth_error_In in E. exact E.
  - apply IH in H. rewrite <- (firstn_skipn c l). apply in_or_app. right. exact H.
Qed.

Lemma map_nth_seq (row : list Z) : map (fun ch => nth ch row 0%Z) (seq 0 (length row)) = row.
Proof.
  induction row as [|x t IH]; [reflexivity|]. cbn [length seq map nth]. f_equal.
  rewrite <- seq_shift, map_map. exact IH.
Qed.

(* the decoder's interleave undoes it *)
Lemma interleave_deint c : 1 <= c -> forall n (l : list Z) f1 f2, length l = n * c -> n <= f1 -> n <= f2 ->
  interleave_fuel f2 (map (fun ch => deinterleave_from c ch l f1) (seq 0 c)) = l.
Proof.
  intros Hc. induction n as [|n IH]; intros l f1 f2 Hl H1 H2.
  - destruct l; [|cbn in Hl; lia]. destruct f2; [reflexivity|]. cbn [interleave_fuel].
    destruct c as [|c]; [lia|]. cbn [seq map existsb]. rewrite deint_nil. reflexivity.
  - destruct f1 as [|f1]; [lia|]. destruct f2 as [|f2]; [lia|].
    set (row := firstn c l). set (l' := skipn c l).
    assert (Hrow : length row = c) by (unfold row; rewrite firstn_length; lia).
    assert (El : l = row ++ l') by (symmetry; apply firstn_skipn).
    assert (Em : map (fun ch => deinterleave_from c ch l (S f1)) (seq 0 c)
                 = map (fun ch => nth ch row 0%Z :: deinterleave_from c ch l' f1) (seq 0 c)).
    { apply map_ext_in. intros ch Hin. apply in_seq in Hin. rewrite El at 1. apply deint_step; [exact Hrow | lia]. }
    rewrite Em. cbn [interleave_fuel].
    assert (Hex : existsb (fun c0 : list Z => match c0 with [] => true | _ :: _ => false end)
                    (map (fun ch => nth ch row 0%Z :: deinterleave_from c ch l' f1) (seq 0 c)) = false).
    { clear. induction (seq 0 c) as [|a t IHt]; [reflexivity|]. cbn [map existsb]. exact IHt. }
    rewrite Hex, !map_map. cbn [hd tl].
    rewrite IH; [|unfold l'; rewrite skipn_length; lia | lia | lia].
    rewrite <- Hrow at 1. rewrite map_nth_seq. symmetry. exact El.
Qed.
