(* C03 / C04: what the STREAMINFO block of an encoded stream states. *)
From FV Require Import Generated Model.Base Model.Sink Model.Codes Model.Rice Model.Predict
  Model.Component Model.Encoder.
Local Open Scope N_scope.

Section SI.
  Variable ent : N -> N -> N -> N.
  Variable qlpc : N -> N -> qparams.
  Variable md5 : list N -> list N.

  Definition frame_size_field (f : frame) : N := (frame_count_bits f / 8) mod 2 ^ 32.

  Lemma fold_update_info frames : forall i,
    let i' := fold_left update_info frames i in
    si_min_frame i' = fold_left N.min (map frame_size_field frames) (si_min_frame i) /\
    si_max_frame i' = fold_left N.max (map frame_size_field frames) (si_max_frame i) /\
    si_rate i' = si_rate i /\ si_channels i' = si_channels i /\ si_bps i' = si_bps i.
  Proof.
    induction frames as [|f r IH]; intros i; cbn [fold_left map].
    - repeat split; reflexivity.
    - specialize (IH (update_info i f)). cbv zeta in IH |- *.
      destruct IH as (H1 & H2 & H3 & H4 & H5).
      rewrite H1, H2, H3, H4, H5. cbn [update_info si_min_frame si_max_frame si_rate si_channels si_bps].
      unfold frame_size_field. repeat split; f_equal; lia.
  Qed.

  Lemma fold_min_le l : forall a x, In x (a :: l) -> fold_left N.min l a <= x.
  Proof.
    induction l as [|y t IH]; intros a x Hin; cbn [fold_left].
    - destruct Hin as [->|[]]. lia.
    - destruct Hin as [->|[->|Hin]].
      + eapply N.le_trans; [apply IH; left; reflexivity|]. lia.
      + eapply N.le_trans; [apply IH; left; reflexivity|]. lia.
      + apply IH. right. assumption.
  Qed.

  Lemma fold_min_in l : forall a, In (fold_left N.min l a) (a :: l).
  Proof.
    induction l as [|y t IH]; intros a; cbn [fold_left]; [left; reflexivity|].
    destruct (IH (N.min a y)) as [H|H].
    - rewrite <- H. destruct (N.min_spec a y) as [[_ E]|[_ E]]; rewrite E; [left | right; left]; reflexivity.
    - right. right. assumption.
  Qed.

  Lemma fold_max_ge l : forall a x, In x (a :: l) -> x <= fold_left N.max l a.
  Proof.
    induction l as [|y t IH]; intros a x Hin; cbn [fold_left].
    - destruct Hin as [->|[]]. lia.
    - destruct Hin as [->|[->|Hin]].
      + eapply N.le_trans; [|apply IH; left; reflexivity]. lia.
      + eapply N.le_trans; [|apply IH; left; reflexivity]. lia.
      + apply IH. right. assumption.
  Qed.

  Lemma fold_max_in l : forall a, In (fold_left N.max l a) (a :: l).
  Proof.
    induction l as [|y t IH]; intros a; cbn [fold_left]; [left; reflexivity|].
    destruct (IH (N.max a y)) as [H|H].
    - rewrite <- H. destruct (N.max_spec a y) as [[_ E]|[_ E]]; rewrite E; [right; left | left]; reflexivity.
    - right. right. assumption.
  Qed.

  (* C03 + C04 for the single-threaded stream encoder *)
  Theorem streaminfo_of_encoded cfg rate channels bps bs samples s :
    encode_stream ent qlpc md5 cfg rate channels bps bs samples = Ok s ->
    let i := s_info s in
    (* C03 *)
    si_rate i = rate /\ si_channels i = channels /\ si_bps i = bps /\
    si_total i = N.of_nat (length samples) / channels /\
    si_md5 i = md5 (md5_input bps samples) /\
    (* C04 *)
    si_max_block i = bs /\ si_min_block i = bs /\
    (s_frames s <> [] ->
       In (si_min_frame i) (map frame_size_field (s_frames s)) /\
       In (si_max_frame i) (map frame_size_field (s_frames s)) /\
       (forall f, In f (s_frames s) ->
          si_min_frame i <= frame_size_field f /\ frame_size_field f <= si_max_frame i)).
  Proof.
    unfold encode_stream.
    destruct (encode_blocks ent qlpc cfg rate channels bps 0 _) as [frames| |]; cbn [bind]; try discriminate.
    intros E. inversion E; subst s. clear E. cbn [s_info s_frames].
    cbn [si_rate si_channels si_bps si_total si_md5 si_max_block si_min_block si_min_frame si_max_frame].
    repeat split.
    all: destruct (fold_update_info frames (init_info rate channels bps bs)) as (H1 & H2 & _).
    all: cbn [init_info si_min_frame si_max_frame] in H1, H2.
    all: destruct frames as [|f0 fr]; [contradiction|]; cbn [map fold_left] in *.
    - rewrite H1. replace (N.min (2 ^ 32 - 1) (frame_size_field f0)) with (frame_size_field f0).
      + apply fold_min_in.
      + unfold frame_size_field. pose proof (N.mod_lt (frame_count_bits f0 / 8) (2 ^ 32) ltac:(cbn; lia)). lia.
    - rewrite H2. replace (N.max 0 (frame_size_field f0)) with (frame_size_field f0) by lia. apply fold_max_in.
    - rewrite H1. replace (N.min (2 ^ 32 - 1) (frame_size_field f0)) with (frame_size_field f0).
      + apply fold_min_le. apply in_map with (f := frame_size_field) in H0. exact H0.
      + unfold frame_size_field. pose proof (N.mod_lt (frame_count_bits f0 / 8) (2 ^ 32) ltac:(cbn; lia)). lia.
    - rewrite H2. replace (N.max 0 (frame_size_field f0)) with (frame_size_field f0) by lia.
      apply fold_max_ge. apply in_map with (f := frame_size_field) in H0. exact H0.
  Qed.

  (* delivery-split independence of the MD5 input: hashing block by block is hashing the
     concatenation (the md-5 crate's chunked update is assumed to be a function of the
     concatenated bytes: trusted base) *)
  Lemma md5_input_app bps a b : md5_input bps (a ++ b) = md5_input bps a ++ md5_input bps b.
  Proof. unfold md5_input. apply flat_map_app. Qed.

  Lemma md5_input_concat bps blocks :
    md5_input bps (concat blocks) = concat (map (md5_input bps) blocks).
  Proof.
    induction blocks as [|b r IH]; cbn [concat map]; [reflexivity|].
    rewrite md5_input_app, IH. reflexivity.
  Qed.
  (* C03: the fields of the encoded stream's STREAMINFO *)
  Theorem streaminfo_true cfg rate channels bps bs samples s :
    encode_stream ent qlpc md5 cfg rate channels bps bs samples = Ok s ->
    si_rate (s_info s) = rate /\ si_channels (s_info s) = channels /\ si_bps (s_info s) = bps /\
    si_total (s_info s) = N.of_nat (length samples) / channels /\
    si_md5 (s_info s) = md5 (md5_input bps samples).
  Proof.
    intros E. destruct (streaminfo_of_encoded _ _ _ _ _ _ _ E) as (H1 & H2 & H3 & H4 & H5 & _).
    repeat split; assumption.
  Qed.
  (* C04: the block-size and frame-size bounds of the encoded stream's STREAMINFO *)
  Theorem bounds_exact cfg rate channels bps bs samples s :
    encode_stream ent qlpc md5 cfg rate channels bps bs samples = Ok s ->
    si_max_block (s_info s) = bs /\ si_min_block (s_info s) = bs /\
    (s_frames s <> [] ->
       In (si_min_frame (s_info s)) (map frame_size_field (s_frames s)) /\
       In (si_max_frame (s_info s)) (map frame_size_field (s_frames s)) /\
       (forall f, In f (s_frames s) ->
          si_min_frame (s_info s) <= frame_size_field f /\ frame_size_field f <= si_max_frame (s_info s))).
  Proof.
    intros E. destruct (streaminfo_of_encoded _ _ _ _ _ _ _ E) as (_ & _ & _ & _ & _ & H6 & H7 & H8).
    repeat split; try assumption; apply H8; assumption.
  Qed.
End SI.
