(* C16, generic part: the bit-serial CRC register as a linear machine; burst detection from two facts about
   the register (no non-zero state steps to zero on a zero input; no non-zero window of W bits leaves the zero
   register at zero), which Proofs/CrcLinear.v and Proofs/CrcBurst.v establish for CRC-8 and CRC-16. *)
From FV Require Import Model.Base Model.Crc Proofs.SinkArith Proofs.CrcP.
Local Open Scope N_scope.

Section Gen.
  Variable w : N.            (* register width *)
  Variable poly : N.
  Hypothesis Hw : 1 <= w.
  Hypothesis Hpoly : poly < 2 ^ w.

  Definition step (reg : N) (b : bool) : N := crc_bit w (2 ^ w) poly reg b.
  Definition run (reg : N) (bits : list bool) : N := fold_left step bits reg.

  Fixpoint zipxor (a b : list bool) : list bool :=
    match a, b with
    | x :: a', y :: b' => xorb x y :: zipxor a' b'
    | _, _ => []
    end.

  Lemma shl_mod_lxor a b : ((N.lxor a b) * 2) mod 2 ^ w = N.lxor ((a * 2) mod 2 ^ w) ((b * 2) mod 2 ^ w).
  Proof.
    apply N.bits_inj. intros i. rewrite N.lxor_spec.
    destruct (N.lt_ge_cases i w) as [Hi|Hi].
    - rewrite !N.mod_pow2_bits_low by assumption.
      replace (N.lxor a b * 2) with (N.shiftl (N.lxor a b) 1) by (rewrite N.shiftl_mul_pow2; reflexivity).
      replace (a * 2) with (N.shiftl a 1) by (rewrite N.shiftl_mul_pow2; reflexivity).
      replace (b * 2) with (N.shiftl b 1) by (rewrite N.shiftl_mul_pow2; reflexivity).
      rewrite N.shiftl_lxor, N.lxor_spec. reflexivity.
    - rewrite !N.mod_pow2_bits_high by assumption. reflexivity.
  Qed.

  Lemma lxor_cancel_cases (t : bool) (x p : N) :
    (if t then N.lxor x p else x) = N.lxor x (if t then p else 0).
  Proof. destruct t; [reflexivity | rewrite N.lxor_0_r; reflexivity]. Qed.

  Lemma step_linear a b x y : step (N.lxor a b) (xorb x y) = N.lxor (step a x) (step b y).
  Proof.
    unfold step, crc_bit. rewrite shl_mod_lxor, N.lxor_spec.
    set (A := (a * 2) mod 2 ^ w). set (B := (b * 2) mod 2 ^ w).
    set (ta := N.testbit a (w - 1)). set (tb := N.testbit b (w - 1)).
    rewrite !lxor_cancel_cases.
    replace (xorb (xorb ta tb) (xorb x y)) with (xorb (xorb ta x) (xorb tb y)) by (destruct ta, tb, x, y; reflexivity).
    destruct (xorb ta x), (xorb tb y); cbn [xorb];
      apply N.bits_inj; intros i; rewrite ?N.lxor_spec, ?N.bits_0;
      destruct (N.testbit A i), (N.testbit B i), (N.testbit poly i); reflexivity.
  Qed.

  Lemma run_linear : forall x y a b, length x = length y ->
    run (N.lxor a b) (zipxor x y) = N.lxor (run a x) (run b y).
  Proof.
    induction x as [|bx x IH]; intros [|by_ y] a b Hl; cbn in Hl; try discriminate; [reflexivity|].
    cbn [zipxor run fold_left]. fold (run (step (N.lxor a b) (xorb bx by_)) (zipxor x y)).
    rewrite step_linear. apply IH. lia.
  Qed.

  Lemma step_lt reg b : step reg b < 2 ^ w.
  Proof. apply crc_bit_lt. exact Hpoly. Qed.

  Lemma run_zeros_zero n : run 0 (repeat false n) = 0.
  Proof.
    induction n as [|n IH]; [reflexivity|]. cbn [repeat run fold_left].
    assert (E : step 0 false = 0).
    { unfold step, crc_bit. rewrite N.bits_0. cbn [xorb]. rewrite N.mul_0_l. apply N.mod_0_l. apply pow2_nz. }
    rewrite E. exact IH.
  Qed.

  (* the three swept facts, as hypotheses of the generic development *)
  Variable W : nat.                       (* = w as nat *)
  Hypothesis HW : N.of_nat W = w.
  Hypothesis sweep_zero_step : forall reg, 0 < reg < 2 ^ w -> step reg false <> 0.
  Hypothesis sweep_burst : forall p, length p = W -> existsb (fun b => b) p = true -> run 0 p <> 0.

  Lemma run_app r a b : run r (a ++ b) = run (run r a) b.
  Proof. unfold run. apply fold_left_app. Qed.

  Lemma run_lt : forall bits r, r < 2 ^ w -> run r bits < 2 ^ w.
  Proof.
    induction bits as [|b t IH]; intros r Hr; cbn [run fold_left]; [assumption|].
    apply IH. apply step_lt.
  Qed.

  Lemma zeros_preserve_nonzero n : forall r, 0 < r < 2 ^ w -> run r (repeat false n) <> 0.
  Proof.
    induction n as [|n IH]; intros r Hr; cbn [repeat run fold_left]; [lia|].
    apply IH. pose proof (sweep_zero_step r Hr). pose proof (step_lt r false). lia.
  Qed.

  (* a burst: zeros, a window of W bits containing a one, zeros *)
  Theorem burst_nonzero i j p :
    length p = W -> existsb (fun b => b) p = true ->
    run 0 (repeat false i ++ p ++ repeat false j) <> 0.
  Proof.
    intros Hl Hp. rewrite !run_app, run_zeros_zero.
    apply zeros_preserve_nonzero.
    pose proof (sweep_burst p Hl Hp). pose proof (run_lt p 0 (pow2_pos w)). lia.
  Qed.

  (* two equal-length messages whose difference is a burst have different remainders *)
  Theorem burst_detected x y i j p :
    length x = length y ->
    zipxor x y = repeat false i ++ p ++ repeat false j ->
    length p = W -> existsb (fun b => b) p = true ->
    run 0 x <> run 0 y.
  Proof.
    intros Hl Hd Hlp Hp Heq.
    pose proof (run_linear x y 0 0 Hl) as Hlin. rewrite N.lxor_0_l, Hd, Heq, N.lxor_nilpotent in Hlin.
    exact (burst_nonzero i j p Hlp Hp Hlin).
  Qed.
End Gen.

(* the byte-level CRC of the model is the bit-level run over the message bits, MSB first *)
Fixpoint byte_bits (k : nat) (b : N) : list bool :=
  match k with O => [] | S k' => N.testbit b (N.of_nat k') :: byte_bits k' b end.

Lemma crc_bits_run w poly : forall k byte reg,
  crc_bits w (2 ^ w) poly k byte reg = run w poly reg (byte_bits k byte).
Proof.
  induction k as [|k IH]; intros byte reg; cbn [crc_bits byte_bits run fold_left]; [reflexivity|].
  rewrite IH. reflexivity.
Qed.

Theorem crc_is_run w poly bytes :
  crc w poly bytes = run w poly 0 (flat_map (byte_bits 8) bytes).
Proof.
  unfold crc. generalize 0 as reg.
  induction bytes as [|b t IH]; intros reg; cbn [fold_left flat_map]; [reflexivity|].
  rewrite run_app. unfold crc_byte. rewrite crc_bits_run. apply IH.
Qed.
