(* The hypotheses block_hyps of the end-to-end theorems, reduced to what is genuinely about the LPC estimator:
   lengths and ranges of every signal the encoder may code follow from the block itself. *)
From FV Require Import Generated Model.Base Model.Rice Model.Predict Model.Component Model.Flac Model.Encoder Model.Ctor
  Proofs.Lossless Proofs.ParseSubframe Proofs.EncodeFrameE2E Proofs.StreamLists Proofs.DecodeStream.
Local Open Scope N_scope.

Lemma sample_ok_of_lim bps x : (sample_ok_lim (2 ^ (Z.of_N bps - 1)) x = true) -> sample_ok bps x = true.
Proof.
  unfold sample_ok_lim, sample_ok. intros H. apply Bool.andb_true_iff in H. destruct H as [A B].
  apply Z.leb_le in A, B. apply Bool.andb_true_iff. split; [apply Z.leb_le | apply Z.ltb_lt]; lia.
Qed.

Lemma mid_in_range bps l r : 1 <= bps -> sample_ok bps l = true -> sample_ok bps r = true -> sample_ok bps (mid l r) = true.
Proof.
  intros Hb Hl Hr. apply sample_ok_range in Hl, Hr. unfold sample_ok, mid.
  rewrite Z.shiftr_div_pow2 by lia. change (2 ^ 1)%Z with 2%Z.
  set (L := (2 ^ (Z.of_N bps - 1))%Z) in *.
  apply Bool.andb_true_iff. split; [apply Z.leb_le | apply Z.ltb_lt].
  - apply Z.div_le_lower_bound; lia.
  - apply Z.div_lt_upper_bound; lia.
Qed.

Lemma side_in_range bps l r : 1 <= bps -> sample_ok bps l = true -> sample_ok bps r = true -> sample_ok (bps + 1) (side l r) = true.
Proof.
  intros Hb Hl Hr. apply sample_ok_range in Hl, Hr. unfold sample_ok, side.
  replace (Z.of_N (bps + 1) - 1)%Z with (Z.succ (Z.of_N bps - 1)) by lia. rewrite Z.pow_succ_r by lia.
  set (L := (2 ^ (Z.of_N bps - 1))%Z) in *.
  apply Bool.andb_true_iff. split; [apply Z.leb_le | apply Z.ltb_lt]; lia.
Qed.

Section BH.
  Variable qlpc : N -> N -> qparams.

  (* what remains to be assumed about the LPC estimator, and only when the LPC branch is enabled *)
  Definition lpc_hyps (cfg : config) (fi channels : N) (block : list Z) : Prop :=
    cfg_use_lpc cfg = true -> forall var sig, In (var, sig) (variants channels block) ->
      verify_qparams (qlpc fi var) = true /\ (1 <= length (q_coefs (qlpc fi var)) <= length sig)%nat
      /\ lpc_fits (qlpc fi var) sig = true.

  Theorem block_hyps_intro cfg fi channels bps block n :
    In bps [8; 12; 16; 20; 24] -> 1 <= channels <= 8 ->
    length block = (n * N.to_nat channels)%nat -> samples_ok bps block = true ->
    lpc_hyps cfg fi channels block ->
    block_hyps qlpc cfg fi channels bps block n.
  Proof.
    intros Hbps Hch Hlen Hso Hlpc var sig Hin.
    assert (Hb1 : 1 <= bps) by (cbn [In] in Hbps; destruct Hbps as [<-|[<-|[<-|[<-|[<-|[]]]]]]; lia).
    set (c := N.to_nat channels) in *.
    assert (Hchan : forall k, (k < c)%nat ->
              length (channel_samples channels block (N.of_nat k)) = n /\
              forallb (sample_ok bps) (channel_samples channels block (N.of_nat k)) = true).
    { intros k Hk. unfold channel_samples. rewrite Nat2N.id. fold c. split.
      - apply deint_length; [exact Hk | exact Hlen | rewrite Hlen; nia].
      - apply forallb_forall. intros x Hx. apply deint_in in Hx. unfold samples_ok in Hso. rewrite forallb_forall in Hso.
        apply sample_ok_of_lim. apply Hso. exact Hx. }
    split; [|split].
    3:{ intros Hu. exact (Hlpc Hu var sig Hin). }
    all: unfold variants in Hin; apply in_app_or in Hin; destruct Hin as [Hin|Hin].
    - (* a channel *)
      apply in_combine_r in Hin. unfold chans in Hin. apply in_map_iff in Hin. destruct Hin as (kk & <- & Hk).
      apply in_map_iff in Hk. destruct Hk as (k & <- & Hk). apply in_seq in Hk. apply (Hchan k). fold c in Hk. lia.
    - (* mid / side *)
      remember (chans channels block) as cs eqn:Ecs. destruct cs as [|l [|r [|? ?]]]; try destruct Hin.
      destruct (N.eqb_spec channels 2) as [H2|H2]; [|destruct Hin].
      assert (El : l = channel_samples channels block (N.of_nat 0) /\ r = channel_samples channels block (N.of_nat 1)).
      { unfold chans in Ecs. rewrite H2 in Ecs. cbn in Ecs. inversion Ecs. rewrite H2. split; reflexivity. }
      destruct El as [-> ->]. assert (Hc2 : c = 2%nat) by (unfold c; rewrite H2; reflexivity).
      destruct (Hchan 0%nat ltac:(lia)) as [L0 _]. destruct (Hchan 1%nat ltac:(lia)) as [L1 _].
      destruct Hin as [E|[E|[]]]; injection E as <- <-; unfold mids, sides; rewrite map_length, combine_length; change (N.of_nat 0) with 0 in L0; change (N.of_nat 1) with 1 in L1; rewrite L0, L1; apply Nat.min_id.
    - apply in_combine_l in Hin as Hidx. apply in_combine_r in Hin. unfold chans in Hin. apply in_map_iff in Hin. destruct Hin as (kk & <- & Hk).
      apply in_map_iff in Hk. destruct Hk as (k & <- & Hk). apply in_seq in Hk.
      apply in_map_iff in Hidx. destruct Hidx as (k' & <- & Hk'). apply in_seq in Hk'.
      assert (Hvb : var_bps bps (N.of_nat k') = bps).
      { unfold var_bps, VAR_SIDE. destruct (N.eqb_spec (N.of_nat k') 9); [fold c in Hk'; lia | reflexivity]. }
      rewrite Hvb. apply (Hchan k). fold c in Hk. lia.
    - remember (chans channels block) as cs eqn:Ecs. destruct cs as [|l [|r [|? ?]]]; try destruct Hin.
      destruct (N.eqb_spec channels 2) as [H2|H2]; [|destruct Hin].
      assert (El : l = channel_samples channels block (N.of_nat 0) /\ r = channel_samples channels block (N.of_nat 1)).
      { unfold chans in Ecs. rewrite H2 in Ecs. cbn in Ecs. inversion Ecs. rewrite H2. split; reflexivity. }
      destruct El as [-> ->]. assert (Hc2 : c = 2%nat) by (unfold c; rewrite H2; reflexivity).
      destruct (Hchan 0%nat ltac:(lia)) as [_ R0]. destruct (Hchan 1%nat ltac:(lia)) as [_ R1].
      rewrite forallb_forall in R0, R1. change (N.of_nat 0) with 0 in R0. change (N.of_nat 1) with 1 in R1.
      destruct Hin as [E|[E|[]]]; injection E as <- <-; unfold mids, sides; apply forallb_forall; intros x Hx;
        apply in_map_iff in Hx; destruct Hx as ([a b] & <- & Hab); cbn [fst snd];
        pose proof (in_combine_l _ _ _ _ Hab) as Ha; pose proof (in_combine_r _ _ _ _ Hab) as Hb'.
      + change (var_bps bps VAR_MID) with bps. apply mid_in_range; [exact Hb1 | apply R0; exact Ha | apply R1; exact Hb'].
      + change (var_bps bps VAR_SIDE) with (bps + 1). apply side_in_range; [exact Hb1 | apply R0; exact Ha | apply R1; exact Hb'].
  Qed.
End BH.

(* ---- the stream theorems with only the LPC-estimator hypotheses left ---- *)
From FV Require Import Model.Config Model.Parser Proofs.ConfigP Proofs.EncodeTotal Proofs.ParseEncoded.

Section Reduced.
  Variable ent : N -> N -> N -> N.
  Variable qlpc : N -> N -> qparams.
  Variable md5 : list N -> list N.

  Lemma encode_blocks_samples_ok cfg rate channels bps : forall blocks fi frames,
    encode_blocks ent qlpc cfg rate channels bps fi blocks = Ok frames -> Forall (fun b => samples_ok bps b = true) blocks.
  Proof.
    induction blocks as [|b r IH]; intros fi frames E; [constructor|]. cbn [encode_blocks] in E.
    destruct (encode_fixed_size_frame ent qlpc cfg rate channels bps fi fi b) as [f| |] eqn:Ef; cbn [bind] in E; try discriminate.
    destruct (encode_blocks ent qlpc cfg rate channels bps (fi + 1) r) as [fs| |] eqn:Efs; cbn [bind] in E; try discriminate.
    constructor; [|exact (IH _ _ Efs)]. unfold encode_fixed_size_frame in Ef.
    destruct (2 ^ 31 <=? fi); [discriminate|]. destruct (samples_ok bps b); [reflexivity | discriminate].
  Qed.

  (* the LPC hypotheses for every block of a stream *)
  Definition stream_lpc_hyps (cfg : config) (channels bs : N) (samples : list Z) : Prop :=
    forall j b, nth_error (chunks (N.to_nat (bs * channels)) samples) j = Some b -> lpc_hyps qlpc cfg (N.of_nat j) channels b.

  Lemma stream_block_hyps cfg channels bps bs samples (total : nat) :
    In bps [8; 12; 16; 20; 24] -> 1 <= channels <= 8 -> 1 <= bs ->
    length samples = (total * N.to_nat channels)%nat ->
    Forall (fun b => samples_ok bps b = true) (chunks (N.to_nat (bs * channels)) samples) ->
    stream_lpc_hyps cfg channels bs samples ->
    forall j b, nth_error (chunks (N.to_nat (bs * channels)) samples) j = Some b ->
                block_hyps qlpc cfg (N.of_nat j) channels bps b (length b / N.to_nat channels).
  Proof.
    intros Hbps Hch Hbs Hlen Hall Hl j b Hj.
    set (c := N.to_nat channels) in *.
    assert (Hk : N.to_nat (bs * channels) = (N.to_nat bs * c)%nat) by (unfold c; lia).
    rewrite Hk in *.
    assert (Hchunked : chunked (N.to_nat bs * c) c (chunks (N.to_nat bs * c) samples)).
    { apply (chunks_chunked (N.to_nat bs * c) c (N.to_nat bs) samples total); [unfold c; nia | reflexivity | exact Hlen]. }
    assert (Hm : exists m, length b = (m * c)%nat).
    { pose proof (nth_error_In _ _ Hj) as Hin. clear -Hchunked Hin. induction Hchunked as [|b0 Hb [m Hm]|b0 b2 r Hb Hr IH].
      - destruct Hin.
      - destruct Hin as [<-|[]]. exists m. exact Hm.
      - destruct Hin as [<-|Hin]; [exists (N.to_nat bs); exact Hb | exact (IH Hin)]. }
    destruct Hm as [m Hm].
    assert (Hdiv : (length b / c = m)%nat) by (rewrite Hm; apply Nat.div_mul; unfold c; lia).
    rewrite Hdiv. apply block_hyps_intro; try assumption.
    - rewrite Forall_forall in Hall. apply Hall. exact (nth_error_In _ _ Hj).
    - apply (Hl j b). rewrite Hk. exact Hj.
  Qed.

  Theorem stream_end_to_end_lpc cfg rate channels bps bs samples bytes (total : nat) :
    encode_stream_bytes ent qlpc md5 cfg rate channels bps bs samples = Ok bytes ->
    cfg_max_parameter cfg <= 14 -> In bps [8; 12; 16; 20; 24] -> 1 <= rate < 2 ^ 20 -> 1 <= channels <= 8 ->
    16 <= bs <= c_MAX_BLOCK_SIZE ->
    length samples = (total * N.to_nat channels)%nat -> N.of_nat total < 2 ^ 36 ->
    length (md5 (md5_input bps samples)) = 16%nat -> Forall lt256 (md5 (md5_input bps samples)) ->
    stream_lpc_hyps cfg channels bs samples ->
    exists minf maxf,
      decode_stream bytes = Some (mkSinfo bs bs minf maxf rate channels bps (N.of_nat total) (md5 (md5_input bps samples)), samples).
  Proof.
    intros E Hmp Hbps Hrate Hch Hbs Hlen Htot Hml Hm256 Hl.
    assert (Hall : Forall (fun b => samples_ok bps b = true) (chunks (N.to_nat (bs * channels)) samples)).
    { unfold encode_stream_bytes, encode_stream in E.
      destruct (encode_blocks ent qlpc cfg rate channels bps 0 _) as [frames| |] eqn:Ebl; cbn [bind] in E; try discriminate.
      exact (encode_blocks_samples_ok cfg rate channels bps _ _ _ Ebl). }
    apply (stream_end_to_end ent qlpc md5 cfg rate channels bps bs samples bytes total E Hmp Hbps Hrate Hch Hbs Hlen Htot Hml Hm256).
    exact (stream_block_hyps cfg channels bps bs samples total Hbps Hch ltac:(lia) Hlen Hall Hl).
  Qed.

  (* C03 on the decoded side *)
  Corollary decoded_streaminfo_true cfg rate channels bps bs samples bytes (total : nat) :
    encode_stream_bytes ent qlpc md5 cfg rate channels bps bs samples = Ok bytes ->
    cfg_max_parameter cfg <= 14 -> In bps [8; 12; 16; 20; 24] -> 1 <= rate < 2 ^ 20 -> 1 <= channels <= 8 ->
    16 <= bs <= c_MAX_BLOCK_SIZE ->
    length samples = (total * N.to_nat channels)%nat -> N.of_nat total < 2 ^ 36 ->
    length (md5 (md5_input bps samples)) = 16%nat -> Forall lt256 (md5 (md5_input bps samples)) ->
    stream_lpc_hyps cfg channels bs samples ->
    exists si decoded,
      decode_stream bytes = Some (si, decoded) /\ decoded = samples /\
      i_rate si = rate /\ i_channels si = channels /\ i_bps si = bps /\
      i_total si * channels = N.of_nat (length decoded) /\ i_md5 si = md5 (md5_input bps decoded).
  Proof.
    intros E Hmp Hbps Hrate Hch Hbs Hlen Htot Hml Hm256 Hl.
    destruct (stream_end_to_end_lpc cfg rate channels bps bs samples bytes total E Hmp Hbps Hrate Hch Hbs Hlen Htot Hml Hm256 Hl)
      as (minf & maxf & D).
    eexists. exists samples. split; [exact D|]. cbn [i_rate i_channels i_bps i_total i_md5].
    repeat split. rewrite Hlen, Nat2N.inj_mul, N2Nat.id. reflexivity.
  Qed.

  (* with the LPC branch switched off there is no hypothesis on any estimator left *)
  Corollary stream_end_to_end_no_lpc cfg rate channels bps bs samples bytes (total : nat) :
    encode_stream_bytes ent qlpc md5 cfg rate channels bps bs samples = Ok bytes ->
    cfg_use_lpc cfg = false ->
    cfg_max_parameter cfg <= 14 -> In bps [8; 12; 16; 20; 24] -> 1 <= rate < 2 ^ 20 -> 1 <= channels <= 8 ->
    16 <= bs <= c_MAX_BLOCK_SIZE ->
    length samples = (total * N.to_nat channels)%nat -> N.of_nat total < 2 ^ 36 ->
    length (md5 (md5_input bps samples)) = 16%nat -> Forall lt256 (md5 (md5_input bps samples)) ->
    exists minf maxf,
      decode_stream bytes = Some (mkSinfo bs bs minf maxf rate channels bps (N.of_nat total) (md5 (md5_input bps samples)), samples).
  Proof.
    intros E Hnl Hmp Hbps Hrate Hch Hbs Hlen Htot Hml Hm256.
    apply (stream_end_to_end_lpc cfg rate channels bps bs samples bytes total E Hmp Hbps Hrate Hch Hbs Hlen Htot Hml Hm256).
    intros j b _ Hu. rewrite Hnl in Hu. discriminate.
  Qed.

  (* C07 with the reduced hypotheses: verified configuration, valid input *)
  Theorem verified_config_lossless_lpc experimental cfg rate channels bps bs samples (total : nat) :
    verify experimental cfg = true -> In bps [8; 12; 16; 20; 24] -> 1 <= rate < 2 ^ 20 -> 1 <= channels <= 8 ->
    16 <= bs <= c_MAX_BLOCK_SIZE ->
    length samples = (total * N.to_nat channels)%nat -> N.of_nat total < 2 ^ 36 ->
    N.of_nat (length (chunks (N.to_nat (bs * channels)) samples)) <= 2 ^ 31 ->
    samples_ok bps samples = true ->
    length (md5 (md5_input bps samples)) = 16%nat -> Forall lt256 (md5 (md5_input bps samples)) ->
    stream_lpc_hyps cfg channels bs samples ->
    exists bytes minf maxf,
      encode_stream_bytes ent qlpc md5 cfg rate channels bps bs samples = Ok bytes /\
      decode_stream bytes = Some (mkSinfo bs bs minf maxf rate channels bps (N.of_nat total) (md5 (md5_input bps samples)), samples).
  Proof.
    intros Hv Hbps Hrate Hch Hbs Hlen Htot Hnb Hso Hml Hm256 Hl.
    apply (verified_config_lossless ent qlpc md5 experimental cfg rate channels bps bs samples total Hv Hbps Hrate Hch Hbs Hlen Htot Hnb Hso Hml Hm256).
    apply (stream_block_hyps cfg channels bps bs samples total Hbps Hch ltac:(lia) Hlen); [|exact Hl].
    apply chunks_samples_ok; [|exact Hso].
    assert (1 <= N.to_nat bs * N.to_nat channels)%nat by nia. lia.
  Qed.

  (* C15 for emitted streams, reduced in the same way *)
  Theorem encoded_stream_parses_back_lpc cfg rate channels bps bs samples s bytes (total : nat) :
    encode_stream ent qlpc md5 cfg rate channels bps bs samples = Ok s -> stream_bytes s = Ok bytes ->
    cfg_max_parameter cfg <= 14 -> In bps [8; 12; 16; 20; 24] -> rate <= 96000 -> 1 <= channels <= 8 ->
    1 <= bs <= c_MAX_BLOCK_SIZE ->
    length samples = (total * N.to_nat channels)%nat -> N.of_nat total < 2 ^ 36 ->
    length (md5 (md5_input bps samples)) = 16%nat -> Forall lt256 (md5 (md5_input bps samples)) ->
    stream_lpc_hyps cfg channels bs samples ->
    Parser.parse_stream bytes = Some s.
  Proof.
    intros E Eb Hmp Hbps Hrate Hch Hbs Hlen Htot Hml Hm256 Hl.
    assert (Hall : Forall (fun b => samples_ok bps b = true) (chunks (N.to_nat (bs * channels)) samples)).
    { unfold encode_stream in E.
      destruct (encode_blocks ent qlpc cfg rate channels bps 0 _) as [frames| |] eqn:Ebl; cbn [bind] in E; try discriminate.
      exact (encode_blocks_samples_ok cfg rate channels bps _ _ _ Ebl). }
    apply (ParseEncoded.encoded_stream_parses_back ent qlpc md5 cfg rate channels bps bs samples s bytes total E Eb Hmp Hbps Hrate Hch Hbs Hlen Htot Hml Hm256).
    exact (stream_block_hyps cfg channels bps bs samples total Hbps Hch ltac:(lia) Hlen Hall Hl).
  Qed.
End Reduced.

(* non-vacuity: the LPC branch on, an estimator whose answers meet stream_lpc_hyps, and a stream that encodes *)
Example lpc_hyps_satisfiable :
  let cfg := mkCfg 64 false None true true true true true true 4 None 10 15 false 0 None 14 in
  let qlpc := fun _ _ : N => mkQ [1%Z] 0%Z 2 in
  let ent := fun _ _ _ : N => 0 in
  let md5 := fun _ : list N => repeat 7 16%nat in
  let samples := map (fun k => Z.of_nat k * 3 - 90)%Z (seq 0 70) in
  cfg_use_lpc cfg = true /\
  (match encode_stream_bytes ent qlpc md5 cfg 44100 1 16 64 samples with
   | Ok bytes => decode_stream bytes = Some (mkSinfo 64 64 22 23 44100 1 16 70 (repeat 7 16%nat), samples)
   | _ => False end) /\
  stream_lpc_hyps qlpc cfg 1 64 samples.
Proof.
  cbv zeta. split; [reflexivity|]. split.
  - vm_compute. reflexivity.
  - intros j b Hj _ var sig Hin.
    destruct j as [|[|j]].
    + vm_compute in Hj. inversion Hj; subst b. vm_compute in Hin. destruct Hin as [E|[]]. inversion E; subst.
      split; [vm_compute; reflexivity|]. split; [vm_compute; lia | vm_compute; reflexivity].
    + vm_compute in Hj. inversion Hj; subst b. vm_compute in Hin. destruct Hin as [E|[]]. inversion E; subst.
      split; [vm_compute; reflexivity|]. split; [vm_compute; lia | vm_compute; reflexivity].
    + vm_compute in Hj. destruct j; discriminate.
Qed.
