(* The bit reader of Flac.v seen as a consumer of a list of bits. *)
From FV Require Import Model.Base Model.Sink Model.Flac Proofs.SinkArith Proofs.SinkRefine.
Local Open Scope N_scope.

(* value of a bit list, MSB first *)
Definition bstep (a : N) (b : bool) : N := 2 * a + (if b then 1 else 0).
Definition valf (acc : N) (l : list bool) : N := fold_left bstep l acc.
Definition val (l : list bool) : N := valf 0 l.

Lemma valf_app acc a b : valf acc (a ++ b) = valf (valf acc a) b.
Proof. apply fold_left_app. Qed.

Lemma valf_shift : forall l acc, valf acc l = acc * 2 ^ N.of_nat (length l) + val l.
Proof.
  induction l as [|b t IH]; intros acc.
  - cbn. lia.
  - unfold val. cbn [valf fold_left length]. fold (valf (bstep acc b) t). fold (valf (bstep 0 b) t).
    rewrite (IH (bstep acc b)), (IH (bstep 0 b)). rewrite Nat2N.inj_succ, N.pow_succ_r'. unfold bstep. lia.
Qed.

Lemma mod_pow2_succ v k :
  v mod 2 ^ N.succ k = (if N.testbit v k then 1 else 0) * 2 ^ k + v mod 2 ^ k.
Proof.
  rewrite N.pow_succ_r', (N.mul_comm 2 (2 ^ k)).
  rewrite (N.mod_mul_r v (2 ^ k) 2 (pow2_nz k) ltac:(discriminate)).
  rewrite N.testbit_eqb.
  pose proof (N.mod_upper_bound (v / 2 ^ k) 2 ltac:(discriminate)) as Hb.
  set (m := (v / 2 ^ k) mod 2) in *. set (lo := v mod 2 ^ k). set (P := 2 ^ k).
  destruct (N.eqb_spec m 1) as [E|E]; [rewrite E; lia|].
  assert (m = 0) as -> by lia. lia.
Qed.

Lemma val_bits_msb : forall n v, val (bits_msb n v) = v mod 2 ^ N.of_nat n.
Proof.
  induction n as [|n IH]; intros v.
  - cbn. rewrite N.mod_1_r. reflexivity.
  - cbn [bits_msb]. unfold val. cbn [valf fold_left]. fold (valf (bstep 0 (N.testbit v (N.of_nat n))) (bits_msb n v)).
    rewrite valf_shift, bits_msb_length, IH. unfold bstep.
    rewrite Nat2N.inj_succ, mod_pow2_succ. destruct (N.testbit v (N.of_nat n)); lia.
Qed.

Lemma val_bits_msb_small n v : v < 2 ^ N.of_nat n -> val (bits_msb n v) = v.
Proof. intros H. rewrite val_bits_msb. apply N.mod_small. exact H. Qed.

(* ---- the reader as a bit-list consumer ---- *)
Definition bytes_bits (bs : list N) : list bool := flat_map (bits_msb 8) bs.
Definition rd_bits (r : rd) : list bool := skipn (N.to_nat (r_off r)) (bytes_bits (r_bytes r)).
Definition rd_wf (r : rd) : Prop := r_off r < 8 /\ (r_bytes r = [] -> r_off r = 0).
Definition rd_pos (r : rd) : N := 8 * r_cnt r + r_off r.

Lemma rd_of_bits b : rd_bits (rd_of b) = bytes_bits b.
Proof. reflexivity. Qed.
Lemma rd_of_wf b : rd_wf (rd_of b).
Proof. split; cbn; [lia | reflexivity]. Qed.

(* r' is r after consuming some whole bytes: the byte counter moved forward by exactly the bytes dropped *)
Definition rd_adv (r r' : rd) : Prop :=
  r_cnt r <= r_cnt r' /\ r_bytes r' = skipn (N.to_nat (r_cnt r' - r_cnt r)) (r_bytes r).

Lemma rd_adv_refl r : rd_adv r r.
Proof. split; [lia|]. rewrite N.sub_diag. reflexivity. Qed.

Lemma skipn_skipn' {A} : forall (b a : nat) (l : list A), skipn a (skipn b l) = skipn (b + a) l.
Proof.
  induction b as [|b IH]; intros a l; [reflexivity|].
  destruct l as [|x t]; [rewrite !skipn_nil; reflexivity|]. cbn [skipn Nat.add]. apply IH.
Qed.

Lemma rd_adv_trans r1 r2 r3 : rd_adv r1 r2 -> rd_adv r2 r3 -> rd_adv r1 r3.
Proof.
  intros [H1 E1] [H2 E2]. split; [lia|]. rewrite E2, E1, skipn_skipn'. f_equal. lia.
Qed.

Lemma rd_adv_intro r r' : r_cnt r <= r_cnt r' -> r_bytes r' = skipn (N.to_nat (r_cnt r' - r_cnt r)) (r_bytes r) -> rd_adv r r'.
Proof. intros A B. split; assumption. Qed.
Lemma rd_adv_elim r r' : rd_adv r r' -> r_cnt r <= r_cnt r' /\ r_bytes r' = skipn (N.to_nat (r_cnt r' - r_cnt r)) (r_bytes r).
Proof. intros H. exact H. Qed.
Global Opaque rd_adv.

(* closes the first three parts of a reader specification, leaving the position and the advance *)
Ltac fin5 H := split; [reflexivity|]; split; [assumption|]; split; [exact H|]; split.

Lemma off_cases o : o < 8 -> o = 0 \/ o = 1 \/ o = 2 \/ o = 3 \/ o = 4 \/ o = 5 \/ o = 6 \/ o = 7.
Proof. intros H. lia. Qed.

Lemma read_bit_spec r b t :
  rd_wf r -> rd_bits r = b :: t ->
  exists r', read_bit r = Some (b, r') /\ rd_bits r' = t /\ rd_wf r' /\ rd_pos r' = rd_pos r + 1
             /\ rd_adv r r'.
Proof.
  intros [Hoff Hnil] Hb. destruct r as [bytes off cnt]. cbn [r_bytes r_off r_cnt] in *.
  unfold rd_bits in Hb. cbn [r_bytes r_off] in Hb.
  destruct bytes as [|x bs].
  - rewrite (Hnil eq_refl) in Hb. discriminate.
  - unfold read_bit. cbn [r_bytes r_off r_cnt]. unfold bytes_bits in Hb. cbn [flat_map] in Hb.
    unfold rd_bits, rd_wf, rd_pos. cbn [r_bytes r_off r_cnt].
    destruct (off_cases off Hoff) as [->|[->|[->|[->|[->|[->|[->| ->]]]]]]];
      cbn [N.to_nat Pos.to_nat Pos.iter_op Nat.add bits_msb app skipn N.of_nat Pos.of_succ_nat Pos.succ] in Hb;
      inversion Hb; subst; cbn [N.eqb Pos.eqb];
      (eexists; split; [reflexivity|]); cbn [r_bytes r_off r_cnt];
      (split; [unfold bytes_bits; cbn [flat_map bits_msb app skipn N.to_nat Pos.to_nat Pos.iter_op Nat.add N.of_nat Pos.of_succ_nat Pos.succ]; reflexivity|]);
      (split; [split; [lia | intros; try discriminate; reflexivity]|]);
      (split; [lia|]);
      (apply rd_adv_intro; cbn [r_cnt r_bytes]; [lia|]; first [rewrite N.sub_diag; reflexivity | replace (cnt + 1 - cnt) with 1 by lia; reflexivity]).
Qed.

Lemma read_bits_spec : forall n l rest acc r,
  rd_wf r -> rd_bits r = l ++ rest -> length l = n ->
  exists r', read_bits n acc r = Some (valf acc l, r') /\ rd_bits r' = rest /\ rd_wf r'
             /\ rd_pos r' = rd_pos r + N.of_nat n /\ rd_adv r r'.
Proof.
  induction n as [|n IH]; intros l rest acc r Hwf Hb Hl.
  - destruct l; [|discriminate]. exists r. cbn [read_bits valf fold_left app] in *.
    fin5 Hwf; [lia | apply rd_adv_refl].
  - destruct l as [|b l']; [discriminate|]. cbn [app] in Hb.
    destruct (read_bit_spec r b (l' ++ rest) Hwf Hb) as (r1 & E1 & Hb1 & Hwf1 & Hp1 & Hk1).
    destruct (IH l' rest (bstep acc b) r1 Hwf1 Hb1 ltac:(cbn in Hl; lia)) as (r2 & E2 & Hb2 & Hwf2 & Hp2 & Hk2).
    exists r2. cbn [read_bits]. rewrite E1. unfold bstep in E2. rewrite E2.
    fin5 Hwf2.
    + rewrite Hp2, Hp1, Nat2N.inj_succ. lia.
    + exact (rd_adv_trans _ _ _ Hk1 Hk2).
Qed.

Lemma rbits_spec n l rest r :
  rd_wf r -> rd_bits r = l ++ rest -> N.of_nat (length l) = n ->
  exists r', rbits n r = Some (val l, r') /\ rd_bits r' = rest /\ rd_wf r'
             /\ rd_pos r' = rd_pos r + n /\ rd_adv r r'.
Proof.
  intros Hwf Hb Hl. unfold rbits, val.
  destruct (read_bits_spec (N.to_nat n) l rest 0 r Hwf Hb ltac:(lia)) as (r' & E & H1 & H2 & H3 & H4).
  exists r'. rewrite N2Nat.id in H3. auto.
Qed.

(* reading back a field written as the n low bits of v *)
Lemma rbits_field n v rest r :
  rd_wf r -> rd_bits r = bits_msb (N.to_nat n) v ++ rest ->
  exists r', rbits n r = Some (v mod 2 ^ n, r') /\ rd_bits r' = rest /\ rd_wf r'
             /\ rd_pos r' = rd_pos r + n /\ rd_adv r r'.
Proof.
  intros Hwf Hb.
  destruct (rbits_spec n _ rest r Hwf Hb ltac:(rewrite bits_msb_length; lia)) as (r' & E & H).
  exists r'. rewrite val_bits_msb, N2Nat.id in E. auto.
Qed.

(* ---- two's complement ---- *)
Lemma to_signed_twoc n x :
  1 <= n -> (- 2 ^ (Z.of_N n - 1) <= x < 2 ^ (Z.of_N n - 1))%Z ->
  to_signed n (Z.to_N (x mod 2 ^ Z.of_N n)) = x.
Proof.
  intros Hn Hx. unfold to_signed.
  destruct (N.eqb_spec n 0); [lia|].
  assert (Hp : (2 ^ Z.of_N n = 2 * 2 ^ (Z.of_N n - 1))%Z).
  { rewrite <- Z.pow_succ_r by lia. f_equal. lia. }
  assert (HN : Z.of_N (2 ^ (n - 1)) = (2 ^ (Z.of_N n - 1))%Z).
  { rewrite N2Z.inj_pow. f_equal. lia. }
  assert (Hpos : (0 < 2 ^ (Z.of_N n - 1))%Z) by (apply Z.pow_pos_nonneg; lia).
  set (Hz := (2 ^ (Z.of_N n - 1))%Z) in *. set (H := 2 ^ (n - 1)) in *.
  rewrite N.testbit_eqb. fold H.
  destruct (Z.ltb_spec x 0) as [Hneg|Hnn].
  - assert (E : (x mod 2 ^ Z.of_N n = x + 2 ^ Z.of_N n)%Z).
    { symmetry. apply Z.mod_unique with (q := (-1)%Z); lia. }
    rewrite E. set (y := Z.to_N (x + 2 ^ Z.of_N n)).
    assert (Hy : Z.of_N y = (x + 2 ^ Z.of_N n)%Z) by (unfold y; rewrite Z2N.id; lia).
    assert (Hd : y / H = 1).
    { symmetry. apply N.div_unique with (r := y - H); lia. }
    rewrite Hd. change (1 mod 2 =? 1) with true. cbv iota. lia.
  - assert (E : (x mod 2 ^ Z.of_N n = x)%Z) by (apply Z.mod_small; lia).
    rewrite E. set (y := Z.to_N x).
    assert (Hy : Z.of_N y = x) by (unfold y; rewrite Z2N.id; lia).
    assert (Hd : y / H = 0) by (apply N.div_small; lia).
    rewrite Hd. change (0 mod 2 =? 1) with false. cbv iota. exact Hy.
Qed.
