(* The unary reader (byte-structural in Flac.v) on a run of zeros ended by a one. *)
From FV Require Import Model.Base Model.Sink Model.Flac Proofs.SinkArith Proofs.SinkRefine Proofs.BitRead.
Local Open Scope N_scope.

Lemma first_true_unique : forall (k q : nat) (more rest : list bool),
  repeat false k ++ true :: more = repeat false q ++ true :: rest -> q = k /\ rest = more.
Proof.
  induction k as [|k IH]; intros q more rest H; destruct q as [|q]; cbn [repeat app] in H.
  - inversion H. auto.
  - discriminate.
  - discriminate.
  - inversion H as [H']. destruct (IH q more rest H') as [-> ->]. auto.
Qed.

Lemma all_false_split : forall (k q : nat) (l rest : list bool),
  repeat false k ++ l = repeat false q ++ true :: rest ->
  (k <= q)%nat /\ l = repeat false (q - k) ++ true :: rest.
Proof.
  induction k as [|k IH]; intros q l rest H.
  - cbn [repeat app] in H. split; [lia|]. rewrite Nat.sub_0_r. exact H.
  - destruct q as [|q]; cbn [repeat app] in H; [discriminate|].
    inversion H as [H']. destruct (IH q l rest H') as [Hle Hl]. split; [lia|]. exact Hl.
Qed.

Lemma skipn_app_le {A} : forall (n : nat) (a b : list A), (n <= length a)%nat -> skipn n (a ++ b) = skipn n a ++ b.
Proof.
  induction n as [|n IH]; intros a b H; [reflexivity|].
  destruct a as [|x t]; [cbn in H; lia|]. cbn [app skipn]. apply IH. cbn in H. lia.
Qed.

(* find_one on the eight bits of a byte, as a statement about lists *)
Lemma find_one_spec x off : off < 8 ->
  match find_one x off with
  | Some p => off <= p < 8 /\
              skipn (N.to_nat off) (bits_msb 8 x) = repeat false (N.to_nat (p - off)) ++ true :: skipn (N.to_nat (p + 1)) (bits_msb 8 x)
  | None => skipn (N.to_nat off) (bits_msb 8 x) = repeat false (N.to_nat (8 - off))
  end.
Proof.
  intros Hoff. unfold find_one. cbn [bits_msb N.of_nat Pos.of_succ_nat Pos.succ].
  destruct (off_cases off Hoff) as [->|[->|[->|[->|[->|[->|[->| ->]]]]]]];
    cbn [find N.leb N.compare Pos.compare Pos.compare_cont andb N.sub Pos.sub_mask Pos.sub Pos.pred_double Pos.double_mask
         Pos.succ_double_mask Pos.double_pred_mask Pos.pred Pos.sub_mask_carry];
    destruct (N.testbit x 7), (N.testbit x 6), (N.testbit x 5), (N.testbit x 4),
             (N.testbit x 3), (N.testbit x 2), (N.testbit x 1), (N.testbit x 0);
    cbv beta iota; first [ split; [lia | reflexivity] | reflexivity ].
Qed.

Lemma read_unary_bytes_spec : forall bytes off acc cnt (q : nat) rest,
  off < 8 ->
  skipn (N.to_nat off) (bytes_bits bytes) = repeat false q ++ true :: rest ->
  exists r', read_unary_bytes bytes off acc cnt = Some (acc + N.of_nat q, r') /\ rd_bits r' = rest /\ rd_wf r'
             /\ rd_pos r' = 8 * cnt + off + N.of_nat q + 1 /\ cnt <= r_cnt r' /\ r_bytes r' = skipn (N.to_nat (r_cnt r' - cnt)) bytes.
Proof.
  induction bytes as [|x bs IH]; intros off acc cnt q rest Hoff H.
  - unfold bytes_bits in H. cbn [flat_map] in H. rewrite skipn_nil in H. destruct q; discriminate.
  - unfold bytes_bits in H. cbn [flat_map] in H. fold (bytes_bits bs) in H.
    rewrite skipn_app_le in H by (rewrite bits_msb_length; lia).
    cbn [read_unary_bytes].
    pose proof (find_one_spec x off Hoff) as Hf.
    destruct (find_one x off) as [p|].
    + destruct Hf as [Hp Hs]. rewrite Hs, <- app_assoc in H. cbn [app] in H.
      destruct (first_true_unique _ _ _ _ H) as [Hq Hr]. subst q rest.
      eexists. split; [f_equal; f_equal; lia|].
      destruct (N.eqb_spec p 7) as [->|Hne].
      * unfold rd_bits, rd_wf, rd_pos. cbn [r_bytes r_off r_cnt].
        replace (N.to_nat (7 + 1)) with 8%nat by reflexivity.
        rewrite (skipn_all2 (bits_msb 8 x)) by (rewrite bits_msb_length; lia).
        split; [reflexivity|]. split; [split; [lia | intros; reflexivity]|]. split; [lia|]. split; [lia|]. replace (cnt + 1 - cnt) with 1 by lia. reflexivity.
      * unfold rd_bits, rd_wf, rd_pos. cbn [r_bytes r_off r_cnt].
        unfold bytes_bits. cbn [flat_map]. fold (bytes_bits bs).
        rewrite skipn_app_le by (rewrite bits_msb_length; lia).
        split; [reflexivity|]. split; [split; [lia | intros; discriminate]|]. split; [lia|]. split; [lia|]. rewrite N.sub_diag. reflexivity.
    + rewrite Hf in H. destruct (all_false_split _ _ _ _ H) as [Hle Hl].
      destruct (IH 0 (acc + (8 - off)) (cnt + 1) (q - N.to_nat (8 - off))%nat rest ltac:(lia) Hl)
        as (r' & E & Hb & Hwf & Hpos & Hc & Hk).
      exists r'. rewrite E. split; [f_equal; f_equal; lia|]. split; [exact Hb|]. split; [exact Hwf|].
      split; [rewrite Hpos; lia|]. split; [lia|]. rewrite Hk.
      replace (N.to_nat (r_cnt r' - cnt)) with (S (N.to_nat (r_cnt r' - (cnt + 1)))) by lia. reflexivity.
Qed.

(* runary on a reader whose next bits are q zeros and a one *)
Theorem runary_spec r (q : nat) rest :
  rd_wf r -> rd_bits r = repeat false q ++ true :: rest ->
  exists r', runary r = Some (N.of_nat q, r') /\ rd_bits r' = rest /\ rd_wf r'
             /\ rd_pos r' = rd_pos r + N.of_nat q + 1 /\ rd_adv r r'.
Proof.
  intros [Hoff _] H. unfold runary.
  destruct (read_unary_bytes_spec (r_bytes r) (r_off r) 0 (r_cnt r) q rest Hoff H) as (r' & E & H1 & H2 & H3 & H4 & H5).
  exists r'. rewrite E. split; [reflexivity|]. split; [exact H1|]. split; [exact H2|].
  split; [rewrite H3; unfold rd_pos; lia | apply rd_adv_intro; assumption].
Qed.
