(* Refinement of MemSink<u8> to the ideal bit string. *)
From FV Require Import Model.Base Model.Sink Proofs.SinkArith Proofs.SinkU64.
Local Open Scope N_scope.

Lemma div_split val a c : c <= a ->
  val / 2 ^ c = (val / 2 ^ a) * 2 ^ (a - c) + (val mod 2 ^ a) / 2 ^ c.
Proof.
  intros H. pose proof (split_hi_lo val a) as E.
  set (h := val / 2 ^ a) in *. set (l := val mod 2 ^ a) in *.
  rewrite E. rewrite (pow2_split a c H), N.mul_assoc.
  apply N.div_add_l, pow2_nz.
Qed.

Lemma if_ok (c : bool) A (a b : A) : (if c then Ok a else Ok b) = Ok (if c then a else b).
Proof. destruct c; reflexivity. Qed.

(* top bytes pushed by push_top_bytes *)
Lemma push_top_bytes_spec w : forall j val st,
  val < 2 ^ w -> 8 * N.of_nat j <= w ->
  Forall (fun x => x < 2 ^ 8) st ->
  rval 8 (push_top_bytes j w val st) = rval 8 st * 2 ^ (8 * N.of_nat j) + val / 2 ^ (w - 8 * N.of_nat j)
  /\ length (push_top_bytes j w val st) = (length st + j)%nat
  /\ Forall (fun x => x < 2 ^ 8) (push_top_bytes j w val st).
Proof.
  induction j as [|j IH]; intros val st Hval Hj Hall.
  - cbn [push_top_bytes N.of_nat]. rewrite N.mul_0_r, N.pow_0_r, N.mul_1_r, N.sub_0_r.
    rewrite (N.div_small val) by assumption. repeat split; try lia; assumption.
  - cbn [push_top_bytes]. p2.
    rewrite Nat2N.inj_succ in Hj |- *.
    assert (H8 : 8 <= w) by lia.
    assert (Hsh : (val * 256) mod 2 ^ w = (val mod 2 ^ (w - 8)) * 2 ^ 8).
    { pose proof (shl_mod_top val w (w - 8) ltac:(lia)) as Hs.
      replace (w - (w - 8)) with 8 in Hs by lia. exact Hs. }
    assert (Hb : val / 2 ^ (w - 8) < 2 ^ 8).
    { replace 8 with (w - (w - 8)) at 2 by lia. apply hi_bound; [lia|assumption]. }
    assert (Hlt : (val * 256) mod 2 ^ w < 2 ^ w) by apply mod_pow2_lt.
    destruct (IH ((val * 256) mod 2 ^ w) ((val / 2 ^ (w - 8)) :: st) Hlt ltac:(lia)
                 ltac:(constructor; assumption)) as (E1 & E2 & E3).
    repeat split.
    + rewrite E1. cbn [rval]. rewrite Hsh.
      set (J := N.of_nat j) in *.
      rewrite mul_pow2_div_ge by lia.
      replace (w - 8 * J - 8) with (w - 8 * N.succ J) by lia.
      rewrite (div_split val (w - 8) (w - 8 * N.succ J)) by lia.
      replace (w - 8 - (w - 8 * N.succ J)) with (8 * J) by lia.
      replace (8 * N.succ J) with (8 + 8 * J) by lia. rewrite N.pow_add_r. lia.
    + rewrite E2. cbn [length]. lia.
    + assumption.
Qed.

(* the aligned phase of write_msbs: whole bytes followed by an optional partial byte *)
Lemma u8_aligned_phase w st A d k bl :
  8 <= w -> k <= w -> d < 2 ^ k ->
  Forall (fun x => x < 2 ^ 8) st -> rval 8 st = A ->
  8 * N.of_nat (length st) + k = bl ->
  let val1 := d * 2 ^ (w - k) in
  let btw := k / 8 in
  let st2 := push_top_bytes (N.to_nat btw) w val1 st in
  let n2 := k mod 8 in
  let s' := if 0 <? n2
            then mkSink ((((val1 * 2 ^ (8 * btw)) mod 2 ^ w / 2 ^ (w - 8)) mod 256) :: st2) bl
            else mkSink st2 bl in
  forall b, blen_i b = bl -> bval b = A * 2 ^ k + d -> R KU8 s' b.
Proof.
  intros H8 Hk Hd Hall HA Hbl val1 btw st2 n2 s' b Hb1 Hb2.
  assert (Hkd : k = 8 * btw + n2) by (apply N.div_mod; lia).
  assert (Hn2 : n2 < 8) by (apply N.mod_lt; lia).
  assert (Hval1 : val1 < 2 ^ w).
  { unfold val1. replace w with (k + (w - k)) at 2 by lia. apply mul_lt_pow2; [assumption|lia]. }
  destruct (push_top_bytes_spec w (N.to_nat btw) val1 st Hval1 ltac:(rewrite N2Nat.id; lia) Hall)
    as (E1 & E2 & E3).
  rewrite N2Nat.id in E1. fold st2 in E1, E2, E3.
  assert (Ediv : val1 / 2 ^ (w - 8 * btw) = d / 2 ^ n2).
  { unfold val1. rewrite mul_pow2_div_ge by lia. do 2 f_equal. lia. }
  rewrite Ediv, HA in E1.
  subst s'. destruct (N.ltb_spec 0 n2) as [Hpos|Hz].
  - assert (Etail : (val1 * 2 ^ (8 * btw)) mod 2 ^ w = (d mod 2 ^ n2) * 2 ^ (w - n2)).
    { unfold val1. rewrite <- N.mul_assoc, <- N.pow_add_r.
      replace (w - k + 8 * btw) with (w - n2) by lia. apply shl_mod_top. lia. }
    rewrite Etail.
    assert (Etb : (d mod 2 ^ n2) * 2 ^ (w - n2) / 2 ^ (w - 8) = (d mod 2 ^ n2) * 2 ^ (8 - n2)).
    { rewrite mul_pow2_div_le by lia. do 2 f_equal. lia. }
    rewrite Etb.
    assert (Hlt : (d mod 2 ^ n2) * 2 ^ (8 - n2) < 2 ^ 8).
    { replace 8 with (n2 + (8 - n2)) at 2 by lia. apply mul_lt_pow2; [apply mod_pow2_lt | lia]. }
    rewrite (N.mod_small _ 256) by exact Hlt.
    apply (R_intro KU8 _ _ (8 - n2)); cbn [wordbits rst blen length].
    + rewrite Nat2N.inj_succ, E2, Nat2N.inj_add, N2Nat.id. lia.
    + lia.
    + constructor; assumption.
    + cbn [rval]. rewrite E1, Hb2.
      rewrite (split_hi_lo d n2) at 3.
      assert (Ek : 2 ^ k = 2 ^ (8 * btw) * 2 ^ n2).
      { rewrite <- N.pow_add_r. f_equal. lia. }
      assert (E8 : 2 ^ 8 = 2 ^ n2 * 2 ^ (8 - n2)).
      { rewrite <- N.pow_add_r. f_equal. lia. }
      rewrite Ek, E8.
      set (X := 2 ^ (8 * btw)). set (Y := 2 ^ n2). set (Z := 2 ^ (8 - n2)). nia.
    + lia.
  - assert (n2 = 0) by lia.
    apply (R_intro KU8 _ _ 0); cbn [wordbits rst blen length].
    + rewrite E2, Nat2N.inj_add, N2Nat.id. lia.
    + lia.
    + assumption.
    + rewrite E1, Hb2, N.pow_0_r, N.mul_1_r.
      rewrite H in *. rewrite N.pow_0_r, N.div_1_r. rewrite N.add_0_r in Hkd. rewrite <- Hkd. reflexivity.
    + lia.
Qed.

Lemma u8_write_msbs_R s b w v n :
  R KU8 s b -> 8 <= w -> n <= w -> v < 2 ^ w ->
  exists s', u8_write_msbs w v n s = Ok s' /\ R KU8 s' (bpush b n ((v mod 2 ^ w) / 2 ^ (w - n))).
Proof.
  intros HR H8 Hn Hv. unfold u8_write_msbs. p2.
  destruct (N.eqb_spec n 0) as [->|Hn0].
  { exists s. split; [reflexivity|]. rewrite bpush_0. assumption. }
  destruct (N.ltb_spec w n) as [?|_]; [lia|].
  destruct (mask_msbs_eq w v n Hn Hv) as [Em Hd]. rewrite Em.
  rewrite (N.mod_small v) by assumption. rewrite bpush_small by assumption.
  set (d := v / 2 ^ (w - n)) in *.
  destruct (R_pad _ _ _ HR) as (p & Hpad & HL & Hp & Hall & Hval & Hlen).
  cbn [wordbits] in *. rewrite Hpad. clear Hpad.
  destruct (N.eqb_spec p 0) as [Hp0|Hp0].
  - (* already aligned *)
    subst p. cbn [bind]. rewrite if_ok. p2.
    eexists. split; [reflexivity|].
    rewrite N.pow_0_r, N.mul_1_r in Hval.
    eapply (u8_aligned_phase w (rst s) (bval b) d n (blen s + n)); try eassumption; try lia;
      cbn [blen_i bval]; try reflexivity; lia.
  - destruct (rst s) as [|x t] eqn:Est.
    { cbn [length] in HL. lia. }
    cbn [or_last bind].
    inversion Hall as [|x' t' Hx Ht]; subst x' t'.
    assert (Hxm : x mod 2 ^ p = 0).
    { eapply last_word_facts; [exact Hval | lia | exact Hx]. }
    destruct (N.leb_spec n p) as [Hnp|Hnp].
    + (* fits in the tail of the last byte *)
      assert (Hls : d * 2 ^ (w - n) / 2 ^ (w - p) = d * 2 ^ (p - n)).
      { rewrite mul_pow2_div_le by lia. do 2 f_equal. lia. }
      rewrite Hls.
      assert (Hhi : d * 2 ^ (p - n) < 2 ^ p).
      { replace p with (n + (p - n)) at 2 by lia. apply mul_lt_pow2; [assumption | lia]. }
      assert (H256 : d * 2 ^ (p - n) < 256).
      { eapply N.lt_le_trans; [exact Hhi|]. change 256 with (2 ^ 8). apply pow2_le. lia. }
      rewrite (N.mod_small _ 256) by exact H256.
      rewrite (lor_add x _ p Hxm Hhi).
      eexists. split; [reflexivity|].
      apply (R_intro KU8 _ _ (p - n)); cbn [wordbits rst blen length blen_i bval] in *.
      * lia.
      * lia.
      * constructor; [|assumption].
        pose proof (split_hi_lo x p) as Hx2. rewrite Hxm, N.add_0_r in Hx2.
        assert (Hq : x / 2 ^ p < 2 ^ (8 - p)) by (apply hi_bound; [lia | assumption]).
        rewrite (pow2_split 8 p) by lia. pose proof (pow2_pos p). nia.
      * cbn [rval] in *.
        assert (Ep : 2 ^ p = 2 ^ n * 2 ^ (p - n)).
        { rewrite <- N.pow_add_r. f_equal. lia. }
        rewrite Ep in Hval.
        set (A := 2 ^ (p - n)) in *. set (B := 2 ^ n) in *. clearbody A B. nia.
      * lia.
    + (* top p bits complete the last byte, the other k = n - p bits follow *)
      set (k := n - p).
      assert (Hls : d * 2 ^ (w - n) / 2 ^ (w - p) = d / 2 ^ k).
      { rewrite mul_pow2_div_ge by lia. do 2 f_equal. lia. }
      rewrite Hls.
      assert (Hhi : d / 2 ^ k < 2 ^ p).
      { replace p with (n - k) by lia. apply hi_bound; [lia | assumption]. }
      assert (H256 : d / 2 ^ k < 256).
      { eapply N.lt_le_trans; [exact Hhi|]. change 256 with (2 ^ 8). apply pow2_le. lia. }
      rewrite (N.mod_small _ 256) by exact H256.
      rewrite (lor_add x _ p Hxm Hhi).
      assert (Hshift : (d * 2 ^ (w - n) * 2 ^ p) mod 2 ^ w = (d mod 2 ^ k) * 2 ^ (w - k)).
      { rewrite <- N.mul_assoc, <- N.pow_add_r. replace (w - n + p) with (w - k) by lia.
        apply shl_mod_top. lia. }
      rewrite Hshift. cbn [bind]. rewrite if_ok. p2.
      eexists. split; [reflexivity|].
      assert (Hxb : x + d / 2 ^ k < 2 ^ 8).
      { pose proof (split_hi_lo x p) as Hx2. rewrite Hxm, N.add_0_r in Hx2.
        assert (Hq : x / 2 ^ p < 2 ^ (8 - p)) by (apply hi_bound; [lia | assumption]).
        rewrite (pow2_split 8 p) by lia. pose proof (pow2_pos p). nia. }
      eapply (u8_aligned_phase w ((x + d / 2 ^ k) :: t) _ (d mod 2 ^ k) k (blen s + n)).
      * lia.
      * lia.
      * apply mod_pow2_lt.
      * constructor; assumption.
      * reflexivity.
      * cbn [length] in *. lia.
      * cbn [blen_i]. lia.
      * cbn [bval rval] in *.
        pose proof (split_hi_lo d k) as Ed.
        assert (En : 2 ^ n = 2 ^ p * 2 ^ k).
        { rewrite <- N.pow_add_r. f_equal. lia. }
        rewrite En.
        set (dh := d / 2 ^ k) in *. set (dl := d mod 2 ^ k) in *.
        set (P := 2 ^ p) in *. set (K := 2 ^ k) in *. clearbody P K dh dl.
        rewrite Ed. nia.
Qed.

Lemma u8_write_lsbs_R s b w v n :
  R KU8 s b -> 8 <= w -> n <= w -> v < 2 ^ w ->
  exists s', u8_write_lsbs w v n s = Ok s' /\ R KU8 s' (bpush b n v).
Proof.
  intros HR H8 Hn Hv. unfold u8_write_lsbs. p2.
  destruct (N.eqb_spec n 0) as [->|Hn0].
  - exists s. split; [reflexivity|]. rewrite bpush_0. assumption.
  - destruct (N.ltb_spec w n) as [?|_]; [lia|].
    rewrite (N.mod_small v) by assumption.
    rewrite shl_mod_top by assumption.
    assert (Hlt : (v mod 2 ^ n) * 2 ^ (w - n) < 2 ^ w).
    { replace w with (n + (w - n)) at 2 by lia. apply mul_lt_pow2; [apply mod_pow2_lt | lia]. }
    destruct (u8_write_msbs_R s b w _ n HR H8 Hn Hlt) as (s' & E & HR').
    exists s'. split; [assumption|].
    rewrite (N.mod_small _ _ Hlt), mul_div_pow2 in HR'. rewrite bpush_mod.
    rewrite bpush_small in HR' by apply mod_pow2_lt. assumption.
Qed.

Lemma u8_write_twoc_R s b v n :
  R KU8 s b -> 1 <= n -> n <= 64 ->
  exists s', d_write_twoc sink u8_write_msbs v n s = Ok s' /\
             R KU8 s' (bpush b n (Z.to_N (v mod 2 ^ Z.of_N n))).
Proof.
  intros HR H1 H64. unfold d_write_twoc.
  destruct (N.eqb_spec n 0) as [?|_]; [lia|].
  destruct (N.ltb_spec 64 n) as [?|_]; [lia|]. cbn [orb].
  destruct (twoc_shifted_eq v n H1 H64) as [E Hd].
  assert (Hlt : twoc_shifted v n < 2 ^ 64).
  { rewrite E. replace 64 with (n + (64 - n)) at 2 by lia. apply mul_lt_pow2; [assumption|lia]. }
  destruct (u8_write_msbs_R s b 64 _ n HR ltac:(lia) H64 Hlt) as (s' & Es & HR').
  exists s'. split; [assumption|].
  rewrite (N.mod_small _ _ Hlt), E, mul_div_pow2 in HR'. assumption.
Qed.

Lemma u8_write_R s b w v :
  R KU8 s b -> 8 <= w -> w mod 8 = 0 -> v < 2 ^ w ->
  exists s', u8_write w v s = Ok s' /\ R KU8 s' (bpush b w v).
Proof.
  intros HR H8 Hw8 Hv. unfold u8_write. p2.
  destruct (R_pad _ _ _ HR) as (p & Hpad & HL & Hp & Hall & Hval & Hlen).
  cbn [wordbits] in *. rewrite Hpad. clear Hpad.
  assert (Hwd : w = 8 * (w / 8)).
  { pose proof (N.div_mod w 8 ltac:(lia)). lia. }
  rewrite (N.mod_small v) by assumption.
  rewrite bpush_small by assumption.
  destruct (N.ltb_spec 0 p) as [Hpos|Hz].
  - destruct (u8_write_msbs_R s b w v p HR H8 ltac:(lia) Hv) as (s1 & E1 & HR1).
    rewrite E1. cbn [bind].
    rewrite (N.mod_small v) in HR1 by assumption.
    assert (Hvh : v / 2 ^ (w - p) < 2 ^ p).
    { replace p with (w - (w - p)) at 2 by lia. apply hi_bound; [lia|assumption]. }
    rewrite bpush_small in HR1 by assumption.
    destruct (R_pad _ _ _ HR1) as (p1 & _ & HL1 & Hp1 & Hall1 & Hval1 & Hlen1).
    cbn [wordbits blen_i bval] in *.
    assert (p1 = 0) by lia. subst p1. rewrite N.pow_0_r, N.mul_1_r in Hval1.
    assert (Hsh : (v * 2 ^ p) mod 2 ^ w = (v mod 2 ^ (w - p)) * 2 ^ p).
    { pose proof (shl_mod_top v w (w - p) ltac:(lia)) as Hs.
      replace (w - (w - p)) with p in Hs by lia. exact Hs. }
    rewrite Hsh.
    assert (Hlt : (v mod 2 ^ (w - p)) * 2 ^ p < 2 ^ w).
    { replace w with ((w - p) + p) at 2 by lia. apply mul_lt_pow2; [apply mod_pow2_lt | lia]. }
    destruct (push_top_bytes_spec w (N.to_nat (w / 8)) _ (rst s1) Hlt
                ltac:(rewrite N2Nat.id; lia) Hall1) as (E2 & E3 & E4).
    rewrite N2Nat.id in E2. rewrite <- Hwd in E2. rewrite N.sub_diag, N.pow_0_r, N.div_1_r in E2.
    eexists. split; [reflexivity|].
    apply (R_intro KU8 _ _ p); cbn [wordbits rst blen blen_i bval].
    + rewrite E3, Nat2N.inj_add, N2Nat.id. lia.
    + assumption.
    + assumption.
    + rewrite E2, Hval1.
      rewrite (split_hi_lo v (w - p)) at 3.
      assert (Ew : 2 ^ w = 2 ^ (w - p) * 2 ^ p).
      { rewrite <- N.pow_add_r. f_equal. lia. }
      rewrite Ew.
      set (X := 2 ^ (w - p)) in *. set (P := 2 ^ p) in *. nia.
    + lia.
  - assert (p = 0) by lia. subst p. cbn [bind].
    rewrite N.pow_0_r, N.mul_1_r in Hval. rewrite N.pow_0_r, N.mul_1_r.
    rewrite (N.mod_small v) by assumption.
    destruct (push_top_bytes_spec w (N.to_nat (w / 8)) v (rst s) Hv
                ltac:(rewrite N2Nat.id; lia) Hall) as (E2 & E3 & E4).
    rewrite N2Nat.id in E2. rewrite <- Hwd in E2. rewrite N.sub_diag, N.pow_0_r, N.div_1_r in E2.
    eexists. split; [reflexivity|].
    apply (R_intro KU8 _ _ 0); cbn [wordbits rst blen blen_i bval].
    + rewrite E3, Nat2N.inj_add, N2Nat.id. lia.
    + lia.
    + assumption.
    + rewrite E2, Hval, N.pow_0_r, N.mul_1_r. reflexivity.
    + lia.
Qed.

Lemma u8_align_R s b :
  R KU8 s b -> R KU8 (u8_align s) (bpush b ((8 - blen_i b mod 8) mod 8) 0).
Proof.
  intros HR.
  destruct (R_pad _ _ _ HR) as (p & Hpad & HL & Hp & Hall & Hval & Hlen).
  cbn [wordbits] in *. unfold u8_align. rewrite Hpad.
  unfold pad in Hpad. rewrite Hlen in Hpad. rewrite Hpad.
  rewrite bpush_small by apply pow2_pos. rewrite N.add_0_r.
  apply (R_intro KU8 _ _ 0); cbn [wordbits rst blen blen_i bval].
  - lia.
  - lia.
  - assumption.
  - rewrite Hval, N.pow_0_r, N.mul_1_r. reflexivity.
  - lia.
Qed.

Lemma u8_push_bytes_R bs : forall s b,
  R KU8 s b -> blen s mod 8 = 0 -> Forall (fun x => x < 256) bs ->
  R KU8 (mkSink (rev bs ++ rst s) (blen s + 8 * N.of_nat (length bs)))
        (fold_left (fun a x => bpush a 8 x) bs b).
Proof.
  induction bs as [|x t IH]; intros s b HR Hal Hall; cbn [rev length fold_left app].
  - rewrite N.mul_0_r, N.add_0_r. destruct s; assumption.
  - inversion Hall as [|x' t' Hx Ht]; subst.
    rewrite <- app_assoc. cbn [app].
    destruct (R_pad _ _ _ HR) as (p & _ & HL & Hp & Hall0 & Hval & Hlen).
    cbn [wordbits] in *.
    assert (p = 0).
    { pose proof (N.div_mod (blen s) 8 ltac:(lia)). lia. }
    subst p. rewrite N.pow_0_r, N.mul_1_r in Hval.
    assert (HR1 : R KU8 (mkSink (x :: rst s) (blen s + 8)) (bpush b 8 x)).
    { rewrite bpush_small by exact Hx.
      apply (R_intro KU8 _ _ 0); cbn [wordbits rst blen blen_i bval length].
      - rewrite Nat2N.inj_succ. lia.
      - lia.
      - constructor; assumption.
      - cbn [rval]. rewrite Hval, N.pow_0_r, N.mul_1_r. reflexivity.
      - lia. }
    specialize (IH _ _ HR1). cbn [rst blen] in IH.
    replace (blen s + 8 * N.of_nat (S (length t))) with (blen s + 8 + 8 * N.of_nat (length t)) by lia.
    apply IH; [|assumption].
    rewrite <- N.add_mod_idemp_l by lia. rewrite Hal. reflexivity.
Qed.

Lemma u8_write_bytes_R s b bs :
  R KU8 s b -> Forall (fun x => x < 256) bs ->
  R KU8 (u8_write_bytes bs s)
        (fold_left (fun a x => bpush a 8 x) bs (bpush b ((8 - blen_i b mod 8) mod 8) 0)).
Proof.
  intros HR Hall. unfold u8_write_bytes.
  pose proof (u8_align_R s b HR) as HR1.
  apply u8_push_bytes_R; try assumption.
  destruct (R_pad _ _ _ HR) as (p & Hpad & HL & Hp & _ & _ & _).
  cbn [wordbits] in *. unfold u8_align. cbn [blen]. rewrite Hpad.
  replace (blen s + p) with (N.of_nat (length (rst s)) * 8) by lia. apply N.mod_mul. lia.
Qed.

Lemma u8_write_zeros_R s b n :
  R KU8 s b -> R KU8 (u8_write_zeros n s) (bpush b n 0).
Proof.
  intros HR.
  destruct (R_pad _ _ _ HR) as (p & Hpad & HL & Hp & Hall & Hval & Hlen).
  cbn [wordbits] in *. unfold u8_write_zeros. rewrite Hpad. clear Hpad.
  rewrite bpush_small by apply pow2_pos. rewrite N.add_0_r.
  destruct (N.leb_spec n p) as [Hnp|Hnp].
  - apply (R_intro KU8 _ _ (p - n)); cbn [wordbits rst blen blen_i bval].
    + lia.
    + lia.
    + assumption.
    + rewrite Hval, <- N.mul_assoc, <- N.pow_add_r. do 2 f_equal. lia.
    + lia.
  - set (e := (n - p + 7) / 8).
    assert (He : exists q, 8 * e = (n - p) + q /\ q < 8).
    { exists (8 * e - (n - p)). unfold e.
      pose proof (N.div_mod (n - p + 7) 8 ltac:(lia)).
      pose proof (N.mod_lt (n - p + 7) 8 ltac:(lia)).
      set (x := n - p) in *. set (dd := (x + 7) / 8) in *. set (mm := (x + 7) mod 8) in *. lia. }
    destruct He as (q & Hq & Hq8).
    apply (R_intro KU8 _ _ q); cbn [wordbits rst blen blen_i bval].
    + rewrite app_length, repeat_length, Nat2N.inj_add, N2Nat.id. lia.
    + assumption.
    + apply Forall_app. split; [|assumption]. apply Forall_forall. intros x Hx.
      apply repeat_spec in Hx. subst x. apply pow2_pos.
    + rewrite rval_app, rval_repeat0, N.add_0_r, repeat_length, N2Nat.id, Hval.
      rewrite <- !N.mul_assoc, <- !N.pow_add_r. do 2 f_equal. lia.
    + lia.
Qed.
