(* C17: every argument outside the supported domain yields an error; supported arguments are
   accepted; no outcome is a panic. *)
From FV Require Import Generated Model.Base Model.Api.
Local Open Scope N_scope.

Ltac consts := change c_MIN_BITS_PER_SAMPLE with 8 in *; change c_MAX_BITS_PER_SAMPLE with 24 in *;
  change c_MAX_CHANNELS with 8 in *; change c_MIN_BLOCK_SIZE with 32 in *; change c_MAX_BLOCK_SIZE with 32767 in *.

Lemma bps_sweep :
  forallb (fun b => Bool.eqb (bps_verified b) (supported_width b || neutral_width b)) (map N.of_nat (seq 0 26)) = true.
Proof. vm_compute. reflexivity. Qed.

Lemma bps_verified_bool b : bps_verified b = supported_width b || neutral_width b.
Proof.
  destruct (N.leb_spec b 25) as [Hle|Hgt].
  - pose proof bps_sweep as H. rewrite forallb_forall in H.
    apply Bool.eqb_prop, H. apply in_map_iff. exists (N.to_nat b). split; [lia|]. apply in_seq. lia.
  - unfold bps_verified, supported_width, neutral_width. consts.
    destruct (N.leb_spec b (24 + 1)); [lia|]. rewrite Bool.andb_false_r. cbn [andb].
    repeat match goal with |- context [N.eqb b ?c] => destruct (N.eqb_spec b c); [lia|] end. reflexivity.
Qed.

Lemma bps_verified_iff b : bps_verified b = true <-> supported_width b = true \/ neutral_width b = true.
Proof. rewrite bps_verified_bool, Bool.orb_true_iff. tauto. Qed.

Theorem streaminfo_new_exact rate ch bps :
  streaminfo_new rate ch bps = Ok tt <->
  (rate <= 96000 /\ 1 <= ch <= 8 /\ (supported_width bps = true \/ neutral_width bps = true)).
Proof.
  unfold streaminfo_new.
  set (c := (96000 <? rate) || (ch <? 1) || (8 <? ch) || (255 <? bps) || negb (bps_verified bps)).
  assert (Hc : c = false <-> (rate <= 96000 /\ 1 <= ch <= 8 /\ bps <= 255 /\ bps_verified bps = true)).
  { unfold c. rewrite !Bool.orb_false_iff, !N.ltb_ge, Bool.negb_false_iff. split; intros; repeat split; try tauto; lia. }
  destruct c.
  - split; [discriminate|]. intros (H1 & H2 & H3). exfalso.
    assert (false = false -> True) by trivial.
    assert (Hf : true = false).
    { apply Hc. repeat split; try lia; try tauto.
      - unfold supported_width, neutral_width in H3. rewrite !Bool.orb_true_iff, !N.eqb_eq in H3. lia.
      - apply bps_verified_iff. exact H3. }
    discriminate.
  - split; [|reflexivity]. intros _. destruct Hc as [Hc _]. destruct (Hc eq_refl) as (H1 & H2 & _ & H4).
    repeat split; try lia. apply bps_verified_iff. exact H4.
Qed.

Theorem framebuf_with_size_exact ch size :
  framebuf_with_size ch size = Ok tt <-> (1 <= ch <= 8 /\ 32 <= size <= 32767).
Proof.
  unfold framebuf_with_size. consts.
  destruct (N.ltb_spec ch 1); destruct (N.ltb_spec 8 ch); destruct (N.ltb_spec size 32); destruct (N.ltb_spec 32767 size);
    cbn [orb]; split; try discriminate; try reflexivity; intros; lia.
Qed.

Theorem fill_interleaved_exact ch cap n : api_fill_interleaved ch cap n = Ok tt <-> n <= ch * cap.
Proof. unfold api_fill_interleaved. destruct (N.ltb_spec (ch * cap) n); split; try discriminate; try reflexivity; intros; lia. Qed.

Theorem fill_le_bytes_errors ch cap bps len nb :
  (nb = 0 \/ 4 < nb \/ len mod nb <> 0 \/ ch * cap < len / nb \/ (len <> 0 /\ nb <> (bps + 7) / 8)) ->
  exists e, api_fill_le_bytes ch cap bps len nb = Err e.
Proof.
  unfold api_fill_le_bytes. intros H.
  destruct (N.eqb_spec nb 0); cbn [orb]; [eexists; reflexivity|].
  destruct (N.ltb_spec 4 nb); cbn [orb]; [eexists; reflexivity|].
  destruct (N.eqb_spec (len mod nb) 0); cbn [negb]; [|eexists; reflexivity].
  destruct (N.ltb_spec (ch * cap) (len / nb)); [eexists; reflexivity|].
  destruct (N.eqb_spec len 0).
  - exfalso. destruct H as [?|[?|[?|[?|[? ?]]]]]; try lia; contradiction.
  - destruct (N.eqb_spec nb ((bps + 7) / 8)); cbn [negb]; [|eexists; reflexivity].
    exfalso. destruct H as [?|[?|[?|[?|[? ?]]]]]; try lia; contradiction.
Qed.

Theorem frame_exact fnum inrange : api_frame fnum inrange = Ok tt <-> (fnum < 2 ^ 31 /\ inrange = true).
Proof.
  unfold api_frame. destruct (N.leb_spec (2 ^ 31) fnum).
  - split; [discriminate | intros [? _]; lia].
  - destruct inrange; cbn [negb]; split; try discriminate; try reflexivity; try (intros [_ ?]; discriminate).
    intros _. split; [assumption | reflexivity].
Qed.

(* the stream entry point: both modes reject exactly what is outside the supported domain
   (up to the neutral widths), and accept everything supported *)
Theorem stream_entry_errors mt rate ch bps bs inrange :
  neutral_width bps = false ->
  (api_stream mt rate ch bps bs inrange = Ok tt <-> supported_stream rate ch bps bs inrange = true).
Proof.
  intros Hneutral. unfold api_stream, supported_stream.
  rewrite !Bool.andb_true_iff, !N.leb_le.
  destruct (streaminfo_new rate ch bps) as [[]| |] eqn:Es; cbn [bind].
  - apply streaminfo_new_exact in Es. destruct Es as (Hr & Hc & Hb).
    destruct Hb as [Hb|Hb]; [|congruence].
    assert (Hfb : forall r, (if mt then (if c_MAX_BLOCK_SIZE <? bs then Err E_VERIFY else framebuf_with_size ch bs)
                             else framebuf_with_size ch bs) = r ->
                  (r = Ok tt <-> 32 <= bs <= 32767)).
    { intros r <-. destruct mt.
      - consts. destruct (N.ltb_spec 32767 bs).
        + split; [discriminate | lia].
        + rewrite framebuf_with_size_exact. split; [tauto | intros; split; lia].
      - rewrite framebuf_with_size_exact. split; [tauto | intros; split; lia]. }
    destruct (if mt then _ else _) as [[]| |] eqn:Ef; cbn [bind].
    + destruct (Hfb _ eq_refl) as [H1 _]. specialize (H1 eq_refl).
      destruct inrange; cbn [negb]; split; try discriminate; try (intros; reflexivity).
      * intros _. repeat split; try lia; assumption.
      * intros [_ ?]. discriminate.
    + destruct (Hfb _ eq_refl) as [_ H2]. split; [discriminate|]. intros H. exfalso.
      assert (Err e = Ok tt) by (apply H2; lia). discriminate.
    + destruct (Hfb _ eq_refl) as [_ H2]. split; [discriminate|]. intros H. exfalso.
      assert (@Panic unit site = Ok tt) by (apply H2; lia). discriminate.
  - split; [discriminate|]. intros H. exfalso.
    assert (streaminfo_new rate ch bps = Ok tt) by (apply streaminfo_new_exact; repeat split; try lia; left; tauto).
    congruence.
  - unfold streaminfo_new in Es. destruct (_ || _); discriminate.
Qed.

(* no entry point has a panicking outcome *)
Theorem api_never_panics :
  (forall rate ch bps site, streaminfo_new rate ch bps <> Panic site) /\
  (forall ch size site, framebuf_with_size ch size <> Panic site) /\
  (forall ch cap n site, api_fill_interleaved ch cap n <> Panic site) /\
  (forall ch cap bps len nb site, api_fill_le_bytes ch cap bps len nb <> Panic site) /\
  (forall f r site, api_frame f r <> Panic site) /\
  (forall mt rate ch bps bs r site, api_stream mt rate ch bps bs r <> Panic site).
Proof.
  repeat split; intros.
  - unfold streaminfo_new. destruct (_ || _); discriminate.
  - unfold framebuf_with_size. destruct (_ || _); discriminate.
  - unfold api_fill_interleaved. destruct (_ <? _); discriminate.
  - unfold api_fill_le_bytes. repeat (match goal with |- context [if ?c then _ else _] => destruct c end); discriminate.
  - unfold api_frame. repeat (match goal with |- context [if ?c then _ else _] => destruct c end); discriminate.
  - unfold api_stream, streaminfo_new, framebuf_with_size.
    repeat (match goal with |- context [if ?c then _ else _] => destruct c; cbn [bind] end); discriminate.
Qed.
