(* What the encoder builds passes verification: the residual constructed from an error signal and
   the finder's answer satisfies Residual::verify, is representable, and so are the subframes
   encode_subframe returns.  Closes the gap between "the encoder's subframe means the input" (C01)
   and "the decoder reads a verified subframe's meaning from its bytes". *)
From FV Require Import Generated Model.Base Model.Sink Model.Crc Model.Codes Model.Rice Model.Predict
  Model.Component Model.Flac Model.Parser Model.Ctor Model.Encoder
  Proofs.SinkArith Proofs.ListAux Proofs.RiceOpt Proofs.RiceFind Proofs.OpsLen Proofs.BitRead Proofs.BitWrite Proofs.BitUnary
  Proofs.CtorP Proofs.ParseResidual Proofs.ParseSubframe Proofs.Lossless Proofs.DecodeSubframe.
Local Open Scope N_scope.

(* ---- per-sample facts ---- *)
Lemma quot_rem_rem_lt p e : snd (quot_rem p e) < 2 ^ p.
Proof. unfold quot_rem. cbn [snd]. rewrite MOD2_eq. apply mod_pow2_lt. Qed.

Lemma zigzag_i32 e : in_i32 e = true -> zigzag e < 2 ^ 32 - 1.
Proof.
  unfold in_i32. intros H. apply Bool.andb_true_iff in H. destruct H as [H1 H2].
  apply Z.ltb_lt in H1, H2. unfold zigzag. change (2 ^ 32 - 1) with 4294967295.
  destruct (Z.ltb_spec e 0); lia.
Qed.

Lemma quot_rem_u_ok p e : in_i32 e = true -> u_ok p (quot_rem p e).
Proof.
  intros H. unfold u_ok. pose proof (quot_rem_recombine p e) as Hr.
  destruct (quot_rem p e) as [q r]. cbn [fst snd]. rewrite Hr. apply zigzag_i32. exact H.
Qed.

Lemma quot_rem_q_u32 p e : in_i32 e = true -> fst (quot_rem p e) < 2 ^ 32.
Proof.
  intros H. unfold quot_rem. cbn [fst]. rewrite DIV2_eq.
  pose proof (zigzag_i32 e H) as Hz. change (2 ^ 32 - 1) with 4294967295 in Hz. change (2 ^ 32) with 4294967296.
  set (u := zigzag e) in *.
  assert (Hle : u / 2 ^ p <= u).
  { apply N.div_le_upper_bound; [apply pow2_nz|]. pose proof (pow2_pos p). set (P := 2 ^ p) in *. nia. }
  lia.
Qed.

(* ---- positional structure of param_per_sample ---- *)
Definition qr_of (pps : list N) (errs : list Z) : list (N * N) :=
  map (fun pe => quot_rem (fst pe) (snd pe)) (combine pps errs).

Lemma qr_of_cons_part p ps part errs :
  (part <= length errs)%nat ->
  qr_of (param_per_sample (p :: ps) part) errs
  = map (quot_rem p) (firstn part errs) ++ qr_of (param_per_sample ps part) (skipn part errs).
Proof.
  intros Hl. unfold qr_of, param_per_sample. cbn [flat_map]. fold (param_per_sample ps part).
  rewrite <- (firstn_skipn part errs) at 1.
  rewrite combine_app by (rewrite repeat_length, firstn_length; lia).
  rewrite map_app. f_equal.
  replace part with (length (firstn part errs)) at 1 by (rewrite firstn_length; lia).
  generalize (firstn part errs). intros l. induction l as [|x t IH]; cbn [length repeat combine map]; [reflexivity|].
  rewrite IH. reflexivity.
Qed.

Lemma qr_of_length pps errs : length pps = length errs -> length (qr_of pps errs) = length errs.
Proof. intros H. unfold qr_of. rewrite map_length, combine_length. lia. Qed.

Lemma rems_ok_of_qr : forall params part errs,
  length errs = (length params * part)%nat ->
  rems_ok params part (map snd (qr_of (param_per_sample params part) errs)) = true.
Proof.
  induction params as [|p ps IH]; intros part errs Hl.
  - cbn [length Nat.mul] in Hl. destruct errs; [reflexivity | discriminate].
  - cbn [length] in Hl. rewrite qr_of_cons_part by lia. rewrite map_app. cbn [rems_ok].
    assert (Hlen : length (map snd (map (quot_rem p) (firstn part errs))) = part) by (rewrite !map_length, firstn_length; lia).
    rewrite firstn_app, Hlen, Nat.sub_diag. cbn [firstn]. rewrite app_nil_r, firstn_all2 by lia.
    rewrite skipn_app, Hlen, Nat.sub_diag. cbn [skipn]. rewrite skipn_all2 by lia. cbn [app].
    apply Bool.andb_true_iff. split.
    + apply forallb_forall. intros r Hr. apply in_map_iff in Hr. destruct Hr as (qr & <- & Hin).
      apply in_map_iff in Hin. destruct Hin as (e & <- & _). apply N.ltb_lt. apply quot_rem_rem_lt.
    + apply IH. rewrite skipn_length. lia.
Qed.

Lemma forallb_skipn {A} (f : A -> bool) : forall n l, forallb f l = true -> forallb f (skipn n l) = true.
Proof.
  induction n as [|n IH]; intros l H; [exact H|]. destruct l as [|x t]; [reflexivity|].
  cbn [forallb] in H. apply Bool.andb_true_iff in H. cbn [skipn]. apply IH. apply H.
Qed.

(* overwriting the first w (<= part) remainders with zeros keeps them in range *)
Lemma rems_ok_zero_prefix : forall params part (w : nat) rs,
  (w <= part)%nat -> (1 <= length params)%nat -> length rs = (length params * part)%nat ->
  rems_ok params part rs = true -> rems_ok params part (repeat 0 w ++ skipn w rs) = true.
Proof.
  intros params part w rs Hw Hn Hl H. destruct params as [|p ps]; [cbn in Hn; lia|].
  cbn [length] in Hl. cbn [rems_ok] in *. apply Bool.andb_true_iff in H. destruct H as [H1 H2].
  assert (Hz : length (repeat 0 w) = w) by apply repeat_length.
  apply Bool.andb_true_iff. split.
  - rewrite firstn_app, Hz. rewrite firstn_all2 by (rewrite Hz; lia).
    rewrite forallb_app. apply Bool.andb_true_iff. split.
    + apply forallb_forall. intros x Hx. apply repeat_spec in Hx. subst x. apply N.ltb_lt. apply pow2_pos.
    + rewrite firstn_skipn_comm. replace (w + (part - w))%nat with part by lia. apply forallb_skipn. exact H1.
  - replace (skipn part (repeat 0 w ++ skipn w rs)) with (skipn part rs); [exact H2|].
    rewrite skipn_app, Hz. rewrite (skipn_all2 (repeat 0 w)) by (rewrite Hz; lia). cbn [app].
    rewrite skipn_skipn'. f_equal. lia.
Qed.

(* ---- representability of every coded sample ---- *)
Lemma combine_fst_snd {A B} (l : list (A * B)) : combine (map fst l) (map snd l) = l.
Proof. induction l as [|[a b] t IH]; cbn [map combine fst snd]; [reflexivity|]. rewrite IH. reflexivity. Qed.

Lemma firstn_map {A B} (f : A -> B) : forall n l, firstn n (map f l) = map f (firstn n l).
Proof. induction n as [|n IH]; intros [|x t]; cbn [firstn map]; try reflexivity. rewrite IH. reflexivity. Qed.

Lemma firstn_combine {A B} : forall n (a : list A) (b : list B), firstn n (combine a b) = combine (firstn n a) (firstn n b).
Proof.
  induction n as [|n IH]; intros [|x a] [|y b]; cbn [firstn combine]; try reflexivity.
  rewrite IH. reflexivity.
Qed.

Lemma forallb_in_i32_sub : forall (a b : nat) l, (a <= b)%nat -> forallb in_i32 (skipn a l) = true -> forallb in_i32 (skipn b l) = true.
Proof.
  intros a b l Hab H. replace b with (a + (b - a))%nat by lia. rewrite <- skipn_skipn'. apply forallb_skipn. exact H.
Qed.

Lemma In_firstn_local {A} (x : A) : forall n l, In x (firstn n l) -> In x l.
Proof.
  induction n as [|n IH]; intros l H; [destruct H|]. destruct l as [|y t]; [destruct H|].
  cbn [firstn] in H. destruct H as [->|H]; [left; reflexivity | right; apply IH; exact H].
Qed.

Lemma In_skipn_firstn {A} (x : A) : forall n m l, In x (skipn n (firstn m l)) -> In x (skipn n l).
Proof.
  induction n as [|n IH]; intros m l H.
  - cbn [skipn] in *. eapply In_firstn_local. exact H.
  - destruct m as [|m]; [cbn in H; destruct H|]. destruct l as [|y t]; [cbn in H; destruct H|].
    cbn [firstn skipn] in *. apply (IH m). exact H.
Qed.

Lemma parts_u_ok_plain : forall params part errs,
  length errs = (length params * part)%nat -> forallb in_i32 errs = true ->
  let qr := qr_of (param_per_sample params part) errs in
  parts_u_ok params part 0 (map fst qr) (map snd qr).
Proof.
  induction params as [|p ps IH]; intros part errs Hl Hi; cbv zeta; [exact I|].
  cbn [length] in Hl. rewrite qr_of_cons_part by lia. rewrite !map_app. cbn [parts_u_ok skipn].
  set (A := map (quot_rem p) (firstn part errs)).
  assert (HlenA : length A = part) by (unfold A; rewrite map_length, firstn_length; lia).
  rewrite !firstn_app, !map_length, HlenA, Nat.sub_diag. cbn [firstn]. rewrite !app_nil_r.
  rewrite (firstn_all2 (map fst A)), (firstn_all2 (map snd A)) by (rewrite map_length; lia).
  rewrite !skipn_app, !map_length, HlenA, Nat.sub_diag. cbn [skipn].
  rewrite (skipn_all2 (map fst A)), (skipn_all2 (map snd A)) by (rewrite map_length; lia). cbn [app].
  split.
  - rewrite combine_fst_snd. unfold A. apply Forall_forall. intros x Hx. apply in_map_iff in Hx. destruct Hx as (e & <- & He).
    apply quot_rem_u_ok. rewrite forallb_forall in Hi. apply Hi. eapply In_firstn_local. exact He.
  - apply IH; [rewrite skipn_length; lia | apply forallb_skipn; exact Hi].
Qed.

(* ---- list algebra for the zero-prefixed quotient / remainder vectors ---- *)
Lemma zero_prefix_first_part (w part : nat) (Q R : list N) :
  (w <= part)%nat ->
  combine (skipn w (firstn part (repeat 0 w ++ skipn w Q))) (skipn w (firstn part (repeat 0 w ++ skipn w R)))
  = skipn w (firstn part (combine Q R)).
Proof.
  intros Hw.
  assert (E : forall L : list N, skipn w (firstn part (repeat 0 w ++ skipn w L)) = skipn w (firstn part L)).
  { intros L. rewrite firstn_app, repeat_length. rewrite (firstn_all2 (repeat 0 w)) by (rewrite repeat_length; lia).
    rewrite skipn_app_le by (rewrite repeat_length; lia). rewrite skipn_all2 by (rewrite repeat_length; lia). cbn [app].
    rewrite firstn_skipn_comm. replace (w + (part - w))%nat with part by lia. reflexivity. }
  rewrite !E, <- skipn_combine, <- firstn_combine. reflexivity.
Qed.

Lemma zero_prefix_later_parts (w part : nat) (L : list N) :
  (w <= part)%nat -> skipn part (repeat 0 w ++ skipn w L) = skipn part L.
Proof.
  intros Hw. rewrite skipn_app, repeat_length. rewrite (skipn_all2 (repeat 0 w)) by (rewrite repeat_length; lia). cbn [app].
  rewrite skipn_skipn'. f_equal. lia.
Qed.

(* ---- the residual the encoder builds ---- *)
Lemma nat_part_eq n o : N.to_nat (N.of_nat n / 2 ^ N.of_nat o) = Nat.div n (Nat.pow 2 o).
Proof. rewrite N2Nat.inj_div, Nat2N.id. f_equal. rewrite pow2_N_nat, Nat2N.id. reflexivity. Qed.

Theorem encoded_residual_verifies errs warmup maxp pr :
  find_prc errs warmup maxp = Ok pr -> maxp <= 14 ->
  N.of_nat (length errs) <= c_MAX_BLOCK_SIZE ->
  forallb in_i32 (skipn (N.to_nat warmup) errs) = true ->
  let r := encode_residual_with errs warmup pr in
  verify_residual r = true /\ residual_u_ok r /\ quot_u32 r /\
  r_block r = N.of_nat (length errs) /\ r_warmup r = warmup.
Proof.
  intros E Hmax Hblk Hi. cbv zeta.
  destruct (find_prc_shape _ _ _ _ E) as (o' & Ho & Hlen & Hole & Hdiv & Hpart & Hps).
  pose proof (find_prc_shape_nat _ _ _ _ E) as Hnat.
  set (n := length errs) in *.
  unfold encode_residual_with. fold n.
  rewrite Ho, Nat2N.id in *.
  set (part := Nat.div n (Nat.pow 2 o')) in *.
  set (pps := param_per_sample (prc_ps pr) part).
  set (qr := map (fun pe => quot_rem (fst pe) (snd pe)) (combine pps errs)).
  set (w := N.to_nat warmup).
  assert (Hqr : qr = qr_of pps errs) by reflexivity.
  assert (Hpps : length pps = n) by (unfold pps; rewrite param_per_sample_length; exact Hnat).
  assert (Hqrl : length qr = n) by (rewrite Hqr; apply qr_of_length; exact Hpps).
  assert (Hpart_N : N.of_nat n / 2 ^ N.of_nat o' = N.of_nat part).
  { unfold part. rewrite <- nat_part_eq, N2Nat.id. reflexivity. }
  rewrite Hpart_N in Hpart. unfold MIN_PART in Hpart. change c_RICE_MIN_PARTITION_SIZE with 64 in Hpart.
  assert (Hwp : (w <= part)%nat) by (unfold w; lia).
  assert (Hpart1 : (1 <= part)%nat) by lia.
  assert (Hparams1 : (1 <= length (prc_ps pr))%nat).
  { rewrite Hlen. clear. induction o' as [|k IH]; cbn [Nat.pow]; lia. }
  assert (Hwn : (w <= n)%nat) by nia.
  assert (Hzq : length (repeat 0 w ++ skipn w (map fst qr)) = n) by (rewrite app_length, repeat_length, skipn_length, map_length; lia).
  assert (Hzr : length (repeat 0 w ++ skipn w (map snd qr)) = n) by (rewrite app_length, repeat_length, skipn_length, map_length; lia).
  assert (Hpc : N.of_nat (length (prc_ps pr)) = 2 ^ N.of_nat o') by (rewrite Hlen; apply pow2_nat_N).
  assert (Hi_all_later : forall k, (w <= k)%nat -> forallb in_i32 (skipn k errs) = true)
    by (intros k Hk; eapply forallb_in_i32_sub; [exact Hk | exact Hi]).
  split; [|split; [|split; [|split; reflexivity]]].
  - (* verify_residual *)
    unfold verify_residual, block_ok. cbn [r_order r_block r_warmup r_params r_quot r_rem].
    rewrite Hzq, Hzr, N.eqb_refl. rewrite Hpc, N.eqb_refl, Hdiv, N.eqb_refl, Hpart_N. cbn [andb].
    assert (H1 : N.of_nat n <=? c_MAX_BLOCK_SIZE = true) by (apply N.leb_le; exact Hblk).
    assert (H2 : N.of_nat o' <=? c_RICE_MAX_PARTITION_ORDER = true) by (apply N.leb_le; exact Hole).
    assert (H3 : 2 ^ N.of_nat o' <=? N.of_nat n = true).
    { apply N.leb_le. rewrite <- Hpc. rewrite <- Hnat. rewrite Nat2N.inj_mul. nia. }
    assert (H4 : warmup <=? N.of_nat part = true) by (apply N.leb_le; unfold w in Hwp; lia).
    assert (H5 : forallb (fun p => p <=? c_RICE_MAX_RICE_PARAMETER) (prc_ps pr) = true).
    { apply forallb_forall. intros p Hp. rewrite Forall_forall in Hps. destruct (Hps p Hp) as [Hpm _].
      apply N.leb_le. change c_RICE_MAX_RICE_PARAMETER with 14. lia. }
    assert (H6 : forall l, forallb (N.eqb 0) (firstn w (repeat 0 w ++ l)) = true).
    { intros l. rewrite firstn_app, repeat_length, Nat.sub_diag. cbn [firstn]. rewrite app_nil_r.
      rewrite firstn_all2 by (rewrite repeat_length; lia). apply forallb_forall. intros x Hx. apply repeat_spec in Hx. subst. reflexivity. }
    rewrite H1, H2, H3, H4, H5. fold w. rewrite !H6. cbn [andb]. rewrite Nat2N.id.
    apply rems_ok_zero_prefix; try assumption.
    + rewrite map_length, Hqrl. symmetry. exact Hnat.
    + rewrite Hqr. unfold pps. apply rems_ok_of_qr. symmetry. exact Hnat.
  - (* representable *)
    unfold residual_u_ok. cbn [r_order r_block r_warmup r_params r_quot r_rem]. rewrite Hpart_N, Nat2N.id. fold w.
    destruct (prc_ps pr) as [|p ps] eqn:Eps; [cbn in Hparams1; lia|].
    cbn [parts_u_ok]. cbn [length] in Hnat.
    assert (Hqr2 : qr = map (quot_rem p) (firstn part errs) ++ qr_of (param_per_sample ps part) (skipn part errs)).
    { rewrite Hqr. unfold pps. apply qr_of_cons_part. lia. }
    set (A := map (quot_rem p) (firstn part errs)) in *.
    assert (HlenA : length A = part) by (unfold A; rewrite map_length, firstn_length; lia).
    split.
    + rewrite zero_prefix_first_part by exact Hwp. rewrite combine_fst_snd, Hqr2.
      rewrite firstn_app, HlenA, Nat.sub_diag. cbn [firstn]. rewrite app_nil_r, firstn_all2 by lia.
      unfold A. rewrite skipn_map. apply Forall_forall. intros x Hx. apply in_map_iff in Hx. destruct Hx as (e & <- & He).
      apply quot_rem_u_ok. pose proof Hi as Hi'. rewrite forallb_forall in Hi'. apply Hi'.
      eapply In_skipn_firstn. exact He.
    + rewrite !zero_prefix_later_parts by exact Hwp. rewrite !skipn_map, Hqr2.
      rewrite skipn_app, HlenA, Nat.sub_diag. cbn [skipn]. rewrite skipn_all2 by lia. cbn [app].
      apply parts_u_ok_plain; [rewrite skipn_length; lia | apply Hi_all_later; exact Hwp].
  - (* quotients are u32 *)
    unfold quot_u32. cbn [r_quot]. apply Forall_app. split.
    + apply Forall_forall. intros x Hx. apply repeat_spec in Hx. subst. apply pow2_pos.
    + rewrite skipn_map. apply Forall_forall. intros x Hx. apply in_map_iff in Hx. destruct Hx as (qrx & <- & Hin).
      assert (Hin2 : In qrx (skipn w (qr_of pps errs))) by (rewrite <- Hqr; exact Hin).
      unfold qr_of in Hin2. rewrite skipn_map in Hin2. apply in_map_iff in Hin2. destruct Hin2 as (pe & <- & Hpe).
      apply quot_rem_q_u32. rewrite skipn_combine in Hpe. destruct pe as [pp ee]. apply in_combine_r in Hpe. cbn [snd].
      pose proof Hi as Hi'. rewrite forallb_forall in Hi'. apply Hi'. exact Hpe.
Qed.

(* ---- subframes returned by encode_subframe ---- *)
Lemma diff_from_length : forall l prev, length (diff_from prev l) = length l.
Proof. induction l as [|x t IH]; intros prev; cbn [diff_from length]; [reflexivity|]. rewrite IH. reflexivity. Qed.

Lemma fixed_errors_length : forall k l, length (fixed_errors k l) = length l.
Proof. induction k as [|k IH]; intros l; cbn [fixed_errors]; [reflexivity|]. unfold diff1. rewrite diff_from_length. apply IH. Qed.

Lemma lpc_errors_from_length cs sh : forall rest hist, length (lpc_errors_from cs sh hist rest) = length rest.
Proof. induction rest as [|x t IH]; intros hist; cbn [lpc_errors_from length]; [reflexivity|]. rewrite IH. reflexivity. Qed.

Lemma lpc_errors_length q signal errs :
  lpc_errors q signal = Ok errs -> (length (q_coefs q) <= length signal)%nat -> length errs = length signal.
Proof.
  unfold lpc_errors. intros E Hl.
  destruct (q_shift q <? 0)%Z; [discriminate|].
  destruct (maxabs signal * sumabs (q_coefs q) <? 2147483647)%Z.
  - destruct (forallb _ _); [|discriminate]. apply Ok_inj' in E. subst errs.
    rewrite app_length, repeat_length, lpc_errors_from_length, skipn_length. lia.
  - apply Ok_inj' in E. subst errs.
    rewrite app_length, repeat_length, map_length, lpc_errors_from_length, skipn_length. lia.
Qed.

Definition sub_good (s : subframe) : Prop :=
  verify_subframe s = true /\ sub_typed s /\ sub_u_ok s /\ sub_quot_u32 s.

(* ... and has the dimensions it was asked for *)
Definition sub_dims (s : subframe) (n : nat) (bps : N) : Prop := sub_block s = N.of_nat n /\ sub_bps s = bps.

Section Sub.
  Variable ent : N -> N -> N -> N.
  Variable qlpc : N -> N -> qparams.

  (* fixed_candidate_form of Lossless.v, keeping the range check the code performs *)
  Lemma fixed_candidate_form' cfg fi var signal bps baseline sf :
    fixed_candidate ent cfg fi var signal bps baseline = Ok (Some sf) ->
    exists k pr, (k <= 4)%N /\
      forallb in_i32 (skipn (N.to_nat k) (fixed_errors (N.to_nat k) signal)) = true /\
      find_prc (fixed_errors (N.to_nat k) signal) k (cfg_max_parameter cfg) = Ok pr /\
      sf = SFixed (firstn (N.to_nat k) signal)
                  (encode_residual_with (fixed_errors (N.to_nat k) signal) k pr) bps.
  Proof.
    unfold fixed_candidate.
    set (maxo := N.min (cfg_fixed_max_order cfg) 4).
    set (cands := map (fun k => (k, fixed_errors (N.to_nat k) signal)) (orders_upto maxo)).
    assert (Hc : forall k e, In (k, e) cands -> (k <= 4)%N /\ e = fixed_errors (N.to_nat k) signal).
    { intros k e Hin. unfold cands in Hin. apply in_map_iff in Hin. destruct Hin as (k0 & E & Hin).
      inversion E; subst. split; [|reflexivity].
      unfold orders_upto in Hin. apply in_map_iff in Hin. destruct Hin as (i & <- & Hi).
      apply in_seq in Hi. unfold maxo in Hi. lia. }
    destruct (cfg_order_sel cfg) as [parts|].
    - destruct (parts =? 0)%N; [discriminate|].
      destruct (first_min _ _) as [[[k e] bits]|] eqn:Em; [|discriminate].
      destruct (bits <? baseline)%N; [|discriminate].
      apply first_min_in in Em. apply in_map_iff in Em. destruct Em as ([k0 e0] & E & Hin).
      cbn [fst snd] in E. inversion E; subst k0 e0. destruct (Hc k e Hin) as [Hk He]. subst e.
      unfold residual_checked, encode_residual.
      destruct (forallb in_i32 _) eqn:Ei; [|discriminate].
      destruct (find_prc _ k _) as [pr| |] eqn:Ef; cbn [bind]; try discriminate.
      intros E2. apply Ok_inj' in E2. inversion E2. exists k, pr. repeat split; assumption.
    - destruct (mapM _ cands) as [scored| |] eqn:Es; cbn [bind]; try discriminate.
      destruct (first_min _ scored) as [[[[k e] pr] bits]|] eqn:Em; [|discriminate].
      destruct (bits <? baseline)%N; [|discriminate].
      intros E2. apply Ok_inj' in E2. inversion E2. subst sf. clear E2.
      apply first_min_in in Em.
      destruct (mapM_In _ _ _ _ Es Em) as ([k0 e0] & Hin & Hf).
      destruct (forallb in_i32 _) eqn:Ei; [|discriminate].
      destruct (find_prc e0 k0 _) as [pr0| |] eqn:Ef; cbn [bind] in Hf; try discriminate.
      apply Ok_inj' in Hf. inversion Hf; subst. destruct (Hc k e Hin) as [Hk He]. subst e.
      exists k, pr. repeat split; assumption.
  Qed.

  Lemma forallb_firstn {A} (f : A -> bool) : forall n l, forallb f l = true -> forallb f (firstn n l) = true.
  Proof.
    induction n as [|n IH]; intros l H; [reflexivity|]. destruct l as [|x t]; [reflexivity|].
    cbn [forallb] in H. apply Bool.andb_true_iff in H. cbn [firstn forallb]. apply Bool.andb_true_iff.
    split; [apply H | apply IH; apply H].
  Qed.

  Theorem encode_subframe_good cfg fi var samples bps sf :
    encode_subframe ent qlpc cfg fi var samples bps = Ok sf ->
    cfg_max_parameter cfg <= 14 -> bps_ok bps = true ->
    forallb (sample_ok bps) samples = true -> N.of_nat (length samples) <= c_MAX_BLOCK_SIZE ->
    (cfg_use_lpc cfg = true -> verify_qparams (qlpc fi var) = true /\
        (1 <= length (q_coefs (qlpc fi var)) <= length samples)%nat) ->
    sub_good sf.
  Proof.
    unfold encode_subframe. intros E Hmp Hbps Hs Hn Hq.
    destruct (cfg_use_constant cfg && is_constant samples) eqn:Ec.
    - destruct samples as [|x r]; [discriminate|]. apply Ok_inj' in E. subst sf.
      cbn [forallb] in Hs. apply Bool.andb_true_iff in Hs. destruct Hs as [Hx _].
      repeat split. cbn [verify_subframe]. unfold block_ok. rewrite Hbps, Hx.
      assert (H : N.of_nat (length (x :: r)) <=? c_MAX_BLOCK_SIZE = true) by (apply N.leb_le; exact Hn).
      rewrite H. reflexivity.
    - set (n := N.of_nat (length samples)) in *. set (baseline := (8 + n * bps)%N) in *.
      assert (Hverb : sub_good (SVerbatim samples bps)).
      { repeat split. cbn [verify_subframe]. unfold block_ok. rewrite Hbps, Hs.
        assert (H : n <=? c_MAX_BLOCK_SIZE = true) by (apply N.leb_le; exact Hn). fold n. rewrite H. reflexivity. }
      destruct (n <? MIN_PRED)%N eqn:Eshort; cbn [negb andb] in E.
      + cbn [bind] in E. apply Ok_inj' in E. subst sf. exact Hverb.
      + assert (Hn64 : (MIN_PRED <= n)%N) by (apply N.ltb_ge; exact Eshort).
        assert (H64 : (64 <= length samples)%nat).
        { unfold n, MIN_PRED in Hn64. change c_MIN_BLOCK_SIZE_FOR_PREDICTION with 64 in Hn64. lia. }
        destruct (if cfg_use_fixed cfg then if (30 <=? bps)%N then Panic 308
                                            else fixed_candidate ent cfg fi var samples bps baseline
                  else Ok None) as [fixed0| |] eqn:Ef; cbn [bind] in E; try discriminate.
        assert (Hfixed : forall x, fixed0 = Some x -> sub_good x).
        { intros x Hx. subst fixed0. destruct (cfg_use_fixed cfg); [|discriminate].
          destruct (30 <=? bps)%N; [discriminate|].
          destruct (fixed_candidate_form' _ _ _ _ _ _ _ Ef) as (k & pr & Hk & Hi & Hfind & ->).
          destruct (encoded_residual_verifies _ k _ pr Hfind Hmp
                      ltac:(rewrite fixed_errors_length; exact Hn) Hi) as (Hv & Hu & Hq32 & Hb & Hw).
          assert (Hlenw : length (firstn (N.to_nat k) samples) = N.to_nat k) by (rewrite firstn_length; lia).
          unfold sub_good. cbn [verify_subframe sub_typed sub_u_ok sub_quot_u32].
          rewrite Hbps, Hv, Hw, Hlenw, N2Nat.id, N.eqb_refl, forallb_firstn by exact Hs.
          repeat split; try assumption. lia. }
        set (fixed := match fixed0 with
                      | Some x => if (subframe_count_bits x <? baseline)%N then Some x else None
                      | None => None end) in *.
        assert (Hfixed2 : forall x, fixed = Some x -> sub_good x).
        { intros x Hx. unfold fixed in Hx. destruct fixed0 as [y|]; [|discriminate].
          destruct (subframe_count_bits y <? baseline)%N; [|discriminate].
          inversion Hx; subst. apply Hfixed. reflexivity. }
        destruct (if cfg_use_lpc cfg then _ else Ok None) as [lpc| |] eqn:El; cbn [bind] in E; try discriminate.
        assert (Hlpc : forall c, lpc = Some c -> sub_good c).
        { intros c Hc. subst lpc. destruct (cfg_use_lpc cfg) eqn:Eul; [|discriminate].
          destruct (Hq eq_refl) as [Hqv [Hq1 Hqn]].
          unfold lpc_candidate in El.
          destruct (lpc_errors (qlpc fi var) samples) as [errs| |] eqn:Ee; cbn [bind] in El; try discriminate.
          unfold residual_checked, encode_residual in El.
          destruct (forallb in_i32 _) eqn:Ei; [|discriminate].
          destruct (find_prc errs _ _) as [pr| |] eqn:Efp; cbn [bind] in El; try discriminate.
          match type of El with
          | Ok (if ?b then Some ?cand else None) = _ => destruct b; [|discriminate]
          end.
          apply Ok_inj' in El. inversion El; subst c.
          pose proof (lpc_errors_length _ _ _ Ee Hqn) as Hle.
          destruct (encoded_residual_verifies _ _ _ pr Efp Hmp ltac:(rewrite Hle; exact Hn) Ei) as (Hv & Hu & Hq32 & Hb & Hw).
          assert (Hlenw : length (firstn (length (q_coefs (qlpc fi var))) samples) = length (q_coefs (qlpc fi var))) by (rewrite firstn_length; lia).
          unfold sub_good. cbn [verify_subframe sub_typed sub_u_ok sub_quot_u32].
          rewrite Hbps, Hv, Hw, Hqv, Hlenw. unfold q_order. rewrite N.eqb_refl, forallb_firstn by exact Hs.
          assert (H1 : 1 <=? N.of_nat (length (q_coefs (qlpc fi var))) = true) by (apply N.leb_le; lia).
          rewrite H1. repeat split; assumption. }
        destruct lpc as [c|]; [apply Ok_inj' in E; subst; apply Hlpc; reflexivity|].
        destruct fixed as [x|] eqn:Efx; apply Ok_inj' in E; subst sf.
        * apply Hfixed2. reflexivity.
        * exact Hverb.
  Qed.
End Sub.

(* ---- C01, one subframe, end to end, with no verification hypothesis left ---- *)
Lemma sample_ok_bounded bps xs : bps_ok bps = true -> forallb (sample_ok bps) xs = true -> bounded (2 ^ 25) xs.
Proof.
  intros Hb H. pose proof (bps_ok_range _ Hb) as Hr. unfold bounded. apply Forall_forall. intros x Hx.
  rewrite forallb_forall in H. pose proof (sample_ok_range _ _ (H x Hx)) as Hx2.
  assert (Hp : (2 ^ (Z.of_N bps - 1) <= 2 ^ 25)%Z) by (apply Z.pow_le_mono_r; lia). lia.
Qed.

Theorem subframe_end_to_end :
  forall (ent : N -> N -> N -> N) (qlpc : N -> N -> qparams) cfg fi var samples bps sf bytes,
    encode_subframe ent qlpc cfg fi var samples bps = Ok sf ->
    cfg_max_parameter cfg <= 14 -> bps_ok bps = true ->
    forallb (sample_ok bps) samples = true -> N.of_nat (length samples) <= c_MAX_BLOCK_SIZE ->
    (cfg_use_lpc cfg = true ->
       verify_qparams (qlpc fi var) = true /\ (1 <= length (q_coefs (qlpc fi var)) <= length samples)%nat
       /\ lpc_fits (qlpc fi var) samples = true) ->
    pack KU8 (subframe_ops sf) = Ok bytes ->
    exists r', read_subframe (sub_block sf) (sub_bps sf) (rd_of bytes) = Some (samples, r').
Proof.
  intros ent qlpc cfg fi var samples bps sf bytes He Hmp Hbps Hs Hn Hq Hp.
  destruct (encode_subframe_good ent qlpc cfg fi var samples bps sf He Hmp Hbps Hs Hn
              ltac:(intros Hu; destruct (Hq Hu) as (A & B & _); split; assumption)) as (Hv & Ht & Hu & _).
  apply (subframe_bytes_decode_to_input ent qlpc cfg fi var samples bps sf bytes He
           (sample_ok_bounded bps samples Hbps Hs)
           ltac:(intros Hul; destruct (Hq Hul) as (_ & B & C); split; [exact C | lia]) Hv Ht Hu Hp).
Qed.

(* ---- dimensions of what encode_subframe returns ---- *)
Section Dims.
  Variable ent : N -> N -> N -> N.
  Variable qlpc : N -> N -> qparams.

  Theorem encode_subframe_dims cfg fi var samples bps sf :
    encode_subframe ent qlpc cfg fi var samples bps = Ok sf ->
    (cfg_use_lpc cfg = true -> (length (q_coefs (qlpc fi var)) <= length samples)%nat) ->
    sub_dims sf (length samples) bps.
  Proof.
    unfold encode_subframe, sub_dims. intros E Hq.
    destruct (cfg_use_constant cfg && is_constant samples).
    - destruct samples as [|x r]; [discriminate|]. apply Ok_inj' in E. subst sf. split; reflexivity.
    - set (n := N.of_nat (length samples)) in *. set (baseline := (8 + n * bps)%N) in *.
      destruct (n <? MIN_PRED)%N eqn:Eshort; cbn [negb andb] in E.
      + cbn [bind] in E. apply Ok_inj' in E. subst sf. split; reflexivity.
      + destruct (if cfg_use_fixed cfg then if (30 <=? bps)%N then Panic 308
                                            else fixed_candidate ent cfg fi var samples bps baseline
                  else Ok None) as [fixed0| |] eqn:Ef; cbn [bind] in E; try discriminate.
        assert (Hfixed : forall x, fixed0 = Some x -> sub_block x = n /\ sub_bps x = bps).
        { intros x Hx. subst fixed0. destruct (cfg_use_fixed cfg); [|discriminate].
          destruct (30 <=? bps)%N; [discriminate|].
          destruct (fixed_candidate_form' ent _ _ _ _ _ _ _ Ef) as (k & pr & Hk & Hi & Hfind & ->).
          cbn [sub_block sub_bps]. unfold encode_residual_with. cbn [r_block]. rewrite fixed_errors_length. split; reflexivity. }
        set (fixed := match fixed0 with
                      | Some x => if (subframe_count_bits x <? baseline)%N then Some x else None
                      | None => None end) in *.
        assert (Hfixed2 : forall x, fixed = Some x -> sub_block x = n /\ sub_bps x = bps).
        { intros x Hx. unfold fixed in Hx. destruct fixed0 as [y|]; [|discriminate].
          destruct (subframe_count_bits y <? baseline)%N; [|discriminate].
          inversion Hx; subst. apply Hfixed. reflexivity. }
        destruct (if cfg_use_lpc cfg then _ else Ok None) as [lpc| |] eqn:El; cbn [bind] in E; try discriminate.
        assert (Hlpc : forall c, lpc = Some c -> sub_block c = n /\ sub_bps c = bps).
        { intros c Hc. subst lpc. destruct (cfg_use_lpc cfg) eqn:Eul; [|discriminate].
          unfold lpc_candidate in El.
          destruct (lpc_errors (qlpc fi var) samples) as [errs| |] eqn:Ee; cbn [bind] in El; try discriminate.
          unfold residual_checked, encode_residual in El.
          destruct (forallb in_i32 _); [|discriminate].
          destruct (find_prc errs _ _) as [pr| |]; cbn [bind] in El; try discriminate.
          match type of El with
          | Ok (if ?b then Some ?cand else None) = _ => destruct b; [|discriminate]
          end.
          apply Ok_inj' in El. inversion El; subst c. cbn [sub_block sub_bps]. unfold encode_residual_with. cbn [r_block].
          rewrite (lpc_errors_length _ _ _ Ee (Hq eq_refl)). split; reflexivity. }
        destruct lpc as [c|]; [apply Ok_inj' in E; subst; apply Hlpc; reflexivity|].
        destruct fixed as [x|] eqn:Efx; apply Ok_inj' in E; subst sf.
        * apply Hfixed2. reflexivity.
        * split; reflexivity.
  Qed.
End Dims.
