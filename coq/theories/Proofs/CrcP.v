(* Basic facts about the CRC model: the register stays within its width. *)
From FV Require Import Model.Base Model.Crc Proofs.SinkArith.
Local Open Scope N_scope.

Lemma log2_lt_of_lt a w : 0 < w -> a < 2 ^ w -> N.log2 a < w.
Proof.
  intros Hw Ha. destruct (N.eq_dec a 0) as [->|Hn]; [exact Hw|].
  apply N.log2_lt_pow2; [lia | assumption].
Qed.

Lemma lxor_lt_pow2 a b w : a < 2 ^ w -> b < 2 ^ w -> N.lxor a b < 2 ^ w.
Proof.
  intros Ha Hb.
  destruct (N.eq_dec (N.lxor a b) 0) as [E|E]; [rewrite E; apply pow2_pos|].
  destruct (N.eq_dec w 0) as [->|Hw].
  - change (2 ^ 0) with 1 in *. assert (a = 0) by lia. assert (b = 0) by lia. subst. contradiction.
  - apply N.log2_lt_pow2; [lia|].
    eapply N.le_lt_trans; [apply N.log2_lxor|].
    apply N.max_lub_lt; apply log2_lt_of_lt; try assumption; lia.
Qed.

Lemma crc_bit_lt width poly reg bit :
  poly < 2 ^ width -> crc_bit width (2 ^ width) poly reg bit < 2 ^ width.
Proof.
  intros Hp. unfold crc_bit.
  assert (H : (reg * 2) mod 2 ^ width < 2 ^ width) by apply mod_pow2_lt.
  destruct (xorb _ _); [apply lxor_lt_pow2; assumption | assumption].
Qed.

Lemma crc_bits_lt width poly k : forall byte reg,
  poly < 2 ^ width -> reg < 2 ^ width -> crc_bits width (2 ^ width) poly k byte reg < 2 ^ width.
Proof.
  induction k as [|k IH]; intros byte reg Hp Hr; cbn [crc_bits]; [assumption|].
  apply IH; [assumption | apply crc_bit_lt; assumption].
Qed.

Lemma crc_lt width poly bytes : poly < 2 ^ width -> crc width poly bytes < 2 ^ width.
Proof.
  intros Hp. unfold crc.
  assert (H : forall l reg, reg < 2 ^ width ->
              fold_left (crc_byte width (2 ^ width) poly) l reg < 2 ^ width).
  { induction l as [|b t IH]; intros reg Hr; cbn [fold_left]; [assumption|].
    apply IH. unfold crc_byte. apply crc_bits_lt; assumption. }
  apply H. apply pow2_pos.
Qed.

Lemma crc8_lt bytes : crc8 bytes < 2 ^ 8.
Proof. apply crc_lt. reflexivity. Qed.

Lemma crc16_lt bytes : crc16 bytes < 2 ^ 16.
Proof. apply crc_lt. reflexivity. Qed.
