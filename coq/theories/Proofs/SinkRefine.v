(* Both in-memory sinks, and a user sink receiving the default methods, refine the ideal
   MSB-first bit string, for every finite sequence of well-formed operations. *)
From FV Require Import Model.Base Model.Sink Proofs.SinkArith Proofs.SinkU64 Proofs.SinkU8.
Local Open Scope N_scope.

Lemma wf_width_cases w : wf_width w = true -> w = 8 \/ w = 16 \/ w = 32 \/ w = 64.
Proof.
  unfold wf_width. rewrite !Bool.orb_true_iff, !N.eqb_eq. tauto.
Qed.

Lemma forallb_Forall_lt bs : forallb (fun b => b <? 256) bs = true -> Forall (fun x => x < 256) bs.
Proof.
  intros H. apply Forall_forall. intros x Hx.
  rewrite forallb_forall in H. apply N.ltb_lt, H, Hx.
Qed.

Lemma step_refines k s b o :
  R k s b -> wf_op o = true -> exists s', step k s o = Ok s' /\ R k s' (ideal_step b o).
Proof.
  intros HR Hwf. destruct o as [w v | w v n | w v n | v n | n | | bs]; cbn [wf_op] in Hwf;
    rewrite ?Bool.andb_true_iff, ?N.ltb_lt, ?N.leb_le, ?Z.leb_le, ?Z.ltb_lt in Hwf.
  - destruct Hwf as [Hw Hv]. apply wf_width_cases in Hw.
    destruct k; cbn [step ideal_step].
    + apply u8_write_R; try assumption; destruct Hw as [-> | [-> | [-> | ->]]]; try reflexivity; lia.
    + apply u64_write_R; try assumption. lia.
  - destruct Hwf as [[Hw Hv] Hn]. apply wf_width_cases in Hw.
    destruct k; cbn [step ideal_step].
    + apply u8_write_msbs_R; try assumption. lia.
    + apply u64_write_msbs_R; try assumption. lia.
  - destruct Hwf as [[Hw Hv] Hn]. apply wf_width_cases in Hw.
    destruct k; cbn [step ideal_step].
    + apply u8_write_lsbs_R; try assumption. lia.
    + apply u64_write_lsbs_R; try assumption. lia.
  - destruct Hwf as [[[H1 H64] _] _].
    destruct k; cbn [step ideal_step].
    + apply u8_write_twoc_R; assumption.
    + apply u64_write_twoc_R; assumption.
  - destruct k; cbn [step ideal_step]; eexists; (split; [reflexivity|]).
    + apply u8_write_zeros_R; assumption.
    + apply u64_write_zeros_R; assumption.
  - destruct k; cbn [step ideal_step]; eexists; (split; [reflexivity|]).
    + apply u8_align_R; assumption.
    + apply u64_align_R; assumption.
  - apply forallb_Forall_lt in Hwf.
    destruct k; cbn [step ideal_step].
    + eexists; split; [reflexivity|]. apply u8_write_bytes_R; assumption.
    + unfold u64_write_bytes. apply u64_write_bytes_fold_R; [|assumption].
      apply u64_align_R; assumption.
Qed.

Lemma run_from_refines k ops : forall s b,
  R k s b -> forallb wf_op ops = true ->
  exists s', foldM (step k) ops s = Ok s' /\ R k s' (fold_left ideal_step ops b).
Proof.
  induction ops as [|o t IH]; intros s b HR Hwf; cbn [foldM fold_left].
  - exists s. split; [reflexivity|assumption].
  - cbn [forallb] in Hwf. apply Bool.andb_true_iff in Hwf. destruct Hwf as [Ho Ht].
    destruct (step_refines k s b o HR Ho) as (s1 & E1 & HR1).
    rewrite E1. cbn [bind]. apply IH; assumption.
Qed.

(* Main refinement theorem (property C11, first sentence). *)
Theorem sink_refines_ideal k ops :
  forallb wf_op ops = true ->
  exists s, run k ops = Ok s /\ inv k s /\ abs k s = ideal_run ops.
Proof.
  intros Hwf.
  destruct (run_from_refines k ops sempty bempty (R_empty k) Hwf) as (s & E & HR).
  exists s. split; [exact E|].
  destruct (R_inv_abs _ _ _ HR) as [Hi Ha]. split; [exact Hi|].
  rewrite Ha. unfold ideal_run. destruct (fold_left ideal_step ops bempty). reflexivity.
Qed.

(* ---- the user sink: default methods over ideal required operations ---- *)

Lemma bpush_bpush_zeros b n m : bpush (bpush b n 0) m 0 = bpush b (n + m) 0.
Proof.
  unfold bpush, bapp, bfield. cbn [blen_i bval].
  rewrite !N.mod_0_l by apply pow2_nz. rewrite !N.add_0_r.
  f_equal; [lia|]. rewrite N.pow_add_r. lia.
Qed.

Lemma user_zeros_loop fuel : forall n b,
  n <= 64 * N.of_nat fuel + 64 ->
  d_write_zeros_loop bstr ideal_req_write ideal_req_msbs fuel n b = Ok (bpush b n 0).
Proof.
  induction fuel as [|f IH]; intros n b Hn; cbn [d_write_zeros_loop].
  - unfold ideal_req_msbs. destruct (N.ltb_spec 64 n) as [?|_]; [lia|].
    rewrite N.mod_0_l, N.div_0_l by apply pow2_nz. reflexivity.
  - destruct (N.ltb_spec 64 n) as [Hlt|Hle].
    + unfold ideal_req_write at 1. cbn [bind]. rewrite IH by lia.
      rewrite bpush_bpush_zeros. do 2 f_equal. lia.
    + unfold ideal_req_msbs. destruct (N.ltb_spec 64 n) as [?|_]; [lia|].
      rewrite N.mod_0_l, N.div_0_l by apply pow2_nz. reflexivity.
Qed.

Lemma user_bytes_fold bs : forall b,
  foldM (fun a x => ideal_req_write 8 x a) bs b = Ok (fold_left (fun a x => bpush a 8 x) bs b).
Proof.
  induction bs as [|x t IH]; intros b; cbn [foldM fold_left]; [reflexivity|].
  unfold ideal_req_write at 1. cbn [bind]. apply IH.
Qed.

Lemma user_step_ideal b o : wf_op o = true -> user_step b o = Ok (ideal_step b o).
Proof.
  intros Hwf. destruct o as [w v | w v n | w v n | v n | n | | bs]; cbn [wf_op] in Hwf;
    rewrite ?Bool.andb_true_iff, ?N.ltb_lt, ?N.leb_le, ?Z.leb_le, ?Z.ltb_lt in Hwf;
    cbn [user_step ideal_step]; try reflexivity.
  - destruct Hwf as [[Hw Hv] Hn]. unfold ideal_req_msbs.
    destruct (N.ltb_spec w n) as [?|_]; [lia|]. reflexivity.
  - destruct Hwf as [[[H1 H64] _] _]. unfold d_write_twoc.
    destruct (N.eqb_spec n 0) as [?|_]; [lia|].
    destruct (N.ltb_spec 64 n) as [?|_]; [lia|]. cbn [orb].
    unfold ideal_req_msbs. destruct (N.ltb_spec 64 n) as [?|_]; [lia|].
    destruct (twoc_shifted_eq v n H1 H64) as [E Hd].
    assert (Hlt : twoc_shifted v n < 2 ^ 64).
    { rewrite E. replace 64 with (n + (64 - n)) at 2 by lia. apply mul_lt_pow2; [assumption|lia]. }
    rewrite (N.mod_small _ _ Hlt), E, mul_div_pow2. reflexivity.
  - unfold d_write_zeros. apply user_zeros_loop.
    rewrite N2Nat.id. pose proof (N.div_mod n 64 ltac:(lia)). pose proof (N.mod_lt n 64 ltac:(lia)).
    set (q := n / 64) in *. set (r := n mod 64) in *. lia.
  - unfold d_write_bytes, ideal_req_align. cbn [bind]. apply user_bytes_fold.
Qed.

(* Property C11, second sentence: a sink implementing only the required operations receives
   exactly the ideal bit sequence through the default methods. *)
Theorem user_sink_receives_ideal ops :
  forallb wf_op ops = true -> user_run ops = Ok (ideal_run ops).
Proof.
  unfold user_run, ideal_run. generalize bempty.
  induction ops as [|o t IH]; intros b Hwf; cbn [foldM fold_left]; [reflexivity|].
  cbn [forallb] in Hwf. apply Bool.andb_true_iff in Hwf. destruct Hwf as [Ho Ht].
  rewrite (user_step_ideal b o Ho). cbn [bind]. apply IH. assumption.
Qed.

(* ---- number view <-> list-of-bits view ---- *)

Lemma testbit_concat a m v i : v < 2 ^ m ->
  N.testbit (a * 2 ^ m + v) i = if i <? m then N.testbit v i else N.testbit a (i - m).
Proof.
  intros Hv.
  rewrite <- (lor_add (a * 2 ^ m) v m (mul_mod_pow2 a m) Hv), N.lor_spec.
  destruct (N.ltb_spec i m) as [Hi|Hi].
  - rewrite N.mul_pow2_bits_low by assumption. reflexivity.
  - rewrite N.mul_pow2_bits_high by assumption.
    replace (N.testbit v i) with false; [apply Bool.orb_false_r|].
    symmetry. destruct (N.eq_dec v 0) as [->|Hnz]; [apply N.bits_0|].
    apply N.bits_above_log2. apply N.log2_lt_pow2; [lia|].
    eapply N.lt_le_trans; [exact Hv|]. apply pow2_le; assumption.
Qed.

Lemma bits_msb_low n : forall a m v, v < 2 ^ m -> (n <= N.to_nat m)%nat ->
  bits_msb n (a * 2 ^ m + v) = bits_msb n v.
Proof.
  induction n as [|n IH]; intros a m v Hv Hn; cbn [bits_msb]; [reflexivity|].
  rewrite testbit_concat by assumption.
  destruct (N.ltb_spec (N.of_nat n) m) as [_|?]; [|lia].
  f_equal. apply IH; [assumption|lia].
Qed.

Lemma bits_msb_concat n : forall a m v, v < 2 ^ m ->
  bits_msb (n + N.to_nat m) (a * 2 ^ m + v) = bits_msb n a ++ bits_msb (N.to_nat m) v.
Proof.
  induction n as [|n IH]; intros a m v Hv.
  - cbn [Nat.add bits_msb app]. apply bits_msb_low; [assumption|lia].
  - cbn [Nat.add bits_msb app]. rewrite testbit_concat by assumption.
    destruct (N.ltb_spec (N.of_nat (n + N.to_nat m)) m) as [?|_]; [lia|].
    replace (N.of_nat (n + N.to_nat m) - m) with (N.of_nat n) by lia.
    f_equal. apply IH. assumption.
Qed.

(* appending in the number view is list concatenation in the bit view *)
Theorem bstr_bits_app a b : bval b < 2 ^ blen_i b ->
  bstr_bits (bapp a b) = bstr_bits a ++ bstr_bits b.
Proof.
  intros Hb. unfold bstr_bits, bapp. cbn [blen_i bval].
  rewrite N2Nat.inj_add. apply bits_msb_concat. assumption.
Qed.

Corollary bstr_bits_push a n v : bstr_bits (bpush a n v) = bstr_bits a ++ bstr_bits (bfield n v).
Proof. unfold bpush. apply bstr_bits_app. cbn [bfield bval blen_i]. apply mod_pow2_lt. Qed.

Lemma bits_msb_length n v : length (bits_msb n v) = n.
Proof. induction n as [|n IH]; cbn [bits_msb length]; [reflexivity|]. rewrite IH. reflexivity. Qed.

(* non-vacuity: a concrete non-trivial operation sequence is well-formed, and both sinks agree
   with the ideal string on it *)
Example sink_example :
  let ops := [OLsbs 8 0xFF 3; OZeros 65; OWrite 16 0x5555; OTwoc (-3) 5; OAlign;
              OBytes [0xB7; 0x7D]; OMsbs 64 0xCAFEFEEDBEEFFACE 47; OMsbs 32 1 0] in
  forallb wf_op ops = true /\
  (match run KU8 ops, run KU64 ops with
   | Ok s8, Ok s64 => abs KU8 s8 = ideal_run ops /\ abs KU64 s64 = ideal_run ops /\
                      export_bytes KU8 s8 = export_bytes KU64 s64
   | _, _ => False
   end).
Proof. vm_compute. repeat split; reflexivity. Qed.
