(* C08: reported bit counts equal the number of bits written. *)
From FV Require Import Generated Model.Base Model.Sink Model.Crc Model.Codes Model.Rice Model.Predict
  Model.Component Proofs.SinkArith Proofs.SinkRefine Proofs.OpsLen Proofs.CrcP.
Local Open Scope N_scope.

Lemma sumN_app a b : sumN (a ++ b) = sumN a + sumN b.
Proof. unfold sumN. induction a as [|x t IH]; cbn [app fold_right]; [reflexivity|]. rewrite IH. lia. Qed.

Lemma sumN_firstn_skipn (k : nat) l : sumN l = sumN (firstn k l) + sumN (skipn k l).
Proof. rewrite <- sumN_app, firstn_skipn. reflexivity. Qed.

Lemma sumN_repeat0 k : sumN (repeat 0 k) = 0.
Proof. induction k as [|k IH]; cbn; [reflexivity|]. exact IH. Qed.

(* ---- residual ---- *)

Lemma part_ops_len p : forall qs rs cur,
  length qs = length rs ->
  ops_len cur (residual_part_ops p qs rs) = sumN qs + (p + 1) * N.of_nat (length qs).
Proof.
  induction qs as [|q qs IH]; intros [|r rs] cur Hl; cbn [length] in Hl; try discriminate.
  - cbn. lia.
  - cbn [residual_part_ops ops_len op_len]. rewrite IH by lia.
    cbn [length sumN fold_right]. rewrite Nat2N.inj_succ. unfold sumN. lia.
Qed.

Lemma parts_ops_len_aligned (part : nat) : forall params qs rs cur,
  length qs = (length params * part)%nat -> length rs = (length params * part)%nat ->
  ops_len cur (residual_parts_ops params part 0 qs rs)
  = 4 * N.of_nat (length params) + sumN qs + (sumN params + N.of_nat (length params)) * N.of_nat part.
Proof.
  induction params as [|p ps IH]; intros qs rs cur Hq Hr.
  - cbn [length Nat.mul] in *. destruct qs; [|discriminate]. cbn. lia.
  - cbn [residual_parts_ops]. cbn [ops_len op_len]. rewrite ops_len_app.
    cbn [skipn]. cbn [length] in Hq, Hr.
    rewrite part_ops_len by (rewrite !firstn_length; lia).
    rewrite IH by (rewrite skipn_length; lia).
    rewrite firstn_length. replace (Nat.min part (length qs)) with part by lia.
    rewrite (sumN_firstn_skipn part qs).
    cbn [length sumN fold_right]. rewrite Nat2N.inj_succ. unfold sumN. lia.
Qed.

Definition wf_residual (r : residual) : Prop :=
  exists part : nat,
    N.of_nat (length (r_params r)) = 2 ^ r_order r /\
    r_block r = N.of_nat (length (r_params r) * part) /\
    r_block r / 2 ^ r_order r = N.of_nat part /\
    length (r_quot r) = (length (r_params r) * part)%nat /\
    length (r_rem r) = (length (r_params r) * part)%nat /\
    (N.to_nat (r_warmup r) <= part)%nat /\
    firstn (N.to_nat (r_warmup r)) (r_quot r) = repeat 0 (N.to_nat (r_warmup r)) /\
    r_params r <> [].

Theorem residual_count_bits_correct r cur :
  wf_residual r -> ops_len cur (residual_ops r) = residual_count_bits r.
Proof.
  intros (part & Hpl & Hblock & Hdiv & Hq & Hr & Hwarm & Hzero & Hne).
  unfold residual_ops, residual_count_bits. rewrite Hdiv, Nat2N.id.
  destruct (r_params r) as [|p ps] eqn:Ep; [contradiction|]. clear Hne.
  cbn [ops_len op_len residual_parts_ops]. rewrite ops_len_app.
  cbn [length] in *.
  set (w := N.to_nat (r_warmup r)) in *.
  rewrite part_ops_len by (rewrite !skipn_length, !firstn_length; lia).
  rewrite parts_ops_len_aligned by (rewrite skipn_length; lia).
  rewrite skipn_length, firstn_length. replace (Nat.min part (length (r_quot r))) with part by lia.
  (* sum of the quotients: the warm-up prefix is zero *)
  assert (Hs1 : sumN (r_quot r) = sumN (firstn part (r_quot r)) + sumN (skipn part (r_quot r)))
    by apply sumN_firstn_skipn.
  assert (Hs2 : sumN (firstn part (r_quot r))
                = sumN (firstn w (firstn part (r_quot r))) + sumN (skipn w (firstn part (r_quot r))))
    by apply sumN_firstn_skipn.
  assert (Hs3 : sumN (firstn w (firstn part (r_quot r))) = 0).
  { rewrite firstn_firstn. replace (Nat.min w part) with w by lia. rewrite Hzero. apply sumN_repeat0. }
  cbn [hd sumN fold_right]. rewrite <- Hpl, Hblock.
  rewrite !Nat2N.inj_succ, !Nat2N.inj_mul, !Nat2N.inj_succ, Nat2N.inj_sub.
  assert (Hw : N.of_nat w = r_warmup r) by (unfold w; apply N2Nat.id).
  rewrite Hw.
  assert (Hwp : r_warmup r <= N.of_nat part) by lia.
  unfold sumN in *.
  set (P := N.of_nat part) in *. set (K := N.of_nat (length ps)) in *. set (W := r_warmup r) in *.
  set (SP := fold_right N.add 0 ps) in *.
  nia.
Qed.

(* ---- subframes ---- *)

Lemma twoc_ops_len bps l cur : ops_len cur (twoc_ops bps l) = N.of_nat (length l) * bps.
Proof.
  revert cur. induction l as [|x t IH]; intros cur; cbn [twoc_ops map ops_len op_len length].
  - reflexivity.
  - fold (twoc_ops bps t). rewrite IH, Nat2N.inj_succ. lia.
Qed.

Definition sub_shape (s : subframe) : Prop :=
  match s with
  | SConstant _ _ _ | SVerbatim _ _ => True
  | SFixed warm res _ => wf_residual res
  | SLpc warm q res _ => wf_residual res /\ length (q_coefs q) = length warm /\ (1 <= length warm)%nat
  end.

Theorem subframe_count_bits_correct s cur :
  sub_shape s -> ops_len cur (subframe_ops s) = subframe_count_bits s.
Proof.
  destruct s as [blk dc bps | samples bps | warm res bps | warm q res bps]; cbn [sub_shape subframe_ops subframe_count_bits].
  - intros _. cbn [ops_len op_len]. lia.
  - intros _. cbn [ops_len op_len]. rewrite twoc_ops_len. lia.
  - intros Hw. cbn [ops_len op_len]. rewrite ops_len_app, twoc_ops_len.
    rewrite (residual_count_bits_correct res _ Hw). lia.
  - intros (Hw & Hc & H1). cbn [ops_len op_len]. rewrite !ops_len_app, !twoc_ops_len.
    cbn [ops_len op_len]. rewrite (residual_count_bits_correct res _ Hw), Hc. lia.
Qed.

Lemma subframes_ops_len subs : forall cur,
  Forall sub_shape subs ->
  ops_len cur (flat_map subframe_ops subs) = sumN (map subframe_count_bits subs).
Proof.
  induction subs as [|s r IH]; intros cur Hs; cbn [flat_map map sumN fold_right]; [reflexivity|].
  inversion Hs as [|? ? H1 H2]; subst.
  rewrite ops_len_app, (subframe_count_bits_correct s cur H1), IH by assumption. reflexivity.
Qed.

(* ---- UTF-8-like number: encoded length equals the length formula ---- *)

Lemma utf8_trail_length k v : length (utf8_trail k v) = k.
Proof. induction k as [|k IH]; cbn [utf8_trail length]; [reflexivity|]. rewrite IH. reflexivity. Qed.

Lemma utf8like_length v bytes : utf8like v = Ok bytes -> N.of_nat (length bytes) = utf8like_bytesize v.
Proof.
  unfold utf8like, utf8like_bytesize.
  destruct (N.leb_spec (code_bits v) 7).
  - intros E. inversion E. reflexivity.
  - destruct (N.ltb_spec 36 (code_bits v)); [discriminate|].
    intros E. inversion E. cbn [length]. rewrite utf8_trail_length, Nat2N.inj_succ, N2Nat.id. lia.
Qed.

(* ---- frame header ---- *)

Lemma header_inner_len h ops :
  header_inner_ops h = Ok ops ->
  ops_len 0 ops = 32 + 8 * utf8like_bytesize (h_number h) + c_xbits (h_bs h) + c_xbits (h_sr h).
Proof.
  unfold header_inner_ops.
  destruct (chassign_tag (h_ch h)) as [ct| |]; cbn [bind]; try discriminate.
  destruct (utf8like (h_number h)) as [num| |] eqn:Eu; cbn [bind]; try discriminate.
  intros E. inversion E; subst ops. clear E.
  rewrite <- (utf8like_length _ _ Eu).
  cbn [app ops_len op_len]. rewrite ops_len_app.
  replace (pad8 (0 + 16 + 8 + 4 + 4)) with 0 by reflexivity.
  destruct (N.eqb_spec (c_xbits (h_bs h)) 0) as [Eb|Eb]; destruct (N.eqb_spec (c_xbits (h_sr h)) 0) as [Es|Es];
    cbn [ops_len op_len]; lia.
Qed.

(* ---- frames ---- *)

(* executable well-formedness of a frame's operation lists (operand widths, field sizes) *)
Definition frame_ops_wfb (f : frame) : bool :=
  match header_inner_ops (f_header f), frame_inner_ops f with
  | Ok hops, Ok iops =>
      forallb wf_op hops && forallb wf_op iops
      && (c_xbits (h_bs (f_header f)) mod 8 =? 0) && (c_xbits (h_sr (f_header f)) mod 8 =? 0)
  | _, _ => false
  end.

Lemma div8_mul8 x : x mod 8 = 0 -> (x + 7) / 8 * 8 = x.
Proof.
  intros H. pose proof (N.div_mod x 8 ltac:(lia)) as Hd. rewrite H, N.add_0_r in Hd.
  set (q := x / 8) in *.
  rewrite Hd. replace (8 * q + 7) with (7 + q * 8) by lia.
  rewrite N.div_add by lia. change (7 / 8) with 0. lia.
Qed.

Lemma wf_bytes_crc8 b : wf_op (OWrite 8 (crc8 b)) = true -> True.
Proof. trivial. Qed.

Lemma In_firstn {A} (x : A) n : forall l, In x (firstn n l) -> In x l.
Proof.
  induction n as [|n IH]; intros [|y l] H; cbn [firstn] in H; try contradiction.
  destruct H as [H|H]; [left; assumption | right; apply IH; assumption].
Qed.

Lemma be_bytes_lt k : forall val x, val < 2 ^ 64 -> In x (be_bytes k 64 val) -> x < 256.
Proof.
  induction k as [|k IH]; intros val x Hv Hin; cbn [be_bytes] in Hin; [contradiction|].
  destruct Hin as [Hx|Hin].
  - subst x. rewrite DIV2_eq. change 256 with (2 ^ (64 - (64 - 8))). apply hi_bound; [lia | assumption].
  - apply (IH (MOD2 (val * 256) 64)); [|assumption]. rewrite MOD2_eq. apply mod_pow2_lt.
Qed.

Theorem frame_count_bits_correct f bytes :
  f_precomputed f = None ->
  Forall sub_shape (f_subframes f) ->
  frame_ops_wfb f = true ->
  frame_bytes f = Ok bytes ->
  8 * N.of_nat (length bytes) = frame_count_bits f.
Proof.
  intros Hpre Hshape Hwf.
  unfold frame_ops_wfb in Hwf.
  destruct (header_inner_ops (f_header f)) as [hops| |] eqn:Eh; try discriminate.
  destruct (frame_inner_ops f) as [iops| |] eqn:Ei; try discriminate.
  rewrite !Bool.andb_true_iff, !N.eqb_eq in Hwf. destruct Hwf as [[[Hwh Hwi] Hxb] Hxs].
  unfold frame_bytes, frame_ops. rewrite Hpre.
  unfold frame_body_bytes in *. rewrite Ei in *. cbn [bind] in *.
  destruct (pack KU64 iops) as [body| |] eqn:Ep; cbn [bind]; try discriminate.
  intros Eb.
  (* length of the body *)
  pose proof (pack_u64_length iops body Hwi Ep) as Hbody.
  (* the inner op list *)
  unfold frame_inner_ops, header_ops, header_bytes in Ei. rewrite Eh in Ei. cbn [bind] in Ei.
  destruct (pack KU8 hops) as [hb| |] eqn:Eph; cbn [bind] in Ei; try discriminate.
  inversion Ei; subst iops. clear Ei.
  pose proof (pack_u8_length hops hb Hwh Eph) as Hhb.
  rewrite ops_bits_len, (header_inner_len _ _ Eh) in Hhb.
  set (U := utf8like_bytesize (h_number (f_header f))) in *.
  set (XB := c_xbits (h_bs (f_header f))) in *. set (XS := c_xbits (h_sr (f_header f))) in *.
  assert (Hhbits : 8 * N.of_nat (length hb) = 32 + 8 * U + XB + XS).
  { rewrite Hhb. rewrite N.mul_comm. apply div8_mul8.
    rewrite <- N.add_assoc, N.add_mod by lia.
    replace ((32 + 8 * U) mod 8) with 0.
    2:{ replace (32 + 8 * U) with ((4 + U) * 8) by lia. symmetry. apply N.mod_mul. lia. }
    rewrite N.add_0_l, N.mod_mod by lia. rewrite N.add_mod by lia. rewrite Hxb, Hxs. reflexivity. }
  rewrite ops_bits_len in Hbody. cbn [app ops_len op_len] in Hbody.
  rewrite ops_len_app in Hbody. cbn [ops_len op_len] in Hbody.
  rewrite (subframes_ops_len _ _ Hshape) in Hbody.
  change (pad8 0) with 0 in Hbody. rewrite !N.add_0_l, N.add_0_r in Hbody.
  set (S := sumN (map subframe_count_bits (f_subframes f))) in *.
  set (T := 8 * N.of_nat (length hb) + 8 + S) in *.
  replace (0 + (8 * N.of_nat (length hb)) + 8 + S) with T in Hbody by (unfold T; lia).
  replace (8 * N.of_nat (length hb) + (8 + (S + pad8 T))) with (T + pad8 T) in Hbody by (unfold T; lia).
  destruct (pad8_spec T) as [Hal Hp8].
  assert (Hb8 : 8 * N.of_nat (length body) = T + pad8 T).
  { rewrite Hbody, N.mul_comm. apply div8_mul8. exact Hal. }
  (* the outer pack *)
  assert (Hwo : forallb wf_op [OBytes body; OWrite 16 (crc16 body)] = true).
  { cbn [forallb wf_op wf_width]. rewrite !Bool.andb_true_r.
    apply Bool.andb_true_iff. split.
    - (* every byte of a packed body is < 256: follows from the sink invariant *)
      unfold pack in Ep.
      destruct (sink_refines_ideal KU64 _ Hwi) as (s & Es & Hinv & _). rewrite Es in Ep. cbn [bind] in Ep.
      apply Ok_inj in Ep. subst body. unfold export_bytes.
      apply forallb_forall. intros x Hx. apply In_firstn in Hx. apply in_flat_map in Hx.
      destruct Hx as (wd & Hwd & Hx). apply N.ltb_lt.
      destruct Hinv as (_ & _ & Hall & _). cbn [wordbits] in Hall. rewrite Forall_forall in Hall.
      apply (be_bytes_lt 8 wd x); [|exact Hx].
      apply Hall. unfold storage in Hwd. rewrite <- rev_alt, <- in_rev in Hwd. exact Hwd.
    - apply Bool.andb_true_iff. split; [reflexivity|]. apply N.ltb_lt. apply crc16_lt. }
  pose proof (pack_u8_length _ _ Hwo Eb) as Hout.
  rewrite ops_bits_len in Hout. cbn [ops_len op_len] in Hout. change (pad8 0) with 0 in Hout.
  rewrite !N.add_0_l, N.add_0_r in Hout.
  unfold frame_count_bits. rewrite Hpre. unfold header_count_bits. fold U XB XS S.
  assert (Hq : (40 + 8 * U + XB + XS + S + 7) / 8 * 8 = T + pad8 T).
  { replace (40 + 8 * U + XB + XS + S) with T by (unfold T; lia).
    pose proof (N.div_mod (T + pad8 T) 8 ltac:(lia)) as Hd. rewrite Hal, N.add_0_r in Hd.
    set (q := (T + pad8 T) / 8) in *.
    assert (Hq2 : (T + 7) / 8 = q).
    { symmetry. apply N.div_unique with (r := 7 - pad8 T); lia. }
    rewrite Hq2. lia. }
  rewrite Hq.
  assert (Hlen : N.of_nat (length bytes) = N.of_nat (length body) + 2).
  { rewrite Hout. replace (8 * N.of_nat (length body) + 16 + 7) with (7 + (N.of_nat (length body) + 2) * 8) by lia.
    rewrite N.div_add by lia. reflexivity. }
  lia.
Qed.

(* every frame is a whole number of bytes *)
Lemma frame_count_bits_mod8 f : frame_count_bits f mod 8 = 0.
Proof.
  unfold frame_count_bits. destruct (f_precomputed f) as [b|].
  - rewrite N.mul_comm. apply N.mod_mul. lia.
  - set (q := (_ + 7) / 8). replace (q * 8 + 16) with ((q + 2) * 8) by lia. apply N.mod_mul. lia.
Qed.

(* precomputing the bitstream does not change the reported count nor the bytes written *)
Theorem precompute_preserves f f' :
  f_precomputed f = None -> Forall sub_shape (f_subframes f) -> frame_ops_wfb f = true ->
  precompute f = Ok f' ->
  frame_count_bits f' = frame_count_bits f /\ frame_ops f' = (do b <- frame_bytes f; Ok [OBytes b]).
Proof.
  intros Hpre Hshape Hwf. unfold precompute. rewrite Hpre.
  destruct (frame_bytes f) as [b| |] eqn:Eb; cbn [bind]; try discriminate.
  intros E. apply Ok_inj in E. subst f'. split.
  - unfold frame_count_bits at 1. cbn [f_precomputed].
    apply (frame_count_bits_correct f b Hpre Hshape Hwf Eb).
  - reflexivity.
Qed.

(* the number of bits either in-memory sink holds after a well-formed op sequence is the ideal
   count: "through either in-memory sink type" *)
Theorem sink_len_is_ops_bits k ops :
  forallb wf_op ops = true -> exists s, run k ops = Ok s /\ blen s = ops_bits ops.
Proof.
  intros Hwf. destruct (sink_refines_ideal k ops Hwf) as (s & E & _ & Habs).
  exists s. split; [exact E|]. unfold ops_bits. rewrite <- Habs. reflexivity.
Qed.

(* non-vacuity: a residual and a frame meeting the hypotheses *)
Definition ex_res : residual :=
  mkResidual 1 128 2 [3; 0] (repeat 0 2 ++ repeat 5 126) (repeat 0 2 ++ repeat 1 62 ++ repeat 0 64).
Example ex_res_wf : wf_residual ex_res.
Proof. exists 64%nat. cbn. repeat split; try reflexivity; try lia. discriminate. Qed.
Example ex_res_count : ops_len 0 (residual_ops ex_res) = residual_count_bits ex_res.
Proof. vm_compute. reflexivity. Qed.
