(* Byte-aligned reading with the bit reader of Flac.v. *)
From FV Require Import Model.Base Model.Flac Proofs.SinkArith.
Local Open Scope N_scope.

(* the value assembled from the eight bits of a byte, MSB first *)
Definition byte_value (b : N) : N :=
  fold_left (fun acc k => 2 * acc + (if N.testbit b k then 1 else 0)) [7; 6; 5; 4; 3; 2; 1; 0] 0.

Lemma byte_value_sweep : forallb (fun b => byte_value b =? b) (map N.of_nat (seq 0 256)) = true.
Proof. vm_compute. reflexivity. Qed.

Lemma byte_value_id b : b < 256 -> byte_value b = b.
Proof.
  intros Hb. pose proof byte_value_sweep as H. rewrite forallb_forall in H.
  apply N.eqb_eq, H. apply in_map_iff. exists (N.to_nat b). split; [lia|]. apply in_seq. lia.
Qed.

Lemma rbits8_aligned b t c : b < 256 ->
  rbits 8 (mkRd (b :: t) 0 c) = Some (b, mkRd t 0 (c + 1)).
Proof.
  intros Hb. unfold rbits. change (N.to_nat 8) with 8%nat.
  cbn [read_bits read_bit r_bytes r_off r_cnt N.eqb Pos.eqb N.add N.sub Pos.sub Pos.add Pos.succ Pos.pred_double Pos.sub_mask
       Pos.double_mask Pos.succ_double_mask Pos.double_pred_mask].
  cbv beta iota.
  repeat (change (0 =? 7) with false || change (1 =? 7) with false || change (2 =? 7) with false
          || change (3 =? 7) with false || change (4 =? 7) with false || change (5 =? 7) with false
          || change (6 =? 7) with false || change (7 =? 7) with true || cbv beta iota
          || cbn [read_bits read_bit r_bytes r_off r_cnt]).
  f_equal. f_equal.
  rewrite <- (byte_value_id b Hb) at 9. unfold byte_value. cbn [fold_left].
  repeat (change (7 - 0) with 7 || change (7 - 1) with 6 || change (7 - 2) with 5 || change (7 - 3) with 4
          || change (7 - 4) with 3 || change (7 - 5) with 2 || change (7 - 6) with 1 || change (7 - 7) with 0
          || change (0 + 1) with 1 || change (1 + 1) with 2 || change (2 + 1) with 3 || change (3 + 1) with 4
          || change (4 + 1) with 5 || change (5 + 1) with 6 || change (6 + 1) with 7).
  reflexivity.
Qed.

Lemma rmany_bytes_aligned : forall (k : nat) (bs t : list N) c,
  length bs = k -> Forall (fun b => b < 256) bs ->
  rmany k (rbits 8) (mkRd (bs ++ t) 0 c) = Some (bs, mkRd t 0 (c + N.of_nat k)).
Proof.
  induction k as [|k IH]; intros bs t c Hl Hb.
  - destruct bs; [|discriminate]. cbn [rmany app]. rewrite N.add_0_r. reflexivity.
  - destruct bs as [|b bs']; [discriminate|]. inversion Hb as [|? ? Hb1 Hb2]; subst.
    cbn [rmany app]. rewrite rbits8_aligned by assumption.
    rewrite IH; [|cbn in Hl; lia | assumption].
    do 3 f_equal. lia.
Qed.
