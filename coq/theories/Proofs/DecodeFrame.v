(* C01 at frame level: the independent decoder (Flac.read_frame) on the bytes of a frame. *)
From FV Require Import Generated Model.Base Model.Sink Model.Crc Model.Codes Model.Rice Model.Predict
  Model.Component Model.Flac Model.Parser Model.Ctor
  Proofs.SinkArith Proofs.SinkRefine Proofs.OpsLen Proofs.CrcP Proofs.Utf8P Proofs.ReaderP Proofs.ParserP
  Proofs.BitRead Proofs.BitWrite Proofs.BitUnary Proofs.CtorP
  Proofs.ParseResidual Proofs.ParseSubframe Proofs.Lossless Proofs.DecodeSubframe Proofs.CountBits.
Local Open Scope N_scope.

(* ---- readers that stand on a byte boundary ---- *)
Lemma rd_eta r : r = mkRd (r_bytes r) (r_off r) (r_cnt r).
Proof. destruct r; reflexivity. Qed.

Lemma rd_from_start start r c :
  rd_wf r -> rd_adv (rd_of start) r -> rd_pos r = 8 * c -> r = mkRd (skipn (N.to_nat c) start) 0 c.
Proof.
  intros [Hoff _] Hadv Hpos. apply rd_adv_elim in Hadv. destruct Hadv as [_ Hb]. cbn [rd_of r_cnt r_bytes] in Hb.
  unfold rd_pos in Hpos. assert (r_off r = 0 /\ r_cnt r = c) as [Ho Hc] by lia.
  rewrite (rd_eta r), Hb, Ho, Hc, N.sub_0_r. reflexivity.
Qed.

Lemma rd_aligned_bits l c : rd_bits (mkRd l 0 c) = bytes_bits l /\ rd_wf (mkRd l 0 c) /\ rd_pos (mkRd l 0 c) = 8 * c.
Proof. unfold rd_bits, rd_wf, rd_pos. cbn [r_bytes r_off r_cnt N.to_nat skipn]. repeat split; try lia. Qed.

Lemma rd_adv_skip start k : rd_adv (rd_of start) (mkRd (skipn (N.to_nat k) start) 0 k).
Proof. apply rd_adv_intro; cbn [rd_of r_cnt r_bytes]; [lia | rewrite N.sub_0_r; reflexivity]. Qed.

(* ---- bytes <-> bits ---- *)
Lemma bytes_bits_app a b : bytes_bits (a ++ b) = bytes_bits a ++ bytes_bits b.
Proof. unfold bytes_bits. apply flat_map_app. Qed.

Lemma bits8_inj x y : x < 256 -> y < 256 -> bits_msb 8 x = bits_msb 8 y -> x = y.
Proof.
  intros Hx Hy E. rewrite <- (val_bits_msb_small 8 x), <- (val_bits_msb_small 8 y) by assumption. rewrite E. reflexivity.
Qed.

Lemma bytes_bits_inj : forall a b, Forall (fun x => x < 256) a -> Forall (fun x => x < 256) b ->
  bytes_bits a = bytes_bits b -> a = b.
Proof.
  induction a as [|x a IH]; intros [|y b] Ha Hb E.
  - reflexivity.
  - apply (f_equal (@length bool)) in E. rewrite !bytes_bits_length in E. cbn [length] in E. lia.
  - apply (f_equal (@length bool)) in E. rewrite !bytes_bits_length in E. cbn [length] in E. lia.
  - inversion Ha as [|? ? Hx Ha']; inversion Hb as [|? ? Hy Hb']; subst.
    unfold bytes_bits in E. cbn [flat_map] in E. fold (bytes_bits a) in E. fold (bytes_bits b) in E.
    assert (E1 : bits_msb 8 x = bits_msb 8 y).
    { apply (f_equal (firstn 8)) in E. rewrite !firstn_exact in E by apply bits_msb_length. exact E. }
    assert (E2 : bytes_bits a = bytes_bits b).
    { apply (f_equal (skipn 8)) in E. rewrite !skipn_exact in E by apply bits_msb_length. exact E. }
    f_equal; [apply bits8_inj; assumption | apply IH; assumption].
Qed.

Lemma bits16_bytes c : c < 2 ^ 16 -> bits_msb 16 c = bytes_bits [c / 256; c mod 256].
Proof.
  intros Hc. unfold bytes_bits. cbn [flat_map]. rewrite app_nil_r.
  rewrite (split_hi_lo c 8) at 1. change (2 ^ 8) with 256.
  change 16%nat with (8 + N.to_nat 8)%nat. rewrite bits_msb_concat by (apply N.mod_upper_bound; lia). reflexivity.
Qed.

Lemma bits8_byte c : bits_msb 8 c = bytes_bits [c].
Proof. unfold bytes_bits. cbn [flat_map]. rewrite app_nil_r. reflexivity. Qed.

(* ---- the coded number, as the independent decoder reads it from a byte boundary ---- *)
Theorem flac_number_roundtrip v bytes rest c :
  utf8like v = Ok bytes ->
  read_coded_number (mkRd (bytes ++ rest) 0 c) = Some (v, mkRd rest 0 (c + N.of_nat (length bytes))).
Proof.
  unfold utf8like.
  destruct (N.leb_spec (code_bits v) 7) as [H7|H7].
  - intros E. inversion E; subst bytes. cbn [app length]. unfold read_coded_number.
    assert (Hv : v < 128).
    { unfold code_bits in H7. eapply N.lt_le_trans; [apply N.size_gt|]. change 128 with (2 ^ 7). apply pow2_le. exact H7. }
    rewrite rbits8_aligned by lia.
    destruct (N.ltb_spec v 128); [|lia]. reflexivity.
  - destruct (N.ltb_spec 36 (code_bits v)) as [?|H36]; [discriminate|].
    destruct (class_bounds v ltac:(lia) H36) as (Hk & Hhi & Hlo).
    cbv zeta. set (k := (code_bits v - 2) / 5) in *.
    intros E. apply (f_equal (fun r => match r with Ok x => x | _ => [] end)) in E. subst bytes.
    assert (Hlead : v / 2 ^ (6 * k) < 2 ^ (6 - k)).
    { apply N.div_lt_upper_bound; [apply pow2_nz|]. rewrite <- N.pow_add_r.
      replace (6 * k + (6 - k)) with (5 * k + 6) by lia. exact Hhi. }
    rewrite (N.mod_small _ _ Hlead).
    set (lead := v / 2 ^ (6 * k)) in *. fold (head_byte k lead).
    destruct (head_classify k lead Hk Hlead) as [H192 Hcl].
    assert (Hh256 : head_byte k lead < 256).
    { unfold head_byte, utf8_head. destruct (N.eqb_spec k 6); [lia|].
      assert (2 ^ (7 - k) <= 2 ^ 7) by (apply pow2_le; lia). change (2 ^ 7) with 128 in *.
      assert (2 ^ (6 - k) * 2 = 2 ^ (7 - k)).
      { replace (7 - k) with (N.succ (6 - k)) by lia. rewrite N.pow_succ_r'. lia. }
      lia. }
    cbn [app length]. unfold read_coded_number. rewrite rbits8_aligned by exact Hh256.
    destruct (N.ltb_spec (head_byte k lead) 128); [lia|].
    destruct (N.ltb_spec (head_byte k lead) 192); [lia|].
    unfold classify in Hcl. rewrite Hcl.
    destruct (N.eqb_spec k 0); [lia|].
    rewrite (rmany_bytes_aligned (N.to_nat k) (utf8_trail (N.to_nat k) v) rest (c + 1)
               (trail_length _ _) (trail_lt256 _ _)).
    rewrite (trail_range (N.to_nat k) v). cbn [negb].
    rewrite trail_fold, N2Nat.id.
    assert (Hv : lead * 2 ^ (6 * k) + v mod 2 ^ (6 * k) = v) by (symmetry; apply split_hi_lo).
    rewrite Hv.
    destruct (N.ltb_spec v (if k =? 1 then 128 else 2 ^ (5 * k + 1))); [lia|].
    rewrite trail_length. do 3 f_equal. lia.
Qed.

Lemma utf8like_lt256 v bytes : utf8like v = Ok bytes -> Forall (fun b => b < 256) bytes.
Proof.
  unfold utf8like.
  destruct (N.leb_spec (code_bits v) 7) as [H7|H7].
  - intros E. inversion E; subst. constructor; [|constructor].
    unfold code_bits in H7. eapply N.lt_trans; [apply N.size_gt|]. eapply N.le_lt_trans; [apply pow2_le; exact H7|]. reflexivity.
  - destruct (N.ltb_spec 36 (code_bits v)) as [?|H36]; [discriminate|].
    destruct (class_bounds v ltac:(lia) H36) as (Hk & Hhi & Hlo).
    cbv zeta. set (k := (code_bits v - 2) / 5) in *.
    intros E. apply Ok_inj in E. subst bytes. constructor; [|apply trail_lt256].
    assert (Hlead : v / 2 ^ (6 * k) < 2 ^ (6 - k)).
    { apply N.div_lt_upper_bound; [apply pow2_nz|]. rewrite <- N.pow_add_r.
      replace (6 * k + (6 - k)) with (5 * k + 6) by lia. exact Hhi. }
    rewrite (N.mod_small _ _ Hlead). destruct (N.eqb_spec k 6); [lia|]. unfold utf8_head.
    assert (2 ^ (7 - k) <= 2 ^ 7) by (apply pow2_le; lia). change (2 ^ 7) with 128 in *.
    assert (2 ^ (6 - k) * 2 = 2 ^ (7 - k)).
    { replace (7 - k) with (N.succ (6 - k)) by lia. rewrite N.pow_succ_r'. lia. }
    lia.
Qed.

(* ---- the frame header as bits ---- *)
Definition code_xbits (c : code) : list bool :=
  if c_xbits c =? 0 then [] else bits_msb (N.to_nat (c_xbits c)) (c_xval c).

Definition header_bits_of (h : header) (ctag : N) (num : list N) : list bool :=
  bits_msb 16 (65528 + (if h_variable h then 1 else 0)) ++ bits_msb 8 (c_tag (h_bs h) * 16 + c_tag (h_sr h))
  ++ bits_msb 4 ctag ++ bits_msb 4 (h_ss_tag h * 2) ++ bytes_bits num ++ code_xbits (h_bs h) ++ code_xbits (h_sr h).

Lemma header_inner_bits h hops ctag num :
  chassign_tag (h_ch h) = Ok ctag -> utf8like (h_number h) = Ok num -> header_inner_ops h = Ok hops ->
  ops_bitlist 0 hops = header_bits_of h ctag num.
Proof.
  intros Hc Hn E. unfold header_inner_ops in E. rewrite Hc, Hn in E. cbn [bind] in E. apply Ok_inj in E. subst hops.
  unfold header_bits_of, code_xbits.
  cbn [app ops_bitlist op_bitlist op_len]. rewrite !ops_bitlist_app.
  change (pad8 (0 + 16 + 8 + 4 + 4)) with 0. cbn [N.to_nat repeat app].
  change (Pos.to_nat 16) with 16%nat. change (Pos.to_nat 8) with 8%nat. change (Pos.to_nat 4) with 4%nat.
  do 5 f_equal.
  destruct (c_xbits (h_bs h) =? 0), (c_xbits (h_sr h) =? 0); cbn [ops_bitlist op_bitlist app]; rewrite ?app_nil_r; reflexivity.
Qed.

Lemma bits16_sync v : v < 2 -> bits_msb 16 (65528 + v) = bits_msb 14 16382 ++ bits_msb 1 0 ++ bits_msb 1 v.
Proof. intros H. assert (v = 0 \/ v = 1) as [-> | ->] by lia; vm_compute; reflexivity. Qed.

Lemma bits8_nibbles a b : b < 16 -> bits_msb 8 (a * 16 + b) = bits_msb 4 a ++ bits_msb 4 b.
Proof. intros H. change 16 with (2 ^ 4). change 8%nat with (4 + N.to_nat 4)%nat. apply bits_msb_concat. exact H. Qed.

Lemma bits4_ss s : bits_msb 4 (s * 2) = bits_msb 3 s ++ bits_msb 1 0.
Proof.
  replace (s * 2) with (s * 2 ^ 1 + 0) by (change (2 ^ 1) with 2; lia).
  change 4%nat with (3 + N.to_nat 1)%nat. apply bits_msb_concat. reflexivity.
Qed.

Lemma Forall_skipn_lt {A} (P : A -> Prop) n (l : list A) : Forall P l -> Forall P (skipn n l).
Proof. revert l. induction n as [|n IH]; intros l H; [exact H|]. destruct l; [constructor|]. inversion H; subst. apply IH. assumption. Qed.
Lemma Forall_firstn_lt {A} (P : A -> Prop) n (l : list A) : Forall P l -> Forall P (firstn n l).
Proof. revert l. induction n as [|n IH]; intros l H; [constructor|]. destruct l; [constructor|]. inversion H; subst. constructor; [assumption | apply IH; assumption]. Qed.

(* a byte list whose bits begin with the bits of p begins with p *)
Lemma bytes_prefix_of_bits l p X :
  Forall (fun x => x < 256) l -> Forall (fun x => x < 256) p ->
  bytes_bits l = bytes_bits p ++ X -> l = p ++ skipn (length p) l /\ bytes_bits (skipn (length p) l) = X.
Proof.
  intros Hl Hp E.
  assert (Hlen : (length p <= length l)%nat).
  { apply (f_equal (@length bool)) in E. rewrite app_length, !bytes_bits_length in E. lia. }
  rewrite <- (firstn_skipn (length p) l) in E at 1. rewrite bytes_bits_app in E.
  assert (E1 : bytes_bits (firstn (length p) l) = bytes_bits p).
  { apply (f_equal (firstn (8 * length p))) in E.
    rewrite !firstn_exact in E by (rewrite bytes_bits_length, ?firstn_length; lia). exact E. }
  assert (E2 : bytes_bits (skipn (length p) l) = X).
  { apply (f_equal (skipn (8 * length p))) in E.
    rewrite !skipn_exact in E by (rewrite bytes_bits_length, ?firstn_length; lia). exact E. }
  split; [|exact E2].
  rewrite <- (bytes_bits_inj _ _ (Forall_firstn_lt _ _ _ Hl) Hp E1) at 1.
  rewrite <- (bytes_bits_inj _ _ (Forall_firstn_lt _ _ _ Hl) Hp E1) at 1.
  rewrite firstn_length. replace (Nat.min (length p) (length l)) with (length p) by lia. symmetry. apply firstn_skipn.
Qed.

(* ---- the frame header, as the independent decoder reads it ---- *)
Theorem flac_reads_header si start h ctag num hb tail rate bps :
  h_variable h = false -> chassign_tag (h_ch h) = Ok ctag -> utf8like (h_number h) = Ok num ->
  c_tag (h_bs h) < 16 -> c_tag (h_sr h) < 16 -> h_ss_tag h < 8 ->
  Forall (fun x => x < 256) start ->
  bytes_bits start = header_bits_of h ctag num ++ bits_msb 8 (crc8 hb) ++ tail ->
  firstn (length hb) start = hb -> (8 * length hb = length (header_bits_of h ctag num))%nat ->
  reads (block_of_code (c_tag (h_bs h))) (code_xbits (h_bs h)) (h_block h) ->
  reads (rate_of_code (c_tag (h_sr h)) (i_rate si)) (code_xbits (h_sr h)) rate ->
  bps_of_code (h_ss_tag h) (i_bps si) = Some bps ->
  exists r, read_frame_header si start (rd_of start) = Some (mkFH (h_block h) ctag (h_number h) rate bps, r)
            /\ rd_bits r = tail /\ rd_wf r /\ rd_pos r = 8 * (N.of_nat (length hb) + 1) /\ rd_adv (rd_of start) r.
Proof.
  intros Hv Hc Hn Hbs Hsr Hss Hst Hbits Hpre Hlen Hblock Hrate Hbps.
  assert (Hctag : ctag <= 10).
  { unfold chassign_tag in Hc. destruct (h_ch h) as [n| | |]; try (inversion Hc; lia).
    destruct (N.ltb_spec 8 n); [discriminate|]. destruct (N.eqb_spec n 0); [discriminate|]. inversion Hc. lia. }
  pose proof (utf8like_lt256 _ _ Hn) as Hnum256.
  unfold header_bits_of in Hbits. rewrite Hv in Hbits. change (65528 + 0) with (65528 + 0) in Hbits.
  rewrite (bits16_sync 0 ltac:(lia)), (bits8_nibbles _ _ Hsr), bits4_ss in Hbits. rewrite <- !app_assoc in Hbits.
  pose proof (rd_of_wf start) as Hwf0. pose proof (rd_of_bits start) as Hb0. rewrite Hbits in Hb0.
  destruct (reads_rbits 14 16382 ltac:(reflexivity) _ _ Hwf0 Hb0) as (r1 & E1 & Hb1 & Hwf1 & Hp1 & Hk1).
  destruct (reads_rbits 1 0 ltac:(reflexivity) _ _ Hwf1 Hb1) as (r2 & E2 & Hb2 & Hwf2 & Hp2 & Hk2).
  destruct (reads_rbits 1 0 ltac:(reflexivity) _ _ Hwf2 Hb2) as (r3 & E3 & Hb3 & Hwf3 & Hp3 & Hk3).
  destruct (reads_rbits 4 (c_tag (h_bs h)) ltac:(exact Hbs) _ _ Hwf3 Hb3) as (r4 & E4 & Hb4 & Hwf4 & Hp4 & Hk4).
  destruct (reads_rbits 4 (c_tag (h_sr h)) ltac:(exact Hsr) _ _ Hwf4 Hb4) as (r5 & E5 & Hb5 & Hwf5 & Hp5 & Hk5).
  destruct (reads_rbits 4 ctag ltac:(change (2 ^ 4) with 16; lia) _ _ Hwf5 Hb5) as (r6 & E6 & Hb6 & Hwf6 & Hp6 & Hk6).
  destruct (reads_rbits 3 (h_ss_tag h) ltac:(exact Hss) _ _ Hwf6 Hb6) as (r7 & E7 & Hb7 & Hwf7 & Hp7 & Hk7).
  destruct (reads_rbits 1 0 ltac:(reflexivity) _ _ Hwf7 Hb7) as (r8 & E8 & Hb8 & Hwf8 & Hp8 & Hk8).
  rewrite !bits_msb_length in *.
  (* after 32 bits the reader stands on byte 4 *)
  assert (Hadv8 : rd_adv (rd_of start) r8)
    by exact (rd_adv_trans _ _ _ Hk1 (rd_adv_trans _ _ _ Hk2 (rd_adv_trans _ _ _ Hk3 (rd_adv_trans _ _ _ Hk4
             (rd_adv_trans _ _ _ Hk5 (rd_adv_trans _ _ _ Hk6 (rd_adv_trans _ _ _ Hk7 Hk8))))))).
  assert (Hpos8 : rd_pos r8 = 8 * 4).
  { rewrite Hp8, Hp7, Hp6, Hp5, Hp4, Hp3, Hp2, Hp1. unfold rd_pos, rd_of. cbn [r_cnt r_off]. reflexivity. }
  pose proof (rd_from_start start r8 4 Hwf8 Hadv8 Hpos8) as Er8.
  destruct (rd_aligned_bits (skipn (N.to_nat 4) start) 4) as (Hbits8 & _ & _). rewrite <- Er8, Hb8 in Hbits8.
  destruct (bytes_prefix_of_bits _ num _ (Forall_skipn_lt _ _ _ Hst) Hnum256 (eq_sym Hbits8)) as [Esplit Hrest].
  set (B := skipn (length num) (skipn (N.to_nat 4) start)) in *.
  (* the coded number *)
  pose proof (flac_number_roundtrip (h_number h) num B 4 Hn) as Enum. rewrite <- Esplit, <- Er8 in Enum.
  set (r9 := mkRd B 0 (4 + N.of_nat (length num))) in *.
  destruct (rd_aligned_bits B (4 + N.of_nat (length num))) as (Hb9 & Hwf9 & Hp9). fold r9 in Hb9, Hwf9, Hp9. rewrite Hrest in Hb9.
  destruct (Hblock r9 _ Hwf9 Hb9) as (r10 & E10 & Hb10 & Hwf10 & Hp10 & Hk10).
  destruct (Hrate r10 _ Hwf10 Hb10) as (r11 & E11 & Hb11 & Hwf11 & Hp11 & Hk11).
  assert (Hadv9 : rd_adv (rd_of start) r9).
  { unfold r9, B. rewrite skipn_skipn'. replace (N.to_nat 4 + length num)%nat with (N.to_nat (4 + N.of_nat (length num))) by lia. apply rd_adv_skip. }
  assert (Hadv11 : rd_adv (rd_of start) r11) by exact (rd_adv_trans _ _ _ Hadv9 (rd_adv_trans _ _ _ Hk10 Hk11)).
  assert (Hpos11 : rd_pos r11 = 8 * N.of_nat (length hb)).
  { rewrite Hp11, Hp10, Hp9. unfold header_bits_of in Hlen. rewrite !app_length, !bits_msb_length, bytes_bits_length in Hlen. lia. }
  pose proof (rd_from_start start r11 _ Hwf11 Hadv11 Hpos11) as Er11.
  destruct (reads_rbits 8 (crc8 hb) (crc8_lt hb) _ _ Hwf11 Hb11) as (r12 & E12 & Hb12 & Hwf12 & Hp12 & Hk12).
  exists r12. unfold read_frame_header. cbn [rd_of r_cnt].
  change (r_cnt {| r_bytes := start; r_off := 0; r_cnt := 0 |}) with 0.
  rewrite E1. cbn [N.eqb Pos.eqb negb]. rewrite E2. cbn [N.eqb negb]. rewrite E3. cbn [N.eqb negb].
  rewrite E4, E5, E6, E7, E8. cbn [N.eqb negb].
  destruct (N.ltb_spec 10 ctag) as [?|_]; [lia|].
  rewrite Enum, E10, E11, Hbps.
  assert (Hcnt11 : r_cnt r11 = N.of_nat (length hb)) by (rewrite Er11; reflexivity).
  rewrite Hcnt11, N.sub_0_r, Nat2N.id, E12, Hpre, N.eqb_refl. cbn [negb].
  split; [reflexivity|]. split; [exact Hb12|]. split; [exact Hwf12|]. split.
  - rewrite Hp12, Hpos11, bits_msb_length. change (N.of_nat (N.to_nat 8)) with 8. lia.
  - exact (rd_adv_trans _ _ _ Hadv11 Hk12).
Qed.

(* ---- the subframes of a frame ---- *)
Definition sub_ready (block : N) (s : subframe) (b : N) : Prop :=
  sub_block s = block /\ sub_bps s = b /\ verify_subframe s = true /\ sub_typed s /\ sub_u_ok s /\ sub_quot_u32 s.

Lemma subframes_ops_bits : forall subs cur,
  Forall (fun s => verify_subframe s = true) subs ->
  ops_bitlist cur (flat_map subframe_ops subs) = concat (map subframe_bits subs).
Proof.
  induction subs as [|s t IH]; intros cur H; [reflexivity|].
  inversion H as [|? ? Hs Ht]; subst. cbn [flat_map map concat]. rewrite ops_bitlist_app, subframe_ops_bits by exact Hs.
  f_equal. apply IH. exact Ht.
Qed.

Lemma flac_reads_subframes block : forall subs bpss,
  Forall2 (sub_ready block) subs bpss ->
  reads (read_subframes bpss block) (concat (map subframe_bits subs)) (map decode_sub subs).
Proof.
  induction subs as [|s t IH]; intros bpss H rd0 rest Hwf Hb; inversion H as [|? b ? bt Hs Ht]; subst.
  - exists rd0. cbn [read_subframes map concat app length] in *. fin5 Hwf; [lia | apply rd_adv_refl].
  - destruct Hs as (Hblk & Hbps & Hv & Hty & Hu & _). cbn [map concat] in Hb. rewrite <- app_assoc in Hb.
    destruct (flac_reads_subframe s Hv Hty Hu rd0 _ Hwf Hb) as (r1 & E1 & Hb1 & Hwf1 & Hp1 & Hk1).
    destruct (IH bt Ht r1 rest Hwf1 Hb1) as (r2 & E2 & Hb2 & Hwf2 & Hp2 & Hk2).
    exists r2. cbn [read_subframes]. rewrite <- Hblk at 1. rewrite <- Hbps at 1. rewrite E1, E2.
    split; [reflexivity|]. split; [exact Hb2|]. split; [exact Hwf2|]. split.
    + rewrite Hp2, Hp1. cbn [map concat]. rewrite app_length, Nat2N.inj_add. lia.
    + exact (rd_adv_trans _ _ _ Hk1 Hk2).
Qed.

(* ---- the bytes of a frame, taken apart ---- *)
Lemma pad8_mod cur : pad8 cur = (8 - cur mod 8) mod 8.
Proof. reflexivity. Qed.

Lemma pad8_of_mult cur : cur mod 8 = 0 -> pad8 cur = 0.
Proof. intros H. unfold pad8. rewrite H. reflexivity. Qed.

Record frame_parts (f : frame) (bytes hb body : list N) (hops : list op) : Prop := mkParts {
  fp_hops : header_inner_ops (f_header f) = Ok hops;
  fp_hb : pack KU8 hops = Ok hb;
  fp_body : pack KU64 ([OBytes hb; OWrite 8 (crc8 hb)] ++ flat_map subframe_ops (f_subframes f) ++ [OAlign]) = Ok body;
  fp_bytes : pack KU8 [OBytes body; OWrite 16 (crc16 body)] = Ok bytes
}.

Lemma frame_bytes_parts f bytes :
  f_precomputed f = None -> frame_bytes f = Ok bytes -> exists hb body hops, frame_parts f bytes hb body hops.
Proof.
  intros Hpre E. unfold frame_bytes, frame_ops in E. rewrite Hpre in E.
  unfold frame_body_bytes, frame_inner_ops, header_ops, header_bytes in E.
  destruct (header_inner_ops (f_header f)) as [hops| |] eqn:Eh; cbn [bind] in E; try discriminate.
  destruct (pack KU8 hops) as [hb| |] eqn:Ehb; cbn [bind] in E; try discriminate.
  destruct (pack KU64 _) as [body| |] eqn:Eb; cbn [bind] in E; try discriminate.
  exists hb, body, hops. constructor; assumption.
Qed.

Definition flac_bpss (ctag bps : N) : list N :=
  let nch := if ctag <=? 7 then ctag + 1 else 2 in
  if ctag <=? 7 then repeat bps (N.to_nat nch) else if ctag =? 9 then [bps + 1; bps] else [bps; bps + 1].

Theorem flac_reads_frame si f bytes rest ctag num rate bps chans :
  let h := f_header f in
  f_precomputed f = None -> frame_ops_wfb f = true -> frame_bytes f = Ok bytes ->
  Forall (fun x => x < 256) rest ->
  h_variable h = false -> chassign_tag (h_ch h) = Ok ctag -> utf8like (h_number h) = Ok num ->
  c_tag (h_bs h) < 16 -> c_tag (h_sr h) < 16 -> h_ss_tag h < 8 ->
  reads (block_of_code (c_tag (h_bs h))) (code_xbits (h_bs h)) (h_block h) ->
  reads (rate_of_code (c_tag (h_sr h)) (i_rate si)) (code_xbits (h_sr h)) rate ->
  bps_of_code (h_ss_tag h) (i_bps si) = Some bps ->
  Forall2 (sub_ready (h_block h)) (f_subframes f) (flac_bpss ctag bps) ->
  undo_stereo ctag (map decode_sub (f_subframes f)) = Some chans ->
  forallb (fun c => forallb (in_range bps) c) chans = true ->
  read_frame si (bytes ++ rest) = Some (mkFH (h_block h) ctag (h_number h) rate bps, chans, rest).
Proof.
  intros h Hpre Hwfb Hfb Hrest Hv Hc Hn Hbs Hsr Hss Hblock Hrate Hbps Hsubs Hundo Hrange.
  destruct (frame_bytes_parts f bytes Hpre Hfb) as (hb & body & hops & [Ehops Ehb Ebody Ebytes]). fold h in Ehops.
  (* well-formedness of every operation list involved *)
  unfold frame_ops_wfb in Hwfb. fold h in Hwfb. rewrite Ehops in Hwfb.
  unfold frame_inner_ops, header_ops, header_bytes in Hwfb. fold h in Hwfb. rewrite Ehops in Hwfb. cbn [bind] in Hwfb.
  rewrite Ehb in Hwfb. cbn [bind] in Hwfb.
  rewrite !Bool.andb_true_iff in Hwfb. destruct Hwfb as (((Hwf_h & Hwf_i) & Hxb) & Hxs).
  apply N.eqb_eq in Hxb, Hxs.
  set (subs := f_subframes f) in *.
  assert (Hsubv : Forall (fun s => verify_subframe s = true) subs).
  { clear -Hsubs. induction Hsubs as [|s b ss bs Hs _ IH]; constructor; [apply Hs | exact IH]. }
  (* (a) the header bytes *)
  destruct (pack_u8_bits hops hb Hwf_h Ehb) as [Hhb256 Hhb_bits].
  pose proof (header_inner_len h hops Ehops) as Hlen_h.
  assert (Hpad_h : pad8 (ops_len 0 hops) = 0).
  { apply pad8_of_mult. rewrite Hlen_h.
    replace (32 + 8 * utf8like_bytesize (h_number h) + c_xbits (h_bs h) + c_xbits (h_sr h))
      with (c_xbits (h_bs h) + c_xbits (h_sr h) + (4 + utf8like_bytesize (h_number h)) * 8) by lia.
    rewrite N.mod_add by lia. rewrite N.add_mod by lia. rewrite Hxb, Hxs. reflexivity. }
  rewrite Hpad_h in Hhb_bits. cbn [N.to_nat repeat] in Hhb_bits. rewrite app_nil_r in Hhb_bits.
  rewrite (header_inner_bits h hops ctag num Hc Hn Ehops) in Hhb_bits.
  set (HB := header_bits_of h ctag num) in *.
  assert (HlenHB : (8 * length hb = length HB)%nat) by (rewrite <- Hhb_bits, bytes_bits_length; reflexivity).
  (* (b) the frame body *)
  destruct (pack_u64_bits _ body Hwf_i Ebody) as [Hbody256 Hbody_bits].
  set (SUB := concat (map subframe_bits subs)) in *.
  set (cur1 := 8 * N.of_nat (length hb) + 8).
  set (cur2 := cur1 + N.of_nat (length SUB)).
  assert (Hinner_bits : ops_bitlist 0 ([OBytes hb; OWrite 8 (crc8 hb)] ++ flat_map subframe_ops subs ++ [OAlign])
                        = HB ++ bits_msb 8 (crc8 hb) ++ SUB ++ repeat false (N.to_nat (pad8 cur2))).
  { rewrite !ops_bitlist_app. cbn [ops_bitlist op_bitlist ops_len op_len].
    change (pad8 0) with 0. cbn [N.to_nat repeat app]. rewrite !app_nil_r, Hhb_bits.
    rewrite subframes_ops_bits by exact Hsubv. fold SUB.
    rewrite <- !app_assoc. change (Pos.to_nat 8) with 8%nat.
    rewrite <- (ops_bitlist_length (flat_map subframe_ops subs) (0 + (0 + 8 * N.of_nat (length hb) + (8 + 0)))).
    rewrite subframes_ops_bits by exact Hsubv. fold SUB.
    replace (0 + (0 + 8 * N.of_nat (length hb) + (8 + 0)) + N.of_nat (length SUB)) with cur2 by (unfold cur2, cur1; lia).
    reflexivity. }
  assert (Hinner_len : ops_len 0 ([OBytes hb; OWrite 8 (crc8 hb)] ++ flat_map subframe_ops subs ++ [OAlign]) = cur2 + pad8 cur2).
  { rewrite <- ops_bitlist_length, Hinner_bits, !app_length, bits_msb_length, repeat_length. unfold cur2, cur1. lia. }
  assert (Hpad_b : pad8 (cur2 + pad8 cur2) = 0) by (apply pad8_of_mult; apply pad8_spec).
  rewrite Hinner_bits, Hinner_len, Hpad_b in Hbody_bits. cbn [N.to_nat repeat] in Hbody_bits. rewrite app_nil_r in Hbody_bits.
  (* (c) the frame: body and CRC-16 *)
  assert (Hwf_f : forallb wf_op [OBytes body; OWrite 16 (crc16 body)] = true).
  { cbn [forallb wf_op wf_width]. rewrite !Bool.andb_true_r. apply Bool.andb_true_iff. split.
    - apply forallb_forall. intros x Hx. apply N.ltb_lt. rewrite Forall_forall in Hbody256. apply Hbody256. exact Hx.
    - apply N.ltb_lt. apply crc16_lt. }
  destruct (pack_u8_bits _ bytes Hwf_f Ebytes) as [Hbytes256 Hbytes_bits].
  set (c16 := crc16 body) in *.
  assert (Hbytes_eq : bytes = body ++ [c16 / 256; c16 mod 256]).
  { apply bytes_bits_inj; [exact Hbytes256 | |].
    - apply Forall_app. split; [exact Hbody256|]. pose proof (crc16_lt body) as Hc16. fold c16 in Hc16. change (2 ^ 16) with 65536 in Hc16.
      constructor; [apply N.div_lt_upper_bound; lia | constructor; [apply N.mod_upper_bound; lia | constructor]].
    - rewrite Hbytes_bits. cbn [ops_bitlist op_bitlist ops_len op_len]. change (pad8 0) with 0. cbn [N.to_nat repeat app].
      rewrite app_nil_r.
      assert (Hp : pad8 (0 + 8 * N.of_nat (length body) + (16 + 0)) = 0).
      { apply pad8_of_mult. replace (0 + 8 * N.of_nat (length body) + (16 + 0)) with ((N.of_nat (length body) + 2) * 8) by lia. apply N.mod_mul. lia. }
      rewrite Hp. cbn [N.to_nat repeat]. rewrite app_nil_r, bytes_bits_app. f_equal.
      change (N.to_nat 16) with 16%nat. apply bits16_bytes. apply crc16_lt. }
  (* (d) what the reader sees *)
  set (start := bytes ++ rest).
  assert (Hstart256 : Forall (fun x => x < 256) start) by (apply Forall_app; split; assumption).
  assert (Hstart_bits : bytes_bits start = HB ++ bits_msb 8 (crc8 hb) ++ SUB ++ repeat false (N.to_nat (pad8 cur2)) ++ bits_msb 16 c16 ++ bytes_bits rest).
  { unfold start. rewrite Hbytes_eq, !bytes_bits_app, Hbody_bits, <- !app_assoc. do 4 f_equal.
    rewrite <- bits16_bytes by apply crc16_lt. reflexivity. }
  assert (Hbody_pre : body = hb ++ skipn (length hb) body).
  { destruct (bytes_prefix_of_bits body hb (bits_msb 8 (crc8 hb) ++ SUB ++ repeat false (N.to_nat (pad8 cur2))) Hbody256 Hhb256
                ltac:(rewrite Hbody_bits, Hhb_bits; reflexivity)) as [Hbp _]. exact Hbp. }
  assert (Hpre_hb : firstn (length hb) start = hb).
  { unfold start. rewrite Hbytes_eq, Hbody_pre, <- !app_assoc. apply firstn_exact. reflexivity. }
  assert (Hpre_body : firstn (length body) start = body).
  { unfold start. rewrite Hbytes_eq, <- app_assoc. apply firstn_exact. reflexivity. }
  (* the header *)
  destruct (flac_reads_header si start h ctag num hb _ rate bps Hv Hc Hn Hbs Hsr Hss Hstart256 Hstart_bits Hpre_hb HlenHB Hblock Hrate Hbps)
    as (r1 & E1 & Hb1 & Hwf1 & Hp1 & Hk1).
  (* the subframes *)
  destruct (flac_reads_subframes (h_block h) subs (flac_bpss ctag bps) Hsubs r1 _ Hwf1 Hb1) as (r2 & E2 & Hb2 & Hwf2 & Hp2 & Hk2).
  fold SUB in Hp2.
  assert (Hpos2 : rd_pos r2 = cur2) by (rewrite Hp2, Hp1; unfold cur2, cur1; lia).
  (* the padding *)
  assert (Hoff2 : (8 - r_off r2) mod 8 = pad8 cur2).
  { unfold pad8. rewrite <- Hpos2. unfold rd_pos. destruct Hwf2 as [Ho _].
    replace (8 * r_cnt r2 + r_off r2) with (r_off r2 + r_cnt r2 * 8) by lia. rewrite N.mod_add by lia. rewrite (N.mod_small (r_off r2)) by exact Ho. reflexivity. }
  rewrite <- (bits_msb_zero (N.to_nat (pad8 cur2))) in Hb2.
  destruct (reads_rbits (pad8 cur2) 0 (pow2_pos _) r2 _ Hwf2 Hb2) as (r3 & E3 & Hb3 & Hwf3 & Hp3 & Hk3).
  assert (Hadv3 : rd_adv (rd_of start) r3) by exact (rd_adv_trans _ _ _ Hk1 (rd_adv_trans _ _ _ Hk2 Hk3)).
  assert (Hbody_len : 8 * N.of_nat (length body) = cur2 + pad8 cur2).
  { apply (f_equal (@length bool)) in Hbody_bits. rewrite bytes_bits_length, !app_length, bits_msb_length, repeat_length in Hbody_bits.
    set (pd := pad8 cur2) in *. unfold cur2, cur1. lia. }
  assert (Hpos3 : rd_pos r3 = 8 * N.of_nat (length body)).
  { rewrite Hp3, Hpos2, bits_msb_length, N2Nat.id. lia. }
  pose proof (rd_from_start start r3 _ Hwf3 Hadv3 Hpos3) as Er3.
  destruct (reads_rbits 16 c16 (crc16_lt body) r3 _ Hwf3 Hb3) as (r4 & E4 & Hb4 & Hwf4 & Hp4 & Hk4).
  assert (Hpos4 : rd_pos r4 = 8 * N.of_nat (length bytes)).
  { rewrite Hp4, Hpos3, bits_msb_length. rewrite Hbytes_eq, app_length. cbn [length]. change (N.of_nat (N.to_nat 16)) with 16. lia. }
  pose proof (rd_from_start start r4 _ Hwf4 (rd_adv_trans _ _ _ Hadv3 Hk4) Hpos4) as Er4.
  (* assemble *)
  unfold read_frame. fold start. rewrite E1. cbn [fh_chcode fh_bps fh_block].
  change (if ctag <=? 7 then repeat bps (N.to_nat (if ctag <=? 7 then ctag + 1 else 2))
          else if ctag =? 9 then [bps + 1; bps] else [bps; bps + 1]) with (flac_bpss ctag bps).
  rewrite E2, Hoff2, E3. cbn [N.eqb negb].
  assert (Hcnt3 : r_cnt r3 = N.of_nat (length body)) by (rewrite Er3; reflexivity).
  rewrite Hcnt3, Nat2N.id, E4, Hpre_body. fold c16. rewrite N.eqb_refl. cbn [negb].
  rewrite Hundo, Hrange. cbn [negb].
  rewrite Er4. cbn [r_bytes]. rewrite Nat2N.id. unfold start. rewrite skipn_exact by reflexivity. reflexivity.
Qed.

(* ---- the header codes chosen by the writer, read back ---- *)
Lemma reads_ret {A} (p : rd -> option (A * rd)) (x : A) : (forall r, p r = Some (x, r)) -> reads p [] x.
Proof.
  intros H r rest Hwf Hb. exists r. rewrite H. cbn [app length] in *. fin5 Hwf; [lia | apply rd_adv_refl].
Qed.

Lemma block_code_reads n c :
  block_size_code n = Ok c -> n <= 65535 ->
  reads (block_of_code (c_tag c)) (code_xbits c) n /\ c_tag c < 16 /\ c_xbits c mod 8 = 0.
Proof.
  unfold block_size_code. intros E Hn.
  destruct (N.eqb_spec n 0); [discriminate|].
  repeat match type of E with
  | (if ?n0 =? ?k then Ok ?cc else _) = Ok _ =>
      destruct (N.eqb_spec n0 k) as [->|?];
      [apply Ok_inj in E; subst c; cbn [c_tag c_xbits c_xval]; unfold code_xbits; cbn [c_xbits N.eqb];
       split; [apply reads_ret; intros r; reflexivity | split; [reflexivity | reflexivity]] |]
  end.
  destruct (N.leb_spec n 256).
  - apply Ok_inj in E. subst c. cbn [c_tag c_xbits c_xval]. unfold code_xbits. cbn [c_xbits c_xval N.eqb Pos.eqb].
    split; [|split; reflexivity].
    intros r rest Hwf Hb. change (N.to_nat 8) with 8%nat in Hb.
    destruct (reads_rbits 8 (n - 1) ltac:(change (2 ^ 8) with 256; lia) r rest Hwf Hb) as (r1 & E1 & H1).
    exists r1. unfold block_of_code. cbn [N.eqb Pos.eqb N.leb N.compare Pos.compare Pos.compare_cont]. rewrite E1.
    replace (n - 1 + 1) with n by lia. exact (conj eq_refl H1).
  - apply Ok_inj in E. subst c. cbn [c_tag c_xbits c_xval]. unfold code_xbits. cbn [c_xbits c_xval N.eqb Pos.eqb].
    split; [|split; reflexivity].
    intros r rest Hwf Hb. change (N.to_nat 16) with 16%nat in Hb.
    destruct (reads_rbits 16 (n - 1) ltac:(change (2 ^ 16) with 65536; lia) r rest Hwf Hb) as (r1 & E1 & H1).
    exists r1. unfold block_of_code. cbn [N.eqb Pos.eqb N.leb N.compare Pos.compare Pos.compare_cont]. rewrite E1.
    destruct (N.eqb_spec (n - 1) 65535); [lia|].
    replace (n - 1 + 1) with n by lia. exact (conj eq_refl H1).
Qed.

Lemma rate_code_reads f si_rate :
  si_rate = f ->
  let c := sample_rate_code f in
  reads (rate_of_code (c_tag c) si_rate) (code_xbits c) f /\ c_tag c < 16 /\ c_xbits c mod 8 = 0.
Proof.
  intros Hsi. cbv zeta. unfold sample_rate_code.
  repeat match goal with
  | |- context [if ?n0 =? ?k then mkCode ?t 0 0 else _] =>
      destruct (N.eqb_spec n0 k) as [->|?];
      [cbn [c_tag c_xbits c_xval]; unfold code_xbits; cbn [c_xbits N.eqb];
       split; [apply reads_ret; intros r; reflexivity | split; reflexivity] |]
  end.
  destruct ((f mod 1000 =? 0) && (f / 1000 <=? 255)) eqn:E12.
  - apply Bool.andb_true_iff in E12. destruct E12 as [Hm Hd]. apply N.eqb_eq in Hm. apply N.leb_le in Hd.
    cbn [c_tag c_xbits c_xval]. unfold code_xbits. cbn [c_xbits c_xval N.eqb Pos.eqb]. split; [|split; reflexivity].
    intros r rest Hwf Hb. change (N.to_nat 8) with 8%nat in Hb.
    destruct (reads_rbits 8 (f / 1000) ltac:(change (2 ^ 8) with 256; lia) r rest Hwf Hb) as (r1 & E1 & H1).
    exists r1. unfold rate_of_code. cbn [N.eqb Pos.eqb]. rewrite E1.
    pose proof (N.div_mod f 1000 ltac:(lia)) as Hdm. rewrite Hm, N.add_0_r in Hdm.
    replace (f / 1000 * 1000) with f by lia. exact (conj eq_refl H1).
  - destruct ((f mod 10 =? 0) && (f / 10 <=? 65535)) eqn:E14.
    + apply Bool.andb_true_iff in E14. destruct E14 as [Hm Hd]. apply N.eqb_eq in Hm. apply N.leb_le in Hd.
      cbn [c_tag c_xbits c_xval]. unfold code_xbits. cbn [c_xbits c_xval N.eqb Pos.eqb]. split; [|split; reflexivity].
      intros r rest Hwf Hb. change (N.to_nat 16) with 16%nat in Hb.
      destruct (reads_rbits 16 (f / 10) ltac:(change (2 ^ 16) with 65536; lia) r rest Hwf Hb) as (r1 & E1 & H1).
      exists r1. unfold rate_of_code. cbn [N.eqb Pos.eqb]. rewrite E1.
      pose proof (N.div_mod f 10 ltac:(lia)) as Hdm. rewrite Hm, N.add_0_r in Hdm.
      replace (f / 10 * 10) with f by lia. exact (conj eq_refl H1).
    + destruct (N.leb_spec f 65535).
      * cbn [c_tag c_xbits c_xval]. unfold code_xbits. cbn [c_xbits c_xval N.eqb Pos.eqb]. split; [|split; reflexivity].
        intros r rest Hwf Hb. change (N.to_nat 16) with 16%nat in Hb.
        destruct (reads_rbits 16 f ltac:(change (2 ^ 16) with 65536; lia) r rest Hwf Hb) as (r1 & E1 & H1).
        exists r1. unfold rate_of_code. cbn [N.eqb Pos.eqb]. rewrite E1. exact (conj eq_refl H1).
      * cbn [c_tag c_xbits c_xval]. unfold code_xbits. cbn [c_xbits N.eqb]. split; [|split; reflexivity].
        apply reads_ret. intros r. unfold rate_of_code. cbn [N.eqb]. rewrite Hsi. reflexivity.
Qed.
