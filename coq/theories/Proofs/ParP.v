(* C05 / C06, general: for EVERY number of workers, EVERY number of blocks, EVERY fault plan and
   EVERY schedule, a run of the par-mode protocol that reaches its final state delivers the
   single-threaded outcome: the same frames in order, the digest input in order, or the same error. *)
From Coq Require Import Permutation.
From FV Require Import Generated Model.Base Model.Par.

(* ---------------- list helpers ---------------- *)
Definition somes {A} (l : list (option A)) : list A :=
  flat_map (fun o => match o with Some x => [x] | None => [] end) l.

Lemma somes_app {A} (a b : list (option A)) : somes (a ++ b) = somes a ++ somes b.
Proof. unfold somes. apply flat_map_app. Qed.

Lemma somes_map_Some {A} (l : list A) : somes (map Some l) = l.
Proof. induction l as [|x t IH]; cbn; [reflexivity|]. f_equal. exact IH. Qed.

Lemma somes_repeat_None {A} k : somes (repeat (@None A) k) = [].
Proof. induction k as [|k IH]; cbn; [reflexivity | exact IH]. Qed.

Lemma nth_error_set_nth_same {A} : forall (l : list A) i x, i < length l -> nth_error (set_nth l i x) i = Some x.
Proof.
  induction l as [|y t IH]; intros i x H; [cbn in H; lia|].
  destruct i as [|i]; cbn [set_nth nth_error]; [reflexivity|]. apply IH. cbn in H. lia.
Qed.

Lemma nth_error_set_nth_other {A} : forall (l : list A) i j x, i <> j -> nth_error (set_nth l i x) j = nth_error l j.
Proof.
  induction l as [|y t IH]; intros i j x H; [destruct i; reflexivity|].
  destruct i as [|i], j as [|j]; cbn [set_nth nth_error]; try reflexivity; [lia|]. apply IH. lia.
Qed.

Lemma set_nth_length {A} : forall (l : list A) i x, length (set_nth l i x) = length l.
Proof. induction l as [|y t IH]; intros i x; [reflexivity|]. destruct i; cbn [set_nth length]; [reflexivity|]. rewrite IH. reflexivity. Qed.

(* replacing element i: the flat_map changes by removing f old and adding f new *)
Lemma flat_map_set_nth {A B} (f : A -> list B) : forall (l : list A) i old new,
  nth_error l i = Some old ->
  exists pre post, flat_map f l = pre ++ f old ++ post /\ flat_map f (set_nth l i new) = pre ++ f new ++ post.
Proof.
  induction l as [|y t IH]; intros i old new H; [destruct i; discriminate|].
  destruct i as [|i]; cbn [nth_error] in H.
  - inversion H; subst. exists [], (flat_map f t). cbn [set_nth flat_map app]. split; reflexivity.
  - destruct (IH i old new H) as (pre & post & E1 & E2).
    exists (f y ++ pre), post. cbn [set_nth flat_map]. rewrite E1, E2, <- !app_assoc. split; reflexivity.
Qed.

Lemma In_flat_map_set_nth {A B} (f : A -> list B) (l : list A) i old new x :
  nth_error l i = Some old -> In x (flat_map f l) -> In x (f old) \/ In x (flat_map f (set_nth l i new)).
Proof.
  intros H Hin. destruct (flat_map_set_nth f l i old new H) as (pre & post & E1 & E2).
  rewrite E1 in Hin. rewrite E2. rewrite !in_app_iff in *. tauto.
Qed.

Lemma In_flat_map_set_nth_rev {A B} (f : A -> list B) (l : list A) i old new x :
  nth_error l i = Some old -> In x (flat_map f (set_nth l i new)) -> In x (f new) \/ In x (flat_map f l).
Proof.
  intros H Hin. destruct (flat_map_set_nth f l i old new H) as (pre & post & E1 & E2).
  rewrite E2 in Hin. rewrite E1. rewrite !in_app_iff in *. tauto.
Qed.

(* ---------------- observers of a state ---------------- *)
Definition fbuf (f : fpc) : list nat := match f with FRead b | FSend b => [b] | _ => [] end.
Definition fsend (f : fpc) : list nat := match f with FSend b => [b] | _ => [] end.
Definition wbuf (w : wpc) : list nat := match w with WEnc b => [b] | _ => [] end.
Definition wpush (w : wpc) : list nat := match w with WPush n => [n] | _ => [] end.
Definition owners (s : pstate) : list nat :=
  s_refill s ++ somes (s_encq s) ++ fbuf (s_f s) ++ flat_map wbuf (s_w s).
Definition feeding (f : fpc) : bool := match f with FRecv | FRead _ | FSend _ => true | _ => false end.
Definition nxt (s : pstate) : nat := match s_f s with FSend _ => S (s_next s) | _ => s_next s end.

Definition frame_of (bufs : list (option nat)) (b : nat) : list nat :=
  match nth_error bufs b with Some (Some n) => [n] | _ => [] end.
(* buffers whose frame number is live: queued for encoding, being encoded, or just numbered by the feeder *)
Definition live_bufs (s : pstate) : list nat := somes (s_encq s) ++ flat_map wbuf (s_w s) ++ fsend (s_f s).
Definition located (s : pstate) : list nat :=
  flat_map (frame_of (s_bufs s)) (live_bufs s) ++ flat_map wpush (s_w s) ++ s_results s ++ s_failed s.

Definition is_exit (w : wpc) : bool := match w with WExit => true | _ => false end.

Record Inv (p : plan) (s : pstate) : Prop := mkInv {
  I_w : length (s_w s) = p_workers p;
  I_own : NoDup (owners s);
  I_cov : forall n, n < nxt s -> In n (located s);
  I_live : forall b, In b (live_bufs s) -> exists n, nth_error (s_bufs s) b = Some (Some n) /\ n < nxt s;
  I_res : forall n, In n (s_results s) \/ In n (flat_map wpush (s_w s)) -> p_invalid p n = false;
  I_failed : forall n, In n (s_failed s) -> p_invalid p n = true /\ n < nxt s;
  I_next : s_next s <= p_blocks p /\ (forall i, i < nxt s -> i < p_blocks p /\ p_read_fail p <> Some i);
  I_stop : forall failed, (exists sent, s_f s = FStop sent failed) \/ s_f s = FDone failed ->
             (failed = true -> p_read_fail p = Some (s_next s)) /\
             (failed = false -> s_next s = p_blocks p /\ p_read_fail p <> Some (s_next s));
  I_encq : exists bs t, s_encq s = map Some bs ++ repeat None t /\
             (feeding (s_f s) = true -> t = 0 /\ forallb (fun w => negb (is_exit w)) (s_w s) = true) /\
             (existsb is_exit (s_w s) = true -> bs = []);
  I_hash : exists xs k, s_hashq s = map Some xs ++ repeat None k /\ s_hashed s ++ xs = seq 0 (nxt s) /\
             (feeding (s_f s) = true -> k = 0 /\ s_h s = HRecv) /\ (s_h s = HExit -> xs = []);
  I_ctl : (s_m s <> MFeeding -> exists failed, s_f s = FDone failed) /\
          ((s_m s = MJoinWorkers \/ s_m s = MFinal) -> s_h s = HExit) /\
          (s_m s = MFinal -> forallb is_exit (s_w s) = true);
  I_bnd : length (s_bufs s) = nbuf p /\ forall b, In b (owners s) -> b < nbuf p
}.

(* ---------------- the initial state ---------------- *)
Lemma flat_map_repeat_nil {A B} (f : A -> list B) x k : f x = [] -> flat_map f (repeat x k) = [].
Proof. intros H. induction k as [|k IH]; cbn [repeat flat_map]; [reflexivity|]. rewrite H, IH. reflexivity. Qed.

Lemma forallb_repeat {A} (f : A -> bool) x k : f x = true -> forallb f (repeat x k) = true.
Proof. intros H. induction k as [|k IH]; cbn [repeat forallb]; [reflexivity|]. rewrite H, IH. reflexivity. Qed.

Lemma existsb_repeat_false {A} (f : A -> bool) x k : f x = false -> existsb f (repeat x k) = false.
Proof. intros H. induction k as [|k IH]; cbn [repeat existsb]; [reflexivity|]. rewrite H, IH. reflexivity. Qed.

Theorem inv_init p : Inv p (init p).
Proof.
  unfold init. constructor; cbn [s_w s_f s_next s_refill s_encq s_bufs s_results s_failed s_hashq s_hashed s_h s_m].
  - apply repeat_length.
  - unfold owners. cbn [s_w s_f s_refill s_encq somes flat_map fbuf app].
    rewrite (flat_map_repeat_nil wbuf WRecv) by reflexivity. rewrite app_nil_r. apply seq_NoDup.
  - unfold nxt. cbn. intros n H. lia.
  - unfold live_bufs. cbn [s_w s_f s_encq somes flat_map fsend app].
    rewrite (flat_map_repeat_nil wbuf WRecv) by reflexivity. intros b [].
  - rewrite (flat_map_repeat_nil wpush WRecv) by reflexivity. intros n [[]|[]].
  - intros n [].
  - split; [lia|]. unfold nxt. cbn. intros i H. lia.
  - intros failed [[sent H]|H]; discriminate.
  - exists [], 0. cbn [map repeat app]. split; [reflexivity|]. split.
    + intros _. split; [reflexivity|]. apply forallb_repeat. reflexivity.
    + rewrite existsb_repeat_false by reflexivity. discriminate.
  - exists [], 0. cbn [map repeat app]. unfold nxt. cbn. repeat split; reflexivity.
  - repeat split; try (intros H; exfalso; apply H; reflexivity); try (intros [H|H]; discriminate); intros H; discriminate.
  - split; [apply repeat_length|]. unfold owners. cbn [s_w s_f s_refill s_encq somes flat_map fbuf app].
    rewrite (flat_map_repeat_nil wbuf WRecv) by reflexivity. rewrite app_nil_r. intros b Hb. apply in_seq in Hb. lia.
Qed.

(* ---------------- preservation, label by label ---------------- *)
Ltac norm := unfold owners, located, live_bufs, nxt in *;
             cbn [s_f s_next s_refill s_encq s_bufs s_w s_results s_failed s_hashq s_hashed s_h s_m] in *.

Ltac open_inv H := destruct H as [Hw Hown Hcov Hlive Hres Hfail Hnext Hstop Henc Hhash Hctl Hbnd].

Lemma inv_LHRecv p s s' : Inv p s -> step p s LHRecv = Some s' -> Inv p s'.
Proof.
  intros HI E. destruct s as [f nx refill encq bufs w results failedl hashq hashed h m].
  cbn [step s_h s_hashq] in E. destruct h; [|discriminate].
  destruct hashq as [|[j|] r]; try discriminate; inversion E; subst s'; clear E; open_inv HI; norm;
    constructor; norm; try assumption.
  - (* Some j *)
    destruct Hhash as (xs & k & Eqq & Hseq & Hfeed & Hex).
    destruct xs as [|x xs]; cbn [map app] in Eqq.
    + destruct k; cbn in Eqq; discriminate.
    + inversion Eqq; subst. exists xs, k. split; [reflexivity|]. split; [rewrite <- app_assoc; exact Hseq|].
      split; [exact Hfeed | intros; discriminate].
  - (* None: the hashing thread exits *)
    destruct Hhash as (xs & k & Eqq & Hseq & Hfeed & Hex).
    destruct xs as [|x xs]; cbn [map app] in Eqq; [|discriminate].
    destruct k as [|k]; cbn [repeat] in Eqq; [discriminate|]. inversion Eqq; subst.
    exists [], k. split; [reflexivity|]. split; [exact Hseq|]. split; [|reflexivity].
    intros Hf. destruct (Hfeed Hf) as [Hk _]. discriminate.
  - destruct Hctl as (H1 & H2 & H3). repeat split; try assumption; try (intros; reflexivity).
Qed.

Lemma inv_LMStopHash p s s' : Inv p s -> step p s LMStopHash = Some s' -> Inv p s'.
Proof.
  intros HI E. destruct s as [f nx refill encq bufs w results failedl hashq hashed h m].
  cbn [step s_m s_hashq] in E. destruct m; try discriminate.
  destruct (Nat.ltb (length hashq) HASH_CAP); [|discriminate]. inversion E; subst s'; clear E; open_inv HI; norm.
  destruct Hctl as (H1 & H2 & H3). destruct (H1 ltac:(discriminate)) as [fl Hf]. subst f.
  constructor; norm; try assumption.
  - destruct Hhash as (xs & k & Eqq & Hseq & Hfeed & Hex). exists xs, (S k). subst hashq.
    split; [rewrite <- app_assoc; f_equal; rewrite <- repeat_cons; reflexivity|].
    split; [exact Hseq|]. split; [intros Hf; discriminate | exact Hex].
  - repeat split; try (intros; discriminate); try (intros [?|?]; discriminate). intros _. exists fl. reflexivity.
Qed.

Lemma inv_LMJoinHash p s s' : Inv p s -> step p s LMJoinHash = Some s' -> Inv p s'.
Proof.
  intros HI E. destruct s as [f nx refill encq bufs w results failedl hashq hashed h m].
  cbn [step s_m s_h] in E. destruct m; try discriminate. destruct h; try discriminate.
  inversion E; subst s'; clear E; open_inv HI; norm.
  destruct Hctl as (H1 & H2 & H3).
  constructor; norm; try assumption.
  repeat split; try (intros; discriminate); try (intros; reflexivity). intros _. apply H1. discriminate.
Qed.

Lemma inv_LMJoinWorkers p s s' : Inv p s -> step p s LMJoinWorkers = Some s' -> Inv p s'.
Proof.
  intros HI E. destruct s as [f nx refill encq bufs w results failedl hashq hashed h m].
  cbn [step s_m s_w] in E. destruct m; try discriminate.
  destruct (forallb _ w) eqn:Ew; [|discriminate].
  inversion E; subst s'; clear E; open_inv HI; norm.
  destruct Hctl as (H1 & H2 & H3).
  constructor; norm; try assumption.
  repeat split.
  - intros _. apply H1. discriminate.
  - intros _. apply H2. left. reflexivity.
  - intros _. exact Ew.
Qed.

Lemma inv_LFDone p s s' : Inv p s -> step p s LFDone = Some s' -> Inv p s'.
Proof.
  intros HI E. destruct s as [f nx refill encq bufs w results failedl hashq hashed h m].
  cbn [step s_f s_m] in E. destruct f as [| | |sent fl|]; try discriminate. destruct m; try discriminate.
  destruct (Nat.eqb sent (p_workers p)); [|discriminate].
  inversion E; subst s'; clear E; open_inv HI; norm.
  constructor; norm; try assumption.
  - intros fl' [[sent' H]|H]; [discriminate|]. inversion H; subst fl'. apply Hstop. left. exists sent. reflexivity.
  - repeat split; try (intros; discriminate); try (intros [?|?]; discriminate). intros _. exists fl. reflexivity.
Qed.

Lemma inv_LFStop p s s' : Inv p s -> step p s LFStop = Some s' -> Inv p s'.
Proof.
  intros HI E. destruct s as [f nx refill encq bufs w results failedl hashq hashed h m].
  cbn [step s_f s_encq] in E. destruct f as [| | |sent fl|]; try discriminate.
  destruct (Nat.ltb sent (p_workers p)); [|discriminate].
  destruct (Nat.ltb (length encq) (qcap p)); [|discriminate].
  inversion E; subst s'; clear E; open_inv HI; norm.
  constructor; norm; try assumption.
  - rewrite somes_app. cbn [somes flat_map]. rewrite app_nil_r. exact Hown.
  - intros n Hn. specialize (Hcov n Hn). rewrite somes_app. cbn [somes flat_map]. rewrite app_nil_r. exact Hcov.
  - intros b Hb. rewrite somes_app in Hb. cbn [somes flat_map] in Hb. rewrite app_nil_r in Hb. exact (Hlive b Hb).
  - intros fl' [[sent' H]|H]; [|discriminate]. inversion H; subst fl'. apply Hstop. left. exists sent. reflexivity.
  - destruct Henc as (bs & t & Eqq & Hfeed & Hex). exists bs, (S t). subst encq.
    split; [rewrite <- app_assoc; f_equal; rewrite <- repeat_cons; reflexivity|].
    split; [intros; discriminate | exact Hex].
  - destruct Hctl as (H1 & H2 & H3). repeat split; try assumption. intros Hm. destruct (H1 Hm) as [x Hx]. discriminate.
  - destruct Hbnd as [Hb1 Hb2]. split; [exact Hb1|]. intros b Hb. apply Hb2. rewrite somes_app in Hb. cbn [somes flat_map] in Hb. rewrite app_nil_r in Hb. exact Hb.
Qed.

Lemma inv_LWPush p s s' i : Inv p s -> step p s (LWPush i) = Some s' -> Inv p s'.
Proof.
  intros HI E. destruct s as [f nx refill encq bufs w results failedl hashq hashed h m].
  cbn [step s_w] in E. destruct (nth_error w i) as [[| |n|]|] eqn:Ei; try discriminate.
  inversion E; subst s'; clear E; open_inv HI; norm.
  assert (Hwb : flat_map wbuf (set_nth w i WRecv) = flat_map wbuf w).
  { destruct (flat_map_set_nth wbuf w i (WPush n) WRecv Ei) as (pre & post & E1 & E2). rewrite E1, E2. reflexivity. }
  constructor; norm; rewrite ?Hwb; try assumption.
  - rewrite set_nth_length. exact Hw.
  - intros n0 Hn0. specialize (Hcov n0 Hn0). rewrite !in_app_iff in *. cbn [In].
    destruct Hcov as [H|[H|[H|H]]]; [tauto | | tauto | tauto].
    destruct (In_flat_map_set_nth wpush w i (WPush n) WRecv n0 Ei H) as [H'|H']; [|tauto].
    cbn in H'. destruct H' as [->|[]]. tauto.
  - intros n0 [[->|H]|H].
    + apply Hres. right. destruct (flat_map_set_nth wpush w i (WPush n0) WRecv Ei) as (pre & post & E1 & _).
      rewrite E1. rewrite !in_app_iff. right. left. left. reflexivity.
    + apply Hres. left. exact H.
    + apply Hres. right. destruct (In_flat_map_set_nth_rev wpush w i (WPush n) WRecv n0 Ei H) as [[]|H']. exact H'.
  - destruct Henc as (bs & t & Eqq & Hfeed & Hex). exists bs, t. split; [exact Eqq|]. split.
    + intros Hf. destruct (Hfeed Hf) as [Ht Hall]. split; [exact Ht|].
      apply forallb_forall. intros x Hx. rewrite forallb_forall in Hall.
      apply In_nth_error in Hx. destruct Hx as [j Hj].
      destruct (Nat.eq_dec i j) as [->|Hne].
      * rewrite nth_error_set_nth_same in Hj by (apply nth_error_Some; congruence). inversion Hj. reflexivity.
      * rewrite nth_error_set_nth_other in Hj by exact Hne. apply Hall. eapply nth_error_In. exact Hj.
    + intros Hx. apply Hex. apply existsb_exists in Hx. destruct Hx as (x & Hx & Hxe). apply existsb_exists.
      apply In_nth_error in Hx. destruct Hx as [j Hj].
      destruct (Nat.eq_dec i j) as [->|Hne].
      * rewrite nth_error_set_nth_same in Hj by (apply nth_error_Some; congruence). inversion Hj; subst. discriminate.
      * rewrite nth_error_set_nth_other in Hj by exact Hne. exists x. split; [eapply nth_error_In; exact Hj | exact Hxe].
  - destruct Hctl as (H1 & H2 & H3). repeat split; try assumption.
    intros Hm. specialize (H3 Hm). rewrite forallb_forall in H3. specialize (H3 (WPush n) (nth_error_In _ _ Ei)). discriminate.
Qed.

Lemma ctl_feeding f m h w :
  feeding f = true ->
  ((m <> MFeeding -> exists failed : bool, f = FDone failed) /\ ((m = MJoinWorkers \/ m = MFinal) -> h = HExit) /\
   (m = MFinal -> forallb is_exit w = true)) -> m = MFeeding.
Proof.
  intros Hf (H1 & _ & _). destruct m; try reflexivity; destruct (H1 ltac:(discriminate)) as [x Hx]; subst f; discriminate.
Qed.

Lemma inv_LFRecv p s s' : Inv p s -> step p s LFRecv = Some s' -> Inv p s'.
Proof.
  intros HI E. destruct s as [f nx refill encq bufs w results failedl hashq hashed h m].
  cbn [step s_f s_refill] in E. destruct f; try discriminate. destruct refill as [|b r]; [discriminate|].
  inversion E; subst s'; clear E; open_inv HI; norm.
  assert (Hperm : Permutation ((b :: r) ++ somes encq ++ [] ++ flat_map wbuf w) (r ++ somes encq ++ [b] ++ flat_map wbuf w)).
  { cbn [app]. pose proof (Permutation_middle (r ++ somes encq) (flat_map wbuf w) b) as HP.
    rewrite <- !app_assoc in HP. exact HP. }
  pose proof (ctl_feeding FRecv m h w eq_refl Hctl) as Hm. subst m.
  constructor; norm; try assumption.
  - eapply Permutation_NoDup; [exact Hperm | exact Hown].
  - intros fl [[sent H]|H]; discriminate.
  - repeat split; try (intros H; exfalso; apply H; reflexivity); try (intros [H|H]; discriminate); intros H; discriminate.
  - destruct Hbnd as [Hb1 Hb2]. split; [exact Hb1|]. intros b0 Hb0. apply Hb2.
    eapply Permutation_in; [symmetry; exact Hperm | exact Hb0].
Qed.

Lemma inv_LFSend p s s' : Inv p s -> step p s LFSend = Some s' -> Inv p s'.
Proof.
  intros HI E. destruct s as [f nx refill encq bufs w results failedl hashq hashed h m].
  cbn [step s_f s_encq] in E. destruct f as [| |b| |]; try discriminate.
  destruct (Nat.ltb (length encq) (qcap p)); [|discriminate].
  inversion E; subst s'; clear E; open_inv HI; norm.
  pose proof (ctl_feeding (FSend b) m h w eq_refl Hctl) as Hm. subst m.
  assert (Hmem : forall x, In x ((somes encq ++ [b]) ++ flat_map wbuf w ++ []) <-> In x (somes encq ++ flat_map wbuf w ++ [b])).
  { intros x. rewrite !in_app_iff. cbn [In]. tauto. }
  constructor; norm; rewrite ?somes_app; cbn [somes flat_map fbuf fsend app]; try assumption.
  - rewrite <- app_assoc. exact Hown.
  - intros n Hn. specialize (Hcov n Hn). rewrite !in_app_iff in *. destruct Hcov as [H|H]; [|right; exact H].
    left. apply in_flat_map in H. destruct H as (x & Hx & Hfx). apply in_flat_map. exists x. split; [apply Hmem; exact Hx | exact Hfx].
  - intros b0 Hb0. apply Hlive. apply Hmem. exact Hb0.
  - destruct Hnext as [Hn1 Hn2]. split; [|exact Hn2]. destruct (Hn2 nx ltac:(lia)) as [Hlt _]. lia.
  - intros fl [[sent H]|H]; discriminate.
  - destruct Henc as (bs & t & Eqq & Hfeed & Hex). destruct (Hfeed eq_refl) as [-> Hall]. cbn [repeat] in Eqq. rewrite app_nil_r in Eqq. subst encq.
    exists (bs ++ [b]), 0. cbn [repeat]. rewrite app_nil_r, map_app. split; [reflexivity|]. split; [intros _; split; [reflexivity | exact Hall]|].
    intros Hx. exfalso. clear -Hall Hx. induction w as [|x t IH]; cbn in *; [discriminate|].
    apply Bool.andb_true_iff in Hall. destruct Hall as [H1 H2]. destruct (is_exit x); [discriminate|]. cbn in Hx. apply IH; assumption.
  - repeat split; try (intros H; exfalso; apply H; reflexivity); try (intros [H|H]; discriminate); intros H; discriminate.
  - destruct Hbnd as [Hb1 Hb2]. split; [exact Hb1|]. intros b0 Hb0. apply Hb2. rewrite <- app_assoc in Hb0. exact Hb0.
Qed.

Lemma frame_of_set_other bufs b b0 x : b0 <> b -> frame_of (set_nth bufs b x) b0 = frame_of bufs b0.
Proof. intros H. unfold frame_of. rewrite nth_error_set_nth_other by (intros E; apply H; symmetry; exact E). reflexivity. Qed.

Lemma inv_LFRead p s s' : Inv p s -> step p s LFRead = Some s' -> Inv p s'.
Proof.
  intros HI E. destruct s as [f nx refill encq bufs w results failedl hashq hashed h m].
  cbn [step s_f] in E. destruct f as [|b| | |]; try discriminate.
  open_inv HI; norm.
  pose proof (ctl_feeding (FRead b) m h w eq_refl Hctl) as Hm. subst m.
  (* the feeder's buffer is nobody else's *)
  assert (Hown' : NoDup ((refill ++ somes encq) ++ b :: flat_map wbuf w)) by (rewrite <- app_assoc; exact Hown).
  pose proof (NoDup_remove_1 _ _ _ Hown') as Hdrop. pose proof (NoDup_remove_2 _ _ _ Hown') as Hnotin.
  rewrite <- app_assoc in Hdrop.
  assert (Hb_enc : ~ In b (somes encq)) by (intros Hx; apply Hnotin; rewrite !in_app_iff; tauto).
  assert (Hb_w : ~ In b (flat_map wbuf w)) by (intros Hx; apply Hnotin; rewrite !in_app_iff; tauto).
  destruct Hbnd as [Hb1 Hb2].
  assert (Hb_lt : b < length bufs) by (rewrite Hb1; apply Hb2; rewrite !in_app_iff; cbn; tauto).
  unfold read_fails in E. cbn [s_next s_hashq] in E.
  destruct (match p_read_fail p with Some k => Nat.eqb k nx | None => false end) eqn:Erf.
  - (* the read fails *)
    inversion E; subst s'; clear E.
    assert (Hrf : p_read_fail p = Some nx).
    { destruct (p_read_fail p) as [k|]; [|discriminate]. apply Nat.eqb_eq in Erf. subst. reflexivity. }
    constructor; norm; try assumption.
    + intros fl [[sent H]|H]; [|discriminate]. inversion H; subst. split; [intros _; exact Hrf | discriminate].
    + destruct Henc as (bs & t & Eqq & Hfeed & Hex). exists bs, t. split; [exact Eqq|]. split; [discriminate | exact Hex].
    + destruct Hhash as (xs & k & Eqq & Hseq & Hfeed & Hex). exists xs, k. split; [exact Eqq|]. split; [exact Hseq|].
      split; [discriminate | exact Hex].
    + repeat split; try (intros H; exfalso; apply H; reflexivity); try (intros [H|H]; discriminate); intros H; discriminate.
    + split; [exact Hb1|]. intros b0 Hb0. apply Hb2. rewrite !in_app_iff in *. cbn [fbuf In] in *. tauto.
  - destruct (Nat.ltb (length hashq) HASH_CAP); [|discriminate].
    assert (Hnrf : p_read_fail p <> Some nx).
    { destruct (p_read_fail p) as [k|]; [|discriminate]. intros Hk. inversion Hk; subst. rewrite Nat.eqb_refl in Erf. discriminate. }
    destruct (Nat.ltb nx (p_blocks p)) eqn:Elt.
    + (* a block is read into b and numbered nx *)
      apply Nat.ltb_lt in Elt. inversion E; subst s'; clear E.
      assert (Hfo : forall b0, In b0 (somes encq ++ flat_map wbuf w) -> frame_of (set_nth bufs b (Some nx)) b0 = frame_of bufs b0).
      { intros b0 Hb0. apply frame_of_set_other. intros ->. rewrite in_app_iff in Hb0. tauto. }
      constructor; norm; try assumption.
      * intros n Hn. rewrite !in_app_iff.
        destruct (Nat.eq_dec n nx) as [->|Hne].
        -- left. apply in_flat_map. exists b. split; [rewrite !in_app_iff; cbn; tauto|].
           unfold frame_of. rewrite nth_error_set_nth_same by exact Hb_lt. left. reflexivity.
        -- specialize (Hcov n ltac:(lia)). rewrite !in_app_iff in Hcov. destruct Hcov as [H|H]; [left | right; exact H].
           apply in_flat_map in H. destruct H as (b0 & Hb0 & Hf). cbn [fsend] in Hb0. rewrite app_nil_r in Hb0.
           apply in_flat_map. exists b0. split; [rewrite !in_app_iff in *; tauto|]. rewrite Hfo by exact Hb0. exact Hf.
      * intros b0 Hb0. rewrite !in_app_iff in Hb0. cbn [fsend In] in Hb0.
        destruct (Nat.eq_dec b0 b) as [->|Hne].
        -- exists nx. rewrite nth_error_set_nth_same by exact Hb_lt. split; [reflexivity | lia].
        -- rewrite nth_error_set_nth_other by (intros Hx; apply Hne; symmetry; exact Hx).
           destruct (Hlive b0 ltac:(rewrite !in_app_iff; cbn [fsend In]; intuition congruence)) as (n & Hn & Hlt). exists n. split; [exact Hn | lia].
      * intros n Hn. destruct (Hfail n Hn) as [H1 H2]. split; [exact H1 | lia].
      * destruct Hnext as [Hn1 Hn2]. split; [exact Hn1|]. intros i Hi.
        destruct (Nat.eq_dec i nx) as [->|Hne]; [split; assumption | apply Hn2; lia].
      * intros fl [[sent H]|H]; discriminate.
      * destruct Hhash as (xs & k & Eqq & Hseq & Hfeed & Hex). destruct (Hfeed eq_refl) as [-> Hh]. cbn [repeat] in Eqq. rewrite app_nil_r in Eqq. subst hashq.
        exists (xs ++ [nx]), 0. cbn [repeat]. rewrite app_nil_r, map_app. split; [reflexivity|].
        split; [rewrite app_assoc, Hseq, seq_S; reflexivity|]. split; [intros _; split; [reflexivity | exact Hh]|].
        intros Hx. rewrite Hh in Hx. discriminate.
      * repeat split; try (intros H; exfalso; apply H; reflexivity); try (intros [H|H]; discriminate); intros H; discriminate.
      * split; [rewrite set_nth_length; exact Hb1 | exact Hb2].
    + (* end of input *)
      apply Nat.ltb_ge in Elt. inversion E; subst s'; clear E.
      constructor; norm; try assumption.
      * intros fl [[sent H]|H]; [|discriminate]. inversion H; subst. split; [discriminate|]. intros _. destruct Hnext as [Hn1 _]. split; [lia | exact Hnrf].
      * destruct Henc as (bs & t & Eqq & Hfeed & Hex). exists bs, t. split; [exact Eqq|]. split; [discriminate | exact Hex].
      * destruct Hhash as (xs & k & Eqq & Hseq & Hfeed & Hex). destruct (Hfeed eq_refl) as [-> Hh]. exists xs, 1. subst hashq.
        cbn [repeat]. rewrite app_nil_r. split; [reflexivity|]. split; [exact Hseq|]. split; [discriminate | exact Hex].
      * repeat split; try (intros H; exfalso; apply H; reflexivity); try (intros [H|H]; discriminate); intros H; discriminate.
      * split; [exact Hb1|]. intros b0 Hb0. apply Hb2. rewrite !in_app_iff in *. cbn [fbuf In] in *. tauto.
Qed.

Lemma forallb_set_nth {A} (f : A -> bool) : forall (l : list A) i x, forallb f l = true -> f x = true -> forallb f (set_nth l i x) = true.
Proof.
  induction l as [|y t IH]; intros i x H Hx; [destruct i; reflexivity|].
  cbn [forallb] in H. apply Bool.andb_true_iff in H. destruct H as [H1 H2].
  destruct i; cbn [set_nth forallb]; apply Bool.andb_true_iff; split; auto.
Qed.

Lemma existsb_set_nth_same {A} (f : A -> bool) : forall (l : list A) i old new,
  nth_error l i = Some old -> f old = f new -> existsb f (set_nth l i new) = existsb f l.
Proof.
  induction l as [|y t IH]; intros i old new H Hf; [destruct i; discriminate|].
  destruct i; cbn [nth_error] in H; cbn [set_nth existsb].
  - inversion H; subst. rewrite Hf. reflexivity.
  - rewrite (IH i old new H Hf). reflexivity.
Qed.

Lemma existsb_set_nth_true {A} (f : A -> bool) : forall (l : list A) i new, i < length l -> f new = true -> existsb f (set_nth l i new) = true.
Proof.
  induction l as [|y t IH]; intros i new H Hf; [cbn in H; lia|].
  destruct i; cbn [set_nth existsb]; [rewrite Hf; reflexivity|]. rewrite IH by (cbn in H; lia || assumption). apply Bool.orb_true_r.
Qed.

Lemma forallb_nth {A} (f : A -> bool) (l : list A) i x : forallb f l = true -> nth_error l i = Some x -> f x = true.
Proof. intros H Hn. rewrite forallb_forall in H. apply H. eapply nth_error_In. exact Hn. Qed.

Lemma somes_cons_Some {A} (b : A) r : somes (Some b :: r) = b :: somes r.
Proof. reflexivity. Qed.
Lemma somes_cons_None {A} (r : list (option A)) : somes (None :: r) = somes r.
Proof. reflexivity. Qed.

Lemma flat_map_incl_mem {A B} (f : A -> list B) (l1 l2 : list A) :
  (forall x, In x l1 -> In x l2) -> forall y, In y (flat_map f l1) -> In y (flat_map f l2).
Proof.
  intros H y Hy. apply in_flat_map in Hy. destruct Hy as (x & Hx & Hfx). apply in_flat_map. exists x. split; [apply H; exact Hx | exact Hfx].
Qed.

Lemma inv_LWRecv p s s' i : Inv p s -> step p s (LWRecv i) = Some s' -> Inv p s'.
Proof.
  intros HI E. destruct s as [f nx refill encq bufs w results failedl hashq hashed h m].
  cbn [step s_w s_encq] in E. destruct (nth_error w i) as [[| | |]|] eqn:Ei; try discriminate.
  destruct encq as [|[b|] r]; try discriminate; inversion E; subst s'; clear E; open_inv HI; norm.
  - (* a buffer is taken from the encode queue *)
    destruct (flat_map_set_nth wbuf w i WRecv (WEnc b) Ei) as (pre & post & E1 & E2). cbn [wbuf app] in E1, E2.
    destruct (flat_map_set_nth wpush w i WRecv (WEnc b) Ei) as (pre' & post' & E1' & E2'). cbn [wpush app] in E1', E2'.
    rewrite somes_cons_Some in *.
    assert (Hmem : forall x, In x (somes r ++ (pre ++ b :: post) ++ fsend f) <-> In x ((b :: somes r) ++ (pre ++ post) ++ fsend f)).
    { intros x. rewrite !in_app_iff. cbn [In]. rewrite ?in_app_iff. tauto. }
    assert (Hperm : Permutation (refill ++ (b :: somes r) ++ fbuf f ++ pre ++ post) (refill ++ somes r ++ fbuf f ++ pre ++ b :: post)).
    { apply Permutation_app_head. change ((b :: somes r) ++ fbuf f ++ pre ++ post) with (b :: (somes r ++ fbuf f ++ pre) ++ post) || idtac.
      pose proof (Permutation_middle (somes r ++ fbuf f ++ pre) post b) as HP. rewrite <- !app_assoc in HP. cbn [app]. exact HP. }
    constructor; norm; rewrite ?E2, ?E2'; rewrite ?E1, ?E1' in *; try assumption.
    + rewrite set_nth_length. exact Hw.
    + eapply Permutation_NoDup; [exact Hperm | exact Hown].
    + intros n Hn. specialize (Hcov n Hn). apply in_app_or in Hcov. apply in_or_app. destruct Hcov as [H|H]; [left | right; exact H].
      eapply flat_map_incl_mem; [|exact H]. intros x Hx. apply Hmem. exact Hx.
    + intros b0 Hb0. apply Hlive. apply Hmem. exact Hb0.
    + destruct Henc as (bs & t & Eqq & Hfeed & Hex).
      destruct bs as [|b' bs]; cbn [map app] in Eqq; [destruct t; cbn in Eqq; discriminate|]. inversion Eqq; subst b' r.
      exists bs, t. split; [reflexivity|]. split.
      * intros Hf. destruct (Hfeed Hf) as [Ht Hall]. split; [exact Ht | apply forallb_set_nth; [exact Hall | reflexivity]].
      * intros Hx. rewrite (existsb_set_nth_same is_exit w i WRecv (WEnc b) Ei eq_refl) in Hx. specialize (Hex Hx). discriminate.
    + destruct Hctl as (H1 & H2 & H3). repeat split; try assumption.
      intros Hm. specialize (H3 Hm). pose proof (forallb_nth _ _ _ _ H3 Ei) as Hx. discriminate.
    + destruct Hbnd as [Hb1 Hb2]. split; [exact Hb1|]. intros b0 Hb0. apply Hb2.
      eapply Permutation_in; [symmetry; exact Hperm | exact Hb0].
  - (* a stop token: the worker exits *)
    destruct (flat_map_set_nth wbuf w i WRecv WExit Ei) as (pre & post & E1 & E2). cbn [wbuf app] in E1, E2.
    destruct (flat_map_set_nth wpush w i WRecv WExit Ei) as (pre' & post' & E1' & E2'). cbn [wpush app] in E1', E2'.
    rewrite somes_cons_None in *.
    constructor; norm; rewrite ?E2, ?E2'; rewrite ?E1, ?E1' in *; try assumption.
    + rewrite set_nth_length. exact Hw.
    + destruct Henc as (bs & t & Eqq & Hfeed & Hex).
      destruct bs as [|b' bs]; cbn [map app] in Eqq; [|discriminate].
      destruct t as [|t]; cbn [repeat] in Eqq; [discriminate|]. inversion Eqq; subst r.
      exists [], t. split; [reflexivity|]. split.
      * intros Hf. destruct (Hfeed Hf) as [Ht _]. discriminate.
      * intros _. reflexivity.
    + destruct Hctl as (H1 & H2 & H3). repeat split; try assumption.
      intros Hm. specialize (H3 Hm). pose proof (forallb_nth _ _ _ _ H3 Ei) as Hx. discriminate.
Qed.

Lemma inv_LWEnc p s s' i : Inv p s -> step p s (LWEnc i) = Some s' -> Inv p s'.
Proof.
  intros HI E. destruct s as [f nx refill encq bufs w results failedl hashq hashed h m].
  cbn [step s_w s_bufs] in E. destruct (nth_error w i) as [[|b| |]|] eqn:Ei; try discriminate.
  destruct (nth_error bufs b) as [[n|]|] eqn:Eb; try discriminate.
  open_inv HI; norm.
  assert (Hlive_b : n < match f with FSend _ => S nx | _ => nx end).
  { destruct (Hlive b) as (n' & Hn' & Hlt).
    - destruct (flat_map_set_nth wbuf w i (WEnc b) WRecv Ei) as (pre & post & E1 & _). rewrite E1. rewrite !in_app_iff. cbn. tauto.
    - rewrite Eb in Hn'. inversion Hn'; subst. exact Hlt. }
  assert (Hctl' : forall w', (m <> MFeeding -> exists failed : bool, f = FDone failed) /\
                            (m = MJoinWorkers \/ m = MFinal -> h = HExit) /\ (m = MFinal -> forallb is_exit w' = true)).
  { intros w'. destruct Hctl as (H1 & H2 & H3). repeat split; try assumption.
    intros Hm. specialize (H3 Hm). pose proof (forallb_nth _ _ _ _ H3 Ei) as Hx. discriminate. }
  assert (Henc' : forall new, is_exit new = false ->
            exists (bs : list nat) (t : nat), encq = map Some bs ++ repeat None t /\
              (feeding f = true -> t = 0 /\ forallb (fun w0 : wpc => negb (is_exit w0)) (set_nth w i new) = true) /\
              (existsb is_exit (set_nth w i new) = true -> bs = [])).
  { intros new Hnew. destruct Henc as (bs & t & Eqq & Hfeed & Hex). exists bs, t. split; [exact Eqq|]. split.
    - intros Hf. destruct (Hfeed Hf) as [Ht Hall]. split; [exact Ht | apply forallb_set_nth; [exact Hall | rewrite Hnew; reflexivity]].
    - intros Hx. rewrite (existsb_set_nth_same is_exit w i (WEnc b) new Ei) in Hx by (rewrite Hnew; reflexivity). exact (Hex Hx). }
  destruct (p_invalid p n) eqn:Einv; inversion E; subst s'; clear E.
  - (* the frame fails to encode: buffer returned, failure recorded *)
    destruct (flat_map_set_nth wbuf w i (WEnc b) WRecv Ei) as (pre & post & E1 & E2). cbn [wbuf app] in E1, E2.
    destruct (flat_map_set_nth wpush w i (WEnc b) WRecv Ei) as (pre' & post' & E1' & E2'). cbn [wpush app] in E1', E2'.
    assert (Hperm : Permutation (refill ++ somes encq ++ fbuf f ++ pre ++ b :: post) ((refill ++ [b]) ++ somes encq ++ fbuf f ++ pre ++ post)).
    { rewrite <- app_assoc. apply Permutation_app_head. cbn [app].
      pose proof (Permutation_middle (somes encq ++ fbuf f ++ pre) post b) as HP. rewrite <- !app_assoc in HP. symmetry. exact HP. }
    constructor; norm; rewrite ?E2, ?E2'; rewrite ?E1, ?E1' in *; try assumption.
    + rewrite set_nth_length. exact Hw.
    + eapply Permutation_NoDup; [exact Hperm | exact Hown].
    + intros n0 Hn0. specialize (Hcov n0 Hn0). apply in_app_or in Hcov. apply in_or_app. destruct Hcov as [H|H].
      * apply in_flat_map in H. destruct H as (x & Hx & Hfx).
        destruct (Nat.eq_dec x b) as [->|Hne].
        -- right. unfold frame_of in Hfx. rewrite Eb in Hfx. destruct Hfx as [->|[]]. rewrite !in_app_iff. cbn [In]. tauto.
        -- left. apply in_flat_map. exists x. split; [|exact Hfx]. rewrite !in_app_iff in *. cbn [In] in Hx. intuition congruence.
      * right. rewrite !in_app_iff in *. cbn [In]. tauto.
    + intros b0 Hb0. apply Hlive. rewrite !in_app_iff in *. cbn [In]. tauto.
    + intros n0 [->|H]; [split; [exact Einv | exact Hlive_b] | exact (Hfail n0 H)].
    + apply Henc'. reflexivity.
    + apply Hctl'.
    + destruct Hbnd as [Hb1 Hb2]. split; [exact Hb1|]. intros b0 Hb0. apply Hb2.
      eapply Permutation_in; [symmetry; exact Hperm | exact Hb0].
  - (* encoded: buffer returned, frame n ready to be pushed *)
    destruct (flat_map_set_nth wbuf w i (WEnc b) (WPush n) Ei) as (pre & post & E1 & E2). cbn [wbuf app] in E1, E2.
    destruct (flat_map_set_nth wpush w i (WEnc b) (WPush n) Ei) as (pre' & post' & E1' & E2'). cbn [wpush app] in E1', E2'.
    assert (Hperm : Permutation (refill ++ somes encq ++ fbuf f ++ pre ++ b :: post) ((refill ++ [b]) ++ somes encq ++ fbuf f ++ pre ++ post)).
    { rewrite <- app_assoc. apply Permutation_app_head. cbn [app].
      pose proof (Permutation_middle (somes encq ++ fbuf f ++ pre) post b) as HP. rewrite <- !app_assoc in HP. symmetry. exact HP. }
    constructor; norm; rewrite ?E2, ?E2'; rewrite ?E1, ?E1' in *; try assumption.
    + rewrite set_nth_length. exact Hw.
    + eapply Permutation_NoDup; [exact Hperm | exact Hown].
    + intros n0 Hn0. specialize (Hcov n0 Hn0). apply in_app_or in Hcov. apply in_or_app. destruct Hcov as [H|H].
      * apply in_flat_map in H. destruct H as (x & Hx & Hfx).
        destruct (Nat.eq_dec x b) as [->|Hne].
        -- right. unfold frame_of in Hfx. rewrite Eb in Hfx. destruct Hfx as [->|[]]. rewrite !in_app_iff. cbn [In]. tauto.
        -- left. apply in_flat_map. exists x. split; [|exact Hfx]. rewrite !in_app_iff in *. cbn [In] in Hx. intuition congruence.
      * right. rewrite !in_app_iff in *. cbn [In]. tauto.
    + intros b0 Hb0. apply Hlive. rewrite !in_app_iff in *. cbn [In]. tauto.
    + intros n0 [H|H]; [apply Hres; left; exact H|].
      rewrite !in_app_iff in H. cbn [In] in H. destruct H as [H|[->|H]]; [| exact Einv |]; apply Hres; right; rewrite !in_app_iff; tauto.
    + apply Henc'. reflexivity.
    + apply Hctl'.
    + destruct Hbnd as [Hb1 Hb2]. split; [exact Hb1|]. intros b0 Hb0. apply Hb2.
      eapply Permutation_in; [symmetry; exact Hperm | exact Hb0].
Qed.

Theorem inv_step p s l s' : Inv p s -> step p s l = Some s' -> Inv p s'.
Proof.
  destruct l; intros HI E.
  - eapply inv_LFRecv; eassumption.
  - eapply inv_LFRead; eassumption.
  - eapply inv_LFSend; eassumption.
  - eapply inv_LFStop; eassumption.
  - eapply inv_LFDone; eassumption.
  - eapply inv_LWRecv; eassumption.
  - eapply inv_LWEnc; eassumption.
  - eapply inv_LWPush; eassumption.
  - eapply inv_LHRecv; eassumption.
  - eapply inv_LMStopHash; eassumption.
  - eapply inv_LMJoinHash; eassumption.
  - eapply inv_LMJoinWorkers; eassumption.
Qed.

Theorem inv_run p : forall ls s s', Inv p s -> run p s ls = Some s' -> Inv p s'.
Proof.
  induction ls as [|l r IH]; intros s s' HI E; cbn [run] in E.
  - inversion E; subst. exact HI.
  - destruct (step p s l) as [s1|] eqn:Es; [|discriminate]. eapply IH; [eapply inv_step; eassumption | exact E].
Qed.

(* ---------------- the single-threaded reference, characterised ---------------- *)
Definition rf_at (p : plan) (i : nat) : bool := match p_read_fail p with Some k => Nat.eqb k i | None => false end.

Lemma rf_at_false p i : p_read_fail p <> Some i -> rf_at p i = false.
Proof. unfold rf_at. destruct (p_read_fail p) as [k|]; [|reflexivity]. intros H. apply Nat.eqb_neq. intros ->. apply H. reflexivity. Qed.

(* walking over clean blocks *)
Lemma seq_outcome_skip p : forall d fuel i,
  (forall j, i <= j < i + d -> j < p_blocks p /\ p_read_fail p <> Some j /\ p_invalid p j = false) ->
  seq_outcome p (d + fuel) i = seq_outcome p fuel (i + d).
Proof.
  induction d as [|d IH]; intros fuel i H.
  - rewrite Nat.add_0_r. reflexivity.
  - cbn [Nat.add seq_outcome]. fold (rf_at p i).
    destruct (H i ltac:(lia)) as (H1 & H2 & H3).
    rewrite (rf_at_false p i H2). apply Nat.ltb_lt in H1. rewrite H1, H3.
    rewrite IH by (intros j Hj; apply H; lia). f_equal. lia.
Qed.

(* an invalid block met before any failing read: configuration error *)
Lemma seq_outcome_config p : forall d fuel i,
  (forall j, i <= j <= i + d -> j < p_blocks p /\ p_read_fail p <> Some j) ->
  (forall j, i <= j < i + d -> p_invalid p j = false) -> p_invalid p (i + d) = true ->
  seq_outcome p (S d + fuel) i = OutConfigErr.
Proof.
  induction d as [|d IH]; intros fuel i H Hv Hinv.
  - rewrite Nat.add_0_r in *. cbn [Nat.add seq_outcome]. fold (rf_at p i).
    destruct (H i ltac:(lia)) as (H1 & H2). rewrite (rf_at_false p i H2). apply Nat.ltb_lt in H1. rewrite H1, Hinv. reflexivity.
  - cbn [Nat.add seq_outcome]. fold (rf_at p i).
    destruct (H i ltac:(lia)) as (H1 & H2). rewrite (rf_at_false p i H2). apply Nat.ltb_lt in H1. rewrite H1, (Hv i) by lia.
    apply (IH fuel (S i)).
    + intros j Hj. apply H. lia.
    + intros j Hj. apply Hv. lia.
    + replace (S i + d) with (i + S d) by lia. exact Hinv.
Qed.

Lemma classic_dec_exists p : forall n, {exists j, j < n /\ p_invalid p j = true} + {~ exists j, j < n /\ p_invalid p j = true}.
Proof.
  induction n as [|n IH].
  - right. intros (j & Hj & _). lia.
  - destruct IH as [Hex|Hno].
    + left. destruct Hex as (j & Hj & H). exists j. split; [lia | exact H].
    + destruct (p_invalid p n) eqn:E.
      * left. exists n. split; [lia | exact E].
      * right. intros (j & Hj & H). destruct (Nat.eq_dec j n) as [->|Hne]; [congruence|]. apply Hno. exists j. split; [lia | exact H].
Qed.

(* least invalid index below a bound *)
Lemma first_invalid p : forall n, (exists j, j < n /\ p_invalid p j = true) ->
  exists j0, j0 < n /\ p_invalid p j0 = true /\ forall j, j < j0 -> p_invalid p j = false.
Proof.
  induction n as [|n IH]; intros (j & Hj & Hinv); [lia|].
  destruct (classic_dec_exists p n) as [Hex|Hno].
  - destruct (IH Hex) as (j0 & H1 & H2 & H3). exists j0. repeat split; try assumption. lia.
  - exists n. split; [lia|]. assert (j = n).
    { destruct (Nat.eq_dec j n) as [->|Hne]; [reflexivity|]. exfalso. apply Hno. exists j. split; [lia | exact Hinv]. }
    subst j. split; [exact Hinv|]. intros j' Hj'. destruct (p_invalid p j') eqn:E; [|reflexivity].
    exfalso. apply Hno. exists j'. split; [exact Hj' | exact E].
Qed.

(* ---------------- C05: every completed run delivers the single-threaded outcome ---------------- *)
Lemma forallb_exit_no_buf w : forallb is_exit w = true -> flat_map wbuf w = [] /\ flat_map wpush w = [].
Proof.
  induction w as [|x t IH]; intros H; [split; reflexivity|].
  cbn [forallb] in H. apply Bool.andb_true_iff in H. destruct H as [Hx Ht]. destruct (IH Ht) as [A B].
  destruct x; try discriminate. cbn [flat_map wbuf wpush app]. split; assumption.
Qed.

Lemma filter_all {A} (f : A -> bool) l : (forall x, In x l -> f x = true) -> filter f l = l.
Proof.
  induction l as [|x t IH]; intros H; [reflexivity|]. cbn [filter]. rewrite (H x (or_introl eq_refl)).
  f_equal. apply IH. intros y Hy. apply H. right. exact Hy.
Qed.

Theorem final_outcome p s :
  1 <= p_workers p -> Inv p s -> final s = true -> result_of s = seq_result p.
Proof.
  intros HW HI Hfin. destruct s as [f nx refill encq bufs w results failedl hashq hashed h m].
  unfold final in Hfin. cbn [s_m] in Hfin. destruct m; try discriminate. clear Hfin.
  open_inv HI; norm.
  destruct Hctl as (H1 & H2 & H3).
  destruct (H1 ltac:(discriminate)) as [fl Hf]. subst f.
  specialize (H2 (or_intror eq_refl)). specialize (H3 eq_refl).
  destruct (forallb_exit_no_buf w H3) as [Hwb Hwp].
  (* at least one worker, and it has exited: the encode queue holds no buffer *)
  assert (Hex : existsb is_exit w = true).
  { destruct w as [|x t]; [cbn in Hw; lia|]. cbn [forallb] in H3. apply Bool.andb_true_iff in H3. cbn [existsb]. destruct H3 as [-> _]. reflexivity. }
  destruct Henc as (bs & t & Eqq & _ & Hbs). specialize (Hbs Hex). subst bs. cbn [map app] in Eqq.
  assert (Hsomes : somes encq = []) by (rewrite Eqq; apply somes_repeat_None).
  destruct Hhash as (xs & k & _ & Hseq & _ & Hxs). specialize (Hxs H2). subst xs. rewrite app_nil_r in Hseq.
  rewrite Hsomes, Hwb, Hwp in Hcov. cbn [fsend app flat_map] in Hcov.
  destruct Hnext as [Hn1 Hn2].
  destruct (Hstop fl (or_intror eq_refl)) as [Hst Hsf].
  unfold result_of, seq_result. cbn [s_failed s_f s_hashed].
  destruct (classic_dec_exists p nx) as [Hinv|Hclean].
  - (* some block below nx is invalid: its frame cannot be among the results, so it is among the failures *)
    destruct (first_invalid p nx Hinv) as (j0 & Hj0 & Hj0i & Hj0m).
    assert (Hfl : failedl <> []).
    { intros ->. specialize (Hcov j0 Hj0). rewrite app_nil_r in Hcov. rewrite (Hres j0 (or_introl Hcov)) in Hj0i. discriminate. }
    destruct failedl as [|x t']; [contradiction|].
    replace (S (p_blocks p)) with (S j0 + (p_blocks p - j0)) by lia.
    symmetry. replace j0 with (0 + j0) in Hj0i by lia. apply (seq_outcome_config p j0 (p_blocks p - j0) 0).
    + intros j Hj. apply Hn2. lia.
    + intros j Hj. apply Hj0m. lia.
    + exact Hj0i.
  - (* every block below nx is valid *)
    assert (Hclean' : forall j, j < nx -> p_invalid p j = false).
    { intros j Hj. destruct (p_invalid p j) eqn:E; [|reflexivity]. exfalso. apply Hclean. exists j. split; assumption. }
    assert (Hnofail : failedl = []).
    { destruct failedl as [|x t']; [reflexivity|]. destruct (Hfail x (or_introl eq_refl)) as [Hx1 Hx2]. rewrite (Hclean' x Hx2) in Hx1. discriminate. }
    subst failedl.
    replace (S (p_blocks p)) with (nx + S (p_blocks p - nx)) by lia.
    rewrite (seq_outcome_skip p nx (S (p_blocks p - nx)) 0)
      by (intros j Hj; destruct (Hn2 j ltac:(lia)) as [A B]; repeat split; [exact A | exact B | apply Hclean'; lia]).
    cbn [Nat.add seq_outcome]. fold (rf_at p nx).
    destruct fl.
    + (* the read with index nx failed *)
      specialize (Hst eq_refl). unfold rf_at. rewrite Hst, Nat.eqb_refl. reflexivity.
    + destruct (Hsf eq_refl) as [Hend Hnrf]. rewrite (rf_at_false p nx Hnrf).
      destruct (Nat.ltb_spec nx (p_blocks p)) as [Hlt|_]; [lia|].
      unfold drain. cbn [s_results s_next]. rewrite Hseq. f_equal.
      apply filter_all. intros x Hx. apply in_seq in Hx. specialize (Hcov x ltac:(lia)). rewrite app_nil_r in Hcov.
      apply existsb_exists. exists x. split; [exact Hcov | apply Nat.eqb_refl].
Qed.

(* C05, general: any schedule, any number of workers / blocks, any fault plan *)
Theorem par_refines_seq p ls s :
  1 <= p_workers p -> run p (init p) ls = Some s -> final s = true -> result_of s = seq_result p.
Proof.
  intros HW Hr Hf. apply final_outcome; [exact HW | | exact Hf]. eapply inv_run; [apply inv_init | exact Hr].
Qed.

(* ---------------- C06: every schedule is finite (a potential that each step decreases) ---------------- *)
Definition w_cost (w : wpc) : nat := match w with WEnc _ => 2 | WPush _ => 1 | _ => 0 end.
Definition f_cost (p : plan) (f : fpc) (next : nat) : nat :=
  match f with
  | FRecv => 7 * (p_blocks p - next) + 4 * p_workers p + 5
  | FRead _ => 7 * (p_blocks p - next) + 4 * p_workers p + 4
  | FSend _ => 7 * (p_blocks p - next) + 4 * p_workers p + 2
  | FStop sent _ => 4 * (p_workers p - sent) + 1
  | FDone _ => 0
  end.
Definition m_cost (m : mpc) : nat := match m with MFeeding | MStopHash => 4 | MJoinHash => 2 | MJoinWorkers => 1 | MFinal => 0 end.
Definition potential (p : plan) (s : pstate) : nat :=
  f_cost p (s_f s) (s_next s) + 3 * length (s_encq s) + list_sum (map w_cost (s_w s)) + length (s_hashq s) + m_cost (s_m s).

Lemma list_sum_set_nth (c : wpc -> nat) : forall (l : list wpc) i old new,
  nth_error l i = Some old -> list_sum (map c (set_nth l i new)) + c old = list_sum (map c l) + c new.
Proof.
  induction l as [|y t IH]; intros i old new H; [destruct i; discriminate|].
  destruct i; cbn [nth_error] in H; cbn [set_nth map]; unfold list_sum in *; cbn [fold_right].
  - inversion H; subst. lia.
  - specialize (IH i old new H). lia.
Qed.

Theorem potential_decreases p s l s' : Inv p s -> step p s l = Some s' -> potential p s' < potential p s.
Proof.
  intros HI E. destruct s as [f nx refill encq bufs w results failedl hashq hashed h m].
  destruct HI as [_ _ _ _ _ _ Hnext _ _ _ _ _]. unfold nxt in Hnext. cbn [s_f s_next] in Hnext. destruct Hnext as [Hn1 Hn2].
  unfold potential.
  destruct l; cbn [step s_f s_refill s_encq s_w s_bufs s_h s_hashq s_m s_next] in E.
  - destruct f; try discriminate. destruct refill; [discriminate|]. inversion E; subst s'. cbn. lia.
  - destruct f as [|b| | |]; try discriminate. unfold read_fails in E. cbn [s_next s_hashq] in E.
    destruct (match p_read_fail p with Some k => Nat.eqb k nx | None => false end).
    + inversion E; subst s'. cbn. lia.
    + destruct (Nat.ltb (length hashq) HASH_CAP); [|discriminate].
      destruct (Nat.ltb nx (p_blocks p)) eqn:Elt; inversion E; subst s'; cbn; rewrite app_length; cbn [length].
      * lia.
      * apply Nat.ltb_ge in Elt. lia.
  - destruct f as [| |b| |]; try discriminate. destruct (Nat.ltb (length encq) (qcap p)); [|discriminate].
    inversion E; subst s'. cbn. rewrite app_length. cbn [length]. destruct (Hn2 nx ltac:(lia)) as [Hlt _]. lia.
  - destruct f as [| | |sent fl|]; try discriminate. destruct (Nat.ltb sent (p_workers p)) eqn:Es; [|discriminate].
    destruct (Nat.ltb (length encq) (qcap p)); [|discriminate]. inversion E; subst s'. cbn. rewrite app_length. cbn [length].
    apply Nat.ltb_lt in Es. lia.
  - destruct f as [| | |sent fl|]; try discriminate. destruct m; try discriminate.
    destruct (Nat.eqb sent (p_workers p)) eqn:Es; [|discriminate]. inversion E; subst s'. cbn. lia.
  - destruct (nth_error w w0) as [[| | |]|] eqn:Ei; try discriminate.
    destruct encq as [|[b|] r]; try discriminate; inversion E; subst s'; cbn [s_f s_next s_encq s_w s_hashq s_m length].
    + pose proof (list_sum_set_nth w_cost w w0 WRecv (WEnc b) Ei) as Hs. cbn [w_cost] in Hs. lia.
    + pose proof (list_sum_set_nth w_cost w w0 WRecv WExit Ei) as Hs. cbn [w_cost] in Hs. lia.
  - destruct (nth_error w w0) as [[|b| |]|] eqn:Ei; try discriminate.
    destruct (nth_error bufs b) as [[n|]|]; try discriminate.
    destruct (p_invalid p n); inversion E; subst s'; cbn [s_f s_next s_encq s_w s_hashq s_m].
    + pose proof (list_sum_set_nth w_cost w w0 (WEnc b) WRecv Ei) as Hs. cbn [w_cost] in Hs. lia.
    + pose proof (list_sum_set_nth w_cost w w0 (WEnc b) (WPush n) Ei) as Hs. cbn [w_cost] in Hs. lia.
  - destruct (nth_error w w0) as [[| |n|]|] eqn:Ei; try discriminate. inversion E; subst s'. cbn [s_f s_next s_encq s_w s_hashq s_m].
    pose proof (list_sum_set_nth w_cost w w0 (WPush n) WRecv Ei) as Hs. cbn [w_cost] in Hs. lia.
  - destruct h; [|discriminate]. destruct hashq as [|[j|] r]; try discriminate; inversion E; subst s'; cbn; lia.
  - destruct m; try discriminate. destruct (Nat.ltb (length hashq) HASH_CAP); [|discriminate]. inversion E; subst s'. cbn.
    rewrite app_length. cbn [length]. lia.
  - destruct m; try discriminate. destruct h; try discriminate. inversion E; subst s'. cbn. lia.
  - destruct m; try discriminate. destruct (forallb _ w); [|discriminate]. inversion E; subst s'. cbn. lia.
Qed.

(* no schedule from a reachable state is longer than the potential of that state *)
Theorem run_length_bounded p : forall ls s s', Inv p s -> run p s ls = Some s' -> length ls + potential p s' <= potential p s.
Proof.
  induction ls as [|l r IH]; intros s s' HI E; cbn [run] in E.
  - inversion E; subst. cbn. lia.
  - destruct (step p s l) as [s1|] eqn:Es; [|discriminate].
    pose proof (potential_decreases p s l s1 HI Es) as Hd.
    specialize (IH s1 s' (inv_step p s l s1 HI Es) E). cbn [length]. lia.
Qed.

Corollary every_schedule_is_short p ls s :
  run p (init p) ls = Some s -> length ls <= 7 * p_blocks p + 4 * p_workers p + 9.
Proof.
  intros E. pose proof (run_length_bounded p ls (init p) s (inv_init p) E) as H.
  set (ps := potential p s) in H. unfold potential, init in H. cbn [s_f s_next s_encq s_w s_hashq s_m f_cost m_cost length] in H.
  assert (Hz : forall k, list_sum (map w_cost (repeat WRecv k)) = 0).
  { clear. induction k as [|k IHk]; [reflexivity|]. cbn [repeat map]. unfold list_sum in *. cbn [fold_right w_cost]. exact IHk. }
  rewrite Hz in H. lia.
Qed.

(* at the final state nothing is left running: feeder done, every worker and the hashing thread exited *)
Theorem final_no_thread_left p ls s :
  run p (init p) ls = Some s -> final s = true ->
  (exists failed, s_f s = FDone failed) /\ forallb is_exit (s_w s) = true /\ s_h s = HExit.
Proof.
  intros E Hf. pose proof (inv_run p ls (init p) s (inv_init p) E) as HI.
  destruct HI as [_ _ _ _ _ _ _ _ _ _ (H1 & H2 & H3) _].
  unfold final in Hf. destruct (s_m s) eqn:Em; try discriminate.
  split; [apply H1; discriminate|]. split; [apply H3; reflexivity | apply H2; right; reflexivity].
Qed.

(* ---------------- C06: no reachable state is stuck ---------------- *)
Definition cnone {A} (l : list (option A)) : nat := length (filter (fun o => match o with None => true | Some _ => false end) l).
Definition cexit (w : list wpc) : nat := length (filter is_exit w).
Definition sent_of (p : plan) (f : fpc) : nat := match f with FStop sent _ => sent | FDone _ => p_workers p | _ => 0 end.
Definition eoi (f : fpc) : nat := match f with FStop _ false | FDone false => 1 | _ => 0 end.
Definition stopped (m : mpc) : nat := match m with MJoinHash | MJoinWorkers | MFinal => 1 | _ => 0 end.
Definition hexit (h : hpc) : nat := match h with HExit => 1 | HRecv => 0 end.

Record Inv2 (p : plan) (s : pstate) : Prop := mkInv2 {
  J_cons : feeding (s_f s) = true -> length (owners s) = nbuf p;
  J_tok : cexit (s_w s) + cnone (s_encq s) = sent_of p (s_f s) /\ sent_of p (s_f s) <= p_workers p;
  J_done : (exists fl, s_f s = FDone fl) -> s_m s <> MFeeding;
  J_hash : cnone (s_hashq s) + hexit (s_h s) = eoi (s_f s) + stopped (s_m s)
}.

Lemma cnone_app {A} (a b : list (option A)) : cnone (a ++ b) = cnone a + cnone b.
Proof. unfold cnone. rewrite filter_app, app_length. reflexivity. Qed.

Lemma cnone_cons_Some {A} (b : A) r : cnone (Some b :: r) = cnone r.
Proof. reflexivity. Qed.
Lemma cnone_cons_None {A} (r : list (option A)) : cnone (None :: r) = S (cnone r).
Proof. reflexivity. Qed.
Lemma cnone_nil {A} : cnone (@nil (option A)) = 0.
Proof. reflexivity. Qed.

Lemma cexit_set_nth : forall (l : list wpc) i old new,
  nth_error l i = Some old -> cexit (set_nth l i new) + (if is_exit old then 1 else 0) = cexit l + (if is_exit new then 1 else 0).
Proof.
  unfold cexit. induction l as [|y t IH]; intros i old new H; [destruct i; discriminate|].
  destruct i; cbn [nth_error] in H; cbn [set_nth filter].
  - inversion H; subst. destruct (is_exit old), (is_exit new); cbn [length]; lia.
  - specialize (IH i old new H). destruct (is_exit y); cbn [length]; lia.
Qed.

Lemma cexit_repeat_WRecv k : cexit (repeat WRecv k) = 0.
Proof. unfold cexit. induction k as [|k IH]; cbn; [reflexivity | exact IH]. Qed.

Theorem inv2_init p : Inv2 p (init p).
Proof.
  unfold init. constructor; cbn [s_w s_f s_next s_refill s_encq s_bufs s_results s_failed s_hashq s_hashed s_h s_m].
  - intros _. unfold owners. cbn [s_w s_f s_refill s_encq somes flat_map fbuf app].
    rewrite (flat_map_repeat_nil wbuf WRecv) by reflexivity. rewrite app_nil_r. apply seq_length.
  - rewrite cexit_repeat_WRecv. cbn. split; lia.
  - intros [fl H]. discriminate.
  - reflexivity.
Qed.

Lemma len_flat_set_nth (f : wpc -> list nat) (l : list wpc) i old new :
  nth_error l i = Some old -> length (flat_map f (set_nth l i new)) + length (f old) = length (flat_map f l) + length (f new).
Proof.
  intros H. destruct (flat_map_set_nth f l i old new H) as (pre & post & E1 & E2). rewrite E1, E2, !app_length. lia.
Qed.

Ltac norm2 := unfold owners, upd_f, upd_w in *; cbn [s_f s_next s_refill s_encq s_bufs s_w s_results s_failed s_hashq s_hashed s_h s_m] in *.

Theorem inv2_step p s l s' : Inv2 p s -> step p s l = Some s' -> Inv2 p s'.
Proof.
  intros [Jc [Jt1 Jt2] Jd Jh] E. destruct s as [f nx refill encq bufs w results failedl hashq hashed h m]. norm2.
  destruct l; cbn [step s_f s_refill s_encq s_w s_bufs s_h s_hashq s_m s_next] in E.
  - (* LFRecv *) destruct f; try discriminate. destruct refill as [|b r]; [discriminate|]. inversion E; subst s'. constructor; norm2.
    + intros _. specialize (Jc eq_refl). rewrite !app_length in *. cbn [fbuf length] in *. lia.
    + split; assumption.
    + intros [fl H]. discriminate.
    + exact Jh.
  - (* LFRead *) destruct f as [|b| | |]; try discriminate. unfold read_fails in E. cbn [s_next s_hashq] in E.
    destruct (match p_read_fail p with Some k => Nat.eqb k nx | None => false end).
    + inversion E; subst s'. constructor; norm2; [discriminate | cbn [sent_of] in *; split; lia | intros [fl H]; discriminate | exact Jh].
    + destruct (Nat.ltb (length hashq) HASH_CAP); [|discriminate].
      destruct (Nat.ltb nx (p_blocks p)); inversion E; subst s'; constructor; norm2.
      * intros _. specialize (Jc eq_refl). rewrite !app_length in *. cbn [fbuf length] in *. lia.
      * split; assumption.
      * intros [fl H]. discriminate.
      * rewrite cnone_app. rewrite ?cnone_cons_Some, ?cnone_cons_None, ?cnone_nil in *. cbn [eoi] in *. lia.
      * discriminate.
      * cbn [sent_of] in *. split; lia.
      * intros [fl H]. discriminate.
      * rewrite cnone_app. rewrite ?cnone_cons_Some, ?cnone_cons_None, ?cnone_nil in *. cbn [eoi] in *. lia.
  - (* LFSend *) destruct f as [| |b| |]; try discriminate. destruct (Nat.ltb (length encq) (qcap p)); [|discriminate].
    inversion E; subst s'. constructor; norm2.
    + intros _. specialize (Jc eq_refl). rewrite somes_app, !app_length in *. cbn [somes flat_map fbuf length app] in *. lia.
    + rewrite cnone_app. rewrite ?cnone_cons_Some, ?cnone_cons_None, ?cnone_nil in *. cbn [sent_of] in *. split; lia.
    + intros [fl H]. discriminate.
    + exact Jh.
  - (* LFStop *) destruct f as [| | |sent fl|]; try discriminate. destruct (Nat.ltb sent (p_workers p)) eqn:Es; [|discriminate].
    destruct (Nat.ltb (length encq) (qcap p)); [|discriminate]. inversion E; subst s'. apply Nat.ltb_lt in Es. constructor; norm2.
    + discriminate.
    + rewrite cnone_app. rewrite ?cnone_cons_Some, ?cnone_cons_None, ?cnone_nil in *. cbn [sent_of] in *. split; lia.
    + intros [fl' H]. discriminate.
    + exact Jh.
  - (* LFDone *) destruct f as [| | |sent fl|]; try discriminate. destruct m; try discriminate.
    destruct (Nat.eqb sent (p_workers p)) eqn:Es; [|discriminate]. apply Nat.eqb_eq in Es. inversion E; subst s'. constructor; norm2.
    + discriminate.
    + cbn [sent_of] in *. split; lia.
    + intros _. discriminate.
    + destruct fl; exact Jh.
  - (* LWRecv *) destruct (nth_error w w0) as [[| | |]|] eqn:Ei; try discriminate.
    destruct encq as [|[b|] r]; try discriminate; inversion E; subst s'; constructor; norm2.
    + intros Hf. specialize (Jc Hf). pose proof (len_flat_set_nth wbuf w w0 WRecv (WEnc b) Ei) as Hl.
      rewrite somes_cons_Some in Jc. rewrite !app_length in *. cbn [wbuf length] in *. lia.
    + pose proof (cexit_set_nth w w0 WRecv (WEnc b) Ei) as Hc. cbn [is_exit] in Hc. rewrite ?cnone_cons_Some, ?cnone_cons_None, ?cnone_nil in *. split; lia.
    + exact Jd.
    + exact Jh.
    + intros Hf. specialize (Jc Hf). pose proof (len_flat_set_nth wbuf w w0 WRecv WExit Ei) as Hl.
      rewrite somes_cons_None in Jc. rewrite !app_length in *. cbn [wbuf length] in *. lia.
    + pose proof (cexit_set_nth w w0 WRecv WExit Ei) as Hc. cbn [is_exit] in Hc. rewrite ?cnone_cons_Some, ?cnone_cons_None, ?cnone_nil in *. split; lia.
    + exact Jd.
    + exact Jh.
  - (* LWEnc *) destruct (nth_error w w0) as [[|b| |]|] eqn:Ei; try discriminate.
    destruct (nth_error bufs b) as [[n|]|]; try discriminate.
    destruct (p_invalid p n); inversion E; subst s'; constructor; norm2.
    + intros Hf. specialize (Jc Hf). pose proof (len_flat_set_nth wbuf w w0 (WEnc b) WRecv Ei) as Hl.
      rewrite !app_length in *. cbn [wbuf length] in *. lia.
    + pose proof (cexit_set_nth w w0 (WEnc b) WRecv Ei) as Hc. cbn [is_exit] in Hc. split; lia.
    + exact Jd.
    + exact Jh.
    + intros Hf. specialize (Jc Hf). pose proof (len_flat_set_nth wbuf w w0 (WEnc b) (WPush n) Ei) as Hl.
      rewrite !app_length in *. cbn [wbuf length] in *. lia.
    + pose proof (cexit_set_nth w w0 (WEnc b) (WPush n) Ei) as Hc. cbn [is_exit] in Hc. split; lia.
    + exact Jd.
    + exact Jh.
  - (* LWPush *) destruct (nth_error w w0) as [[| |n|]|] eqn:Ei; try discriminate. inversion E; subst s'. constructor; norm2.
    + intros Hf. specialize (Jc Hf). pose proof (len_flat_set_nth wbuf w w0 (WPush n) WRecv Ei) as Hl.
      rewrite !app_length in *. cbn [wbuf length] in *. lia.
    + pose proof (cexit_set_nth w w0 (WPush n) WRecv Ei) as Hc. cbn [is_exit] in Hc. split; lia.
    + exact Jd.
    + exact Jh.
  - (* LHRecv *) destruct h; [|discriminate]. destruct hashq as [|[j|] r]; try discriminate; inversion E; subst s'; constructor; norm2;
      try assumption; try (split; assumption); rewrite ?cnone_cons_Some, ?cnone_cons_None, ?cnone_nil in *; cbn [hexit] in *; lia.
  - (* LMStopHash *) destruct m; try discriminate. destruct (Nat.ltb (length hashq) HASH_CAP); [|discriminate]. inversion E; subst s'.
    constructor; norm2; try assumption; try (split; assumption).
    + intros _. discriminate.
    + rewrite cnone_app. rewrite ?cnone_cons_Some, ?cnone_cons_None, ?cnone_nil in *. cbn [stopped] in *. lia.
  - (* LMJoinHash *) destruct m; try discriminate. destruct h; try discriminate. inversion E; subst s'.
    constructor; norm2; try assumption; try (split; assumption). intros _. discriminate.
  - (* LMJoinWorkers *) destruct m; try discriminate. destruct (forallb _ w); [|discriminate]. inversion E; subst s'.
    constructor; norm2; try assumption; try (split; assumption). intros _. discriminate.
Qed.

(* ---- enabledness of the worker steps ---- *)
Definition busy (x : wpc) : bool := match x with WEnc _ | WPush _ => true | _ => false end.

Lemma workers_classify : forall w : list wpc,
  (exists i x, nth_error w i = Some x /\ busy x = true) \/ Forall (fun x => x = WRecv \/ x = WExit) w.
Proof.
  induction w as [|y t IH]; [right; constructor|].
  destruct IH as [(i & x & Hi & Hb)|Hall].
  - left. exists (S i), x. split; assumption.
  - destruct y.
    + right. constructor; [left; reflexivity | exact Hall].
    + left. exists 0, (WEnc b). split; reflexivity.
    + left. exists 0, (WPush n). split; reflexivity.
    + right. constructor; [right; reflexivity | exact Hall].
Qed.

Lemma idle_has_recv : forall w : list wpc,
  Forall (fun x => x = WRecv \/ x = WExit) w -> cexit w < length w -> exists i, nth_error w i = Some WRecv.
Proof.
  unfold cexit. induction w as [|y t IH]; intros Hall Hlt; [cbn in Hlt; lia|].
  inversion Hall as [|? ? Hy Ht]; subst. destruct Hy as [->| ->].
  - exists 0. reflexivity.
  - cbn [filter is_exit length] in Hlt. destruct (IH Ht ltac:(lia)) as [i Hi]. exists (S i). exact Hi.
Qed.

Lemma busy_enabled p s i x :
  Inv p s -> nth_error (s_w s) i = Some x -> busy x = true -> exists l s', step p s l = Some s'.
Proof.
  intros HI Hi Hb. destruct x as [|b|n|]; try discriminate.
  - destruct (I_live p s HI b) as (n & Hn & _).
    { unfold live_bufs. rewrite !in_app_iff. right. left.
      destruct (flat_map_set_nth wbuf (s_w s) i (WEnc b) WRecv Hi) as (pre & post & E1 & _). rewrite E1, !in_app_iff. cbn. tauto. }
    exists (LWEnc i). cbn [step]. rewrite Hi, Hn. destruct (p_invalid p n); eexists; reflexivity.
  - exists (LWPush i). cbn [step]. rewrite Hi. eexists. reflexivity.
Qed.

Lemma recv_enabled p s i : nth_error (s_w s) i = Some WRecv -> s_encq s <> [] -> exists l s', step p s l = Some s'.
Proof.
  intros Hi Hq. exists (LWRecv i). cbn [step]. rewrite Hi. destruct (s_encq s) as [|[b|] r]; [contradiction | |]; eexists; reflexivity.
Qed.

Lemma owners_le_nbuf p s : Inv p s -> length (owners s) <= nbuf p.
Proof.
  intros HI. pose proof (I_own p s HI) as Hnd. destruct (I_bnd p s HI) as [_ Hb].
  rewrite <- (seq_length (nbuf p) 0). apply NoDup_incl_length; [exact Hnd|].
  intros x Hx. apply in_seq. specialize (Hb x Hx). lia.
Qed.

Lemma cnone_pos_nonempty {A} (l : list (option A)) : 1 <= cnone l -> l <> [].
Proof. intros H E. subst l. cbn in H. lia. Qed.

Lemma somes_length_le {A} (l : list (option A)) : length (somes l) + cnone l = length l.
Proof.
  induction l as [|[x|] t IH]; [reflexivity| |].
  - rewrite somes_cons_Some, cnone_cons_Some. cbn [length]. lia.
  - rewrite somes_cons_None, cnone_cons_None. cbn [length]. lia.
Qed.

Lemma filter_len_le {A} (f : A -> bool) (l : list A) : length (filter f l) <= length l.
Proof. induction l as [|x t IH]; [reflexivity|]. cbn [filter]. destruct (f x); cbn [length]; lia. Qed.

Lemma all_exit_of_count (w : list wpc) :
  length w <= cexit w -> forallb (fun w0 => match w0 with WExit => true | _ => false end) w = true.
Proof.
  unfold cexit. induction w as [|x t IH]; intros H; [reflexivity|].
  cbn [filter length forallb] in *. pose proof (filter_len_le is_exit t) as Hle.
  destruct x; cbn [is_exit length] in H; try lia. apply IH. lia.
Qed.

(* C06: a reachable state that is not final always has an enabled step *)
Theorem progress p s :
  1 <= p_workers p -> Inv p s -> Inv2 p s -> final s = false -> exists l s', step p s l = Some s'.
Proof.
  intros HW HI [Jc [Jt1 Jt2] Jd Jh] Hnf.
  pose proof (workers_classify (s_w s)) as Hcls.
  pose proof (I_w p s HI) as Hlen.
  (* a worker in the middle of a frame can always go on *)
  destruct Hcls as [(i & x & Hi & Hb)|Hidle]; [exact (busy_enabled p s i x HI Hi Hb)|].
  assert (Hrecv : cexit (s_w s) < p_workers p -> s_encq s <> [] -> exists l s', step p s l = Some s').
  { intros Hc Hq. destruct (idle_has_recv (s_w s) Hidle ltac:(lia)) as [i Hi]. exact (recv_enabled p s i Hi Hq). }
  assert (Hwbufs : flat_map wbuf (s_w s) = []).
  { clear -Hidle. induction Hidle as [|x t Hx Ht IH]; [reflexivity|]. destruct Hx as [->| ->]; cbn [flat_map wbuf app]; exact IH. }
  destruct (I_encq p s HI) as (bs & t & Eqq & Hfeed & _).
  destruct (I_hash p s HI) as (xs & k & Eqh & _ & Hhfeed & Hhx).
  destruct (I_ctl p s HI) as (Hc1 & Hc2 & Hc3).
  destruct s as [f nx refill encq bufs w results failedl hashq hashed h m].
  unfold owners in *. cbn [s_f s_next s_refill s_encq s_bufs s_w s_results s_failed s_hashq s_hashed s_h s_m final] in *.
  destruct m; try discriminate.
  - (* the caller is still feeding *)
    destruct f as [|b|b|sent fl|fl].
    + (* waiting for a buffer *)
      destruct refill as [|b r].
      * destruct (Hfeed eq_refl) as [-> Hnoexit]. specialize (Jc eq_refl). cbn [repeat fbuf] in *. rewrite app_nil_r in Eqq.
        rewrite Hwbufs in Jc. cbn [app length] in Jc. rewrite app_nil_r in Jc.
        assert (Hex0 : cexit w = 0).
        { clear -Hnoexit. unfold cexit. induction w as [|x t IH]; [reflexivity|]. cbn [forallb] in Hnoexit. apply Bool.andb_true_iff in Hnoexit.
          destruct Hnoexit as [H1 H2]. cbn [filter]. destruct (is_exit x); [discriminate|]. apply IH. exact H2. }
        apply Hrecv; [lia|]. intros ->. cbn in Jc. unfold nbuf in Jc. change (N.to_nat c_PAR_FRAMEBUF_MULTIPLICITY) with 2 in Jc. lia.
      * exists LFRecv. eexists. reflexivity.
    + (* about to read *)
      cbn [step s_f]. unfold read_fails. cbn [s_next s_hashq].
      destruct (match p_read_fail p with Some k0 => Nat.eqb k0 nx | None => false end) eqn:Erf.
      * exists LFRead. cbn [step s_f]. unfold read_fails. cbn [s_next]. rewrite Erf. eexists. reflexivity.
      * destruct (Nat.ltb (length hashq) HASH_CAP) eqn:Ecap.
        -- exists LFRead. cbn [step s_f]. unfold read_fails. cbn [s_next s_hashq]. rewrite Erf, Ecap. destruct (Nat.ltb nx (p_blocks p)); eexists; reflexivity.
        -- destruct (Hhfeed eq_refl) as [_ ->]. exists LHRecv. cbn [step s_h s_hashq].
           destruct hashq as [|[j|] r]; [cbn in Ecap; discriminate | |]; eexists; reflexivity.
    + (* about to enqueue: the encode queue cannot be full *)
      exists LFSend. cbn [step s_f s_encq].
      destruct (Hfeed eq_refl) as [-> _]. cbn [repeat] in Eqq. rewrite app_nil_r in Eqq.
      pose proof (owners_le_nbuf p _ HI) as Hle. unfold owners in Hle. cbn [s_refill s_encq s_f s_w fbuf] in Hle.
      rewrite !app_length in Hle. cbn [length] in Hle.
      assert (Hq : length encq = length (somes encq)) by (rewrite Eqq, somes_map_Some, map_length; reflexivity).
      assert (Hlt : Nat.ltb (length encq) (qcap p) = true) by (apply Nat.ltb_lt; unfold qcap; lia).
      rewrite Hlt. eexists. reflexivity.
    + (* sending the stop tokens *)
      cbn [sent_of] in *.
      destruct (Nat.eq_dec sent (p_workers p)) as [->|Hne].
      * exists LFDone. cbn [step s_f s_m]. rewrite Nat.eqb_refl. eexists. reflexivity.
      * destruct (Nat.ltb (length encq) (qcap p)) eqn:Ecap.
        -- exists LFStop. cbn [step s_f s_encq]. assert (Hs : Nat.ltb sent (p_workers p) = true) by (apply Nat.ltb_lt; lia).
           rewrite Hs, Ecap. eexists. reflexivity.
        -- apply Hrecv; [lia|]. intros ->. cbn in Ecap. discriminate.
    + exfalso. apply Jd; [exists fl; reflexivity | reflexivity].
  - (* about to stop the hashing thread *)
    destruct (Nat.ltb (length hashq) HASH_CAP) eqn:Ecap.
    + exists LMStopHash. cbn [step s_m s_hashq]. rewrite Ecap. eexists. reflexivity.
    + destruct h.
      * exists LHRecv. cbn [step s_h s_hashq]. destruct hashq as [|[j|] r]; [cbn in Ecap; discriminate | |]; eexists; reflexivity.
      * specialize (Hhx eq_refl). subst xs. cbn [map app] in Eqh. subst hashq.
        assert (Hk : cnone (repeat (@None nat) k) = k).
        { clear. induction k as [|k IH]; [reflexivity|]. cbn [repeat]. rewrite cnone_cons_None, IH. reflexivity. }
        rewrite Hk in Jh. cbn [hexit stopped] in Jh. rewrite repeat_length in Ecap.
        assert (k <= 1) by (destruct f as [| | |? []|[]]; cbn [eoi] in Jh; lia).
        apply Nat.ltb_ge in Ecap. unfold HASH_CAP in Ecap. lia.
  - (* waiting for the hashing thread *)
    destruct h.
    + exists LHRecv. cbn [step s_h s_hashq]. cbn [hexit stopped] in Jh.
      assert (Hq : hashq <> []) by (apply cnone_pos_nonempty; lia).
      destruct hashq as [|[j|] r]; [contradiction | |]; eexists; reflexivity.
    + exists LMJoinHash. eexists. reflexivity.
  - (* waiting for the workers *)
    destruct (forallb (fun w0 => match w0 with WExit => true | _ => false end) w) eqn:Eall.
    + exists LMJoinWorkers. cbn [step s_m s_w]. rewrite Eall. eexists. reflexivity.
    + destruct (Hc1 ltac:(discriminate)) as [fl ->]. cbn [sent_of] in *.
      assert (Hlt : cexit w < p_workers p).
      { destruct (Nat.lt_ge_cases (cexit w) (p_workers p)) as [H|H]; [exact H|]. exfalso.
        assert (Hall : forallb (fun w0 => match w0 with WExit => true | _ => false end) w = true) by (apply all_exit_of_count; lia).
        rewrite Hall in Eall. discriminate. }
      apply Hrecv; [exact Hlt|]. apply cnone_pos_nonempty. lia.
Qed.

Theorem inv2_run p : forall ls s s', Inv2 p s -> run p s ls = Some s' -> Inv2 p s'.
Proof.
  induction ls as [|l r IH]; intros s s' HI E; cbn [run] in E.
  - inversion E; subst. exact HI.
  - destruct (step p s l) as [s1|] eqn:Es; [|discriminate]. eapply IH; [eapply inv2_step; eassumption | exact E].
Qed.

(* C06, general: no reachable state of the protocol is stuck before the final state *)
Theorem deadlock_free p ls s :
  1 <= p_workers p -> run p (init p) ls = Some s -> final s = false -> exists l s', step p s l = Some s'.
Proof.
  intros HW E Hf. apply progress; [exact HW | eapply inv_run; [apply inv_init | exact E] | eapply inv2_run; [apply inv2_init | exact E] | exact Hf].
Qed.

Lemma run_app p : forall a b s s1 s2, run p s a = Some s1 -> run p s1 b = Some s2 -> run p s (a ++ b) = Some s2.
Proof.
  induction a as [|l r IH]; intros b s s1 s2 Ha Hb; cbn [run app] in *.
  - inversion Ha; subst. exact Hb.
  - destruct (step p s l) as [s'|]; [|discriminate]. eapply IH; eassumption.
Qed.

(* ... and, since every step decreases the potential, every run can be continued to the final state, where the
   result is the single-threaded one: however the threads are scheduled, the call completes with that result *)
Theorem always_completes p : 1 <= p_workers p -> forall n s, Inv p s -> Inv2 p s -> potential p s <= n ->
  exists ls s', run p s ls = Some s' /\ final s' = true.
Proof.
  intros HW. induction n as [|n IH]; intros s HI HJ Hpot.
  - destruct (final s) eqn:Hf; [exists [], s; split; [reflexivity | exact Hf]|].
    destruct (progress p s HW HI HJ Hf) as (l & s1 & Es). pose proof (potential_decreases p s l s1 HI Es). lia.
  - destruct (final s) eqn:Hf; [exists [], s; split; [reflexivity | exact Hf]|].
    destruct (progress p s HW HI HJ Hf) as (l & s1 & Es). pose proof (potential_decreases p s l s1 HI Es) as Hd.
    destruct (IH s1 (inv_step p s l s1 HI Es) (inv2_step p s l s1 HJ Es) ltac:(lia)) as (ls & s' & Er & Hfin).
    exists (l :: ls), s'. split; [cbn [run]; rewrite Es; exact Er | exact Hfin].
Qed.

Corollary reachable_completes p ls s :
  1 <= p_workers p -> run p (init p) ls = Some s ->
  exists ls' s', run p (init p) (ls ++ ls') = Some s' /\ final s' = true /\ result_of s' = seq_result p.
Proof.
  intros HW E.
  pose proof (inv_run p ls (init p) s (inv_init p) E) as HI. pose proof (inv2_run p ls (init p) s (inv2_init p) E) as HJ.
  destruct (always_completes p HW (potential p s) s HI HJ (le_n _)) as (ls' & s' & Er & Hf).
  exists ls', s'. pose proof (run_app p ls ls' (init p) s s' E Er) as Hrun.
  split; [exact Hrun|]. split; [exact Hf|]. eapply par_refines_seq; eassumption.
Qed.
