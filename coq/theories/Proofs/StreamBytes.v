(* The bytes of a whole stream: 42 header bytes followed by the bytes of each frame. *)
From FV Require Import Generated Model.Base Model.Sink Model.Crc Model.Codes Model.Rice Model.Predict
  Model.Component Model.Flac
  Proofs.SinkArith Proofs.SinkRefine Proofs.OpsLen Proofs.CrcP Proofs.CountBits
  Proofs.BitRead Proofs.BitWrite Proofs.DecodeFrame.
Local Open Scope N_scope.

(* operations only look at the position modulo 8 *)
Lemma pad8_congr a b : a mod 8 = b mod 8 -> pad8 a = pad8 b.
Proof. intros H. unfold pad8. rewrite H. reflexivity. Qed.

Lemma op_congr cur cur' o : cur mod 8 = cur' mod 8 ->
  op_bitlist cur o = op_bitlist cur' o /\ op_len cur o = op_len cur' o /\ (cur + op_len cur o) mod 8 = (cur' + op_len cur' o) mod 8.
Proof.
  intros H. destruct o as [w v|w v n|w v n|v n|n| |bs]; cbn [op_bitlist op_len]; rewrite ?(pad8_congr _ _ H);
    (split; [reflexivity|]; split; [reflexivity|]).
  all: rewrite (N.add_mod cur), (N.add_mod cur') by lia; rewrite H; reflexivity.
Qed.

Lemma ops_congr : forall ops cur cur', cur mod 8 = cur' mod 8 ->
  ops_bitlist cur ops = ops_bitlist cur' ops /\ ops_len cur ops = ops_len cur' ops.
Proof.
  induction ops as [|o r IH]; intros cur cur' H; [split; reflexivity|].
  destruct (op_congr cur cur' o H) as (A & B & C).
  destruct (IH _ _ C) as [D E]. cbn [ops_bitlist ops_len]. rewrite D, E, A, B. split; reflexivity.
Qed.

(* byte-aligned concatenation: the byte sink's export of a ++ b is the export of a followed by that of b *)
Theorem pack_app_aligned a b ba bb :
  forallb wf_op a = true -> forallb wf_op b = true -> ops_len 0 a mod 8 = 0 ->
  pack KU8 a = Ok ba -> pack KU8 b = Ok bb ->
  pack KU8 (a ++ b) = Ok (ba ++ bb).
Proof.
  intros Ha Hb Hal Ea Eb.
  assert (Hab : forallb wf_op (a ++ b) = true) by (rewrite forallb_app, Ha, Hb; reflexivity).
  destruct (sink_len_is_ops_bits KU8 (a ++ b) Hab) as (s & Es & _).
  assert (Ep : pack KU8 (a ++ b) = Ok (export_bytes KU8 s)) by (unfold pack; rewrite Es; reflexivity).
  destruct (pack_u8_bits _ _ Hab Ep) as [H256 Hbits].
  destruct (pack_u8_bits _ _ Ha Ea) as [Ha256 Habits].
  destruct (pack_u8_bits _ _ Hb Eb) as [Hb256 Hbbits].
  rewrite Ep. f_equal. apply bytes_bits_inj; [exact H256 | apply Forall_app; split; assumption|].
  rewrite Hbits, bytes_bits_app, Habits, Hbbits.
  rewrite ops_bitlist_app, ops_len_app.
  assert (Hpa : pad8 (ops_len 0 a) = 0) by (apply pad8_of_mult; exact Hal). rewrite Hpa. cbn [N.to_nat repeat]. rewrite app_nil_r.
  destruct (ops_congr b (0 + ops_len 0 a) 0 ltac:(rewrite N.add_0_l, Hal; reflexivity)) as [Eb1 Eb2].
  rewrite Eb1, Eb2, <- app_assoc. f_equal. f_equal.
  f_equal. f_equal. apply pad8_congr. rewrite N.add_mod by lia. rewrite Hal, N.add_0_l, N.mod_mod by lia. reflexivity.
Qed.
