(* Link between PrcParameterFinder::find (Rice.find_prc) and the abstract search of RiceOpt.v,
   and the arithmetic facts about the finest partition order. *)
From FV Require Import Generated Model.Base Model.Rice Proofs.SinkArith Proofs.RiceOpt.
Local Open Scope N_scope.

(* the finest partitions of the folded error signal: 2^order slices of n / 2^order values, the
   first one without its warm-up samples *)
Definition finest_parts (errs : list Z) (warmup order : N) : list (list N) :=
  let n := N.of_nat (length errs) in
  let nparts := 2 ^ order in
  let part := n / nparts in
  let folded := map zigzag errs in
  match chunks (N.to_nat part) (firstn (N.to_nat (part * nparts)) folded) with
  | p0 :: r => skipn (N.to_nat warmup) p0 :: r
  | [] => []
  end.

Lemma find_prc_unfold errs warmup maxp pr :
  find_prc errs warmup maxp = Ok pr ->
  exists order,
    finest_partition_order (N.of_nat (length errs)) (N.max MIN_PART warmup) = Ok order /\
    pr = run_search (finest_parts errs warmup order) (N.to_nat order) maxp.
Proof.
  unfold find_prc.
  destruct (finest_partition_order (N.of_nat (length errs)) (N.max MIN_PART warmup)) as [order| |] eqn:Eo;
    cbn [bind]; try discriminate.
  intros E. exists order. split; [reflexivity|].
  unfold run_search, finest_parts. fold T.
  change (map table_from_errors) with (map T) in E.
  destruct (eval_partitions _ maxp) as [ps bits]. rewrite N2Nat.id.
  inversion E. reflexivity.
Qed.

(* ---- trailing zeros ---- *)

Lemma tz_divides fuel : forall n, n mod 2 ^ (tz fuel n) = 0.
Proof.
  induction fuel as [|f IH]; intros n; cbn [tz].
  - apply N.mod_1_r.
  - destruct ((n =? 0) || N.odd n) eqn:E; [apply N.mod_1_r|].
    apply Bool.orb_false_iff in E. destruct E as [E0 Eodd].
    rewrite N.add_comm, N.pow_add_r. change (2 ^ 1) with 2.
    specialize (IH (n / 2)).
    assert (Hev : n = 2 * (n / 2)).
    { assert (He : N.Even n) by (apply N.even_spec; rewrite <- N.negb_odd, Eodd; reflexivity).
      destruct He as [m Hm]. assert (Hd : n / 2 = m) by (rewrite Hm, N.mul_comm; apply N.div_mul; lia). lia. }
    rewrite Hev at 1. rewrite N.mul_comm.
    rewrite N.mul_mod_distr_r; [| apply pow2_nz | lia]. rewrite IH. reflexivity.
Qed.

(* ---- the finest partition order ---- *)

Lemma finest_order_facts n m o :
  finest_partition_order n m = Ok o ->
  m <> 0 /\ o <= MAX_PORDER /\ n mod 2 ^ o = 0 /\ m * 2 ^ o <= n /\ m <= n / 2 ^ o.
Proof.
  unfold finest_partition_order.
  destruct (N.eqb_spec m 0) as [?|Hm]; [discriminate|].
  destruct (N.eqb_spec (n / m) 0) as [?|Hs]; [discriminate|].
  intros E. apply (f_equal (fun r => match r with Ok x => x | _ => 0 end)) in E. cbn in E. subst o.
  set (o := N.min MAX_PORDER (N.min (N.log2 (n / m)) (tz 64 n))).
  assert (Ho1 : o <= MAX_PORDER) by (unfold o; lia).
  assert (Ho2 : o <= N.log2 (n / m)) by (unfold o; lia).
  assert (Ho3 : o <= tz 64 n) by (unfold o; lia).
  assert (Hdiv : n mod 2 ^ o = 0).
  { pose proof (tz_divides 64 n) as Ht.
    assert (E : 2 ^ tz 64 n = 2 ^ (tz 64 n - o) * 2 ^ o) by (apply pow2_split; assumption).
    pose proof (N.div_mod n (2 ^ tz 64 n) (pow2_nz _)) as Hd. rewrite Ht, N.add_0_r in Hd.
    set (K := n / 2 ^ tz 64 n) in *. rewrite E in Hd.
    rewrite Hd. replace (2 ^ (tz 64 n - o) * 2 ^ o * K) with ((2 ^ (tz 64 n - o) * K) * 2 ^ o) by ring.
    apply N.mod_mul, pow2_nz. }
  assert (Hle : 2 ^ o <= n / m).
  { eapply N.le_trans; [apply pow2_le; exact Ho2|].
    set (q := n / m) in *. assert (Hq : 0 < q) by (destruct q; [contradiction | reflexivity]).
    destruct (N.log2_spec q Hq) as [H _]. exact H. }
  assert (Hmul : m * 2 ^ o <= n).
  { pose proof (N.mul_div_le n m Hm) as Hmd. set (q := n / m) in *. set (P := 2 ^ o) in *. clearbody q P. nia. }
  repeat split; try assumption.
  apply N.div_le_lower_bound; [apply pow2_nz | rewrite N.mul_comm; exact Hmul].
Qed.

(* C13 at the level of the finder: the returned order/parameters minimise the exact coded size
   over every partition order 0..=finest and every parameter vector within the configured
   maximum, whenever some candidate is below the saturation bound; and then the reported
   bit count is exact. *)
Theorem find_prc_optimal errs warmup maxp pr :
  find_prc errs warmup maxp = Ok pr ->
  exists order,
    finest_partition_order (N.of_nat (length errs)) (N.max MIN_PART warmup) = Ok order /\
    let parts := finest_parts errs warmup order in
    exists j, (j <= N.to_nat order)%nat /\ prc_order pr = N.of_nat (N.to_nat order - j) /\
      candidate parts maxp j (prc_ps pr) /\
      prc_bits pr = level_cost scost (coarsen j parts) (prc_ps pr) /\
      (forall j' qs, (j' <= N.to_nat order)%nat -> candidate parts maxp j' qs ->
         exact_level parts j' qs < SAT ->
         prc_bits pr = exact_level parts j (prc_ps pr) /\
         exact_level parts j (prc_ps pr) <= exact_level parts j' qs).
Proof.
  intros E. destruct (find_prc_unfold _ _ _ _ E) as (order & Ho & Hpr).
  exists order. split; [exact Ho|]. cbv zeta. subst pr.
  apply search_optimal.
Qed.

(* non-vacuity: a residual with two very different halves is split and the split is optimal *)
Example find_example :
  match find_prc (repeat 0%Z 64 ++ repeat 1000%Z 64) 0 14 with
  | Ok pr => prc_order pr = 1 /\ prc_ps pr = [0; 10] /\ prc_bits pr = 4 + 64 + 4 + 64 * 11 + 64
  | _ => False
  end.
Proof. vm_compute. repeat split; reflexivity. Qed.
