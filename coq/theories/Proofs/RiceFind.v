(* Link between PrcParameterFinder::find (Rice.find_prc) and the abstract search of RiceOpt.v,
   and the arithmetic facts about the finest partition order. *)
From FV Require Import Generated Model.Base Model.Rice Proofs.SinkArith Proofs.ListAux Proofs.RiceOpt.
Local Open Scope N_scope.

(* the finest partitions of the folded error signal: 2^order slices of n / 2^order values, the
   first one without its warm-up samples *)
Definition finest_parts (errs : list Z) (warmup order : N) : list (list N) :=
  let n := N.of_nat (length errs) in
  let nparts := 2 ^ order in
  let part := n / nparts in
  let folded := map zigzag errs in
  match chunks (N.to_nat part) (firstn (N.to_nat (part * nparts)) folded) with
  | p0 :: r => skipn (N.to_nat warmup) p0 :: r
  | [] => []
  end.

Lemma find_prc_unfold errs warmup maxp pr :
  find_prc errs warmup maxp = Ok pr ->
  exists order,
    finest_partition_order (N.of_nat (length errs)) (N.max MIN_PART warmup) = Ok order /\
    pr = run_search (finest_parts errs warmup order) (N.to_nat order) maxp.
Proof.
  unfold find_prc.
  destruct (finest_partition_order (N.of_nat (length errs)) (N.max MIN_PART warmup)) as [order| |] eqn:Eo;
    cbn [bind]; try discriminate.
  intros E. exists order. split; [reflexivity|].
  unfold run_search, finest_parts. fold T.
  change (map table_from_errors) with (map T) in E.
  destruct (eval_partitions _ maxp) as [ps bits]. rewrite N2Nat.id.
  inversion E. reflexivity.
Qed.

(* ---- trailing zeros ---- *)

Lemma tz_divides fuel : forall n, n mod 2 ^ (tz fuel n) = 0.
Proof.
  induction fuel as [|f IH]; intros n; cbn [tz].
  - apply N.mod_1_r.
  - destruct ((n =? 0) || N.odd n) eqn:E; [apply N.mod_1_r|].
    apply Bool.orb_false_iff in E. destruct E as [E0 Eodd].
    rewrite N.add_comm, N.pow_add_r. change (2 ^ 1) with 2.
    specialize (IH (n / 2)).
    assert (Hev : n = 2 * (n / 2)).
    { assert (He : N.Even n) by (apply N.even_spec; rewrite <- N.negb_odd, Eodd; reflexivity).
      destruct He as [m Hm]. assert (Hd : n / 2 = m) by (rewrite Hm, N.mul_comm; apply N.div_mul; lia). lia. }
    rewrite Hev at 1. rewrite N.mul_comm.
    rewrite N.mul_mod_distr_r; [| apply pow2_nz | lia]. rewrite IH. reflexivity.
Qed.

(* ---- the finest partition order ---- *)

Lemma finest_order_facts n m o :
  finest_partition_order n m = Ok o ->
  m <> 0 /\ o <= MAX_PORDER /\ n mod 2 ^ o = 0 /\ m * 2 ^ o <= n /\ m <= n / 2 ^ o.
Proof.
  unfold finest_partition_order.
  destruct (N.eqb_spec m 0) as [?|Hm]; [discriminate|].
  destruct (N.eqb_spec (n / m) 0) as [?|Hs]; [discriminate|].
  intros E. apply (f_equal (fun r => match r with Ok x => x | _ => 0 end)) in E. cbn in E. subst o.
  set (o := N.min MAX_PORDER (N.min (N.log2 (n / m)) (tz 64 n))).
  assert (Ho1 : o <= MAX_PORDER) by (unfold o; lia).
  assert (Ho2 : o <= N.log2 (n / m)) by (unfold o; lia).
  assert (Ho3 : o <= tz 64 n) by (unfold o; lia).
  assert (Hdiv : n mod 2 ^ o = 0).
  { pose proof (tz_divides 64 n) as Ht.
    assert (E : 2 ^ tz 64 n = 2 ^ (tz 64 n - o) * 2 ^ o) by (apply pow2_split; assumption).
    pose proof (N.div_mod n (2 ^ tz 64 n) (pow2_nz _)) as Hd. rewrite Ht, N.add_0_r in Hd.
    set (K := n / 2 ^ tz 64 n) in *. rewrite E in Hd.
    rewrite Hd. replace (2 ^ (tz 64 n - o) * 2 ^ o * K) with ((2 ^ (tz 64 n - o) * K) * 2 ^ o) by ring.
    apply N.mod_mul, pow2_nz. }
  assert (Hle : 2 ^ o <= n / m).
  { eapply N.le_trans; [apply pow2_le; exact Ho2|].
    set (q := n / m) in *. assert (Hq : 0 < q) by (destruct q; [contradiction | reflexivity]).
    destruct (N.log2_spec q Hq) as [H _]. exact H. }
  assert (Hmul : m * 2 ^ o <= n).
  { pose proof (N.mul_div_le n m Hm) as Hmd. set (q := n / m) in *. set (P := 2 ^ o) in *. clearbody q P. nia. }
  repeat split; try assumption.
  apply N.div_le_lower_bound; [apply pow2_nz | rewrite N.mul_comm; exact Hmul].
Qed.

(* C13 at the level of the finder: the returned order/parameters minimise the exact coded size
   over every partition order 0..=finest and every parameter vector within the configured
   maximum, whenever some candidate is below the saturation bound; and then the reported
   bit count is exact. *)
Theorem find_prc_optimal errs warmup maxp pr :
  find_prc errs warmup maxp = Ok pr ->
  exists order,
    finest_partition_order (N.of_nat (length errs)) (N.max MIN_PART warmup) = Ok order /\
    let parts := finest_parts errs warmup order in
    exists j, (j <= N.to_nat order)%nat /\ prc_order pr = N.of_nat (N.to_nat order - j) /\
      candidate parts maxp j (prc_ps pr) /\
      prc_bits pr = level_cost scost (coarsen j parts) (prc_ps pr) /\
      (forall j' qs, (j' <= N.to_nat order)%nat -> candidate parts maxp j' qs ->
         exact_level parts j' qs < SAT ->
         prc_bits pr = exact_level parts j (prc_ps pr) /\
         exact_level parts j (prc_ps pr) <= exact_level parts j' qs).
Proof.
  intros E. destruct (find_prc_unfold _ _ _ _ E) as (order & Ho & Hpr).
  exists order. split; [exact Ho|]. cbv zeta. subst pr.
  apply search_optimal.
Qed.

(* non-vacuity: a residual with two very different halves is split and the split is optimal *)
Example find_example :
  match find_prc (repeat 0%Z 64 ++ repeat 1000%Z 64) 0 14 with
  | Ok pr => prc_order pr = 1 /\ prc_ps pr = [0; 10] /\ prc_bits pr = 4 + 64 + 4 + 64 * 11 + 64
  | _ => False
  end.
Proof. vm_compute. repeat split; reflexivity. Qed.

(* ---- shape of the partitions and of the finder's answer ---- *)

Lemma concat_pairs_length : forall (k : nat) (l : list (list N)),
  length l = (2 * k)%nat -> length (concat_pairs l) = k.
Proof.
  induction k as [|k IH]; intros l Hl.
  - destruct l; [reflexivity | discriminate].
  - destruct l as [|a [|b r]]; try (cbn in Hl; lia).
    cbn [concat_pairs length]. f_equal. apply IH. cbn [length] in Hl. lia.
Qed.

Lemma coarsen_length : forall (j a : nat) (l : list (list N)),
  (j <= a)%nat -> length l = Nat.pow 2 a -> length (coarsen j l) = Nat.pow 2 (a - j).
Proof.
  induction j as [|j IH]; intros a l Hj Hl; cbn [coarsen].
  - rewrite Nat.sub_0_r. assumption.
  - destruct a as [|a]; [lia|]. cbn [Nat.sub].
    apply IH; [lia|]. apply concat_pairs_length. rewrite Hl. cbn [Nat.pow]. lia.
Qed.

Lemma pow2_N_nat o : N.to_nat (2 ^ o) = Nat.pow 2 (N.to_nat o).
Proof.
  rewrite <- (N2Nat.id o) at 1. generalize (N.to_nat o) as k. intros k.
  induction k as [|k IH]; [reflexivity|].
  rewrite Nat2N.inj_succ, N.pow_succ_r', N2Nat.inj_mul, IH. cbn [Nat.pow]. reflexivity.
Qed.

Lemma finest_parts_length errs warmup order :
  finest_partition_order (N.of_nat (length errs)) (N.max MIN_PART warmup) = Ok order ->
  length (finest_parts errs warmup order) = Nat.pow 2 (N.to_nat order).
Proof.
  intros Ho. destruct (finest_order_facts _ _ _ Ho) as (Hm & Hmax & Hdiv & Hmul & Hpart).
  unfold finest_parts.
  set (n := N.of_nat (length errs)) in *. set (np := 2 ^ order) in *. set (part := n / np) in *.
  assert (Hnp : np <> 0) by apply pow2_nz.
  assert (Hn : n = part * np).
  { pose proof (N.div_mod n np Hnp) as Hd. rewrite Hdiv, N.add_0_r in Hd. unfold part. lia. }
  assert (Hpart0 : 0 < part).
  { assert (0 < N.max MIN_PART warmup) by lia. lia. }
  assert (Hlen : length (firstn (N.to_nat (part * np)) (map zigzag errs)) = (N.to_nat np * N.to_nat part)%nat).
  { rewrite firstn_length, map_length. unfold n in Hn. lia. }
  destruct (chunks_exact (N.to_nat part) (N.to_nat np) _ ltac:(lia) Hlen) as [H1 H2].
  destruct (chunks (N.to_nat part) (firstn (N.to_nat (part * np)) (map zigzag errs))) as [|p0 r] eqn:Ec.
  - cbn [length] in H1. unfold np in H1. rewrite pow2_N_nat in H1. exact H1.
  - cbn [length] in *. unfold np in H1. rewrite pow2_N_nat in H1. exact H1.
Qed.

(* the finder's answer has 2^order' parameters, order' <= finest, the block splits evenly, the
   warm-up fits in one partition, and every parameter is within the configured maximum *)
Theorem find_prc_shape errs warmup maxp pr :
  find_prc errs warmup maxp = Ok pr ->
  let n := N.of_nat (length errs) in
  exists o' : nat,
    prc_order pr = N.of_nat o' /\ length (prc_ps pr) = Nat.pow 2 o' /\
    N.of_nat o' <= MAX_PORDER /\
    n mod 2 ^ N.of_nat o' = 0 /\ N.max MIN_PART warmup <= n / 2 ^ N.of_nat o' /\
    Forall (fun p => p <= maxp /\ p <= 15) (prc_ps pr).
Proof.
  intros E. cbv zeta.
  destruct (find_prc_optimal _ _ _ _ E) as (order & Ho & j & Hj & Hord & Hc & _).
  destruct (finest_order_facts _ _ _ Ho) as (Hm & Hmax & Hdiv & Hmul & Hpart).
  exists (N.to_nat order - j)%nat.
  destruct Hc as [Hc1 Hc2].
  rewrite (coarsen_length j (N.to_nat order) _ Hj (finest_parts_length _ _ _ Ho)) in Hc1.
  set (n := N.of_nat (length errs)) in *.
  set (o' := (N.to_nat order - j)%nat) in *.
  assert (Hle : N.of_nat o' <= order) by lia.
  assert (Hsplit : 2 ^ order = 2 ^ (order - N.of_nat o') * 2 ^ N.of_nat o') by (apply pow2_split; assumption).
  repeat split; try assumption; try lia.
  - (* divisibility by the coarser power *)
    pose proof (N.div_mod n (2 ^ order) (pow2_nz _)) as Hd. rewrite Hdiv, N.add_0_r, Hsplit in Hd.
    set (K := n / 2 ^ order) in *.
    replace n with ((2 ^ (order - N.of_nat o') * K) * 2 ^ N.of_nat o').
    + apply N.mod_mul, pow2_nz.
    + rewrite Hd. unfold K. rewrite Hsplit. ring.
  - (* the coarser partition is at least as long as the finest one *)
    eapply N.le_trans; [exact Hpart|].
    apply N.div_le_compat_l. split; [apply pow2_pos | apply pow2_le; assumption].
Qed.
