(* C16, header level: on EVERY input, a frame header the parser accepts ends with the CRC-8 of the bytes before it.
   The reader invariant of ParserInv.v is extended with the bit position, so that the alignment of the reader at the
   CRC byte can be read off any successful parse (not only parses of written streams). *)
From FV Require Import Generated Model.Base Model.Crc Model.Codes Model.Rice Model.Predict Model.Component Model.Flac Model.Parser
  Proofs.ReaderP Proofs.BitRead Proofs.ParseResidual Proofs.DecodeFrame Proofs.ParseFrame Proofs.ParserInv
  Proofs.CrcGen Proofs.CrcBurst Proofs.CrcField.
Local Open Scope N_scope.

(* p consumes exactly n bits *)
Definition padv {A} (n : N) (p : rd -> option (A * rd)) : Prop :=
  forall r x r', r_off r < 8 -> p r = Some (x, r') -> r_off r' < 8 /\ rd_pos r' = rd_pos r + n.
(* p consumes a whole number of bytes *)
Definition pmul8 {A} (p : rd -> option (A * rd)) : Prop :=
  forall r x r', r_off r < 8 -> p r = Some (x, r') -> r_off r' < 8 /\ exists k, rd_pos r' = rd_pos r + 8 * k.

Lemma padv_read_bit : padv 1 read_bit.
Proof.
  intros r x r' Ho E. unfold read_bit in E. destruct (r_bytes r) as [|b t]; [discriminate|].
  destruct (r_off r =? 7) eqn:E7; inversion E; subst; unfold rd_pos; cbn [r_off r_cnt].
  - apply N.eqb_eq in E7. split; lia.
  - apply N.eqb_neq in E7. split; lia.
Qed.

Lemma padv_read_bits : forall n acc, padv (N.of_nat n) (read_bits n acc).
Proof.
  induction n as [|n IH]; intros acc r x r' Ho E; cbn [read_bits] in E.
  - inversion E; subst. split; [exact Ho | cbn; lia].
  - destruct (read_bit r) as [[b r1]|] eqn:Eb; [|discriminate].
    destruct (padv_read_bit r b r1 Ho Eb) as [Ho1 Hp1].
    destruct (IH _ r1 x r' Ho1 E) as [Ho2 Hp2]. split; [exact Ho2 | rewrite Hp2, Hp1; lia].
Qed.

Lemma padv_rbits n : padv n (rbits n).
Proof. intros r x r' Ho E. unfold rbits in E. destruct (padv_read_bits _ _ r x r' Ho E) as [A B]. split; [exact A | rewrite B; lia]. Qed.

Lemma padv_rmany8 : forall k, padv (8 * N.of_nat k) (rmany k (rbits 8)).
Proof.
  induction k as [|k IH]; intros r x r' Ho E; cbn [rmany] in E.
  - inversion E; subst. split; [exact Ho | cbn; lia].
  - destruct (rbits 8 r) as [[v r1]|] eqn:E1; [|discriminate].
    destruct (rmany k (rbits 8) r1) as [[xs r2]|] eqn:E2; [|discriminate]. inversion E; subst.
    destruct (padv_rbits 8 r v r1 Ho E1) as [Ho1 Hp1]. destruct (IH r1 xs r' Ho1 E2) as [Ho2 Hp2].
    split; [exact Ho2 | rewrite Hp2, Hp1; lia].
Qed.

Lemma pmul8_p_utf8 : pmul8 p_utf8.
Proof.
  intros r x r' Ho E. unfold p_utf8 in E.
  destruct (rbits 8 r) as [[h r1]|] eqn:E1; [|discriminate]. cbv beta iota in E.
  destruct (padv_rbits 8 r h r1 Ho E1) as [Ho1 Hp1].
  match type of E with context [let '(k, acc) := ?X in _] => destruct X as [k acc] end.
  destruct (k =? 7); [discriminate|].
  destruct (rmany (N.to_nat k) (rbits 8) r1) as [[tl r2]|] eqn:E2; [|discriminate]. inversion E; subst.
  destruct (padv_rmany8 _ r1 tl r' Ho1 E2) as [Ho2 Hp2].
  split; [exact Ho2|]. exists (1 + N.of_nat (N.to_nat k)). rewrite Hp2, Hp1. lia.
Qed.

Lemma pmul8_p_block_size_code tag : pmul8 (p_block_size_code tag).
Proof.
  intros r x r' Ho E. unfold p_block_size_code in E.
  destruct (tag =? 0); [discriminate|].
  destruct (tag =? 1); [inversion E; subst; split; [exact Ho | exists 0; lia]|].
  destruct (tag <=? 5); [inversion E; subst; split; [exact Ho | exists 0; lia]|].
  destruct (tag =? 6).
  { destruct (rbits 8 r) as [[v r1]|] eqn:E1; [|discriminate]. inversion E; subst.
    destruct (padv_rbits 8 r v r' Ho E1) as [A B]. split; [exact A | exists 1; rewrite B; lia]. }
  destruct (tag =? 7).
  { destruct (rbits 16 r) as [[v r1]|] eqn:E1; [|discriminate]. inversion E; subst.
    destruct (padv_rbits 16 r v r' Ho E1) as [A B]. split; [exact A | exists 2; rewrite B; lia]. }
  inversion E; subst. split; [exact Ho | exists 0; lia].
Qed.

Lemma pmul8_p_sample_rate_code tag : pmul8 (p_sample_rate_code tag).
Proof.
  intros r x r' Ho E. unfold p_sample_rate_code in E.
  destruct (tag =? 15); [discriminate|].
  destruct (tag =? 12).
  { destruct (rbits 8 r) as [[v r1]|] eqn:E1; [|discriminate]. inversion E; subst.
    destruct (padv_rbits 8 r v r' Ho E1) as [A B]. split; [exact A | exists 1; rewrite B; lia]. }
  destruct ((tag =? 13) || (tag =? 14)).
  { destruct (rbits 16 r) as [[v r1]|] eqn:E1; [|discriminate]. inversion E; subst.
    destruct (padv_rbits 16 r v r' Ho E1) as [A B]. split; [exact A | exists 2; rewrite B; lia]. }
  inversion E; subst. split; [exact Ho | exists 0; lia].
Qed.

Lemma rbits8_aligned_inv (bytes : list N) c v r' :
  Forall (fun x => x < 256) bytes -> rbits 8 (mkRd bytes 0 c) = Some (v, r') ->
  exists b t, bytes = b :: t /\ v = b /\ r' = mkRd t 0 (c + 1).
Proof.
  intros H256 E. destruct bytes as [|b t]; [unfold rbits in E; cbn in E; discriminate|].
  inversion H256 as [|? ? Hb _]; subst. rewrite (rbits8_aligned b t c Hb) in E. inversion E; subst.
  exists v, t. repeat split.
Qed.

(* ---- the header ---- *)
Theorem p_frame_header_crc_inv start h r' :
  Forall (fun x => x < 256) start -> p_frame_header start (rd_of start) = Some (h, r') ->
  exists H : nat, (4 <= H)%nat /\ (H + 1 <= length start)%nat /\
                  crc8 (firstn H start) = nth H start 0 /\
                  r' = mkRd (skipn (H + 1) start) 0 (N.of_nat (H + 1)).
Proof.
  intros H256 E. unfold p_frame_header in E.
  pose proof (rinv_start start) as Hi.
  assert (Ho : r_off (rd_of start) < 8) by (cbn; lia).
  assert (Hp : rd_pos (rd_of start) = 0) by reflexivity.
  cbn [rd_of r_cnt] in E.
  destruct (rbits 15 (rd_of start)) as [[sync r1]|] eqn:E1; [|discriminate]. cbv beta iota in E.
  pose proof (pres_rbits 15 start _ _ _ Hi E1) as Hi1. destruct (padv_rbits 15 _ _ _ Ho E1) as [Ho1 Hp1].
  destruct (negb (sync =? 32764)); [discriminate|].
  destruct (rbits 1 r1) as [[blocking r2]|] eqn:E2; [|discriminate].
  pose proof (pres_rbits 1 start _ _ _ Hi1 E2) as Hi2. destruct (padv_rbits 1 _ _ _ Ho1 E2) as [Ho2 Hp2].
  destruct (rbits 4 r2) as [[bst r3]|] eqn:E3; [|discriminate].
  pose proof (pres_rbits 4 start _ _ _ Hi2 E3) as Hi3. destruct (padv_rbits 4 _ _ _ Ho2 E3) as [Ho3 Hp3].
  destruct (rbits 4 r3) as [[srt r4]|] eqn:E4; [|discriminate].
  pose proof (pres_rbits 4 start _ _ _ Hi3 E4) as Hi4. destruct (padv_rbits 4 _ _ _ Ho3 E4) as [Ho4 Hp4].
  destruct (rbits 4 r4) as [[cht r5]|] eqn:E5; [|discriminate].
  pose proof (pres_rbits 4 start _ _ _ Hi4 E5) as Hi5. destruct (padv_rbits 4 _ _ _ Ho4 E5) as [Ho5 Hp5].
  destruct (rbits 3 r5) as [[sst r6]|] eqn:E6; [|discriminate].
  pose proof (pres_rbits 3 start _ _ _ Hi5 E6) as Hi6. destruct (padv_rbits 3 _ _ _ Ho5 E6) as [Ho6 Hp6].
  destruct (rbits 1 r6) as [[res r7]|] eqn:E7; [|discriminate].
  pose proof (pres_rbits 1 start _ _ _ Hi6 E7) as Hi7. destruct (padv_rbits 1 _ _ _ Ho6 E7) as [Ho7 Hp7].
  destruct (negb (res =? 0)); [discriminate|].
  destruct (chassign_of_tag cht) as [ch|]; [|discriminate].
  destruct (p_utf8 r7) as [[num r8]|] eqn:E8; [|discriminate].
  pose proof (pres_p_utf8 start _ _ _ Hi7 E8) as Hi8. destruct (pmul8_p_utf8 _ _ _ Ho7 E8) as [Ho8 [k8 Hp8]].
  destruct (p_block_size_code bst r8) as [[[bcode bsize] r9]|] eqn:E9; [|discriminate].
  pose proof (pres_p_block_size_code bst start _ _ _ Hi8 E9) as Hi9. destruct (pmul8_p_block_size_code bst _ _ _ Ho8 E9) as [Ho9 [k9 Hp9]].
  destruct (p_sample_rate_code srt r9) as [[sc r10]|] eqn:E10; [|discriminate].
  pose proof (pres_p_sample_rate_code srt start _ _ _ Hi9 E10) as Hi10.
  destruct (pmul8_p_sample_rate_code srt _ _ _ Ho9 E10) as [Ho10 [k10 Hp10]].
  (* the reader is byte-aligned at the CRC byte *)
  assert (Hpos : rd_pos r10 = 8 * (4 + k8 + k9 + k10)) by (rewrite Hp10, Hp9, Hp8, Hp7, Hp6, Hp5, Hp4, Hp3, Hp2, Hp1, Hp; lia).
  unfold rd_pos in Hpos.
  assert (Hoff : r_off r10 = 0) by lia. assert (Hcnt : r_cnt r10 = 4 + k8 + k9 + k10) by lia.
  destruct Hi10 as (_ & Hb10 & _).
  set (H := N.to_nat (r_cnt r10)) in *.
  assert (Er10 : r10 = mkRd (skipn H start) 0 (r_cnt r10)).
  { rewrite (rd_eta r10) at 1. rewrite Hb10, Hoff. reflexivity. }
  rewrite N.sub_0_r in E. rewrite Er10 in E. cbn [r_cnt] in E.
  destruct (rbits 8 _) as [[c8 r11]|] eqn:E11; [|discriminate].
  destruct (rbits8_aligned_inv _ _ _ _ (Forall_skipn_lt _ H start H256) E11) as (b & t & Hsk & Hv & Hr11).
  destruct (negb (c8 =? _)) eqn:Ec; [discriminate|]. apply Bool.negb_false_iff, N.eqb_eq in Ec.
  inversion E; subst h r'. exists H.
  assert (HL : (H + 1 <= length start)%nat).
  { apply (f_equal (@length N)) in Hsk. rewrite skipn_length in Hsk. cbn [length] in Hsk. lia. }
  split; [unfold H; lia|]. split; [exact HL|]. split.
  - fold H in Ec. rewrite <- Ec, Hv.
    rewrite <- (firstn_skipn H start) at 1. rewrite app_nth2 by (rewrite firstn_length; lia).
    rewrite firstn_length. replace (H - Nat.min H (length start))%nat with 0%nat by lia. rewrite Hsk. reflexivity.
  - rewrite Hr11. f_equal.
    + rewrite <- skipn_skipn', Hsk. reflexivity.
    + unfold H. lia.
Qed.

(* every frame the parser accepts, on any input, begins with a header that carries the CRC-8 of its own bytes *)
Theorem accepted_frame_has_valid_header_crc start channels bps f rest' :
  Forall (fun x => x < 256) start -> p_frame channels bps start = Some (f, rest') ->
  exists H : nat, (4 <= H)%nat /\ (H + 1 <= length start)%nat /\ crc8 (firstn H start) = nth H start 0.
Proof.
  intros H256 E. unfold p_frame in E.
  destruct (p_frame_header start (rd_of start)) as [[h r1]|] eqn:Eh; [|discriminate].
  destruct (p_frame_header_crc_inv start h r1 H256 Eh) as (H & A & B & C & _).
  exists H. repeat split; assumption.
Qed.

Lemma flat_bits8_length : forall a b : list N, length a = length b ->
  length (flat_map (byte_bits 8) a) = length (flat_map (byte_bits 8) b).
Proof.
  induction a as [|x t IH]; intros [|y t'] Hl; cbn in Hl; try discriminate; [reflexivity|].
  cbn [flat_map]. rewrite !app_length, !byte_bits_length. f_equal. apply IH. lia.
Qed.

(* a header altered by a burst of at most 8 bits (anywhere in header bytes ++ CRC byte) is not accepted as a header of
   the same length *)
Theorem altered_header_rejected_at_boundary (hdr hb' rest : list N) i j p h' r' :
  let hb := hdr ++ [crc8 hdr] in
  length hb' = length hb -> Forall (fun x => x < 256) hb' -> Forall (fun x => x < 256) rest ->
  zipxor (bytes_bits8 hb) (bytes_bits8 hb') = repeat false i ++ p ++ repeat false j ->
  length p = 8%nat -> existsb (fun b => b) p = true ->
  p_frame_header (hb' ++ rest) (rd_of (hb' ++ rest)) = Some (h', r') ->
  r_cnt r' <> N.of_nat (length hb).
Proof.
  intros hb Hlen H256 Hrest Hx Hp Hpe E Heq.
  destruct (p_frame_header_crc_inv (hb' ++ rest) h' r' ltac:(apply Forall_app; split; assumption) E) as (H & H4 & HL & Hcrc & Hr).
  rewrite Hr in Heq. cbn [r_cnt] in Heq.
  assert (Hhb : length hb = (length hdr + 1)%nat) by (unfold hb; rewrite app_length; cbn [length]; lia).
  assert (HH : H = length hdr) by lia. subst H.
  assert (Hhb' : length hb' = (length hdr + 1)%nat) by lia.
  rewrite firstn_app, (proj2 (Nat.sub_0_le _ _)) in Hcrc by lia. cbn [firstn] in Hcrc. rewrite app_nil_r in Hcrc.
  rewrite app_nth1 in Hcrc by lia.
  set (hdr' := firstn (length hdr) hb') in *. set (c' := nth (length hdr) hb' 0) in *.
  assert (Hsplit : hb' = hdr' ++ [c']).
  { unfold hdr', c'. rewrite <- (firstn_skipn (length hdr) hb') at 1. f_equal.
    assert (Hl1 : length (skipn (length hdr) hb') = 1%nat) by (rewrite skipn_length; lia).
    destruct (skipn (length hdr) hb') as [|x [|y t]] eqn:Es; cbn [length] in Hl1; try lia.
    f_equal. rewrite <- (firstn_skipn (length hdr) hb') at 1. rewrite app_nth2 by (rewrite firstn_length; lia).
    rewrite firstn_length. replace (length hdr - Nat.min (length hdr) (length hb'))%nat with 0%nat by lia. rewrite Es. reflexivity. }
  assert (Hc' : c' < 2 ^ 8).
  { rewrite Hsplit in H256. apply Forall_app in H256. destruct H256 as [_ H2]. inversion H2 as [|? ? Hc0 _]. exact Hc0. }
  assert (Hlb : length hdr = length hdr') by (unfold hdr'; rewrite firstn_length; lia).
  unfold crc8 in Hcrc, Hx. rewrite crc_is_run in Hcrc.
  apply (crc8_field_burst_detected (flat_map (byte_bits 8) hdr) (flat_map (byte_bits 8) hdr') c' i j p); try assumption.
  - apply flat_bits8_length. exact Hlb.
  - unfold hb in Hx. unfold crc8 in Hx. rewrite Hsplit in Hx. unfold bytes_bits8 in Hx. rewrite !flat_map_app in Hx. cbn [flat_map] in Hx.
    rewrite !app_nil_r in Hx. rewrite crc_is_run in Hx. exact Hx.
  - symmetry. exact Hcrc.
Qed.
