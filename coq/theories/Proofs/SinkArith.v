(* Arithmetic lemmas on N used by the sink refinement proofs. *)
From FV Require Import Model.Base Model.Sink.
Local Open Scope N_scope.

Lemma P2_pow n : P2 n = 2 ^ n.
Proof. unfold P2. apply N.shiftl_1_l. Qed.

Lemma ZP2_pow n : ZP2 n = (2 ^ n)%Z.
Proof. unfold ZP2. apply Z.shiftl_1_l. Qed.

(* normalise the fast power-of-two of the executable model to N.pow / Z.pow *)
Lemma DIV2_eq x k : DIV2 x k = x / 2 ^ k.
Proof. unfold DIV2. apply N.shiftr_div_pow2. Qed.

Lemma MOD2_eq x k : MOD2 x k = x mod 2 ^ k.
Proof. unfold MOD2. apply N.land_ones. Qed.

Ltac p2 := rewrite ?P2_pow, ?ZP2_pow, ?DIV2_eq, ?MOD2_eq in *; change (2 ^ 8) with 256 in *.

Lemma pow2_pos n : 0 < 2 ^ n.
Proof. apply N.neq_0_lt_0, N.pow_nonzero; discriminate. Qed.

Lemma pow2_nz n : 2 ^ n <> 0.
Proof. apply N.pow_nonzero; discriminate. Qed.

Lemma pow2_split a b : b <= a -> 2 ^ a = 2 ^ (a - b) * 2 ^ b.
Proof. intros H. rewrite <- N.pow_add_r. f_equal. lia. Qed.

Lemma pow2_le a b : a <= b -> 2 ^ a <= 2 ^ b.
Proof. intros; apply N.pow_le_mono_r; lia. Qed.

Lemma pow2_lt a b : a < b -> 2 ^ a < 2 ^ b.
Proof. intros; apply N.pow_lt_mono_r; lia. Qed.

(* disjoint or is addition *)
Lemma lor_add a b r : a mod 2 ^ r = 0 -> b < 2 ^ r -> N.lor a b = a + b.
Proof.
  intros Ha Hb.
  assert (Hl : N.land a b = 0).
  { apply N.bits_inj; intros i. rewrite N.land_spec, N.bits_0.
    destruct (N.lt_ge_cases i r) as [Hi|Hi].
    - assert (E : a = 2 ^ r * (a / 2 ^ r)).
      { pose proof (N.div_mod a (2 ^ r) (pow2_nz r)). lia. }
      rewrite E, N.mul_comm, N.mul_pow2_bits_low by assumption. reflexivity.
    - rewrite Bool.andb_comm.
      replace (N.testbit b i) with false; [reflexivity|].
      symmetry. destruct (N.eq_dec b 0) as [->|Hnz]; [apply N.bits_0|].
      apply N.bits_above_log2. apply N.log2_lt_pow2; [lia|].
      eapply N.lt_le_trans; [exact Hb|]. apply pow2_le; assumption. }
  rewrite <- N.lxor_lor by assumption. symmetry. apply N.add_nocarry_lxor; assumption.
Qed.

Lemma mul_div_pow2 a k : a * 2 ^ k / 2 ^ k = a.
Proof. apply N.div_mul, pow2_nz. Qed.

Lemma mul_mod_pow2 a k : (a * 2 ^ k) mod 2 ^ k = 0.
Proof. apply N.mod_mul, pow2_nz. Qed.

(* a * 2^m / 2^k  for k <= m *)
Lemma mul_pow2_div_le a m k : k <= m -> a * 2 ^ m / 2 ^ k = a * 2 ^ (m - k).
Proof.
  intros H. rewrite (pow2_split m k H), N.mul_assoc. apply mul_div_pow2.
Qed.

(* a * 2^m / 2^k  for m <= k *)
Lemma mul_pow2_div_ge a m k : m <= k -> a * 2 ^ m / 2 ^ k = a / 2 ^ (k - m).
Proof.
  intros H. rewrite (pow2_split k m H).
  rewrite N.div_mul_cancel_r; [reflexivity | apply pow2_nz | apply pow2_nz].
Qed.

Lemma div_small_pow2 d n : d < 2 ^ n -> d / 2 ^ n = 0.
Proof. intros; apply N.div_small; assumption. Qed.

Lemma split_hi_lo d k : d = (d / 2 ^ k) * 2 ^ k + d mod 2 ^ k.
Proof. rewrite N.mul_comm. apply N.div_mod, pow2_nz. Qed.

Lemma mod_pow2_lt d k : d mod 2 ^ k < 2 ^ k.
Proof. apply N.mod_lt, pow2_nz. Qed.

Lemma hi_bound d n k : k <= n -> d < 2 ^ n -> d / 2 ^ k < 2 ^ (n - k).
Proof.
  intros Hk Hd. apply N.div_lt_upper_bound; [apply pow2_nz|].
  rewrite <- N.pow_add_r. replace (k + (n - k)) with n by lia. assumption.
Qed.

(* (d * 2^(W-k)) mod 2^W  keeps the low k bits of d, moved to the top *)
Lemma shl_mod_top d W k : k <= W -> (d * 2 ^ (W - k)) mod 2 ^ W = (d mod 2 ^ k) * 2 ^ (W - k).
Proof.
  intros H.
  rewrite (split_hi_lo d k) at 1.
  rewrite N.mul_add_distr_r, <- N.mul_assoc, <- N.pow_add_r.
  replace (k + (W - k)) with W by lia.
  rewrite N.add_comm, N.mod_add by apply pow2_nz.
  apply N.mod_small.
  pose proof (mod_pow2_lt d k) as Hl.
  rewrite (pow2_split W (W - k)) by lia. replace (W - (W - k)) with k by lia.
  apply N.mul_lt_mono_pos_r; [apply pow2_pos | assumption].
Qed.

Lemma mul_lt_pow2 a b x y : a < 2 ^ x -> b <= y -> a * 2 ^ b < 2 ^ (x + y).
Proof.
  intros Ha Hb. rewrite N.pow_add_r.
  pose proof (pow2_le b y Hb). pose proof (pow2_pos b). pose proof (pow2_pos x).
  nia.
Qed.

(* value of a reversed storage vector *)
Fixpoint rval (W : N) (rs : list N) : N :=
  match rs with
  | [] => 0
  | x :: t => rval W t * 2 ^ W + x
  end.

Lemma sval_app W l x acc :
  fold_left (fun a y => a * 2 ^ W + y) (l ++ [x]) acc
  = fold_left (fun a y => a * 2 ^ W + y) l acc * 2 ^ W + x.
Proof. rewrite fold_left_app. reflexivity. Qed.

Lemma sval_rval W rs : sval W (rev rs) = rval W rs.
Proof.
  induction rs as [|x t IH]; [reflexivity|].
  cbn [rev rval]. unfold sval in *. rewrite sval_app, IH. reflexivity.
Qed.

Lemma rval_app W a b : rval W (a ++ b) = rval W b * 2 ^ (W * N.of_nat (length a)) + rval W a.
Proof.
  induction a as [|x t IH]; cbn [app rval length].
  - rewrite N.mul_0_r. cbn. lia.
  - rewrite IH. rewrite Nat2N.inj_succ, N.mul_succ_r, N.pow_add_r. lia.
Qed.

Lemma rval_repeat0 W k : rval W (repeat 0 k) = 0.
Proof. induction k as [|k IH]; cbn [repeat rval]; [reflexivity|]. rewrite IH. reflexivity. Qed.

Lemma rval_bound W rs : Forall (fun x => x < 2 ^ W) rs -> rval W rs < 2 ^ (W * N.of_nat (length rs)).
Proof.
  induction 1 as [|x t Hx Ht IH]; cbn [rval length].
  - rewrite N.mul_0_r. cbn. lia.
  - rewrite Nat2N.inj_succ, N.mul_succ_r, N.pow_add_r.
    pose proof (pow2_pos W). nia.
Qed.
