(* C14: integer and packed-byte delivery are equivalent; the frame buffer's observable part does
   not depend on what it held before. *)
From FV Require Import Model.Base Model.Source Proofs.SinkArith.
Local Open Scope N_scope.

(* ---- little-endian bytes of a sample and back ---- *)

Lemma le_value_bytes u : forall n s,
  le_value (map (fun k => MOD2 (DIV2 u (8 * N.of_nat k)) 8) (seq s n))
  = (u / 2 ^ (8 * N.of_nat s)) mod 2 ^ (8 * N.of_nat n).
Proof.
  induction n as [|n IH]; intros s; cbn [seq map le_value fold_right].
  - rewrite N.mul_0_r, N.pow_0_r, N.mod_1_r. reflexivity.
  - fold (le_value (map (fun k => MOD2 (DIV2 u (8 * N.of_nat k)) 8) (seq (S s) n))).
    rewrite IH, DIV2_eq, MOD2_eq. change (2 ^ 8) with 256.
    set (a := u / 2 ^ (8 * N.of_nat s)).
    assert (Ea : u / 2 ^ (8 * N.of_nat (S s)) = a / 256).
    { unfold a. rewrite Nat2N.inj_succ. replace (8 * N.succ (N.of_nat s)) with (8 * N.of_nat s + 8) by lia.
      rewrite N.pow_add_r, <- N.div_div by (try apply pow2_nz; cbn; lia). reflexivity. }
    rewrite Ea. rewrite Nat2N.inj_succ. replace (8 * N.succ (N.of_nat n)) with (8 + 8 * N.of_nat n) by lia.
    rewrite N.pow_add_r. change (2 ^ 8) with 256.
    rewrite (N.mod_mul_r a 256 (2 ^ (8 * N.of_nat n))) by (try apply pow2_nz; lia). reflexivity.
Qed.

Lemma le_value_of_sample nb x : nb <= 4 ->
  le_value (le_bytes_of nb x) = Z.to_N (Z.modulo x (2 ^ Z.of_N (8 * nb))).
Proof.
  intros Hnb. unfold le_bytes_of. rewrite le_value_bytes. cbn [N.of_nat]. rewrite N.mul_0_r, N.pow_0_r, N.div_1_r, N2Nat.id.
  set (w := 8 * nb).
  assert (Hw : w <= 32) by (unfold w; lia).
  assert (E : (4294967296 = 2 ^ Z.of_N (32 - w) * 2 ^ Z.of_N w)%Z).
  { rewrite <- Z.pow_add_r by lia. replace (Z.of_N (32 - w) + Z.of_N w)%Z with 32%Z by lia. reflexivity. }
  assert (Hp : (0 < 2 ^ Z.of_N w)%Z) by (apply Z.pow_pos_nonneg; lia).
  assert (Hmm : ((x mod 4294967296) mod 2 ^ Z.of_N w = x mod 2 ^ Z.of_N w)%Z).
  { rewrite E. rewrite Z.mul_comm. rewrite Z.rem_mul_r by lia.
    rewrite Z.add_mod by lia. rewrite Z.mul_comm, Z.mod_mul by lia. rewrite Z.add_0_r, Z.mod_mod by lia.
    apply Z.mod_mod. lia. }
  rewrite <- Hmm.
  assert (H0 : (0 <= x mod 4294967296)%Z) by (apply Z.mod_pos_bound; lia).
  assert (Hpw : Z.to_N (2 ^ Z.of_N w) = 2 ^ w).
  { rewrite Z2N.inj_pow by lia. rewrite N2Z.id. reflexivity. }
  set (y := (x mod 4294967296)%Z) in *.
  rewrite (Z2N.inj_mod y (2 ^ Z.of_N w)) by lia. rewrite Hpw. reflexivity.
Qed.

Definition in_width (w : N) (x : Z) : Prop := (- 2 ^ (Z.of_N w - 1) <= x < 2 ^ (Z.of_N w - 1))%Z.

Lemma to_signed_of_mod w x : 1 <= w -> in_width w x ->
  to_signed_bits w (Z.to_N (Z.modulo x (2 ^ Z.of_N w))) = x.
Proof.
  intros Hw [Hlo Hhi]. unfold to_signed_bits.
  destruct (N.eqb_spec w 0); [lia|].
  assert (Hp : (2 ^ Z.of_N w = 2 * 2 ^ (Z.of_N w - 1))%Z).
  { rewrite <- Z.pow_succ_r by lia. f_equal. lia. }
  assert (Hh : (0 < 2 ^ (Z.of_N w - 1))%Z) by (apply Z.pow_pos_nonneg; lia).
  set (h := (2 ^ (Z.of_N w - 1))%Z) in *.
  destruct (Z.ltb_spec x 0) as [Hneg|Hpos].
  - assert (Em : (x mod 2 ^ Z.of_N w = x + 2 * h)%Z).
    { rewrite Hp. symmetry. apply Z.mod_unique with (q := (-1)%Z); lia. }
    rewrite Em.
    assert (Hbit : N.testbit (Z.to_N (x + 2 * h)) (w - 1) = true).
    { rewrite <- (Z2N.id (x + 2 * h)) at 1 by lia. rewrite N2Z.id.
      rewrite <- Z.testbit_of_N, Z2N.id by lia.
      apply Z.testbit_true; [lia|]. replace (Z.of_N (w - 1)) with (Z.of_N w - 1)%Z by lia. fold h.
      assert (Hd : ((x + 2 * h) / h = 1)%Z) by (symmetry; apply Z.div_unique with (r := (x + h)%Z); lia).
      rewrite Hd. reflexivity. }
    rewrite Hbit. rewrite Z2N.id by lia. lia.
  - assert (Em : (x mod 2 ^ Z.of_N w = x)%Z) by (apply Z.mod_small; lia).
    rewrite Em.
    assert (Hbit : N.testbit (Z.to_N x) (w - 1) = false).
    { rewrite <- Z.testbit_of_N, Z2N.id by lia.
      apply Z.testbit_false; [lia|]. replace (Z.of_N (w - 1)) with (Z.of_N w - 1)%Z by lia. fold h.
      rewrite Z.div_small by lia. reflexivity. }
    rewrite Hbit. apply Z2N.id. lia.
Qed.

Lemma sample_roundtrip nb x : 1 <= nb <= 4 -> in_width (8 * nb) x ->
  to_signed_bits (8 * nb) (le_value (le_bytes_of nb x)) = x.
Proof.
  intros Hnb Hx. rewrite le_value_of_sample by lia. apply to_signed_of_mod; [lia | assumption].
Qed.

Lemma le_bytes_of_length nb x : length (le_bytes_of nb x) = N.to_nat nb.
Proof. unfold le_bytes_of. rewrite map_length, seq_length. reflexivity. Qed.

Lemma firstn_exact {A} (a b : list A) k : length a = k -> firstn k (a ++ b) = a.
Proof. intros <-. rewrite firstn_app, Nat.sub_diag, firstn_all. cbn [firstn]. apply app_nil_r. Qed.

Lemma skipn_exact {A} (a b : list A) k : length a = k -> skipn k (a ++ b) = b.
Proof. intros <-. rewrite skipn_app, Nat.sub_diag, skipn_all. reflexivity. Qed.

Lemma group_flat_map {A B} (f : A -> list B) (k : nat) :
  (0 < k)%nat -> (forall a, length (f a) = k) ->
  forall xs fuel, (length xs <= fuel)%nat -> group fuel k (flat_map f xs) = map f xs.
Proof.
  intros Hk Hf. induction xs as [|x t IH]; intros fuel Hl.
  - destruct fuel; reflexivity.
  - destruct fuel as [|fuel]; [cbn in Hl; lia|].
    cbn [flat_map group map].
    destruct (f x ++ flat_map f t) as [|y r] eqn:E.
    + exfalso. apply (f_equal (@length B)) in E. rewrite app_length, Hf in E. cbn in E. lia.
    + rewrite <- E. rewrite (firstn_exact (f x) _ k (Hf x)), (skipn_exact (f x) _ k (Hf x)).
      f_equal. apply IH. cbn [length] in Hl. lia.
Qed.

Lemma flat_map_length_const {A B} (f : A -> list B) k : (forall a, length (f a) = k) ->
  forall xs, length (flat_map f xs) = (length xs * k)%nat.
Proof. intros Hf. induction xs as [|x t IH]; cbn [flat_map length]; [reflexivity|]. rewrite app_length, Hf, IH. lia. Qed.

(* the byte conversion is the inverse of the integer-to-bytes conversion on in-range samples *)
Theorem bytes_roundtrip nb xs : 1 <= nb <= 4 -> Forall (in_width (8 * nb)) xs ->
  le_bytes_to_i32s (flat_map (le_bytes_of nb) xs) nb = Ok xs.
Proof.
  intros Hnb Hxs. unfold le_bytes_to_i32s.
  destruct (N.eqb_spec nb 0); [lia|]. destruct (N.ltb_spec 4 nb); [lia|]. cbn [orb].
  rewrite (flat_map_length_const (le_bytes_of nb) (N.to_nat nb) (le_bytes_of_length nb)).
  rewrite Nat2N.inj_mul, N2Nat.id, N.mod_mul by lia. cbn [negb N.eqb]. f_equal.
  rewrite group_flat_map with (k := N.to_nat nb); try lia; try apply le_bytes_of_length.
  - rewrite map_map. rewrite <- (map_id xs) at 2. apply map_ext_in. intros x Hx.
    rewrite Forall_forall in Hxs. apply sample_roundtrip; [lia | apply Hxs; assumption].
  - assert (1 <= N.to_nat nb)%nat by lia. nia.
Qed.

(* C14: both fills leave the frame buffer in the same state *)
Theorem fill_equiv fb nb xs : 1 <= nb <= 4 -> Forall (in_width (8 * nb)) xs ->
  fill_le_bytes fb (flat_map (le_bytes_of nb) xs) nb = fill_interleaved fb xs.
Proof.
  intros Hnb Hxs. unfold fill_le_bytes.
  destruct (N.eqb_spec nb 0); [lia|]. destruct (N.ltb_spec 4 nb); [lia|]. cbn [orb].
  rewrite (flat_map_length_const (le_bytes_of nb) (N.to_nat nb) (le_bytes_of_length nb)).
  rewrite Nat2N.inj_mul, N2Nat.id, N.mod_mul by lia. cbn [negb N.eqb].
  rewrite (bytes_roundtrip nb xs Hnb Hxs). reflexivity.
Qed.

(* ... and advance the MD5 / sample-count context identically *)
Theorem ctx_fill_equiv c xs : 1 <= cx_nb c <= 4 -> cx_channels c <> 0 ->
  ctx_fill_le_bytes c (flat_map (le_bytes_of (cx_nb c)) xs) (cx_nb c) = Ok (ctx_fill_interleaved c xs).
Proof.
  intros Hnb Hch. unfold ctx_fill_le_bytes, ctx_fill_interleaved.
  destruct xs as [|x t]; [reflexivity|].
  set (nb := cx_nb c) in *. set (xs := x :: t).
  assert (Hlen : length (flat_map (le_bytes_of nb) xs) = (length xs * N.to_nat nb)%nat)
    by apply (flat_map_length_const (le_bytes_of nb) (N.to_nat nb) (le_bytes_of_length nb)).
  destruct (flat_map (le_bytes_of nb) xs) as [|b r] eqn:E.
  - exfalso. unfold xs in Hlen. cbn [length] in Hlen. lia.
  - rewrite <- E in Hlen |- *. rewrite N.eqb_refl. cbn [negb orb].
    destruct (N.eqb_spec nb 0); [lia|]. cbn [orb].
    rewrite Hlen, Nat2N.inj_mul, N2Nat.id, N.mod_mul by lia. cbn [negb N.eqb]. f_equal. f_equal.
    f_equal. rewrite N.div_div by lia.
    rewrite N.div_mul_cancel_r by lia. reflexivity.
Qed.

(* ---- the observable part of the buffer does not depend on its previous contents ---- *)

Lemma firstn_app_le {A} (a b : list A) k : (k <= length a)%nat -> firstn k (a ++ b) = firstn k a.
Proof.
  intros H. rewrite firstn_app. replace (k - length a)%nat with 0%nat by lia. cbn [firstn]. apply app_nil_r.
Qed.

Theorem fill_history_independent channels size src old1 old2 :
  length old1 = (size * channels)%nat -> length old2 = (size * channels)%nat ->
  (length src <= size * channels)%nat ->
  let fb1 := mkFB old1 size channels 0 in let fb2 := mkFB old2 size channels 0 in
  match fill_interleaved fb1 src, fill_interleaved fb2 src with
  | Ok a, Ok b => observable a = observable b
  | _, _ => False
  end.
Proof.
  intros H1 H2 Hsrc. cbv zeta. unfold fill_interleaved. cbn [fb_samples fb_channels fb_size].
  destruct (Nat.ltb_spec (length old1) (length src)); [lia|].
  destruct (Nat.ltb_spec (length old2) (length src)); [lia|].
  unfold observable. cbn [fb_filled fb_channels]. f_equal.
  apply map_ext_in. intros ch Hch. apply in_seq in Hch.
  unfold channel_slice. cbn [fb_filled fb_size fb_samples].
  unfold deinterleave.
  destruct (Nat.eqb_spec channels 1) as [E1|E1].
  2:{ assert (Hd : forall c t, deint_at channels size src old1 c t = deint_at channels size src old2 c t).
      { intros c t. unfold deint_at. destruct (Nat.eqb_spec channels 1); [contradiction | reflexivity]. }
      do 2 f_equal. apply flat_map_ext. intros c. apply map_ext. intros t. apply Hd. }
  subst channels. assert (ch = 0%nat) by lia. subst ch. cbn [Nat.mul skipn].
  rewrite Nat.div_1_r.
  replace (Nat.min (length old1) (length src)) with (length src) by lia.
  replace (Nat.min (length old2) (length src)) with (length src) by lia.
  rewrite firstn_all. rewrite !firstn_app_le by lia. reflexivity.
Qed.
