(* Finite-instance facts about the par-mode LTS, by complete exploration inside Coq.  These are
   theorems about the named instances only (they guard the model against regressions and show the
   hypotheses of the general theorems are satisfiable); the general statements are in ParP.v. *)
From FV Require Import Generated Model.Base Model.Par.

(* all schedules from s, depth-first; returns (outcomes of final states, deadlocks, fuel exhaustions) *)
Fixpoint explore (p : plan) (fuel : nat) (s : pstate) : list outcome * N * N :=
  match fuel with
  | O => ([], 0%N, 1%N)
  | S f =>
      if final s then ([result_of s], 0%N, 0%N)
      else match enabled p s with
           | [] => ([], 1%N, 0%N)
           | ls => fold_left (fun acc l => match step p s l with
                                            | Some s' => let '(o, d, e) := explore p f s' in
                                                         let '(o2, d2, e2) := acc in (o ++ o2, (d + d2)%N, (e + e2)%N)
                                            | None => acc end) ls ([], 0%N, 0%N)
           end
  end.

Definition outcome_eqb (a b : outcome) : bool :=
  match a, b with
  | OutOk f h, OutOk f' h' =>
      (if list_eq_dec Nat.eq_dec f f' then true else false) && (if list_eq_dec Nat.eq_dec h h' then true else false)
  | OutConfigErr, OutConfigErr => true
  | OutSourceErr, OutSourceErr => true
  | _, _ => false
  end.

(* every schedule terminates within the fuel, never deadlocks, and ends in the sequential outcome *)
Definition all_schedules_ok (p : plan) (fuel : nat) : bool :=
  let '(os, d, e) := explore p fuel (init p) in
  forallb (fun o => outcome_eqb o (seq_result p)) os && (d =? 0)%N && (e =? 0)%N
  && negb (match os with [] => true | _ => false end).

Example par_w1_b1 : all_schedules_ok (mkPlan 1 1 None (fun _ => false)) 40 = true.
Proof. vm_compute. reflexivity. Qed.

Example par_w1_b2_readfail : all_schedules_ok (mkPlan 1 2 (Some 1) (fun _ => false)) 40 = true.
Proof. vm_compute. reflexivity. Qed.

Example par_w1_b2_invalid0 : all_schedules_ok (mkPlan 1 2 None (fun j => Nat.eqb j 0)) 40 = true.
Proof. vm_compute. reflexivity. Qed.

Example par_w2_b1 : all_schedules_ok (mkPlan 2 1 None (fun _ => false)) 40 = true.
Proof. vm_compute. reflexivity. Qed.

Example par_w1_b0 : all_schedules_ok (mkPlan 1 0 None (fun _ => false)) 40 = true.
Proof. vm_compute. reflexivity. Qed.
