(* C20: what the model can say about cargo features.  The encoder model has no feature parameter:
   given the estimator outputs (the oracles), the emitted bytes are a function of
   (configuration, input) alone.  The two places where a feature reaches a configuration are
   the default of `multithread` / `workers` (feature `par`) and the acceptance of the
   experimental options (feature `experimental`): the first is irrelevant to the bytes, the second
   is irrelevant for configurations that do not enable experimental options. *)
From FV Require Import Generated Model.Base Model.Sink Model.Codes Model.Rice Model.Predict Model.Component
  Model.Encoder Model.Config.
Local Open Scope N_scope.

Definition with_threading (c : config) (mt : bool) (w : option N) : config :=
  {| cfg_block_size := cfg_block_size c; cfg_multithread := mt; cfg_workers := w;
     cfg_use_leftside := cfg_use_leftside c; cfg_use_rightside := cfg_use_rightside c; cfg_use_midside := cfg_use_midside c;
     cfg_use_constant := cfg_use_constant c; cfg_use_fixed := cfg_use_fixed c; cfg_use_lpc := cfg_use_lpc c;
     cfg_fixed_max_order := cfg_fixed_max_order c; cfg_order_sel := cfg_order_sel c;
     cfg_lpc_order := cfg_lpc_order c; cfg_quant_precision := cfg_quant_precision c;
     cfg_use_direct_mse := cfg_use_direct_mse c; cfg_mae_steps := cfg_mae_steps c;
     cfg_window := cfg_window c; cfg_max_parameter := cfg_max_parameter c |}.

Section S.
  Variable ent : N -> N -> N -> N.
  Variable qlpc : N -> N -> qparams.
  Variable md5 : list N -> list N.

  Lemma frame_ignores_threading c mt w rate ch bps fi number block :
    encode_fixed_size_frame ent qlpc (with_threading c mt w) rate ch bps fi number block
    = encode_fixed_size_frame ent qlpc c rate ch bps fi number block.
  Proof. destruct c; reflexivity. Qed.

  Lemma blocks_ignore_threading c mt w rate ch bps : forall blocks fi,
    encode_blocks ent qlpc (with_threading c mt w) rate ch bps fi blocks
    = encode_blocks ent qlpc c rate ch bps fi blocks.
  Proof.
    induction blocks as [|b r IH]; intros fi; cbn [encode_blocks]; [reflexivity|].
    rewrite frame_ignores_threading.
    destruct (encode_fixed_size_frame ent qlpc c rate ch bps fi fi b); cbn [bind]; try reflexivity.
    rewrite IH. reflexivity.
  Qed.

  Theorem stream_ignores_threading c mt w rate ch bps bs samples :
    encode_stream_bytes ent qlpc md5 (with_threading c mt w) rate ch bps bs samples
    = encode_stream_bytes ent qlpc md5 c rate ch bps bs samples.
  Proof.
    unfold encode_stream_bytes, encode_stream. rewrite blocks_ignore_threading. reflexivity.
  Qed.
End S.

Theorem verify_ignores_experimental_feature c :
  cfg_use_direct_mse c = false -> cfg_mae_steps c = 0 -> verify true c = verify false c.
Proof.
  intros H1 H2. unfold verify, verify_subframe, verify_qlpc. rewrite H1, H2. cbn [negb andb orb N.eqb]. reflexivity.
Qed.

Theorem verify_ignores_threading e c mt w : verify e (with_threading c mt w) = verify e c.
Proof. destruct c; reflexivity. Qed.
