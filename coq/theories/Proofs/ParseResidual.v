(* parser ∘ writer on residuals: p_residual reads back exactly the residual whose operations were
   written, from any bit position, leaving the reader at the first bit after it. *)
From FV Require Import Generated Model.Base Model.Sink Model.Crc Model.Codes Model.Rice Model.Predict
  Model.Component Model.Flac Model.Parser Model.Ctor
  Proofs.SinkArith Proofs.SinkRefine Proofs.OpsLen Proofs.BitRead Proofs.BitWrite Proofs.BitUnary Proofs.CtorP.
Local Open Scope N_scope.

(* "p, started on a well-formed reader whose next bits are `bits`, returns x and stops right after them" *)
Definition reads {A} (p : rd -> option (A * rd)) (bits : list bool) (x : A) : Prop :=
  forall r rest, rd_wf r -> rd_bits r = bits ++ rest ->
    exists r', p r = Some (x, r') /\ rd_bits r' = rest /\ rd_wf r'
               /\ rd_pos r' = rd_pos r + N.of_nat (length bits) /\ rd_adv r r'.

Lemma reads_rbits n v : v < 2 ^ n -> reads (rbits n) (bits_msb (N.to_nat n) v) v.
Proof.
  intros Hv r rest Hwf Hb.
  destruct (rbits_field n v rest r Hwf Hb) as (r' & E & H1 & H2 & H3 & H4).
  exists r'. rewrite N.mod_small in E by exact Hv. rewrite bits_msb_length, N2Nat.id. auto.
Qed.

Lemma reads_runary (q : nat) : reads runary (repeat false q ++ [true]) (N.of_nat q).
Proof.
  intros r rest Hwf Hb. rewrite <- app_assoc in Hb. cbn [app] in Hb.
  destruct (runary_spec r q rest Hwf Hb) as (r' & E & H1 & H2 & H3 & H4).
  exists r'. rewrite app_length, repeat_length. cbn [length]. split; [exact E|]. split; [exact H1|]. split; [exact H2|].
  split; [rewrite H3; lia | exact H4].
Qed.

Lemma reads_rsigned n x :
  1 <= n -> (- 2 ^ (Z.of_N n - 1) <= x < 2 ^ (Z.of_N n - 1))%Z ->
  reads (rsigned n) (bits_msb (N.to_nat n) (Z.to_N (x mod 2 ^ Z.of_N n))) x.
Proof.
  intros Hn Hx r rest Hwf Hb. unfold rsigned.
  assert (Hlt : Z.to_N (x mod 2 ^ Z.of_N n) < 2 ^ n).
  { assert (0 <= x mod 2 ^ Z.of_N n < 2 ^ Z.of_N n)%Z by (apply Z.mod_pos_bound; apply Z.pow_pos_nonneg; lia).
    apply N2Z.inj_lt. rewrite Z2N.id, N2Z.inj_pow by lia. cbn. lia. }
  destruct (reads_rbits n _ Hlt r rest Hwf Hb) as (r' & E & H).
  exists r'. rewrite E. rewrite to_signed_twoc by assumption. split; [reflexivity | exact H].
Qed.

(* ---- one Rice-coded sample ---- *)
Definition sample_bits (p q r : N) : list bool := repeat false (N.to_nat q) ++ true :: bits_msb (N.to_nat p) r.

Lemma sample_value p r : p <= 31 -> r < 2 ^ p ->
  ((N.lor r (2 ^ p) * 2 ^ (32 - (p + 1))) mod 2 ^ 32 mod 2 ^ 32) / 2 ^ (32 - (p + 1)) = 2 ^ p + r.
Proof.
  intros Hp Hr. rewrite N.lor_comm, (lor_add (2 ^ p) r p) by (try apply N.mod_same; try apply pow2_nz; assumption).
  rewrite N.mod_mod by apply pow2_nz.
  assert (Hx : 2 ^ p + r < 2 ^ (p + 1)) by (rewrite N.add_1_r, N.pow_succ_r'; lia).
  rewrite N.mod_small.
  - apply mul_div_pow2.
  - replace 32 with ((p + 1) + (32 - (p + 1))) at 2 by lia. rewrite N.pow_add_r.
    apply N.mul_lt_mono_pos_r; [apply pow2_pos | exact Hx].
Qed.

Lemma sample_op_bits cur p q r : p <= 31 -> r < 2 ^ p ->
  ops_bitlist cur [OZeros q; OMsbs 32 ((N.lor r (2 ^ p) * 2 ^ (32 - (p + 1))) mod 2 ^ 32) (p + 1)] = sample_bits p q r.
Proof.
  intros Hp Hr. cbn [ops_bitlist op_bitlist]. rewrite app_nil_r. unfold sample_bits. f_equal.
  rewrite sample_value by assumption.
  replace (N.to_nat (p + 1)) with (S (N.to_nat p)) by lia. cbn [bits_msb]. rewrite N2Nat.id.
  f_equal.
  - replace (2 ^ p + r) with (1 * 2 ^ p + r) by lia. rewrite testbit_concat by exact Hr.
    rewrite N.ltb_irrefl, N.sub_diag. reflexivity.
  - replace (2 ^ p + r) with (1 * 2 ^ p + r) by lia. apply bits_msb_low; [exact Hr | lia].
Qed.

Fixpoint part_bits (p : N) (qs rs : list N) : list bool :=
  match qs, rs with
  | q :: qs', r :: rs' => sample_bits p q r ++ part_bits p qs' rs'
  | _, _ => []
  end.

Lemma part_ops_bits p : p <= 31 -> forall qs rs cur,
  Forall (fun r => r < 2 ^ p) rs ->
  ops_bitlist cur (residual_part_ops p qs rs) = part_bits p qs rs.
Proof.
  intros Hp. induction qs as [|q qs IH]; intros [|r rs] cur Hr; cbn [residual_part_ops part_bits]; try reflexivity.
  inversion Hr as [|? ? Hr1 Hr2]; subst.
  change (OZeros q :: OMsbs 32 ((N.lor r (2 ^ p) * 2 ^ (32 - (p + 1))) mod 2 ^ 32) (p + 1) :: residual_part_ops p qs rs)
    with ([OZeros q; OMsbs 32 ((N.lor r (2 ^ p) * 2 ^ (32 - (p + 1))) mod 2 ^ 32) (p + 1)] ++ residual_part_ops p qs rs).
  rewrite ops_bitlist_app, sample_op_bits by assumption. f_equal. apply IH. exact Hr2.
Qed.

Lemma reads_sample p q r : r < 2 ^ p ->
  forall rd0 rest, rd_wf rd0 -> rd_bits rd0 = sample_bits p q r ++ rest ->
  exists r1 r2, runary rd0 = Some (q, r1) /\ rbits p r1 = Some (r, r2) /\ rd_bits r2 = rest /\ rd_wf r2
                /\ rd_pos r2 = rd_pos rd0 + q + 1 + p /\ rd_adv rd0 r2.
Proof.
  intros Hr rd0 rest Hwf Hb. unfold sample_bits in Hb. rewrite <- app_assoc in Hb. cbn [app] in Hb.
  destruct (runary_spec rd0 (N.to_nat q) _ Hwf Hb) as (r1 & E1 & Hb1 & Hwf1 & Hp1 & Hk1).
  rewrite N2Nat.id in E1, Hp1.
  destruct (reads_rbits p r Hr r1 rest Hwf1 Hb1) as (r2 & E2 & Hb2 & Hwf2 & Hp2 & Hk2).
  exists r1, r2. rewrite bits_msb_length, N2Nat.id in Hp2.
  split; [exact E1|]. split; [exact E2|]. split; [exact Hb2|]. split; [exact Hwf2|].
  split; [lia | exact (rd_adv_trans _ _ _ Hk1 Hk2)].
Qed.

Lemma reads_partition_samples p : forall qs rs,
  length qs = length rs -> Forall (fun q => q < 2 ^ 32) qs -> Forall (fun r => r < 2 ^ p) rs ->
  reads (p_partition_samples (length qs) p) (part_bits p qs rs) (qs, rs).
Proof.
  induction qs as [|q qs IH]; intros [|r rs] Hl Hq Hr; cbn [length] in Hl; try discriminate.
  - intros rd0 rest Hwf Hb. exists rd0. cbn [p_partition_samples part_bits app length] in *.
    fin5 Hwf; [lia | apply rd_adv_refl].
  - inversion Hq as [|? ? Hq1 Hq2]; inversion Hr as [|? ? Hr1 Hr2]; subst.
    intros rd0 rest Hwf Hb. cbn [part_bits] in Hb. rewrite <- app_assoc in Hb.
    destruct (reads_sample p q r Hr1 rd0 _ Hwf Hb) as (r1 & r2 & E1 & E2 & Hb2 & Hwf2 & Hp2 & Hk2).
    destruct (IH rs ltac:(lia) Hq2 Hr2 r2 rest Hwf2 Hb2) as (r3 & E3 & Hb3 & Hwf3 & Hp3 & Hk3).
    exists r3. cbn [length p_partition_samples]. rewrite E1, E2, E3.
    rewrite (N.mod_small q) by exact Hq1.
    fin5 Hwf3.
    + rewrite Hp3, Hp2. cbn [part_bits]. rewrite app_length. unfold sample_bits.
      rewrite app_length, repeat_length. cbn [length]. rewrite bits_msb_length. lia.
    + exact (rd_adv_trans _ _ _ Hk2 Hk3).
Qed.

(* ---- partitions ---- *)
Fixpoint parts_bits (params : list N) (part skip : nat) (qs rs : list N) : list bool :=
  match params with
  | [] => []
  | p :: ps =>
      bits_msb 4 p ++ part_bits p (skipn skip (firstn part qs)) (skipn skip (firstn part rs))
        ++ parts_bits ps part 0 (skipn part qs) (skipn part rs)
  end.

Lemma Forall_skipn {A} (P : A -> Prop) : forall n l, Forall P l -> Forall P (skipn n l).
Proof.
  induction n as [|n IH]; intros l H; [exact H|]. destruct l as [|x t]; [constructor|].
  inversion H; subst. cbn [skipn]. apply IH. assumption.
Qed.

Lemma Forall_firstn {A} (P : A -> Prop) : forall n l, Forall P l -> Forall P (firstn n l).
Proof.
  induction n as [|n IH]; intros l H; [constructor|]. destruct l as [|x t]; [constructor|].
  inversion H; subst. cbn [firstn]. constructor; [assumption | apply IH; assumption].
Qed.

Lemma forallb_Forall_ltb p l : forallb (fun r => r <? 2 ^ p) l = true -> Forall (fun r => r < 2 ^ p) l.
Proof.
  induction l as [|x t IH]; cbn [forallb]; intros H; constructor.
  - apply Bool.andb_true_iff in H. apply N.ltb_lt. apply H.
  - apply IH. apply Bool.andb_true_iff in H. apply H.
Qed.

Lemma parts_ops_bits : forall params part skip qs rs cur,
  Forall (fun p => p <= 31) params -> rems_ok params part rs = true ->
  ops_bitlist cur (residual_parts_ops params part skip qs rs) = parts_bits params part skip qs rs.
Proof.
  induction params as [|p ps IH]; intros part skip qs rs cur Hp Hr; cbn [residual_parts_ops parts_bits]; [reflexivity|].
  inversion Hp as [|? ? Hp1 Hp2]; subst.
  cbn [rems_ok] in Hr. apply Bool.andb_true_iff in Hr. destruct Hr as [Hr1 Hr2].
  change (OLsbs 8 p 4 :: ?x) with ([OLsbs 8 p 4] ++ x).
  rewrite !ops_bitlist_app. cbn [ops_bitlist op_bitlist]. rewrite app_nil_r.
  change (N.to_nat 4) with 4%nat. f_equal.
  rewrite part_ops_bits by (try assumption; apply Forall_skipn; apply forallb_Forall_ltb; exact Hr1).
  f_equal. apply IH; assumption.
Qed.

Lemma firstn_firstn_le {A} (a b : nat) (l : list A) : (a <= b)%nat -> firstn a (firstn b l) = firstn a l.
Proof. intros H. rewrite firstn_firstn. f_equal. lia. Qed.

Lemma zeros_then_skip (skip part : nat) (l : list N) :
  (skip <= part)%nat -> firstn skip l = repeat 0 skip ->
  repeat 0 skip ++ skipn skip (firstn part l) = firstn part l.
Proof.
  intros Hle Hz. rewrite <- (firstn_skipn skip (firstn part l)) at 2.
  rewrite firstn_firstn_le by exact Hle. rewrite Hz. reflexivity.
Qed.

Lemma reads_partitions : forall params (first : bool) part warm qs rs,
  let skipW := if first then N.to_nat warm else 0%nat in
  (N.to_nat warm <= part)%nat ->
  Forall (fun p => p < 16) params -> rems_ok params part rs = true -> Forall (fun q => q < 2 ^ 32) qs ->
  length qs = (length params * part)%nat -> length rs = (length params * part)%nat ->
  firstn skipW qs = repeat 0 skipW -> firstn skipW rs = repeat 0 skipW ->
  reads (p_partitions (length params) first 4 (N.of_nat part) warm) (parts_bits params part skipW qs rs) (params, qs, rs).
Proof.
  induction params as [|p ps IH]; intros first part warm qs rs skipW Hw Hp Hr Hq Hlq Hlr Hzq Hzr rd0 rest Hwf Hb.
  - cbn [length Nat.mul] in Hlq, Hlr. destruct qs; [|discriminate]. destruct rs; [|discriminate].
    exists rd0. cbn [p_partitions parts_bits length app] in *.
    fin5 Hwf; [lia | apply rd_adv_refl].
  - inversion Hp as [|? ? Hp1 Hp2]; subst.
    cbn [rems_ok] in Hr. apply Bool.andb_true_iff in Hr. destruct Hr as [Hr1 Hr2].
    cbn [length] in Hlq, Hlr.
    cbn [parts_bits] in Hb. rewrite <- !app_assoc in Hb.
    destruct (reads_rbits 4 p ltac:(exact Hp1) rd0 _ Hwf Hb) as (r1 & E1 & Hb1 & Hwf1 & Hp_1 & Hk1).
    assert (Hskip : (skipW <= part)%nat) by (unfold skipW; destruct first; lia).
    set (qpart := skipn skipW (firstn part qs)) in *. set (rpart := skipn skipW (firstn part rs)) in *.
    assert (Hlen_q : length qpart = (part - skipW)%nat) by (unfold qpart; rewrite skipn_length, firstn_length; lia).
    assert (Hlen_r : length rpart = (part - skipW)%nat) by (unfold rpart; rewrite skipn_length, firstn_length; lia).
    assert (Hsk : (if first then N.min warm (N.of_nat part) else 0) = N.of_nat skipW).
    { unfold skipW. destruct first; [|reflexivity]. rewrite N.min_l by lia. lia. }
    destruct (reads_partition_samples p qpart rpart ltac:(lia)
                ltac:(apply Forall_skipn; apply Forall_firstn; exact Hq)
                ltac:(apply Forall_skipn; apply forallb_Forall_ltb; exact Hr1)
                r1 _ Hwf1 Hb1) as (r2 & E2 & Hb2 & Hwf2 & Hp_2 & Hk2).
    destruct (IH false part warm (skipn part qs) (skipn part rs) Hw Hp2 Hr2
                ltac:(apply Forall_skipn; exact Hq)
                ltac:(rewrite skipn_length; lia) ltac:(rewrite skipn_length; lia) eq_refl eq_refl
                r2 rest Hwf2 Hb2) as (r3 & E3 & Hb3 & Hwf3 & Hp_3 & Hk3).
    exists r3. cbn [length p_partitions]. change (rbits 4 rd0) with (rbits 4 rd0). rewrite E1. rewrite Hsk.
    replace (N.to_nat (N.of_nat part - N.of_nat skipW)) with (length qpart) by lia.
    rewrite E2, E3. rewrite Nat2N.id.
    rewrite !app_assoc. unfold qpart, rpart.
    rewrite (zeros_then_skip skipW part qs Hskip Hzq), (zeros_then_skip skipW part rs Hskip Hzr), !firstn_skipn.
    fin5 Hwf3.
    + rewrite Hp_3, Hp_2, Hp_1. cbn [parts_bits]. fold qpart rpart.
      rewrite !app_length, !Nat2N.inj_add. change (N.to_nat 4) with 4%nat. lia.
    + exact (rd_adv_trans _ _ _ Hk1 (rd_adv_trans _ _ _ Hk2 Hk3)).
Qed.

(* ---- the whole residual ---- *)
Definition residual_bits (r : residual) : list bool :=
  false :: false :: bits_msb 4 (r_order r)
    ++ parts_bits (r_params r) (N.to_nat (r_block r / 2 ^ r_order r)) (N.to_nat (r_warmup r)) (r_quot r) (r_rem r).

Lemma bits6_of_order o : o <= 15 -> bits_msb 6 o = false :: false :: bits_msb 4 o.
Proof.
  intros Ho. cbn [bits_msb N.of_nat Pos.of_succ_nat Pos.succ].
  assert (H5 : N.testbit o 5 = false).
  { destruct (N.eq_dec o 0) as [->|Hnz]; [apply N.bits_0|]. apply N.bits_above_log2.
    apply N.log2_lt_pow2; [lia|]. change (2 ^ 5) with 32. lia. }
  assert (H4 : N.testbit o 4 = false).
  { destruct (N.eq_dec o 0) as [->|Hnz]; [apply N.bits_0|]. apply N.bits_above_log2.
    apply N.log2_lt_pow2; [lia|]. change (2 ^ 4) with 16. lia. }
  rewrite H5, H4. reflexivity.
Qed.

Lemma forallb_le14 l : forallb (fun p => p <=? c_RICE_MAX_RICE_PARAMETER) l = true ->
  Forall (fun p => p <= 31) l /\ Forall (fun p => p < 16) l.
Proof.
  induction l as [|x t IH]; cbn [forallb]; intros H; [split; constructor|].
  apply Bool.andb_true_iff in H. destruct H as [Hx Ht]. apply N.leb_le in Hx. change c_RICE_MAX_RICE_PARAMETER with 14 in Hx.
  destruct (IH Ht). split; constructor; try assumption; lia.
Qed.

Theorem residual_ops_bits r cur :
  verify_residual r = true -> ops_bitlist cur (residual_ops r) = residual_bits r.
Proof.
  intros Hv. destruct (verify_residual_facts r Hv) as (_ & _ & _ & Hpo & _ & _ & _ & _ & Hpar & _ & _ & Hrem).
  destruct (forallb_le14 _ Hpar) as [H31 _].
  unfold residual_ops, residual_bits.
  change (OLsbs 32 (r_order r) 6 :: ?x) with ([OLsbs 32 (r_order r) 6] ++ x).
  rewrite ops_bitlist_app. cbn [ops_bitlist op_bitlist]. rewrite app_nil_r.
  change (N.to_nat 6) with 6%nat. change c_RICE_MAX_PARTITION_ORDER with 15 in Hpo.
  rewrite bits6_of_order by exact Hpo. cbn [app]. do 2 f_equal. f_equal.
  apply parts_ops_bits; assumption.
Qed.

(* quotients are u32 values in the code *)
Definition quot_u32 (r : residual) : Prop := Forall (fun q => q < 2 ^ 32) (r_quot r).

Lemma forallb_zero_firstn (w : nat) (l : list N) :
  (w <= length l)%nat -> forallb (N.eqb 0) (firstn w l) = true -> firstn w l = repeat 0 w.
Proof.
  intros Hl H. pose proof (forallb_zero_repeat _ H) as E. rewrite firstn_length in E.
  replace (Nat.min w (length l)) with w in E by lia. exact E.
Qed.

Theorem reads_residual r :
  verify_residual r = true -> quot_u32 r ->
  reads (p_residual (r_block r) (r_warmup r)) (residual_bits r) r.
Proof.
  intros Hv Hq.
  destruct (verify_residual_facts r Hv) as (Hl & Hlq & Hmax & Hpo & Hp & Hpc & Hmod & Hw & Hpar & Hz & Hzr & Hrem).
  destruct (forallb_le14 _ Hpar) as [_ H16].
  change c_RICE_MAX_PARTITION_ORDER with 15 in Hpo.
  set (pc := 2 ^ r_order r) in *.
  assert (Hpcnz : pc <> 0) by (unfold pc; apply pow2_nz).
  set (plen := r_block r / pc) in *.
  assert (Hblk : plen * pc = r_block r).
  { pose proof (N.div_mod (r_block r) pc Hpcnz) as Hd. rewrite Hmod, N.add_0_r in Hd. unfold plen. lia. }
  assert (Hplen_le : plen <= r_block r) by nia.
  intros rd0 rest Hwf Hb. unfold residual_bits in Hb. fold pc plen in Hb.
  change (false :: false :: ?x) with ([false; false] ++ x) in Hb. rewrite <- !app_assoc in Hb.
  destruct (reads_rbits 2 0 ltac:(reflexivity) rd0 _ Hwf Hb) as (r1 & E1 & Hb1 & Hwf1 & Hp1 & Hk1).
  destruct (reads_rbits 4 (r_order r) ltac:(change (2 ^ 4) with 16; lia) r1 _ Hwf1 Hb1) as (r2 & E2 & Hb2 & Hwf2 & Hp2 & Hk2).
  assert (Hparams_len : length (r_params r) = N.to_nat pc) by lia.
  assert (Hlen_q : length (r_quot r) = (length (r_params r) * N.to_nat plen)%nat).
  { rewrite Hparams_len. apply Nat2N.inj. rewrite Nat2N.inj_mul, !N2Nat.id. lia. }
  assert (Hlen_r : length (r_rem r) = (length (r_params r) * N.to_nat plen)%nat) by (rewrite <- Hl; exact Hlen_q).
  assert (Hwq : (N.to_nat (r_warmup r) <= length (r_quot r))%nat) by lia.
  assert (Hwr : (N.to_nat (r_warmup r) <= length (r_rem r))%nat) by lia.
  assert (Hwp : (N.to_nat (r_warmup r) <= N.to_nat plen)%nat) by lia.
  destruct (reads_partitions (r_params r) true (N.to_nat plen) (r_warmup r) (r_quot r) (r_rem r)
              Hwp H16 Hrem Hq Hlen_q Hlen_r
              (forallb_zero_firstn _ _ Hwq Hz) (forallb_zero_firstn _ _ Hwr Hzr)
              r2 rest Hwf2 Hb2) as (r3 & E3 & Hb3 & Hwf3 & Hp3 & Hk3).
  exists r3. unfold p_residual. rewrite E1. change (1 <? 0) with false. cbv iota. change (0 =? 0) with true. cbv iota.
  rewrite E2. fold pc plen. rewrite Hblk, N.eqb_refl. cbn [negb orb].
  destruct (N.ltb_spec plen (r_warmup r)) as [Hlt|_]; [lia|].
  rewrite <- Hparams_len. rewrite N2Nat.id in E3. rewrite E3.
  assert (Eta : mkResidual (r_order r) (r_block r) (r_warmup r) (r_params r) (r_quot r) (r_rem r) = r) by (destruct r; reflexivity).
  rewrite Eta.
  split; [reflexivity|]. split; [exact Hb3|]. split; [exact Hwf3|]. split.
  - rewrite Hp3, Hp2, Hp1. rewrite !bits_msb_length. unfold residual_bits. fold pc plen.
    cbn [length]. rewrite app_length, bits_msb_length, !Nat2N.inj_succ, Nat2N.inj_add.
    change (N.to_nat 2) with 2%nat. change (N.to_nat 4) with 4%nat. lia.
  - exact (rd_adv_trans _ _ _ Hk1 (rd_adv_trans _ _ _ Hk2 Hk3)).
Qed.
