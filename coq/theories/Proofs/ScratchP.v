(* C10: clients of thread-local scratch give results that do not depend on what the scratch held. *)
From FV Require Import Generated Model.Base Model.Rice Model.Predict Model.Scratch
  Proofs.SinkArith Proofs.ListAux Proofs.RiceOpt Proofs.RiceFind.
Local Open Scope N_scope.

(* ---------------- Vec primitives ---------------- *)
Lemma vresize_length {A} n (d : A) l : length (vresize n d l) = n.
Proof. unfold vresize. rewrite app_length, firstn_length, repeat_length. lia. Qed.

Lemma overwrite_all {A} (new old : list A) : length old = length new -> overwrite_prefix new old = new.
Proof.
  intros H. unfold overwrite_prefix. rewrite skipn_all2 by lia. apply app_nil_r.
Qed.

Lemma overwrite_resized {A} (new : list A) d old : overwrite_prefix new (vresize (length new) d old) = new.
Proof. apply overwrite_all. apply vresize_length. Qed.

Lemma eval_partitions_length ts maxp : length (fst (eval_partitions ts maxp)) = length ts.
Proof. unfold eval_partitions. cbn [fst]. rewrite !map_length. reflexivity. Qed.

(* ---------------- Rice finder ---------------- *)
Lemma sfind_loop_search maxp : forall o ts ps min_ps mb mo,
  let '(_, min_ps', mb', mo') := sfind_loop o ts maxp ps min_ps mb mo in
  search o ts maxp (mkPrc mo min_ps mb) = mkPrc mo' min_ps' mb'.
Proof.
  induction o as [|o IH]; intros ts ps min_ps mb mo; cbn [sfind_loop search]; [reflexivity|].
  pose proof (eval_partitions_length (merge_pairs ts) maxp) as Hl.
  destruct (eval_partitions (merge_pairs ts) maxp) as [pnew bits]. cbn [fst] in Hl.
  rewrite <- Hl, overwrite_resized. cbn [prc_bits].
  destruct (bits <? mb).
  - apply IH.
  - apply IH.
Qed.

Lemma merge_pairs_length : forall (k : nat) (ts : list table), length ts = (2 * k)%nat -> length (merge_pairs ts) = k.
Proof.
  induction k as [|k IH]; intros ts H.
  - destruct ts; [reflexivity | discriminate].
  - destruct ts as [|a [|b r]]; cbn [length] in H; try lia.
    cbn [merge_pairs length]. rewrite IH by lia. reflexivity.
Qed.

(* the loop keeps |min_ps| = 2^min_order *)
Lemma sfind_loop_len maxp : forall o ts ps min_ps mb mo,
  length ts = Nat.pow 2 o -> length min_ps = N.to_nat (2 ^ mo) ->
  let '(_, min_ps', _, mo') := sfind_loop o ts maxp ps min_ps mb mo in
  length min_ps' = N.to_nat (2 ^ mo').
Proof.
  induction o as [|o IH]; intros ts ps min_ps mb mo Hts Hm; cbn [sfind_loop]; [exact Hm|].
  assert (Hml : length (merge_pairs ts) = Nat.pow 2 o) by (apply merge_pairs_length; rewrite Hts; cbn [Nat.pow]; lia).
  pose proof (eval_partitions_length (merge_pairs ts) maxp) as Hl.
  destruct (eval_partitions (merge_pairs ts) maxp) as [pnew bits]. cbn [fst] in Hl.
  rewrite <- Hl, overwrite_resized.
  destruct (bits <? mb).
  - apply IH; [exact Hml|]. rewrite Hl, Hml, pow2_N_nat, Nat2N.id. reflexivity.
  - apply IH; assumption.
Qed.

Definition res_snd {A B} (r : Res (A * B)) : Res B :=
  match r with Ok (_, b) => Ok b | Err e => Err e | Panic s => Panic s end.

(* PrcParameterFinder::find with ANY stale scratch computes the pure finder's answer *)
Theorem sfind_refines_find_prc st errs warmup maxp :
  res_snd (sfind st errs warmup maxp) = find_prc errs warmup maxp.
Proof.
  unfold sfind, find_prc.
  destruct (finest_partition_order (N.of_nat (length errs)) (N.max MIN_PART warmup)) as [order| |] eqn:Eo;
    cbn [bind res_snd]; try reflexivity.
  assert (Herr : overwrite_prefix (map zigzag errs) (vresize (length errs) 0 []) = map zigzag errs).
  { apply overwrite_all. rewrite vresize_length, map_length. reflexivity. }
  rewrite Herr.
  pose proof (finest_parts_length errs warmup order Eo) as Hfl. unfold finest_parts in Hfl.
  set (parts := match chunks _ _ with p0 :: r => _ :: r | [] => [] end) in *.
  pose proof (eval_partitions_length (map table_from_errors parts) maxp) as Hl. rewrite map_length in Hl.
  destruct (eval_partitions (map table_from_errors parts) maxp) as [pnew bits] eqn:Ee. cbn [fst] in Hl.
  assert (Hmin : overwrite_prefix pnew (vresize (N.to_nat (2 ^ order)) 0 (fd_min_ps st)) = pnew).
  { apply overwrite_all. rewrite vresize_length, Hl, Hfl, pow2_N_nat. reflexivity. }
  rewrite Hmin.
  pose proof (sfind_loop_search maxp (N.to_nat order) (map table_from_errors parts) (fd_ps st) pnew bits order) as Hs.
  pose proof (sfind_loop_len maxp (N.to_nat order) (map table_from_errors parts) (fd_ps st) pnew bits order) as Hlen.
  destruct (sfind_loop (N.to_nat order) (map table_from_errors parts) maxp (fd_ps st) pnew bits order)
    as [[[ps3 min_ps3] mb] mo].
  rewrite map_length, Hfl in Hlen. specialize (Hlen eq_refl ltac:(rewrite Hl, Hfl, pow2_N_nat; reflexivity)).
  cbn [res_snd]. rewrite Hs. rewrite firstn_all2 by (rewrite Hlen; apply Nat.le_refl). reflexivity.
Qed.

(* ... and the same answer for any two stale states *)
Corollary sfind_stale_independent st1 st2 errs warmup maxp :
  res_snd (sfind st1 errs warmup maxp) = res_snd (sfind st2 errs warmup maxp).
Proof. rewrite !sfind_refines_find_prc. reflexivity. Qed.

(* ---------------- fixed-predictor planes ---------------- *)
Lemma diff_planes_full : forall src carry dst1 dst2,
  length dst1 = length src -> length dst2 = length src ->
  diff_planes carry src dst1 = diff_planes carry src dst2.
Proof.
  induction src as [|x src IH]; intros carry dst1 dst2 H1 H2.
  - destruct dst1, dst2; try discriminate. reflexivity.
  - destruct dst1 as [|a d1], dst2 as [|b d2]; try discriminate.
    cbn [diff_planes diff_vec]. f_equal. apply IH; cbn [length] in *; lia.
Qed.

Lemma nvec_step n : (1 <= n)%nat -> S (nvec (n - 16)) = nvec n.
Proof.
  intros H. unfold nvec, LANES.
  destruct (Nat.le_gt_cases n 16) as [Hs|Hs].
  - replace (n - 16 + 16 - 1)%nat with 15%nat by lia.
    change (15 / 16)%nat with 0%nat.
    apply Nat.div_unique with (r := (n - 1)%nat); lia.
  - replace (n + 16 - 1)%nat with ((n - 16 + 16 - 1) + 1 * 16)%nat by lia.
    rewrite Nat.div_add by lia. lia.
Qed.

Lemma pack_fuel_length : forall fuel l, (length l <= fuel)%nat -> length (pack_fuel fuel l) = nvec (length l).
Proof.
  induction fuel as [|f IH]; intros l Hl.
  - destruct l; [reflexivity | cbn in Hl; lia].
  - destruct l as [|x r] eqn:El; [reflexivity|].
    assert (Hn : (1 <= length l)%nat) by (subst l; cbn [length]; lia).
    rewrite <- El in *. clear El x r.
    assert (E : pack_fuel (S f) l = (firstn LANES l ++ repeat 0%Z (LANES - length (firstn LANES l))) :: pack_fuel f (skipn LANES l)).
    { destruct l; [cbn in Hn; lia | reflexivity]. }
    rewrite E. cbn [length]. rewrite IH by (rewrite skipn_length; unfold LANES; lia).
    rewrite skipn_length. unfold LANES. apply nvec_step. exact Hn.
Qed.

Lemma diff_planes_length : forall src carry dst, length dst = length src -> length (diff_planes carry src dst) = length src.
Proof.
  induction src as [|x src IH]; intros carry dst H.
  - destruct dst; [reflexivity | discriminate].
  - destruct dst as [|a d]; [discriminate|]. cbn [diff_planes diff_vec length]. rewrite IH; cbn [length] in H; lia.
Qed.

Lemma next_plane_independent prev s1 s2 len :
  length (sv_inner prev) = nvec len -> next_plane prev s1 len = next_plane prev s2 len.
Proof.
  intros H. unfold next_plane, sv_resize. cbn [sv_inner]. f_equal.
  apply diff_planes_full; rewrite vresize_length; symmetry; exact H.
Qed.

Lemma next_plane_inner_length prev s len :
  length (sv_inner prev) = nvec len -> length (sv_inner (next_plane prev s len)) = nvec len.
Proof.
  intros H. unfold next_plane, sv_resize. cbn [sv_inner]. rewrite diff_planes_length; [exact H|].
  rewrite vresize_length. symmetry. exact H.
Qed.

(* reset_fixed_lpc_errors leaves the same planes - every lane, padding included - whatever they held *)
Theorem reset_planes_stale_independent st1 st2 signal : reset_planes st1 signal = reset_planes st2 signal.
Proof.
  unfold reset_planes.
  set (p0 := sv_reset_from_slice signal).
  assert (H0 : length (sv_inner p0) = nvec (length signal)) by (apply pack_fuel_length; lia).
  set (n := length signal) in *.
  pose proof (next_plane_independent p0 (nth 1 st1 (mkSV [] 0)) (nth 1 st2 (mkSV [] 0)) n H0) as E1.
  pose proof (next_plane_inner_length p0 (nth 1 st2 (mkSV [] 0)) n H0) as H1.
  rewrite E1. set (p1 := next_plane p0 (nth 1 st2 (mkSV [] 0)) n) in *.
  pose proof (next_plane_independent p1 (nth 2 st1 (mkSV [] 0)) (nth 2 st2 (mkSV [] 0)) n H1) as E2.
  pose proof (next_plane_inner_length p1 (nth 2 st2 (mkSV [] 0)) n H1) as H2.
  rewrite E2. set (p2 := next_plane p1 (nth 2 st2 (mkSV [] 0)) n) in *.
  pose proof (next_plane_independent p2 (nth 3 st1 (mkSV [] 0)) (nth 3 st2 (mkSV [] 0)) n H2) as E3.
  pose proof (next_plane_inner_length p2 (nth 3 st2 (mkSV [] 0)) n H2) as H3.
  rewrite E3. set (p3 := next_plane p2 (nth 3 st2 (mkSV [] 0)) n) in *.
  pose proof (next_plane_independent p3 (nth 4 st1 (mkSV [] 0)) (nth 4 st2 (mkSV [] 0)) n H3) as E4.
  rewrite E4. reflexivity.
Qed.

(* ---------------- window cache ---------------- *)
Section CacheP.
  Variable V : Type.
  Variable compute : option N -> N -> V.
  Variable key : option N -> N -> N * N.
  Variable dom : option N -> N -> Prop.                 (* the requests a thread can make *)
  Hypothesis key_inj : forall w1 s1 w2 s2, dom w1 s1 -> dom w2 s2 -> key w1 s1 = key w2 s2 -> w1 = w2 /\ s1 = s2.

  Definition cache_ok (c : cache V) : Prop :=
    forall k v, In (k, v) c -> exists w s, dom w s /\ k = key w s /\ v = compute w s.

  Lemma key_eqb_eq a b : key_eqb a b = true <-> a = b.
  Proof.
    unfold key_eqb. destruct a as [a1 a2], b as [b1 b2]. cbn [fst snd].
    rewrite Bool.andb_true_iff, !N.eqb_eq. split; [intros [-> ->]; reflexivity | intros E; inversion E; auto].
  Qed.

  Lemma lookup_in k : forall c v, lookup V k c = Some v -> In (k, v) c.
  Proof.
    induction c as [|[k' v'] r IH]; intros v H; cbn [lookup] in H; [discriminate|].
    destruct (key_eqb k k') eqn:E.
    - apply key_eqb_eq in E. subst k'. inversion H. left. reflexivity.
    - right. apply IH. exact H.
  Qed.

  Lemma get_window_ok c w s :
    cache_ok c -> dom w s ->
    snd (get_window V compute key c w s) = compute w s /\ cache_ok (fst (get_window V compute key c w s)).
  Proof.
    intros Hc Hd. unfold get_window.
    destruct (lookup V (key w s) c) as [v|] eqn:El; cbn [fst snd].
    - split; [|exact Hc].
      destruct (Hc _ _ (lookup_in _ _ _ El)) as (w' & s' & Hd' & Hk & Hv).
      destruct (key_inj _ _ _ _ Hd Hd' Hk) as [-> ->]. exact Hv.
    - split; [reflexivity|].
      intros k v [E|Hin]; [inversion E; subst; exists w, s; auto | exact (Hc _ _ Hin)].
  Qed.

  (* every lookup of a thread's life returns the window computed from scratch *)
  Theorem run_cache_exact : forall reqs c,
    cache_ok c -> Forall (fun r => dom (fst r) (snd r)) reqs ->
    run_cache V compute key c reqs = map (fun r => compute (fst r) (snd r)) reqs.
  Proof.
    induction reqs as [|[w s] r IH]; intros c Hc Hd; cbn [run_cache map]; [reflexivity|].
    inversion Hd as [|? ? H1 H2]; subst. cbn [fst snd] in H1.
    destruct (get_window_ok c w s Hc H1) as [Hv Hc'].
    destruct (get_window V compute key c w s) as [c' v]. cbn [fst snd] in *. subst v.
    f_equal. apply IH; assumption.
  Qed.
End CacheP.

(* the key of the code: (size, fingerprint) separates all windows with a 32-bit parameter *)
Definition alpha_dom (w : option N) (_ : N) : Prop := match w with Some b => b < 2 ^ 32 | None => True end.

Lemma exact_key_inj w1 s1 w2 s2 :
  alpha_dom w1 s1 -> alpha_dom w2 s2 -> exact_key w1 s1 = exact_key w2 s2 -> w1 = w2 /\ s1 = s2.
Proof.
  unfold exact_key, alpha_dom. intros H1 H2 E.
  assert (Hs : s1 = s2) by (apply (f_equal fst) in E; exact E).
  apply (f_equal snd) in E. cbn [snd] in E. split; [|exact Hs].
  assert (P32 : 2 ^ 32 < 2 ^ 56) by (apply N.pow_lt_mono_r; lia).
  unfold fingerprint in E. set (P := 2 ^ 56) in *.
  destruct w1 as [a|], w2 as [b|]; try reflexivity; try lia. f_equal. lia.
Qed.

Theorem window_cache_exact (V : Type) (compute : option N -> N -> V) reqs :
  Forall (fun r => alpha_dom (fst r) (snd r)) reqs ->
  run_cache V compute exact_key [] reqs = map (fun r => compute (fst r) (snd r)) reqs.
Proof.
  apply (run_cache_exact V compute exact_key alpha_dom exact_key_inj).
  intros k v [].
Qed.

(* conversely, ANY key that identifies two different requests makes some history observable *)
Theorem colliding_key_leaks (V : Type) (compute : option N -> N -> V) (key : option N -> N -> N * N) w1 s1 w2 s2 :
  key w1 s1 = key w2 s2 ->
  run_cache V compute key [] [(w1, s1); (w2, s2)] = [compute w1 s1; compute w1 s1].
Proof.
  intros E.
  assert (H : key_eqb (key w2 s2) (key w1 s1) = true) by (rewrite E; unfold key_eqb; rewrite !N.eqb_refl; reflexivity).
  unfold run_cache, get_window. cbn [lookup]. rewrite H. reflexivity.
Qed.

(* ---------------- QLPC error buffer ---------------- *)
Lemma lpc_errors_from_len cs sh : forall rest hist, length (lpc_errors_from cs sh hist rest) = length rest.
Proof. induction rest as [|x t IH]; intros hist; cbn [lpc_errors_from length]; [reflexivity|]. rewrite IH. reflexivity. Qed.

Lemma lpc_errors_len q signal errs : lpc_errors q signal = Ok errs -> length errs = length signal.
Proof.
  unfold lpc_errors. intros E.
  destruct (q_shift q <? 0)%Z; [discriminate|].
  destruct (maxabs signal * sumabs (q_coefs q) <? 2147483647)%Z.
  - destruct (forallb _ _); [|discriminate]. inversion E; subst errs.
    rewrite app_length, repeat_length, lpc_errors_from_len, skipn_length. lia.
  - inversion E; subst errs.
    rewrite app_length, repeat_length, map_length, lpc_errors_from_len, skipn_length. lia.
Qed.

Theorem qlpc_buffer_stale_independent stale q signal :
  qlpc_error_buffer stale q signal = lpc_errors q signal.
Proof.
  unfold qlpc_error_buffer. destruct (lpc_errors q signal) as [e| |] eqn:E; cbn [bind]; try reflexivity.
  f_equal. unfold overwrite_prefix. rewrite skipn_all2; [apply app_nil_r|].
  rewrite vresize_length, (lpc_errors_len q signal e E). lia.
Qed.

(* ---------------- mid/side frame buffer ---------------- *)
Theorem ms_buffer_stale_independent (b : fbuf) (n : nat) (pairs : list (Z * Z)) :
  (1 <= fbs_size b)%nat -> length (fbs_samples b) = (2 * fbs_size b)%nat ->      (* a stereo buffer, whatever it holds *)
  (length pairs <= n)%nat ->
  let b' := fbs_fill_stereo pairs (fbs_resize n b) in
  fbs_channel b' 0 = map fst pairs /\ fbs_channel b' 1 = map snd pairs.
Proof.
  intros Hs Hl Hp. cbv zeta.
  assert (Hch : fbs_channels b = 2%nat).
  { unfold fbs_channels. rewrite Hl. apply Nat.div_mul. lia. }
  unfold fbs_resize. rewrite Hch. unfold fbs_fill_stereo. cbn [fbs_samples fbs_size fbs_filled].
  set (S' := vresize (n * 2) 0%Z (fbs_samples b)).
  assert (HS : length S' = (n * 2)%nat) by apply vresize_length.
  set (m := firstn n S'). set (s := skipn n S').
  assert (Hm : length m = n) by (unfold m; rewrite firstn_length; lia).
  assert (Hsn : length s = n) by (unfold s; rewrite skipn_length; lia).
  rewrite Hm, Hsn, Nat.min_id. replace (Nat.min (length pairs) n) with (length pairs) by lia.
  rewrite firstn_all. unfold fbs_channel. cbn [fbs_samples fbs_size fbs_filled].
  set (m' := overwrite_prefix (map fst pairs) m). set (s' := overwrite_prefix (map snd pairs) s).
  assert (Hm' : length m' = n).
  { unfold m', overwrite_prefix. rewrite app_length, skipn_length, !map_length. lia. }
  split.
  - cbn [Nat.mul skipn]. unfold m', overwrite_prefix. rewrite <- app_assoc.
    rewrite <- (map_length fst pairs) at 1. rewrite firstn_app, Nat.sub_diag, firstn_all. cbn [firstn]. apply app_nil_r.
  - rewrite Nat.mul_1_l. rewrite <- Hm' at 1. rewrite skipn_app, skipn_all, Nat.sub_diag. cbn [skipn app].
    unfold s', overwrite_prefix. rewrite <- (map_length snd pairs) at 1. rewrite firstn_app, Nat.sub_diag, firstn_all. cbn [firstn]. apply app_nil_r.
Qed.
