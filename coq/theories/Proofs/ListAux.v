(* Facts about Rice.chunks (splitting a list into consecutive slices). *)
From FV Require Import Model.Base Model.Rice.

Lemma chunks_fuel_concat {A} k : forall fuel (l : list A),
  (0 < k)%nat -> (length l <= fuel)%nat -> concat (chunks_fuel fuel k l) = l.
Proof.
  induction fuel as [|f IH]; intros l Hk Hl.
  - destruct l; [reflexivity | cbn in Hl; lia].
  - cbn [chunks_fuel]. destruct l as [|x t] eqn:E; [reflexivity|]. rewrite <- E in *.
    cbn [concat]. rewrite IH; [apply firstn_skipn | assumption |].
    rewrite skipn_length. subst l. cbn [length] in *. lia.
Qed.

Lemma chunks_concat {A} k (l : list A) : (0 < k)%nat -> concat (chunks k l) = l.
Proof. intros Hk. apply chunks_fuel_concat; [assumption | apply le_n]. Qed.

(* when k divides the length, every chunk has exactly k elements and there are len/k of them *)
Lemma chunks_fuel_exact {A} k : forall m fuel (l : list A),
  (0 < k)%nat -> length l = (m * k)%nat -> (length l <= fuel)%nat ->
  length (chunks_fuel fuel k l) = m /\ Forall (fun c => length c = k) (chunks_fuel fuel k l).
Proof.
  induction m as [|m IH]; intros fuel l Hk Hl Hf.
  - cbn in Hl. destruct l; [|discriminate]. destruct fuel; cbn; split; constructor.
  - destruct fuel as [|f]; [cbn in Hl; lia|].
    cbn [chunks_fuel]. destruct l as [|x t] eqn:E; [cbn in Hl; lia|]. rewrite <- E in *.
    assert (Hsk : length (skipn k l) = (m * k)%nat) by (rewrite skipn_length; lia).
    destruct (IH f (skipn k l) Hk Hsk ltac:(subst l; cbn [length] in *; lia)) as [H1 H2].
    cbn [length]. split; [lia|]. constructor; [|assumption].
    rewrite firstn_length. lia.
Qed.

Lemma chunks_exact {A} k m (l : list A) :
  (0 < k)%nat -> length l = (m * k)%nat ->
  length (chunks k l) = m /\ Forall (fun c => length c = k) (chunks k l).
Proof. intros Hk Hl. apply chunks_fuel_exact; [assumption | assumption | apply le_n]. Qed.

(* in general: all chunks but the last have k elements, the last has 1..k *)
Lemma chunks_fuel_shape {A} k : forall fuel (l : list A),
  (0 < k)%nat -> (length l <= fuel)%nat ->
  Forall (fun c => (1 <= length c <= k)%nat) (chunks_fuel fuel k l) /\
  (forall pre c, chunks_fuel fuel k l = pre ++ [c] -> Forall (fun c' => length c' = k) pre).
Proof.
  induction fuel as [|f IH]; intros l Hk Hl.
  - cbn. split; [constructor|]. intros pre c H. destruct pre; discriminate.
  - cbn [chunks_fuel]. destruct l as [|x t] eqn:E.
    + split; [constructor|]. intros pre c H. destruct pre; discriminate.
    + rewrite <- E in *.
      assert (Hl2 : (length (skipn k l) <= f)%nat) by (rewrite skipn_length; subst l; cbn [length] in *; lia).
      destruct (IH (skipn k l) Hk Hl2) as [H1 H2]. split.
      * constructor; [|assumption]. rewrite firstn_length. subst l. cbn [length]. lia.
      * intros pre c H. destruct pre as [|p0 pre'].
        -- constructor.
        -- cbn [app] in H. inversion H as [[Hp Hrest]]. constructor.
           ++ (* p0 is not the last chunk, so the tail is non-empty, so l has more than k elements *)
              rewrite firstn_length.
              destruct (Nat.le_gt_cases k (length l)) as [Hle|Hgt]; [lia|].
              exfalso. rewrite skipn_all2 in Hrest by lia.
              destruct f; cbn in Hrest; destruct pre'; discriminate.
           ++ apply (H2 pre' c). assumption.
Qed.
