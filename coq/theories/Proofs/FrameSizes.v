(* C04: the frame-size bounds of STREAMINFO against the frame lengths the independent decoder observes. *)
From FV Require Import Generated Model.Base Model.Sink Model.Crc Model.Codes Model.Rice Model.Predict
  Model.Component Model.Flac Model.Encoder Model.Ctor
  Proofs.CountBits Proofs.CtorP Proofs.Lossless Proofs.DecodeFrame Proofs.EncodeFrameE2E Proofs.StreamInfoP
  Proofs.StreamLists Proofs.DecodeStream Proofs.ParseFrame Proofs.ParseFrameCtor Proofs.ParseEncoded Proofs.EncoderSize.
Local Open Scope N_scope.

(* the decoder's frame walk measures exactly the byte length of each frame *)
Lemma frame_lengths_all si : forall fbs idx out fuel,
  frames_spec si idx fbs out -> (length fbs <= fuel)%nat ->
  frame_lengths fuel si (concat fbs) = Some (map (fun fb => N.of_nat (length fb)) fbs).
Proof.
  induction fbs as [|fb fr IH]; intros idx out fuel H Hf.
  - cbn [concat map]. destruct fuel; reflexivity.
  - destruct out as [|hc hr]; [destruct H|]. destruct H as (Hne & H256 & Hnum & Hread & Hr).
    destruct fuel as [|fuel]; [cbn in Hf; lia|]. cbn [concat frame_lengths map].
    destruct (fb ++ concat fr) as [|b0 t0] eqn:Ecat; [destruct fb; [congruence | discriminate]|]. rewrite <- Ecat.
    rewrite (Hread _ (frames_spec_lt256 si _ _ _ Hr)).
    rewrite (IH _ _ fuel Hr) by (cbn in Hf; lia).
    rewrite app_length. replace (length fb + length (concat fr) - length (concat fr))%nat with (length fb) by lia. reflexivity.
Qed.

(* a canonical frame's byte length is its size field, when it fits the field *)
Lemma canonical_frame_length f fb channels bps :
  frame_canon channels bps f -> frame_bytes f = Ok fb -> frame_count_bits f / 8 < 2 ^ 24 ->
  N.of_nat (length fb) = frame_size_field f.
Proof.
  intros Hc Hfb Hsmall. pose proof (canonical_frame_count_bits f fb channels bps Hc Hfb) as H8.
  unfold frame_size_field. rewrite <- H8. rewrite N.mul_comm, N.div_mul by lia.
  symmetry. apply N.mod_small. rewrite <- H8, N.mul_comm, N.div_mul in Hsmall by lia.
  change (2 ^ 24) with 16777216 in Hsmall. change (2 ^ 32) with 4294967296. lia.
Qed.

From FV Require Import Proofs.SinkArith Proofs.SinkRefine Proofs.OpsLen Proofs.CrcP Proofs.BitRead Proofs.BitWrite Proofs.StreamBytes.

(* the bytes of a stream without further metadata: 42 header bytes, then the frames' bytes *)
Lemma stream_bytes_split i frames fbs bytes :
  info_wf i -> Forall2 frame_fb frames fbs -> stream_bytes (mkStream i [] frames) = Ok bytes ->
  exists hb, length hb = 42%nat /\ bytes = hb ++ concat fbs.
Proof.
  intros Hiw HF2 E.
  assert (Hfos : exists fos, Forall2 (fun f fo => frame_ops f = Ok fo) frames fos
                             /\ Forall2 (fun fo fb => pack KU8 fo = Ok fb) fos fbs
                             /\ Forall (fun fo => forallb wf_op fo = true /\ ops_len 0 fo mod 8 = 0) fos).
  { clear -HF2. induction HF2 as [|f fb fr fbr (Efb & Hpre & Hw) _ (fos & A & B & C)].
    - exists []. repeat split; constructor.
    - destruct (frame_ops_shape f Hpre Hw) as (body & Eo & Hb). destruct (frame_ops_wf body Hb) as [W1 W2].
      exists ([OBytes body; OWrite 16 (crc16 body)] :: fos). split; [constructor; assumption|]. split.
      + constructor; [|exact B]. unfold frame_bytes in Efb. rewrite Eo in Efb. exact Efb.
      + constructor; [split; assumption | exact C]. }
  destruct Hfos as (fos & Hfo1 & Hfo2 & Hfo3).
  unfold stream_bytes, stream_ops in E. cbn [s_frames s_meta s_info] in E.
  rewrite (Forall2_mapM frame_ops frames fos Hfo1) in E. cbn [bind meta_ops] in E.
  change ([OBytes [102; 76; 97; 67]] ++ metadata_ops true 0 272 (streaminfo_ops i) ++ [] ++ concat fos)
    with ([OBytes [102; 76; 97; 67]] ++ metadata_ops true 0 272 (streaminfo_ops i) ++ concat fos) in E.
  rewrite app_assoc in E. fold (hdr_ops i) in E.
  pose proof (hdr_ops_wf i Hiw) as Hhw.
  pose proof (hdr_ops_len i (iw_md5_len _ Hiw)) as Hhl.
  destruct (pack_total KU8 _ Hhw) as [hb Ehb].
  destruct (pack_concat_aligned fos (hdr_ops i) hb Hhw ltac:(rewrite Hhl; reflexivity) Ehb Hfo3) as (fbs' & Hfb' & Epack).
  assert (fbs' = fbs).
  { clear -Hfo2 Hfb'. revert fbs' Hfb'. induction Hfo2 as [|fo fb r rb H1 _ IH]; intros fbs' H; inversion H as [|? fb' ? rb' H2 Hr]; subst; [reflexivity|].
    rewrite H1 in H2. apply Ok_inj in H2. subst fb'. f_equal. apply IH. exact Hr. }
  subst fbs'. rewrite Epack in E. apply Ok_inj in E. subst bytes.
  exists hb. split; [|reflexivity].
  destruct (pack_u8_bits _ hb Hhw Ehb) as [_ Hbits]. apply (f_equal (@length bool)) in Hbits.
  rewrite bytes_bits_length, app_length, repeat_length, Hhl in Hbits. change (pad8 336) with 0 in Hbits.
  pose proof (ops_bitlist_length (hdr_ops i) 0) as Hl. rewrite Hhl in Hl. lia.
Qed.

Section Sizes.
  Variable ent : N -> N -> N -> N.
  Variable qlpc : N -> N -> qparams.
  Variable md5 : list N -> list N.

  (* C04 against the decoder: the frame lengths the independent decoder measures on the emitted bytes are the
     frames' size fields, so STREAMINFO's min / max frame size are the smallest / largest frame actually present *)
  Theorem encoded_frame_lengths cfg rate channels bps bs samples s bytes (total : nat) si :
    encode_stream ent qlpc md5 cfg rate channels bps bs samples = Ok s -> stream_bytes s = Ok bytes ->
    cfg_max_parameter cfg <= 14 -> In bps [8; 12; 16; 20; 24] -> rate < 2 ^ 32 -> 1 <= channels <= 8 ->
    1 <= bs <= c_MAX_BLOCK_SIZE ->
    length samples = (total * N.to_nat channels)%nat -> N.of_nat total < 2 ^ 36 ->
    length (md5 (md5_input bps samples)) = 16%nat -> Forall lt256 (md5 (md5_input bps samples)) ->
    (forall j b, nth_error (chunks (N.to_nat (bs * channels)) samples) j = Some b ->
                 block_hyps qlpc cfg (N.of_nat j) channels bps b (length b / N.to_nat channels)) ->
    i_rate si = rate -> i_bps si = bps ->
    let payload := skipn 42 bytes in
    frame_lengths (length payload) si payload = Some (map frame_size_field (s_frames s)) /\
    (s_frames s <> [] ->
       In (si_min_frame (s_info s)) (map frame_size_field (s_frames s)) /\
       In (si_max_frame (s_info s)) (map frame_size_field (s_frames s)) /\
       forall x, In x (map frame_size_field (s_frames s)) -> si_min_frame (s_info s) <= x <= si_max_frame (s_info s)).
  Proof.
    intros E Eb Hmp Hbps Hrate Hch Hbs Hlen Htot Hml Hm256 Hblocks Hsr Hsb payload.
    pose proof (streaminfo_of_encoded ent qlpc md5 cfg rate channels bps bs samples s E) as Hsi. cbv zeta in Hsi.
    destruct Hsi as (_ & _ & _ & St & Sm & _ & _ & Sfr).
    split.
    2:{ intros Hne. destruct (Sfr Hne) as (A & B & C). split; [exact A|]. split; [exact B|].
        intros x Hx. apply in_map_iff in Hx. destruct Hx as (f & <- & Hf). exact (C f Hf). }
    set (c := N.to_nat channels) in *. set (bsn := N.to_nat bs).
    assert (Hk : N.to_nat (bs * channels) = (bsn * c)%nat) by (unfold bsn, c; lia).
    unfold encode_stream in E. rewrite Hk in E, Hblocks.
    set (blocks := chunks (bsn * c) samples) in *.
    assert (Hchunked : chunked (bsn * c) c blocks).
    { apply (chunks_chunked (bsn * c) c bsn samples total); [unfold bsn, c; nia | reflexivity | exact Hlen]. }
    destruct (encode_blocks ent qlpc cfg rate channels bps 0 blocks) as [frames| |] eqn:Ebl; cbn [bind] in E; try discriminate.
    assert (Hbsn : N.of_nat bsn = bs) by (unfold bsn; lia).
    assert (Hhyps : blocks_hyps qlpc cfg channels bps 0 blocks).
    { apply (blocks_hyps_of_nth qlpc cfg channels bps bsn); [lia | unfold bsn; lia | rewrite Hbsn; lia | exact Hchunked | exact Hblocks]. }
    destruct (encode_blocks_decode ent qlpc cfg rate channels bps si Hmp Hbps Hrate Hch Hsr Hsb blocks 0 frames Ebl Hhyps)
      as (fbs & out & HF2 & Hspec & _).
    pose proof (encoded_blocks_canon ent qlpc cfg rate channels bps Hmp Hbps Hrate Hch blocks 0 frames Ebl Hhyps) as Hcanon.
    apply Ok_inj in E. subst s. cbn [s_frames s_info] in *.
    match type of Eb with stream_bytes (mkStream ?ii _ _) = _ => set (i2 := ii) in * end.
    assert (Hiw : info_wf i2).
    { constructor; cbn [si_total si_md5 i2]; try assumption.
      rewrite Hlen, Nat2N.inj_mul. unfold c. rewrite N2Nat.id, N.div_mul by lia.
      change (2 ^ 36) with 68719476736 in Htot. change (2 ^ 64) with 18446744073709551616. lia. }
    destruct (stream_bytes_split i2 frames fbs bytes Hiw HF2 Eb) as (hb & Hhb & ->).
    unfold payload. rewrite !(skipn_exact hb (concat fbs) 42 Hhb).
    rewrite (frame_lengths_all si fbs 0 out _ Hspec (frames_spec_count si fbs 0 out Hspec)). f_equal.
    clear -HF2 Hcanon. induction HF2 as [|f fb fr fbr (Efb & _ & _) _ IH]; [reflexivity|].
    inversion Hcanon as [|? ? (Hc & _ & Hs) Hr]; subst. cbn [map]. f_equal; [|exact (IH Hr)].
    exact (canonical_frame_length f fb channels bps Hc Efb Hs).
  Qed.

  (* C09 in bytes: the bytes of an encoded frame never exceed header + verbatim subframes + padding + CRC-16 *)
  Theorem encoded_frame_bytes_le_verbatim cfg rate channels bps fi b f fb n :
    encode_frame ent qlpc cfg rate channels bps fi fi b = Ok f -> frame_bytes f = Ok fb ->
    cfg_max_parameter cfg <= 14 -> In bps [8; 12; 16; 20; 24] -> rate < 2 ^ 32 -> 1 <= channels <= 8 -> fi < 2 ^ 31 ->
    (1 <= n)%nat -> N.of_nat n <= c_MAX_BLOCK_SIZE -> length b = (n * N.to_nat channels)%nat ->
    block_hyps qlpc cfg fi channels bps b n -> samples_ok bps b = true ->
    8 * N.of_nat (length fb) <= header_count_bits (f_header f) + channels * (8 + N.of_nat n * bps) + 23.
  Proof.
    intros E Hfb Hmp Hbps Hrate Hch Hfi Hn1 Hn Hlen Hblk Hso.
    destruct (encoded_frame_canon ent qlpc cfg rate channels bps fi b f n E Hmp Hbps Hrate Hch Hfi Hn1 Hn Hlen Hblk Hso) as [Hc _].
    rewrite (canonical_frame_count_bits f fb channels bps Hc Hfb).
    destruct Hc as (Hpre & _).
    pose proof (frame_bits_le f Hpre) as Hle.
    pose proof (frame_channels_lengths channels b n ltac:(lia) Hlen) as Hlens.
    assert (Hne : Forall (fun c : list Z => c <> []) (EncoderSize.frame_channels channels b)).
    { eapply Forall_impl; [|exact Hlens]. intros c Hc0 ->. cbn in Hc0. lia. }
    destruct (EncoderSize.encode_frame_le_verbatim ent qlpc cfg rate channels bps fi fi b f E Hne) as [_ Hv].
    pose proof (sum_verbatim_le bps n _ Hlens) as Hsum.
    assert (Hcnt : N.of_nat (length (EncoderSize.frame_channels channels b)) = channels).
    { unfold EncoderSize.frame_channels. rewrite !map_length, seq_length. lia. }
    rewrite Hcnt in Hsum. lia.
  Qed.
End Sizes.
