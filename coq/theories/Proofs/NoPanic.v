(* C07, second half: a verified configuration never makes the subframe encoder panic on valid
   input, whatever the estimators answer (within the stated estimator hypotheses). *)
From FV Require Import Generated Model.Base Model.Codes Model.Rice Model.Predict Model.Component
  Model.Encoder Model.Config Proofs.SinkArith Proofs.Lossless Proofs.ConfigP.
Local Open Scope N_scope.

Definition not_panic {A} (r : Res A) : Prop := forall site, r <> Panic site.

Lemma find_prc_ok errs warmup maxp :
  64 <= N.of_nat (length errs) -> warmup <= 64 -> exists pr, find_prc errs warmup maxp = Ok pr.
Proof.
  intros Hn Hw. unfold find_prc, finest_partition_order.
  change MIN_PART with 64. replace (N.max 64 warmup) with 64 by lia. cbn [N.eqb].
  destruct (N.eqb_spec (N.of_nat (length errs) / 64) 0) as [E|E].
  - exfalso. assert (1 <= N.of_nat (length errs) / 64) by (apply N.div_le_lower_bound; lia). lia.
  - cbn [bind]. destruct (eval_partitions _ maxp). eexists. reflexivity.
Qed.

Lemma encode_residual_ok errs warmup maxp :
  64 <= N.of_nat (length errs) -> warmup <= 64 -> exists r, encode_residual errs warmup maxp = Ok r.
Proof.
  intros Hn Hw. unfold encode_residual. destruct (find_prc_ok errs warmup maxp Hn Hw) as [pr E].
  rewrite E. cbn [bind]. eexists. reflexivity.
Qed.

Lemma forallb_in_i32_bounded B l : (0 <= B < 2147483648)%Z -> bounded B l -> forallb in_i32 l = true.
Proof.
  intros HB Hl. apply forallb_forall. intros x Hx. unfold bounded in Hl. rewrite Forall_forall in Hl.
  specialize (Hl x Hx). unfold in_i32. apply Bool.andb_true_iff. split; apply Z.ltb_lt; lia.
Qed.

Lemma bounded_skipn B k l : bounded B l -> bounded B (skipn k l).
Proof.
  unfold bounded. rewrite !Forall_forall. intros H x Hx. apply H.
  rewrite <- (firstn_skipn k l). apply in_or_app. right. exact Hx.
Qed.

Lemma fixed_errors_bounded k l : (k <= 4)%nat -> bounded (2 ^ 25) l -> bounded (2 ^ 29) (fixed_errors k l).
Proof.
  intros Hk Hb.
  assert (Hlim : (2 ^ Z.of_nat k * 2 ^ 25 < 2147483648)%Z).
  { assert (2 ^ Z.of_nat k <= 2 ^ 4)%Z by (apply Z.pow_le_mono_r; lia). lia. }
  destruct (fixed_errors_exact (2 ^ 25) k l ltac:(lia) Hlim Hb) as [E Hbd]. rewrite E.
  eapply Forall_impl; [|exact Hbd]. cbn. intros x Hx.
  assert (2 ^ Z.of_nat k <= 2 ^ 4)%Z by (apply Z.pow_le_mono_r; lia). lia.
Qed.

Lemma fixed_errors_length k : forall l, length (fixed_errors k l) = length l.
Proof.
  induction k as [|k IH]; intros l; cbn [fixed_errors]; [reflexivity|].
  unfold diff1. rewrite <- (IH l). generalize (fixed_errors k l) 0%Z.
  induction l0 as [|x r IHr]; intros p; cbn [diff_from length]; [reflexivity|]. rewrite IHr. reflexivity.
Qed.

Lemma mapM_not_panic {A B} (f : A -> Res B) l :
  (forall x, In x l -> exists y, f x = Ok y) -> exists ys, mapM f l = Ok ys.
Proof.
  induction l as [|x r IH]; intros H; cbn [mapM]; [eexists; reflexivity|].
  destruct (H x (or_introl eq_refl)) as [y Ey]. rewrite Ey. cbn [bind].
  destruct (IH (fun x' Hx' => H x' (or_intror Hx'))) as [ys Eys]. rewrite Eys. cbn [bind]. eexists. reflexivity.
Qed.

Section NP.
  Variable ent : N -> N -> N -> N.
  Variable qlpc : N -> N -> qparams.

  Lemma fixed_candidate_ok experimental cfg fi var signal bps baseline :
    verify experimental cfg = true ->
    64 <= N.of_nat (length signal) -> bounded (2 ^ 25) signal ->
    exists r, fixed_candidate ent cfg fi var signal bps baseline = Ok r.
  Proof.
    intros Hv Hn Hb. unfold fixed_candidate.
    set (maxo := N.min (cfg_fixed_max_order cfg) 4).
    set (cands := map (fun k => (k, fixed_errors (N.to_nat k) signal)) (orders_upto maxo)).
    assert (Hc : forall k e, In (k, e) cands -> k <= 4 /\ e = fixed_errors (N.to_nat k) signal).
    { intros k e Hin. unfold cands in Hin. apply in_map_iff in Hin. destruct Hin as (k0 & E & Hin).
      inversion E; subst. split; [|reflexivity].
      unfold orders_upto in Hin. apply in_map_iff in Hin. destruct Hin as (i & <- & Hi).
      apply in_seq in Hi. unfold maxo in Hi. lia. }
    assert (Hok : forall k e, In (k, e) cands ->
              forallb in_i32 (skipn (N.to_nat k) e) = true /\ 64 <= N.of_nat (length e)).
    { intros k e Hin. destruct (Hc k e Hin) as [Hk ->]. split.
      - apply (forallb_in_i32_bounded (2 ^ 29)); [lia|]. apply bounded_skipn.
        apply fixed_errors_bounded; [lia | assumption].
      - rewrite fixed_errors_length. assumption. }
    destruct (cfg_order_sel cfg) as [parts|] eqn:Eos.
    - (* ApproxEnt: partitions >= 1 by verification *)
      apply verify_exact in Hv. destruct Hv as (_ & _ & Hparts & _). destruct (Hparts parts Eos) as [Hp1 _].
      destruct (N.eqb_spec parts 0); [lia|].
      destruct (first_min _ _) as [[[k e] bits]|] eqn:Em; [|eexists; reflexivity].
      destruct (bits <? baseline); [|eexists; reflexivity].
      apply first_min_in in Em. apply in_map_iff in Em. destruct Em as ([k0 e0] & E & Hin).
      cbn [fst snd] in E. inversion E; subst k0 e0. destruct (Hok k e Hin) as [H32 Hlen].
      destruct (Hc k e Hin) as [Hk _].
      unfold residual_checked. rewrite H32.
      destruct (encode_residual_ok e k (cfg_max_parameter cfg) Hlen ltac:(lia)) as [r Er]. rewrite Er. cbn [bind].
      eexists. reflexivity.
    - destruct (mapM_not_panic
                  (fun ke : N * list Z => let '(k, e) := ke in
                     if forallb in_i32 (skipn (N.to_nat k) e)
                     then do pr <- find_prc e k (cfg_max_parameter cfg); Ok (k, e, pr, bps * k + prc_bits pr)
                     else Panic 135) cands) as [scored Es].
      { intros [k e] Hin. destruct (Hok k e Hin) as [H32 Hlen]. destruct (Hc k e Hin) as [Hk _].
        rewrite H32. destruct (find_prc_ok e k (cfg_max_parameter cfg) Hlen ltac:(lia)) as [pr Ep].
        rewrite Ep. cbn [bind]. eexists. reflexivity. }
      rewrite Es. cbn [bind].
      destruct (first_min _ scored) as [[[[k e] pr] bits]|]; [|eexists; reflexivity].
      destruct (bits <? baseline); eexists; reflexivity.
  Qed.

  (* hypotheses on the LPC oracle for one block: non-negative shift, representable residuals,
     order below the minimum partition size *)
  Definition lpc_oracle_ok (q : qparams) (samples : list Z) : Prop :=
    (0 <= q_shift q)%Z /\ lpc_fits q samples = true /\ (length (q_coefs q) <= 64)%nat.

  Lemma lpc_candidate_ok cfg fi var samples bps :
    64 <= N.of_nat (length samples) -> lpc_oracle_ok (qlpc fi var) samples ->
    exists c, lpc_candidate qlpc cfg fi var samples bps = Ok c.
  Proof.
    intros Hn (Hsh & Hfit & Hord). unfold lpc_candidate, lpc_errors.
    set (q := qlpc fi var) in *. set (order := length (q_coefs q)) in *.
    destruct (Z.ltb_spec (q_shift q) 0); [lia|].
    set (exact := lpc_errors_from (q_coefs q) (q_shift q) (rev (firstn order samples)) (skipn order samples)) in *.
    unfold lpc_fits in Hfit. fold order exact in Hfit.
    assert (Hex32 : forallb (fun e : Z => (-2147483648 <=? e)%Z && (e <? 2147483648)%Z) exact = true).
    { apply forallb_forall. intros x Hx. rewrite forallb_forall in Hfit. specialize (Hfit x Hx).
      rewrite Bool.andb_true_iff, !Z.ltb_lt in Hfit. apply Bool.andb_true_iff. split; [apply Z.leb_le | apply Z.ltb_lt]; lia. }
    assert (Hlen_exact : length exact = (length samples - order)%nat).
    { unfold exact. generalize (rev (firstn order samples)). rewrite <- (skipn_length order samples).
      generalize (skipn order samples). induction l as [|x r IH]; intros h; cbn [lpc_errors_from length]; [reflexivity|].
      rewrite IH. reflexivity. }
    assert (Hres : forall errs, errs = repeat 0%Z (Nat.min order (length samples)) ++ exact ->
              exists r, residual_checked errs (q_order q) (cfg_max_parameter cfg) = Ok r).
    { intros errs ->. unfold residual_checked, q_order. fold order. rewrite Nat2N.id.
      replace (Nat.min order (length samples)) with order by lia.
      rewrite skipn_repeat_app.
      assert (H32 : forallb in_i32 exact = true).
      { apply forallb_forall. intros x Hx. rewrite forallb_forall in Hfit. specialize (Hfit x Hx). exact Hfit. }
      rewrite H32. apply encode_residual_ok; [|lia].
      rewrite app_length, repeat_length, Hlen_exact. lia. }
    destruct (maxabs samples * sumabs (q_coefs q) <? 2147483647)%Z.
    - rewrite Hex32. cbn [bind]. destruct (Hres _ eq_refl) as [r Er]. rewrite Er. cbn [bind]. eexists. reflexivity.
    - cbn [bind]. rewrite (map_wrap32s_id exact Hfit).
      destruct (Hres _ eq_refl) as [r Er]. rewrite Er. cbn [bind]. eexists. reflexivity.
  Qed.

  Theorem encode_subframe_no_panic experimental cfg fi var samples bps :
    verify experimental cfg = true ->
    samples <> [] -> bounded (2 ^ 25) samples -> bps < 30 ->
    (cfg_use_lpc cfg = true -> 64 <= N.of_nat (length samples) -> lpc_oracle_ok (qlpc fi var) samples) ->
    exists sf, encode_subframe ent qlpc cfg fi var samples bps = Ok sf.
  Proof.
    intros Hv Hne Hb Hbps Hlpc. unfold encode_subframe.
    destruct (cfg_use_constant cfg && is_constant samples).
    - destruct samples; [contradiction | eexists; reflexivity].
    - set (n := N.of_nat (length samples)). change MIN_PRED with 64.
      destruct (N.ltb_spec n 64) as [Hshort|Hlong]; cbn [negb andb].
      + cbn [bind]. eexists. reflexivity.
      + assert (Hf : exists r, (if cfg_use_fixed cfg
                                then if 30 <=? bps then Panic 308
                                     else fixed_candidate ent cfg fi var samples bps (8 + n * bps)
                                else Ok None) = Ok r).
        { destruct (cfg_use_fixed cfg); [|eexists; reflexivity].
          destruct (N.leb_spec 30 bps); [lia|].
          apply (fixed_candidate_ok experimental); assumption. }
        destruct Hf as [fixed0 Ef]. rewrite Ef. cbn [bind].
        destruct (cfg_use_lpc cfg) eqn:Eul.
        * destruct (lpc_candidate_ok cfg fi var samples bps Hlong (Hlpc eq_refl Hlong)) as [c Ec].
          rewrite Ec. cbn [bind].
          match goal with |- context [if ?b then Some c else None] => destruct b end;
            cbn [bind]; try (eexists; reflexivity).
          destruct fixed0 as [x|]; [destruct (subframe_count_bits x <? 8 + n * bps)|]; eexists; reflexivity.
        * cbn [bind]. destruct fixed0 as [x|]; [destruct (subframe_count_bits x <? 8 + n * bps)|]; eexists; reflexivity.
  Qed.
End NP.
