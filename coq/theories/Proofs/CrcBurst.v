(* C16: CRC-8 / CRC-16 detect every burst error of span <= 8 / <= 16 bits, including bursts that
   straddle the message / CRC-field boundary.  Linearity is proved algebraically; three facts
   about the 2^8 / 2^16 register states are established by complete sweeps inside Coq. *)
From FV Require Import Model.Base Model.Crc Proofs.SinkArith Proofs.CrcP.
Local Open Scope N_scope.

Section Gen.
  Variable w : N.            (* register width *)
  Variable poly : N.
  Hypothesis Hw : 1 <= w.
  Hypothesis Hpoly : poly < 2 ^ w.

  Definition step (reg : N) (b : bool) : N := crc_bit w (2 ^ w) poly reg b.
  Definition run (reg : N) (bits : list bool) : N := fold_left step bits reg.

  Fixpoint zipxor (a b : list bool) : list bool :=
    match a, b with
    | x :: a', y :: b' => xorb x y :: zipxor a' b'
    | _, _ => []
    end.

  Lemma shl_mod_lxor a b : ((N.lxor a b) * 2) mod 2 ^ w = N.lxor ((a * 2) mod 2 ^ w) ((b * 2) mod 2 ^ w).
  Proof.
    apply N.bits_inj. intros i. rewrite N.lxor_spec.
    destruct (N.lt_ge_cases i w) as [Hi|Hi].
    - rewrite !N.mod_pow2_bits_low by assumption.
      replace (N.lxor a b * 2) with (N.shiftl (N.lxor a b) 1) by (rewrite N.shiftl_mul_pow2; reflexivity).
      replace (a * 2) with (N.shiftl a 1) by (rewrite N.shiftl_mul_pow2; reflexivity).
      replace (b * 2) with (N.shiftl b 1) by (rewrite N.shiftl_mul_pow2; reflexivity).
      rewrite N.shiftl_lxor, N.lxor_spec. reflexivity.
    - rewrite !N.mod_pow2_bits_high by assumption. reflexivity.
  Qed.

  Lemma lxor_cancel_cases (t : bool) (x p : N) :
    (if t then N.lxor x p else x) = N.lxor x (if t then p else 0).
  Proof. destruct t; [reflexivity | rewrite N.lxor_0_r; reflexivity]. Qed.

  Lemma step_linear a b x y : step (N.lxor a b) (xorb x y) = N.lxor (step a x) (step b y).
  Proof.
    unfold step, crc_bit. rewrite shl_mod_lxor, N.lxor_spec.
    set (A := (a * 2) mod 2 ^ w). set (B := (b * 2) mod 2 ^ w).
    set (ta := N.testbit a (w - 1)). set (tb := N.testbit b (w - 1)).
    rewrite !lxor_cancel_cases.
    replace (xorb (xorb ta tb) (xorb x y)) with (xorb (xorb ta x) (xorb tb y)) by (destruct ta, tb, x, y; reflexivity).
    destruct (xorb ta x), (xorb tb y); cbn [xorb];
      apply N.bits_inj; intros i; rewrite ?N.lxor_spec, ?N.bits_0;
      destruct (N.testbit A i), (N.testbit B i), (N.testbit poly i); reflexivity.
  Qed.

  Lemma run_linear : forall x y a b, length x = length y ->
    run (N.lxor a b) (zipxor x y) = N.lxor (run a x) (run b y).
  Proof.
    induction x as [|bx x IH]; intros [|by_ y] a b Hl; cbn in Hl; try discriminate; [reflexivity|].
    cbn [zipxor run fold_left]. fold (run (step (N.lxor a b) (xorb bx by_)) (zipxor x y)).
    rewrite step_linear. apply IH. lia.
  Qed.

  Lemma step_lt reg b : step reg b < 2 ^ w.
  Proof. apply crc_bit_lt. exact Hpoly. Qed.

  Lemma run_zeros_zero n : run 0 (repeat false n) = 0.
  Proof.
    induction n as [|n IH]; [reflexivity|]. cbn [repeat run fold_left].
    assert (E : step 0 false = 0).
    { unfold step, crc_bit. rewrite N.bits_0. cbn [xorb]. rewrite N.mul_0_l. apply N.mod_0_l. apply pow2_nz. }
    rewrite E. exact IH.
  Qed.

  (* the three swept facts, as hypotheses of the generic development *)
  Variable W : nat.                       (* = w as nat *)
  Hypothesis HW : N.of_nat W = w.
  Hypothesis sweep_zero_step : forall reg, 0 < reg < 2 ^ w -> step reg false <> 0.
  Hypothesis sweep_burst : forall p, length p = W -> existsb (fun b => b) p = true -> run 0 p <> 0.

  Lemma run_app r a b : run r (a ++ b) = run (run r a) b.
  Proof. unfold run. apply fold_left_app. Qed.

  Lemma run_lt : forall bits r, r < 2 ^ w -> run r bits < 2 ^ w.
  Proof.
    induction bits as [|b t IH]; intros r Hr; cbn [run fold_left]; [assumption|].
    apply IH. apply step_lt.
  Qed.

  Lemma zeros_preserve_nonzero n : forall r, 0 < r < 2 ^ w -> run r (repeat false n) <> 0.
  Proof.
    induction n as [|n IH]; intros r Hr; cbn [repeat run fold_left]; [lia|].
    apply IH. pose proof (sweep_zero_step r Hr). pose proof (step_lt r false). lia.
  Qed.

  (* a burst: zeros, a window of W bits containing a one, zeros *)
  Theorem burst_nonzero i j p :
    length p = W -> existsb (fun b => b) p = true ->
    run 0 (repeat false i ++ p ++ repeat false j) <> 0.
  Proof.
    intros Hl Hp. rewrite !run_app, run_zeros_zero.
    apply zeros_preserve_nonzero.
    pose proof (sweep_burst p Hl Hp). pose proof (run_lt p 0 (pow2_pos w)). lia.
  Qed.

  (* two equal-length messages whose difference is a burst have different remainders *)
  Theorem burst_detected x y i j p :
    length x = length y ->
    zipxor x y = repeat false i ++ p ++ repeat false j ->
    length p = W -> existsb (fun b => b) p = true ->
    run 0 x <> run 0 y.
  Proof.
    intros Hl Hd Hlp Hp Heq.
    pose proof (run_linear x y 0 0 Hl) as Hlin. rewrite N.lxor_0_l, Hd, Heq, N.lxor_nilpotent in Hlin.
    exact (burst_nonzero i j p Hlp Hp Hlin).
  Qed.
End Gen.

(* ---- instantiation: complete sweeps over the register states / burst windows ---- *)

Fixpoint all_below (f : N -> bool) (n : nat) : bool :=   (* f 1 && ... && f n *)
  match n with O => true | S k => f (N.of_nat n) && all_below f k end.

Lemma all_below_spec f : forall n v, all_below f n = true -> 1 <= v <= N.of_nat n -> f v = true.
Proof.
  induction n as [|n IH]; intros v H Hv; [cbn in Hv; lia|].
  cbn [all_below] in H. apply Bool.andb_true_iff in H. destruct H as [H1 H2].
  destruct (N.eq_dec v (N.of_nat (S n))) as [->|Hne]; [exact H1|].
  apply IH; [exact H2 | lia].
Qed.

(* all boolean lists of length k *)
Fixpoint all_lists (k : nat) : list (list bool) :=
  match k with
  | O => [[]]
  | S k' => map (cons false) (all_lists k') ++ map (cons true) (all_lists k')
  end.

Lemma all_lists_complete : forall k p, length p = k -> In p (all_lists k).
Proof.
  induction k as [|k IH]; intros p Hl.
  - destruct p; [left; reflexivity | discriminate].
  - destruct p as [|b t]; [discriminate|]. cbn [all_lists]. apply in_or_app.
    destruct b; [right | left]; apply in_map; apply IH; cbn in Hl; lia.
Qed.

Definition burst_check (w poly : N) (p : list bool) : bool :=
  negb (existsb (fun b => b) p) || negb (run w poly 0 p =? 0).

(* CRC-16 (0x8005) *)
Lemma crc16_zero_step_sweep :
  all_below (fun reg => negb (step 16 32773 reg false =? 0)) (N.to_nat 65535) = true.
Proof. vm_compute. reflexivity. Qed.

Lemma crc16_burst_sweep : forallb (burst_check 16 32773) (all_lists 16) = true.
Proof. vm_compute. reflexivity. Qed.

(* CRC-8 (0x07) *)
Lemma crc8_zero_step_sweep :
  all_below (fun reg => negb (step 8 7 reg false =? 0)) (N.to_nat 255) = true.
Proof. vm_compute. reflexivity. Qed.

Lemma crc8_burst_sweep : forallb (burst_check 8 7) (all_lists 8) = true.
Proof. vm_compute. reflexivity. Qed.

Theorem crc16_burst_detected x y i j p :
  length x = length y ->
  zipxor x y = repeat false i ++ p ++ repeat false j ->
  length p = 16%nat -> existsb (fun b => b) p = true ->
  run 16 32773 0 x <> run 16 32773 0 y.
Proof.
  apply (burst_detected 16 32773 ltac:(lia) ltac:(reflexivity) 16%nat eq_refl).
  - intros reg [H0 Hlt]. pose proof (all_below_spec _ _ reg crc16_zero_step_sweep) as H.
    rewrite N2Nat.id in H. specialize (H ltac:(change (2 ^ 16) with 65536 in Hlt; lia)).
    apply Bool.negb_true_iff, N.eqb_neq in H. exact H.
  - intros q Hl Hq. pose proof crc16_burst_sweep as H. rewrite forallb_forall in H.
    specialize (H q (all_lists_complete 16 q Hl)). unfold burst_check in H. rewrite Hq in H. cbn [negb orb] in H.
    apply Bool.negb_true_iff, N.eqb_neq in H. exact H.
Qed.

Theorem crc8_burst_detected x y i j p :
  length x = length y ->
  zipxor x y = repeat false i ++ p ++ repeat false j ->
  length p = 8%nat -> existsb (fun b => b) p = true ->
  run 8 7 0 x <> run 8 7 0 y.
Proof.
  apply (burst_detected 8 7 ltac:(lia) ltac:(reflexivity) 8%nat eq_refl).
  - intros reg [H0 Hlt]. pose proof (all_below_spec _ _ reg crc8_zero_step_sweep) as H.
    rewrite N2Nat.id in H. specialize (H ltac:(change (2 ^ 8) with 256 in Hlt; lia)).
    apply Bool.negb_true_iff, N.eqb_neq in H. exact H.
  - intros q Hl Hq. pose proof crc8_burst_sweep as H. rewrite forallb_forall in H.
    specialize (H q (all_lists_complete 8 q Hl)). unfold burst_check in H. rewrite Hq in H. cbn [negb orb] in H.
    apply Bool.negb_true_iff, N.eqb_neq in H. exact H.
Qed.

(* the byte-level CRC of the model is the bit-level run over the message bits, MSB first *)
Fixpoint byte_bits (k : nat) (b : N) : list bool :=
  match k with O => [] | S k' => N.testbit b (N.of_nat k') :: byte_bits k' b end.

Lemma crc_bits_run w poly : forall k byte reg,
  crc_bits w (2 ^ w) poly k byte reg = run w poly reg (byte_bits k byte).
Proof.
  induction k as [|k IH]; intros byte reg; cbn [crc_bits byte_bits run fold_left]; [reflexivity|].
  rewrite IH. reflexivity.
Qed.

Theorem crc_is_run w poly bytes :
  crc w poly bytes = run w poly 0 (flat_map (byte_bits 8) bytes).
Proof.
  unfold crc. generalize 0 as reg.
  induction bytes as [|b t IH]; intros reg; cbn [fold_left flat_map]; [reflexivity|].
  rewrite run_app. unfold crc_byte. rewrite crc_bits_run. apply IH.
Qed.
