(* C16: CRC-8 / CRC-16 detect every burst error of span <= 8 / <= 16 bits.  Generic theory in Proofs/CrcGen.v; the
   facts about the two registers come from Proofs/CrcLinear.v: the register maps are additive, the tables below
   are left inverses on the 8 / 16 basis vectors (checked here by computation), hence on every state. *)
From FV Require Import Model.Base Model.Crc Proofs.SinkArith Proofs.CrcP.
From FV Require Export Proofs.CrcGen.
From FV Require Import Proofs.CrcLinear.
Local Open Scope N_scope.

(* inverse tables: image of 2^j under the left inverse of  r |-> step r 0  /  c |-> run 0 (bits of c) *)
Definition TZ16 : list N := [49154; 1; 2; 4; 8; 16; 32; 64; 128; 256; 512; 1024; 2048; 4096; 8192; 16384].
Definition TF16 : list N := [49148; 65533; 32767; 65534; 32761; 65522; 32737; 65474; 32641; 65282; 32257; 64514; 30721; 61442; 24577; 49154].
Definition TZ8 : list N := [131; 1; 2; 4; 8; 16; 32; 64].
Definition TF8 : list N := [217; 181; 109; 218; 179; 97; 194; 131].

Lemma crc16_checkZ : forallb (fun i => tabf 16 TZ16 (mapZ 16 32773 (2 ^ N.of_nat i)) =? 2 ^ N.of_nat i) (seq 0 16) = true.
Proof. vm_compute. reflexivity. Qed.
Lemma crc16_checkF : forallb (fun i => tabf 16 TF16 (mapF 16 32773 16 (2 ^ N.of_nat i)) =? 2 ^ N.of_nat i) (seq 0 16) = true.
Proof. vm_compute. reflexivity. Qed.
Lemma crc16_checkL : forallb (fun i => mapF 16 32773 16 (2 ^ N.of_nat i) =? mapR 16 32773 16 (2 ^ N.of_nat i)) (seq 0 16) = true.
Proof. vm_compute. reflexivity. Qed.
Lemma crc8_checkZ : forallb (fun i => tabf 8 TZ8 (mapZ 8 7 (2 ^ N.of_nat i)) =? 2 ^ N.of_nat i) (seq 0 8) = true.
Proof. vm_compute. reflexivity. Qed.
Lemma crc8_checkF : forallb (fun i => tabf 8 TF8 (mapF 8 7 8 (2 ^ N.of_nat i)) =? 2 ^ N.of_nat i) (seq 0 8) = true.
Proof. vm_compute. reflexivity. Qed.
Lemma crc8_checkL : forallb (fun i => mapF 8 7 8 (2 ^ N.of_nat i) =? mapR 8 7 8 (2 ^ N.of_nat i)) (seq 0 8) = true.
Proof. vm_compute. reflexivity. Qed.

(* the three facts, for every register state / window / field value *)
Lemma crc16_facts :
  (forall reg, 0 < reg < 2 ^ 16 -> step 16 32773 reg false <> 0) /\
  (forall p, length p = 16%nat -> existsb (fun b => b) p = true -> run 16 32773 0 p <> 0) /\
  (forall c, c < 2 ^ 16 -> run 16 32773 0 (byte_bits 16 c) = run 16 32773 c (repeat false 16)).
Proof.
  split; [|split].
  - exact (fact_zero_step 16 32773 ltac:(lia) ltac:(reflexivity) 16%nat eq_refl TZ16 crc16_checkZ).
  - exact (fact_burst 16 32773 ltac:(lia) ltac:(reflexivity) 16%nat eq_refl TF16 crc16_checkF).
  - exact (fact_load 16 32773 ltac:(lia) ltac:(reflexivity) 16%nat eq_refl crc16_checkL).
Qed.

Lemma crc8_facts :
  (forall reg, 0 < reg < 2 ^ 8 -> step 8 7 reg false <> 0) /\
  (forall p, length p = 8%nat -> existsb (fun b => b) p = true -> run 8 7 0 p <> 0) /\
  (forall c, c < 2 ^ 8 -> run 8 7 0 (byte_bits 8 c) = run 8 7 c (repeat false 8)).
Proof.
  split; [|split].
  - exact (fact_zero_step 8 7 ltac:(lia) ltac:(reflexivity) 8%nat eq_refl TZ8 crc8_checkZ).
  - exact (fact_burst 8 7 ltac:(lia) ltac:(reflexivity) 8%nat eq_refl TF8 crc8_checkF).
  - exact (fact_load 8 7 ltac:(lia) ltac:(reflexivity) 8%nat eq_refl crc8_checkL).
Qed.

Theorem crc16_burst_detected x y i j p :
  length x = length y ->
  zipxor x y = repeat false i ++ p ++ repeat false j ->
  length p = 16%nat -> existsb (fun b => b) p = true ->
  run 16 32773 0 x <> run 16 32773 0 y.
Proof.
  destruct crc16_facts as (S1 & S2 & _).
  exact (burst_detected 16 32773 ltac:(lia) ltac:(reflexivity) 16%nat eq_refl S1 S2 x y i j p).
Qed.

Theorem crc8_burst_detected x y i j p :
  length x = length y ->
  zipxor x y = repeat false i ++ p ++ repeat false j ->
  length p = 8%nat -> existsb (fun b => b) p = true ->
  run 8 7 0 x <> run 8 7 0 y.
Proof.
  destruct crc8_facts as (S1 & S2 & _).
  exact (burst_detected 8 7 ltac:(lia) ltac:(reflexivity) 8%nat eq_refl S1 S2 x y i j p).
Qed.
