(* C01 at stream level: the independent decoder (Flac.decode_stream) on the bytes of an encoded stream. *)
From FV Require Import Generated Model.Base Model.Sink Model.Crc Model.Codes Model.Rice Model.Predict
  Model.Component Model.Flac Model.Encoder Model.Ctor
  Proofs.SinkArith Proofs.SinkRefine Proofs.OpsLen Proofs.CrcP Proofs.CountBits
  Proofs.BitRead Proofs.BitWrite Proofs.ParseResidual Proofs.Lossless Proofs.DecodeFrame Proofs.EncodeFrameE2E
  Proofs.StreamBytes Proofs.StreamLists.
Local Open Scope N_scope.

Definition lt256 (x : N) : Prop := x < 256.

(* ---- the operations of one frame ---- *)
Lemma frame_ops_shape f : f_precomputed f = None -> frame_ops_wfb f = true ->
  exists body, frame_ops f = Ok [OBytes body; OWrite 16 (crc16 body)] /\ Forall lt256 body.
Proof.
  intros Hpre Hw. unfold frame_ops_wfb in Hw.
  destruct (header_inner_ops (f_header f)) as [hops| |]; try discriminate.
  destruct (frame_inner_ops f) as [iops| |] eqn:Ei; try discriminate.
  rewrite !Bool.andb_true_iff in Hw. destruct Hw as (((_ & Hwi) & _) & _).
  destruct (pack_total KU64 iops Hwi) as [body Eb].
  destruct (pack_u64_bits iops body Hwi Eb) as [H256 _].
  exists body. split; [|exact H256].
  unfold frame_ops, frame_body_bytes. rewrite Hpre, Ei. cbn [bind]. rewrite Eb. reflexivity.
Qed.

Lemma frame_ops_wf body : Forall lt256 body ->
  forallb wf_op [OBytes body; OWrite 16 (crc16 body)] = true /\ ops_len 0 [OBytes body; OWrite 16 (crc16 body)] mod 8 = 0.
Proof.
  intros H. split.
  - cbn [forallb wf_op wf_width]. rewrite !Bool.andb_true_r. apply Bool.andb_true_iff. split.
    + apply forallb_forall. intros x Hx. apply N.ltb_lt. rewrite Forall_forall in H. apply H. exact Hx.
    + apply N.ltb_lt. apply crc16_lt.
  - cbn [ops_len op_len]. change (pad8 0) with 0.
    replace (0 + 8 * N.of_nat (length body) + (16 + 0)) with ((N.of_nat (length body) + 2) * 8) by lia. apply N.mod_mul. lia.
Qed.

(* ---- byte-aligned concatenation of many operation lists ---- *)
Lemma ops_len_app_aligned a b : ops_len 0 a mod 8 = 0 -> ops_len 0 (a ++ b) = ops_len 0 a + ops_len 0 b.
Proof.
  intros Ha. rewrite ops_len_app. f_equal.
  destruct (ops_congr b (0 + ops_len 0 a) 0 ltac:(rewrite N.add_0_l, Ha; reflexivity)) as [_ E]. exact E.
Qed.

Lemma pack_concat_aligned : forall fos pre pb,
  forallb wf_op pre = true -> ops_len 0 pre mod 8 = 0 -> pack KU8 pre = Ok pb ->
  Forall (fun fo => forallb wf_op fo = true /\ ops_len 0 fo mod 8 = 0) fos ->
  exists fbs, Forall2 (fun fo fb => pack KU8 fo = Ok fb) fos fbs /\ pack KU8 (pre ++ concat fos) = Ok (pb ++ concat fbs).
Proof.
  induction fos as [|fo r IH]; intros pre pb Hw Ha Ep Hall.
  - exists []. split; [constructor|]. cbn [concat]. rewrite !app_nil_r. exact Ep.
  - inversion Hall as [|? ? [Hwf Hal] Hr]; subst.
    destruct (pack_total KU8 fo Hwf) as [fb Ef].
    pose proof (pack_app_aligned pre fo pb fb Hw Hwf Ha Ep Ef) as Epf.
    destruct (IH (pre ++ fo) (pb ++ fb)) as (fbs & F2 & E); try assumption.
    + rewrite forallb_app, Hw, Hwf. reflexivity.
    + rewrite ops_len_app_aligned by exact Ha. rewrite N.add_mod by lia. rewrite Ha, Hal. reflexivity.
    + exists (fb :: fbs). split; [constructor; assumption|]. cbn [concat]. rewrite !app_assoc. exact E.
Qed.

(* ---- the stream header: magic, the STREAMINFO block header, STREAMINFO ---- *)
Definition hdr_ops (i : streaminfo) : list op :=
  [OBytes [102; 76; 97; 67]] ++ metadata_ops true 0 272 (streaminfo_ops i).

Definition hdr_bits (i : streaminfo) : list bool :=
  bits_msb 32 1716281667 ++ bits_msb 1 1 ++ bits_msb 7 0 ++ bits_msb 24 34
  ++ bits_msb 16 (si_min_block i mod 2 ^ 16) ++ bits_msb 16 (si_max_block i mod 2 ^ 16)
  ++ bits_msb 24 (si_min_frame i mod 2 ^ 32) ++ bits_msb 24 (si_max_frame i mod 2 ^ 32)
  ++ bits_msb 20 (si_rate i mod 2 ^ 32) ++ bits_msb 3 ((si_channels i - 1) mod 256) ++ bits_msb 5 ((si_bps i - 1) mod 256)
  ++ bits_msb 36 (si_total i) ++ bytes_bits (si_md5 i).

Lemma hdr_ops_bits i : ops_bitlist 0 (hdr_ops i) = hdr_bits i.
Proof.
  unfold hdr_ops, metadata_ops, streaminfo_ops, hdr_bits.
  cbn [app ops_bitlist op_bitlist ops_len op_len length].
  change (pad8 0) with 0. cbn [N.to_nat repeat app].
  match goal with |- context [pad8 ?p] => let v := eval vm_compute in (pad8 p) in change (pad8 p) with v end.
  cbn [N.to_nat repeat app]. rewrite !app_nil_r.
  change (bytes_bits [102; 76; 97; 67]) with (bits_msb 32 1716281667).
  change (272 / 8 mod 2 ^ 32) with 34.
  change (bits_msb (Pos.to_nat 8) (0 + 128)) with (bits_msb 1 1 ++ bits_msb 7 0).
  rewrite <- ?app_assoc. reflexivity.
Qed.

Lemma hdr_ops_len i : length (si_md5 i) = 16%nat -> ops_len 0 (hdr_ops i) = 336.
Proof.
  intros H. unfold hdr_ops, metadata_ops, streaminfo_ops.
  cbn [app ops_len op_len length]. rewrite H.
  match goal with |- context [pad8 ?p] => let v := eval vm_compute in (pad8 p) in change (pad8 p) with v end.
  change (pad8 0) with 0. reflexivity.
Qed.

Record info_wf (i : streaminfo) : Prop := mkInfoWf {
  iw_total : si_total i < 2 ^ 64;
  iw_md5_len : length (si_md5 i) = 16%nat;
  iw_md5 : Forall lt256 (si_md5 i)
}.

Lemma hdr_ops_wf i : info_wf i -> forallb wf_op (hdr_ops i) = true.
Proof.
  intros [Ht Hl Hm]. unfold hdr_ops, metadata_ops, streaminfo_ops. cbn [app forallb wf_op wf_width].
  assert (A : forall x k, 1 <= k -> x mod 2 ^ k <? 2 ^ k = true) by (intros x k _; apply N.ltb_lt; apply N.mod_upper_bound; apply pow2_nz).
  rewrite !A by lia.
  assert (B : forall x, x mod 256 <? 2 ^ 8 = true) by (intros x; apply N.ltb_lt; change (2 ^ 8) with 256; apply N.mod_upper_bound; lia).
  rewrite !B.
  assert (C : si_total i <? 2 ^ 64 = true) by (apply N.ltb_lt; exact Ht). rewrite C.
  assert (D : forallb (fun b => b <? 256) (si_md5 i) = true).
  { apply forallb_forall. intros x Hx. apply N.ltb_lt. rewrite Forall_forall in Hm. apply Hm. exact Hx. }
  rewrite D. reflexivity.
Qed.

Lemma reads_bytes : forall l, Forall lt256 l -> reads (rmany (length l) (rbits 8)) (bytes_bits l) l.
Proof.
  induction l as [|x t IH]; intros H r rest Hwf Hb.
  - exists r. cbn [length rmany]. cbn in Hb. split; [reflexivity|]. split; [exact Hb|]. split; [exact Hwf|].
    split; [change (bytes_bits []) with (@nil bool); cbn [length]; lia | apply rd_adv_refl].
  - inversion H as [|? ? Hx Ht]; subst.
    change (bytes_bits (x :: t)) with (bits_msb 8 x ++ bytes_bits t) in Hb. rewrite <- app_assoc in Hb.
    destruct (reads_rbits 8 x Hx r _ Hwf Hb) as (r1 & E1 & Hb1 & Hwf1 & Hp1 & Hk1).
    destruct (IH Ht r1 rest Hwf1 Hb1) as (r2 & E2 & Hb2 & Hwf2 & Hp2 & Hk2).
    exists r2. cbn [length rmany]. rewrite E1, E2. split; [reflexivity|]. split; [exact Hb2|]. split; [exact Hwf2|]. split.
    + rewrite Hp2, Hp1. change (bits_msb 8 x ++ bytes_bits t) with (bytes_bits (x :: t)).
      rewrite !bytes_bits_length, bits_msb_length. cbn [length]. lia.
    + exact (rd_adv_trans _ _ _ Hk1 Hk2).
Qed.

Definition sinfo_of (i : streaminfo) : sinfo :=
  mkSinfo (si_min_block i) (si_max_block i) ((si_min_frame i mod 2 ^ 32) mod 2 ^ 24) ((si_max_frame i mod 2 ^ 32) mod 2 ^ 24)
          (si_rate i) (si_channels i) (si_bps i) (si_total i) (si_md5 i).

Record info_small (i : streaminfo) : Prop := mkInfoSmall {
  is_minb : si_min_block i < 2 ^ 16; is_maxb : si_max_block i < 2 ^ 16;
  is_rate : si_rate i < 2 ^ 20; is_ch : 1 <= si_channels i <= 8; is_bps : 1 <= si_bps i <= 32;
  is_total : si_total i < 2 ^ 36;
  is_md5_len : length (si_md5 i) = 16%nat; is_md5 : Forall lt256 (si_md5 i)
}.

Theorem flac_reads_stream_header i hb rest :
  info_small i -> Forall lt256 hb -> Forall lt256 rest -> bytes_bits hb = hdr_bits i ->
  read_magic_and_meta (rd_of (hb ++ rest)) = Some (sinfo_of i, mkRd rest 0 42).
Proof.
  intros [Hminb Hmaxb Hrate Hch Hbps Htot Hml Hm] Hhb Hrest Hbits.
  set (start := hb ++ rest).
  assert (Hlen : length hb = 42%nat).
  { apply (f_equal (@length bool)) in Hbits. unfold hdr_bits in Hbits.
    rewrite !app_length, !bits_msb_length, !bytes_bits_length, Hml in Hbits. lia. }
  pose proof (rd_of_wf start) as Hwf0. pose proof (rd_of_bits start) as Hb0.
  unfold start in Hb0 at 2. rewrite bytes_bits_app, Hbits in Hb0. unfold hdr_bits in Hb0. rewrite <- !app_assoc in Hb0.
  rewrite (N.mod_small _ _ Hminb), (N.mod_small _ _ Hmaxb) in Hb0.
  rewrite (N.mod_small (si_rate i) (2 ^ 32)) in Hb0 by (change (2 ^ 20) with 1048576 in Hrate; change (2 ^ 32) with 4294967296; lia).
  rewrite (N.mod_small (si_channels i - 1) 256), (N.mod_small (si_bps i - 1) 256) in Hb0 by lia.
  destruct (reads_rbits 32 1716281667 ltac:(reflexivity) _ _ Hwf0 Hb0) as (r1 & E1 & Hb1 & Hwf1 & Hp1 & Hk1).
  destruct (reads_rbits 1 1 ltac:(reflexivity) _ _ Hwf1 Hb1) as (r2 & E2 & Hb2 & Hwf2 & Hp2 & Hk2).
  destruct (reads_rbits 7 0 ltac:(reflexivity) _ _ Hwf2 Hb2) as (r3 & E3 & Hb3 & Hwf3 & Hp3 & Hk3).
  destruct (reads_rbits 24 34 ltac:(reflexivity) _ _ Hwf3 Hb3) as (r4 & E4 & Hb4 & Hwf4 & Hp4 & Hk4).
  destruct (reads_rbits 16 _ Hminb _ _ Hwf4 Hb4) as (r5 & E5 & Hb5 & Hwf5 & Hp5 & Hk5).
  destruct (reads_rbits 16 _ Hmaxb _ _ Hwf5 Hb5) as (r6 & E6 & Hb6 & Hwf6 & Hp6 & Hk6).
  destruct (rbits_field 24 _ _ _ Hwf6 Hb6) as (r7 & E7 & Hb7 & Hwf7 & Hp7 & Hk7).
  destruct (rbits_field 24 _ _ _ Hwf7 Hb7) as (r8 & E8 & Hb8 & Hwf8 & Hp8 & Hk8).
  destruct (reads_rbits 20 _ Hrate _ _ Hwf8 Hb8) as (r9 & E9 & Hb9 & Hwf9 & Hp9 & Hk9).
  destruct (reads_rbits 3 (si_channels i - 1) ltac:(change (2 ^ 3) with 8; lia) _ _ Hwf9 Hb9) as (r10 & E10 & Hb10 & Hwf10 & Hp10 & Hk10).
  destruct (reads_rbits 5 (si_bps i - 1) ltac:(change (2 ^ 5) with 32; lia) _ _ Hwf10 Hb10) as (r11 & E11 & Hb11 & Hwf11 & Hp11 & Hk11).
  destruct (reads_rbits 36 _ Htot _ _ Hwf11 Hb11) as (r12 & E12 & Hb12 & Hwf12 & Hp12 & Hk12).
  destruct (reads_bytes _ Hm _ _ Hwf12 Hb12) as (r13 & E13 & Hb13 & Hwf13 & Hp13 & Hk13).
  rewrite Hml in E13.
  assert (Hadv : rd_adv (rd_of start) r13)
    by exact (rd_adv_trans _ _ _ Hk1 (rd_adv_trans _ _ _ Hk2 (rd_adv_trans _ _ _ Hk3 (rd_adv_trans _ _ _ Hk4
             (rd_adv_trans _ _ _ Hk5 (rd_adv_trans _ _ _ Hk6 (rd_adv_trans _ _ _ Hk7 (rd_adv_trans _ _ _ Hk8
             (rd_adv_trans _ _ _ Hk9 (rd_adv_trans _ _ _ Hk10 (rd_adv_trans _ _ _ Hk11 (rd_adv_trans _ _ _ Hk12 Hk13)))))))))))).
  assert (Hpos : rd_pos r13 = 8 * 42).
  { rewrite Hp13, Hp12, Hp11, Hp10, Hp9, Hp8, Hp7, Hp6, Hp5, Hp4, Hp3, Hp2, Hp1.
    rewrite !bits_msb_length, bytes_bits_length, Hml. unfold rd_pos, rd_of. cbn [r_cnt r_off]. reflexivity. }
  pose proof (rd_from_start start r13 42 Hwf13 Hadv Hpos) as Er.
  assert (Hskip : skipn (N.to_nat 42) start = rest).
  { unfold start. apply skipn_exact. rewrite Hlen. reflexivity. }
  rewrite Hskip in Er.
  unfold read_magic_and_meta. fold start. rewrite E1. cbn [N.eqb Pos.eqb negb].
  rewrite E2, E3, E4. cbn [N.eqb Pos.eqb negb andb].
  unfold read_streaminfo. rewrite E5, E6, E7, E8, E9, E10, E11, E12, E13. cbn [N.eqb Pos.eqb].
  rewrite Er. unfold sinfo_of. replace (si_channels i - 1 + 1) with (si_channels i) by lia.
  replace (si_bps i - 1 + 1) with (si_bps i) by lia. reflexivity.
Qed.

(* ---- the frame loop ---- *)
Definition hcs := list (fheader * list (list Z)).

Fixpoint frames_spec (si : sinfo) (idx : N) (fbs : list (list N)) (out : hcs) : Prop :=
  match fbs, out with
  | [], [] => True
  | fb :: fr, hc :: hr =>
      fb <> [] /\ Forall lt256 fb /\ fh_number (fst hc) = idx
      /\ (forall rest, Forall lt256 rest -> read_frame si (fb ++ rest) = Some (hc, rest))
      /\ frames_spec si (idx + 1) fr hr
  | _, _ => False
  end.

Lemma frames_spec_lt256 si : forall fbs idx out, frames_spec si idx fbs out -> Forall lt256 (concat fbs).
Proof.
  induction fbs as [|fb fr IH]; intros idx out H; [constructor|]. destruct out as [|hc hr]; [destruct H|].
  destruct H as (_ & H256 & _ & _ & Hr). cbn [concat]. apply Forall_app. split; [exact H256 | exact (IH _ _ Hr)].
Qed.

Lemma read_frames_all si : forall fbs idx out fuel,
  frames_spec si idx fbs out -> (length fbs <= fuel)%nat ->
  read_frames fuel si idx (concat fbs) = Some out.
Proof.
  induction fbs as [|fb fr IH]; intros idx out fuel H Hf.
  - destruct out; [|destruct H]. cbn [concat]. destruct fuel; reflexivity.
  - destruct out as [|hc hr]; [destruct H|]. destruct H as (Hne & H256 & Hnum & Hread & Hr).
    destruct fuel as [|fuel]; [cbn in Hf; lia|]. cbn [concat read_frames].
    destruct (fb ++ concat fr) as [|b0 t0] eqn:Ecat; [destruct fb; [congruence | discriminate]|]. rewrite <- Ecat.
    rewrite (Hread _ (frames_spec_lt256 si _ _ _ Hr)). destruct hc as [h ch]. cbn [fst] in Hnum.
    rewrite Hnum, N.eqb_refl. cbn [negb]. rewrite (IH _ _ fuel Hr) by (cbn in Hf; lia). reflexivity.
Qed.

(* ---- the encoder's frames ---- *)
Definition nch_of (ctag : N) : N := if ctag <=? 7 then ctag + 1 else 2.

Lemma frame_bytes_nonempty f fb : f_precomputed f = None -> frame_ops_wfb f = true -> frame_bytes f = Ok fb ->
  fb <> [] /\ Forall lt256 fb.
Proof.
  intros Hpre Hw Hfb. destruct (frame_ops_shape f Hpre Hw) as (body & Eo & Hb).
  unfold frame_bytes in Hfb. rewrite Eo in Hfb. cbn [bind] in Hfb.
  destruct (frame_ops_wf body Hb) as [Hwf _].
  destruct (pack_u8_bits _ fb Hwf Hfb) as [H256 Hbits]. split; [|exact H256].
  intros ->. apply (f_equal (@length bool)) in Hbits. cbn [bytes_bits flat_map length] in Hbits.
  rewrite app_length in Hbits. cbn [ops_bitlist op_bitlist] in Hbits. rewrite !app_length, bits_msb_length in Hbits.
  change (N.to_nat 16) with 16%nat in Hbits. lia.
Qed.

Lemma samples_ok_chans bps channels block : In bps [8; 12; 16; 20; 24] -> samples_ok bps block = true ->
  Forall (bounded (2 ^ 24)) (chans channels block) /\
  forallb (fun c => forallb (in_range bps) c) (chans channels block) = true.
Proof.
  intros Hbps Hs. unfold samples_ok in Hs.
  assert (Hx : forall x, In x block -> (- 2 ^ (Z.of_N bps - 1) <= x < 2 ^ (Z.of_N bps - 1))%Z).
  { intros x Hin. rewrite forallb_forall in Hs. specialize (Hs x Hin). unfold sample_ok_lim in Hs.
    apply Bool.andb_true_iff in Hs. destruct Hs as [A B]. apply Z.leb_le in A. apply Z.leb_le in B. lia. }
  assert (Hlim : (2 ^ (Z.of_N bps - 1) <= 2 ^ 24)%Z).
  { cbn [In] in Hbps. destruct Hbps as [<-|[<-|[<-|[<-|[<-|[]]]]]]; vm_compute; discriminate. }
  assert (Hc : forall c x, In c (chans channels block) -> In x c -> In x block).
  { intros c x Hc Hin. unfold chans in Hc. apply in_map_iff in Hc. destruct Hc as (k & <- & _).
    unfold channel_samples in Hin. apply deint_in in Hin. exact Hin. }
  split.
  - apply Forall_forall. intros c Hcin. apply Forall_forall. intros x Hin. specialize (Hx x (Hc c x Hcin Hin)). lia.
  - apply forallb_forall. intros c Hcin. apply forallb_forall. intros x Hin. specialize (Hx x (Hc c x Hcin Hin)).
    unfold in_range. apply Bool.andb_true_iff. split; [apply Z.leb_le | apply Z.ltb_lt]; lia.
Qed.

Section Stream.
  Variable ent : N -> N -> N -> N.
  Variable qlpc : N -> N -> qparams.

  Lemma encode_frame_nch cfg rate channels bps fi number block f ctag :
    encode_frame ent qlpc cfg rate channels bps fi number block = Ok f -> 1 <= channels <= 8 ->
    chassign_tag (h_ch (f_header f)) = Ok ctag -> nch_of ctag = channels.
  Proof.
    intros E Hch Hctag. unfold encode_frame in E.
    set (cs := map _ (map N.of_nat (seq 0 (N.to_nat channels)))) in *.
    destruct (mapM _ (combine _ cs)) as [indep| |]; cbn [bind] in E; try discriminate.
    assert (Hhdr : forall cha n h, mk_header rate bps cha n number = Ok h -> h_ch h = cha).
    { intros cha n h Eh. unfold mk_header in Eh. destruct (block_size_code _); cbn [bind] in Eh; try discriminate. apply Ok_inj in Eh. subst h. reflexivity. }
    destruct (N.eqb_spec channels 2) as [H2|H2].
    - destruct cs as [|l [|r [|? ?]]]; try discriminate.
      destruct indep as [|sl [|sr [|? ?]]]; try discriminate.
      destruct (encode_subframe ent qlpc cfg fi VAR_MID _ bps) as [sm| |]; cbn [bind] in E; try discriminate.
      destruct (encode_subframe ent qlpc cfg fi VAR_SIDE _ (bps + 1)) as [ss| |]; cbn [bind] in E; try discriminate.
      cbv zeta in E.
      match type of E with context [mk_header _ _ (fst ?b) _ _] => set (best := b) in * end.
      destruct (mk_header rate bps (fst best) _ number) as [h| |] eqn:Eh; cbn [bind] in E; try discriminate.
      apply Ok_inj in E. subst f. cbn [f_header] in Hctag. rewrite (Hhdr _ _ _ Eh) in Hctag.
      destruct (fst best) eqn:Eb; cbn [chassign_tag] in Hctag.
      + assert (n = 2).
        { unfold best in Eb. repeat match type of Eb with
            | context [if ?c then _ else _] => destruct c; cbn [fst snd] in Eb end; inversion Eb; reflexivity. }
        subst n. cbn in Hctag. apply Ok_inj in Hctag. subst ctag channels. reflexivity.
      + apply Ok_inj in Hctag. subst ctag channels. reflexivity.
      + apply Ok_inj in Hctag. subst ctag channels. reflexivity.
      + apply Ok_inj in Hctag. subst ctag channels. reflexivity.
    - destruct (mk_header rate bps (Indep channels) _ number) as [h| |] eqn:Eh; cbn [bind] in E; try discriminate.
      apply Ok_inj in E. subst f. cbn [f_header] in Hctag. rewrite (Hhdr _ _ _ Eh) in Hctag. cbn [chassign_tag] in Hctag.
      destruct (N.ltb_spec 8 channels) as [?|_]; [lia|]. destruct (N.eqb_spec channels 0) as [?|_]; [lia|].
      apply Ok_inj in Hctag. subst ctag. unfold nch_of. destruct (N.leb_spec (channels - 1) 7); lia.
  Qed.

  (* per-block hypotheses (on the estimator oracles), for the blocks numbered fi, fi+1, ... *)
  Fixpoint blocks_hyps (cfg : config) (channels bps fi : N) (blocks : list (list Z)) : Prop :=
    match blocks with
    | [] => True
    | b :: r =>
        (exists n, (1 <= n)%nat /\ N.of_nat n <= c_MAX_BLOCK_SIZE /\ length b = (n * N.to_nat channels)%nat
                   /\ block_hyps qlpc cfg fi channels bps b n)
        /\ blocks_hyps cfg channels bps (fi + 1) r
    end.

  (* what the decoder returns for the blocks numbered idx, idx+1, ... *)
  Definition hc_rel (rate channels bps idx : N) (b : list Z) (hc : fheader * list (list Z)) : Prop :=
    exists n ctag, (1 <= n)%nat /\ length b = (n * N.to_nat channels)%nat /\ nch_of ctag = channels
                   /\ hc = (mkFH (N.of_nat n) ctag idx rate bps, chans channels b).
  Fixpoint outs_spec (rate channels bps idx : N) (blocks : list (list Z)) (out : hcs) : Prop :=
    match blocks, out with
    | [], [] => True
    | b :: br, hc :: hr => hc_rel rate channels bps idx b hc /\ outs_spec rate channels bps (idx + 1) br hr
    | _, _ => False
    end.

  Definition frame_fb (f : frame) (fb : list N) : Prop :=
    frame_bytes f = Ok fb /\ f_precomputed f = None /\ frame_ops_wfb f = true.

  Theorem encode_blocks_decode cfg rate channels bps si :
    cfg_max_parameter cfg <= 14 -> In bps [8; 12; 16; 20; 24] -> rate < 2 ^ 32 -> 1 <= channels <= 8 ->
    i_rate si = rate -> i_bps si = bps ->
    forall blocks fi frames,
    encode_blocks ent qlpc cfg rate channels bps fi blocks = Ok frames ->
    blocks_hyps cfg channels bps fi blocks ->
    exists fbs out, Forall2 frame_fb frames fbs /\ frames_spec si fi fbs out /\ outs_spec rate channels bps fi blocks out.
  Proof.
    intros Hmp Hbps Hrate Hch Hsr Hsb.
    induction blocks as [|b br IH]; intros fi frames E Hh.
    - cbn [encode_blocks] in E. apply Ok_inj in E. subst frames. exists [], []. split; [constructor|]. split; exact I.
    - cbn [encode_blocks] in E. destruct Hh as [(n & Hn1 & Hn & Hlen & Hblk) Hr].
      destruct (encode_fixed_size_frame ent qlpc cfg rate channels bps fi fi b) as [f| |] eqn:Ef; cbn [bind] in E; try discriminate.
      destruct (encode_blocks ent qlpc cfg rate channels bps (fi + 1) br) as [fs| |] eqn:Efs; cbn [bind] in E; try discriminate.
      apply Ok_inj in E. subst frames.
      destruct (IH _ _ Efs Hr) as (fbs & out & HF2 & Hspec & Houts).
      unfold encode_fixed_size_frame in Ef.
      destruct (N.leb_spec (2 ^ 31) fi) as [?|Hfi]; [discriminate|].
      destruct (samples_ok bps b) eqn:Hso; cbn [negb] in Ef; [|discriminate].
      destruct (samples_ok_chans bps channels b Hbps Hso) as [Hbound Hrange].
      assert (Hnum : fi < 2 ^ 36) by (change (2 ^ 31) with 2147483648 in Hfi; change (2 ^ 36) with 68719476736; lia).
      destruct (frame_end_to_end_full ent qlpc cfg rate channels bps fi fi b f si n Ef Hmp Hbps Hrate Hch Hnum Hn1 Hn Hblk Hbound Hrange Hsr Hsb)
        as (ctag & Hct & Hpre & _ & Hwfb & Hread).
      destruct (frame_ops_shape f Hpre Hwfb) as (body & Eo & Hbody).
      destruct (frame_ops_wf body Hbody) as [Hwf _].
      destruct (pack_total KU8 _ Hwf) as [fb Epk].
      assert (Efb : frame_bytes f = Ok fb) by (unfold frame_bytes; rewrite Eo; exact Epk).
      destruct (frame_bytes_nonempty f fb Hpre Hwfb Efb) as [Hne H256].
      rewrite (N.mod_small rate (2 ^ 32) Hrate) in Hread.
      exists (fb :: fbs), ((mkFH (N.of_nat n) ctag fi rate bps, chans channels b) :: out).
      split; [constructor; [repeat split; assumption | exact HF2]|]. split.
      + cbn [frames_spec fst fh_number]. split; [exact Hne|]. split; [exact H256|]. split; [reflexivity|].
        split; [|exact Hspec]. intros rest Hrest. exact (Hread fb rest Hrest Efb).
      + cbn [outs_spec]. split; [|exact Houts]. exists n, ctag. split; [exact Hn1|]. split; [exact Hlen|].
        split; [|reflexivity]. exact (encode_frame_nch cfg rate channels bps fi fi b f ctag Ef Hch Hct).
  Qed.
End Stream.

(* ---- bookkeeping between blocks, decoder output and STREAMINFO ---- *)
Lemma Forall2_mapM {A B} (f : A -> Res B) : forall l ys, Forall2 (fun x y => f x = Ok y) l ys -> mapM f l = Ok ys.
Proof.
  induction l as [|x r IH]; intros ys H; inversion H as [|? y ? ys' Hx Hr]; subst; cbn [mapM]; [reflexivity|].
  rewrite Hx. cbn [bind]. rewrite (IH _ Hr). reflexivity.
Qed.

Lemma frames_spec_count si : forall fbs idx out, frames_spec si idx fbs out -> (length fbs <= length (concat fbs))%nat.
Proof.
  induction fbs as [|fb fr IH]; intros idx out H; [cbn; lia|]. destruct out as [|hc hr]; [destruct H|].
  destruct H as (Hne & _ & _ & _ & Hr). cbn [concat length]. rewrite app_length. specialize (IH _ _ Hr).
  destruct fb; [congruence|]. cbn [length]. lia.
Qed.

Lemma chans_interleave channels (b : list Z) n : 1 <= channels -> (1 <= n)%nat -> length b = (n * N.to_nat channels)%nat ->
  interleave (chans channels b) = b.
Proof.
  intros Hc Hn Hl. set (c := N.to_nat channels) in *. assert (Hc1 : (1 <= c)%nat) by (unfold c; lia).
  assert (E : chans channels b = map (fun ch => deinterleave_from c ch b (length b)) (seq 0 c)).
  { unfold chans, channel_samples. fold c. rewrite map_map. apply map_ext. intros ch. rewrite Nat2N.id. reflexivity. }
  rewrite E. unfold interleave.
  assert (Hnb : (n <= length b)%nat) by (rewrite Hl; nia).
  destruct c as [|c'] eqn:Ec; [lia|]. cbn [seq map]. rewrite (deint_length (S c') 0 ltac:(lia) n b (length b) Hl Hnb).
  change (deinterleave_from (S c') 0 b (length b) :: map (fun ch => deinterleave_from (S c') ch b (length b)) (seq 1 c'))
    with (map (fun ch => deinterleave_from (S c') ch b (length b)) (seq 0 (S c'))).
  apply (interleave_deint (S c') ltac:(lia) n b (length b) n Hl Hnb). lia.
Qed.

Section Book.
  Variables rate channels bps : N.
  Hypothesis Hch : 1 <= channels.

  Lemma outs_spec_length : forall blocks idx out, outs_spec rate channels bps idx blocks out -> length out = length blocks.
  Proof.
    induction blocks as [|b br IH]; intros idx out H; destruct out as [|hc hr]; try destruct H; [reflexivity|].
    cbn [length]. f_equal. eapply IH. eassumption.
  Qed.

  Lemma outs_samples : forall blocks idx out, outs_spec rate channels bps idx blocks out ->
    flat_map (fun hc : fheader * list (list Z) => interleave (snd hc)) out = concat blocks.
  Proof.
    induction blocks as [|b br IH]; intros idx out H; destruct out as [|hc hr]; try destruct H; [reflexivity|].
    destruct H as (n & ctag & Hn & Hl & _ & ->). cbn [flat_map concat snd]. rewrite (IH _ _ H0).
    rewrite (chans_interleave channels b n Hch Hn Hl). reflexivity.
  Qed.

  Lemma outs_total : forall blocks idx out, outs_spec rate channels bps idx blocks out ->
    sumN (map (fun hc : fheader * list (list Z) => fh_block (fst hc)) out) * channels = N.of_nat (length (concat blocks)).
  Proof.
    induction blocks as [|b br IH]; intros idx out H; destruct out as [|hc hr]; try destruct H; [reflexivity|].
    destruct H as (n & ctag & Hn & Hl & _ & ->). cbn [map sumN fold_right fst fh_block concat]. fold (sumN (map (fun hc : fheader * list (list Z) => fh_block (fst hc)) hr)).
    rewrite app_length, Nat2N.inj_add, <- (IH _ _ H0), Hl. lia.
  Qed.

  Definition fc_cond (si : sinfo) (n : nat) (ih : nat * (fheader * list (list Z))) : bool :=
    let '(i, (h, chans)) := ih in
    let nch := if fh_chcode h <=? 7 then fh_chcode h + 1 else 2 in
    (nch =? i_channels si) && (fh_rate h =? i_rate si) && (fh_bps h =? i_bps si)
    && (fh_block h <=? i_max_block si)
    && (if Nat.ltb (S i) n then (fh_block h =? i_max_block si) && (i_min_block si <=? fh_block h) else true)
    && (1 <=? fh_block h).

  Lemma frames_consistent_fc si fs : frames_consistent si fs = forallb (fc_cond si (length fs)) (combine (seq 0 (length fs)) fs).
  Proof. reflexivity. Qed.

  Lemma consistent_aux si (bsn : nat) total :
    i_channels si = channels -> i_rate si = rate -> i_bps si = bps ->
    i_max_block si = N.of_nat bsn -> i_min_block si = N.of_nat bsn ->
    forall blocks, chunked (bsn * N.to_nat channels) (N.to_nat channels) blocks ->
    forall out idx s, outs_spec rate channels bps idx blocks out -> (s + length out = total)%nat ->
    forallb (fc_cond si total) (combine (seq s (length out)) out) = true.
  Proof.
    intros Hsc Hsr Hsb Hmax Hmin.
    assert (Hc1 : (1 <= N.to_nat channels)%nat) by lia.
    assert (Hone : forall b hc idx s, hc_rel rate channels bps idx b hc -> (length b <= bsn * N.to_nat channels)%nat ->
              (Nat.ltb (S s) total = true -> length b = (bsn * N.to_nat channels)%nat) -> fc_cond si total (s, hc) = true).
    { intros b hc idx s (n & ctag & Hn & Hl & Hnch & ->) Hle Hfull. unfold fc_cond. cbn [fh_chcode fh_rate fh_bps fh_block].
      fold (nch_of ctag). rewrite Hnch, Hsc, Hsr, Hsb, Hmax, Hmin, !N.eqb_refl. cbn [andb].
      assert (Hnb : (n <= bsn)%nat) by nia.
      assert (A : N.of_nat n <=? N.of_nat bsn = true) by (apply N.leb_le; lia).
      assert (B : 1 <=? N.of_nat n = true) by (apply N.leb_le; lia).
      rewrite A, B. cbn [andb]. destruct (Nat.ltb (S s) total) eqn:El; [|reflexivity].
      assert (n = bsn) by (specialize (Hfull eq_refl); nia). subst n. rewrite N.eqb_refl, A. reflexivity. }
    induction 1 as [|b Hb Hm|b b2 r Hb Hr IH]; intros out idx s Ho Hs.
    - destruct out; [reflexivity | destruct Ho].
    - destruct out as [|hc [|? ?]]; try destruct Ho as [? []]; try destruct Ho. cbn [length seq combine forallb]. rewrite Bool.andb_true_r.
      apply (Hone b hc idx s H); [lia|]. intros Hlt. apply Nat.ltb_lt in Hlt. cbn [length] in Hs. lia.
    - destruct out as [|hc hr]; [destruct Ho|]. destruct Ho as [Hhc Hrest]. cbn [length seq combine forallb].
      rewrite (Hone b hc idx s Hhc); [|lia | intros _; exact Hb]. cbn [andb].
      apply (IH hr (idx + 1) (S s) Hrest). cbn [length] in Hs. lia.
  Qed.
End Book.

(* ---- the whole stream ---- *)
Section StreamE2E.
  Variable ent : N -> N -> N -> N.
  Variable qlpc : N -> N -> qparams.
  Variable md5 : list N -> list N.

  Lemma blocks_hyps_of_nth cfg channels bps (bsn : nat) :
    1 <= channels -> (1 <= bsn)%nat -> N.of_nat bsn <= c_MAX_BLOCK_SIZE ->
    forall blocks, chunked (bsn * N.to_nat channels) (N.to_nat channels) blocks -> forall fi,
    (forall j b, nth_error blocks j = Some b ->
                 block_hyps qlpc cfg (fi + N.of_nat j) channels bps b (length b / N.to_nat channels)) ->
    blocks_hyps qlpc cfg channels bps fi blocks.
  Proof.
    intros Hch Hbs1 Hbs. set (c := N.to_nat channels). assert (Hc : (1 <= c)%nat) by (unfold c; lia).
    induction 1 as [|b Hb [m Hm]|b b2 r Hb Hr IH]; intros fi Hall.
    - exact I.
    - cbn [blocks_hyps]. split; [|exact I]. exists m.
      assert (Hdiv : (length b / c = m)%nat) by (rewrite Hm; apply Nat.div_mul; lia).
      split; [nia|]. split; [nia|]. split; [exact Hm|].
      specialize (Hall 0%nat b eq_refl). rewrite Hdiv, N.add_0_r in Hall. exact Hall.
    - cbn [blocks_hyps]. split.
      + exists bsn. assert (Hdiv : (length b / c = bsn)%nat) by (rewrite Hb; apply Nat.div_mul; lia).
        split; [exact Hbs1|]. split; [exact Hbs|]. split; [exact Hb|].
        specialize (Hall 0%nat b eq_refl). rewrite Hdiv, N.add_0_r in Hall. exact Hall.
      + apply IH. intros j b' Hj. specialize (Hall (S j) b' Hj).
        replace (fi + 1 + N.of_nat j) with (fi + N.of_nat (S j)) by lia. exact Hall.
  Qed.

  Theorem stream_end_to_end cfg rate channels bps bs samples bytes (total : nat) :
    encode_stream_bytes ent qlpc md5 cfg rate channels bps bs samples = Ok bytes ->
    cfg_max_parameter cfg <= 14 -> In bps [8; 12; 16; 20; 24] -> 1 <= rate < 2 ^ 20 -> 1 <= channels <= 8 ->
    16 <= bs <= c_MAX_BLOCK_SIZE ->
    length samples = (total * N.to_nat channels)%nat -> N.of_nat total < 2 ^ 36 ->
    length (md5 (md5_input bps samples)) = 16%nat -> Forall lt256 (md5 (md5_input bps samples)) ->
    (forall j b, nth_error (chunks (N.to_nat (bs * channels)) samples) j = Some b ->
                 block_hyps qlpc cfg (N.of_nat j) channels bps b (length b / N.to_nat channels)) ->
    exists minf maxf,
      decode_stream bytes = Some (mkSinfo bs bs minf maxf rate channels bps (N.of_nat total) (md5 (md5_input bps samples)), samples).
  Proof.
    intros E Hmp Hbps Hrate Hch Hbs Hlen Htot Hml Hm256 Hblocks.
    set (c := N.to_nat channels) in *. set (bsn := N.to_nat bs).
    assert (Hk : N.to_nat (bs * channels) = (bsn * c)%nat) by (unfold bsn, c; lia).
    unfold encode_stream_bytes, encode_stream in E. rewrite Hk in E, Hblocks.
    set (blocks := chunks (bsn * c) samples) in *.
    assert (Hchunked : chunked (bsn * c) c blocks).
    { apply (chunks_chunked (bsn * c) c bsn samples total); [unfold bsn, c; nia | reflexivity | exact Hlen]. }
    destruct (encode_blocks ent qlpc cfg rate channels bps 0 blocks) as [frames| |] eqn:Ebl; cbn [bind] in E; try discriminate.
    match type of E with stream_bytes (mkStream ?ii _ _) = _ => set (i2 := ii) in * end.
    assert (Hbsn : N.of_nat bsn = bs) by (unfold bsn; lia).
    assert (Htotal : si_total i2 = N.of_nat total).
    { unfold i2. cbn [si_total]. rewrite Hlen, Nat2N.inj_mul. unfold c. rewrite N2Nat.id. apply N.div_mul. lia. }
    assert (Hsmall : info_small i2).
    { change c_MAX_BLOCK_SIZE with 32767 in Hbs. constructor; cbn [si_min_block si_max_block si_rate si_channels si_bps si_md5 i2];
        try (change (2 ^ 16) with 65536; lia); try lia; try assumption.
      cbn [In] in Hbps. destruct Hbps as [<-|[<-|[<-|[<-|[<-|[]]]]]]; lia. }
    set (si := sinfo_of i2).
    assert (Hhyps : blocks_hyps qlpc cfg channels bps 0 blocks).
    { apply (blocks_hyps_of_nth cfg channels bps bsn); [lia | unfold bsn; lia | rewrite Hbsn; lia | exact Hchunked | exact Hblocks]. }
    destruct (encode_blocks_decode ent qlpc cfg rate channels bps si Hmp Hbps
                ltac:(change (2 ^ 20) with 1048576 in Hrate; change (2 ^ 32) with 4294967296; lia) Hch eq_refl eq_refl blocks 0 frames Ebl Hhyps)
      as (fbs & out & HF2 & Hspec & Houts).
    (* the stream's operations and bytes *)
    assert (Hfos : exists fos, Forall2 (fun f fo => frame_ops f = Ok fo) frames fos
                               /\ Forall2 (fun fo fb => pack KU8 fo = Ok fb) fos fbs
                               /\ Forall (fun fo => forallb wf_op fo = true /\ ops_len 0 fo mod 8 = 0) fos).
    { clear -HF2. induction HF2 as [|f fb fr fbr (Efb & Hpre & Hw) _ (fos & A & B & C)].
      - exists []. repeat split; constructor.
      - destruct (frame_ops_shape f Hpre Hw) as (body & Eo & Hb). destruct (frame_ops_wf body Hb) as [W1 W2].
        exists ([OBytes body; OWrite 16 (crc16 body)] :: fos). split; [constructor; assumption|]. split.
        + constructor; [|exact B]. unfold frame_bytes in Efb. rewrite Eo in Efb. exact Efb.
        + constructor; [split; assumption | exact C]. }
    destruct Hfos as (fos & Hfo1 & Hfo2 & Hfo3).
    unfold stream_bytes, stream_ops in E. cbn [s_frames s_meta s_info] in E.
    rewrite (Forall2_mapM frame_ops frames fos Hfo1) in E. cbn [bind meta_ops] in E.
    change ([OBytes [102; 76; 97; 67]] ++ metadata_ops true 0 272 (streaminfo_ops i2) ++ [] ++ concat fos)
      with ([OBytes [102; 76; 97; 67]] ++ metadata_ops true 0 272 (streaminfo_ops i2) ++ concat fos) in E.
    rewrite app_assoc in E. fold (hdr_ops i2) in E.
    assert (Hiw : info_wf i2).
    { destruct Hsmall. constructor; try assumption. change (2 ^ 36) with 68719476736 in *. change (2 ^ 64) with 18446744073709551616. lia. }
    pose proof (hdr_ops_wf i2 Hiw) as Hhw.
    pose proof (hdr_ops_len i2 (is_md5_len _ Hsmall)) as Hhl.
    destruct (pack_total KU8 _ Hhw) as [hb Ehb].
    destruct (pack_concat_aligned fos (hdr_ops i2) hb Hhw ltac:(rewrite Hhl; reflexivity) Ehb Hfo3) as (fbs' & Hfb' & Epack).
    assert (fbs' = fbs).
    { clear -Hfo2 Hfb'. revert fbs' Hfb'. induction Hfo2 as [|fo fb r rb H1 _ IH]; intros fbs' H; inversion H as [|? fb' ? rb' H2 Hr]; subst; [reflexivity|].
      rewrite H1 in H2. apply Ok_inj in H2. subst fb'. f_equal. apply IH. exact Hr. }
    subst fbs'. rewrite Epack in E. apply Ok_inj in E. subst bytes.
    destruct (pack_u8_bits _ hb Hhw Ehb) as [Hhb256 Hhb_bits].
    rewrite Hhl, hdr_ops_bits in Hhb_bits. change (pad8 336) with 0 in Hhb_bits. cbn [N.to_nat repeat] in Hhb_bits. rewrite app_nil_r in Hhb_bits.
    (* the decoder *)
    pose proof (frames_spec_lt256 si fbs 0 out Hspec) as Hrest256.
    exists ((si_min_frame i2 mod 2 ^ 32) mod 2 ^ 24), ((si_max_frame i2 mod 2 ^ 32) mod 2 ^ 24).
    unfold decode_stream. rewrite (flac_reads_stream_header i2 hb (concat fbs) Hsmall Hhb256 Hrest256 Hhb_bits). fold si.
    assert (Hinfo : info_ok si = true).
    { unfold info_ok, si, sinfo_of. cbn [i_min_block i_max_block i_rate i_bps si_min_block si_max_block si_rate si_bps i2].
      assert (A : 16 <=? bs = true) by (apply N.leb_le; lia). assert (B : bs <=? bs = true) by (apply N.leb_le; lia).
      assert (C : 1 <=? rate = true) by (apply N.leb_le; lia).
      assert (D : 4 <=? bps = true) by (apply N.leb_le; cbn [In] in Hbps; destruct Hbps as [<-|[<-|[<-|[<-|[<-|[]]]]]]; lia).
      rewrite A, B, C, D. reflexivity. }
    rewrite Hinfo. cbn [negb r_bytes].
    rewrite (read_frames_all si fbs 0 out _ Hspec (frames_spec_count si fbs 0 out Hspec)).
    assert (Hcons : frames_consistent si out = true).
    { rewrite frames_consistent_fc.
      assert (H1 : i_max_block si = N.of_nat bsn) by (unfold si, sinfo_of; cbn [i_max_block si_max_block i2]; symmetry; exact Hbsn).
      assert (H2 : i_min_block si = N.of_nat bsn) by (unfold si, sinfo_of; cbn [i_min_block si_min_block i2]; symmetry; exact Hbsn).
      exact (consistent_aux rate channels bps ltac:(lia) si bsn (length out) eq_refl eq_refl eq_refl H1 H2 blocks Hchunked out 0 0%nat Houts eq_refl). }
    rewrite Hcons. cbn [negb].
    assert (Hcat : concat blocks = samples) by (apply chunks_concat; unfold bsn, c; nia).
    assert (Hsum : sumN (map (fun hc : fheader * list (list Z) => fh_block (fst hc)) out) = N.of_nat total).
    { pose proof (outs_total rate channels bps ltac:(lia) blocks 0 out Houts) as Ht. rewrite Hcat, Hlen, Nat2N.inj_mul in Ht.
      unfold c in Ht. rewrite N2Nat.id in Ht. apply N.mul_cancel_r in Ht; [exact Ht | lia]. }
    rewrite Hsum.
    assert (Hti : i_total si = N.of_nat total) by (unfold si, sinfo_of; cbn [i_total]; exact Htotal).
    rewrite Hti, N.eqb_refl, Bool.orb_true_r. cbn [negb].
    rewrite (outs_samples rate channels bps ltac:(lia) blocks 0 out Houts), Hcat.
    unfold si, sinfo_of. cbn [si_min_block si_max_block si_rate si_channels si_bps si_md5 i2]. rewrite Htotal. reflexivity.
  Qed.
  (* in particular every such stream satisfies every clause of the strict validator (C02) *)
  Corollary stream_strict_ok cfg rate channels bps bs samples bytes (total : nat) :
    encode_stream_bytes ent qlpc md5 cfg rate channels bps bs samples = Ok bytes ->
    cfg_max_parameter cfg <= 14 -> In bps [8; 12; 16; 20; 24] -> 1 <= rate < 2 ^ 20 -> 1 <= channels <= 8 ->
    16 <= bs <= c_MAX_BLOCK_SIZE ->
    length samples = (total * N.to_nat channels)%nat -> N.of_nat total < 2 ^ 36 ->
    length (md5 (md5_input bps samples)) = 16%nat -> Forall lt256 (md5 (md5_input bps samples)) ->
    (forall j b, nth_error (chunks (N.to_nat (bs * channels)) samples) j = Some b ->
                 block_hyps qlpc cfg (N.of_nat j) channels bps b (length b / N.to_nat channels)) ->
    strict_ok bytes = true.
  Proof.
    intros E H1 H2 H3 H4 H5 H6 H7 H8 H9 H10.
    destruct (stream_end_to_end cfg rate channels bps bs samples bytes total E H1 H2 H3 H4 H5 H6 H7 H8 H9 H10) as (minf & maxf & H).
    unfold strict_ok. rewrite H. reflexivity.
  Qed.
End StreamE2E.

(* non-vacuity: a configuration, oracles and a stream that meet every hypothesis of stream_end_to_end *)
Example stream_hyps_satisfiable :
  let cfg := mkCfg 64 false None true true true true true false 4 None 10 15 false 0 None 14 in
  let qlpc := fun _ _ : N => mkQ [] 0%Z 1 in
  let ent := fun _ _ _ : N => 0 in
  let md5 := fun _ : list N => repeat 7 16%nat in
  let samples := [1; -2; 3; 4]%Z in
  (exists bytes, encode_stream_bytes ent qlpc md5 cfg 44100 1 16 16 samples = Ok bytes) /\
  length samples = (4 * N.to_nat 1)%nat /\
  (forall j b, nth_error (chunks (N.to_nat (16 * 1)) samples) j = Some b ->
               block_hyps qlpc cfg (N.of_nat j) 1 16 b (length b / N.to_nat 1)).
Proof.
  cbv zeta. split; [eexists; vm_compute; reflexivity|]. split; [reflexivity|].
  intros j b Hj. destruct j as [|j]; [|destruct j; discriminate]. vm_compute in Hj. inversion Hj; subst b.
  exact block_hyps_satisfiable.
Qed.
