(* parser ∘ writer on subframes (all four kinds), and the byte-level corollaries used by C18. *)
From FV Require Import Generated Model.Base Model.Sink Model.Crc Model.Codes Model.Rice Model.Predict
  Model.Component Model.Flac Model.Parser Model.Ctor
  Proofs.SinkArith Proofs.SinkRefine Proofs.OpsLen Proofs.BitRead Proofs.BitWrite Proofs.BitUnary Proofs.CtorP
  Proofs.ParseResidual.
Local Open Scope N_scope.

Definition twoc_bits (n : N) (x : Z) : list bool := bits_msb (N.to_nat n) (Z.to_N (x mod 2 ^ Z.of_N n)).

Lemma twoc_ops_bits n : forall xs cur, ops_bitlist cur (twoc_ops n xs) = flat_map (twoc_bits n) xs.
Proof.
  induction xs as [|x t IH]; intros cur; cbn [twoc_ops map ops_bitlist flat_map op_bitlist]; [reflexivity|].
  fold (twoc_ops n t). rewrite IH. reflexivity.
Qed.

Lemma sample_ok_range n x : sample_ok n x = true -> (- 2 ^ (Z.of_N n - 1) <= x < 2 ^ (Z.of_N n - 1))%Z.
Proof.
  unfold sample_ok. intros H. apply Bool.andb_true_iff in H. destruct H as [H1 H2].
  apply Z.leb_le in H1. apply Z.ltb_lt in H2. lia.
Qed.

Lemma reads_rmany_signed n : 1 <= n -> forall xs,
  forallb (sample_ok n) xs = true ->
  reads (rmany (length xs) (rsigned n)) (flat_map (twoc_bits n) xs) xs.
Proof.
  intros Hn. induction xs as [|x t IH]; intros Hok rd0 rest Hwf Hb.
  - exists rd0. cbn [length rmany flat_map app] in *. fin5 Hwf; [lia | apply rd_adv_refl].
  - cbn [forallb] in Hok. apply Bool.andb_true_iff in Hok. destruct Hok as [Hx Ht].
    cbn [flat_map] in Hb. rewrite <- app_assoc in Hb.
    destruct (reads_rsigned n x Hn (sample_ok_range n x Hx) rd0 _ Hwf Hb) as (r1 & E1 & Hb1 & Hwf1 & Hp1 & Hk1).
    destruct (IH Ht r1 rest Hwf1 Hb1) as (r2 & E2 & Hb2 & Hwf2 & Hp2 & Hk2).
    exists r2. cbn [length rmany]. rewrite E1, E2.
    fin5 Hwf2.
    + rewrite Hp2, Hp1. cbn [flat_map]. rewrite app_length, Nat2N.inj_add. unfold twoc_bits. lia.
    + exact (rd_adv_trans _ _ _ Hk1 Hk2).
Qed.

(* ---- subframe bits ---- *)
Definition header_bits (tag7 : N) : list bool := bits_msb 7 tag7 ++ [false].

Lemma bits8_even t : bits_msb 8 (2 * t) = bits_msb 7 t ++ [false].
Proof.
  replace (2 * t) with (t * 2 ^ 1 + 0) by (change (2 ^ 1) with 2; lia).
  change 8%nat with (7 + N.to_nat 1)%nat. rewrite bits_msb_concat by (cbn; lia). reflexivity.
Qed.

Definition subframe_bits (s : subframe) : list bool :=
  match s with
  | SConstant _ dc bps => header_bits 0 ++ twoc_bits bps dc
  | SVerbatim xs bps => header_bits 1 ++ flat_map (twoc_bits bps) xs
  | SFixed warm res bps => header_bits (8 + N.of_nat (length warm)) ++ flat_map (twoc_bits bps) warm ++ residual_bits res
  | SLpc warm q res bps =>
      header_bits (32 + (N.of_nat (length warm) - 1)) ++ flat_map (twoc_bits bps) warm
        ++ bits_msb 4 (q_precision q - 1) ++ twoc_bits 5 (q_shift q)
        ++ flat_map (twoc_bits (q_precision q)) (q_coefs q) ++ residual_bits res
  end.

Theorem subframe_ops_bits s cur :
  verify_subframe s = true -> ops_bitlist cur (subframe_ops s) = subframe_bits s.
Proof.
  destruct s as [blk dc bps | xs bps | warm res bps | warm q res bps]; cbn [verify_subframe subframe_ops subframe_bits]; intros Hv.
  - cbn [ops_bitlist op_bitlist]. rewrite app_nil_r. change (N.to_nat 8) with 8%nat.
    change 0 with (2 * 0) at 1. rewrite bits8_even. reflexivity.
  - change (OWrite 8 2 :: ?x) with ([OWrite 8 2] ++ x). rewrite ops_bitlist_app. cbn [ops_bitlist op_bitlist]. rewrite app_nil_r.
    change (N.to_nat 8) with 8%nat. change 2 with (2 * 1) at 1. rewrite bits8_even, twoc_ops_bits. reflexivity.
  - rewrite !Bool.andb_true_iff in Hv. destruct Hv as (((Hbps & Hwm) & Hwl) & Hres).
    change (OWrite 8 ?t :: ?x) with ([OWrite 8 t] ++ x). rewrite !ops_bitlist_app. cbn [ops_bitlist op_bitlist]. rewrite app_nil_r.
    change (N.to_nat 8) with 8%nat. replace (16 + 2 * N.of_nat (length warm)) with (2 * (8 + N.of_nat (length warm))) by lia.
    rewrite bits8_even, twoc_ops_bits, residual_ops_bits by exact Hres. reflexivity.
  - rewrite !Bool.andb_true_iff in Hv. destruct Hv as (((((Hq & Ho1) & Hwl) & Hbps) & Hwm) & Hres).
    apply N.leb_le in Ho1.
    change (OWrite 8 ?t :: ?x) with ([OWrite 8 t] ++ x). rewrite !ops_bitlist_app. cbn [ops_bitlist op_bitlist]. rewrite !app_nil_r.
    change (N.to_nat 8) with 8%nat.
    replace (64 + 2 * (N.of_nat (length warm) - 1)) with (2 * (32 + (N.of_nat (length warm) - 1))) by lia.
    rewrite bits8_even, !twoc_ops_bits, residual_ops_bits by exact Hres.
    rewrite <- !app_assoc. reflexivity.
Qed.

(* ---- the reader ---- *)
Lemma reads_header tag7 : tag7 < 128 ->
  forall rd0 rest, rd_wf rd0 -> rd_bits rd0 = header_bits tag7 ++ rest ->
  exists r1 r2, rbits 7 rd0 = Some (tag7, r1) /\ rbits 1 r1 = Some (0, r2) /\ rd_bits r2 = rest /\ rd_wf r2
                /\ rd_pos r2 = rd_pos rd0 + 8 /\ rd_adv rd0 r2.
Proof.
  intros Ht rd0 rest Hwf Hb. unfold header_bits in Hb. rewrite <- app_assoc in Hb.
  destruct (reads_rbits 7 tag7 ltac:(change (2 ^ 7) with 128; exact Ht) rd0 _ Hwf Hb) as (r1 & E1 & Hb1 & Hwf1 & Hp1 & Hk1).
  change [false] with (bits_msb (N.to_nat 1) 0) in Hb1.
  destruct (reads_rbits 1 0 ltac:(reflexivity) r1 _ Hwf1 Hb1) as (r2 & E2 & Hb2 & Hwf2 & Hp2 & Hk2).
  exists r1, r2. rewrite bits_msb_length in Hp1, Hp2.
  split; [exact E1|]. split; [exact E2|]. split; [exact Hb2|]. split; [exact Hwf2|]. split.
  - rewrite Hp2, Hp1. change (N.to_nat 7) with 7%nat. change (N.to_nat 1) with 1%nat. lia.
  - exact (rd_adv_trans _ _ _ Hk1 Hk2).
Qed.

Definition sub_quot_u32 (s : subframe) : Prop :=
  match s with SFixed _ res _ | SLpc _ _ res _ => quot_u32 res | _ => True end.

Lemma flat_map_twoc_length n xs : length (flat_map (twoc_bits n) xs) = (length xs * N.to_nat n)%nat.
Proof.
  induction xs as [|x t IH]; cbn [flat_map length]; [reflexivity|].
  rewrite app_length, IH. unfold twoc_bits. rewrite bits_msb_length. lia.
Qed.

Theorem reads_subframe s :
  verify_subframe s = true -> sub_typed s -> sub_quot_u32 s ->
  reads (p_subframe (sub_block s) (sub_bps s)) (subframe_bits s) s.
Proof.
  destruct s as [blk dc bps | xs bps | warm res bps | warm q res bps];
    cbn [verify_subframe sub_typed sub_quot_u32 sub_block sub_bps subframe_bits]; intros Hv Ht Hq rd0 rest Hwf Hb.
  - (* constant *)
    rewrite !Bool.andb_true_iff in Hv. destruct Hv as ((Hblk & Hbps) & Hdc). pose proof (bps_ok_range _ Hbps) as Hr.
    rewrite <- app_assoc in Hb.
    destruct (reads_header 0 ltac:(lia) rd0 _ Hwf Hb) as (r1 & r2 & E1 & E2 & Hb2 & Hwf2 & Hp2 & Hk2).
    destruct (reads_rsigned bps dc ltac:(lia) (sample_ok_range _ _ Hdc) r2 rest Hwf2 Hb2) as (r3 & E3 & Hb3 & Hwf3 & Hp3 & Hk3).
    exists r3. unfold p_subframe. rewrite E1, E2. cbn [N.eqb negb]. rewrite E3.
    split; [reflexivity|]. split; [exact Hb3|]. split; [exact Hwf3|]. split.
    + rewrite Hp3, Hp2, app_length. unfold header_bits, twoc_bits. rewrite app_length, !bits_msb_length. cbn [length]. lia.
    + exact (rd_adv_trans _ _ _ Hk2 Hk3).
  - (* verbatim *)
    rewrite !Bool.andb_true_iff in Hv. destruct Hv as ((Hblk & Hbps) & Hxs). pose proof (bps_ok_range _ Hbps) as Hr.
    rewrite <- app_assoc in Hb.
    destruct (reads_header 1 ltac:(lia) rd0 _ Hwf Hb) as (r1 & r2 & E1 & E2 & Hb2 & Hwf2 & Hp2 & Hk2).
    destruct (reads_rmany_signed bps ltac:(lia) xs Hxs r2 rest Hwf2 Hb2) as (r3 & E3 & Hb3 & Hwf3 & Hp3 & Hk3).
    exists r3. unfold p_subframe. rewrite E1, E2. cbn [N.eqb Pos.eqb negb N.leb N.compare Pos.compare Pos.compare_cont andb N.ltb].
    rewrite Nat2N.id, E3.
    split; [reflexivity|]. split; [exact Hb3|]. split; [exact Hwf3|]. split.
    + rewrite Hp3, Hp2, app_length. unfold header_bits. rewrite app_length, !bits_msb_length. cbn [length]. lia.
    + exact (rd_adv_trans _ _ _ Hk2 Hk3).
  - (* fixed *)
    rewrite !Bool.andb_true_iff in Hv. destruct Hv as (((Hbps & Hwm) & Hwl) & Hres). pose proof (bps_ok_range _ Hbps) as Hr.
    apply N.eqb_eq in Hwl.
    set (order := N.of_nat (length warm)) in *. assert (Ho : order <= 4) by (unfold order; lia).
    rewrite <- !app_assoc in Hb.
    destruct (reads_header (8 + order) ltac:(lia) rd0 _ Hwf Hb) as (r1 & r2 & E1 & E2 & Hb2 & Hwf2 & Hp2 & Hk2).
    destruct (reads_rmany_signed bps ltac:(lia) warm Hwm r2 _ Hwf2 Hb2) as (r3 & E3 & Hb3 & Hwf3 & Hp3 & Hk3).
    pose proof (reads_residual res Hres Hq r3 rest Hwf3 Hb3) as (r4 & E4 & Hb4 & Hwf4 & Hp4 & Hk4).
    exists r4. unfold p_subframe. rewrite E1, E2. cbn [N.eqb negb].
    destruct (N.eqb_spec (8 + order) 0) as [?|_]; [lia|].
    destruct (N.leb_spec 8 (8 + order)) as [_|?]; [|lia].
    destruct (N.leb_spec (8 + order) 12) as [_|?]; [|lia]. cbn [andb].
    replace (8 + order - 8) with order by lia. unfold order at 1. rewrite Nat2N.id, E3.
    rewrite Hwl in E4. rewrite E4.
    split; [reflexivity|]. split; [exact Hb4|]. split; [exact Hwf4|]. split.
    + rewrite Hp4, Hp3, Hp2, !app_length. unfold header_bits. rewrite app_length, !bits_msb_length. cbn [length]. lia.
    + exact (rd_adv_trans _ _ _ Hk2 (rd_adv_trans _ _ _ Hk3 Hk4)).
  - (* lpc *)
    rewrite !Bool.andb_true_iff in Hv. destruct Hv as (((((Hqv & Ho1) & Hwl) & Hbps) & Hwm) & Hres).
    pose proof (bps_ok_range _ Hbps) as Hr. apply N.eqb_eq in Hwl. apply N.leb_le in Ho1.
    destruct (verify_qparams_facts q Hqv) as (Ho & Hs & Hp & Hc). unfold q_order in Ho. rewrite Ht in Ho.
    set (order := N.of_nat (length warm)) in *.
    rewrite <- !app_assoc in Hb.
    destruct (reads_header (32 + (order - 1)) ltac:(lia) rd0 _ Hwf Hb) as (r1 & r2 & E1 & E2 & Hb2 & Hwf2 & Hp2 & Hk2).
    destruct (reads_rmany_signed bps ltac:(lia) warm Hwm r2 _ Hwf2 Hb2) as (r3 & E3 & Hb3 & Hwf3 & Hp3 & Hk3).
    destruct (reads_rbits 4 (q_precision q - 1) ltac:(change (2 ^ 4) with 16; lia) r3 _ Hwf3 Hb3) as (r4 & E4 & Hb4 & Hwf4 & Hp4 & Hk4).
    destruct (reads_rsigned 5 (q_shift q) ltac:(lia) ltac:(cbn; lia) r4 _ Hwf4 Hb4) as (r5 & E5 & Hb5 & Hwf5 & Hp5 & Hk5).
    destruct (reads_rmany_signed (q_precision q) ltac:(lia) (q_coefs q) Hc r5 _ Hwf5 Hb5) as (r6 & E6 & Hb6 & Hwf6 & Hp6 & Hk6).
    pose proof (reads_residual res Hres Hq r6 rest Hwf6 Hb6) as (r7 & E7 & Hb7 & Hwf7 & Hp7 & Hk7).
    exists r7. unfold p_subframe. rewrite E1, E2. cbn [N.eqb negb].
    destruct (N.eqb_spec (32 + (order - 1)) 0) as [?|_]; [lia|].
    destruct (N.leb_spec 8 (32 + (order - 1))) as [_|?]; [|lia].
    destruct (N.leb_spec (32 + (order - 1)) 12) as [?|_]; [lia|]. cbn [andb].
    destruct (N.leb_spec 32 (32 + (order - 1))) as [_|?]; [|lia].
    destruct (N.ltb_spec (32 + (order - 1)) 64) as [_|?]; [|lia]. cbn [andb].
    replace (32 + (order - 1) - 31) with order by lia. unfold order at 1. rewrite Nat2N.id, E3.
    destruct (N.ltb_spec 24 order) as [?|_]; [lia|].
    rewrite E4, E5. replace (q_precision q - 1 + 1) with (q_precision q) by lia.
    unfold order. rewrite Nat2N.id. rewrite <- Ht. rewrite E6.
    destruct (Z.ltb_spec (q_shift q) 0) as [?|_]; [lia|].
    destruct (N.ltb_spec 15 (q_precision q)) as [?|_]; [lia|]. cbn [orb].
    rewrite Hwl in E7. unfold order in E7. rewrite <- Ht in E7. rewrite E7.
    assert (Eta : mkQ (q_coefs q) (q_shift q) (q_precision q) = q) by (destruct q; reflexivity). rewrite Eta.
    split; [reflexivity|]. split; [exact Hb7|]. split; [exact Hwf7|]. split.
    + rewrite Hp7, Hp6, Hp5, Hp4, Hp3, Hp2, !app_length. unfold header_bits, twoc_bits.
      rewrite app_length, !bits_msb_length. cbn [length]. lia.
    + exact (rd_adv_trans _ _ _ Hk2 (rd_adv_trans _ _ _ Hk3 (rd_adv_trans _ _ _ Hk4 (rd_adv_trans _ _ _ Hk5 (rd_adv_trans _ _ _ Hk6 Hk7))))).
Qed.

(* ---- byte level: what the byte sink exports parses back ---- *)
Theorem residual_parse_back r bytes :
  verify_residual r = true -> quot_u32 r -> pack KU8 (residual_ops r) = Ok bytes ->
  exists r', p_residual (r_block r) (r_warmup r) (rd_of bytes) = Some (r, r').
Proof.
  intros Hv Hq Hp.
  destruct (pack_u8_bits _ _ (verify_residual_ops_wf r Hv) Hp) as [_ Hbits].
  rewrite (residual_ops_bits r 0 Hv) in Hbits.
  destruct (reads_residual r Hv Hq (rd_of bytes) _ (rd_of_wf bytes) ltac:(rewrite rd_of_bits; exact Hbits)) as (r' & E & _).
  exists r'. exact E.
Qed.

Theorem subframe_parse_back s bytes :
  verify_subframe s = true -> sub_typed s -> sub_quot_u32 s -> pack KU8 (subframe_ops s) = Ok bytes ->
  exists r', p_subframe (sub_block s) (sub_bps s) (rd_of bytes) = Some (s, r').
Proof.
  intros Hv Ht Hq Hp.
  destruct (verify_subframe_shape s Ht Hv) as [_ Hwf].
  destruct (pack_u8_bits _ _ Hwf Hp) as [_ Hbits].
  rewrite (subframe_ops_bits s 0 Hv) in Hbits.
  destruct (reads_subframe s Hv Ht Hq (rd_of bytes) _ (rd_of_wf bytes) ltac:(rewrite rd_of_bits; exact Hbits)) as (r' & E & _).
  exists r'. exact E.
Qed.

(* non-vacuity: a constructed LPC subframe, serialised by the byte sink, read back *)
Example ex_parse_back :
  let q := mkQ [5; -3]%Z 4%Z 5 in
  let res := mkResidual 0 4 2 [2] [0; 0; 1; 0] [0; 0; 3; 1] in
  let s := SLpc [100; -100]%Z q res 16 in
  verify_subframe s = true /\ sub_typed s /\ sub_quot_u32 s /\
  (match pack KU8 (subframe_ops s) with
   | Ok bytes => match p_subframe 4 16 (rd_of bytes) with Some (s', _) => s' = s | None => False end
   | _ => False
   end).
Proof.
  cbv zeta. split; [vm_compute; reflexivity|]. split; [reflexivity|]. split.
  - unfold sub_quot_u32, quot_u32. cbn [r_quot]. repeat constructor.
  - vm_compute. reflexivity.
Qed.
