(* C09: no subframe is larger than its verbatim encoding, whatever the estimators answer;
   hence no frame exceeds the verbatim frame (same header) and the stream bound follows. *)
From FV Require Import Generated Model.Base Model.Sink Model.Codes Model.Rice Model.Predict
  Model.Component Model.Encoder.
Local Open Scope N_scope.

Section Size.
  Variable ent : N -> N -> N -> N.
  Variable qlpc : N -> N -> qparams.

  Definition verbatim_bits (samples : list Z) (bps : N) : N := 8 + N.of_nat (length samples) * bps.

  Lemma encode_subframe_le_verbatim cfg fi var samples bps sf :
    samples <> [] ->
    encode_subframe ent qlpc cfg fi var samples bps = Ok sf ->
    subframe_count_bits sf <= verbatim_bits samples bps.
  Proof.
    intros Hne. unfold encode_subframe, verbatim_bits.
    destruct (cfg_use_constant cfg && is_constant samples).
    - destruct samples as [|x r]; [contradiction|]. intros E. inversion E; subst. cbn [subframe_count_bits].
      cbn [length]. rewrite Nat2N.inj_succ. nia.
    - set (n := N.of_nat (length samples)). set (baseline := 8 + n * bps).
      destruct (if negb (n <? MIN_PRED) && cfg_use_fixed cfg
                then if 30 <=? bps then Panic 308
                     else fixed_candidate ent cfg fi var samples bps baseline
                else Ok None) as [fixed0| |] eqn:Ef; cbn [bind]; try discriminate.
      set (fixed := match fixed0 with
                    | Some x => if subframe_count_bits x <? baseline then Some x else None
                    | None => None
                    end).
      assert (Hfixed : forall x, fixed = Some x -> subframe_count_bits x < baseline).
      { intros x. unfold fixed. destruct fixed0 as [y|]; [|discriminate].
        destruct (N.ltb_spec (subframe_count_bits y) baseline); [|discriminate].
        intros E. inversion E; subst. assumption. }
      set (baseline2 := match fixed with
                        | Some x => N.min baseline (subframe_count_bits x)
                        | None => baseline
                        end).
      assert (Hb2 : baseline2 <= baseline).
      { unfold baseline2. destruct fixed; lia. }
      destruct (if negb (n <? MIN_PRED) && cfg_use_lpc cfg
                then do c <- lpc_candidate qlpc cfg fi var samples bps;
                     Ok (if subframe_count_bits c <? baseline2 then Some c else None)
                else Ok None) as [lpc| |] eqn:El; cbn [bind]; try discriminate.
      assert (Hlpc : forall c, lpc = Some c -> subframe_count_bits c < baseline2).
      { intros c Hc. subst lpc.
        destruct (negb (n <? MIN_PRED) && cfg_use_lpc cfg); [|discriminate].
        destruct (lpc_candidate qlpc cfg fi var samples bps) as [c0| |]; cbn [bind] in El; try discriminate.
        destruct (N.ltb_spec (subframe_count_bits c0) baseline2); inversion El; subst. assumption. }
      destruct lpc as [c|].
      + intros E. inversion E; subst. specialize (Hlpc sf eq_refl). lia.
      + destruct fixed as [x|] eqn:Efx.
        * intros E. inversion E; subst. specialize (Hfixed sf eq_refl). lia.
        * intros E. inversion E; subst. cbn [subframe_count_bits]. fold n. lia.
  Qed.

  Lemma pick (flag : bool) (c c' : chassign) (v v' : N) :
    let r := if flag && (v' <? v) then (c', v') else (c, v) in
    snd r <= v /\ (r = (c, v) \/ r = (c', v')).
  Proof.
    cbv zeta. destruct flag; cbn [andb].
    - destruct (N.ltb_spec v' v); cbn [snd]; split; try lia; auto.
    - cbn [snd]. split; [lia | auto].
  Qed.

  (* the stereo decision: whatever is chosen costs no more than left + right *)
  Lemma stereo_choice_le (ls rs ms : bool) bl br bm bs :
    let best0 := (Indep 2, bl + br) in
    let best1 := if ls && (bl + bs <? snd best0) then (LeftSide, bl + bs) else best0 in
    let best2 := if rs && (br + bs <? snd best1) then (RightSide, br + bs) else best1 in
    let best3 := if ms && (bm + bs <? snd best2) then (MidSide, bm + bs) else best2 in
    snd best3 <= bl + br /\
    snd best3 = match fst best3 with
                | Indep _ => bl + br | LeftSide => bl + bs | RightSide => br + bs | MidSide => bm + bs
                end.
  Proof.
    intros best0 best1 best2 best3.
    destruct (pick ls (Indep 2) LeftSide (bl + br) (bl + bs)) as [H1 D1]. fold best0 in H1, D1.
    change (bl + br) with (snd best0) in H1, D1 at 1.
    assert (E1 : best1 = (Indep 2, bl + br) \/ best1 = (LeftSide, bl + bs)) by exact D1.
    assert (L1 : snd best1 <= bl + br) by exact H1.
    destruct best1 as [c1 v1] eqn:Eb1.
    destruct (pick rs c1 RightSide v1 (br + bs)) as [H2 D2].
    assert (E2 : best2 = (c1, v1) \/ best2 = (RightSide, br + bs)) by exact D2.
    assert (L2 : snd best2 <= v1) by exact H2.
    destruct best2 as [c2 v2] eqn:Eb2.
    destruct (pick ms c2 MidSide v2 (bm + bs)) as [H3 D3].
    assert (E3 : best3 = (c2, v2) \/ best3 = (MidSide, bm + bs)) by exact D3.
    assert (L3 : snd best3 <= v2) by exact H3.
    cbn [snd] in *.
    destruct E3 as [E3|E3]; rewrite E3 in *; cbn [fst snd] in *;
      destruct E2 as [E2|E2]; inversion E2; subst;
        destruct E1 as [E1|E1]; inversion E1; subst; split; lia.
  Qed.

  Lemma frame_bits_le (f : frame) :
    f_precomputed f = None ->
    frame_count_bits f <= header_count_bits (f_header f)
                          + sumN (map subframe_count_bits (f_subframes f)) + 7 + 16.
  Proof.
    intros Hp. unfold frame_count_bits. rewrite Hp.
    set (x := header_count_bits (f_header f) + sumN (map subframe_count_bits (f_subframes f)) + 7).
    pose proof (N.div_mod x 8 ltac:(lia)) as Hd.
    set (q := x / 8) in *. set (r := x mod 8) in *. lia.
  Qed.

  Lemma mapM_Forall2 {A B} (f : A -> Res B) : forall l ys,
    mapM f l = Ok ys -> Forall2 (fun x y => f x = Ok y) l ys.
  Proof.
    induction l as [|x r IH]; intros ys E; cbn [mapM] in E.
    - inversion E; subst. constructor.
    - destruct (f x) as [y| |] eqn:Ex; cbn [bind] in E; try discriminate.
      destruct (mapM f r) as [ys'| |] eqn:Er; cbn [bind] in E; try discriminate.
      inversion E; subst. constructor; [assumption | apply IH; reflexivity].
  Qed.

  Lemma subframes_le_verbatim cfg fi bps : forall (ics : list (N * list Z)) subs,
    Forall2 (fun ic y => encode_subframe ent qlpc cfg fi (fst ic) (snd ic) bps = Ok y) ics subs ->
    Forall (fun ic => snd ic <> []) ics ->
    sumN (map subframe_count_bits subs) <= sumN (map (fun ic => verbatim_bits (snd ic) bps) ics).
  Proof.
    induction 1 as [|ic y ics subs Hy _ IH]; intros Hne; cbn [map sumN fold_right].
    - lia.
    - inversion Hne as [|? ? Hh Ht]; subst.
      pose proof (encode_subframe_le_verbatim cfg fi (fst ic) (snd ic) bps y Hh Hy).
      specialize (IH Ht). unfold sumN in *. lia.
  Qed.

  Lemma sum_combine_snd {A} (g : list Z -> N) : forall (idx : list A) (chs : list (list Z)),
    length idx = length chs ->
    sumN (map (fun ic : A * list Z => g (snd ic)) (combine idx chs)) = sumN (map g chs).
  Proof.
    induction idx as [|i r IH]; intros [|c cs] Hl; cbn in Hl; try discriminate.
    - reflexivity.
    - cbn [combine map sumN fold_right snd]. f_equal. apply IH. lia.
  Qed.

  Definition frame_channels (channels : N) (block : list Z) : list (list Z) :=
    map (fun c => channel_samples channels block c) (map N.of_nat (seq 0 (N.to_nat channels))).

  (* C09, frame level: the subframes of an encoded frame never need more bits than the
     verbatim subframes of the same channels at the stream's sample width *)
  Theorem encode_frame_le_verbatim cfg rate channels bps fi number block f :
    encode_frame ent qlpc cfg rate channels bps fi number block = Ok f ->
    Forall (fun c => c <> []) (frame_channels channels block) ->
    f_precomputed f = None /\
    sumN (map subframe_count_bits (f_subframes f))
      <= sumN (map (fun c => verbatim_bits c bps) (frame_channels channels block)).
  Proof.
    unfold encode_frame. fold (frame_channels channels block).
    set (chs := frame_channels channels block).
    set (idx := map N.of_nat (seq 0 (N.to_nat channels))).
    intros E Hne.
    destruct (mapM (fun ic => encode_subframe ent qlpc cfg fi (fst ic) (snd ic) bps) (combine idx chs))
      as [indep| |] eqn:Em; cbn [bind] in E; try discriminate.
    pose proof (mapM_Forall2 _ _ _ Em) as HF.
    assert (Hne2 : Forall (fun ic : N * list Z => snd ic <> []) (combine idx chs)).
    { apply Forall_forall. intros [i c] Hin. cbn [snd]. apply in_combine_r in Hin.
      rewrite Forall_forall in Hne. apply Hne. assumption. }
    pose proof (subframes_le_verbatim cfg fi bps _ _ HF Hne2) as Hle.
    assert (Hlen : length idx = length chs).
    { unfold chs, frame_channels. fold idx. rewrite map_length. reflexivity. }
    pose proof (sum_combine_snd (fun c => verbatim_bits c bps) idx chs Hlen) as Hsum.
    rewrite Hsum in Hle.
    destruct (N.eqb_spec channels 2) as [H2|H2].
    - destruct chs as [|l [|r [|? ?]]] eqn:Echs; try discriminate.
      destruct indep as [|sl [|sr [|? ?]]] eqn:Eind; try discriminate.
      destruct (encode_subframe ent qlpc cfg fi VAR_MID _ bps) as [sm| |]; cbn [bind] in E; try discriminate.
      destruct (encode_subframe ent qlpc cfg fi VAR_SIDE _ (bps + 1)) as [ss| |]; cbn [bind] in E; try discriminate.
      cbv zeta in E.
      pose proof (stereo_choice_le (cfg_use_leftside cfg) (cfg_use_rightside cfg) (cfg_use_midside cfg)
                    (subframe_count_bits sl) (subframe_count_bits sr)
                    (subframe_count_bits sm) (subframe_count_bits ss)) as Hst.
      cbv zeta in Hst. destruct Hst as [Hst1 Hst2].
      match type of E with
      | context [mk_header _ _ (fst ?b) _ _] => set (best := b) in *
      end.
      destruct (mk_header rate bps (fst best) _ number) as [h| |]; cbn [bind] in E; try discriminate.
      inversion E; subst f. cbn [f_precomputed f_subframes]. split; [reflexivity|].
      cbn [map sumN fold_right] in Hle |- *.
      destruct (fst best); cbn [map sumN fold_right]; lia.
    - destruct (mk_header rate bps (Indep channels) _ number) as [h| |]; cbn [bind] in E; try discriminate.
      inversion E; subst f. cbn [f_precomputed f_subframes]. split; [reflexivity | exact Hle].
  Qed.
End Size.

(* non-vacuity: a concrete block on which the encoder really picks a predictive subframe *)
Definition ex_cfg : config :=
  mkCfg 64 false None true true true true true false 4 (Some 16) 10 15 false 0 None 14.
Definition ex_ramp : list Z := map (fun k => (3 * Z.of_nat k - 40)%Z) (seq 0 64).
Example size_example :
  match encode_subframe (fun _ _ _ => 0) (fun _ _ => mkQ [] 0%Z 1) ex_cfg 0 0 ex_ramp 16 with
  | Ok (SFixed _ _ _ as sf) => subframe_count_bits sf <? verbatim_bits ex_ramp 16 = true
  | _ => False
  end.
Proof. vm_compute. reflexivity. Qed.
