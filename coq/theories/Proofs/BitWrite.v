(* What the writer puts on the wire, as a list of bits: the ideal bit string of an operation
   sequence, and the bytes both sinks export for it. *)
From FV Require Import Model.Base Model.Sink Model.Flac Model.Component Proofs.SinkArith Proofs.SinkU8 Proofs.SinkRefine
  Proofs.OpsLen Proofs.BitRead.
Local Open Scope N_scope.

(* bits appended by one operation when `cur` bits have been written *)
Definition op_bitlist (cur : N) (o : op) : list bool :=
  match o with
  | OWrite w v => bits_msb (N.to_nat w) v
  | OMsbs w v n => bits_msb (N.to_nat n) ((v mod 2 ^ w) / 2 ^ (w - n))
  | OLsbs w v n => bits_msb (N.to_nat n) v
  | OTwoc v n => bits_msb (N.to_nat n) (Z.to_N (Z.modulo v (2 ^ Z.of_N n)))
  | OZeros n => repeat false (N.to_nat n)
  | OAlign => repeat false (N.to_nat (pad8 cur))
  | OBytes bs => repeat false (N.to_nat (pad8 cur)) ++ bytes_bits bs
  end.

Fixpoint ops_bitlist (cur : N) (ops : list op) : list bool :=
  match ops with
  | [] => []
  | o :: r => op_bitlist cur o ++ ops_bitlist (cur + op_len cur o) r
  end.

Lemma bits_msb_zero : forall n, bits_msb n 0 = repeat false n.
Proof. induction n as [|n IH]; cbn [bits_msb repeat]; [reflexivity|]. rewrite N.bits_0, IH. reflexivity. Qed.

Lemma bits_msb_mod : forall n v, bits_msb n (v mod 2 ^ N.of_nat n) = bits_msb n v.
Proof.
  intros n v. rewrite (split_hi_lo v (N.of_nat n)) at 2.
  symmetry. apply bits_msb_low; [apply mod_pow2_lt | lia].
Qed.

Lemma bstr_bits_field n v : bstr_bits (bfield n v) = bits_msb (N.to_nat n) v.
Proof.
  unfold bstr_bits, bfield. cbn [blen_i bval].
  rewrite <- (bits_msb_mod (N.to_nat n) v), N2Nat.id. reflexivity.
Qed.

Lemma bstr_bits_bpush b n v : bstr_bits (bpush b n v) = bstr_bits b ++ bits_msb (N.to_nat n) v.
Proof. rewrite bstr_bits_push, bstr_bits_field. reflexivity. Qed.

Lemma fold_bytes_bits : forall bs b,
  bstr_bits (fold_left (fun a x => bpush a 8 x) bs b) = bstr_bits b ++ bytes_bits bs.
Proof.
  induction bs as [|x t IH]; intros b; cbn [fold_left bytes_bits flat_map].
  - rewrite app_nil_r. reflexivity.
  - rewrite IH, bstr_bits_bpush. rewrite <- app_assoc. reflexivity.
Qed.

Lemma ideal_step_bits b o :
  bstr_bits (ideal_step b o) = bstr_bits b ++ op_bitlist (blen_i b) o.
Proof.
  destruct o as [w v|w v n|w v n|v n|n| |bs]; cbn [ideal_step op_bitlist].
  - apply bstr_bits_bpush.
  - apply bstr_bits_bpush.
  - apply bstr_bits_bpush.
  - apply bstr_bits_bpush.
  - rewrite bstr_bits_bpush, bits_msb_zero. reflexivity.
  - rewrite bstr_bits_bpush, bits_msb_zero. reflexivity.
  - rewrite fold_bytes_bits, bstr_bits_bpush, bits_msb_zero, <- app_assoc. reflexivity.
Qed.

Lemma ideal_fold_bits : forall ops b,
  bstr_bits (fold_left ideal_step ops b) = bstr_bits b ++ ops_bitlist (blen_i b) ops.
Proof.
  induction ops as [|o r IH]; intros b; cbn [fold_left ops_bitlist].
  - rewrite app_nil_r. reflexivity.
  - rewrite IH, ideal_step_bits, blen_ideal_step, <- app_assoc. reflexivity.
Qed.

Theorem ideal_run_bits ops : bstr_bits (ideal_run ops) = ops_bitlist 0 ops.
Proof. unfold ideal_run. rewrite ideal_fold_bits. reflexivity. Qed.

Lemma ops_bitlist_app : forall a cur b,
  ops_bitlist cur (a ++ b) = ops_bitlist cur a ++ ops_bitlist (cur + ops_len cur a) b.
Proof.
  induction a as [|o r IH]; intros cur b; cbn [app ops_bitlist ops_len].
  - rewrite N.add_0_r. reflexivity.
  - rewrite IH, <- app_assoc, N.add_assoc. reflexivity.
Qed.

Lemma bytes_bits_length bs : length (bytes_bits bs) = (8 * length bs)%nat.
Proof.
  unfold bytes_bits. induction bs as [|x t IH]; cbn [flat_map length]; [reflexivity|].
  rewrite app_length, bits_msb_length, IH. lia.
Qed.

Lemma op_bitlist_length cur o : N.of_nat (length (op_bitlist cur o)) = op_len cur o.
Proof.
  destruct o as [w v|w v n|w v n|v n|n| |bs]; cbn [op_bitlist op_len];
    rewrite ?app_length, ?bits_msb_length, ?repeat_length, ?bytes_bits_length; lia.
Qed.

Lemma ops_bitlist_length : forall ops cur, N.of_nat (length (ops_bitlist cur ops)) = ops_len cur ops.
Proof.
  induction ops as [|o r IH]; intros cur; cbn [ops_bitlist ops_len length]; [reflexivity|].
  rewrite app_length, Nat2N.inj_add, IH, op_bitlist_length. reflexivity.
Qed.

(* operations that do not look at the position: their bits are the same anywhere *)
Lemma ops_bitlist_plain ops : forall cur cur',
  forallb plain ops = true -> ops_bitlist cur ops = ops_bitlist cur' ops.
Proof.
  induction ops as [|o r IH]; intros cur cur' H; cbn [ops_bitlist]; [reflexivity|].
  cbn [forallb] in H. apply Bool.andb_true_iff in H. destruct H as [Ho Hr].
  rewrite (IH _ (cur' + op_len cur' o) Hr).
  destruct o; cbn [plain] in Ho; try discriminate; reflexivity.
Qed.

(* ---- bytes: big-endian value <-> bits ---- *)
Lemma sval_cons W x t : sval W (x :: t) = x * 2 ^ (W * N.of_nat (length t)) + sval W t.
Proof.
  rewrite <- (rev_involutive (x :: t)), sval_rval. cbn [rev]. rewrite rval_app, rev_length.
  cbn [rval]. rewrite N.mul_0_l, N.add_0_l.
  f_equal. symmetry. rewrite <- (rev_involutive t) at 1. apply sval_rval.
Qed.

Lemma sval_bound W l : Forall (fun x => x < 2 ^ W) l -> sval W l < 2 ^ (W * N.of_nat (length l)).
Proof.
  intros H. rewrite <- (rev_involutive l), sval_rval, rev_length. apply rval_bound. apply Forall_rev. exact H.
Qed.

Lemma bytes_bits_sval : forall bs, Forall (fun x => x < 256) bs ->
  bytes_bits bs = bits_msb (8 * length bs) (sval 8 bs).
Proof.
  induction bs as [|x t IH]; intros H; [reflexivity|].
  inversion H as [|? ? Hx Ht]; subst.
  cbn [bytes_bits flat_map length]. fold (bytes_bits t). rewrite IH by assumption.
  rewrite sval_cons.
  replace (8 * S (length t))%nat with (8 + N.to_nat (8 * N.of_nat (length t)))%nat by lia.
  rewrite bits_msb_concat by (apply sval_bound; exact Ht).
  f_equal. f_equal. lia.
Qed.

(* ---- what the byte sink exports ---- *)
Lemma pad_of_total blen total : blen <= total -> total < blen + 8 -> total mod 8 = 0 -> total - blen = pad8 blen.
Proof.
  intros H1 H2 H3. unfold pad8.
  pose proof (N.div_mod total 8 ltac:(lia)) as Ht. pose proof (N.div_mod blen 8 ltac:(lia)) as Hb.
  pose proof (N.mod_upper_bound blen 8 ltac:(lia)) as Hbm.
  set (tq := total / 8) in *. set (bq := blen / 8) in *. set (bm := blen mod 8) in *.
  rewrite H3, N.add_0_r in Ht.
  destruct (N.eq_dec bm 0) as [E|E].
  - rewrite E. change ((8 - 0) mod 8) with 0. lia.
  - rewrite N.mod_small by lia. lia.
Qed.

Theorem pack_u8_bits ops bytes :
  forallb wf_op ops = true -> pack KU8 ops = Ok bytes ->
  Forall (fun x => x < 256) bytes /\
  bytes_bits bytes = ops_bitlist 0 ops ++ repeat false (N.to_nat (pad8 (ops_len 0 ops))).
Proof.
  intros Hwf Hp. unfold pack in Hp.
  destruct (sink_refines_ideal KU8 ops Hwf) as (s & Hr & Hinv & Habs).
  rewrite Hr in Hp. cbn [bind] in Hp. apply Ok_inj in Hp. subst bytes. cbn [export_bytes].
  destruct Hinv as (H1 & H2 & H3 & H4). cbn [wordbits] in *.
  assert (Hst : Forall (fun x => x < 256) (storage s)).
  { unfold storage. rewrite <- rev_alt. apply Forall_rev. exact H3. }
  assert (Hlen : length (storage s) = length (rst s)) by (unfold storage; rewrite <- rev_alt; apply rev_length).
  split; [exact Hst|].
  rewrite bytes_bits_sval by exact Hst. rewrite Hlen.
  set (total := 8 * N.of_nat (length (rst s))) in *.
  assert (Hb : blen s = ops_len 0 ops).
  { rewrite <- ops_bits_len. unfold ops_bits. rewrite <- Habs. reflexivity. }
  assert (Hpad : total - blen s = pad8 (blen s)).
  { apply pad_of_total; try assumption. unfold total. rewrite N.mul_comm. apply N.mod_mul. lia. }
  rewrite <- ideal_run_bits, <- Habs. unfold bstr_bits, abs. cbn [blen_i bval wordbits]. fold total.
  set (sv := sval 8 (storage s)) in *. set (pd := total - blen s) in *.
  assert (Hsv : sv = (sv / 2 ^ pd) * 2 ^ pd + 0).
  { pose proof (N.div_mod sv (2 ^ pd) (pow2_nz pd)) as Hd. rewrite H4 in Hd. lia. }
  rewrite Hsv at 1.
  replace (8 * length (rst s))%nat with (N.to_nat (blen s) + N.to_nat pd)%nat by (unfold pd, total; lia).
  rewrite bits_msb_concat by apply pow2_pos.
  rewrite bits_msb_zero, <- Hb, <- Hpad. reflexivity.
Qed.

(* ---- what the word sink exports (frame bodies go through MemSink<u64>) ---- *)
Lemma firstn_exact {A} (a b : list A) n : length a = n -> firstn n (a ++ b) = a.
Proof. intros <-. rewrite firstn_app, Nat.sub_diag, firstn_all. cbn [firstn]. apply app_nil_r. Qed.
Lemma skipn_exact {A} (a b : list A) n : length a = n -> skipn n (a ++ b) = b.
Proof. intros <-. rewrite skipn_app, Nat.sub_diag, skipn_all. reflexivity. Qed.

Lemma bits_top_byte val : val < 2 ^ 64 -> bits_msb 8 (DIV2 val (64 - 8)) = firstn 8 (bits_msb 64 val).
Proof.
  intros Hv. rewrite DIV2_eq. change (64 - 8) with 56.
  rewrite (split_hi_lo val 56) at 2.
  change 64%nat with (8 + N.to_nat 56)%nat. rewrite bits_msb_concat by apply mod_pow2_lt.
  symmetry. apply firstn_exact. apply bits_msb_length.
Qed.

Lemma bits_shift_byte val : val < 2 ^ 64 ->
  bits_msb 64 (MOD2 (val * 256) 64) = skipn 8 (bits_msb 64 val) ++ repeat false 8.
Proof.
  intros Hv. rewrite MOD2_eq. change 256 with (2 ^ (64 - 56)). rewrite shl_mod_top by lia. change (64 - 56) with 8.
  rewrite (split_hi_lo val 56) at 2.
  change 64%nat with (8 + N.to_nat 56)%nat at 2. rewrite bits_msb_concat by apply mod_pow2_lt.
  rewrite (skipn_exact (bits_msb 8 (val / 2 ^ 56))) by apply bits_msb_length.
  replace (val mod 2 ^ 56 * 2 ^ 8) with (val mod 2 ^ 56 * 2 ^ 8 + 0) by lia.
  change 64%nat with (N.to_nat 56 + N.to_nat 8)%nat. rewrite bits_msb_concat by apply pow2_pos.
  rewrite bits_msb_zero. reflexivity.
Qed.

Lemma be_bytes_bits : forall (k : nat) val, val < 2 ^ 64 -> (k <= 8)%nat ->
  bytes_bits (be_bytes k 64 val) = firstn (8 * k) (bits_msb 64 val).
Proof.
  induction k as [|k IH]; intros val Hv Hk; [reflexivity|].
  cbn [be_bytes bytes_bits flat_map]. fold (bytes_bits (be_bytes k 64 (MOD2 (val * 256) 64))).
  rewrite bits_top_byte by exact Hv.
  rewrite IH by (try (rewrite MOD2_eq; apply mod_pow2_lt); lia).
  rewrite bits_shift_byte by exact Hv.
  rewrite firstn_app, skipn_length, bits_msb_length.
  replace (8 * k - (64 - 8))%nat with 0%nat by lia. cbn [firstn]. rewrite app_nil_r.
  replace (8 * S k)%nat with (8 + 8 * k)%nat by lia.
  rewrite <- (firstn_skipn 8 (bits_msb 64 val)) at 3.
  rewrite firstn_app, firstn_length, bits_msb_length. replace (Nat.min 8 64) with 8%nat by reflexivity.
  rewrite (firstn_all2 (firstn 8 _)) by (rewrite firstn_length, bits_msb_length; lia).
  replace (8 + 8 * k - 8)%nat with (8 * k)%nat by lia. reflexivity.
Qed.

Lemma words_bits_sval : forall ws, Forall (fun x => x < 2 ^ 64) ws ->
  bytes_bits (flat_map (be_bytes 8 64) ws) = bits_msb (64 * length ws) (sval 64 ws).
Proof.
  induction ws as [|x t IH]; intros H; [reflexivity|].
  inversion H as [|? ? Hx Ht]; subst.
  cbn [flat_map]. unfold bytes_bits. rewrite flat_map_app. fold (bytes_bits (be_bytes 8 64 x)). fold (bytes_bits (flat_map (be_bytes 8 64) t)).
  rewrite be_bytes_bits by (assumption || lia). rewrite firstn_all2 by (rewrite bits_msb_length; lia).
  rewrite IH by assumption. rewrite sval_cons.
  cbn [length]. replace (64 * S (length t))%nat with (64 + N.to_nat (64 * N.of_nat (length t)))%nat by lia.
  rewrite bits_msb_concat by (apply sval_bound; exact Ht).
  f_equal. f_equal. lia.
Qed.

Lemma bytes_bits_firstn : forall (k : nat) bs, bytes_bits (firstn k bs) = firstn (8 * k) (bytes_bits bs).
Proof.
  induction k as [|k IH]; intros bs; [reflexivity|]. destruct bs as [|b t]; [reflexivity|].
  cbn [firstn bytes_bits flat_map]. fold (bytes_bits (firstn k t)). fold (bytes_bits t). rewrite IH.
  replace (8 * S k)%nat with (8 + 8 * k)%nat by lia.
  rewrite firstn_app, bits_msb_length. rewrite (firstn_all2 (bits_msb 8 b)) by (rewrite bits_msb_length; lia).
  replace (8 + 8 * k - 8)%nat with (8 * k)%nat by lia. reflexivity.
Qed.

Lemma be_bytes_lt256 : forall k val x, val < 2 ^ 64 -> In x (be_bytes k 64 val) -> x < 256.
Proof.
  induction k as [|k IH]; intros val x Hv Hin; cbn [be_bytes] in Hin; [contradiction|].
  destruct Hin as [<-|Hin].
  - rewrite DIV2_eq. change (64 - 8) with 56. change 256 with (2 ^ (64 - 56)). apply hi_bound; [lia | exact Hv].
  - apply (IH (MOD2 (val * 256) 64) x); [rewrite MOD2_eq; apply mod_pow2_lt | exact Hin].
Qed.

Lemma In_firstn_bw {A} (x : A) : forall n l, In x (firstn n l) -> In x l.
Proof.
  induction n as [|n IH]; intros l H; [destruct H|]. destruct l as [|y t]; [destruct H|].
  cbn [firstn] in H. destruct H as [->|H]; [left; reflexivity | right; apply IH; exact H].
Qed.

Lemma firstn_repeat_le {A} (x : A) (n m : nat) : (n <= m)%nat -> firstn n (repeat x m) = repeat x n.
Proof.
  revert m. induction n as [|n IH]; intros m H; [reflexivity|]. destruct m as [|m]; [lia|].
  cbn [repeat firstn]. rewrite IH by lia. reflexivity.
Qed.

Lemma ceil8_bits b : 8 * ((b + 7) / 8) = b + pad8 b.
Proof.
  unfold pad8. pose proof (N.div_mod b 8 ltac:(lia)) as Hb. pose proof (N.mod_upper_bound b 8 ltac:(lia)) as Hm.
  set (q := b / 8) in *. set (m := b mod 8) in *.
  destruct (N.eq_dec m 0) as [E|E].
  - rewrite E in *. change ((8 - 0) mod 8) with 0. replace (b + 7) with (q * 8 + 7) by lia.
    rewrite N.div_add_l by lia. change (7 / 8) with 0. lia.
  - rewrite (N.mod_small (8 - m)) by lia. replace (b + 7) with ((q + 1) * 8 + (m - 1)) by lia.
    rewrite N.div_add_l by lia. rewrite (N.div_small (m - 1)) by lia. lia.
Qed.

Theorem pack_u64_bits ops bytes :
  forallb wf_op ops = true -> pack KU64 ops = Ok bytes ->
  Forall (fun x => x < 256) bytes /\
  bytes_bits bytes = ops_bitlist 0 ops ++ repeat false (N.to_nat (pad8 (ops_len 0 ops))).
Proof.
  intros Hwf Hp. unfold pack in Hp.
  destruct (sink_refines_ideal KU64 ops Hwf) as (s & Hr & Hinv & Habs).
  rewrite Hr in Hp. cbn [bind] in Hp. apply Ok_inj in Hp. subst bytes. cbn [export_bytes].
  destruct Hinv as (H1 & H2 & H3 & H4). cbn [wordbits] in *.
  assert (Hst : Forall (fun x => x < 2 ^ 64) (storage s)).
  { unfold storage. rewrite <- rev_alt. apply Forall_rev. exact H3. }
  assert (Hlen : length (storage s) = length (rst s)) by (unfold storage; rewrite <- rev_alt; apply rev_length).
  split.
  - apply Forall_forall. intros x Hx. apply In_firstn_bw in Hx. apply in_flat_map in Hx. destruct Hx as (wd & Hwd & Hx).
    rewrite Forall_forall in Hst. apply (be_bytes_lt256 8 wd x); [apply Hst; exact Hwd | exact Hx].
  - rewrite bytes_bits_firstn, words_bits_sval by exact Hst. rewrite Hlen.
    set (total := 64 * N.of_nat (length (rst s))) in *.
    assert (Hb : blen s = ops_len 0 ops).
    { rewrite <- ops_bits_len. unfold ops_bits. rewrite <- Habs. reflexivity. }
    rewrite <- ideal_run_bits, <- Habs. unfold bstr_bits, abs. cbn [blen_i bval wordbits]. fold total.
    set (sv := sval 64 (storage s)) in *. set (pd := total - blen s) in *.
    assert (Hsv : sv = (sv / 2 ^ pd) * 2 ^ pd + 0).
    { pose proof (N.div_mod sv (2 ^ pd) (pow2_nz pd)) as Hd. rewrite H4 in Hd. lia. }
    rewrite Hsv at 1.
    replace (64 * length (rst s))%nat with (N.to_nat (blen s) + N.to_nat pd)%nat by (unfold pd, total; lia).
    rewrite bits_msb_concat by apply pow2_pos. rewrite bits_msb_zero.
    (* the export keeps ceil(len/8) bytes: the bits written and the padding to a byte *)
    assert (Hpad : pad8 (blen s) <= pd).
    { pose proof (ceil8_bits (blen s)) as Hc. unfold pd.
      assert (Hmul : (blen s + pad8 (blen s)) mod 8 = 0) by (rewrite <- Hc, N.mul_comm; apply N.mod_mul; lia).
      assert (Htot : total mod 8 = 0) by (unfold total; replace (64 * N.of_nat (length (rst s))) with ((8 * N.of_nat (length (rst s))) * 8) by lia; apply N.mod_mul; lia).
      pose proof (pad8_spec (blen s)) as [_ Hlt].
      (* total is a multiple of 8 that is >= blen, hence >= the next multiple of 8 *)
      pose proof (N.div_mod total 8 ltac:(lia)) as Ht. rewrite Htot, N.add_0_r in Ht.
      pose proof (N.div_mod (blen s + pad8 (blen s)) 8 ltac:(lia)) as Hn. rewrite Hmul, N.add_0_r in Hn.
      set (a := total / 8) in *. set (c := (blen s + pad8 (blen s)) / 8) in *.
      assert (c <= a) by nia. nia. }
    replace (8 * N.to_nat ((blen s + 7) / 8))%nat with (N.to_nat (blen s) + N.to_nat (pad8 (blen s)))%nat
      by (pose proof (ceil8_bits (blen s)); lia).
    rewrite firstn_app, bits_msb_length. rewrite (firstn_all2 (bits_msb _ _)) by (rewrite bits_msb_length; lia).
    replace (N.to_nat (blen s) + N.to_nat (pad8 (blen s)) - N.to_nat (blen s))%nat with (N.to_nat (pad8 (blen s))) by lia.
    rewrite firstn_repeat_le by lia. rewrite <- Hb. reflexivity.
Qed.
