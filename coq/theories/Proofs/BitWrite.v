(* What the writer puts on the wire, as a list of bits: the ideal bit string of an operation
   sequence, and the bytes both sinks export for it. *)
From FV Require Import Model.Base Model.Sink Model.Flac Model.Component Proofs.SinkArith Proofs.SinkU8 Proofs.SinkRefine
  Proofs.OpsLen Proofs.BitRead.
Local Open Scope N_scope.

(* bits appended by one operation when `cur` bits have been written *)
Definition op_bitlist (cur : N) (o : op) : list bool :=
  match o with
  | OWrite w v => bits_msb (N.to_nat w) v
  | OMsbs w v n => bits_msb (N.to_nat n) ((v mod 2 ^ w) / 2 ^ (w - n))
  | OLsbs w v n => bits_msb (N.to_nat n) v
  | OTwoc v n => bits_msb (N.to_nat n) (Z.to_N (Z.modulo v (2 ^ Z.of_N n)))
  | OZeros n => repeat false (N.to_nat n)
  | OAlign => repeat false (N.to_nat (pad8 cur))
  | OBytes bs => repeat false (N.to_nat (pad8 cur)) ++ bytes_bits bs
  end.

Fixpoint ops_bitlist (cur : N) (ops : list op) : list bool :=
  match ops with
  | [] => []
  | o :: r => op_bitlist cur o ++ ops_bitlist (cur + op_len cur o) r
  end.

Lemma bits_msb_zero : forall n, bits_msb n 0 = repeat false n.
Proof. induction n as [|n IH]; cbn [bits_msb repeat]; [reflexivity|]. rewrite N.bits_0, IH. reflexivity. Qed.

Lemma bits_msb_mod : forall n v, bits_msb n (v mod 2 ^ N.of_nat n) = bits_msb n v.
Proof.
  intros n v. rewrite (split_hi_lo v (N.of_nat n)) at 2.
  symmetry. apply bits_msb_low; [apply mod_pow2_lt | lia].
Qed.

Lemma bstr_bits_field n v : bstr_bits (bfield n v) = bits_msb (N.to_nat n) v.
Proof.
  unfold bstr_bits, bfield. cbn [blen_i bval].
  rewrite <- (bits_msb_mod (N.to_nat n) v), N2Nat.id. reflexivity.
Qed.

Lemma bstr_bits_bpush b n v : bstr_bits (bpush b n v) = bstr_bits b ++ bits_msb (N.to_nat n) v.
Proof. rewrite bstr_bits_push, bstr_bits_field. reflexivity. Qed.

Lemma fold_bytes_bits : forall bs b,
  bstr_bits (fold_left (fun a x => bpush a 8 x) bs b) = bstr_bits b ++ bytes_bits bs.
Proof.
  induction bs as [|x t IH]; intros b; cbn [fold_left bytes_bits flat_map].
  - rewrite app_nil_r. reflexivity.
  - rewrite IH, bstr_bits_bpush. rewrite <- app_assoc. reflexivity.
Qed.

Lemma ideal_step_bits b o :
  bstr_bits (ideal_step b o) = bstr_bits b ++ op_bitlist (blen_i b) o.
Proof.
  destruct o as [w v|w v n|w v n|v n|n| |bs]; cbn [ideal_step op_bitlist].
  - apply bstr_bits_bpush.
  - apply bstr_bits_bpush.
  - apply bstr_bits_bpush.
  - apply bstr_bits_bpush.
  - rewrite bstr_bits_bpush, bits_msb_zero. reflexivity.
  - rewrite bstr_bits_bpush, bits_msb_zero. reflexivity.
  - rewrite fold_bytes_bits, bstr_bits_bpush, bits_msb_zero, <- app_assoc. reflexivity.
Qed.

Lemma ideal_fold_bits : forall ops b,
  bstr_bits (fold_left ideal_step ops b) = bstr_bits b ++ ops_bitlist (blen_i b) ops.
Proof.
  induction ops as [|o r IH]; intros b; cbn [fold_left ops_bitlist].
  - rewrite app_nil_r. reflexivity.
  - rewrite IH, ideal_step_bits, blen_ideal_step, <- app_assoc. reflexivity.
Qed.

Theorem ideal_run_bits ops : bstr_bits (ideal_run ops) = ops_bitlist 0 ops.
Proof. unfold ideal_run. rewrite ideal_fold_bits. reflexivity. Qed.

Lemma ops_bitlist_app : forall a cur b,
  ops_bitlist cur (a ++ b) = ops_bitlist cur a ++ ops_bitlist (cur + ops_len cur a) b.
Proof.
  induction a as [|o r IH]; intros cur b; cbn [app ops_bitlist ops_len].
  - rewrite N.add_0_r. reflexivity.
  - rewrite IH, <- app_assoc, N.add_assoc. reflexivity.
Qed.

Lemma bytes_bits_length bs : length (bytes_bits bs) = (8 * length bs)%nat.
Proof.
  unfold bytes_bits. induction bs as [|x t IH]; cbn [flat_map length]; [reflexivity|].
  rewrite app_length, bits_msb_length, IH. lia.
Qed.

Lemma op_bitlist_length cur o : N.of_nat (length (op_bitlist cur o)) = op_len cur o.
Proof.
  destruct o as [w v|w v n|w v n|v n|n| |bs]; cbn [op_bitlist op_len];
    rewrite ?app_length, ?bits_msb_length, ?repeat_length, ?bytes_bits_length; lia.
Qed.

Lemma ops_bitlist_length : forall ops cur, N.of_nat (length (ops_bitlist cur ops)) = ops_len cur ops.
Proof.
  induction ops as [|o r IH]; intros cur; cbn [ops_bitlist ops_len length]; [reflexivity|].
  rewrite app_length, Nat2N.inj_add, IH, op_bitlist_length. reflexivity.
Qed.

(* operations that do not look at the position: their bits are the same anywhere *)
Lemma ops_bitlist_plain ops : forall cur cur',
  forallb plain ops = true -> ops_bitlist cur ops = ops_bitlist cur' ops.
Proof.
  induction ops as [|o r IH]; intros cur cur' H; cbn [ops_bitlist]; [reflexivity|].
  cbn [forallb] in H. apply Bool.andb_true_iff in H. destruct H as [Ho Hr].
  rewrite (IH _ (cur' + op_len cur' o) Hr).
  destruct o; cbn [plain] in Ho; try discriminate; reflexivity.
Qed.

(* ---- bytes: big-endian value <-> bits ---- *)
Lemma sval_cons W x t : sval W (x :: t) = x * 2 ^ (W * N.of_nat (length t)) + sval W t.
Proof.
  rewrite <- (rev_involutive (x :: t)), sval_rval. cbn [rev]. rewrite rval_app, rev_length.
  cbn [rval]. rewrite N.mul_0_l, N.add_0_l.
  f_equal. symmetry. rewrite <- (rev_involutive t) at 1. apply sval_rval.
Qed.

Lemma sval_bound W l : Forall (fun x => x < 2 ^ W) l -> sval W l < 2 ^ (W * N.of_nat (length l)).
Proof.
  intros H. rewrite <- (rev_involutive l), sval_rval, rev_length. apply rval_bound. apply Forall_rev. exact H.
Qed.

Lemma bytes_bits_sval : forall bs, Forall (fun x => x < 256) bs ->
  bytes_bits bs = bits_msb (8 * length bs) (sval 8 bs).
Proof.
  induction bs as [|x t IH]; intros H; [reflexivity|].
  inversion H as [|? ? Hx Ht]; subst.
  cbn [bytes_bits flat_map length]. fold (bytes_bits t). rewrite IH by assumption.
  rewrite sval_cons.
  replace (8 * S (length t))%nat with (8 + N.to_nat (8 * N.of_nat (length t)))%nat by lia.
  rewrite bits_msb_concat by (apply sval_bound; exact Ht).
  f_equal. f_equal. lia.
Qed.

(* ---- what the byte sink exports ---- *)
Lemma pad_of_total blen total : blen <= total -> total < blen + 8 -> total mod 8 = 0 -> total - blen = pad8 blen.
Proof.
  intros H1 H2 H3. unfold pad8.
  pose proof (N.div_mod total 8 ltac:(lia)) as Ht. pose proof (N.div_mod blen 8 ltac:(lia)) as Hb.
  pose proof (N.mod_upper_bound blen 8 ltac:(lia)) as Hbm.
  set (tq := total / 8) in *. set (bq := blen / 8) in *. set (bm := blen mod 8) in *.
  rewrite H3, N.add_0_r in Ht.
  destruct (N.eq_dec bm 0) as [E|E].
  - rewrite E. change ((8 - 0) mod 8) with 0. lia.
  - rewrite N.mod_small by lia. lia.
Qed.

Theorem pack_u8_bits ops bytes :
  forallb wf_op ops = true -> pack KU8 ops = Ok bytes ->
  Forall (fun x => x < 256) bytes /\
  bytes_bits bytes = ops_bitlist 0 ops ++ repeat false (N.to_nat (pad8 (ops_len 0 ops))).
Proof.
  intros Hwf Hp. unfold pack in Hp.
  destruct (sink_refines_ideal KU8 ops Hwf) as (s & Hr & Hinv & Habs).
  rewrite Hr in Hp. cbn [bind] in Hp. apply Ok_inj in Hp. subst bytes. cbn [export_bytes].
  destruct Hinv as (H1 & H2 & H3 & H4). cbn [wordbits] in *.
  assert (Hst : Forall (fun x => x < 256) (storage s)).
  { unfold storage. rewrite <- rev_alt. apply Forall_rev. exact H3. }
  assert (Hlen : length (storage s) = length (rst s)) by (unfold storage; rewrite <- rev_alt; apply rev_length).
  split; [exact Hst|].
  rewrite bytes_bits_sval by exact Hst. rewrite Hlen.
  set (total := 8 * N.of_nat (length (rst s))) in *.
  assert (Hb : blen s = ops_len 0 ops).
  { rewrite <- ops_bits_len. unfold ops_bits. rewrite <- Habs. reflexivity. }
  assert (Hpad : total - blen s = pad8 (blen s)).
  { apply pad_of_total; try assumption. unfold total. rewrite N.mul_comm. apply N.mod_mul. lia. }
  rewrite <- ideal_run_bits, <- Habs. unfold bstr_bits, abs. cbn [blen_i bval wordbits]. fold total.
  set (sv := sval 8 (storage s)) in *. set (pd := total - blen s) in *.
  assert (Hsv : sv = (sv / 2 ^ pd) * 2 ^ pd + 0).
  { pose proof (N.div_mod sv (2 ^ pd) (pow2_nz pd)) as Hd. rewrite H4 in Hd. lia. }
  rewrite Hsv at 1.
  replace (8 * length (rst s))%nat with (N.to_nat (blen s) + N.to_nat pd)%nat by (unfold pd, total; lia).
  rewrite bits_msb_concat by apply pow2_pos.
  rewrite bits_msb_zero, <- Hb, <- Hpad. reflexivity.
Qed.
