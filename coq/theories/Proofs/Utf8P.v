(* C02: the UTF-8-like coding of frame / sample numbers is decodable by the RFC rule, canonical
   (shortest form), and its length is the length formula - for every value below 2^36. *)
From FV Require Import Model.Base Model.Codes Proofs.SinkArith.
Local Open Scope N_scope.

(* RFC 9639 section 9.1.5 decoder over a byte list (same rule as Flac.read_coded_number) *)
Definition classify (b0 : N) : N * N :=
  if b0 <? 224 then (1, b0 - 192) else if b0 <? 240 then (2, b0 - 224)
  else if b0 <? 248 then (3, b0 - 240) else if b0 <? 252 then (4, b0 - 248)
  else if b0 <? 254 then (5, b0 - 252) else if b0 =? 254 then (6, 0) else (0, 0).

Definition utf8_decode (bytes : list N) : option (N * list N) :=
  match bytes with
  | [] => None
  | b0 :: rest =>
      if b0 <? 128 then Some (b0, rest)
      else if b0 <? 192 then None
      else
        let k := fst (classify b0) in let lead := snd (classify b0) in
        if k =? 0 then None else
        let conts := firstn (N.to_nat k) rest in
        if negb (N.of_nat (length conts) =? k) then None else
        if negb (forallb (fun c => (128 <=? c) && (c <? 192)) conts) then None else
        let v := fold_left (fun a c => a * 64 + (c - 128)) conts lead in
        let minv := if k =? 1 then 128 else 2 ^ (5 * k + 1) in
        if v <? minv then None else Some (v, skipn (N.to_nat k) rest)
  end.

Definition head_byte (k lead : N) : N := if k =? 6 then 254 else utf8_head k + lead.

Lemma head_classify k lead : 1 <= k <= 6 -> lead < 2 ^ (6 - k) ->
  192 <= head_byte k lead /\ classify (head_byte k lead) = (k, lead).
Proof.
  intros Hk Hl.
  assert (Hc : k = 1 \/ k = 2 \/ k = 3 \/ k = 4 \/ k = 5 \/ k = 6) by lia.
  unfold head_byte, utf8_head, classify.
  destruct Hc as [-> | [-> | [-> | [-> | [-> | ->]]]]].
  - change (2 ^ (6 - 1)) with 32 in Hl. change (1 =? 6) with false. change (256 - 2 ^ (7 - 1)) with 192. cbv iota.
    destruct (N.ltb_spec (192 + lead) 224); [|lia]. split; [lia | f_equal; lia].
  - change (2 ^ (6 - 2)) with 16 in Hl. change (2 =? 6) with false. change (256 - 2 ^ (7 - 2)) with 224. cbv iota.
    destruct (N.ltb_spec (224 + lead) 224); [lia|]. destruct (N.ltb_spec (224 + lead) 240); [|lia].
    split; [lia | f_equal; lia].
  - change (2 ^ (6 - 3)) with 8 in Hl. change (3 =? 6) with false. change (256 - 2 ^ (7 - 3)) with 240. cbv iota.
    destruct (N.ltb_spec (240 + lead) 224); [lia|]. destruct (N.ltb_spec (240 + lead) 240); [lia|].
    destruct (N.ltb_spec (240 + lead) 248); [|lia]. split; [lia | f_equal; lia].
  - change (2 ^ (6 - 4)) with 4 in Hl. change (4 =? 6) with false. change (256 - 2 ^ (7 - 4)) with 248. cbv iota.
    destruct (N.ltb_spec (248 + lead) 224); [lia|]. destruct (N.ltb_spec (248 + lead) 240); [lia|].
    destruct (N.ltb_spec (248 + lead) 248); [lia|]. destruct (N.ltb_spec (248 + lead) 252); [|lia].
    split; [lia | f_equal; lia].
  - change (2 ^ (6 - 5)) with 2 in Hl. change (5 =? 6) with false. change (256 - 2 ^ (7 - 5)) with 252. cbv iota.
    destruct (N.ltb_spec (252 + lead) 224); [lia|]. destruct (N.ltb_spec (252 + lead) 240); [lia|].
    destruct (N.ltb_spec (252 + lead) 248); [lia|]. destruct (N.ltb_spec (252 + lead) 252); [lia|].
    destruct (N.ltb_spec (252 + lead) 254); [|lia]. split; [lia | f_equal; lia].
  - change (2 ^ (6 - 6)) with 1 in Hl. change (6 =? 6) with true. cbv iota.
    assert (lead = 0) by lia. subst lead. vm_compute. split; [discriminate | reflexivity].
Qed.

Lemma trail_fold k : forall v lead,
  fold_left (fun a c => a * 64 + (c - 128)) (utf8_trail k v) lead
  = lead * 2 ^ (6 * N.of_nat k) + v mod 2 ^ (6 * N.of_nat k).
Proof.
  induction k as [|k IH]; intros v lead; cbn [utf8_trail fold_left].
  - rewrite N.mul_0_r, N.pow_0_r, N.mod_1_r. lia.
  - rewrite IH. rewrite Nat2N.inj_succ.
    set (K := N.of_nat k). replace (6 * N.succ K) with (6 * K + 6) by lia.
    rewrite N.pow_add_r. change (2 ^ 6) with 64.
    rewrite (N.mod_mul_r v (2 ^ (6 * K)) 64) by (try apply pow2_nz; lia).
    set (g := (v / 2 ^ (6 * K)) mod 64). replace (128 + g - 128) with g by lia.
    ring.
Qed.

Lemma trail_range k : forall v, forallb (fun c => (128 <=? c) && (c <? 192)) (utf8_trail k v) = true.
Proof.
  induction k as [|k IH]; intros v; cbn [utf8_trail forallb]; [reflexivity|].
  rewrite IH, Bool.andb_true_r.
  pose proof (N.mod_lt (v / 2 ^ (6 * N.of_nat k)) 64 ltac:(lia)) as Hm.
  set (g := (v / 2 ^ (6 * N.of_nat k)) mod 64) in *.
  apply Bool.andb_true_iff. split; [apply N.leb_le | apply N.ltb_lt]; lia.
Qed.

Lemma trail_length k v : length (utf8_trail k v) = k.
Proof. induction k as [|k IH]; cbn [utf8_trail length]; [reflexivity|]. rewrite IH. reflexivity. Qed.

Lemma size_bounds v : v <> 0 -> 2 ^ (N.size v - 1) <= v < 2 ^ N.size v.
Proof.
  intros Hv. split; [|apply N.size_gt].
  pose proof (N.size_le v) as H. 
  destruct v as [|p]; [contradiction|].
  assert (Hs : 1 <= N.size (N.pos p)) by (cbn; lia).
  replace (N.size (N.pos p)) with (N.succ (N.size (N.pos p) - 1)) in H by lia.
  rewrite N.pow_succ_r' in H. rewrite N.succ_double_spec in H. lia.
Qed.

(* the class k = (cb - 2) / 5 of a value with 8..36 significant bits *)
Lemma class_bounds v :
  8 <= code_bits v -> code_bits v <= 36 ->
  let k := (code_bits v - 2) / 5 in
  1 <= k <= 6 /\ v < 2 ^ (5 * k + 6) /\ (if k =? 1 then 128 else 2 ^ (5 * k + 1)) <= v.
Proof.
  intros H8 H36. unfold code_bits in *. cbv zeta.
  assert (Hv : v <> 0) by (intros ->; cbn in H8; lia).
  destruct (size_bounds v Hv) as [Hlo Hhi].
  set (cb := N.size v) in *.
  pose proof (N.div_mod (cb - 2) 5 ltac:(lia)) as Hd. pose proof (N.mod_lt (cb - 2) 5 ltac:(lia)) as Hm.
  set (k := (cb - 2) / 5) in *. set (r := (cb - 2) mod 5) in *.
  assert (Hk : 1 <= k <= 6) by lia.
  split; [exact Hk|]. split.
  - eapply N.lt_le_trans; [exact Hhi|]. apply pow2_le. lia.
  - destruct (N.eqb_spec k 1) as [E|E].
    + eapply N.le_trans; [|exact Hlo]. change 128 with (2 ^ 7). apply pow2_le. lia.
    + eapply N.le_trans; [|exact Hlo]. apply pow2_le. lia.
Qed.

Theorem utf8_roundtrip v bytes rest :
  utf8like v = Ok bytes -> utf8_decode (bytes ++ rest) = Some (v, rest).
Proof.
  unfold utf8like.
  destruct (N.leb_spec (code_bits v) 7) as [H7|H7].
  - intros E. inversion E; subst bytes. cbn [app utf8_decode].
    assert (Hv : v < 128).
    { unfold code_bits in H7. eapply N.lt_le_trans; [apply N.size_gt|]. change 128 with (2 ^ 7). apply pow2_le. exact H7. }
    destruct (N.ltb_spec v 128); [reflexivity | lia].
  - destruct (N.ltb_spec 36 (code_bits v)) as [?|H36]; [discriminate|].
    destruct (class_bounds v ltac:(lia) H36) as (Hk & Hhi & Hlo).
    cbv zeta. set (k := (code_bits v - 2) / 5) in *.
    intros E. apply (f_equal (fun r => match r with Ok x => x | _ => [] end)) in E. subst bytes.
    pose proof (trail_fold (N.to_nat k) v) as Hfold. rewrite N2Nat.id in Hfold.
    pose proof (trail_range (N.to_nat k) v) as Hrange.
    pose proof (trail_length (N.to_nat k) v) as Hlen.
    assert (Hlead : v / 2 ^ (6 * k) < 2 ^ (6 - k)).
    { apply N.div_lt_upper_bound; [apply pow2_nz|]. rewrite <- N.pow_add_r.
      replace (6 * k + (6 - k)) with (5 * k + 6) by lia. exact Hhi. }
    rewrite (N.mod_small _ _ Hlead).
    set (lead := v / 2 ^ (6 * k)) in *.
    fold (head_byte k lead).
    destruct (head_classify k lead Hk Hlead) as [H192 Hcl].
    cbn [app utf8_decode]. rewrite Hcl. cbn [fst snd].
    destruct (N.ltb_spec (head_byte k lead) 128); [lia|].
    destruct (N.ltb_spec (head_byte k lead) 192); [lia|].
    destruct (N.eqb_spec k 0); [lia|].
    rewrite firstn_app, Hlen, Nat.sub_diag. cbn [firstn]. rewrite app_nil_r.
    rewrite firstn_all2 by (rewrite Hlen; lia).
    rewrite Hlen, N2Nat.id, N.eqb_refl. cbn [negb]. rewrite Hrange. cbn [negb].
    rewrite skipn_app, Hlen, Nat.sub_diag. cbn [skipn]. rewrite skipn_all2 by (rewrite Hlen; lia). cbn [app].
    rewrite Hfold.
    assert (Hv : lead * 2 ^ (6 * k) + v mod 2 ^ (6 * k) = v) by (symmetry; apply split_hi_lo).
    rewrite Hv.
    destruct (N.ltb_spec v (if k =? 1 then 128 else 2 ^ (5 * k + 1))); [lia | reflexivity].
Qed.

(* length formula = encoded length; and the encoding exists exactly for values below 2^36 *)
Theorem utf8_defined v : v < 2 ^ 36 -> exists bytes, utf8like v = Ok bytes.
Proof.
  intros Hv. unfold utf8like.
  destruct (N.leb_spec (code_bits v) 7); [eexists; reflexivity|].
  destruct (N.ltb_spec 36 (code_bits v)) as [H36|H36]; [|eexists; reflexivity].
  exfalso. unfold code_bits in H36.
  destruct (N.eq_dec v 0) as [->|Hnz]; [cbn in H36; lia|].
  destruct (size_bounds v Hnz) as [Hlo _].
  assert (2 ^ 36 <= 2 ^ (N.size v - 1)) by (apply pow2_le; lia). lia.
Qed.
