(* C02: the finite header code spaces, swept completely inside Coq against the implementation's
   own tables (GenTables.v is regenerated from the compiled crate on every run). *)
From FV Require Import Generated GenTables Model.Base Model.Codes.
Local Open Scope N_scope.

Definition pack_code (c : code) : N := c_tag c * 2 ^ 24 + c_xbits c * 2 ^ 16 + c_xval c.

(* RFC 9639 section 9.1.1 / 9.1.2: the meaning of a block-size / sample-rate code *)
Definition rfc_block (c : code) : option N :=
  let t := c_tag c in
  if t =? 0 then None
  else if t =? 1 then Some 192
  else if t <=? 5 then Some (576 * 2 ^ (t - 2))
  else if t =? 6 then (if c_xbits c =? 8 then Some (c_xval c + 1) else None)
  else if t =? 7 then (if c_xbits c =? 16 then Some (c_xval c + 1) else None)
  else if t <=? 15 then Some (256 * 2 ^ (t - 8))
  else None.

Definition rfc_rate (c : code) : option N :=    (* None = reserved/invalid; Some 0 = "from STREAMINFO" *)
  let t := c_tag c in
  if t =? 0 then Some 0
  else if t =? 1 then Some 88200 else if t =? 2 then Some 176400 else if t =? 3 then Some 192000
  else if t =? 4 then Some 8000 else if t =? 5 then Some 16000 else if t =? 6 then Some 22050
  else if t =? 7 then Some 24000 else if t =? 8 then Some 32000 else if t =? 9 then Some 44100
  else if t =? 10 then Some 48000 else if t =? 11 then Some 96000
  else if t =? 12 then (if c_xbits c =? 8 then Some (c_xval c * 1000) else None)
  else if t =? 13 then (if c_xbits c =? 16 then Some (c_xval c) else None)
  else if t =? 14 then (if c_xbits c =? 16 then Some (c_xval c * 10) else None)
  else None.

Definition opt_eqb (a : option N) (b : N) : bool := match a with Some x => x =? b | None => false end.

Definition block_ok (n e : N) : bool :=
  match block_size_code n with
  | Ok c => (pack_code c =? e) && opt_eqb (rfc_block c) n && (c_xval c <? 2 ^ c_xbits c)
            && ((c_xbits c =? 0) || (c_xbits c =? 8) || (c_xbits c =? 16))
  | _ => false
  end.

Definition rate_ok (f e : N) : bool :=
  let c := sample_rate_code f in
  (pack_code c =? e) && (opt_eqb (rfc_rate c) f || (c_tag c =? 0)) && (c_xval c <? 2 ^ c_xbits c)
  && ((c_xbits c =? 0) || (c_xbits c =? 8) || (c_xbits c =? 16))
  && negb (c_tag c =? 15).

(* generic sweep over a table indexed from n0 *)
Fixpoint sweep (f : N -> N -> bool) (n : N) (tbl : list N) : bool :=
  match tbl with
  | [] => true
  | e :: r => f n e && sweep f (n + 1) r
  end.

Lemma sweep_spec f : forall tbl n0 k,
  sweep f n0 tbl = true -> (k < length tbl)%nat -> f (n0 + N.of_nat k) (nth k tbl 0) = true.
Proof.
  induction tbl as [|e r IH]; intros n0 k H Hk; cbn [length] in Hk; [lia|].
  cbn [sweep] in H. apply Bool.andb_true_iff in H. destruct H as [He Hr].
  destruct k as [|k]; cbn [nth].
  - rewrite N.add_0_r. exact He.
  - replace (n0 + N.of_nat (S k)) with (n0 + 1 + N.of_nat k) by lia. apply IH; [exact Hr | lia].
Qed.

Lemma block_sweep : sweep block_ok 1 t_block_size = true.
Proof. vm_compute. reflexivity. Qed.

Lemma block_table_len : N.of_nat (length t_block_size) = 32767.
Proof. vm_compute. reflexivity. Qed.

Lemma rate_sweep : sweep rate_ok 1 t_sample_rate = true.
Proof. vm_compute. reflexivity. Qed.

Lemma rate_table_len : N.of_nat (length t_sample_rate) = 96000.
Proof. vm_compute. reflexivity. Qed.

(* every block length 1..=32767: the model's code is the implementation's code, it is not
   reserved, and its RFC meaning is the block length *)
Theorem block_codes_ok n : 1 <= n <= 32767 ->
  block_ok n (nth (N.to_nat (n - 1)) t_block_size 0) = true.
Proof.
  intros Hn. pose proof block_table_len as Hl.
  pose proof (sweep_spec block_ok t_block_size 1 (N.to_nat (n - 1)) block_sweep ltac:(lia)) as H.
  replace (1 + N.of_nat (N.to_nat (n - 1))) with n in H by lia. exact H.
Qed.

Theorem rate_codes_ok f : 1 <= f <= 96000 ->
  rate_ok f (nth (N.to_nat (f - 1)) t_sample_rate 0) = true.
Proof.
  intros Hf. pose proof rate_table_len as Hl.
  pose proof (sweep_spec rate_ok t_sample_rate 1 (N.to_nat (f - 1)) rate_sweep ltac:(lia)) as H.
  replace (1 + N.of_nat (N.to_nat (f - 1))) with f in H by lia. exact H.
Qed.

(* sample-size codes of the five supported widths *)
Lemma sample_size_sweep :
  forallb (fun e => let bits := e / 256 in let tag := e mod 256 in
                    (sample_size_tag bits =? tag) && negb (tag =? 0) && negb (tag =? 3)
                    && (match tag with 1 => bits =? 8 | 2 => bits =? 12 | 4 => bits =? 16 | 5 => bits =? 20
                                  | 6 => bits =? 24 | _ => false end))
          t_sample_size = true /\ N.of_nat (length t_sample_size) = 5.
Proof. vm_compute. split; reflexivity. Qed.

(* the UTF-8-like length formula at every class boundary, against the implementation *)
Lemma utf8_size_sweep :
  forallb (fun e => utf8like_bytesize (e / 256) =? e mod 256) t_utf8_size = true.
Proof. vm_compute. reflexivity. Qed.
