(* C16: the three facts about the CRC register, by linear algebra over GF(2) instead of sweeps over all states.
   The register maps  Z r = step r 0,  R c = run c 0^W  and  F c = run 0 (bits of c)  are additive for xor;
   an additive map on W-bit numbers is determined by its values on the W powers of two; left inverses of Z and F are
   given as tables (computed outside, CHECKED here on the W basis vectors). *)
From FV Require Import Model.Base Model.Crc Proofs.SinkArith Proofs.CrcP Proofs.CrcGen.
Local Open Scope N_scope.

(* ---- additive maps on N ---- *)
Definition additive (f : N -> N) : Prop := forall a b, f (N.lxor a b) = N.lxor (f a) (f b).

Lemma additive_zero f : additive f -> f 0 = 0.
Proof. intros H. specialize (H 0 0). rewrite N.lxor_0_l in H. rewrite N.lxor_nilpotent in H. exact H. Qed.

Lemma split_bit x k : x < 2 ^ N.succ k -> x = N.lxor (x mod 2 ^ k) (if N.testbit x k then 2 ^ k else 0).
Proof.
  intros Hx. apply N.bits_inj. intros j. rewrite N.lxor_spec.
  destruct (N.lt_trichotomy j k) as [Hlt|[->|Hgt]].
  - rewrite N.mod_pow2_bits_low by exact Hlt. destruct (N.testbit x k).
    + rewrite N.pow2_bits_false by lia. rewrite Bool.xorb_false_r. reflexivity.
    + rewrite N.bits_0, Bool.xorb_false_r. reflexivity.
  - rewrite N.mod_pow2_bits_high by lia. destruct (N.testbit x k); [rewrite N.pow2_bits_true | rewrite N.bits_0]; reflexivity.
  - rewrite N.mod_pow2_bits_high by lia.
    assert (Hf : N.testbit x j = false).
    { destruct (N.eq_dec x 0) as [->|Hnz]; [apply N.bits_0|]. apply N.bits_above_log2.
      apply N.log2_lt_pow2 in Hx; [|lia]. lia. }
    rewrite Hf. destruct (N.testbit x k); [rewrite N.pow2_bits_false by lia | rewrite N.bits_0]; reflexivity.
Qed.

Lemma additive_ext f g : additive f -> additive g -> forall (W : nat),
  (forall i, (i < W)%nat -> f (2 ^ N.of_nat i) = g (2 ^ N.of_nat i)) ->
  forall x, x < 2 ^ N.of_nat W -> f x = g x.
Proof.
  intros Hf Hg. induction W as [|W IH]; intros Hb x Hx.
  - cbn in Hx. assert (x = 0) by lia. subst. rewrite (additive_zero f Hf), (additive_zero g Hg). reflexivity.
  - rewrite Nat2N.inj_succ in Hx. rewrite (split_bit x (N.of_nat W) Hx). rewrite Hf, Hg. f_equal.
    + apply IH; [intros i Hi; apply Hb; lia | apply N.mod_upper_bound; apply N.pow_nonzero; lia].
    + destruct (N.testbit x (N.of_nat W)); [apply Hb; lia | rewrite (additive_zero f Hf), (additive_zero g Hg); reflexivity].
Qed.

(* ---- additive maps given by a table of images of the powers of two ---- *)
Definition contrib (T : list N) (i : nat) (y : N) : N := if N.testbit y (N.of_nat i) then nth i T 0 else 0.
Fixpoint tabl (l : list nat) (T : list N) (y : N) : N :=
  match l with [] => 0 | i :: r => N.lxor (contrib T i y) (tabl r T y) end.
Definition tabf (W : nat) (T : list N) (y : N) : N := tabl (seq 0 W) T y.

Lemma lxor_swap4 a b c d : N.lxor (N.lxor a b) (N.lxor c d) = N.lxor (N.lxor a c) (N.lxor b d).
Proof. apply N.bits_inj. intros j. rewrite !N.lxor_spec.
  destruct (N.testbit a j), (N.testbit b j), (N.testbit c j), (N.testbit d j); reflexivity. Qed.

Lemma contrib_additive T i : additive (contrib T i).
Proof.
  intros a b. unfold contrib. rewrite N.lxor_spec.
  destruct (N.testbit a (N.of_nat i)), (N.testbit b (N.of_nat i)); cbn [xorb];
    rewrite ?N.lxor_nilpotent, ?N.lxor_0_l, ?N.lxor_0_r; reflexivity.
Qed.

Lemma tabl_additive T : forall l, additive (tabl l T).
Proof.
  induction l as [|i r IH]; intros a b; cbn [tabl]; [rewrite N.lxor_0_l; reflexivity|].
  rewrite (contrib_additive T i a b), (IH a b). apply lxor_swap4.
Qed.

Lemma compose_additive f g : additive f -> additive g -> additive (fun x => g (f x)).
Proof. intros Hf Hg a b. rewrite Hf, Hg. reflexivity. Qed.

(* a left inverse that is correct on the basis is a left inverse: hence the map has a trivial kernel *)
Lemma kernel_trivial f (W : nat) (T : list N) : additive f ->
  (forall i, (i < W)%nat -> tabf W T (f (2 ^ N.of_nat i)) = 2 ^ N.of_nat i) ->
  forall x, x < 2 ^ N.of_nat W -> f x = 0 -> x = 0.
Proof.
  intros Hf Hb x Hx H0.
  assert (E : tabf W T (f x) = x).
  { apply (additive_ext (fun y => tabf W T (f y)) (fun y => y)
             (compose_additive f (tabf W T) Hf (tabl_additive T (seq 0 W))) (fun a b => eq_refl) W Hb x Hx). }
  rewrite H0 in E. rewrite <- E. apply (additive_zero _ (tabl_additive T (seq 0 W))).
Qed.

(* ---- bit lists and numbers ---- *)
Fixpoint lval (p : list bool) : N :=
  match p with [] => 0 | b :: t => (if b then 2 ^ N.of_nat (length t) else 0) + lval t end.

Lemma lval_lt : forall p, lval p < 2 ^ N.of_nat (length p).
Proof.
  induction p as [|b t IH]; [cbn; lia|]. cbn [lval length]. rewrite Nat2N.inj_succ, N.pow_succ_r'.
  destruct b; lia.
Qed.

Lemma byte_bits_mod : forall k n v, (k <= n)%nat -> byte_bits k (v mod 2 ^ N.of_nat n) = byte_bits k v.
Proof.
  induction k as [|k IH]; intros n v Hk; [reflexivity|]. cbn [byte_bits].
  rewrite N.mod_pow2_bits_low by lia. rewrite IH by lia. reflexivity.
Qed.

Lemma byte_bits_lval : forall p, byte_bits (length p) (lval p) = p.
Proof.
  induction p as [|b t IH]; [reflexivity|]. cbn [length byte_bits lval].
  set (n := N.of_nat (length t)). pose proof (lval_lt t) as Hlt. fold n in Hlt.
  assert (Hbit : N.testbit ((if b then 2 ^ n else 0) + lval t) n = b).
  { destruct b.
    - replace (2 ^ n + lval t) with (lval t + 1 * 2 ^ n) by lia. rewrite N.testbit_eqb.
      rewrite N.div_add by (apply N.pow_nonzero; lia). rewrite N.div_small by exact Hlt. reflexivity.
    - rewrite N.add_0_l. rewrite N.testbit_eqb. rewrite N.div_small by exact Hlt. reflexivity. }
  rewrite Hbit. f_equal.
  rewrite <- (byte_bits_mod (length t) (length t) _ (le_n _)). fold n.
  assert (Hm : ((if b then 2 ^ n else 0) + lval t) mod 2 ^ n = lval t).
  { destruct b.
    - replace (2 ^ n + lval t) with (lval t + 1 * 2 ^ n) by lia. rewrite N.mod_add by (apply N.pow_nonzero; lia). apply N.mod_small. exact Hlt.
    - rewrite N.add_0_l. apply N.mod_small. exact Hlt. }
  rewrite Hm. exact IH.
Qed.

Lemma lval_zero : forall p, lval p = 0 -> existsb (fun b => b) p = false.
Proof.
  induction p as [|b t IH]; [reflexivity|]. cbn [lval existsb]. intros H.
  destruct b.
  - assert (0 < 2 ^ N.of_nat (length t)) by (apply N.neq_0_lt_0; apply N.pow_nonzero; lia). lia.
  - cbn [orb]. apply IH. lia.
Qed.

Lemma byte_bits_lxor : forall k a b, byte_bits k (N.lxor a b) = zipxor (byte_bits k a) (byte_bits k b).
Proof. induction k as [|k IH]; intros a b; cbn [byte_bits zipxor]; [reflexivity|]. rewrite N.lxor_spec, IH. reflexivity. Qed.

Lemma zipxor_zeros n : zipxor (repeat false n) (repeat false n) = repeat false n.
Proof. induction n as [|n IH]; cbn [repeat zipxor]; [reflexivity|]. rewrite IH. reflexivity. Qed.

Lemma byte_bits_length : forall k b, length (byte_bits k b) = k.
Proof. induction k as [|k IH]; intros b; cbn [byte_bits length]; [reflexivity | rewrite IH; reflexivity]. Qed.

(* ---- the three register maps are additive ---- *)
Section Maps.
  Variable w : N.
  Variable poly : N.
  Hypothesis Hw : 1 <= w.
  Hypothesis Hpoly : poly < 2 ^ w.
  Variable W : nat.
  Hypothesis HW : N.of_nat W = w.

  Definition mapZ (r : N) : N := step w poly r false.
  Definition mapR (c : N) : N := run w poly c (repeat false W).
  Definition mapF (c : N) : N := run w poly 0 (byte_bits W c).

  Lemma mapZ_additive : additive mapZ.
  Proof. intros a b. unfold mapZ. exact (step_linear w poly a b false false). Qed.

  Lemma mapR_additive : additive mapR.
  Proof. intros a b. unfold mapR. rewrite <- (zipxor_zeros W) at 1. apply (run_linear w poly Hw Hpoly). reflexivity. Qed.

  Lemma mapF_additive : additive mapF.
  Proof.
    intros a b. unfold mapF. rewrite byte_bits_lxor. rewrite <- (N.lxor_0_l 0) at 1.
    apply (run_linear w poly Hw Hpoly). rewrite !byte_bits_length. reflexivity.
  Qed.

  (* the tables and the finite checks *)
  Variable TZ TF : list N.
  Hypothesis checkZ : forallb (fun i => tabf W TZ (mapZ (2 ^ N.of_nat i)) =? 2 ^ N.of_nat i) (seq 0 W) = true.
  Hypothesis checkF : forallb (fun i => tabf W TF (mapF (2 ^ N.of_nat i)) =? 2 ^ N.of_nat i) (seq 0 W) = true.
  Hypothesis checkL : forallb (fun i => mapF (2 ^ N.of_nat i) =? mapR (2 ^ N.of_nat i)) (seq 0 W) = true.

  Lemma check_spec (P : nat -> bool) : forallb P (seq 0 W) = true -> forall i, (i < W)%nat -> P i = true.
  Proof. intros H i Hi. rewrite forallb_forall in H. apply H. apply in_seq. lia. Qed.

  Theorem fact_zero_step : forall reg, 0 < reg < 2 ^ w -> step w poly reg false <> 0.
  Proof.
    intros reg [H0 Hlt] Hz. rewrite <- HW in Hlt.
    assert (reg = 0); [|lia].
    apply (kernel_trivial mapZ W TZ mapZ_additive); [|exact Hlt | exact Hz].
    intros i Hi. apply N.eqb_eq. exact (check_spec _ checkZ i Hi).
  Qed.

  Theorem fact_burst : forall p, length p = W -> existsb (fun b => b) p = true -> run w poly 0 p <> 0.
  Proof.
    intros p Hl Hp Hz.
    assert (Hv : lval p = 0).
    { apply (kernel_trivial mapF W TF mapF_additive).
      - intros i Hi. apply N.eqb_eq. exact (check_spec _ checkF i Hi).
      - rewrite <- Hl. apply lval_lt.
      - unfold mapF. rewrite <- Hl, byte_bits_lval. exact Hz. }
    rewrite (lval_zero p Hv) in Hp. discriminate.
  Qed.

  Theorem fact_load : forall c, c < 2 ^ w -> run w poly 0 (byte_bits W c) = run w poly c (repeat false W).
  Proof.
    intros c Hc. rewrite <- HW in Hc.
    apply (additive_ext mapF mapR mapF_additive mapR_additive W); [|exact Hc].
    intros i Hi. apply N.eqb_eq. exact (check_spec _ checkL i Hi).
  Qed.
End Maps.
