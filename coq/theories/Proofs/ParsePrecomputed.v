(* C15 / C08 for frames that carry a PRECOMPUTED bit stream (Frame::precompute_bitstream, which the
   multi-threaded encoder calls on every frame in the worker): the stream writer forwards the stored
   bytes; the parser returns the same frames without the stored bytes. *)
From FV Require Import Generated Model.Base Model.Sink Model.Crc Model.Codes Model.Rice Model.Predict
  Model.Component Model.Flac Model.Parser Model.Ctor Model.Encoder Proofs.Lossless Proofs.EncoderSize Proofs.StreamInfoP
  Proofs.SinkArith Proofs.SinkRefine Proofs.OpsLen Proofs.CrcP Proofs.CountBits
  Proofs.BitRead Proofs.BitWrite Proofs.ParseResidual Proofs.DecodeFrame Proofs.EncodeFrameE2E
  Proofs.StreamBytes Proofs.StreamLists Proofs.DecodeStream Proofs.ParseFrame Proofs.ParseFrameCtor
  Proofs.ParseStream Proofs.CountStream Proofs.ParseEncoded.
Local Open Scope N_scope.

Definition strip_frame (f : frame) : frame := mkFrame (f_header f) (f_subframes f) None.
Definition strip_stream (s : stream) : stream := mkStream (s_info s) (s_meta s) (map strip_frame (s_frames s)).

(* the stored bytes, when present, are the frame's own serialisation *)
Definition pre_coherent (f : frame) : Prop :=
  match f_precomputed f with None => True | Some b => frame_bytes (strip_frame f) = Ok b end.

Lemma strip_frame_none f : f_precomputed f = None -> strip_frame f = f.
Proof. destruct f as [h s p]. cbn. intros ->. reflexivity. Qed.

Lemma strip_frame_idem f : strip_frame (strip_frame f) = strip_frame f.
Proof. reflexivity. Qed.

(* what precompute_bitstream() establishes *)
Theorem precompute_coherent f f' : pre_coherent f -> precompute f = Ok f' -> pre_coherent f' /\ strip_frame f' = strip_frame f.
Proof.
  intros Hc. unfold precompute. destruct (f_precomputed f) as [b|] eqn:Hpre.
  - intros E. apply Ok_inj in E. subst f'. split; [exact Hc | reflexivity].
  - destruct (frame_bytes f) as [b| |] eqn:Eb; cbn [bind]; try discriminate.
    intros E. apply Ok_inj in E. subst f'. split; [|reflexivity].
    unfold pre_coherent. cbn [f_precomputed]. unfold strip_frame. cbn [f_header f_subframes].
    fold (strip_frame f). rewrite (strip_frame_none f Hpre). exact Eb.
Qed.

Lemma obytes_wf b : Forall lt256 b -> forallb wf_op [OBytes b] = true /\ ops_len 0 [OBytes b] mod 8 = 0.
Proof.
  intros H. split.
  - cbn [forallb wf_op]. rewrite Bool.andb_true_r. apply forallb_forall. intros x Hx. apply N.ltb_lt.
    rewrite Forall_forall in H. apply H. exact Hx.
  - cbn [ops_len op_len]. change (pad8 0) with 0.
    match goal with |- ?x mod 8 = 0 => replace x with (N.of_nat (length b) * 8) by lia end. apply N.mod_mul. lia.
Qed.

(* a list of bytes sent as one aligned byte run to the byte sink is stored as it is *)
Lemma pack_obytes b : Forall lt256 b -> pack KU8 [OBytes b] = Ok b.
Proof.
  intros H. destruct (obytes_wf b H) as [Hwf Hal].
  destruct (pack_total KU8 _ Hwf) as [pb Epb]. rewrite Epb. f_equal.
  destruct (pack_u8_bits _ pb Hwf Epb) as [H256 Hbits].
  apply bytes_bits_inj; [exact H256 | exact H|].
  rewrite Hbits. rewrite (pad8_of_mult _ Hal). cbn [N.to_nat repeat]. rewrite app_nil_r.
  cbn [ops_bitlist op_bitlist]. change (pad8 0) with 0. cbn [N.to_nat repeat]. rewrite ?app_nil_r, ?app_nil_l. reflexivity.
Qed.

Definition wf_aligned (fo : list op) : Prop := forallb wf_op fo = true /\ ops_len 0 fo mod 8 = 0.

(* frame by frame: the operations of a frame with stored bytes and of its stripped version pack to the same bytes *)
Lemma frames_same_bytes channels bps : forall frames,
  Forall (fun f => pre_coherent f /\ frame_canon channels bps (strip_frame f)) frames ->
  exists fos fos' fbs,
    Forall2 (fun f fo => frame_ops f = Ok fo) frames fos /\
    Forall2 (fun f fo => frame_ops f = Ok fo) (map strip_frame frames) fos' /\
    Forall2 (fun fo fb => pack KU8 fo = Ok fb) fos fbs /\
    Forall2 (fun fo fb => pack KU8 fo = Ok fb) fos' fbs /\
    Forall wf_aligned fos /\ Forall wf_aligned fos'.
Proof.
  induction frames as [|f fr IH]; intros H.
  - exists [], [], []. repeat split; constructor.
  - inversion H as [|? ? [Hc Hcan] Hr]; subst. destruct (IH Hr) as (fos & fos' & fbs & A & B & C & D & E & F).
    destruct Hcan as (Hpre & Hhc & Hchn & Hlen & Hsubs).
    pose proof (canonical_frame_wfb (strip_frame f) bps Hpre Hhc Hsubs) as Hw.
    destruct (frame_ops_shape (strip_frame f) Hpre Hw) as (body & Eo & Hb). destruct (frame_ops_wf body Hb) as [W1 W2].
    destruct (pack_total KU8 _ W1) as [fb Epk].
    assert (Efb : frame_bytes (strip_frame f) = Ok fb) by (unfold frame_bytes; rewrite Eo; exact Epk).
    destruct (frame_bytes_nonempty _ fb Hpre Hw Efb) as [_ H256].
    destruct (f_precomputed f) as [b|] eqn:Hp.
    + (* stored bytes *)
      unfold pre_coherent in Hc. rewrite Hp in Hc. rewrite Efb in Hc. apply Ok_inj in Hc. subst b.
      exists ([OBytes fb] :: fos), ([OBytes body; OWrite 16 (crc16 body)] :: fos'), (fb :: fbs).
      cbn [map]. repeat split; constructor; try assumption.
      * unfold frame_ops. rewrite Hp. reflexivity.
      * exact (pack_obytes fb H256).
      * exact (obytes_wf fb H256).
      * split; assumption.
    + rewrite (strip_frame_none f Hp) in *.
      exists ([OBytes body; OWrite 16 (crc16 body)] :: fos), ([OBytes body; OWrite 16 (crc16 body)] :: fos'), (fb :: fbs).
      cbn [map]. rewrite (strip_frame_none f Hp). repeat split; constructor; try assumption; split; assumption.
Qed.

Lemma Forall2_fun {A B} (R : A -> B -> Prop) (Hfun : forall a b b', R a b -> R a b' -> b = b') :
  forall l m m', Forall2 R l m -> Forall2 R l m' -> m = m'.
Proof.
  induction l as [|a l IH]; intros m m' H H'; inversion H; inversion H'; subst; [reflexivity|].
  f_equal; [eapply Hfun; eassumption | eapply IH; eassumption].
Qed.

(* the stream writer emits the same bytes whether or not frames carry their precomputed bit stream *)
Theorem stream_bytes_strip s bytes :
  info_canon (s_info s) -> Forall meta_ok (s_meta s) ->
  Forall (fun f => pre_coherent f /\ frame_canon (si_channels (s_info s)) (si_bps (s_info s)) (strip_frame f)) (s_frames s) ->
  stream_bytes s = Ok bytes -> stream_bytes (strip_stream s) = Ok bytes.
Proof.
  intros Hic Hmetas Hframes E.
  destruct s as [i metas frames]. cbn [s_info s_meta s_frames] in *.
  destruct (frames_same_bytes _ _ frames Hframes) as (fos & fos' & fbs & A & B & C & D & Ea & Fa).
  unfold stream_bytes, stream_ops in *. cbn [strip_stream s_frames s_meta s_info] in *.
  rewrite (Forall2_mapM frame_ops frames fos A) in E. rewrite (Forall2_mapM frame_ops _ fos' B). cbn [bind] in *.
  set (last := match metas with [] => true | _ => false end) in *.
  rewrite app_assoc in E. fold (hdr_ops_f last i) in E. rewrite app_assoc in E.
  rewrite app_assoc. fold (hdr_ops_f last i). rewrite app_assoc.
  assert (Hiw : info_wf i).
  { destruct Hic. constructor; try assumption. change (2 ^ 36) with 68719476736 in *. change (2 ^ 64) with 18446744073709551616. lia. }
  pose proof (hdr_ops_f_wf last i Hiw) as Hhw.
  pose proof (hdr_ops_f_len last i (ic_md5_len _ Hic)) as Hhl.
  destruct (meta_ops_bits metas 336 eq_refl Hmetas) as (Hmb & Hml & Hmw).
  set (PRE := hdr_ops_f last i ++ meta_ops metas) in *.
  assert (Hpw : forallb wf_op PRE = true) by (unfold PRE; rewrite forallb_app, Hhw, Hmw; reflexivity).
  assert (Hpl : ops_len 0 PRE mod 8 = 0).
  { unfold PRE. rewrite ops_len_app, Hhl, N.add_0_l. rewrite N.add_mod by lia. rewrite Hml. reflexivity. }
  destruct (pack_total KU8 _ Hpw) as [pb Epb].
  destruct (pack_concat_aligned fos PRE pb Hpw Hpl Epb Ea) as (fbs1 & H1 & P1).
  destruct (pack_concat_aligned fos' PRE pb Hpw Hpl Epb Fa) as (fbs2 & H2 & P2).
  assert (Hf : forall (a : list op) (b b' : list N), pack KU8 a = Ok b -> pack KU8 a = Ok b' -> b = b').
  { intros a b b' X Y. rewrite X in Y. apply Ok_inj in Y. exact Y. }
  pose proof (Forall2_fun _ Hf _ _ _ H1 C) as ->. pose proof (Forall2_fun _ Hf _ _ _ H2 D) as ->.
  rewrite P2. rewrite P1 in E. exact E.
Qed.

(* C15 for streams whose frames were precomputed: the parser returns the stream without the stored bytes *)
Theorem precomputed_stream_parses_back s bytes :
  info_canon (s_info s) -> Forall meta_ok (s_meta s) -> si_bps (s_info s) <= c_MAX_BITS_PER_SAMPLE ->
  Forall (fun f => pre_coherent f /\ frame_canon (si_channels (s_info s)) (si_bps (s_info s)) (strip_frame f)) (s_frames s) ->
  stream_bytes s = Ok bytes -> parse_stream bytes = Some (strip_stream s).
Proof.
  intros Hic Hmetas Hb Hframes E.
  apply stream_parses_back; cbn [strip_stream s_info s_meta s_frames]; try assumption.
  - rewrite Forall_map. eapply Forall_impl; [|exact Hframes]. intros f [_ Hc]. exact Hc.
  - exact (stream_bytes_strip s bytes Hic Hmetas Hframes E).
Qed.

(* C08: the reported count of such a stream does not depend on the stored bytes *)
Theorem precomputed_frame_count_bits f channels bps :
  pre_coherent f -> frame_canon channels bps (strip_frame f) -> frame_count_bits f = frame_count_bits (strip_frame f).
Proof.
  intros Hc Hcan. destruct (f_precomputed f) as [b|] eqn:Hp.
  - unfold pre_coherent in Hc. rewrite Hp in Hc.
    rewrite <- (canonical_frame_count_bits (strip_frame f) b channels bps Hcan Hc).
    unfold frame_count_bits. rewrite Hp. reflexivity.
  - rewrite (strip_frame_none f Hp). reflexivity.
Qed.

Theorem precomputed_stream_count_bits s :
  Forall (fun f => pre_coherent f /\ frame_canon (si_channels (s_info s)) (si_bps (s_info s)) (strip_frame f)) (s_frames s) ->
  stream_count_bits s = stream_count_bits (strip_stream s).
Proof.
  intros H. unfold stream_count_bits. cbn [strip_stream s_meta s_frames]. f_equal. f_equal.
  induction H as [|f fr [Hc Hcan] _ IH]; [reflexivity|]. cbn [map]. f_equal; [|exact IH].
  exact (precomputed_frame_count_bits f _ _ Hc Hcan).
Qed.

(* ---- the multi-threaded encoder: every frame's bit stream is precomputed in the worker ---- *)
Definition precompute_stream (s : stream) : Res stream :=
  do fs <- mapM precompute (s_frames s); Ok (mkStream (s_info s) (s_meta s) fs).

Lemma precompute_frames_strip : forall frames fs,
  Forall (fun f => f_precomputed f = None) frames ->
  Forall2 (fun f f' => precompute f = Ok f') frames fs ->
  map strip_frame fs = frames /\ Forall pre_coherent fs.
Proof.
  induction frames as [|f fr IH]; intros fs Hn H; inversion H as [|? f' ? fs' E Hr]; subst; [split; constructor|].
  inversion Hn as [|? ? Hp Hnr]; subst. destruct (IH _ Hnr Hr) as [A B].
  assert (Hc : pre_coherent f) by (unfold pre_coherent; rewrite Hp; exact I).
  destruct (precompute_coherent f f' Hc E) as [C D].
  cbn [map]. rewrite D, (strip_frame_none f Hp), A. split; [reflexivity | constructor; assumption].
Qed.

Section ParEncoded.
  Variable ent : N -> N -> N -> N.
  Variable qlpc : N -> N -> qparams.
  Variable md5 : list N -> list N.

  (* the stream the multi-threaded encoder assembles (the single-threaded frames, each precomputed) is written as the
     same bytes as the single-threaded stream, reports the same bit count, and the parser returns the
     single-threaded tree for it *)
  Theorem par_encoded_stream cfg rate channels bps bs samples s sp bytes (total : nat) :
    encode_stream ent qlpc md5 cfg rate channels bps bs samples = Ok s ->
    precompute_stream s = Ok sp -> stream_bytes sp = Ok bytes ->
    cfg_max_parameter cfg <= 14 -> In bps [8; 12; 16; 20; 24] -> rate <= 96000 -> 1 <= channels <= 8 ->
    1 <= bs <= c_MAX_BLOCK_SIZE ->
    length samples = (total * N.to_nat channels)%nat -> N.of_nat total < 2 ^ 36 ->
    length (md5 (md5_input bps samples)) = 16%nat -> Forall lt256 (md5 (md5_input bps samples)) ->
    (forall j b, nth_error (chunks (N.to_nat (bs * channels)) samples) j = Some b ->
                 block_hyps qlpc cfg (N.of_nat j) channels bps b (length b / N.to_nat channels)) ->
    stream_bytes s = Ok bytes /\ parse_stream bytes = Some s /\ stream_count_bits sp = stream_count_bits s.
  Proof.
    intros E Ep Eb Hmp Hbps Hrate Hch Hbs Hlen Htot Hml Hm256 Hblocks.
    destruct (encoded_stream_canon ent qlpc md5 cfg rate channels bps bs samples s total E Hmp Hbps Hrate Hch Hbs Hlen Htot Hml Hm256 Hblocks)
      as (A & B & C & D).
    unfold precompute_stream in Ep.
    destruct (mapM precompute (s_frames s)) as [fs| |] eqn:Em; cbn [bind] in Ep; try discriminate.
    apply Ok_inj in Ep. subst sp.
    pose proof (mapM_F2 precompute _ _ Em) as F2.
    assert (Hnone : Forall (fun f => f_precomputed f = None) (s_frames s)).
    { eapply Forall_impl; [|exact D]. intros f (Hp & _). exact Hp. }
    destruct (precompute_frames_strip _ _ Hnone F2) as [Hstrip Hcoh].
    set (sp := mkStream (s_info s) (s_meta s) fs) in *.
    assert (Hs : strip_stream sp = s).
    { unfold strip_stream, sp. cbn [s_info s_meta s_frames]. rewrite Hstrip. destruct s; reflexivity. }
    assert (Hfr : Forall (fun f => pre_coherent f /\ frame_canon (si_channels (s_info sp)) (si_bps (s_info sp)) (strip_frame f)) (s_frames sp)).
    { unfold sp. cbn [s_info s_frames]. apply Forall_forall. intros f' Hin. split.
      - rewrite Forall_forall in Hcoh. exact (Hcoh f' Hin).
      - rewrite Forall_forall in D. apply D. rewrite <- Hstrip. apply in_map. exact Hin. }
    pose proof (stream_bytes_strip sp bytes A B Hfr Eb) as Esb. rewrite Hs in Esb.
    split; [exact Esb|]. split.
    - exact (stream_parses_back s bytes A B C D Esb).
    - rewrite (precomputed_stream_count_bits sp Hfr), Hs. reflexivity.
  Qed.
End ParEncoded.

(* non-vacuity: a two-frame stream (LPC on) whose frames are precomputed; evaluated inside Coq *)
Example par_stream_example :
  let cfg := mkCfg 64 false None true true true true true true 4 None 10 15 false 0 None 14 in
  let qlpc := fun _ _ : N => mkQ [1%Z] 0%Z 2 in
  let ent := fun _ _ _ : N => 0 in
  let md5 := fun _ : list N => repeat 7 16%nat in
  let samples := map (fun k => Z.of_nat k * 3 - 90)%Z (seq 0 70) in
  match encode_stream ent qlpc md5 cfg 44100 1 16 64 samples with
  | Ok s =>
      match precompute_stream s with
      | Ok sp =>
          match stream_bytes sp with
          | Ok bytes => parse_stream bytes = Some s /\ stream_bytes s = Ok bytes
                        /\ forallb (fun f => match f_precomputed f with Some _ => true | None => false end) (s_frames sp) = true
                        /\ length (s_frames sp) = 2%nat
          | _ => False
          end
      | _ => False
      end
  | _ => False
  end.
Proof. vm_compute. repeat split. Qed.

(* C04 / C05: STREAMINFO accumulated from precomputed frames (the multi-threaded path measures the stored bytes) equals the
   one accumulated from the same frames without stored bytes (the single-threaded path uses count_bits) *)
Lemma update_info_strip f i channels bps :
  pre_coherent f -> frame_canon channels bps (strip_frame f) -> update_info i f = update_info i (strip_frame f).
Proof.
  intros Hc Hcan. unfold update_info. rewrite (precomputed_frame_count_bits f channels bps Hc Hcan). reflexivity.
Qed.

Theorem precomputed_streaminfo_same channels bps : forall fs i,
  Forall (fun f => pre_coherent f /\ frame_canon channels bps (strip_frame f)) fs ->
  fold_left update_info fs i = fold_left update_info (map strip_frame fs) i.
Proof.
  induction fs as [|f fr IH]; intros i H; [reflexivity|].
  inversion H as [|? ? [Hc Hcan] Hr]; subst. cbn [fold_left map].
  rewrite (update_info_strip f i channels bps Hc Hcan). apply IH. exact Hr.
Qed.

(* C01 / C02 for the multi-threaded encoder's stream: the bytes written for the stream of precomputed frames decode, with the
   independent strict decoder, to the given STREAMINFO and exactly the input samples, and pass the strict validator *)
Section ParEndToEnd.
  Variable ent : N -> N -> N -> N.
  Variable qlpc : N -> N -> qparams.
  Variable md5 : list N -> list N.

  Theorem par_stream_end_to_end cfg rate channels bps bs samples s sp bytes (total : nat) :
    encode_stream ent qlpc md5 cfg rate channels bps bs samples = Ok s ->
    precompute_stream s = Ok sp -> stream_bytes sp = Ok bytes ->
    cfg_max_parameter cfg <= 14 -> In bps [8; 12; 16; 20; 24] -> 1 <= rate <= 96000 -> 1 <= channels <= 8 ->
    16 <= bs <= c_MAX_BLOCK_SIZE ->
    length samples = (total * N.to_nat channels)%nat -> N.of_nat total < 2 ^ 36 ->
    length (md5 (md5_input bps samples)) = 16%nat -> Forall lt256 (md5 (md5_input bps samples)) ->
    (forall j b, nth_error (chunks (N.to_nat (bs * channels)) samples) j = Some b ->
                 block_hyps qlpc cfg (N.of_nat j) channels bps b (length b / N.to_nat channels)) ->
    (exists minf maxf,
       decode_stream bytes = Some (mkSinfo bs bs minf maxf rate channels bps (N.of_nat total) (md5 (md5_input bps samples)), samples))
    /\ strict_ok bytes = true.
  Proof.
    intros E Ep Eb Hmp Hbps Hrate Hch Hbs Hlen Htot Hml Hm256 Hblocks.
    assert (Hbs1 : 1 <= bs <= c_MAX_BLOCK_SIZE) by lia.
    assert (Hr96 : rate <= 96000) by lia.
    destruct (par_encoded_stream ent qlpc md5 cfg rate channels bps bs samples s sp bytes total E Ep Eb Hmp Hbps Hr96 Hch Hbs1 Hlen Htot Hml Hm256 Hblocks)
      as (Esb & _ & _).
    assert (Eall : encode_stream_bytes ent qlpc md5 cfg rate channels bps bs samples = Ok bytes).
    { unfold encode_stream_bytes. rewrite E. cbn [bind]. exact Esb. }
    assert (Hr20 : 1 <= rate < 2 ^ 20) by (change (2 ^ 20) with 1048576; lia).
    split.
    - exact (stream_end_to_end ent qlpc md5 cfg rate channels bps bs samples bytes total Eall Hmp Hbps Hr20 Hch Hbs Hlen Htot Hml Hm256 Hblocks).
    - exact (stream_strict_ok ent qlpc md5 cfg rate channels bps bs samples bytes total Eall Hmp Hbps Hr20 Hch Hbs Hlen Htot Hml Hm256 Hblocks).
  Qed.
End ParEndToEnd.
