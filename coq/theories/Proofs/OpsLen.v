(* Length bookkeeping for operation sequences on the ideal bit string, and the byte length of
   `pack` (through the sink refinement theorem). *)
From FV Require Import Model.Base Model.Sink Model.Component
  Proofs.SinkArith Proofs.SinkU64 Proofs.SinkU8 Proofs.SinkRefine.
Local Open Scope N_scope.

Definition pad8 (cur : N) : N := (8 - cur mod 8) mod 8.

(* number of bits an operation adds when the current length is cur *)
Definition op_len (cur : N) (o : op) : N :=
  match o with
  | OWrite w _ => w
  | OMsbs _ _ n => n
  | OLsbs _ _ n => n
  | OTwoc _ n => n
  | OZeros n => n
  | OAlign => pad8 cur
  | OBytes bs => pad8 cur + 8 * N.of_nat (length bs)
  end.

Fixpoint ops_len (cur : N) (ops : list op) : N :=
  match ops with
  | [] => 0
  | o :: r => op_len cur o + ops_len (cur + op_len cur o) r
  end.

Lemma blen_bpush b n v : blen_i (bpush b n v) = blen_i b + n.
Proof. reflexivity. Qed.

Lemma blen_fold_bytes bs : forall b,
  blen_i (fold_left (fun a x => bpush a 8 x) bs b) = blen_i b + 8 * N.of_nat (length bs).
Proof.
  induction bs as [|x t IH]; intros b; cbn [fold_left length].
  - lia.
  - rewrite IH, blen_bpush, Nat2N.inj_succ. lia.
Qed.

Lemma blen_ideal_step b o : blen_i (ideal_step b o) = blen_i b + op_len (blen_i b) o.
Proof.
  destruct o; cbn [ideal_step op_len]; rewrite ?blen_fold_bytes, ?blen_bpush; unfold pad8; lia.
Qed.

Lemma blen_fold_ideal ops : forall b,
  blen_i (fold_left ideal_step ops b) = blen_i b + ops_len (blen_i b) ops.
Proof.
  induction ops as [|o r IH]; intros b; cbn [fold_left ops_len].
  - lia.
  - rewrite IH, blen_ideal_step. lia.
Qed.

Lemma ops_bits_len ops : ops_bits ops = ops_len 0 ops.
Proof. unfold ops_bits, ideal_run. rewrite blen_fold_ideal. reflexivity. Qed.

Lemma ops_len_app a : forall cur b, ops_len cur (a ++ b) = ops_len cur a + ops_len (cur + ops_len cur a) b.
Proof.
  induction a as [|o r IH]; intros cur b; cbn [app ops_len].
  - rewrite N.add_0_r. reflexivity.
  - rewrite IH. rewrite <- !N.add_assoc. reflexivity.
Qed.

(* operations whose length does not depend on the position *)
Definition plain (o : op) : bool :=
  match o with OAlign | OBytes _ => false | _ => true end.

Lemma ops_len_plain ops : forall cur cur',
  forallb plain ops = true -> ops_len cur ops = ops_len cur' ops.
Proof.
  induction ops as [|o r IH]; intros cur cur' H; cbn [ops_len]; [reflexivity|].
  cbn [forallb] in H. apply Bool.andb_true_iff in H. destruct H as [Ho Hr].
  assert (E : op_len cur o = op_len cur' o) by (destruct o; try discriminate; reflexivity).
  rewrite E. f_equal. apply IH. assumption.
Qed.

Lemma Ok_inj {A} (a b : A) : Ok a = Ok b -> a = b.
Proof. intros H. inversion H. reflexivity. Qed.

(* ---- byte length of pack ---- *)

Lemma pad8_spec cur : (cur + pad8 cur) mod 8 = 0 /\ pad8 cur < 8.
Proof.
  unfold pad8.
  pose proof (N.div_mod cur 8 ltac:(lia)) as Hd. pose proof (N.mod_lt cur 8 ltac:(lia)) as Hm.
  set (q := cur / 8) in *. set (r := cur mod 8) in *.
  destruct (N.eq_dec r 0) as [Hr|Hr].
  - rewrite Hr. change ((8 - 0) mod 8) with 0. split; [|lia].
    rewrite Hd, Hr, !N.add_0_r, N.mul_comm. apply N.mod_mul. lia.
  - rewrite (N.mod_small (8 - r)) by lia. split; [|lia].
    replace (cur + (8 - r)) with ((q + 1) * 8) by lia. apply N.mod_mul. lia.
Qed.

Lemma pack_u8_length ops bytes :
  forallb wf_op ops = true -> pack KU8 ops = Ok bytes ->
  N.of_nat (length bytes) = (ops_bits ops + 7) / 8.
Proof.
  intros Hwf. unfold pack.
  destruct (sink_refines_ideal KU8 ops Hwf) as (s & E & Hinv & Habs).
  rewrite E. cbn [bind]. intros Eb. inversion Eb; subst bytes. clear Eb.
  unfold export_bytes, storage. rewrite <- rev_alt, rev_length.
  unfold ops_bits. rewrite <- Habs. unfold abs. cbn [blen_i].
  destruct Hinv as (H1 & H2 & _). cbn [wordbits] in *.
  set (L := N.of_nat (length (rst s))) in *.
  apply N.div_unique with (r := blen s + 7 - 8 * L); lia.
Qed.

Lemma pack_u64_length ops bytes :
  forallb wf_op ops = true -> pack KU64 ops = Ok bytes ->
  N.of_nat (length bytes) = (ops_bits ops + 7) / 8.
Proof.
  intros Hwf. unfold pack.
  destruct (sink_refines_ideal KU64 ops Hwf) as (s & E & Hinv & Habs).
  rewrite E. cbn [bind]. intros Eb. apply Ok_inj in Eb. subst bytes.
  unfold export_bytes. unfold ops_bits. rewrite <- Habs. unfold abs. cbn [blen_i].
  destruct Hinv as (H1 & H2 & _). cbn [wordbits] in *.
  assert (Hfl : forall l : list N, length (flat_map (be_bytes 8 64) l) = (8 * length l)%nat).
  { induction l as [|x t IH]; [reflexivity|]. cbn [flat_map]. rewrite app_length, IH.
    cbn [be_bytes length]. lia. }
  rewrite firstn_length, Hfl. unfold storage. rewrite <- rev_alt, rev_length.
  set (L := length (rst s)) in *.
  assert (Hle : (blen s + 7) / 8 <= 8 * N.of_nat L).
  { transitivity ((8 * (8 * N.of_nat L) + 7) / 8).
    - apply N.div_le_mono; lia.
    - rewrite <- (N.div_unique (8 * (8 * N.of_nat L) + 7) 8 (8 * N.of_nat L) 7); lia. }
  rewrite Nat2N.inj_min, N2Nat.id, Nat2N.inj_mul. change (N.of_nat 8) with 8. lia.
Qed.
