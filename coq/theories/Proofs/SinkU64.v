(* Refinement of MemSink<u64> to the ideal bit string. *)
From FV Require Import Model.Base Model.Sink Proofs.SinkArith.
Local Open Scope N_scope.

(* Representation relation between a concrete sink and an ideal bit string:
   the storage holds exactly the ideal value shifted left by the p unwritten tail bits. *)
Definition R (k : kind) (s : sink) (b : bstr) : Prop :=
  let W := wordbits k in
  exists p,
    W * N.of_nat (length (rst s)) = blen s + p /\ p < W /\
    Forall (fun x => x < 2 ^ W) (rst s) /\
    rval W (rst s) = bval b * 2 ^ p /\ blen s = blen_i b.

Lemma R_empty k : R k sempty bempty.
Proof.
  exists 0. cbn. destruct k; cbn; repeat split; try lia; constructor.
Qed.

Lemma R_intro k s b p :
  wordbits k * N.of_nat (length (rst s)) = blen s + p -> p < wordbits k ->
  Forall (fun x => x < 2 ^ wordbits k) (rst s) ->
  rval (wordbits k) (rst s) = bval b * 2 ^ p -> blen s = blen_i b -> R k s b.
Proof. intros. exists p. repeat split; assumption. Qed.

Lemma pad_of_R W L bl p : 0 < W -> W * L = bl + p -> p < W -> (W - bl mod W) mod W = p.
Proof.
  intros HW HL Hp.
  destruct (N.eq_dec p 0) as [->|Hnz].
  - assert (E : bl mod W = 0).
    { replace bl with (L * W) by lia. apply N.mod_mul. lia. }
    rewrite E, N.sub_0_r. apply N.mod_same. lia.
  - assert (HL1 : 1 <= L) by (destruct L; lia).
    assert (E : bl mod W = W - p).
    { replace bl with ((W - p) + (L - 1) * W) by nia.
      rewrite N.mod_add by lia. apply N.mod_small. lia. }
    rewrite E. replace (W - (W - p)) with p by lia. apply N.mod_small. assumption.
Qed.

Lemma R_pad k s b : R k s b ->
  exists p, pad (wordbits k) s = p /\
    wordbits k * N.of_nat (length (rst s)) = blen s + p /\ p < wordbits k /\
    Forall (fun x => x < 2 ^ wordbits k) (rst s) /\
    rval (wordbits k) (rst s) = bval b * 2 ^ p /\ blen s = blen_i b.
Proof.
  intros (p & H1 & H2 & H3 & H4 & H5). exists p. repeat split; try assumption.
  unfold pad. eapply pad_of_R; try eassumption. destruct k; cbn; lia.
Qed.

Lemma R_inv_abs k s b : R k s b -> inv k s /\ abs k s = mkB (blen_i b) (bval b).
Proof.
  intros (p & H1 & H2 & H3 & H4 & H5).
  unfold inv, abs, storage. cbn zeta. rewrite <- !rev_alt, sval_rval, H1.
  replace (blen s + p - blen s) with p by lia. rewrite H4.
  repeat split; try lia; try assumption.
  - apply mul_mod_pow2.
  - rewrite mul_div_pow2, H5. reflexivity.
Qed.

(* the low p bits of the last word are zero, and it is below 2^W *)
Lemma last_word_facts W x t a p :
  rval W (x :: t) = a * 2 ^ p -> p <= W -> x < 2 ^ W ->
  x mod 2 ^ p = 0.
Proof.
  cbn [rval]. intros E Hp Hx.
  assert (E2 : x = a * 2 ^ p - rval W t * 2 ^ (W - p) * 2 ^ p).
  { rewrite <- N.mul_assoc, <- pow2_split by assumption. lia. }
  assert (Hle : rval W t * 2 ^ (W - p) * 2 ^ p <= a * 2 ^ p).
  { rewrite <- N.mul_assoc, <- pow2_split by assumption. lia. }
  rewrite E2, <- N.mul_sub_distr_r. apply mul_mod_pow2.
Qed.

Section U64.

Lemma u64_impl_R s b w d n :
  R KU64 s b -> 1 <= n -> n <= w -> w <= 64 -> d < 2 ^ n ->
  R KU64 (u64_write_msbs_impl w (d * 2 ^ (w - n)) n s) (mkB (blen_i b + n) (bval b * 2 ^ n + d)).
Proof.
  intros HR Hn1 Hnw Hw Hd.
  destruct (R_pad _ _ _ HR) as (p & Hpad & HL & Hp & Hall & Hval & Hlen).
  cbn [wordbits] in *.
  unfold u64_write_msbs_impl. p2. rewrite Hpad. clear Hpad.
  assert (Hv64 : d * 2 ^ (w - n) * 2 ^ (64 - w) = d * 2 ^ (64 - n)).
  { rewrite <- N.mul_assoc, <- N.pow_add_r. do 2 f_equal. lia. }
  rewrite Hv64.
  replace (p mod 64) with p by (symmetry; apply N.mod_small; assumption).
  destruct (N.ltb_spec p n) as [Hpn|Hpn].
  - (* a new word is pushed; k = n - p bits go there *)
    set (k := n - p).
    assert (Hk : k <= 64) by lia.
    assert (Hshift : (d * 2 ^ (64 - n) * 2 ^ p) mod 2 ^ 64 = (d mod 2 ^ k) * 2 ^ (64 - k)).
    { rewrite <- N.mul_assoc, <- N.pow_add_r. replace (64 - n + p) with (64 - k) by lia.
      apply shl_mod_top. assumption. }
    rewrite Hshift.
    destruct (N.eqb_spec p 0) as [Hp0|Hp0].
    + (* aligned: last word untouched *)
      subst p. apply (R_intro KU64 _ _ (64 - n)); cbn [wordbits rst blen length blen_i bval].
      all: assert (Hkn : k = n) by lia; rewrite Hkn in *.
      all: rewrite ?(N.mod_small d (2 ^ n)) by assumption.
      all: rewrite ?Nat2N.inj_succ, ?N.mul_succ_r; try lia.
      * constructor; [|assumption].
        replace 64 with (n + (64 - n)) at 2 by lia. apply mul_lt_pow2; [assumption|lia].
      * cbn [rval]. rewrite Hval. rewrite N.pow_0_r, N.mul_1_r.
        rewrite N.mul_add_distr_r. f_equal.
        rewrite <- N.mul_assoc, <- N.pow_add_r. do 2 f_equal. lia.
    + (* unaligned: top p bits of the field are or-ed into the last word *)
      destruct (rst s) as [|x t] eqn:Est.
      { cbn [length] in HL. lia. }
      replace ((64 - p) mod 64) with (64 - p) by (symmetry; apply N.mod_small; lia).
      assert (Hls : d * 2 ^ (64 - n) / 2 ^ (64 - p) = d / 2 ^ k).
      { rewrite mul_pow2_div_ge by lia. do 2 f_equal. lia. }
      rewrite Hls.
      inversion Hall as [|x' t' Hx Ht]; subst x' t'.
      assert (Hxm : x mod 2 ^ p = 0).
      { eapply last_word_facts; [exact Hval | lia | exact Hx]. }
      assert (Hhi : d / 2 ^ k < 2 ^ p).
      { replace p with (n - k) by lia. apply hi_bound; [lia | assumption]. }
      rewrite (lor_add x (d / 2 ^ k) p Hxm Hhi).
      apply (R_intro KU64 _ _ (64 - k)); cbn [wordbits rst blen length blen_i bval] in *.
      all: rewrite ?Nat2N.inj_succ, ?N.mul_succ_r in *; try lia.
      * constructor.
        { replace 64 with (k + (64 - k)) at 2 by lia.
          apply mul_lt_pow2; [apply mod_pow2_lt | lia]. }
        constructor; [|assumption].
        (* x + hi < 2^64 since x is a multiple of 2^p below 2^64 *)
        pose proof (split_hi_lo x p) as Hx2. rewrite Hxm, N.add_0_r in Hx2.
        assert (Hq : x / 2 ^ p < 2 ^ (64 - p)) by (apply hi_bound; [lia | assumption]).
        rewrite (pow2_split 64 p) by lia.
        pose proof (pow2_pos p). nia.
      * cbn [rval] in *.
        (* (rval t * 2^64 + x + dh) * 2^64 + dl * 2^(64-k) = (bval*2^n + d) * 2^(64-k) *)
        rewrite (split_hi_lo d k) at 3.
        assert (E64 : 2 ^ 64 = 2 ^ k * 2 ^ (64 - k)).
        { rewrite <- N.pow_add_r. f_equal. lia. }
        assert (En : 2 ^ n = 2 ^ p * 2 ^ k).
        { rewrite <- N.pow_add_r. f_equal. lia. }
        rewrite En. rewrite E64 at 2.
        set (A := 2 ^ (64 - k)) in *. set (B := 2 ^ k) in *. set (P := 2 ^ p) in *.
        clearbody A B P. nia.
  - (* field fits in the tail of the last word *)
    assert (Hp0 : p <> 0) by lia.
    destruct (N.eqb_spec p 0) as [?|_]; [contradiction|].
    destruct (rst s) as [|x t] eqn:Est.
    { cbn [length] in HL. lia. }
    replace ((64 - p) mod 64) with (64 - p) by (symmetry; apply N.mod_small; lia).
    assert (Hls : d * 2 ^ (64 - n) / 2 ^ (64 - p) = d * 2 ^ (p - n)).
    { rewrite mul_pow2_div_le by lia. do 2 f_equal. lia. }
    rewrite Hls.
    inversion Hall as [|x' t' Hx Ht]; subst x' t'.
    assert (Hxm : x mod 2 ^ p = 0).
    { eapply last_word_facts; [exact Hval | lia | exact Hx]. }
    assert (Hhi : d * 2 ^ (p - n) < 2 ^ p).
    { replace p with (n + (p - n)) at 2 by lia. apply mul_lt_pow2; [assumption | lia]. }
    rewrite (lor_add x _ p Hxm Hhi).
    apply (R_intro KU64 _ _ (p - n)); cbn [wordbits rst blen length blen_i bval] in *.
    all: try lia.
    + constructor; [|assumption].
      pose proof (split_hi_lo x p) as Hx2. rewrite Hxm, N.add_0_r in Hx2.
      assert (Hq : x / 2 ^ p < 2 ^ (64 - p)) by (apply hi_bound; [lia | assumption]).
      rewrite (pow2_split 64 p) by lia.
      pose proof (pow2_pos p). nia.
    + cbn [rval] in *.
      assert (Ep : 2 ^ p = 2 ^ n * 2 ^ (p - n)).
      { rewrite <- N.pow_add_r. f_equal. lia. }
      rewrite Ep in Hval.
      set (A := 2 ^ (p - n)) in *. set (B := 2 ^ n) in *. clearbody A B. nia.
Qed.


Lemma bpush_0 b x : bpush b 0 x = b.
Proof.
  destruct b as [l v]. unfold bpush, bapp, bfield. cbn [blen_i bval].
  rewrite N.pow_0_r, N.mod_1_r, N.add_0_r, N.add_0_r, N.mul_1_r. reflexivity.
Qed.

Lemma bpush_small b n d : d < 2 ^ n -> bpush b n d = mkB (blen_i b + n) (bval b * 2 ^ n + d).
Proof.
  intros H. unfold bpush, bapp, bfield. cbn [blen_i bval]. rewrite N.mod_small by assumption.
  reflexivity.
Qed.

Lemma bpush_mod b n v : bpush b n v = mkB (blen_i b + n) (bval b * 2 ^ n + v mod 2 ^ n).
Proof. reflexivity. Qed.

Lemma mask_msbs_eq w v n : n <= w -> v < 2 ^ w ->
  mask_msbs w v n = (v / 2 ^ (w - n)) * 2 ^ (w - n) /\ v / 2 ^ (w - n) < 2 ^ n.
Proof.
  intros Hn Hv. unfold mask_msbs. p2. rewrite N.mod_small by assumption. split; [reflexivity|].
  replace n with (w - (w - n)) at 2 by lia. apply hi_bound; [lia | assumption].
Qed.

Lemma u64_write_msbs_R s b w v n :
  R KU64 s b -> n <= w -> w <= 64 -> v < 2 ^ w ->
  exists s', u64_write_msbs w v n s = Ok s' /\ R KU64 s' (bpush b n ((v mod 2 ^ w) / 2 ^ (w - n))).
Proof.
  intros HR Hn Hw Hv. unfold u64_write_msbs.
  destruct (N.eqb_spec n 0) as [->|Hn0].
  - exists s. split; [reflexivity|]. rewrite bpush_0. assumption.
  - destruct (N.ltb_spec w n) as [?|_]; [lia|].
    destruct (mask_msbs_eq w v n Hn Hv) as [Em Hd]. rewrite Em.
    eexists. split; [reflexivity|].
    rewrite (N.mod_small v) by assumption. rewrite bpush_small by assumption.
    apply u64_impl_R; try assumption; lia.
Qed.

Lemma u64_write_lsbs_R s b w v n :
  R KU64 s b -> n <= w -> w <= 64 -> v < 2 ^ w ->
  exists s', u64_write_lsbs w v n s = Ok s' /\ R KU64 s' (bpush b n v).
Proof.
  intros HR Hn Hw Hv. unfold u64_write_lsbs. p2.
  destruct (N.eqb_spec n 0) as [->|Hn0].
  - exists s. split; [reflexivity|]. rewrite bpush_0. assumption.
  - destruct (N.ltb_spec w n) as [?|_]; [lia|].
    rewrite (N.mod_small v) by assumption.
    rewrite shl_mod_top by assumption.
    eexists. split; [reflexivity|]. rewrite bpush_mod.
    apply u64_impl_R; try assumption; try lia. apply mod_pow2_lt.
Qed.

Lemma u64_write_R s b w v :
  R KU64 s b -> w <= 64 -> v < 2 ^ w ->
  exists s', u64_write w v s = Ok s' /\ R KU64 s' (bpush b w v).
Proof.
  intros HR Hw Hv. unfold u64_write.
  destruct (u64_write_msbs_R s b w v w HR (N.le_refl _) Hw Hv) as (s' & E & HR').
  exists s'. split; [assumption|].
  rewrite N.sub_diag, N.pow_0_r, N.div_1_r, N.mod_small in HR' by assumption.
  assumption.
Qed.

Lemma twoc_shifted_eq v n : 1 <= n -> n <= 64 ->
  twoc_shifted v n = Z.to_N (v mod 2 ^ Z.of_N n) * 2 ^ (64 - n) /\
  Z.to_N (v mod 2 ^ Z.of_N n) < 2 ^ n.
Proof.
  intros H1 H64. unfold twoc_shifted. p2.
  assert (Hm : (0 <= v mod 2 ^ Z.of_N n < 2 ^ Z.of_N n)%Z).
  { apply Z.mod_pos_bound. apply Z.pow_pos_nonneg; lia. }
  split.
  - assert (E : (2 ^ 64 = 2 ^ Z.of_N n * 2 ^ Z.of_N (64 - n))%Z).
    { rewrite <- Z.pow_add_r by lia. f_equal. lia. }
    rewrite E, Z.mul_mod_distr_r.
    2:{ apply Z.pow_nonzero; lia. }
    2:{ apply Z.pow_nonzero; lia. }
    rewrite Z2N.inj_mul; try lia; try (apply Z.pow_nonneg; lia).
  - apply N2Z.inj_lt. rewrite Z2N.id by lia. rewrite N2Z.inj_pow. cbn. lia.
Qed.

Lemma u64_write_twoc_R s b v n :
  R KU64 s b -> 1 <= n -> n <= 64 ->
  exists s', d_write_twoc sink u64_write_msbs v n s = Ok s' /\
             R KU64 s' (bpush b n (Z.to_N (v mod 2 ^ Z.of_N n))).
Proof.
  intros HR H1 H64. unfold d_write_twoc.
  destruct (N.eqb_spec n 0) as [?|_]; [lia|].
  destruct (N.ltb_spec 64 n) as [?|_]; [lia|]. cbn [orb].
  destruct (twoc_shifted_eq v n H1 H64) as [E Hd].
  assert (Hlt : twoc_shifted v n < 2 ^ 64).
  { rewrite E. replace 64 with (n + (64 - n)) at 2 by lia. apply mul_lt_pow2; [assumption|lia]. }
  destruct (u64_write_msbs_R s b 64 _ n HR H64 (N.le_refl _) Hlt) as (s' & Es & HR').
  exists s'. split; [assumption|].
  rewrite (N.mod_small _ _ Hlt), E, mul_div_pow2 in HR'. assumption.
Qed.

Lemma u64_write_zeros_R s b n :
  R KU64 s b -> R KU64 (u64_write_zeros n s) (bpush b n 0).
Proof.
  intros HR.
  destruct (R_pad _ _ _ HR) as (p & Hpad & HL & Hp & Hall & Hval & Hlen).
  cbn [wordbits] in *. unfold u64_write_zeros. rewrite Hpad. clear Hpad.
  rewrite bpush_small by apply pow2_pos. rewrite N.add_0_r.
  set (e := (n - p + 63) / 64).
  assert (He : exists q, 64 * e = (n - p) + q /\ q < 64).
  { exists (64 * e - (n - p)). unfold e.
    pose proof (N.div_mod (n - p + 63) 64 ltac:(lia)).
    pose proof (N.mod_lt (n - p + 63) 64 ltac:(lia)).
    set (x := n - p) in *. set (dd := (x + 63) / 64) in *. set (mm := (x + 63) mod 64) in *. lia. }
  destruct He as (q & Hq & Hq64).
  assert (HallZ : Forall (fun x => x < 2 ^ 64) (repeat 0 (N.to_nat e) ++ rst s)).
  { apply Forall_app. split; [|assumption]. apply Forall_forall. intros x Hx.
    apply repeat_spec in Hx. subst x. apply pow2_pos. }
  assert (Hlen' : N.of_nat (length (repeat 0 (N.to_nat e) ++ rst s)) = e + N.of_nat (length (rst s))).
  { rewrite app_length, repeat_length. lia. }
  destruct (N.le_gt_cases n p) as [Hnp|Hnp].
  - (* stays within the tail of the last word *)
    assert (He0 : e = 0).
    { unfold e. replace (n - p) with 0 by lia. reflexivity. }
    rewrite He0 in *. cbn [N.to_nat repeat app] in *.
    apply (R_intro KU64 _ _ (p - n)); cbn [wordbits rst blen blen_i bval]; try assumption; try lia.
    rewrite Hval, <- N.mul_assoc, <- N.pow_add_r. do 2 f_equal. lia.
  - apply (R_intro KU64 _ _ q); cbn [wordbits rst blen blen_i bval]; try assumption; try lia.
    rewrite rval_app, rval_repeat0, N.add_0_r, repeat_length, N2Nat.id, Hval.
    rewrite <- !N.mul_assoc, <- !N.pow_add_r. do 2 f_equal. lia.
Qed.

Lemma pad8_of_64 L bl p : 64 * L = bl + p -> p < 64 -> (8 - bl mod 8) mod 8 = p mod 8.
Proof.
  intros HL Hp.
  assert (E : bl = 8 * (8 * L) - p) by lia.
  pose proof (N.div_mod p 8 ltac:(lia)) as Hdm. pose proof (N.mod_lt p 8 ltac:(lia)) as Hm.
  set (r := p mod 8) in *. set (q := p / 8) in *.
  destruct (N.eq_dec r 0) as [Hr|Hr].
  - assert (bl mod 8 = 0).
    { replace bl with ((8 * L - q) * 8) by lia. apply N.mod_mul. lia. }
    rewrite H, Hr. reflexivity.
  - assert (bl mod 8 = 8 - r).
    { replace bl with ((8 - r) + (8 * L - q - 1) * 8) by lia.
      rewrite N.mod_add by lia. apply N.mod_small. lia. }
    rewrite H. replace (8 - (8 - r)) with r by lia. apply N.mod_small. lia.
Qed.

Lemma u64_align_R s b :
  R KU64 s b -> R KU64 (u64_align s) (bpush b ((8 - blen_i b mod 8) mod 8) 0).
Proof.
  intros HR.
  destruct (R_pad _ _ _ HR) as (p & _ & HL & Hp & Hall & Hval & Hlen).
  cbn [wordbits] in *. unfold u64_align, pad.
  rewrite bpush_small by apply pow2_pos. rewrite N.add_0_r, <- Hlen.
  rewrite (pad8_of_64 _ _ _ HL Hp).
  pose proof (N.mod_le p 8 ltac:(lia)) as Hle. set (m := p mod 8) in *. clearbody m.
  apply (R_intro KU64 _ _ (p - m)); cbn [wordbits rst blen blen_i bval].
  - lia.
  - lia.
  - assumption.
  - rewrite Hval, <- N.mul_assoc, <- N.pow_add_r. do 2 f_equal. lia.
  - lia.
Qed.

Lemma u64_write_bytes_fold_R bs : forall s b,
  R KU64 s b -> Forall (fun x => x < 256) bs ->
  exists s', foldM (fun a x => u64_write 8 x a) bs s = Ok s' /\
             R KU64 s' (fold_left (fun a x => bpush a 8 x) bs b).
Proof.
  induction bs as [|x t IH]; intros s b HR Hall; cbn [foldM fold_left].
  - exists s. split; [reflexivity | assumption].
  - inversion Hall as [|x' t' Hx Ht]; subst.
    destruct (u64_write_R s b 8 x HR ltac:(lia) Hx) as (s1 & E1 & HR1).
    rewrite E1. cbn [bind]. apply IH; assumption.
Qed.

End U64.
