(* C16: an invariant of the parser's reader that holds on EVERY input (not only on written streams): the reader is
   always "the input minus a whole number of consumed bytes, plus a bit offset".  With it the CRC comparison at the end
   of Parser.p_frame can be read off any successful parse. *)
From FV Require Import Generated Model.Base Model.Crc Model.Codes Model.Rice Model.Predict Model.Component Model.Flac Model.Parser
  Proofs.ReaderP Proofs.BitRead Proofs.ParseResidual Proofs.DecodeFrame Proofs.ParseFrame.
Local Open Scope N_scope.

Definition rinv (start : list N) (r : rd) : Prop :=
  r_off r < 8 /\ r_bytes r = skipn (N.to_nat (r_cnt r)) start /\ (r_bytes r = [] -> r_off r = 0).

Definition pres {A} (p : rd -> option (A * rd)) : Prop :=
  forall start r x r', rinv start r -> p r = Some (x, r') -> rinv start r'.

Lemma rinv_start start : rinv start (rd_of start).
Proof. unfold rinv, rd_of. cbn [r_off r_bytes r_cnt N.to_nat skipn]. repeat split; lia. Qed.

Lemma pres_read_bit : pres read_bit.
Proof.
  intros start r b r' (Hoff & Hb & Hnil) E. unfold read_bit in E.
  destruct (r_bytes r) as [|x t] eqn:Eb; [discriminate|].
  destruct (N.eqb_spec (r_off r) 7) as [H7|H7]; inversion E; subst r'; unfold rinv; cbn [r_off r_bytes r_cnt].
  - split; [lia|]. split; [|intros _; reflexivity].
    replace (N.to_nat (r_cnt r + 1)) with (S (N.to_nat (r_cnt r))) by lia. symmetry. apply (skipn_cons_tl _ _ x). symmetry. exact Hb.
  - split; [lia|]. split; [exact Hb | intros; discriminate].
Qed.

Lemma pres_read_bits : forall n acc, pres (read_bits n acc).
Proof.
  induction n as [|n IH]; intros acc start r x r' Hi E; cbn [read_bits] in E.
  - inversion E; subst. exact Hi.
  - destruct (read_bit r) as [[b r1]|] eqn:Eb; [|discriminate].
    exact (IH _ start r1 x r' (pres_read_bit start r b r1 Hi Eb) E).
Qed.

Lemma pres_rbits n : pres (rbits n).
Proof. unfold rbits. apply pres_read_bits. Qed.

Lemma pres_rsigned n : pres (rsigned n).
Proof.
  intros start r x r' Hi E. unfold rsigned in E. destruct (rbits n r) as [[v r1]|] eqn:Eb; [|discriminate].
  inversion E; subst. exact (pres_rbits n start r v r' Hi Eb).
Qed.

Lemma find_one_range b off p : find_one b off = Some p -> p <= 7.
Proof.
  unfold find_one. intros H. apply find_some in H. destruct H as [Hin _].
  cbn [In] in Hin. repeat (destruct Hin as [<-|Hin]; [lia|]). destruct Hin.
Qed.

Lemma pres_unary_bytes start : forall bytes off acc cnt x r',
  off < 8 -> bytes = skipn (N.to_nat cnt) start ->
  read_unary_bytes bytes off acc cnt = Some (x, r') -> rinv start r'.
Proof.
  induction bytes as [|b t IH]; intros off acc cnt x r' Hoff Hb E; cbn [read_unary_bytes] in E; [discriminate|].
  assert (Ht : t = skipn (N.to_nat (cnt + 1)) start).
  { replace (N.to_nat (cnt + 1)) with (S (N.to_nat cnt)) by lia. symmetry. apply (skipn_cons_tl _ _ b). symmetry. exact Hb. }
  destruct (find_one b off) as [p|] eqn:Ef.
  - pose proof (find_one_range b off p Ef) as Hp.
    destruct (N.eqb_spec p 7) as [H7|H7]; inversion E; subst r'; unfold rinv; cbn [r_off r_bytes r_cnt].
    + split; [lia|]. split; [exact Ht | intros _; reflexivity].
    + split; [lia|]. split; [exact Hb | intros; discriminate].
  - exact (IH 0 _ (cnt + 1) x r' ltac:(lia) Ht E).
Qed.

Lemma pres_runary : pres runary.
Proof.
  intros start r x r' (Hoff & Hb & _) E. unfold runary in E.
  exact (pres_unary_bytes start _ _ _ _ x r' Hoff Hb E).
Qed.

Lemma pres_rmany {A} (f : rd -> option (A * rd)) : pres f -> forall k, pres (rmany k f).
Proof.
  intros Hf. induction k as [|k IH]; intros start r x r' Hi E; cbn [rmany] in E.
  - inversion E; subst. exact Hi.
  - destruct (f r) as [[y r1]|] eqn:Ef; [|discriminate].
    destruct (rmany k f r1) as [[ys r2]|] eqn:Em; [|discriminate].
    inversion E; subst. exact (IH start r1 ys r' (Hf start r y r1 Hi Ef) Em).
Qed.

(* one `olet (x, r) <- e; k` step: name the intermediate result, carry the invariant along *)
Ltac ostep E start Hi lem :=
  match type of E with
  | match ?e with Some _ => _ | None => None end = Some _ =>
      let p := fresh "p" in let Ee := fresh "Ee" in
      destruct e as [p|] eqn:Ee; [|discriminate];
      let v := fresh "v" in let r1 := fresh "r" in destruct p as [v r1];
      let Hi' := fresh "Hi" in pose proof (lem start _ _ _ Hi Ee) as Hi'
  end.

Lemma pres_p_utf8 : pres p_utf8.
Proof.
  intros start r x r' Hi E. unfold p_utf8 in E.
  ostep E start Hi (pres_rbits 8).
  match type of E with (let '(k, acc) := ?c in _) = _ => destruct c as [k acc] end.
  destruct (k =? 7); [discriminate|].
  ostep E start Hi0 (pres_rmany (rbits 8) (pres_rbits 8) (N.to_nat k)).
  inversion E; subst. exact Hi1.
Qed.

Lemma pres_p_block_size_code tag : pres (p_block_size_code tag).
Proof.
  intros start r x r' Hi E. unfold p_block_size_code in E.
  repeat match type of E with (if ?c then _ else _) = _ => destruct c end; try discriminate;
    try (inversion E; subst; exact Hi).
  - ostep E start Hi (pres_rbits 8). inversion E; subst. exact Hi0.
  - ostep E start Hi (pres_rbits 16). inversion E; subst. exact Hi0.
Qed.

Lemma pres_p_sample_rate_code tag : pres (p_sample_rate_code tag).
Proof.
  intros start r x r' Hi E. unfold p_sample_rate_code in E.
  repeat match type of E with (if ?c then _ else _) = _ => destruct c end; try discriminate;
    try (inversion E; subst; exact Hi).
  - ostep E start Hi (pres_rbits 8). inversion E; subst. exact Hi0.
  - ostep E start Hi (pres_rbits 16). inversion E; subst. exact Hi0.
Qed.

Lemma pres_p_frame_header s0 : pres (p_frame_header s0).
Proof.
  intros start r x r' Hi E. unfold p_frame_header in E.
  ostep E start Hi (pres_rbits 15). destruct (negb (v =? 32764)); [discriminate|].
  ostep E start Hi0 (pres_rbits 1). ostep E start Hi1 (pres_rbits 4). ostep E start Hi2 (pres_rbits 4).
  ostep E start Hi3 (pres_rbits 4). ostep E start Hi4 (pres_rbits 3). ostep E start Hi5 (pres_rbits 1).
  destruct (negb (v5 =? 0)); [discriminate|].
  destruct (chassign_of_tag v3) as [ch|]; [|discriminate].
  ostep E start Hi6 pres_p_utf8.
  ostep E start Hi7 (pres_p_block_size_code v1). destruct v7 as [bcode bsize].
  ostep E start Hi8 (pres_p_sample_rate_code v2).
  ostep E start Hi9 (pres_rbits 8).
  destruct (negb _); [discriminate|]. inversion E; subst. exact Hi10.
Qed.

Lemma pres_p_partition_samples : forall cnt p, pres (p_partition_samples cnt p).
Proof.
  induction cnt as [|k IH]; intros p start r x r' Hi E; cbn [p_partition_samples] in E.
  - inversion E; subst. exact Hi.
  - ostep E start Hi pres_runary. ostep E start Hi0 (pres_rbits p).
    ostep E start Hi1 (IH p). destruct v1 as [qs rs]. inversion E; subst. exact Hi2.
Qed.

Lemma pres_p_partitions : forall nparts first pbits plen warm, pres (p_partitions nparts first pbits plen warm).
Proof.
  induction nparts as [|k IH]; intros first pbits plen warm start r x r' Hi E; cbn [p_partitions] in E.
  - inversion E; subst. exact Hi.
  - ostep E start Hi (pres_rbits pbits). cbv zeta in E.
    ostep E start Hi0 (pres_p_partition_samples (N.to_nat (plen - (if first then N.min warm plen else 0))) v).
    destruct v0 as [qs rs].
    ostep E start Hi1 (IH false pbits plen warm). destruct v0 as [[ps qs2] rs2]. inversion E; subst. exact Hi2.
Qed.

Lemma pres_p_residual block warm : pres (p_residual block warm).
Proof.
  intros start r x r' Hi E. unfold p_residual in E.
  ostep E start Hi (pres_rbits 2). destruct (1 <? v); [discriminate|]. cbv zeta in E.
  ostep E start Hi0 (pres_rbits 4).
  destruct (negb _ || _); [discriminate|].
  ostep E start Hi1 (pres_p_partitions (N.to_nat (2 ^ v0)) true (if v =? 0 then 4 else 5) (block / 2 ^ v0) warm).
  destruct v1 as [[ps qs] rs]. inversion E; subst. exact Hi2.
Qed.

Lemma pres_p_subframe block bps : pres (p_subframe block bps).
Proof.
  intros start r x r' Hi E. unfold p_subframe in E.
  ostep E start Hi (pres_rbits 7). ostep E start Hi0 (pres_rbits 1).
  destruct (negb (v0 =? 0)); [discriminate|].
  destruct (v =? 0).
  { ostep E start Hi1 (pres_rsigned bps). inversion E; subst. exact Hi2. }
  destruct ((8 <=? v) && (v <=? 12)).
  { cbv zeta in E. ostep E start Hi1 (pres_rmany (rsigned bps) (pres_rsigned bps) (N.to_nat (v - 8))).
    ostep E start Hi2 (pres_p_residual block (v - 8)). inversion E; subst. exact Hi3. }
  destruct ((32 <=? v) && (v <? 64)).
  { cbv zeta in E. ostep E start Hi1 (pres_rmany (rsigned bps) (pres_rsigned bps) (N.to_nat (v - 31))).
    destruct (24 <? v - 31); [discriminate|].
    ostep E start Hi2 (pres_rbits 4). ostep E start Hi3 (pres_rsigned 5).
    ostep E start Hi4 (pres_rmany (rsigned (v2 + 1)) (pres_rsigned (v2 + 1)) (N.to_nat (v - 31))).
    destruct ((v3 <? 0)%Z || _); [discriminate|].
    ostep E start Hi5 (pres_p_residual block (v - 31)). inversion E; subst. exact Hi6. }
  destruct (v =? 1); [|discriminate].
  ostep E start Hi1 (pres_rmany (rsigned bps) (pres_rsigned bps) (N.to_nat block)). inversion E; subst. exact Hi2.
Qed.

Lemma pres_p_subframes : forall k ch cha block bps, pres (p_subframes k ch cha block bps).
Proof.
  induction k as [|k IH]; intros ch cha block bps start r x r' Hi E; cbn [p_subframes] in E.
  - inversion E; subst. exact Hi.
  - ostep E start Hi (pres_p_subframe block (bps + bps_offset cha ch)).
    ostep E start Hi0 (IH (ch + 1) cha block bps). inversion E; subst. exact Hi1.
Qed.

Lemma rinv_align start r : rinv start r -> rinv start (align_rd r) /\ r_off (align_rd r) = 0.
Proof.
  intros (Hoff & Hb & Hnil). unfold align_rd.
  destruct (N.eqb_spec (r_off r) 0) as [H0|H0]; [split; [repeat split; assumption | exact H0]|].
  destruct (r_bytes r) as [|b t] eqn:Eb; [specialize (Hnil eq_refl); lia|].
  unfold rinv. cbn [r_off r_bytes r_cnt]. split; [|reflexivity]. split; [lia|]. split; [|intros _; reflexivity].
  replace (N.to_nat (r_cnt r + 1)) with (S (N.to_nat (r_cnt r))) by lia. symmetry. apply (skipn_cons_tl _ _ b). symmetry. exact Hb.
Qed.

(* ---- what a successful parse of a frame says about the bytes ---- *)
Lemma rbits16_aligned_inv (bytes : list N) c v r' :
  Forall (fun x => x < 256) bytes -> rbits 16 (mkRd bytes 0 c) = Some (v, r') ->
  exists b0 b1 t, bytes = b0 :: b1 :: t /\ v = 256 * b0 + b1 /\ r' = mkRd t 0 (c + 2).
Proof.
  intros H256 E. destruct bytes as [|b0 [|b1 t]].
  - unfold rbits in E. cbn in E. discriminate.
  - exfalso. inversion H256 as [|? ? Hb0 _]; subst.
    pose proof (rbits8_aligned b0 [] c Hb0) as E8.
    (* the first 8 bits consume the only byte; the 9th read fails *)
    unfold rbits in E, E8. change (N.to_nat 16) with (8 + 8)%nat in E. change (N.to_nat 8) with 8%nat in E8.
    revert E E8. generalize (mkRd [b0] 0 c). intros r E E8.
    assert (Hsplit : forall n m acc r0, read_bits (n + m) acc r0 =
              match read_bits n acc r0 with Some (a, r1) => read_bits m a r1 | None => None end).
    { induction n as [|n IHn]; intros m acc r0; cbn [Nat.add read_bits]; [reflexivity|].
      destruct (read_bit r0) as [[b r1]|]; [apply IHn | reflexivity]. }
    rewrite Hsplit, E8 in E. cbn in E. discriminate.
  - inversion H256 as [|? ? Hb0 Ht]; subst. inversion Ht as [|? ? Hb1 Ht']; subst.
    exists b0, b1, t. split; [reflexivity|].
    assert (Hsplit : forall n m acc r0, read_bits (n + m) acc r0 =
              match read_bits n acc r0 with Some (a, r1) => read_bits m a r1 | None => None end).
    { induction n as [|n IHn]; intros m acc r0; cbn [Nat.add read_bits]; [reflexivity|].
      destruct (read_bit r0) as [[b r1]|]; [apply IHn | reflexivity]. }
    assert (Hacc : forall n acc r0, read_bits n acc r0 =
              match read_bits n 0 r0 with Some (a, r1) => Some (acc * 2 ^ N.of_nat n + a, r1) | None => None end).
    { induction n as [|n IHn]; intros acc r0; cbn [read_bits].
      - f_equal. f_equal. cbn. lia.
      - destruct (read_bit r0) as [[b r1]|]; [|reflexivity].
        rewrite (IHn (2 * acc + _)), (IHn (2 * 0 + _)). destruct (read_bits n 0 r1) as [[a r2]|]; [|reflexivity].
        f_equal. f_equal. rewrite Nat2N.inj_succ, N.pow_succ_r'. lia. }
    unfold rbits in E. change (N.to_nat 16) with (8 + 8)%nat in E. rewrite Hsplit in E.
    pose proof (rbits8_aligned b0 (b1 :: t) c Hb0) as E0. unfold rbits in E0. change (N.to_nat 8) with 8%nat in E0. rewrite E0 in E.
    rewrite Hacc in E.
    pose proof (rbits8_aligned b1 t (c + 1) Hb1) as E1. unfold rbits in E1. change (N.to_nat 8) with 8%nat in E1. rewrite E1 in E.
    inversion E; subst. split; [change (2 ^ N.of_nat 8) with 256; lia|]. f_equal. lia.
Qed.

Theorem p_frame_crc_inv start channels bps f rest' :
  Forall (fun x => x < 256) start -> p_frame channels bps start = Some (f, rest') ->
  exists L : nat, (L + 2 <= length start)%nat /\ rest' = skipn (L + 2) start /\
                  crc16 (firstn L start) = 256 * nth L start 0 + nth (L + 1) start 0.
Proof.
  intros H256 E. unfold p_frame in E.
  pose proof (rinv_start start) as Hi.
  ostep E start Hi (pres_p_frame_header start).
  destruct (negb _); [discriminate|].
  destruct (negb _ || _); [discriminate|].
  match type of E with context [p_subframes ?k ?c ?a ?b ?w r] =>
    ostep E start Hi0 (pres_p_subframes k c a b w) end.
  destruct (rinv_align start r0 Hi1) as [(Hoff & Hb & _) Hoff0].
  set (ra := align_rd r0) in *. set (L := N.to_nat (r_cnt ra)).
  assert (Era : ra = mkRd (skipn L start) 0 (r_cnt ra)).
  { rewrite (rd_eta ra) at 1. rewrite Hb, Hoff0. reflexivity. }
  rewrite Era in E. cbn [r_cnt] in E.
  destruct (rbits 16 _) as [[c16 r4]|] eqn:E16; [|discriminate].
  destruct (rbits16_aligned_inv _ _ _ _ (Forall_skipn_lt _ L start H256) E16) as (b0 & b1 & t & Hsk & Hv & Hr4).
  destruct (negb (c16 =? _)) eqn:Ec; [discriminate|]. apply Bool.negb_false_iff, N.eqb_eq in Ec.
  inversion E; subst f rest'. rewrite Hr4. cbn [r_bytes].
  exists L.
  assert (HL : (L + 2 <= length start)%nat).
  { apply (f_equal (@length N)) in Hsk. rewrite skipn_length in Hsk. cbn [length] in Hsk. lia. }
  split; [exact HL|]. split.
  - rewrite <- skipn_skipn', Hsk. reflexivity.
  - fold L in Ec. rewrite <- Ec, Hv.
    assert (Hn0 : nth L start 0 = b0).
    { rewrite <- (firstn_skipn L start) at 1. rewrite app_nth2 by (rewrite firstn_length; lia).
      rewrite firstn_length. replace (L - Nat.min L (length start))%nat with 0%nat by lia. rewrite Hsk. reflexivity. }
    assert (Hn1 : nth (L + 1) start 0 = b1).
    { rewrite <- (firstn_skipn L start) at 1. rewrite app_nth2 by (rewrite firstn_length; lia).
      rewrite firstn_length. replace (L + 1 - Nat.min L (length start))%nat with 1%nat by lia. rewrite Hsk. reflexivity. }
    rewrite Hn0, Hn1. reflexivity.
Qed.

(* ---- C16: a burst inside a frame is never accepted as a frame that ends where the original ended ---- *)
From FV Require Import Proofs.CrcGen Proofs.CrcBurst Proofs.CrcField.

Lemma split_last2 (l : list N) (L : nat) : length l = (L + 2)%nat -> l = firstn L l ++ [nth L l 0; nth (L + 1) l 0].
Proof.
  intros Hl. rewrite <- (firstn_skipn L l) at 1. f_equal.
  destruct (skipn L l) as [|a [|b [|c t]]] eqn:Es;
    pose proof (f_equal (@length N) Es) as Hlen; rewrite skipn_length, Hl in Hlen; cbn [length] in Hlen; try lia.
  assert (Ha : nth L l 0 = a).
  { rewrite <- (firstn_skipn L l) at 1. rewrite app_nth2 by (rewrite firstn_length; lia).
    rewrite firstn_length. replace (L - Nat.min L (length l))%nat with 0%nat by lia. rewrite Es. reflexivity. }
  assert (Hb : nth (L + 1) l 0 = b).
  { rewrite <- (firstn_skipn L l) at 1. rewrite app_nth2 by (rewrite firstn_length; lia).
    rewrite firstn_length. replace (L + 1 - Nat.min L (length l))%nat with 1%nat by lia. rewrite Es. reflexivity. }
  rewrite Ha, Hb. reflexivity.
Qed.

Theorem altered_frame_rejected_at_boundary channels bps (body fb' rest : list N) i j p f' rest' :
  let c := crc16 body in
  let fb := body ++ [c / 256; c mod 256] in
  length fb' = length fb -> Forall (fun x => x < 256) fb' -> Forall (fun x => x < 256) rest ->
  zipxor (bytes_bits8 fb) (bytes_bits8 fb') = repeat false i ++ p ++ repeat false j ->
  length p = 16%nat -> existsb (fun b => b) p = true ->
  p_frame channels bps (fb' ++ rest) = Some (f', rest') ->
  length rest' <> length rest.
Proof.
  intros c fb Hlen H256 Hrest Hx Hp Hpe E Heq.
  destruct (p_frame_crc_inv (fb' ++ rest) channels bps f' rest' ltac:(apply Forall_app; split; assumption) E)
    as (L & HL & Hr & Hcrc).
  assert (Hfb : length fb = (length body + 2)%nat) by (unfold fb; rewrite app_length; cbn [length]; lia).
  assert (HLb : L = length body).
  { rewrite Hr, skipn_length, app_length in Heq. rewrite app_length in HL. lia. }
  subst L.
  assert (Hfb' : length fb' = (length body + 2)%nat) by lia.
  rewrite firstn_app, (proj2 (Nat.sub_0_le _ _)) in Hcrc by lia. cbn [firstn] in Hcrc. rewrite app_nil_r in Hcrc.
  rewrite !app_nth1 in Hcrc by lia.
  set (body' := firstn (length body) fb') in *.
  set (b0 := nth (length body) fb' 0) in *. set (b1 := nth (length body + 1) fb' 0) in *.
  pose proof (split_last2 fb' (length body) Hfb') as Hsplit. fold body' b0 b1 in Hsplit.
  assert (Hb0 : b0 < 256 /\ b1 < 256).
  { rewrite Hsplit in H256. apply Forall_app in H256. destruct H256 as [_ H2].
    inversion H2 as [|? ? A H3]. inversion H3 as [|? ? B _]. split; assumption. }
  destruct Hb0 as [Hb0 Hb1].
  set (c' := 256 * b0 + b1) in *.
  assert (Hc' : c' < 2 ^ 16) by (unfold c'; change (2 ^ 16) with 65536; lia).
  assert (Hq : c' / 256 = b0 /\ c' mod 256 = b1).
  { unfold c'. split.
    - rewrite N.mul_comm, N.div_add_l by lia. rewrite N.div_small by exact Hb1. lia.
    - rewrite N.mul_comm, N.add_comm, N.mod_add by lia. apply N.mod_small. exact Hb1. }
  destruct Hq as [Hq0 Hq1].
  assert (Hlb : length body = length body') by (unfold body'; rewrite firstn_length; lia).
  apply (crc16_footer_burst_detected body body' c' i j p Hlb Hc'); try assumption.
  - fold c. fold fb. rewrite Hq0, Hq1, <- Hsplit. exact Hx.
  - symmetry. exact Hcrc.
Qed.
