(* Property C08: reported bit counts equal the bits actually written.
   Statements only; proofs in Proofs/CountBits.v, Proofs/OpsLen.v. *)
From FV Require Import Model.Base Model.Sink Model.Rice Model.Component
  Model.Parser Proofs.OpsLen Proofs.CountBits Proofs.CountStream Proofs.ParseFrameCtor Proofs.ParsePrecomputed.
Local Open Scope N_scope.

(* Residual: any partition order, any parameters, any quotients (no bound on their size/sum) *)
Theorem C08_residual : forall (r : residual) (cur : N),
  wf_residual r -> ops_len cur (residual_ops r) = residual_count_bits r.
Proof. exact residual_count_bits_correct. Qed.
Print Assumptions C08_residual.

(* every subframe kind *)
Theorem C08_subframe : forall (s : subframe) (cur : N),
  sub_shape s -> ops_len cur (subframe_ops s) = subframe_count_bits s.
Proof. exact subframe_count_bits_correct. Qed.
Print Assumptions C08_subframe.

(* ops_len from position 0 is the length of the ideal bit string the ops denote *)
Theorem C08_ops_len_is_bits : forall ops, ops_bits ops = ops_len 0 ops.
Proof. exact ops_bits_len. Qed.
Print Assumptions C08_ops_len_is_bits.

(* frames: header + subframes, byte alignment, CRC-16; the emitted bytes (through the word sink,
   byte export and the byte sink) are exactly count_bits / 8 *)
Theorem C08_frame : forall (f : frame) (bytes : list N),
  f_precomputed f = None -> Forall sub_shape (f_subframes f) -> frame_ops_wfb f = true ->
  frame_bytes f = Ok bytes -> 8 * N.of_nat (length bytes) = frame_count_bits f.
Proof. exact frame_count_bits_correct. Qed.
Print Assumptions C08_frame.

Theorem C08_frame_whole_bytes : forall f : frame, frame_count_bits f mod 8 = 0.
Proof. exact frame_count_bits_mod8. Qed.
Print Assumptions C08_frame_whole_bytes.

Theorem C08_precompute : forall f f' : frame,
  f_precomputed f = None -> Forall sub_shape (f_subframes f) -> frame_ops_wfb f = true ->
  precompute f = Ok f' ->
  frame_count_bits f' = frame_count_bits f /\ frame_ops f' = (do b <- frame_bytes f; Ok [OBytes b]).
Proof. exact precompute_preserves. Qed.
Print Assumptions C08_precompute.

(* either in-memory sink type holds exactly ops_bits bits *)
Theorem C08_either_sink : forall (k : kind) (ops : list op),
  forallb wf_op ops = true -> exists s, run k ops = Ok s /\ blen s = ops_bits ops.
Proof. exact sink_len_is_ops_bits. Qed.
Print Assumptions C08_either_sink.

(* further metadata blocks, at any byte-aligned position *)
Theorem C08_metadata : forall (ms : list (N * list N)) (cur : N), cur mod 8 = 0 ->
  ops_len cur (meta_ops ms) = sumN (map (fun m => 32 + 8 * N.of_nat (length (snd m))) ms).
Proof. exact metas_ops_len. Qed.
Print Assumptions C08_metadata.

(* whole streams: marker, STREAMINFO (MD5 is 16 bytes in the code), metadata blocks, frames that are either
   precomputed or meet C08_frame's hypotheses *)
Theorem C08_stream : forall (s : stream) (ops : list op),
  length (si_md5 (s_info s)) = 16%nat -> Forall frame_countable (s_frames s) ->
  stream_ops s = Ok ops -> ops_len 0 ops = stream_count_bits s.
Proof. exact stream_count_bits_correct. Qed.
Print Assumptions C08_stream.

(* "before and after the frame's bitstream has been precomputed", at stream level: frames that carry a stored bit
   stream equal to their own serialisation (what precompute_bitstream establishes; every frame of the multi-threaded
   encoder) report the same count as the same stream without stored bytes *)
Theorem C08_precomputed_stream : forall s,
  Forall (fun f => pre_coherent f /\ frame_canon (si_channels (s_info s)) (si_bps (s_info s)) (strip_frame f)) (s_frames s) ->
  stream_count_bits s = stream_count_bits (strip_stream s).
Proof. exact precomputed_stream_count_bits. Qed.
Print Assumptions C08_precomputed_stream.
