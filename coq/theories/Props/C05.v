(* Property C05: multi-threaded output is byte-identical to single-threaded output.
   Statements only.  The protocol of par.rs is the labelled transition system Model/Par.v (feeder,
   W workers, hashing thread, epilogue; atomicity = hook points).  A frame is identified by its
   number because encoding a block is a function of the block only (C10) and the frame number is
   fixed by the feeder.
   Proved here:
     - GENERAL (Proofs/ParP.v): for every number of workers W >= 1, every number of blocks, every
       fault plan (a failing read at any index, any set of blocks with out-of-range samples) and
       EVERY schedule, a run from the initial state that reaches the final state delivers exactly
       the single-threaded outcome: all frames 0..n-1 (the sink drains them in frame order), the
       digest input in block order, or the same error (C05_par_refines_seq).  The proof is an
       inductive invariant (buffer ownership without duplicates, every numbered frame located in
       exactly the places it can be, FIFO structure of both queues, stop-token discipline),
       preserved by each of the 12 kinds of step (C05_invariant_init, C05_invariant_step).
     - complete exploration of all schedules of named finite instances (Proofs/ParSmall.v): every
       schedule terminates, none deadlocks (kept as regression guards for the model).
     - MEANING (Proofs/ParGlue.v): the abstract outcome is the outcome of the encoder model - for the plan made of
       the actual blocks (a block is invalid iff a sample is out of range), any worker count and any schedule, a
       completed multi-threaded run delivers exactly the frames Encoder.encode_blocks returns, all of them and in
       order, or its configuration error (C05_par_result_is_encode_blocks); byte identity then follows because the
       stream is a function of those frames.
   The tie to par.rs is trace
   validation: every event log recorded from the implementation under schedule perturbation must be
   a run of the extracted LTS ending in the implementation's outcome (PAR stream). *)
From FV Require Import Model.Base Model.Rice Model.Predict Model.Component Model.Encoder Model.Par Proofs.ParSmall Proofs.ParP Proofs.ParGlue
  Proofs.StreamLists Proofs.Lossless Proofs.EncodeFrameE2E Proofs.ParsePrecomputed.

Theorem C05_all_schedules_w1_b1 : all_schedules_ok (mkPlan 1 1 None (fun _ => false)) 40 = true.
Proof. exact par_w1_b1. Qed.
Print Assumptions C05_all_schedules_w1_b1.

Theorem C05_all_schedules_w2_b1 : all_schedules_ok (mkPlan 2 1 None (fun _ => false)) 40 = true.
Proof. exact par_w2_b1. Qed.
Print Assumptions C05_all_schedules_w2_b1.

Theorem C05_all_schedules_w1_b0 : all_schedules_ok (mkPlan 1 0 None (fun _ => false)) 40 = true.
Proof. exact par_w1_b0. Qed.
Print Assumptions C05_all_schedules_w1_b0.

(* ---- the general theorem ---- *)
Theorem C05_par_refines_seq : forall (p : plan) (ls : list label) (s : pstate),
  1 <= p_workers p -> run p (init p) ls = Some s -> final s = true -> result_of s = seq_result p.
Proof. exact par_refines_seq. Qed.
Print Assumptions C05_par_refines_seq.

Theorem C05_invariant_init : forall p : plan, Inv p (init p).
Proof. exact inv_init. Qed.
Print Assumptions C05_invariant_init.

Theorem C05_invariant_step : forall (p : plan) (s : pstate) (l : label) (s' : pstate),
  Inv p s -> step p s l = Some s' -> Inv p s'.
Proof. exact inv_step. Qed.
Print Assumptions C05_invariant_step.

(* ---- what the outcome means: the frames of the encoder model ---- *)
(* frames_total: the frame encoder answers on every block whose samples are in range (C07_verified_config_encodes
   gives this for verified configurations under the named estimator hypotheses) *)
Theorem C05_par_result_is_encode_blocks :
  forall (ent : N -> N -> N -> N) (qlpc : N -> N -> qparams) cfg rate channels bps
         (w : nat) (blocks : list (list Z)) (ls : list label) (s : pstate),
    (1 <= w)%nat -> frames_total ent qlpc cfg rate channels bps blocks -> (N.of_nat (length blocks) <= 2 ^ 31)%N ->
    run (plan_of bps w blocks) (init (plan_of bps w blocks)) ls = Some s -> final s = true ->
    match encode_blocks ent qlpc cfg rate channels bps 0 blocks with
    | Ok frames => result_of s = OutOk (seq 0 (length blocks)) (seq 0 (length blocks)) /\ length frames = length blocks
    | Err e => result_of s = OutConfigErr /\ e = E_VERIFY
    | Panic _ => False
    end.
Proof. exact par_result_is_encode_blocks. Qed.
Print Assumptions C05_par_result_is_encode_blocks.

Local Open Scope N_scope.
(* the BYTES: the stream the multi-threaded encoder assembles consists of the single-threaded frames, each with its
   bit stream precomputed in a worker (precompute_stream); the stream writer emits for it exactly the bytes of the
   single-threaded stream *)
Theorem C05_par_stream_same_bytes :
  forall (ent : N -> N -> N -> N) (qlpc : N -> N -> qparams) (md5 : list N -> list N)
         cfg rate channels bps bs samples s sp bytes (total : nat),
    encode_stream ent qlpc md5 cfg rate channels bps bs samples = Ok s ->
    precompute_stream s = Ok sp -> stream_bytes sp = Ok bytes ->
    cfg_max_parameter cfg <= 14 -> In bps [8; 12; 16; 20; 24] -> rate <= 96000 -> 1 <= channels <= 8 ->
    1 <= bs <= Generated.c_MAX_BLOCK_SIZE ->
    length samples = (total * N.to_nat channels)%nat -> N.of_nat total < 2 ^ 36 ->
    length (md5 (md5_input bps samples)) = 16%nat -> Forall (fun x => x < 256) (md5 (md5_input bps samples)) ->
    (forall j b, nth_error (chunks (N.to_nat (bs * channels)) samples) j = Some b ->
                 block_hyps qlpc cfg (N.of_nat j) channels bps b (length b / N.to_nat channels)) ->
    stream_bytes s = Ok bytes.
Proof.
  intros ent qlpc md5 cfg rate channels bps bs samples s sp bytes total E Ep Eb Hmp Hbps Hrate Hch Hbs Hlen Htot Hml Hm256 Hblocks.
  exact (proj1 (par_encoded_stream ent qlpc md5 cfg rate channels bps bs samples s sp bytes total E Ep Eb Hmp Hbps Hrate Hch Hbs Hlen Htot Hml Hm256 Hblocks)).
Qed.
Print Assumptions C05_par_stream_same_bytes.
