(* Property C05: multi-threaded output is byte-identical to single-threaded output.
   Statements only.  The protocol of par.rs is the labelled transition system Model/Par.v (feeder,
   W workers, hashing thread, epilogue; atomicity = hook points).  A frame is identified by its
   number because encoding a block is a function of the block only (C10) and the frame number is
   fixed by the feeder.
   Proved here: complete exploration of all schedules of named finite instances (Proofs/ParSmall.v):
   every schedule terminates, none deadlocks, every final state holds each frame exactly once, in
   order, and the digest input in order.  The general statement for all W, all block counts and
   all schedules is Proofs/ParP.v (see DESIGN.md for its status).  The tie to par.rs is trace
   validation: every event log recorded from the implementation under schedule perturbation must be
   a run of the extracted LTS ending in the implementation's outcome (PAR stream). *)
From FV Require Import Model.Base Model.Par Proofs.ParSmall.

Theorem C05_all_schedules_w1_b1 : all_schedules_ok (mkPlan 1 1 None (fun _ => false)) 40 = true.
Proof. exact par_w1_b1. Qed.
Print Assumptions C05_all_schedules_w1_b1.

Theorem C05_all_schedules_w2_b1 : all_schedules_ok (mkPlan 2 1 None (fun _ => false)) 40 = true.
Proof. exact par_w2_b1. Qed.
Print Assumptions C05_all_schedules_w2_b1.

Theorem C05_all_schedules_w1_b0 : all_schedules_ok (mkPlan 1 0 None (fun _ => false)) 40 = true.
Proof. exact par_w1_b0. Qed.
Print Assumptions C05_all_schedules_w1_b0.
