(* Property C02: every emitted stream is well-formed FLAC.  Statements only; proofs in
   Proofs/CodeSweep.v and Proofs/Utf8P.v.  The three finite code spaces named by the property are
   covered completely: block lengths 1..=32767 and sample rates 1..=96000 by sweeps inside Coq
   against the implementation's own tables (GenTables.v), frame numbers by arithmetic for every
   value below 2^36.  That whole streams pass the strict validator is checked on every run with
   the extracted Flac.strict_ok (see DESIGN.md, C02). *)
From FV Require Import GenTables Model.Base Model.Codes Proofs.CodeSweep Proofs.Utf8P.
Local Open Scope N_scope.

Theorem C02_block_size_codes : forall n, 1 <= n <= 32767 ->
  block_ok n (nth (N.to_nat (n - 1)) t_block_size 0) = true.
Proof. exact block_codes_ok. Qed.
Print Assumptions C02_block_size_codes.

Theorem C02_sample_rate_codes : forall f, 1 <= f <= 96000 ->
  rate_ok f (nth (N.to_nat (f - 1)) t_sample_rate 0) = true.
Proof. exact rate_codes_ok. Qed.
Print Assumptions C02_sample_rate_codes.

(* frame / sample numbers: decodable by the RFC rule, canonical, for every value the writer accepts *)
Theorem C02_number_roundtrip : forall v bytes rest,
  utf8like v = Ok bytes -> utf8_decode (bytes ++ rest) = Some (v, rest).
Proof. exact utf8_roundtrip. Qed.
Print Assumptions C02_number_roundtrip.

Theorem C02_number_defined : forall v, v < 2 ^ 36 -> exists bytes, utf8like v = Ok bytes.
Proof. exact utf8_defined. Qed.
Print Assumptions C02_number_defined.
