(* Property C02: every emitted stream is well-formed FLAC.  Statements only; proofs in
   Proofs/CodeSweep.v and Proofs/Utf8P.v.  The three finite code spaces named by the property are
   covered completely: block lengths 1..=32767 and sample rates 1..=96000 by sweeps inside Coq
   against the implementation's own tables (GenTables.v), frame numbers by arithmetic for every
   value below 2^36.  That whole streams pass the strict validator (sync code, reserved bits, CRC-8 / CRC-16, zero
   padding, subframe limits, frame numbering from 0, agreement of every frame with STREAMINFO, block-size rules, sample
   total, no trailing bytes: Flac.strict_ok) is a theorem about the encoder model (C02_emitted_stream_strict) and is
   additionally checked on every run with the extracted Flac.strict_ok on the implementation's bytes. *)
From FV Require Import GenTables Generated Model.Base Model.Codes Model.Rice Model.Predict Model.Component Model.Flac Model.Encoder
  Proofs.CodeSweep Proofs.Utf8P Proofs.EncodeFrameE2E Proofs.DecodeStream.
Local Open Scope N_scope.

Theorem C02_block_size_codes : forall n, 1 <= n <= 32767 ->
  block_ok n (nth (N.to_nat (n - 1)) t_block_size 0) = true.
Proof. exact block_codes_ok. Qed.
Print Assumptions C02_block_size_codes.

Theorem C02_sample_rate_codes : forall f, 1 <= f <= 96000 ->
  rate_ok f (nth (N.to_nat (f - 1)) t_sample_rate 0) = true.
Proof. exact rate_codes_ok. Qed.
Print Assumptions C02_sample_rate_codes.

(* frame / sample numbers: decodable by the RFC rule, canonical, for every value the writer accepts *)
Theorem C02_number_roundtrip : forall v bytes rest,
  utf8like v = Ok bytes -> utf8_decode (bytes ++ rest) = Some (v, rest).
Proof. exact utf8_roundtrip. Qed.
Print Assumptions C02_number_roundtrip.

Theorem C02_number_defined : forall v, v < 2 ^ 36 -> exists bytes, utf8like v = Ok bytes.
Proof. exact utf8_defined. Qed.
Print Assumptions C02_number_defined.

(* every stream the encoder model emits satisfies every clause of the strict RFC 9639 validator
   (block_hyps: the named hypotheses on the estimator oracle, see C01) *)
Theorem C02_emitted_stream_strict :
  forall (ent : N -> N -> N -> N) (qlpc : N -> N -> qparams) (md5 : list N -> list N)
         cfg rate channels bps bs samples bytes (total : nat),
    encode_stream_bytes ent qlpc md5 cfg rate channels bps bs samples = Ok bytes ->
    cfg_max_parameter cfg <= 14 -> In bps [8; 12; 16; 20; 24] -> 1 <= rate < 2 ^ 20 -> 1 <= channels <= 8 ->
    16 <= bs <= c_MAX_BLOCK_SIZE ->
    length samples = (total * N.to_nat channels)%nat -> N.of_nat total < 2 ^ 36 ->
    length (md5 (md5_input bps samples)) = 16%nat -> Forall (fun x => x < 256) (md5 (md5_input bps samples)) ->
    (forall j b, nth_error (chunks (N.to_nat (bs * channels)) samples) j = Some b ->
                 block_hyps qlpc cfg (N.of_nat j) channels bps b (length b / N.to_nat channels)) ->
    strict_ok bytes = true.
Proof. exact stream_strict_ok. Qed.
Print Assumptions C02_emitted_stream_strict.
