(* Property C11: bit sinks behave as an ideal MSB-first bit string.
   This file holds only the property statements; proofs are in Proofs/Sink*.v. *)
From FV Require Import Model.Base Model.Sink Proofs.SinkRefine.

(* Both in-memory sinks: for every finite sequence of well-formed operations the run succeeds,
   keeps the representation invariant (storage length, unwritten tail bits zero) and denotes
   exactly the ideal bit string. *)
Theorem C11_sink_refines_ideal : forall (k : kind) (ops : list op),
  forallb wf_op ops = true ->
  exists s, run k ops = Ok s /\ inv k s /\ abs k s = ideal_run ops.
Proof. exact sink_refines_ideal. Qed.
Print Assumptions C11_sink_refines_ideal.

(* A user sink implementing only the required operations receives the ideal bit sequence. *)
Theorem C11_user_sink_receives_ideal : forall ops : list op,
  forallb wf_op ops = true -> user_run ops = Ok (ideal_run ops).
Proof. exact user_sink_receives_ideal. Qed.
Print Assumptions C11_user_sink_receives_ideal.

(* The number view used above is the list-of-bits view: appending a field appends its bits. *)
Theorem C11_bits_view : forall (a : bstr) (n v : N),
  bstr_bits (bpush a n v) = bstr_bits a ++ bstr_bits (bfield n v).
Proof. exact bstr_bits_push. Qed.
Print Assumptions C11_bits_view.
