(* Property C15: the parser inverts the writer.  Statements only; proofs in Proofs/ParserP.v.
   PARTIAL: proved so far is the number coding through the parser's own decoder on a byte-aligned
   reader (all frame / sample numbers below 2^36); the full composition parse(bytes(s)) = s over
   the component tree is decided per run on the implementation (parse consumes all input,
   verifies, re-serialises to identical bytes, decodes to the input) and on the parser model by the
   PARSE correspondence stream.  The component-level inverse (predictors, residuals, stereo) is
   Props/C01.v. *)
From FV Require Import Model.Base Model.Codes Model.Flac Model.Parser Proofs.ParserP.
Local Open Scope N_scope.

Theorem C15_number_parse_partial : forall v bytes rest c,
  utf8like v = Ok bytes ->
  p_utf8 (mkRd (bytes ++ rest) 0 c) = Some (v, mkRd rest 0 (c + N.of_nat (length bytes))).
Proof. exact p_utf8_roundtrip. Qed.
Print Assumptions C15_number_parse_partial.
