(* Property C15: the parser inverts the writer.  Statements only; proofs in Proofs/ParserP.v,
   Proofs/ParseResidual.v, Proofs/ParseSubframe.v (on top of BitRead / BitWrite / BitUnary).

   Proved, for components of any size:
     - residuals (any partition order, parameters 0..14, quotients below 2^32, warm-up) and all four
       subframe kinds: the parser, started at ANY bit position of a byte string whose next bits are
       those the component's operations denote, returns the identical component and stops right
       after them (C15_residual, C15_subframe);
     - those operations denote exactly those bits at any position (C15_*_ops_bits), and the byte
       sink exports them zero-padded to a byte (C15_bytes_carry_the_bits);
     - frame / sample numbers below 2^36 through the parser's own decoder (C15_number_parse).
     - FRAMES (C15_frame): for every frame without a precomputed bit stream whose header carries the writer's
       own block-size / sample-rate codes (header_canon: what FrameHeader::new and the encoder produce), with
       verified, correctly sized subframes: the parser on the frame's bytes followed by anything returns the
       identical frame and exactly the remaining bytes (sync, blocking bit, code fields, UTF-8-like number,
       CRC-8, every subframe at its channel's width, return to byte granularity, CRC-16);
     - STREAMS (C15_stream): for every stream with a canonical STREAMINFO (what the parser accepts: the
       documented ranges, or the unset placeholders), any list of further metadata blocks (tag 1..126, below
       2^24 bytes) and canonical frames: parse_stream (stream_bytes s) = Some s - all input is consumed and the
       identical component tree is returned, which therefore re-serialises to exactly the same bytes;
     - EMITTED STREAMS (C15_encoded_stream): for every estimator, MD5 function, configuration (max parameter <= 14),
       rate <= 96000, 1..8 channels, width 8/12/16/20/24, block size 1..32767 and whole number of samples, the
       stream the encoder model returns is such a stream (its frames are canonical, its frame-size bounds fit
       24 bits - by C09's size theorem - or are the unset placeholders when there is no frame), so parsing its
       bytes returns the encoder's own tree; with C01_stream_end_to_end / C01_frame_lossless that tree decodes to
       the input samples.
     - PRECOMPUTED FRAMES (C15_precomputed_stream, C15_par_encoded_stream): a stream whose frames carry a stored bit
       stream that is their own serialisation (what Frame::precompute_bitstream establishes, C15_precompute_coherent,
       and what every worker of the multi-threaded encoder does) is written as the same bytes, and the parser
       returns the same tree without the stored bytes; for the multi-threaded encoder's stream that is the
       single-threaded encoder's tree.
   MODELLED, NOT PROVED: that parser.rs is the parser model and bitrepr.rs the writer model - decided on every run
   by the PARSE and CTOR correspondence streams (implementation parser vs parser model on emitted streams of
   every code class and their mutants; parse consumes all input, verifies, re-serialises to identical bytes,
   decodes to the input). *)
From FV Require Import Model.Base Model.Sink Model.Codes Model.Rice Model.Predict Model.Component Model.Flac Model.Parser Model.Ctor
  Model.Encoder
  Proofs.OpsLen Proofs.ParserP Proofs.BitRead Proofs.BitWrite Proofs.CtorP Proofs.ParseResidual Proofs.ParseSubframe
  Proofs.EncodeFrameE2E Proofs.DecodeStream Proofs.ParseFrame Proofs.ParseFrameCtor Proofs.ParseStream Proofs.ParseEncoded Proofs.BlockHyps Proofs.ParsePrecomputed.
Local Open Scope N_scope.

Theorem C15_number_parse : forall v bytes rest c,
  utf8like v = Ok bytes ->
  p_utf8 (mkRd (bytes ++ rest) 0 c) = Some (v, mkRd rest 0 (c + N.of_nat (length bytes))).
Proof. exact p_utf8_roundtrip. Qed.
Print Assumptions C15_number_parse.

(* reads p bits x := on every well-formed reader whose next bits are `bits` (any offset in a byte, anything
   after them), p returns x, consumes exactly those bits and keeps the reader well-formed *)
Theorem C15_residual : forall r : residual,
  verify_residual r = true -> quot_u32 r ->
  reads (p_residual (r_block r) (r_warmup r)) (ParseResidual.residual_bits r) r.
Proof. exact reads_residual. Qed.
Print Assumptions C15_residual.

Theorem C15_residual_ops_bits : forall (r : residual) (cur : N),
  verify_residual r = true -> ops_bitlist cur (residual_ops r) = ParseResidual.residual_bits r.
Proof. exact residual_ops_bits. Qed.
Print Assumptions C15_residual_ops_bits.

Theorem C15_subframe : forall s : subframe,
  verify_subframe s = true -> sub_typed s -> sub_quot_u32 s ->
  reads (p_subframe (sub_block s) (sub_bps s)) (subframe_bits s) s.
Proof. exact reads_subframe. Qed.
Print Assumptions C15_subframe.

Theorem C15_subframe_ops_bits : forall (s : subframe) (cur : N),
  verify_subframe s = true -> ops_bitlist cur (subframe_ops s) = subframe_bits s.
Proof. exact subframe_ops_bits. Qed.
Print Assumptions C15_subframe_ops_bits.

Theorem C15_bytes_carry_the_bits : forall (ops : list op) (bytes : list N),
  forallb wf_op ops = true -> pack KU8 ops = Ok bytes ->
  Forall (fun x => x < 256) bytes /\
  bytes_bits bytes = ops_bitlist 0 ops ++ repeat false (N.to_nat (pad8 (ops_len 0 ops))).
Proof. exact pack_u8_bits. Qed.
Print Assumptions C15_bytes_carry_the_bits.

(* the ideal bit string of an operation sequence (C11) is the list of bits used above *)
Theorem C15_ideal_bits : forall ops : list op, bstr_bits (ideal_run ops) = ops_bitlist 0 ops.
Proof. exact ideal_run_bits. Qed.
Print Assumptions C15_ideal_bits.

(* ---- frames ---- *)
(* header_canon h bps: h's block-size code is block_size_code (h_block h), 1 <= block <= 65535, its rate code is
   sample_rate_code of some rate below 2^32, its sample-size tag denotes bps (or is 0), number < 2^36 (< 2^32 for
   fixed blocking), channel assignment valid.
   psub_ready block s b: s has block samples of width b, verifies, is typed, quotients are u32. *)
Theorem C15_frame : forall (f : frame) (bytes rest : list N) (channels bps : N),
  f_precomputed f = None -> header_canon (f_header f) bps ->
  chassign_channels (h_ch (f_header f)) = channels -> N.of_nat (length (f_subframes f)) = channels ->
  bps <= Generated.c_MAX_BITS_PER_SAMPLE ->
  (forall i s, nth_error (f_subframes f) i = Some s ->
     psub_ready (h_block (f_header f)) s (bps + bps_offset (h_ch (f_header f)) (N.of_nat i))) ->
  frame_bytes f = Ok bytes -> Forall (fun x => x < 256) rest ->
  p_frame channels bps (bytes ++ rest) = Some (f, rest).
Proof. exact canonical_frame_parses_back. Qed.
Print Assumptions C15_frame.

(* ---- streams ---- *)
Theorem C15_stream : forall (s : stream) (bytes : list N),
  info_canon (s_info s) -> Forall meta_ok (s_meta s) -> si_bps (s_info s) <= Generated.c_MAX_BITS_PER_SAMPLE ->
  Forall (frame_canon (si_channels (s_info s)) (si_bps (s_info s))) (s_frames s) ->
  stream_bytes s = Ok bytes -> parse_stream bytes = Some s.
Proof. exact stream_parses_back. Qed.
Print Assumptions C15_stream.

(* ---- the streams this library emits ---- *)
Theorem C15_encoded_stream :
  forall (ent : N -> N -> N -> N) (qlpc : N -> N -> qparams) (md5 : list N -> list N)
         cfg rate channels bps bs samples s bytes (total : nat),
    encode_stream ent qlpc md5 cfg rate channels bps bs samples = Ok s -> stream_bytes s = Ok bytes ->
    cfg_max_parameter cfg <= 14 -> In bps [8; 12; 16; 20; 24] -> rate <= 96000 -> 1 <= channels <= 8 ->
    1 <= bs <= Generated.c_MAX_BLOCK_SIZE ->
    length samples = (total * N.to_nat channels)%nat -> N.of_nat total < 2 ^ 36 ->
    length (md5 (md5_input bps samples)) = 16%nat -> Forall (fun x => x < 256) (md5 (md5_input bps samples)) ->
    (forall j b, nth_error (chunks (N.to_nat (bs * channels)) samples) j = Some b ->
                 block_hyps qlpc cfg (N.of_nat j) channels bps b (length b / N.to_nat channels)) ->
    parse_stream bytes = Some s.
Proof. exact encoded_stream_parses_back. Qed.
Print Assumptions C15_encoded_stream.

(* the same with the hypotheses reduced to the LPC estimator's answers (none at all when the LPC branch is off) *)
Theorem C15_encoded_stream_lpc :
  forall (ent : N -> N -> N -> N) (qlpc : N -> N -> qparams) (md5 : list N -> list N)
         cfg rate channels bps bs samples s bytes (total : nat),
    encode_stream ent qlpc md5 cfg rate channels bps bs samples = Ok s -> stream_bytes s = Ok bytes ->
    cfg_max_parameter cfg <= 14 -> In bps [8; 12; 16; 20; 24] -> rate <= 96000 -> 1 <= channels <= 8 ->
    1 <= bs <= Generated.c_MAX_BLOCK_SIZE ->
    length samples = (total * N.to_nat channels)%nat -> N.of_nat total < 2 ^ 36 ->
    length (md5 (md5_input bps samples)) = 16%nat -> Forall (fun x => x < 256) (md5 (md5_input bps samples)) ->
    stream_lpc_hyps qlpc cfg channels bs samples ->
    parse_stream bytes = Some s.
Proof. exact encoded_stream_parses_back_lpc. Qed.
Print Assumptions C15_encoded_stream_lpc.

(* "... yields a component tree that verifies": the tree of an emitted stream (which C15_encoded_stream shows the parser
   returns) passes StreamInfo::verify and Frame::verify *)
Theorem C15_encoded_stream_verifies :
  forall (ent : N -> N -> N -> N) (qlpc : N -> N -> qparams) (md5 : list N -> list N)
         cfg rate channels bps bs samples s (total : nat),
    encode_stream ent qlpc md5 cfg rate channels bps bs samples = Ok s ->
    cfg_max_parameter cfg <= 14 -> In bps [8; 12; 16; 20; 24] -> rate <= 96000 -> 1 <= channels <= 8 ->
    1 <= bs <= Generated.c_MAX_BLOCK_SIZE ->
    length samples = (total * N.to_nat channels)%nat ->
    (forall j b, nth_error (chunks (N.to_nat (bs * channels)) samples) j = Some b ->
                 block_hyps qlpc cfg (N.of_nat j) channels bps b (length b / N.to_nat channels)) ->
    verify_streaminfo (s_info s) = true /\ Forall (fun f => verify_frame f = true) (s_frames s).
Proof. exact encoded_stream_verifies. Qed.
Print Assumptions C15_encoded_stream_verifies.

(* ---- frames that carry a precomputed bit stream (the multi-threaded encoder precomputes every frame) ---- *)
Theorem C15_precompute_coherent : forall f f',
  pre_coherent f -> precompute f = Ok f' -> pre_coherent f' /\ strip_frame f' = strip_frame f.
Proof. exact precompute_coherent. Qed.
Print Assumptions C15_precompute_coherent.

Theorem C15_precomputed_stream : forall s bytes,
  info_canon (s_info s) -> Forall meta_ok (s_meta s) -> si_bps (s_info s) <= Generated.c_MAX_BITS_PER_SAMPLE ->
  Forall (fun f => pre_coherent f /\ frame_canon (si_channels (s_info s)) (si_bps (s_info s)) (strip_frame f)) (s_frames s) ->
  stream_bytes s = Ok bytes -> parse_stream bytes = Some (strip_stream s).
Proof. exact precomputed_stream_parses_back. Qed.
Print Assumptions C15_precomputed_stream.

Theorem C15_par_encoded_stream :
  forall (ent : N -> N -> N -> N) (qlpc : N -> N -> qparams) (md5 : list N -> list N)
         cfg rate channels bps bs samples s sp bytes (total : nat),
    encode_stream ent qlpc md5 cfg rate channels bps bs samples = Ok s ->
    precompute_stream s = Ok sp -> stream_bytes sp = Ok bytes ->
    cfg_max_parameter cfg <= 14 -> In bps [8; 12; 16; 20; 24] -> rate <= 96000 -> 1 <= channels <= 8 ->
    1 <= bs <= Generated.c_MAX_BLOCK_SIZE ->
    length samples = (total * N.to_nat channels)%nat -> N.of_nat total < 2 ^ 36 ->
    length (md5 (md5_input bps samples)) = 16%nat -> Forall (fun x => x < 256) (md5 (md5_input bps samples)) ->
    (forall j b, nth_error (chunks (N.to_nat (bs * channels)) samples) j = Some b ->
                 block_hyps qlpc cfg (N.of_nat j) channels bps b (length b / N.to_nat channels)) ->
    stream_bytes s = Ok bytes /\ parse_stream bytes = Some s /\ stream_count_bits sp = stream_count_bits s.
Proof. exact par_encoded_stream. Qed.
Print Assumptions C15_par_encoded_stream.
