(* Property C15: the parser inverts the writer.  Statements only; proofs in Proofs/ParserP.v,
   Proofs/ParseResidual.v, Proofs/ParseSubframe.v (on top of BitRead / BitWrite / BitUnary).

   Proved, for components of any size:
     - residuals (any partition order, parameters 0..14, quotients below 2^32, warm-up) and all four
       subframe kinds: the parser, started at ANY bit position of a byte string whose next bits are
       those the component's operations denote, returns the identical component and stops right
       after them (C15_residual, C15_subframe);
     - those operations denote exactly those bits at any position (C15_*_ops_bits), and the byte
       sink exports them zero-padded to a byte (C15_bytes_carry_the_bits);
     - frame / sample numbers below 2^36 through the parser's own decoder (C15_number_parse).
   PARTIAL: the composition over frame headers (code fields, CRC-8), frames (padding, CRC-16) and the
   stream (marker, metadata) is decided per run on the implementation (parse consumes all input,
   verifies, re-serialises to identical bytes, decodes to the input) and on the parser model by the
   PARSE and CTOR correspondence streams. *)
From FV Require Import Model.Base Model.Sink Model.Codes Model.Rice Model.Predict Model.Component Model.Flac Model.Parser Model.Ctor
  Proofs.OpsLen Proofs.ParserP Proofs.BitRead Proofs.BitWrite Proofs.CtorP Proofs.ParseResidual Proofs.ParseSubframe.
Local Open Scope N_scope.

Theorem C15_number_parse : forall v bytes rest c,
  utf8like v = Ok bytes ->
  p_utf8 (mkRd (bytes ++ rest) 0 c) = Some (v, mkRd rest 0 (c + N.of_nat (length bytes))).
Proof. exact p_utf8_roundtrip. Qed.
Print Assumptions C15_number_parse.

(* reads p bits x := on every well-formed reader whose next bits are `bits` (any offset in a byte, anything
   after them), p returns x, consumes exactly those bits and keeps the reader well-formed *)
Theorem C15_residual : forall r : residual,
  verify_residual r = true -> quot_u32 r ->
  reads (p_residual (r_block r) (r_warmup r)) (ParseResidual.residual_bits r) r.
Proof. exact reads_residual. Qed.
Print Assumptions C15_residual.

Theorem C15_residual_ops_bits : forall (r : residual) (cur : N),
  verify_residual r = true -> ops_bitlist cur (residual_ops r) = ParseResidual.residual_bits r.
Proof. exact residual_ops_bits. Qed.
Print Assumptions C15_residual_ops_bits.

Theorem C15_subframe : forall s : subframe,
  verify_subframe s = true -> sub_typed s -> sub_quot_u32 s ->
  reads (p_subframe (sub_block s) (sub_bps s)) (subframe_bits s) s.
Proof. exact reads_subframe. Qed.
Print Assumptions C15_subframe.

Theorem C15_subframe_ops_bits : forall (s : subframe) (cur : N),
  verify_subframe s = true -> ops_bitlist cur (subframe_ops s) = subframe_bits s.
Proof. exact subframe_ops_bits. Qed.
Print Assumptions C15_subframe_ops_bits.

Theorem C15_bytes_carry_the_bits : forall (ops : list op) (bytes : list N),
  forallb wf_op ops = true -> pack KU8 ops = Ok bytes ->
  Forall (fun x => x < 256) bytes /\
  bytes_bits bytes = ops_bitlist 0 ops ++ repeat false (N.to_nat (pad8 (ops_len 0 ops))).
Proof. exact pack_u8_bits. Qed.
Print Assumptions C15_bytes_carry_the_bits.

(* the ideal bit string of an operation sequence (C11) is the list of bits used above *)
Theorem C15_ideal_bits : forall ops : list op, bstr_bits (ideal_run ops) = ops_bitlist 0 ops.
Proof. exact ideal_run_bits. Qed.
Print Assumptions C15_ideal_bits.
