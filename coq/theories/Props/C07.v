(* Property C07: configuration verification is exact and verified configurations never panic.
   Statements only; proofs in Proofs/ConfigP.v, Proofs/NoPanic.v and Proofs/EncodeTotal.v.
   C07_verify_exact: acceptance <-> documented ranges.  C07_verified_no_panic: the subframe encoder.
   C07_verified_config_encodes / C07_verified_config_lossless: at STREAM level a verified configuration encodes every
   valid input (1..8 channels, width 8..24, in-range samples, block size 1..32767, at most 2^31 blocks) with neither a
   panic nor an error, and the independent strict decoder returns exactly the input.
   PARTIAL: a panic inside the floating-point estimators themselves is outside the model (they are oracles; the
   hypotheses block_hyps name what their answers must satisfy, and the checks measure it on every case). *)
From FV Require Import Generated Model.Base Model.Rice Model.Predict Model.Component Model.Flac Model.Encoder Model.Config
  Proofs.Lossless Proofs.ConfigP Proofs.NoPanic Proofs.EncodeFrameE2E Proofs.DecodeStream Proofs.EncodeTotal Proofs.BlockHyps.
Local Open Scope N_scope.

(* accepted if and only if every field at every nesting level is in its documented range; the
   constants and the delegation graph of `verify` come from Generated.v (regenerated every run) *)
Theorem C07_verify_exact : forall (experimental : bool) (c : config),
  verify experimental c = true <-> in_documented_ranges experimental c.
Proof. exact verify_exact. Qed.
Print Assumptions C07_verify_exact.

(* a verified configuration encodes every valid block without panicking, for every behaviour of
   the entropy estimator; the LPC estimator is constrained only by lpc_oracle_ok (non-negative
   shift, representable residuals, order <= 64), which the checks measure on every case.
   PARTIAL: a panic inside the floating-point estimators themselves is outside the model. *)
Theorem C07_verified_no_panic :
  forall (ent : N -> N -> N -> N) (qlpc : N -> N -> qparams) experimental cfg fi var samples bps,
    verify experimental cfg = true ->
    samples <> [] -> bounded (2 ^ 25) samples -> bps < 30 ->
    (cfg_use_lpc cfg = true -> 64 <= N.of_nat (length samples) -> lpc_oracle_ok (qlpc fi var) samples) ->
    exists sf, encode_subframe ent qlpc cfg fi var samples bps = Ok sf.
Proof. exact encode_subframe_no_panic. Qed.
Print Assumptions C07_verified_no_panic.

(* stream level: no panic, no error *)
Theorem C07_verified_config_encodes :
  forall (ent : N -> N -> N -> N) (qlpc : N -> N -> qparams) (md5 : list N -> list N)
         experimental cfg rate channels bps bs samples (total : nat),
    verify experimental cfg = true -> In bps [8; 12; 16; 20; 24] -> rate < 2 ^ 32 -> 1 <= channels <= 8 ->
    1 <= bs <= c_MAX_BLOCK_SIZE ->
    length samples = (total * N.to_nat channels)%nat -> N.of_nat total < 2 ^ 36 ->
    N.of_nat (length (chunks (N.to_nat (bs * channels)) samples)) <= 2 ^ 31 ->
    samples_ok bps samples = true ->
    length (md5 (md5_input bps samples)) = 16%nat -> Forall (fun x => x < 256) (md5 (md5_input bps samples)) ->
    (forall j b, nth_error (chunks (N.to_nat (bs * channels)) samples) j = Some b ->
                 block_hyps qlpc cfg (N.of_nat j) channels bps b (length b / N.to_nat channels)) ->
    exists bytes, encode_stream_bytes ent qlpc md5 cfg rate channels bps bs samples = Ok bytes.
Proof. exact encode_stream_bytes_total. Qed.
Print Assumptions C07_verified_config_encodes.

(* ... and losslessly: the independent strict decoder returns the STREAMINFO and exactly the input *)
Theorem C07_verified_config_lossless :
  forall (ent : N -> N -> N -> N) (qlpc : N -> N -> qparams) (md5 : list N -> list N)
         experimental cfg rate channels bps bs samples (total : nat),
    verify experimental cfg = true -> In bps [8; 12; 16; 20; 24] -> 1 <= rate < 2 ^ 20 -> 1 <= channels <= 8 ->
    16 <= bs <= c_MAX_BLOCK_SIZE ->
    length samples = (total * N.to_nat channels)%nat -> N.of_nat total < 2 ^ 36 ->
    N.of_nat (length (chunks (N.to_nat (bs * channels)) samples)) <= 2 ^ 31 ->
    samples_ok bps samples = true ->
    length (md5 (md5_input bps samples)) = 16%nat -> Forall (fun x => x < 256) (md5 (md5_input bps samples)) ->
    (forall j b, nth_error (chunks (N.to_nat (bs * channels)) samples) j = Some b ->
                 block_hyps qlpc cfg (N.of_nat j) channels bps b (length b / N.to_nat channels)) ->
    exists bytes minf maxf,
      encode_stream_bytes ent qlpc md5 cfg rate channels bps bs samples = Ok bytes /\
      decode_stream bytes = Some (mkSinfo bs bs minf maxf rate channels bps (N.of_nat total) (md5 (md5_input bps samples)), samples).
Proof. exact verified_config_lossless. Qed.
Print Assumptions C07_verified_config_lossless.

(* the same with the hypotheses reduced to the LPC estimator's answers (see C01_stream_end_to_end_lpc): a verified
   configuration, an input inside the declared width - and, only when the LPC branch is on, verified and fitting
   parameter sets from the estimator *)
Theorem C07_verified_config_lossless_lpc :
  forall (ent : N -> N -> N -> N) (qlpc : N -> N -> qparams) (md5 : list N -> list N)
         experimental cfg rate channels bps bs samples (total : nat),
    verify experimental cfg = true -> In bps [8; 12; 16; 20; 24] -> 1 <= rate < 2 ^ 20 -> 1 <= channels <= 8 ->
    16 <= bs <= c_MAX_BLOCK_SIZE ->
    length samples = (total * N.to_nat channels)%nat -> N.of_nat total < 2 ^ 36 ->
    N.of_nat (length (chunks (N.to_nat (bs * channels)) samples)) <= 2 ^ 31 ->
    samples_ok bps samples = true ->
    length (md5 (md5_input bps samples)) = 16%nat -> Forall (fun x => x < 256) (md5 (md5_input bps samples)) ->
    stream_lpc_hyps qlpc cfg channels bs samples ->
    exists bytes minf maxf,
      encode_stream_bytes ent qlpc md5 cfg rate channels bps bs samples = Ok bytes /\
      decode_stream bytes = Some (mkSinfo bs bs minf maxf rate channels bps (N.of_nat total) (md5 (md5_input bps samples)), samples).
Proof. exact verified_config_lossless_lpc. Qed.
Print Assumptions C07_verified_config_lossless_lpc.
