(* Property C07: configuration verification is exact and verified configurations never panic.
   Statements only; proofs in Proofs/ConfigP.v and Proofs/NoPanic.v. *)
From FV Require Import Model.Base Model.Predict Model.Component Model.Encoder Model.Config
  Proofs.Lossless Proofs.ConfigP Proofs.NoPanic.
Local Open Scope N_scope.

(* accepted if and only if every field at every nesting level is in its documented range; the
   constants and the delegation graph of `verify` come from Generated.v (regenerated every run) *)
Theorem C07_verify_exact : forall (experimental : bool) (c : config),
  verify experimental c = true <-> in_documented_ranges experimental c.
Proof. exact verify_exact. Qed.
Print Assumptions C07_verify_exact.

(* a verified configuration encodes every valid block without panicking, for every behaviour of
   the entropy estimator; the LPC estimator is constrained only by lpc_oracle_ok (non-negative
   shift, representable residuals, order <= 64), which the checks measure on every case.
   PARTIAL: a panic inside the floating-point estimators themselves is outside the model. *)
Theorem C07_verified_no_panic :
  forall (ent : N -> N -> N -> N) (qlpc : N -> N -> qparams) experimental cfg fi var samples bps,
    verify experimental cfg = true ->
    samples <> [] -> bounded (2 ^ 25) samples -> bps < 30 ->
    (cfg_use_lpc cfg = true -> 64 <= N.of_nat (length samples) -> lpc_oracle_ok (qlpc fi var) samples) ->
    exists sf, encode_subframe ent qlpc cfg fi var samples bps = Ok sf.
Proof. exact encode_subframe_no_panic. Qed.
Print Assumptions C07_verified_no_panic.
