(* Property C20: emitted bytes do not depend on optional cargo features.
   Statements only; proofs in Proofs/FeatureP.v.

   The model of the encoder takes no feature parameter, so "same bytes for every feature set" is,
   for the model, the statement that every build refines the same function - which is what the
   correspondence check establishes build by build (four feature sets, same cases, outputs and
   estimator outputs compared with the model and with each other).  What can be PROVED is that
   the two configuration-level entry points of a feature are immaterial:
     - the fields whose default depends on feature `par` do not influence the bytes
       (C20_threading_fields_irrelevant; that the multi-threaded driver itself produces the
       single-threaded result is C05);
     - acceptance of a configuration that enables no experimental option does not depend on
       feature `experimental` (C20_verify_feature_independent).
   The estimators compiled under cfg(feature = "experimental") are floating-point code behind the
   oracles of the model: their agreement across builds is compared, not proved. *)
From FV Require Import Model.Base Model.Predict Model.Encoder Model.Config Proofs.FeatureP.
Local Open Scope N_scope.

Theorem C20_threading_fields_irrelevant :
  forall (ent : N -> N -> N -> N) (qlpc : N -> N -> qparams) (md5 : list N -> list N)
         (c : config) (mt : bool) (w : option N) (rate ch bps bs : N) (samples : list Z),
  encode_stream_bytes ent qlpc md5 (with_threading c mt w) rate ch bps bs samples
  = encode_stream_bytes ent qlpc md5 c rate ch bps bs samples.
Proof. exact stream_ignores_threading. Qed.
Print Assumptions C20_threading_fields_irrelevant.

Theorem C20_verify_feature_independent : forall c : config,
  cfg_use_direct_mse c = false -> cfg_mae_steps c = 0 -> verify true c = verify false c.
Proof. exact verify_ignores_experimental_feature. Qed.
Print Assumptions C20_verify_feature_independent.

Theorem C20_verify_ignores_threading : forall e c mt w, verify e (with_threading c mt w) = verify e c.
Proof. exact verify_ignores_threading. Qed.
Print Assumptions C20_verify_ignores_threading.
