(* Property C19: configuration TOML round-trips and omitted fields take documented defaults.
   Statements only; proofs in Proofs/ConfigP.v.  The model is at document level: the toml text
   grammar and serde's derive expansion are trusted libraries. *)
From FV Require Import Generated Model.Base Model.Encoder Model.Config Proofs.ConfigP.
Local Open Scope N_scope.

Theorem C19_roundtrip : forall c : config, cfg_workers c <> Some 0 -> from_doc (to_doc c) = Ok c.
Proof. exact toml_roundtrip. Qed.
Print Assumptions C19_roundtrip.

Theorem C19_empty_document_is_default : from_doc [] = Ok default_config.
Proof. exact toml_empty_is_default. Qed.
Print Assumptions C19_empty_document_is_default.

Theorem C19_omit_stereo_section : forall c, cfg_workers c <> Some 0 ->
  from_doc (erase K_stereo_coding (to_doc c))
  = Ok (mkCfg (cfg_block_size c) (cfg_multithread c) (cfg_workers c) d_ls d_rs d_ms
              (cfg_use_constant c) (cfg_use_fixed c) (cfg_use_lpc c) (cfg_fixed_max_order c) (cfg_order_sel c)
              (cfg_lpc_order c) (cfg_quant_precision c) (cfg_use_direct_mse c) (cfg_mae_steps c) (cfg_window c)
              (cfg_max_parameter c)).
Proof. exact toml_omit_stereo. Qed.
Print Assumptions C19_omit_stereo_section.

Theorem C19_omit_subframe_section : forall c, cfg_workers c <> Some 0 ->
  from_doc (erase K_subframe_coding (to_doc c))
  = Ok (mkCfg (cfg_block_size c) (cfg_multithread c) (cfg_workers c)
              (cfg_use_leftside c) (cfg_use_rightside c) (cfg_use_midside c)
              d_uc d_uf d_ul d_fo d_order_sel d_lo d_qp d_dm d_ma d_window d_mp).
Proof. exact toml_omit_subframe. Qed.
Print Assumptions C19_omit_subframe_section.

Theorem C19_omit_scalars : forall c,
  from_doc (erase K_workers (erase K_multithread (erase K_block_size (to_doc c))))
  = Ok (mkCfg d_bs d_mt d_workers
              (cfg_use_leftside c) (cfg_use_rightside c) (cfg_use_midside c)
              (cfg_use_constant c) (cfg_use_fixed c) (cfg_use_lpc c) (cfg_fixed_max_order c) (cfg_order_sel c)
              (cfg_lpc_order c) (cfg_quant_precision c) (cfg_use_direct_mse c) (cfg_mae_steps c) (cfg_window c)
              (cfg_max_parameter c)).
Proof. exact toml_omit_scalars. Qed.
Print Assumptions C19_omit_scalars.

Theorem C19_partitions_default :
  get_order_sel [(K_order_sel, TTable [(K_type, TStr S_ApproxEnt)])]
  = Ok (Some c_DEFAULT_ENTROPY_ESTIMATOR_PARTITIONS).
Proof. exact toml_partitions_default. Qed.
Print Assumptions C19_partitions_default.

Theorem C19_verify_agrees : forall experimental d c,
  from_doc d = Ok c -> verify experimental c = true <-> in_documented_ranges experimental c.
Proof. exact toml_verify_agrees. Qed.
Print Assumptions C19_verify_agrees.
