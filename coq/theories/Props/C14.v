(* Property C14: integer and packed-byte sample delivery are equivalent.
   Statements only; proofs in Proofs/SourceP.v. *)
From FV Require Import Model.Base Model.Source Proofs.SourceP.
Local Open Scope N_scope.

(* for every buffer state (channels, capacity, previous contents), every byte width 1..4 and
   every block of in-range samples, filling from bytes is filling from integers *)
Theorem C14_fill_equiv : forall (fb : framebuf) (nb : N) (xs : list Z),
  1 <= nb <= 4 -> Forall (in_width (8 * nb)) xs ->
  fill_le_bytes fb (flat_map (le_bytes_of nb) xs) nb = fill_interleaved fb xs.
Proof. exact fill_equiv. Qed.
Print Assumptions C14_fill_equiv.

(* the MD5 / sample-count context advances identically *)
Theorem C14_context_equiv : forall (c : context) (xs : list Z),
  1 <= cx_nb c <= 4 -> cx_channels c <> 0 ->
  ctx_fill_le_bytes c (flat_map (le_bytes_of (cx_nb c)) xs) (cx_nb c) = Ok (ctx_fill_interleaved c xs).
Proof. exact ctx_fill_equiv. Qed.
Print Assumptions C14_context_equiv.

(* sign-extending conversion inverts the byte serialisation, incl. negative extremes *)
Theorem C14_bytes_roundtrip : forall (nb : N) (xs : list Z),
  1 <= nb <= 4 -> Forall (in_width (8 * nb)) xs ->
  le_bytes_to_i32s (flat_map (le_bytes_of nb) xs) nb = Ok xs.
Proof. exact bytes_roundtrip. Qed.
Print Assumptions C14_bytes_roundtrip.

(* a full block followed by a shorter one: what the encoder reads does not depend on the
   buffer's previous contents (no zero padding is relied upon) *)
Theorem C14_no_stale_data : forall channels size src old1 old2,
  length old1 = (size * channels)%nat -> length old2 = (size * channels)%nat ->
  (length src <= size * channels)%nat ->
  match fill_interleaved (mkFB old1 size channels 0) src, fill_interleaved (mkFB old2 size channels 0) src with
  | Ok a, Ok b => observable a = observable b
  | _, _ => False
  end.
Proof. exact fill_history_independent. Qed.
Print Assumptions C14_no_stale_data.
