(* Property C09: no frame is larger than its verbatim encoding.
   Statements only; proofs in Proofs/EncoderSize.v.  The estimators are arbitrary functions. *)
From FV Require Import Generated Model.Base Model.Codes Model.Predict Model.Component Model.Encoder Proofs.EncoderSize
  Proofs.EncodeFrameE2E Proofs.FrameSizes.
Local Open Scope N_scope.

(* every subframe the encoder returns costs at most the verbatim subframe of the same samples *)
Theorem C09_subframe_le_verbatim :
  forall (ent : N -> N -> N -> N) (qlpc : N -> N -> qparams) cfg fi var samples bps sf,
    samples <> [] ->
    encode_subframe ent qlpc cfg fi var samples bps = Ok sf ->
    subframe_count_bits sf <= verbatim_bits samples bps.
Proof. exact encode_subframe_le_verbatim. Qed.
Print Assumptions C09_subframe_le_verbatim.

(* frame level, including the stereo decision (side channel one bit wider): the subframes need
   no more bits than independent verbatim subframes at the stream's sample width *)
Theorem C09_frame_body_le_verbatim :
  forall (ent : N -> N -> N -> N) (qlpc : N -> N -> qparams) cfg rate channels bps fi number block f,
    encode_frame ent qlpc cfg rate channels bps fi number block = Ok f ->
    Forall (fun c => c <> []) (frame_channels channels block) ->
    f_precomputed f = None /\
    sumN (map subframe_count_bits (f_subframes f))
      <= sumN (map (fun c => verbatim_bits c bps) (frame_channels channels block)).
Proof. exact encode_frame_le_verbatim. Qed.
Print Assumptions C09_frame_body_le_verbatim.

(* hence the reported frame size is at most header + verbatim body + padding + CRC-16 *)
Theorem C09_frame_bits_bound : forall f : frame,
  f_precomputed f = None ->
  frame_count_bits f <= header_count_bits (f_header f)
                        + sumN (map subframe_count_bits (f_subframes f)) + 7 + 16.
Proof. exact frame_bits_le. Qed.
Print Assumptions C09_frame_bits_bound.

(* in BYTES, for the frames the encoder emits: the serialised frame is never longer than its header, verbatim
   subframes of the block (channels * (8 + n * bps) bits), byte padding and the CRC-16 *)
Theorem C09_frame_bytes_le_verbatim :
  forall (ent : N -> N -> N -> N) (qlpc : N -> N -> qparams) cfg rate channels bps fi b f fb (n : nat),
    encode_frame ent qlpc cfg rate channels bps fi fi b = Ok f -> frame_bytes f = Ok fb ->
    cfg_max_parameter cfg <= 14 -> In bps [8; 12; 16; 20; 24] -> rate < 2 ^ 32 -> 1 <= channels <= 8 -> fi < 2 ^ 31 ->
    (1 <= n)%nat -> N.of_nat n <= c_MAX_BLOCK_SIZE -> length b = (n * N.to_nat channels)%nat ->
    block_hyps qlpc cfg fi channels bps b n -> samples_ok bps b = true ->
    8 * N.of_nat (length fb) <= header_count_bits (f_header f) + channels * (8 + N.of_nat n * bps) + 23.
Proof. exact encoded_frame_bytes_le_verbatim. Qed.
Print Assumptions C09_frame_bytes_le_verbatim.
