(* Property C12: a failing user sink yields an error, not a panic, and the accepted bits are a
   prefix of the correct bitstream.  Statements only; proofs in Proofs/FailSinkP.v. *)
From FV Require Import Model.Base Model.Sink Model.Component Model.FailSink Proofs.FailSinkP.

(* for every call index k and every (well-formed) API-level operation sequence of a component:
   the outcome is Err Sink exactly when k is inside the call sequence, never a Panic; the accepted
   calls are the first k calls; their bits are a prefix of the full bitstream *)
Theorem C12_failing_sink : forall (k : nat) (ops : list op),
  forallb wf_op ops = true ->
  let '(res, accepted) := write_failing k ops in
  (res = Err E_SINK \/ res = Ok tt) /\
  (k < length (expand ops) -> res = Err E_SINK)%nat /\
  (length (expand ops) <= k -> res = Ok tt /\ ideal_run accepted = ideal_run ops)%nat /\
  accepted = firstn k (expand ops) /\
  is_prefix (bstr_bits (ideal_run accepted)) (bstr_bits (ideal_run ops)).
Proof. exact failing_sink. Qed.
Print Assumptions C12_failing_sink.

(* the calls a user sink receives through the default methods denote the same bits *)
Theorem C12_expansion_preserves_bits : forall ops b,
  forallb wf_op ops = true -> fold_left ideal_step (expand ops) b = fold_left ideal_step ops b.
Proof. exact expand_ideal. Qed.
Print Assumptions C12_expansion_preserves_bits.
