(* Property C18: public component constructors are total and imply serialisability.
   Statements only; proofs in Proofs/CtorP.v (and, through it, C08's and C11's theorems).

   Proved here, for every argument (unbounded naturals / integers, lists of any length):
     - no constructor has a panicking outcome (C18_total);
     - what a constructor returns passes the verification routine (C18_*_verifies);
     - residuals and all four subframe kinds then serialise on either in-memory sink without a
       panicking outcome to exactly the number of bits they report (C18_residual, C18_subframes).
     - residuals and all four subframe kinds, serialised by the byte sink, are read back by the
       parser model as the identical component (C18_residual_parses_back, C18_subframe_parses_back).
     - frames made by FrameHeader::new + Frame::new, serialised and followed by anything, are read back by the
       parser model as the identical frame (C18_frame_parses_back); a stream made of StreamInfo::new and any
       MetadataBlockData::new_unknown blocks is read back as the identical stream (C18_stream_parses_back);
       both are written in exactly the number of bits they report (C18_frame_count_bits, C18_stream_count_bits).
   MODELLED, NOT PROVED: that datatype.rs / verify.rs / parser.rs are these models - the CTOR stream compares
   every constructor outcome, count_bits, bytes written and parse-back with the model on every run. *)
From FV Require Import Model.Base Model.Sink Model.Rice Model.Predict Model.Component Model.Flac Model.Parser Model.Ctor
  Model.Codes Proofs.CtorP Proofs.ParseResidual Proofs.ParseSubframe Proofs.ParseFrame Proofs.ParseFrameCtor Proofs.ParseStream Proofs.OpsLen Proofs.CountStream.
Local Open Scope N_scope.

Theorem C18_total :
  (forall po block warm params q r site, residual_new po block warm params q r <> Panic site) /\
  (forall coefs order shift prec site, qparams_new coefs order shift prec <> Panic site) /\
  (forall block dc bps site, constant_new block dc bps <> Panic site) /\
  (forall xs bps site, verbatim_new xs bps <> Panic site) /\
  (forall warm res bps site, fixed_new warm res bps <> Panic site) /\
  (forall warm q res bps site, lpc_new warm q res bps <> Panic site) /\
  (forall block cha bps rate variable off site, header_new block cha bps rate variable off <> Panic site) /\
  (forall h subs site, frame_new h subs <> Panic site) /\
  (forall rate ch bps site, streaminfo_ctor rate ch bps <> Panic site) /\
  (forall tag data site, unknown_new tag data <> Panic site).
Proof. exact ctor_total. Qed.
Print Assumptions C18_total.

Theorem C18_residual : forall po block warm params q r res,
  residual_new po block warm params q r = Ok res ->
  verify_residual res = true /\
  forall k, exists snk, run k (residual_ops res) = Ok snk /\ blen snk = residual_count_bits res.
Proof. exact residual_new_sound. Qed.
Print Assumptions C18_residual.

Theorem C18_qparams_verifies : forall coefs order shift prec qp,
  qparams_new coefs order shift prec = Ok qp ->
  qp = mkQ coefs shift prec /\ N.of_nat (length coefs) = order /\ verify_qparams qp = true.
Proof. exact qparams_new_verifies. Qed.
Print Assumptions C18_qparams_verifies.

Theorem C18_subframes :
  (forall block dc bps s, constant_new block dc bps = Ok s -> sub_sound s) /\
  (forall xs bps s, verbatim_new xs bps = Ok s -> sub_sound s) /\
  (forall warm res bps s, fixed_new warm res bps = Ok s -> sub_sound s) /\
  (forall warm qp res bps s, lpc_new warm qp res bps = Ok s -> sub_sound s).
Proof. exact subframe_ctors_sound. Qed.
Print Assumptions C18_subframes.

Theorem C18_frame_verifies : forall h subs f,
  frame_new h subs = Ok f -> f = mkFrame h subs None /\ verify_frame f = true.
Proof. exact frame_new_verifies. Qed.
Print Assumptions C18_frame_verifies.

Theorem C18_streaminfo_verifies : forall rate ch bps i,
  streaminfo_ctor rate ch bps = Ok i ->
  verify_streaminfo i = true /\ si_rate i = rate /\ si_channels i = ch /\ si_bps i = bps.
Proof. exact streaminfo_ctor_verifies. Qed.
Print Assumptions C18_streaminfo_verifies.

(* verification alone (e.g. of a parsed or hand-assembled component) already gives serialisability *)
Theorem C18_verified_subframe_serialises : forall s, sub_typed s -> verify_subframe s = true ->
  forall k, exists snk, run k (subframe_ops s) = Ok snk /\ blen snk = subframe_count_bits s.
Proof. exact subframe_ctor_serialises. Qed.
Print Assumptions C18_verified_subframe_serialises.

(* parse-back: what the byte sink exports for a verified residual / subframe is read back by the parser
   as the identical component.  quot_u32 is the type of the quotients in the code (u32). *)
Theorem C18_residual_parses_back : forall (r : residual) (bytes : list N),
  verify_residual r = true -> quot_u32 r -> pack KU8 (residual_ops r) = Ok bytes ->
  exists r', p_residual (r_block r) (r_warmup r) (rd_of bytes) = Some (r, r').
Proof. exact residual_parse_back. Qed.
Print Assumptions C18_residual_parses_back.

Theorem C18_subframe_parses_back : forall (s : subframe) (bytes : list N),
  verify_subframe s = true -> sub_typed s -> sub_quot_u32 s -> pack KU8 (subframe_ops s) = Ok bytes ->
  exists r', p_subframe (sub_block s) (sub_bps s) (rd_of bytes) = Some (s, r').
Proof. exact subframe_parse_back. Qed.
Print Assumptions C18_subframe_parses_back.

(* FrameHeader::new + Frame::new: the frame, serialised, parses back (bps as u8, rate as u32, frame numbers as u32
   are the argument types of the code) *)
Theorem C18_frame_parses_back :
  forall block cha bps rate variable off h subs f bytes rest,
    header_new block cha bps rate variable off = Ok h -> frame_new h subs = Ok f ->
    bps < 256 -> rate < 2 ^ 32 -> (variable = false -> off < 2 ^ 32) ->
    Forall (fun s => sub_typed s /\ sub_quot_u32 s) subs ->
    frame_bytes f = Ok bytes -> Forall (fun x => x < 256) rest ->
    p_frame (chassign_channels cha) bps (bytes ++ rest) = Some (f, rest).
Proof. exact constructed_frame_parses_back. Qed.
Print Assumptions C18_frame_parses_back.

(* StreamInfo::new + MetadataBlockData::new_unknown *)
Theorem C18_unknown_new_ok : forall tag data m,
  unknown_new tag data = Ok m -> Forall (fun x => x < 256) data -> meta_ok m.
Proof. exact unknown_new_ok. Qed.
Print Assumptions C18_unknown_new_ok.

Theorem C18_stream_parses_back : forall rate ch bps i metas bytes,
  streaminfo_ctor rate ch bps = Ok i -> bps <= 24 -> Forall meta_ok metas ->
  stream_bytes (mkStream i metas []) = Ok bytes -> parse_stream bytes = Some (mkStream i metas []).
Proof. exact constructed_stream_parses_back. Qed.
Print Assumptions C18_stream_parses_back.

(* ... and is written in exactly the number of bits it reports (a whole number of bytes) *)
Theorem C18_frame_count_bits :
  forall block cha bps rate variable off h subs f bytes,
    header_new block cha bps rate variable off = Ok h -> frame_new h subs = Ok f ->
    bps < 256 -> rate < 2 ^ 32 -> (variable = false -> off < 2 ^ 32) ->
    Forall (fun s => sub_typed s /\ sub_quot_u32 s) subs ->
    frame_bytes f = Ok bytes -> 8 * N.of_nat (length bytes) = frame_count_bits f.
Proof. exact constructed_frame_count_bits. Qed.
Print Assumptions C18_frame_count_bits.

(* a stream of StreamInfo::new and any metadata blocks (no frames): the reported count is the number of bits written *)
Theorem C18_stream_count_bits : forall rate ch bps i metas ops,
  streaminfo_ctor rate ch bps = Ok i -> stream_ops (mkStream i metas []) = Ok ops ->
  ops_len 0 ops = stream_count_bits (mkStream i metas []).
Proof. exact constructed_stream_count_bits. Qed.
Print Assumptions C18_stream_count_bits.
