(* Property C16: the parser never panics and never accepts an altered frame.
   Statements only; proofs in Proofs/CrcGen.v, CrcLinear.v, CrcBurst.v, CrcField.v.
   - Totality: the parser model (Model/Parser.v) has no panicking outcome by construction (it
     returns option); that the implementation agrees, including "panic" as an observable verdict,
     is decided by the PARSE stream on every run (after the repairs of D8).
   - Detection: CRC-8 and CRC-16 as used by the frame header / frame footer detect EVERY burst of
     span <= 8 resp. <= 16 bits in messages of any length.  Linearity of the bit-serial register is proved
     algebraically (Proofs/CrcGen.v); the facts about the two registers (no non-zero state steps to zero on a zero
     input; no non-zero window leaves the zero register at zero; loading a value through the data input equals
     starting from it) follow from linear algebra over GF(2): the register maps are additive, an additive map on
     W-bit numbers is determined by the W powers of two, and explicit left-inverse tables are checked on those
     8 / 16 basis vectors (Proofs/CrcLinear.v, Proofs/CrcBurst.v) - no sweep over all 2^16 states.
   - The CRC field itself: the acceptance test "stored field = CRC of the preceding bytes" is equivalent to "the
     remainder of message ++ field is zero" (C16_crc16_accept_iff), hence a burst of span <= 16 (8) bits ANYWHERE in
     message ++ field - inside the message, inside the field, or straddling the boundary - leaves a stored field
     that differs from the CRC of the altered message (C16_crc16_field_bursts, C16_crc8_field_bursts, and at byte
     level for the frame footer as laid out on the wire, C16_footer_bursts).
   - At parser level (Proofs/ParserInv.v): on ARBITRARY bytes, whatever Parser.p_frame accepts as a frame ends with
     the CRC-16 of the bytes before it (C16_accepted_frame_has_valid_crc: an invariant of the bit reader carried through
     every recogniser of the parser), hence a frame altered by a burst of up to 16 bits is never accepted as a frame
     that ends where the original ended (C16_altered_frame_rejected_at_boundary).
   - The same at HEADER level (Proofs/ParserHdrInv.v; the reader invariant extended with the bit position, which shows
     the reader is byte-aligned at the CRC byte on any input): every accepted frame begins with a header that ends with
     the CRC-8 of its own bytes (C16_accepted_frame_has_valid_header_crc), so a header altered by a burst of up to 8
     bits is never accepted as a header of the same length (C16_altered_header_rejected_at_boundary).
   PARTIAL: an alteration that changes how many bits the subframes consume moves the CRC window (the frame then
   ends elsewhere); the format does not exclude an accidental match (probability about 2^-16); those cases are
   enumerated on the implementation by the PARSE stream (exhaustively in the thorough tier). *)
From FV Require Import Model.Base Model.Crc Model.Component Model.Flac Model.Parser Proofs.CrcBurst Proofs.CrcField Proofs.ParserInv Proofs.ParserHdrInv.
Local Open Scope N_scope.

Theorem C16_crc16_detects_bursts : forall (x y : list bool) (i j : nat) (p : list bool),
  length x = length y ->
  zipxor x y = repeat false i ++ p ++ repeat false j ->
  length p = 16%nat -> existsb (fun b => b) p = true ->
  run 16 32773 0 x <> run 16 32773 0 y.
Proof. exact crc16_burst_detected. Qed.
Print Assumptions C16_crc16_detects_bursts.

Theorem C16_crc8_detects_bursts : forall (x y : list bool) (i j : nat) (p : list bool),
  length x = length y ->
  zipxor x y = repeat false i ++ p ++ repeat false j ->
  length p = 8%nat -> existsb (fun b => b) p = true ->
  run 8 7 0 x <> run 8 7 0 y.
Proof. exact crc8_burst_detected. Qed.
Print Assumptions C16_crc8_detects_bursts.

(* the byte-level CRCs of the model are these bit-level remainders *)
Theorem C16_crc_is_bitwise : forall w poly bytes,
  crc w poly bytes = run w poly 0 (flat_map (byte_bits 8) bytes).
Proof. exact crc_is_run. Qed.
Print Assumptions C16_crc_is_bitwise.

(* ---- the stored CRC field ---- *)
Theorem C16_crc16_accept_iff : forall (m : list bool) (c : N), c < 2 ^ 16 ->
  (run 16 32773 0 (m ++ byte_bits 16 c) = 0 <-> c = run 16 32773 0 m).
Proof. exact crc16_accept_iff. Qed.
Print Assumptions C16_crc16_accept_iff.

Theorem C16_crc16_field_bursts : forall (m m' : list bool) (c' : N) (i j : nat) (p : list bool),
  length m = length m' -> c' < 2 ^ 16 ->
  zipxor (m ++ byte_bits 16 (run 16 32773 0 m)) (m' ++ byte_bits 16 c') = repeat false i ++ p ++ repeat false j ->
  length p = 16%nat -> existsb (fun b => b) p = true ->
  c' <> run 16 32773 0 m'.
Proof. exact crc16_field_burst_detected. Qed.
Print Assumptions C16_crc16_field_bursts.

Theorem C16_crc8_field_bursts : forall (m m' : list bool) (c' : N) (i j : nat) (p : list bool),
  length m = length m' -> c' < 2 ^ 8 ->
  zipxor (m ++ byte_bits 8 (run 8 7 0 m)) (m' ++ byte_bits 8 c') = repeat false i ++ p ++ repeat false j ->
  length p = 8%nat -> existsb (fun b => b) p = true ->
  c' <> run 8 7 0 m'.
Proof. exact crc8_field_burst_detected. Qed.
Print Assumptions C16_crc8_field_bursts.

(* the frame footer on the wire: body bytes, then the CRC-16 big-endian; any burst of span <= 16 bits in these
   bytes leaves a footer the parser's comparison rejects *)
Theorem C16_footer_bursts : forall (body body' : list N) (c' : N) (i j : nat) (p : list bool),
  length body = length body' -> c' < 2 ^ 16 ->
  zipxor (bytes_bits8 (body ++ [crc16 body / 256; crc16 body mod 256]))
         (bytes_bits8 (body' ++ [c' / 256; c' mod 256])) = repeat false i ++ p ++ repeat false j ->
  length p = 16%nat -> existsb (fun b => b) p = true ->
  c' <> crc16 body'.
Proof. exact crc16_footer_burst_detected. Qed.
Print Assumptions C16_footer_bursts.

(* ---- the parser on arbitrary bytes ---- *)
Theorem C16_accepted_frame_has_valid_crc :
  forall (start : list N) (channels bps : N) (f : frame) (rest' : list N),
  Forall (fun x => x < 256) start -> p_frame channels bps start = Some (f, rest') ->
  exists L : nat, (L + 2 <= length start)%nat /\ rest' = skipn (L + 2) start /\
                  crc16 (firstn L start) = 256 * nth L start 0 + nth (L + 1) start 0.
Proof. exact p_frame_crc_inv. Qed.
Print Assumptions C16_accepted_frame_has_valid_crc.

(* fb: the bytes of a frame (body, then its CRC-16); fb': the same number of bytes, differing from fb by a burst of at most
   16 bits anywhere; followed by anything.  If the parser accepts a frame at all, it is not one that ends where fb ended. *)
Theorem C16_altered_frame_rejected_at_boundary :
  forall (channels bps : N) (body fb' rest : list N) (i j : nat) (p : list bool) (f' : frame) (rest' : list N),
  let c := crc16 body in
  let fb := body ++ [c / 256; c mod 256] in
  length fb' = length fb -> Forall (fun x => x < 256) fb' -> Forall (fun x => x < 256) rest ->
  zipxor (bytes_bits8 fb) (bytes_bits8 fb') = repeat false i ++ p ++ repeat false j ->
  length p = 16%nat -> existsb (fun b => b) p = true ->
  p_frame channels bps (fb' ++ rest) = Some (f', rest') ->
  length rest' <> length rest.
Proof. exact altered_frame_rejected_at_boundary. Qed.
Print Assumptions C16_altered_frame_rejected_at_boundary.

(* ---- the frame header and its CRC-8 ---- *)
Theorem C16_accepted_frame_has_valid_header_crc :
  forall (start : list N) (channels bps : N) (f : frame) (rest' : list N),
  Forall (fun x => x < 256) start -> p_frame channels bps start = Some (f, rest') ->
  exists H : nat, (4 <= H)%nat /\ (H + 1 <= length start)%nat /\ crc8 (firstn H start) = nth H start 0.
Proof. exact accepted_frame_has_valid_header_crc. Qed.
Print Assumptions C16_accepted_frame_has_valid_header_crc.

(* hb: header bytes followed by their CRC-8; hb': as many bytes, differing from hb by a burst of at most 8 bits anywhere
   (inside the CRC byte or across the boundary included); followed by anything.  If the header recogniser accepts, the
   header it accepted does not end where hb ended. *)
Theorem C16_altered_header_rejected_at_boundary :
  forall (hdr hb' rest : list N) (i j : nat) (p : list bool) (h' : header) (r' : rd),
  let hb := hdr ++ [crc8 hdr] in
  length hb' = length hb -> Forall (fun x => x < 256) hb' -> Forall (fun x => x < 256) rest ->
  zipxor (bytes_bits8 hb) (bytes_bits8 hb') = repeat false i ++ p ++ repeat false j ->
  length p = 8%nat -> existsb (fun b => b) p = true ->
  p_frame_header (hb' ++ rest) (rd_of (hb' ++ rest)) = Some (h', r') ->
  r_cnt r' <> N.of_nat (length hb).
Proof. exact altered_header_rejected_at_boundary. Qed.
Print Assumptions C16_altered_header_rejected_at_boundary.
