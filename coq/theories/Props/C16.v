(* Property C16: the parser never panics and never accepts an altered frame.
   Statements only; proofs in Proofs/CrcBurst.v.
   - Totality: the parser model (Model/Parser.v) has no panicking outcome by construction (it
     returns option); that the implementation agrees, including "panic" as an observable verdict,
     is decided by the PARSE stream on every run (after the repairs of D8).
   - Detection: CRC-8 and CRC-16 as used by the frame header / frame footer detect EVERY burst of
     span <= 8 resp. <= 16 bits in messages of any length (linearity proved algebraically, the
     register facts by complete sweeps over 2^8 / 2^16 states and all 2^8 / 2^16 burst windows).
   PARTIAL: an alteration that changes how many bits the subframes consume moves the CRC window;
   the format does not exclude an accidental match (probability about 2^-16); those cases are
   enumerated on the implementation by the PARSE stream (exhaustively in the thorough tier). *)
From FV Require Import Model.Base Model.Crc Proofs.CrcBurst.
Local Open Scope N_scope.

Theorem C16_crc16_detects_bursts : forall (x y : list bool) (i j : nat) (p : list bool),
  length x = length y ->
  zipxor x y = repeat false i ++ p ++ repeat false j ->
  length p = 16%nat -> existsb (fun b => b) p = true ->
  run 16 32773 0 x <> run 16 32773 0 y.
Proof. exact crc16_burst_detected. Qed.
Print Assumptions C16_crc16_detects_bursts.

Theorem C16_crc8_detects_bursts : forall (x y : list bool) (i j : nat) (p : list bool),
  length x = length y ->
  zipxor x y = repeat false i ++ p ++ repeat false j ->
  length p = 8%nat -> existsb (fun b => b) p = true ->
  run 8 7 0 x <> run 8 7 0 y.
Proof. exact crc8_burst_detected. Qed.
Print Assumptions C16_crc8_detects_bursts.

(* the byte-level CRCs of the model are these bit-level remainders *)
Theorem C16_crc_is_bitwise : forall w poly bytes,
  crc w poly bytes = run w poly 0 (flat_map (byte_bits 8) bytes).
Proof. exact crc_is_run. Qed.
Print Assumptions C16_crc_is_bitwise.
