(* Property C17: invalid arguments to the encoding API produce errors, not panics.
   Statements only; proofs in Proofs/ApiP.v.  Arguments are unbounded naturals (usize), so
   "in range only after integer truncation" is just "large".  Widths 9/13/17/21/25 are accepted by
   the crate (side-channel widths); the property text neither demands nor forbids them, so they
   are excluded from the equivalences below (neutral_width). *)
From FV Require Import Model.Base Model.Api Proofs.ApiP.
Local Open Scope N_scope.

Theorem C17_streaminfo_new : forall rate ch bps,
  streaminfo_new rate ch bps = Ok tt <->
  (rate <= 96000 /\ 1 <= ch <= 8 /\ (supported_width bps = true \/ neutral_width bps = true)).
Proof. exact streaminfo_new_exact. Qed.
Print Assumptions C17_streaminfo_new.

Theorem C17_framebuf_with_size : forall ch size,
  framebuf_with_size ch size = Ok tt <-> (1 <= ch <= 8 /\ 32 <= size <= 32767).
Proof. exact framebuf_with_size_exact. Qed.
Print Assumptions C17_framebuf_with_size.

Theorem C17_fill_interleaved : forall ch cap n, api_fill_interleaved ch cap n = Ok tt <-> n <= ch * cap.
Proof. exact fill_interleaved_exact. Qed.
Print Assumptions C17_fill_interleaved.

Theorem C17_fill_le_bytes_errors : forall ch cap bps len nb,
  (nb = 0 \/ 4 < nb \/ len mod nb <> 0 \/ ch * cap < len / nb \/ (len <> 0 /\ nb <> (bps + 7) / 8)) ->
  exists e, api_fill_le_bytes ch cap bps len nb = Err e.
Proof. exact fill_le_bytes_errors. Qed.
Print Assumptions C17_fill_le_bytes_errors.

Theorem C17_frame_entry : forall fnum inrange,
  api_frame fnum inrange = Ok tt <-> (fnum < 2 ^ 31 /\ inrange = true).
Proof. exact frame_exact. Qed.
Print Assumptions C17_frame_entry.

Theorem C17_stream_entry : forall mt rate ch bps bs inrange,
  neutral_width bps = false ->
  (api_stream mt rate ch bps bs inrange = Ok tt <-> supported_stream rate ch bps bs inrange = true).
Proof. exact stream_entry_errors. Qed.
Print Assumptions C17_stream_entry.

Theorem C17_never_panics :
  (forall rate ch bps site, streaminfo_new rate ch bps <> Panic site) /\
  (forall ch size site, framebuf_with_size ch size <> Panic site) /\
  (forall ch cap n site, api_fill_interleaved ch cap n <> Panic site) /\
  (forall ch cap bps len nb site, api_fill_le_bytes ch cap bps len nb <> Panic site) /\
  (forall f r site, api_frame f r <> Panic site) /\
  (forall mt rate ch bps bs r site, api_stream mt rate ch bps bs r <> Panic site).
Proof. exact api_never_panics. Qed.
Print Assumptions C17_never_panics.
