(* Property C06: par-mode encoding terminates, propagates failures and leaks no threads.
   Statements only; proofs in Proofs/ParP.v (general) and Proofs/ParSmall.v (finite instances).
   Fault plans (a failing read at any index, any set of blocks with out-of-range samples) are part
   of the LTS of Model/Par.v.

   Proved for every number of workers W, every number of blocks, every fault plan, EVERY schedule:
     - no infinite run: each step strictly decreases a potential, so no schedule from the initial
       state is longer than 7*blocks + 4*W + 9 steps (C06_every_schedule_is_short);
     - a run that reaches the final state returns exactly the single-threaded result, in particular
       the same error (configuration error for an out-of-range block met before a failing read,
       source error for a failing read) (C06_failures_propagate);
     - at the final state the feeder is done and every worker and the hashing thread have exited
       (C06_final_no_thread_left).
     - no deadlock: every reachable state that is not final has an enabled step (C06_deadlock_free), so,
       with the potential, every run can be and - whatever the scheduler does - is completed, in
       the final state, with the single-threaded result (C06_reachable_completes).
   These are theorems about the protocol LTS.  That par.rs follows the LTS, real thread exit and
   wall-clock termination are observed on the implementation by the PAR stream (threads alive after
   return, 20 s timeout, panic capture; every recorded event log must be a run of the extracted LTS). *)
From FV Require Import Model.Base Model.Par Proofs.ParSmall Proofs.ParP.

Theorem C06_every_schedule_is_short : forall (p : plan) (ls : list label) (s : pstate),
  run p (init p) ls = Some s -> length ls <= 7 * p_blocks p + 4 * p_workers p + 9.
Proof. exact every_schedule_is_short. Qed.
Print Assumptions C06_every_schedule_is_short.

Theorem C06_potential_decreases : forall (p : plan) (s : pstate) (l : label) (s' : pstate),
  Inv p s -> step p s l = Some s' -> potential p s' < potential p s.
Proof. exact potential_decreases. Qed.
Print Assumptions C06_potential_decreases.

Theorem C06_failures_propagate : forall (p : plan) (ls : list label) (s : pstate),
  1 <= p_workers p -> run p (init p) ls = Some s -> final s = true -> result_of s = seq_result p.
Proof. exact par_refines_seq. Qed.
Print Assumptions C06_failures_propagate.

Theorem C06_final_no_thread_left : forall (p : plan) (ls : list label) (s : pstate),
  run p (init p) ls = Some s -> final s = true ->
  (exists failed, s_f s = FDone failed) /\ forallb is_exit (s_w s) = true /\ s_h s = HExit.
Proof. exact final_no_thread_left. Qed.
Print Assumptions C06_final_no_thread_left.

Theorem C06_deadlock_free : forall (p : plan) (ls : list label) (s : pstate),
  1 <= p_workers p -> run p (init p) ls = Some s -> final s = false -> exists l s', step p s l = Some s'.
Proof. exact deadlock_free. Qed.
Print Assumptions C06_deadlock_free.

Theorem C06_reachable_completes : forall (p : plan) (ls : list label) (s : pstate),
  1 <= p_workers p -> run p (init p) ls = Some s ->
  exists ls' s', run p (init p) (ls ++ ls') = Some s' /\ final s' = true /\ result_of s' = seq_result p.
Proof. exact reachable_completes. Qed.
Print Assumptions C06_reachable_completes.

(* finite instances: all schedules terminate in the sequential outcome and none deadlocks *)
Theorem C06_read_failure_w1 : all_schedules_ok (mkPlan 1 2 (Some 1) (fun _ => false)) 40 = true.
Proof. exact par_w1_b2_readfail. Qed.
Print Assumptions C06_read_failure_w1.

Theorem C06_invalid_block_w1 : all_schedules_ok (mkPlan 1 2 None (fun j => Nat.eqb j 0)) 40 = true.
Proof. exact par_w1_b2_invalid0. Qed.
Print Assumptions C06_invalid_block_w1.
