(* Property C06: par-mode encoding terminates, propagates failures and leaks no threads.
   Statements only.  Fault plans (a failing read, out-of-range blocks) are part of the LTS of
   Model/Par.v.  Proved here: for the named finite instances every schedule terminates, none
   deadlocks, and the caller-visible outcome (Config / Source error) equals the single-threaded
   reference (Proofs/ParSmall.v).  General statement: Proofs/ParP.v (status in DESIGN.md).
   Real thread exit, the error kind and absence of hangs are observed on the implementation by the
   PAR stream (threads alive after return, 20 s timeout, panic capture), and every recorded event
   log must be a run of the extracted LTS. *)
From FV Require Import Model.Base Model.Par Proofs.ParSmall.

Theorem C06_read_failure_w1 : all_schedules_ok (mkPlan 1 2 (Some 1) (fun _ => false)) 40 = true.
Proof. exact par_w1_b2_readfail. Qed.
Print Assumptions C06_read_failure_w1.

Theorem C06_invalid_block_w1 : all_schedules_ok (mkPlan 1 2 None (fun j => Nat.eqb j 0)) 40 = true.
Proof. exact par_w1_b2_invalid0. Qed.
Print Assumptions C06_invalid_block_w1.
