(* Property C01: lossless round trip.  Statements only; proofs in Proofs/Lossless.v (meaning of the
   components) and Proofs/DecodeSubframe.v (the independent decoder on the written bits).

   Proved: (a) the subframe / frame the encoder returns MEANS the block it was made from, for every
   estimator; (b) the independent RFC 9639 decoder of Model/Flac.v, started at any bit position on
   the bits a verified subframe serialises to, returns exactly that meaning and stops right after
   them (C01_decoder_reads_subframe), and the byte sink's export of those operations carries those
   bits (C01_bytes_carry_the_bits).
   (c) what the encoder returns passes verification and is representable (C01_encoder_subframes_verify),
   so that, with no verification hypothesis left, the bytes of an encoded subframe decode to the input
   block (C01_subframe_end_to_end).
   (d) frame level: on the bytes of a whole frame followed by anything, the decoder reads the header
   fields (sync, block-size / sample-rate / sample-size codes, channel assignment, coded number,
   CRC-8), every subframe, the zero padding and the CRC-16, and returns the decoded channels and the
   remaining bytes (C01_decoder_reads_frame; frame bodies go through the word sink, whose export carries
   the same bits: C01_word_sink_bytes_carry_the_bits).
   (e) frame end to end (C01_frame_end_to_end): for every estimator, configuration with max parameter <= 14,
   1..8 channels, width 8/12/16/20/24, block of 1..32767 samples in range: the bytes of the frame
   encode_frame returns, followed by anything, are decoded by the independent decoder to exactly the
   channels of the block (all header codes, channel assignment, CRCs and padding included).
   (f) stream end to end (C01_stream_end_to_end): for every estimator, MD5 oracle returning 16 bytes,
   configuration with max parameter <= 14, rate 1..2^20-1, 1..8 channels, width 8/12/16/20/24, block size
   16..32767 and every whole number (< 2^36) of inter-channel samples: the bytes encode_stream_bytes returns
   (marker, STREAMINFO, every frame) are accepted by the independent strict decoder, which returns a
   STREAMINFO with exactly the block size, rate, channels, width, total and MD5 the encoder was given, and
   exactly the input samples, interleaved.  The remaining hypotheses are the named ones on the estimator
   oracle (block_hyps for every block, as in (e)).
   MODELLED, NOT PROVED: that the Rust code is the model (checked on every run by the correspondence streams
   ENC/DLV/DEC, which also execute the extracted decoder on the implementation's bytes). *)
From FV Require Import Model.Base Model.Sink Model.Codes Model.Rice Model.Predict Model.Component Model.Encoder
  Model.Flac Model.Ctor Proofs.Lossless Proofs.BitRead Proofs.BitWrite Proofs.CtorP Proofs.ParseResidual
  Proofs.ParseSubframe Proofs.DecodeSubframe Proofs.EncoderVerifies Proofs.CountBits Proofs.DecodeFrame Proofs.EncodeFrameE2E Proofs.DecodeStream Proofs.EncodeTotal Proofs.BlockHyps Proofs.ParsePrecomputed.
Local Open Scope Z_scope.

(* whatever the estimators answer, the subframe the encoder returns decodes to the block it was
   made from: |samples| <= 2^25 covers 24-bit audio and the 25-bit side channel; the LPC branch
   needs the named hypothesis that its residuals are representable (lpc_fits) *)
Theorem C01_subframe_lossless :
  forall (ent : N -> N -> N -> N) (qlpc : N -> N -> qparams) cfg fi var samples bps sf,
    encode_subframe ent qlpc cfg fi var samples bps = Ok sf ->
    bounded (2 ^ 25) samples ->
    (cfg_use_lpc cfg = true -> lpc_fits (qlpc fi var) samples = true
                               /\ (length (q_coefs (qlpc fi var)) <= length samples)%nat) ->
    decode_sub sf = samples.
Proof. exact encode_subframe_lossless. Qed.
Print Assumptions C01_subframe_lossless.

(* frame level, every channel assignment the encoder can choose: decoding the subframes and
   undoing the stereo transform by the RFC rule gives back the channels of the block *)
Theorem C01_frame_lossless :
  forall (ent : N -> N -> N -> N) (qlpc : N -> N -> qparams) cfg rate channels bps fi number block f,
    encode_frame ent qlpc cfg rate channels bps fi number block = Ok f ->
    (1 <= channels <= 8)%N ->
    Forall (bounded (2 ^ 24)) (chans channels block) ->
    (channels = 2%N -> forall l r, chans channels block = [l; r] -> length l = length r) ->
    fit_hyp qlpc cfg fi channels block ->
    exists tag, chassign_tag (h_ch (f_header f)) = Ok tag /\
      undo_stereo tag (map decode_sub (f_subframes f)) = Some (chans channels block).
Proof. exact encode_frame_lossless. Qed.
Print Assumptions C01_frame_lossless.

(* the building blocks, each for all inputs *)
Theorem C01_zigzag_inverse : forall v : Z, unzigzag (zigzag v) = v.
Proof. exact unzigzag_zigzag. Qed.
Print Assumptions C01_zigzag_inverse.

Theorem C01_fixed_predictors : forall (k : nat) (l : list Z),
  (k <= 4)%nat -> (k <= length l)%nat -> bounded (2 ^ 25) l ->
  fixed_restore k (firstn k l) (skipn k (fixed_errors k l)) = l.
Proof. exact fixed_roundtrip. Qed.
Print Assumptions C01_fixed_predictors.

Theorem C01_midside : forall l r : Z,
  let m := mid l r in let s := side l r in
  let m' := 2 * m + s mod 2 in
  Z.shiftr (m' + s) 1 = l /\ Z.shiftr (m' - s) 1 = r.
Proof. exact midside_inverse. Qed.
Print Assumptions C01_midside.

(* ---- bit level: the independent decoder on what was written ---- *)
Local Open Scope N_scope.

(* `reads p bits x`: on any well-formed reader whose next bits are `bits`, p returns x and stops right
   after them (any byte offset, any following data). *)
Theorem C01_decoder_reads_subframe : forall s : subframe,
  verify_subframe s = true -> sub_typed s -> sub_u_ok s ->
  reads (read_subframe (sub_block s) (sub_bps s)) (subframe_bits s) (decode_sub s).
Proof. exact flac_reads_subframe. Qed.
Print Assumptions C01_decoder_reads_subframe.

(* the operations of a verified subframe denote these bits at any position ... *)
Theorem C01_subframe_ops_are_these_bits : forall (s : subframe) (cur : N),
  verify_subframe s = true -> ops_bitlist cur (subframe_ops s) = subframe_bits s.
Proof. exact subframe_ops_bits. Qed.
Print Assumptions C01_subframe_ops_are_these_bits.

(* ... and the byte sink exports exactly the bits of the operations, zero-padded to a byte *)
Theorem C01_bytes_carry_the_bits : forall (ops : list op) (bytes : list N),
  forallb wf_op ops = true -> pack KU8 ops = Ok bytes ->
  Forall (fun x => x < 256) bytes /\ bytes_bits bytes = ops_bitlist 0 ops ++ repeat false (N.to_nat (Proofs.OpsLen.pad8 (Proofs.OpsLen.ops_len 0 ops))).
Proof. exact pack_u8_bits. Qed.
Print Assumptions C01_bytes_carry_the_bits.

(* end to end for one subframe: encoder output (that verifies) -> bytes -> independent decoder -> the input block *)
Theorem C01_subframe_bytes_decode_to_input :
  forall (ent : N -> N -> N -> N) (qlpc : N -> N -> qparams) cfg fi var samples bps sf bytes,
    encode_subframe ent qlpc cfg fi var samples bps = Ok sf ->
    bounded (2 ^ 25) samples ->
    (cfg_use_lpc cfg = true -> lpc_fits (qlpc fi var) samples = true
                               /\ (length (q_coefs (qlpc fi var)) <= length samples)%nat) ->
    verify_subframe sf = true -> sub_typed sf -> sub_u_ok sf ->
    pack KU8 (subframe_ops sf) = Ok bytes ->
    exists r', read_subframe (sub_block sf) (sub_bps sf) (rd_of bytes) = Some (samples, r').
Proof. exact subframe_bytes_decode_to_input. Qed.
Print Assumptions C01_subframe_bytes_decode_to_input.

(* the subframes the encoder returns verify, respect the capacities of their types and are representable;
   the hypotheses are those of a verified configuration (max parameter), of the supported input domain
   (width, sample range, block length) and of the estimator's answer being a verified parameter set *)
Theorem C01_encoder_subframes_verify :
  forall (ent : N -> N -> N -> N) (qlpc : N -> N -> qparams) cfg fi var samples bps sf,
    encode_subframe ent qlpc cfg fi var samples bps = Ok sf ->
    cfg_max_parameter cfg <= 14 -> bps_ok bps = true ->
    forallb (sample_ok bps) samples = true -> N.of_nat (length samples) <= Generated.c_MAX_BLOCK_SIZE ->
    (cfg_use_lpc cfg = true -> verify_qparams (qlpc fi var) = true /\
        (1 <= length (q_coefs (qlpc fi var)) <= length samples)%nat) ->
    sub_good sf.
Proof. exact encode_subframe_good. Qed.
Print Assumptions C01_encoder_subframes_verify.

Theorem C01_subframe_end_to_end :
  forall (ent : N -> N -> N -> N) (qlpc : N -> N -> qparams) cfg fi var samples bps sf bytes,
    encode_subframe ent qlpc cfg fi var samples bps = Ok sf ->
    cfg_max_parameter cfg <= 14 -> bps_ok bps = true ->
    forallb (sample_ok bps) samples = true -> N.of_nat (length samples) <= Generated.c_MAX_BLOCK_SIZE ->
    (cfg_use_lpc cfg = true ->
       verify_qparams (qlpc fi var) = true /\ (1 <= length (q_coefs (qlpc fi var)) <= length samples)%nat
       /\ lpc_fits (qlpc fi var) samples = true) ->
    pack KU8 (subframe_ops sf) = Ok bytes ->
    exists r', read_subframe (sub_block sf) (sub_bps sf) (rd_of bytes) = Some (samples, r').
Proof. exact subframe_end_to_end. Qed.
Print Assumptions C01_subframe_end_to_end.

(* ---- frame level: the independent decoder on the bytes of a whole frame, followed by anything ---- *)
(* header fields (sync, codes, coded number, CRC-8), every subframe, the zero padding and the CRC-16 are read
   back; the code hypotheses are discharged for the writer's own codes by C01_block_code_reads / C01_rate_code_reads *)
Theorem C01_decoder_reads_frame :
  forall si f bytes rest ctag num rate bps chans,
  let h := f_header f in
  f_precomputed f = None -> frame_ops_wfb f = true -> frame_bytes f = Ok bytes ->
  Forall (fun x => x < 256) rest ->
  h_variable h = false -> chassign_tag (h_ch h) = Ok ctag -> utf8like (h_number h) = Ok num ->
  c_tag (h_bs h) < 16 -> c_tag (h_sr h) < 16 -> h_ss_tag h < 8 ->
  reads (block_of_code (c_tag (h_bs h))) (code_xbits (h_bs h)) (h_block h) ->
  reads (rate_of_code (c_tag (h_sr h)) (i_rate si)) (code_xbits (h_sr h)) rate ->
  bps_of_code (h_ss_tag h) (i_bps si) = Some bps ->
  Forall2 (sub_ready (h_block h)) (f_subframes f) (flac_bpss ctag bps) ->
  undo_stereo ctag (map decode_sub (f_subframes f)) = Some chans ->
  forallb (fun c => forallb (in_range bps) c) chans = true ->
  read_frame si (bytes ++ rest) = Some (mkFH (h_block h) ctag (h_number h) rate bps, chans, rest).
Proof. exact flac_reads_frame. Qed.
Print Assumptions C01_decoder_reads_frame.

Theorem C01_block_code_reads : forall n c,
  block_size_code n = Ok c -> n <= 65535 ->
  reads (block_of_code (c_tag c)) (code_xbits c) n /\ c_tag c < 16 /\ c_xbits c mod 8 = 0.
Proof. exact block_code_reads. Qed.
Print Assumptions C01_block_code_reads.

Theorem C01_rate_code_reads : forall f si_rate,
  si_rate = f ->
  let c := sample_rate_code f in
  reads (rate_of_code (c_tag c) si_rate) (code_xbits c) f /\ c_tag c < 16 /\ c_xbits c mod 8 = 0.
Proof. exact rate_code_reads. Qed.
Print Assumptions C01_rate_code_reads.

(* the word sink (frame bodies) exports the same bits as the byte sink *)
Theorem C01_word_sink_bytes_carry_the_bits : forall (ops : list op) (bytes : list N),
  forallb wf_op ops = true -> pack KU64 ops = Ok bytes ->
  Forall (fun x => x < 256) bytes /\
  bytes_bits bytes = ops_bitlist 0 ops ++ repeat false (N.to_nat (Proofs.OpsLen.pad8 (Proofs.OpsLen.ops_len 0 ops))).
Proof. exact pack_u64_bits. Qed.
Print Assumptions C01_word_sink_bytes_carry_the_bits.

(* ---- one frame, end to end ---- *)
(* block_hyps: every signal the encoder may code for the block (each channel, mid, side) has n samples in range
   of its width, and - when the LPC branch is enabled - the estimator's answer for it is a verified parameter set
   of order 1..n whose residuals are representable (lpc_fits) *)
Theorem C01_frame_end_to_end :
  forall (ent : N -> N -> N -> N) (qlpc : N -> N -> qparams) cfg rate channels bps fi number block f si bytes rest n,
    encode_frame ent qlpc cfg rate channels bps fi number block = Ok f ->
    cfg_max_parameter cfg <= 14 -> In bps [8; 12; 16; 20; 24] -> rate < 2 ^ 32 -> 1 <= channels <= 8 -> number < 2 ^ 36 ->
    (1 <= n)%nat -> N.of_nat n <= Generated.c_MAX_BLOCK_SIZE ->
    block_hyps qlpc cfg fi channels bps block n ->
    Forall (bounded (2 ^ 24)) (chans channels block) ->
    forallb (fun c => forallb (in_range bps) c) (chans channels block) = true ->
    i_rate si = rate -> i_bps si = bps ->
    Forall (fun x => x < 256) rest ->
    frame_bytes f = Ok bytes ->
    exists ctag, read_frame si (bytes ++ rest) = Some (mkFH (N.of_nat n) ctag number (rate mod 2 ^ 32) bps, chans channels block, rest).
Proof. exact frame_end_to_end. Qed.
Print Assumptions C01_frame_end_to_end.

(* the whole stream, through the independent strict decoder *)
Theorem C01_stream_end_to_end :
  forall (ent : N -> N -> N -> N) (qlpc : N -> N -> qparams) (md5 : list N -> list N)
         cfg rate channels bps bs samples bytes (total : nat),
    encode_stream_bytes ent qlpc md5 cfg rate channels bps bs samples = Ok bytes ->
    cfg_max_parameter cfg <= 14 -> In bps [8; 12; 16; 20; 24] -> 1 <= rate < 2 ^ 20 -> 1 <= channels <= 8 ->
    16 <= bs <= Generated.c_MAX_BLOCK_SIZE ->
    length samples = (total * N.to_nat channels)%nat -> N.of_nat total < 2 ^ 36 ->
    length (md5 (md5_input bps samples)) = 16%nat -> Forall (fun x => x < 256) (md5 (md5_input bps samples)) ->
    (forall j b, nth_error (chunks (N.to_nat (bs * channels)) samples) j = Some b ->
                 block_hyps qlpc cfg (N.of_nat j) channels bps b (length b / N.to_nat channels)) ->
    exists minf maxf,
      decode_stream bytes = Some (mkSinfo bs bs minf maxf rate channels bps (N.of_nat total) (md5 (md5_input bps samples)), samples).
Proof. exact stream_end_to_end. Qed.
Print Assumptions C01_stream_end_to_end.

(* the frame-level entry point: its own argument checks (frame number below 2^31, samples inside the declared width)
   supply the range hypotheses of C01_frame_end_to_end *)
Theorem C01_fixed_size_frame_end_to_end :
  forall (ent : N -> N -> N -> N) (qlpc : N -> N -> qparams) cfg rate channels bps fi number block f si bytes rest n,
    encode_fixed_size_frame ent qlpc cfg rate channels bps fi number block = Ok f ->
    cfg_max_parameter cfg <= 14 -> In bps [8; 12; 16; 20; 24] -> rate < 2 ^ 32 -> 1 <= channels <= 8 ->
    (1 <= n)%nat -> N.of_nat n <= Generated.c_MAX_BLOCK_SIZE ->
    block_hyps qlpc cfg fi channels bps block n ->
    i_rate si = rate -> i_bps si = bps ->
    Forall (fun x => x < 256) rest ->
    frame_bytes f = Ok bytes ->
    number < 2 ^ 31 /\
    exists ctag, read_frame si (bytes ++ rest) = Some (mkFH (N.of_nat n) ctag number (rate mod 2 ^ 32) bps, chans channels block, rest).
Proof. exact fixed_size_frame_end_to_end. Qed.
Print Assumptions C01_fixed_size_frame_end_to_end.

(* ---- the same stream theorem with the hypotheses reduced to what is about the LPC estimator ---- *)
(* stream_lpc_hyps qlpc cfg channels bs samples: ONLY when cfg_use_lpc cfg = true, for every block j and every signal
   the encoder may code for it (each channel, mid, side): the estimator's answer qlpc j var is a verified parameter set
   of order 1..length whose residuals are representable (lpc_fits).  Lengths and sample ranges of those signals are
   no longer assumed: they follow from the block (and the block's range from the encoder's own check). *)
Theorem C01_stream_end_to_end_lpc :
  forall (ent : N -> N -> N -> N) (qlpc : N -> N -> qparams) (md5 : list N -> list N)
         cfg rate channels bps bs samples bytes (total : nat),
    encode_stream_bytes ent qlpc md5 cfg rate channels bps bs samples = Ok bytes ->
    cfg_max_parameter cfg <= 14 -> In bps [8; 12; 16; 20; 24] -> 1 <= rate < 2 ^ 20 -> 1 <= channels <= 8 ->
    16 <= bs <= Generated.c_MAX_BLOCK_SIZE ->
    length samples = (total * N.to_nat channels)%nat -> N.of_nat total < 2 ^ 36 ->
    length (md5 (md5_input bps samples)) = 16%nat -> Forall (fun x => x < 256) (md5 (md5_input bps samples)) ->
    stream_lpc_hyps qlpc cfg channels bs samples ->
    exists minf maxf,
      decode_stream bytes = Some (mkSinfo bs bs minf maxf rate channels bps (N.of_nat total) (md5 (md5_input bps samples)), samples).
Proof. exact stream_end_to_end_lpc. Qed.
Print Assumptions C01_stream_end_to_end_lpc.

(* with the LPC branch switched off (constant / fixed / verbatim subframes, all stereo modes) nothing is assumed about
   any estimator: whatever the entropy estimator answers, the stream decodes to the input *)
Theorem C01_stream_end_to_end_no_lpc :
  forall (ent : N -> N -> N -> N) (qlpc : N -> N -> qparams) (md5 : list N -> list N)
         cfg rate channels bps bs samples bytes (total : nat),
    encode_stream_bytes ent qlpc md5 cfg rate channels bps bs samples = Ok bytes ->
    cfg_use_lpc cfg = false ->
    cfg_max_parameter cfg <= 14 -> In bps [8; 12; 16; 20; 24] -> 1 <= rate < 2 ^ 20 -> 1 <= channels <= 8 ->
    16 <= bs <= Generated.c_MAX_BLOCK_SIZE ->
    length samples = (total * N.to_nat channels)%nat -> N.of_nat total < 2 ^ 36 ->
    length (md5 (md5_input bps samples)) = 16%nat -> Forall (fun x => x < 256) (md5 (md5_input bps samples)) ->
    exists minf maxf,
      decode_stream bytes = Some (mkSinfo bs bs minf maxf rate channels bps (N.of_nat total) (md5 (md5_input bps samples)), samples).
Proof. exact stream_end_to_end_no_lpc. Qed.
Print Assumptions C01_stream_end_to_end_no_lpc.

(* "single- and multi-threaded encoding": the stream the multi-threaded encoder assembles (the frames of encode_blocks - C05 -
   each with its bit stream precomputed in a worker) is written as bytes that the independent strict decoder turns back into
   the given STREAMINFO and exactly the input samples, and that pass the strict validator *)
Theorem C01_par_stream_end_to_end :
  forall (ent : N -> N -> N -> N) (qlpc : N -> N -> qparams) (md5 : list N -> list N)
         cfg rate channels bps bs samples s sp bytes (total : nat),
    encode_stream ent qlpc md5 cfg rate channels bps bs samples = Ok s ->
    precompute_stream s = Ok sp -> stream_bytes sp = Ok bytes ->
    cfg_max_parameter cfg <= 14 -> In bps [8; 12; 16; 20; 24] -> 1 <= rate <= 96000 -> 1 <= channels <= 8 ->
    16 <= bs <= Generated.c_MAX_BLOCK_SIZE ->
    length samples = (total * N.to_nat channels)%nat -> N.of_nat total < 2 ^ 36 ->
    length (md5 (md5_input bps samples)) = 16%nat -> Forall (fun x => x < 256) (md5 (md5_input bps samples)) ->
    (forall j b, nth_error (chunks (N.to_nat (bs * channels)) samples) j = Some b ->
                 block_hyps qlpc cfg (N.of_nat j) channels bps b (length b / N.to_nat channels)) ->
    (exists minf maxf,
       decode_stream bytes = Some (mkSinfo bs bs minf maxf rate channels bps (N.of_nat total) (md5 (md5_input bps samples)), samples))
    /\ strict_ok bytes = true.
Proof. exact par_stream_end_to_end. Qed.
Print Assumptions C01_par_stream_end_to_end.
