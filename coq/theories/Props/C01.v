(* Property C01: lossless round trip.  Statements only; proofs in Proofs/Lossless.v.
   PARTIAL with respect to the full property: these theorems are about the meaning of the emitted
   components (what an RFC 9639 decoder reconstructs from the subframe fields); that the bytes
   parse back to these fields is checked on every run by executing the extracted independent
   decoder Flac.decode_stream on the implementation's bytes (see DESIGN.md, C01). *)
From FV Require Import Model.Base Model.Codes Model.Rice Model.Predict Model.Component Model.Encoder
  Model.Flac Proofs.Lossless.
Local Open Scope Z_scope.

(* whatever the estimators answer, the subframe the encoder returns decodes to the block it was
   made from: |samples| <= 2^25 covers 24-bit audio and the 25-bit side channel; the LPC branch
   needs the named hypothesis that its residuals are representable (lpc_fits) *)
Theorem C01_subframe_lossless :
  forall (ent : N -> N -> N -> N) (qlpc : N -> N -> qparams) cfg fi var samples bps sf,
    encode_subframe ent qlpc cfg fi var samples bps = Ok sf ->
    bounded (2 ^ 25) samples ->
    (cfg_use_lpc cfg = true -> lpc_fits (qlpc fi var) samples = true
                               /\ (length (q_coefs (qlpc fi var)) <= length samples)%nat) ->
    decode_sub sf = samples.
Proof. exact encode_subframe_lossless. Qed.
Print Assumptions C01_subframe_lossless.

(* frame level, every channel assignment the encoder can choose: decoding the subframes and
   undoing the stereo transform by the RFC rule gives back the channels of the block *)
Theorem C01_frame_lossless :
  forall (ent : N -> N -> N -> N) (qlpc : N -> N -> qparams) cfg rate channels bps fi number block f,
    encode_frame ent qlpc cfg rate channels bps fi number block = Ok f ->
    (1 <= channels <= 8)%N ->
    Forall (bounded (2 ^ 24)) (chans channels block) ->
    (channels = 2%N -> forall l r, chans channels block = [l; r] -> length l = length r) ->
    fit_hyp qlpc cfg fi channels block ->
    exists tag, chassign_tag (h_ch (f_header f)) = Ok tag /\
      undo_stereo tag (map decode_sub (f_subframes f)) = Some (chans channels block).
Proof. exact encode_frame_lossless. Qed.
Print Assumptions C01_frame_lossless.

(* the building blocks, each for all inputs *)
Theorem C01_zigzag_inverse : forall v : Z, unzigzag (zigzag v) = v.
Proof. exact unzigzag_zigzag. Qed.
Print Assumptions C01_zigzag_inverse.

Theorem C01_fixed_predictors : forall (k : nat) (l : list Z),
  (k <= 4)%nat -> (k <= length l)%nat -> bounded (2 ^ 25) l ->
  fixed_restore k (firstn k l) (skipn k (fixed_errors k l)) = l.
Proof. exact fixed_roundtrip. Qed.
Print Assumptions C01_fixed_predictors.

Theorem C01_midside : forall l r : Z,
  let m := mid l r in let s := side l r in
  let m' := 2 * m + s mod 2 in
  Z.shiftr (m' + s) 1 = l /\ Z.shiftr (m' - s) 1 = r.
Proof. exact midside_inverse. Qed.
Print Assumptions C01_midside.
