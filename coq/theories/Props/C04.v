(* Property C04: STREAMINFO block-size and frame-size bounds are valid and exact.
   Statements only; proofs in Proofs/StreamInfoP.v. *)
From FV Require Import Model.Base Model.Predict Model.Component Model.Encoder Proofs.StreamInfoP.
Local Open Scope N_scope.

Theorem C04_bounds_exact :
  forall (ent : N -> N -> N -> N) (qlpc : N -> N -> qparams) (md5 : list N -> list N)
         cfg rate channels bps bs samples s,
    encode_stream ent qlpc md5 cfg rate channels bps bs samples = Ok s ->
    si_max_block (s_info s) = bs /\ si_min_block (s_info s) = bs /\
    (s_frames s <> [] ->
       In (si_min_frame (s_info s)) (map frame_size_field (s_frames s)) /\
       In (si_max_frame (s_info s)) (map frame_size_field (s_frames s)) /\
       (forall f, In f (s_frames s) ->
          si_min_frame (s_info s) <= frame_size_field f /\ frame_size_field f <= si_max_frame (s_info s))).
Proof.
  intros ent qlpc md5 cfg rate channels bps bs samples s E.
  destruct (streaminfo_of_encoded ent qlpc md5 _ _ _ _ _ _ _ E) as (_ & _ & _ & _ & _ & H6 & H7 & H8).
  repeat split; try assumption; apply H8; assumption.
Qed.
Print Assumptions C04_bounds_exact.
