(* Property C04: STREAMINFO block-size and frame-size bounds are valid and exact.
   Statements only; proofs in Proofs/StreamInfoP.v and Proofs/FrameSizes.v.
   C04_bounds_exact: the accounting in the encoder model.  C04_bounds_match_decoded_frames: the frame lengths the
   INDEPENDENT decoder measures on the emitted bytes (Flac.frame_lengths: bytes consumed per frame) are exactly the
   frames' size fields, so the min / max frame size in STREAMINFO are the smallest / largest frame actually present
   in the byte stream. *)
From FV Require Import Generated Model.Base Model.Rice Model.Predict Model.Component Model.Flac Model.Encoder
  Proofs.StreamInfoP Proofs.EncodeFrameE2E Proofs.FrameSizes Proofs.ParseFrameCtor Proofs.ParsePrecomputed.
Local Open Scope N_scope.

Theorem C04_bounds_exact :
  forall (ent : N -> N -> N -> N) (qlpc : N -> N -> qparams) (md5 : list N -> list N)
         cfg rate channels bps bs samples s,
    encode_stream ent qlpc md5 cfg rate channels bps bs samples = Ok s ->
    si_max_block (s_info s) = bs /\ si_min_block (s_info s) = bs /\
    (s_frames s <> [] ->
       In (si_min_frame (s_info s)) (map frame_size_field (s_frames s)) /\
       In (si_max_frame (s_info s)) (map frame_size_field (s_frames s)) /\
       (forall f, In f (s_frames s) ->
          si_min_frame (s_info s) <= frame_size_field f /\ frame_size_field f <= si_max_frame (s_info s))).
Proof. exact bounds_exact. Qed.
Print Assumptions C04_bounds_exact.

Theorem C04_bounds_match_decoded_frames :
  forall (ent : N -> N -> N -> N) (qlpc : N -> N -> qparams) (md5 : list N -> list N)
         cfg rate channels bps bs samples s bytes (total : nat) si,
    encode_stream ent qlpc md5 cfg rate channels bps bs samples = Ok s -> stream_bytes s = Ok bytes ->
    cfg_max_parameter cfg <= 14 -> In bps [8; 12; 16; 20; 24] -> rate < 2 ^ 32 -> 1 <= channels <= 8 ->
    1 <= bs <= c_MAX_BLOCK_SIZE ->
    length samples = (total * N.to_nat channels)%nat -> N.of_nat total < 2 ^ 36 ->
    length (md5 (md5_input bps samples)) = 16%nat -> Forall (fun x => x < 256) (md5 (md5_input bps samples)) ->
    (forall j b, nth_error (chunks (N.to_nat (bs * channels)) samples) j = Some b ->
                 block_hyps qlpc cfg (N.of_nat j) channels bps b (length b / N.to_nat channels)) ->
    i_rate si = rate -> i_bps si = bps ->
    let payload := skipn 42 bytes in
    frame_lengths (length payload) si payload = Some (map frame_size_field (s_frames s)) /\
    (s_frames s <> [] ->
       In (si_min_frame (s_info s)) (map frame_size_field (s_frames s)) /\
       In (si_max_frame (s_info s)) (map frame_size_field (s_frames s)) /\
       forall x, In x (map frame_size_field (s_frames s)) -> si_min_frame (s_info s) <= x <= si_max_frame (s_info s)).
Proof. exact encoded_frame_lengths. Qed.
Print Assumptions C04_bounds_match_decoded_frames.

(* The multi-threaded path accumulates STREAMINFO from frames whose bit stream is precomputed (it measures the stored
   bytes), the single-threaded path from count_bits of the same frames: the accumulated STREAMINFO is the same, for
   every starting value and every list of frames whose stored bytes are their own serialisation. *)
Theorem C04_precomputed_frames_same_bounds : forall channels bps fs i,
  Forall (fun f => pre_coherent f /\ frame_canon channels bps (strip_frame f)) fs ->
  fold_left update_info fs i = fold_left update_info (map strip_frame fs) i.
Proof. exact precomputed_streaminfo_same. Qed.
Print Assumptions C04_precomputed_frames_same_bounds.
