(* Property C03: STREAMINFO states the true format, sample count and MD5 of the input.
   Statements only; proofs in Proofs/StreamInfoP.v (the encoder model's STREAMINFO) and Proofs/BlockHyps.v (what the
   independent decoder reads back from the emitted bytes).  MD5 and the estimators are arbitrary functions (oracles). *)
From FV Require Import Generated Model.Base Model.Rice Model.Predict Model.Component Model.Flac Model.Encoder
  Proofs.StreamInfoP Proofs.DecodeStream Proofs.BlockHyps.
Local Open Scope N_scope.

Theorem C03_streaminfo_true :
  forall (ent : N -> N -> N -> N) (qlpc : N -> N -> qparams) (md5 : list N -> list N)
         cfg rate channels bps bs samples s,
    encode_stream ent qlpc md5 cfg rate channels bps bs samples = Ok s ->
    si_rate (s_info s) = rate /\ si_channels (s_info s) = channels /\ si_bps (s_info s) = bps /\
    si_total (s_info s) = N.of_nat (length samples) / channels /\
    si_md5 (s_info s) = md5 (md5_input bps samples).
Proof. exact streaminfo_true. Qed.
Print Assumptions C03_streaminfo_true.

(* the digest input does not depend on how the samples are delivered in blocks *)
Theorem C03_md5_split_independent : forall bps (blocks : list (list Z)),
  md5_input bps (concat blocks) = concat (map (md5_input bps) blocks).
Proof. exact md5_input_concat. Qed.
Print Assumptions C03_md5_split_independent.

(* read back from the BYTES by the independent decoder: the STREAMINFO block it parses states the rate, channel count,
   width, number of inter-channel samples and the MD5 of the little-endian sample bytes of exactly the audio it then
   decodes from the frames - which is the input (stream_lpc_hyps: see C01_stream_end_to_end_lpc) *)
Theorem C03_decoded_streaminfo_true :
  forall (ent : N -> N -> N -> N) (qlpc : N -> N -> qparams) (md5 : list N -> list N)
         cfg rate channels bps bs samples bytes (total : nat),
    encode_stream_bytes ent qlpc md5 cfg rate channels bps bs samples = Ok bytes ->
    cfg_max_parameter cfg <= 14 -> In bps [8; 12; 16; 20; 24] -> 1 <= rate < 2 ^ 20 -> 1 <= channels <= 8 ->
    16 <= bs <= c_MAX_BLOCK_SIZE ->
    length samples = (total * N.to_nat channels)%nat -> N.of_nat total < 2 ^ 36 ->
    length (md5 (md5_input bps samples)) = 16%nat -> Forall (fun x => x < 256) (md5 (md5_input bps samples)) ->
    stream_lpc_hyps qlpc cfg channels bs samples ->
    exists si decoded,
      decode_stream bytes = Some (si, decoded) /\ decoded = samples /\
      i_rate si = rate /\ i_channels si = channels /\ i_bps si = bps /\
      i_total si * channels = N.of_nat (length decoded) /\ i_md5 si = md5 (md5_input bps decoded).
Proof. exact decoded_streaminfo_true. Qed.
Print Assumptions C03_decoded_streaminfo_true.
