(* Property C03: STREAMINFO states the true format, sample count and MD5 of the input.
   Statements only; proofs in Proofs/StreamInfoP.v.  MD5 and the estimators are arbitrary
   functions (oracles). *)
From FV Require Import Model.Base Model.Predict Model.Component Model.Encoder Proofs.StreamInfoP.
Local Open Scope N_scope.

Theorem C03_streaminfo_true :
  forall (ent : N -> N -> N -> N) (qlpc : N -> N -> qparams) (md5 : list N -> list N)
         cfg rate channels bps bs samples s,
    encode_stream ent qlpc md5 cfg rate channels bps bs samples = Ok s ->
    si_rate (s_info s) = rate /\ si_channels (s_info s) = channels /\ si_bps (s_info s) = bps /\
    si_total (s_info s) = N.of_nat (length samples) / channels /\
    si_md5 (s_info s) = md5 (md5_input bps samples).
Proof.
  intros ent qlpc md5 cfg rate channels bps bs samples s E.
  destruct (streaminfo_of_encoded ent qlpc md5 _ _ _ _ _ _ _ E) as (H1 & H2 & H3 & H4 & H5 & _).
  repeat split; assumption.
Qed.
Print Assumptions C03_streaminfo_true.

(* the digest input does not depend on how the samples are delivered in blocks *)
Theorem C03_md5_split_independent : forall bps (blocks : list (list Z)),
  md5_input bps (concat blocks) = concat (map (md5_input bps) blocks).
Proof. exact md5_input_concat. Qed.
Print Assumptions C03_md5_split_independent.
