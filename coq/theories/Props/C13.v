(* Property C13: the Rice partitioning chosen by the encoder is cost-optimal.
   Statements only; proofs in Proofs/RiceOpt.v and Proofs/RiceFind.v. *)
From FV Require Import Model.Base Model.Rice Proofs.RiceOpt Proofs.RiceFind.
Local Open Scope N_scope.

(* Search space: partition orders order-j for j = 0..order where `order` is the finest order
   allowed by block divisibility and the minimum partition size max(64, warm-up); parameter
   vectors with one entry <= maxp (and <= 15) per partition.  exact_level is the exact number of
   bits (4-bit parameter + unary quotient + stop bit + remainder, per partition). *)
Theorem C13_rice_optimal : forall errs warmup maxp pr,
  find_prc errs warmup maxp = Ok pr ->
  exists order,
    finest_partition_order (N.of_nat (length errs)) (N.max MIN_PART warmup) = Ok order /\
    let parts := finest_parts errs warmup order in
    exists j, (j <= N.to_nat order)%nat /\ prc_order pr = N.of_nat (N.to_nat order - j) /\
      candidate parts maxp j (prc_ps pr) /\
      prc_bits pr = level_cost scost (coarsen j parts) (prc_ps pr) /\
      (forall j' qs, (j' <= N.to_nat order)%nat -> candidate parts maxp j' qs ->
         exact_level parts j' qs < SAT ->
         prc_bits pr = exact_level parts j (prc_ps pr) /\
         exact_level parts j (prc_ps pr) <= exact_level parts j' qs).
Proof. exact find_prc_optimal. Qed.
Print Assumptions C13_rice_optimal.

(* the cost table of a partition is exactly min(true cost, 2^28-1), and merging two tables gives
   the table of the concatenated partition: the facts the bottom-up search rests on *)
Theorem C13_table_merge_exact : forall a b : list N,
  table_merge (table_from_errors a) (table_from_errors b) = table_from_errors (a ++ b).
Proof. exact table_merge_app. Qed.
Print Assumptions C13_table_merge_exact.

(* the finest order respects divisibility and the minimum partition size *)
Theorem C13_finest_order : forall n m o,
  finest_partition_order n m = Ok o ->
  m <> 0 /\ o <= MAX_PORDER /\ n mod 2 ^ o = 0 /\ m * 2 ^ o <= n /\ m <= n / 2 ^ o.
Proof. exact finest_order_facts. Qed.
Print Assumptions C13_finest_order.
