(* Property C10: encoding is independent of call history and of the calling thread.
   Statements only; proofs in Proofs/ScratchP.v.

   The encoder model (Model/Encoder.v) is a function of (configuration, input, estimator outputs):
   it has no state for a history to live in, and the HIST stream compares it, call by call, with
   the implementation run inside a history and alone on a fresh thread.  What needs PROOF is that the
   places where the code keeps state between calls cannot let it through.  Model/Scratch.v models
   those with the stale contents explicit (Vec::resize keeps the old prefix, SimdVec::resize keeps
   the old vectors, nothing is cleared unless the code clears it), and the theorems below
   quantify over EVERY stale content, not only those a history of calls can produce:
     - Rice parameter finder (errors / ps / min_ps scratch);
     - fixed-predictor error planes (five SimdVec<i32,16>, padding lanes included);
     - window cache: every lookup in every history returns the freshly computed window, because
       the key separates all windows; and any key that identifies two requests leaks (the defect
       D5 repaired: the key used to quantise the Tukey parameter to 16 bits).
     - QLPC error buffer: whatever the reused Vec<i32> held, resize + compute_error leave exactly the residuals
       of the block (C10_qlpc_buffer_ignores_stale_contents; tied by SCR QERR cases: the hook runs compute_error
       on a buffer with explicit stale contents, including the i32 / i64 path boundary).
     - mid/side frame buffer: whatever a stereo FrameBuf held and whatever its previous size, resize +
       fill_stereo_with_iter leave channel slices that are exactly the mid and the side signal
       (C10_ms_buffer_ignores_stale_contents; this model of FrameBuf has no hook of its own, it is tied by the HIST
       stream with poisoned buffers).
   PARTIAL: the estimator's float buffers and the CRC scratch sinks are covered by the HIST stream (natural
   histories and arbitrary poisoned contents, hook poison_scratch), not by a theorem. *)
From FV Require Import Model.Base Model.Rice Model.Predict Model.Scratch Proofs.ScratchP.
Local Open Scope N_scope.

Theorem C10_rice_finder_ignores_stale_scratch :
  forall (st : finder) (errs : list Z) (warmup maxp : N),
  res_snd (sfind st errs warmup maxp) = find_prc errs warmup maxp.
Proof. exact sfind_refines_find_prc. Qed.
Print Assumptions C10_rice_finder_ignores_stale_scratch.

Theorem C10_fixed_planes_ignore_stale_scratch :
  forall (st1 st2 : list simdvec) (signal : list Z), reset_planes st1 signal = reset_planes st2 signal.
Proof. exact reset_planes_stale_independent. Qed.
Print Assumptions C10_fixed_planes_ignore_stale_scratch.

Theorem C10_window_cache_exact :
  forall (V : Type) (compute : option N -> N -> V) (reqs : list (option N * N)),
  Forall (fun r => alpha_dom (fst r) (snd r)) reqs ->
  run_cache V compute exact_key [] reqs = map (fun r => compute (fst r) (snd r)) reqs.
Proof. exact window_cache_exact. Qed.
Print Assumptions C10_window_cache_exact.

Theorem C10_colliding_key_leaks :
  forall (V : Type) (compute : option N -> N -> V) (key : option N -> N -> N * N) w1 s1 w2 s2,
  key w1 s1 = key w2 s2 ->
  run_cache V compute key [] [(w1, s1); (w2, s2)] = [compute w1 s1; compute w1 s1].
Proof. exact colliding_key_leaks. Qed.
Print Assumptions C10_colliding_key_leaks.

Theorem C10_qlpc_buffer_ignores_stale_contents :
  forall (stale : list Z) (q : qparams) (signal : list Z),
  qlpc_error_buffer stale q signal = lpc_errors q signal.
Proof. exact qlpc_buffer_stale_independent. Qed.
Print Assumptions C10_qlpc_buffer_ignores_stale_contents.

Theorem C10_ms_buffer_ignores_stale_contents :
  forall (b : fbuf) (n : nat) (pairs : list (Z * Z)),
  (1 <= fbs_size b)%nat -> length (fbs_samples b) = (2 * fbs_size b)%nat -> (length pairs <= n)%nat ->
  let b' := fbs_fill_stereo pairs (fbs_resize n b) in
  fbs_channel b' 0 = map fst pairs /\ fbs_channel b' 1 = map snd pairs.
Proof. exact ms_buffer_stale_independent. Qed.
Print Assumptions C10_ms_buffer_ignores_stale_contents.
