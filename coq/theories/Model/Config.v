(* Configuration verification (config.rs Verify impls) and the TOML schema of config::Encoder at
   document level (serde derives: container-level default, internally tagged enums, per-field
   default of `partitions`, Option<NonZeroUsize>).  The toml text grammar and serde itself are
   libraries (trusted); what this repo decides is modelled here. *)
From FV Require Import Generated Model.Base Model.Encoder.
Local Open Scope N_scope.

(* f32 bit patterns: (0.0..=1.0).contains(&alpha) *)
Definition alpha_ok (bits : N) : bool := (bits <=? 1065353216) || (bits =? 2147483648).
Definition alpha_is_nan (bits : N) : bool := 2139095040 <? bits mod 2147483648.

Definition in_range (lo x hi : N) : bool := (lo <=? x) && (x <=? hi).

(* Verify for Encoder and everything below it; `experimental` = the cargo feature *)
Definition verify_window (w : option N) : bool :=
  match w with None => true | Some bits => alpha_ok bits end.

Definition verify_order_sel (o : option N) : bool :=
  match o with None => true | Some parts => in_range 1 parts c_MAX_ENTROPY_ESTIMATOR_PARTITIONS end.

Definition verify_fixed (c : config) : bool :=
  (cfg_fixed_max_order c <=? c_FIXED_MAX_LPC_ORDER)
  && (if deleg_Fixed_order_sel then verify_order_sel (cfg_order_sel c) else true).

Definition verify_qlpc (experimental : bool) (c : config) : bool :=
  in_range 1 (cfg_lpc_order c) c_QLPC_MAX_ORDER
  && in_range 1 (cfg_quant_precision c) c_QLPC_MAX_PRECISION
  && (experimental || (negb (cfg_use_direct_mse c) && (cfg_mae_steps c =? 0)))
  && (if deleg_Qlpc_window then verify_window (cfg_window c) else true).

Definition verify_prc (c : config) : bool := cfg_max_parameter c <=? c_RICE_MAX_RICE_PARAMETER.

Definition verify_subframe (experimental : bool) (c : config) : bool :=
  (if deleg_SubFrameCoding_fixed then verify_fixed c else true)
  && (if deleg_SubFrameCoding_qlpc then verify_qlpc experimental c else true)
  && (if deleg_SubFrameCoding_prc then verify_prc c else true).

Definition verify (experimental : bool) (c : config) : bool :=
  in_range c_MIN_BLOCK_SIZE (cfg_block_size c) c_MAX_BLOCK_SIZE
  && (if deleg_Encoder_subframe_coding then verify_subframe experimental c else true).

(* the documented ranges, written from the property text *)
Definition in_documented_ranges (experimental : bool) (c : config) : Prop :=
  32 <= cfg_block_size c <= 32767 /\
  cfg_fixed_max_order c <= 4 /\
  (forall parts, cfg_order_sel c = Some parts -> 1 <= parts <= 64) /\
  1 <= cfg_lpc_order c <= 24 /\
  1 <= cfg_quant_precision c <= 15 /\
  cfg_max_parameter c <= 14 /\
  (forall bits, cfg_window c = Some bits -> alpha_ok bits = true) /\
  (experimental = false -> cfg_use_direct_mse c = false /\ cfg_mae_steps c = 0).

Definition default_config : config :=
  mkCfg d_bs d_mt d_workers d_ls d_rs d_ms d_uc d_uf d_ul d_fo d_order_sel d_lo d_qp d_dm d_ma d_window d_mp.

(* ---- TOML document model ---- *)

Inductive tv :=
| TInt (z : Z) | TBool (b : bool) | TFloat (bits : N) | TStr (s : N) | TTable (kvs : list (N * tv)).

(* key codes *)
Definition K_block_size := 1. Definition K_multithread := 2. Definition K_workers := 3.
Definition K_stereo_coding := 4. Definition K_subframe_coding := 5.
Definition K_use_leftside := 6. Definition K_use_rightside := 7. Definition K_use_midside := 8.
Definition K_use_constant := 9. Definition K_use_fixed := 10. Definition K_use_lpc := 11.
Definition K_fixed := 12. Definition K_qlpc := 13. Definition K_prc := 14.
Definition K_max_order := 15. Definition K_order_sel := 16. Definition K_type := 17. Definition K_partitions := 18.
Definition K_lpc_order := 19. Definition K_quant_precision := 20. Definition K_use_direct_mse := 21.
Definition K_mae_optimization_steps := 22. Definition K_window := 23. Definition K_alpha := 24.
Definition K_max_parameter := 25.
(* string codes *)
Definition S_BitCount := 1. Definition S_ApproxEnt := 2. Definition S_Rectangle := 3. Definition S_Tukey := 4.

Fixpoint lookup (k : N) (kvs : list (N * tv)) : option tv :=
  match kvs with
  | [] => None
  | (k', v) :: r => if k =? k' then Some v else lookup k r
  end.

Definition USIZE_MAX : Z := 18446744073709551615%Z.

(* field readers: missing -> default (serde(default)), wrong type / out of usize -> error *)
Definition get_usize (k : N) (kvs : list (N * tv)) (dflt : N) : Res N :=
  match lookup k kvs with
  | None => Ok dflt
  | Some (TInt z) => if (0 <=? z)%Z then Ok (Z.to_N z) else Err E_CONFIG
  | Some _ => Err E_CONFIG
  end.
Definition get_bool (k : N) (kvs : list (N * tv)) (dflt : bool) : Res bool :=
  match lookup k kvs with
  | None => Ok dflt
  | Some (TBool b) => Ok b
  | Some _ => Err E_CONFIG
  end.
Definition get_table (k : N) (kvs : list (N * tv)) : Res (option (list (N * tv))) :=
  match lookup k kvs with
  | None => Ok None
  | Some (TTable t) => Ok (Some t)
  | Some _ => Err E_CONFIG
  end.

Definition get_order_sel (kvs : list (N * tv)) : Res (option N) :=
  do t <- get_table K_order_sel kvs;
  match t with
  | None => Ok d_order_sel
  | Some t =>
      match lookup K_type t with
      | Some (TStr s) =>
          if s =? S_BitCount then Ok None
          else if s =? S_ApproxEnt then
            do p <- get_usize K_partitions t c_DEFAULT_ENTROPY_ESTIMATOR_PARTITIONS; Ok (Some p)
          else Err E_CONFIG
      | _ => Err E_CONFIG              (* the tag is mandatory *)
      end
  end.

Definition get_window (kvs : list (N * tv)) : Res (option N) :=
  do t <- get_table K_window kvs;
  match t with
  | None => Ok d_window
  | Some t =>
      match lookup K_type t with
      | Some (TStr s) =>
          if s =? S_Rectangle then Ok None
          else if s =? S_Tukey then
            match lookup K_alpha t with
            | Some (TFloat bits) => Ok (Some bits)
            | _ => Err E_CONFIG          (* alpha has no default *)
            end
          else Err E_CONFIG
      | _ => Err E_CONFIG
      end
  end.

Definition sub (t : option (list (N * tv))) : list (N * tv) := match t with Some x => x | None => [] end.

Definition from_doc (d : list (N * tv)) : Res config :=
  do bs <- get_usize K_block_size d d_bs;
  do mt <- get_bool K_multithread d d_mt;
  do w <- (match lookup K_workers d with
           | None => Ok d_workers
           | Some (TInt z) => if (1 <=? z)%Z then Ok (Some (Z.to_N z)) else Err E_CONFIG   (* NonZeroUsize *)
           | Some _ => Err E_CONFIG
           end);
  do st <- get_table K_stereo_coding d; let st := sub st in
  do ls <- get_bool K_use_leftside st d_ls; do rs <- get_bool K_use_rightside st d_rs;
  do ms <- get_bool K_use_midside st d_ms;
  do sf <- get_table K_subframe_coding d; let sf := sub sf in
  do uc <- get_bool K_use_constant sf d_uc; do uf <- get_bool K_use_fixed sf d_uf; do ul <- get_bool K_use_lpc sf d_ul;
  do fx <- get_table K_fixed sf; let fx := sub fx in
  do fo <- get_usize K_max_order fx d_fo;
  do os <- get_order_sel fx;
  do ql <- get_table K_qlpc sf; let ql := sub ql in
  do lo <- get_usize K_lpc_order ql d_lo; do qp <- get_usize K_quant_precision ql d_qp;
  do dm <- get_bool K_use_direct_mse ql d_dm; do ma <- get_usize K_mae_optimization_steps ql d_ma;
  do win <- get_window ql;
  do pr <- get_table K_prc sf; let pr := sub pr in
  do mp <- get_usize K_max_parameter pr d_mp;
  Ok (mkCfg bs mt w ls rs ms uc uf ul fo os lo qp dm ma win mp).

Definition order_sel_doc (o : option N) : tv :=
  match o with
  | None => TTable [(K_type, TStr S_BitCount)]
  | Some p => TTable [(K_type, TStr S_ApproxEnt); (K_partitions, TInt (Z.of_N p))]
  end.
Definition window_doc (w : option N) : tv :=
  match w with
  | None => TTable [(K_type, TStr S_Rectangle)]
  | Some bits => TTable [(K_type, TStr S_Tukey); (K_alpha, TFloat bits)]
  end.

Definition to_doc (c : config) : list (N * tv) :=
  [(K_block_size, TInt (Z.of_N (cfg_block_size c))); (K_multithread, TBool (cfg_multithread c))]
  ++ (match cfg_workers c with Some w => [(K_workers, TInt (Z.of_N w))] | None => [] end)
  ++ [(K_stereo_coding, TTable [(K_use_leftside, TBool (cfg_use_leftside c)); (K_use_rightside, TBool (cfg_use_rightside c));
                                (K_use_midside, TBool (cfg_use_midside c))]);
      (K_subframe_coding, TTable [
         (K_use_constant, TBool (cfg_use_constant c)); (K_use_fixed, TBool (cfg_use_fixed c)); (K_use_lpc, TBool (cfg_use_lpc c));
         (K_fixed, TTable [(K_max_order, TInt (Z.of_N (cfg_fixed_max_order c))); (K_order_sel, order_sel_doc (cfg_order_sel c))]);
         (K_qlpc, TTable [(K_lpc_order, TInt (Z.of_N (cfg_lpc_order c))); (K_quant_precision, TInt (Z.of_N (cfg_quant_precision c)));
                          (K_use_direct_mse, TBool (cfg_use_direct_mse c));
                          (K_mae_optimization_steps, TInt (Z.of_N (cfg_mae_steps c))); (K_window, window_doc (cfg_window c))]);
         (K_prc, TTable [(K_max_parameter, TInt (Z.of_N (cfg_max_parameter c)))])])].
