(* Argument validation of the public entry points (C17): what each entry point checks before it
   does any work, after the repairs of D10.  Arguments are N (Rust usize): values that would only
   become valid after an integer truncation are ordinary large numbers here. *)
From FV Require Import Generated Model.Base.
Local Open Scope N_scope.

Definition bps_verified (b : N) : bool :=
  (c_MIN_BITS_PER_SAMPLE <=? b) && (b <=? c_MAX_BITS_PER_SAMPLE + 1) && ((b mod 4 =? 0) || (b mod 4 =? 1)).

(* StreamInfo::new *)
Definition streaminfo_new (rate ch bps : N) : Res unit :=
  if (96000 <? rate) || (ch <? 1) || (8 <? ch) || (255 <? bps) || negb (bps_verified bps) then Err E_VERIFY
  else Ok tt.

(* FrameBuf::with_size *)
Definition framebuf_with_size (ch size : N) : Res unit :=
  if (ch <? 1) || (c_MAX_CHANNELS <? ch) || (size <? c_MIN_BLOCK_SIZE) || (c_MAX_BLOCK_SIZE <? size) then Err E_VERIFY
  else Ok tt.

(* FrameBuf::fill_interleaved with n samples into a buffer of cap samples per channel *)
Definition api_fill_interleaved (ch cap n : N) : Res unit :=
  if ch * cap <? n then Err E_SOURCE else Ok tt.

(* (FrameBuf, Context)::fill_le_bytes: the buffer first, then the MD5 context *)
Definition api_fill_le_bytes (ch cap declared_bps len nb : N) : Res unit :=
  if (nb =? 0) || (4 <? nb) || negb (len mod nb =? 0) then Err E_SOURCE
  else if ch * cap <? len / nb then Err E_SOURCE
  else if len =? 0 then Ok tt
  else if negb (nb =? (declared_bps + 7) / 8) then Err E_SOURCE
  else Ok tt.

(* encode_fixed_size_frame: frame number, then the sample range *)
Definition api_frame (frame_number : N) (samples_in_range : bool) : Res unit :=
  if 2 ^ 31 <=? frame_number then Err E_RANGE
  else if negb samples_in_range then Err E_VERIFY
  else Ok tt.

(* encode_with_fixed_block_size: single- and multi-threaded prologues, then the per-block checks *)
Definition api_stream (mt : bool) (rate ch bps bs : N) (samples_in_range : bool) : Res unit :=
  do _ <- streaminfo_new rate ch bps;
  do _ <- (if mt then (if c_MAX_BLOCK_SIZE <? bs then Err E_VERIFY else framebuf_with_size ch bs)
           else framebuf_with_size ch bs);
  if negb samples_in_range then Err E_CONFIG else Ok tt.

(* the supported domain, from the property text *)
Definition supported_width (b : N) : bool := (b =? 8) || (b =? 12) || (b =? 16) || (b =? 20) || (b =? 24).
(* widths the crate also accepts (side-channel widths); the property neither demands nor forbids them *)
Definition neutral_width (b : N) : bool := (b =? 9) || (b =? 13) || (b =? 17) || (b =? 21) || (b =? 25).

Definition supported_stream (rate ch bps bs : N) (samples_in_range : bool) : bool :=
  (rate <=? 96000) && (1 <=? ch) && (ch <=? 8) && supported_width bps && (32 <=? bs) && (bs <=? 32767)
  && samples_in_range.
