(* Model of src/bitsink.rs: MemSink<u8>, MemSink<u64>, the default trait methods, and the
   ideal MSB-first bit string they are meant to implement.  Definitions only. *)
From FV Require Import Model.Base.
Local Open Scope N_scope.

(* ------------------------------------------------------------------------------------- *)
(* Ideal MSB-first bit string, represented by (number of bits, value as a big-endian number) *)

Record bstr := mkB { blen_i : N; bval : N }.
Definition bempty : bstr := mkB 0 0.
Definition bapp (a b : bstr) : bstr := mkB (blen_i a + blen_i b) (bval a * 2 ^ blen_i b + bval b).
Definition bfield (n v : N) : bstr := mkB n (v mod 2 ^ n).
Definition bpush (a : bstr) (n v : N) : bstr := bapp a (bfield n v).

(* bits as a list of booleans, MSB first (used to state the bijection with the number view) *)
Fixpoint bits_msb (n : nat) (v : N) : list bool :=
  match n with
  | O => []
  | S k => N.testbit v (N.of_nat k) :: bits_msb k v
  end.
Definition bstr_bits (b : bstr) : list bool := bits_msb (N.to_nat (blen_i b)) (bval b).

(* ------------------------------------------------------------------------------------- *)
(* Sink operations (the public BitSink interface).  w is the operand width in bits. *)

Inductive op :=
| OWrite (w v : N)          (* write::<T>(v) *)
| OMsbs (w v n : N)         (* write_msbs::<T>(v, n) *)
| OLsbs (w v n : N)         (* write_lsbs::<T>(v, n) *)
| OTwoc (v : Z) (n : N)     (* write_twoc(v, n)  (v converted to i64 first) *)
| OZeros (n : N)            (* write_zeros(n) *)
| OAlign                    (* align_to_byte() *)
| OBytes (bs : list N).     (* write_bytes_aligned(bs) *)

Definition wf_width (w : N) : bool := (w =? 8) || (w =? 16) || (w =? 32) || (w =? 64).

Definition wf_op (o : op) : bool :=
  match o with
  | OWrite w v => wf_width w && (v <? 2 ^ w)
  | OMsbs w v n => wf_width w && (v <? 2 ^ w) && (n <=? w)
  | OLsbs w v n => wf_width w && (v <? 2 ^ w) && (n <=? w)
  | OTwoc v n => (1 <=? n) && (n <=? 64) && (- 2 ^ 63 <=? v)%Z && (v <? 2 ^ 63)%Z
  | OZeros n => true
  | OAlign => true
  | OBytes bs => forallb (fun b => b <? 256) bs
  end.

(* the two's-complement field as the code computes it: ((v as i64) << (64-n)) as u64 *)
Definition twoc_shifted (v : Z) (n : N) : N :=
  Z.to_N (Z.modulo (v * ZP2 (Z.of_N (64 - n))) (ZP2 64)).

(* ideal semantics *)
Definition ideal_step (b : bstr) (o : op) : bstr :=
  match o with
  | OWrite w v => bpush b w v
  | OMsbs w v n => bpush b n ((v mod 2 ^ w) / 2 ^ (w - n))
  | OLsbs w v n => bpush b n v
  | OTwoc v n => bpush b n (Z.to_N (Z.modulo v (2 ^ Z.of_N n)))
  | OZeros n => bpush b n 0
  | OAlign => bpush b ((8 - blen_i b mod 8) mod 8) 0
  | OBytes bs =>
      fold_left (fun a x => bpush a 8 x) bs (bpush b ((8 - blen_i b mod 8) mod 8) 0)
  end.
Definition ideal_run (ops : list op) : bstr := fold_left ideal_step ops bempty.

(* ------------------------------------------------------------------------------------- *)
(* Concrete sinks.  `rst` is the storage vector REVERSED (last element first). *)

Record sink := mkSink { rst : list N; blen : N }.
Definition sempty : sink := mkSink [] 0.
Definition storage (s : sink) : list N := rev_append (rst s) [].   (* linear-time reverse *)

(* paddings(): ((!bitlength).wrapping_add(1)) & (BITS-1) *)
Definition pad (W : N) (s : sink) : N := (W - blen s mod W) mod W.

Definition mask_msbs (w v n : N) : N := (DIV2 (MOD2 v w) (w - n)) * P2 (w - n).

(* pushes k bytes taken from the most-significant side of the w-bit value val *)
Fixpoint push_top_bytes (k : nat) (w val : N) (st : list N) : list N :=
  match k with
  | O => st
  | S k' => push_top_bytes k' w (MOD2 (val * 256) w) ((DIV2 val (w - 8)) :: st)
  end.

Definition or_last (site b : N) (st : list N) : Res (list N) :=
  match st with
  | [] => Panic site
  | x :: r => Ok (N.lor x b :: r)
  end.

(* ---- MemSink<u8> (bitsink.rs:512-612) ---- *)

Definition u8_write_msbs (w v n : N) (s : sink) : Res sink :=
  if n =? 0 then Ok s
  else if w <? n then Panic 551          (* T::BITS - n underflows *)
  else
    let r := pad 8 s in
    let bl := blen s + n in
    let val := mask_msbs w v n in
    do (val1, n1, st1, fin) <-
      (if r =? 0 then Ok (val, n, rst s, false)
       else
         do st' <- or_last 555 (MOD2 (DIV2 val (w - r)) 8) (rst s);
         let val' := MOD2 (val * P2 r) w in
         if n <=? r then Ok (val', n, st', true) else Ok (val', n - r, st', false));
    if (fin : bool) then Ok (mkSink st1 bl)
    else
      let btw := n1 / 8 in
      let st2 := push_top_bytes (N.to_nat btw) w val1 st1 in
      let n2 := n1 mod 8 in
      if 0 <? n2 then
        let val2 := MOD2 (val1 * P2 (8 * btw)) w in
        Ok (mkSink ((MOD2 (DIV2 val2 (w - 8)) 8) :: st2) bl)
      else Ok (mkSink st2 bl).

Definition u8_write (w v : N) (s : sink) : Res sink :=
  let nb := blen s + w in
  let tail := pad 8 s in
  do s1 <- (if 0 <? tail then u8_write_msbs w v tail s else Ok s);
  let val := MOD2 ((MOD2 v w) * P2 tail) w in
  Ok (mkSink (push_top_bytes (N.to_nat (w / 8)) w val (rst s1)) nb).

Definition u8_align (s : sink) : sink := mkSink (rst s) (blen s + pad 8 s).

Definition u8_write_bytes (bs : list N) (s : sink) : sink :=
  let s1 := u8_align s in
  mkSink (rev bs ++ rst s1) (blen s1 + 8 * N.of_nat (length bs)).

Definition u8_write_lsbs (w v n : N) (s : sink) : Res sink :=
  if n =? 0 then Ok s
  else if w <? n then Panic 593
  else u8_write_msbs w (MOD2 ((MOD2 v w) * P2 (w - n)) w) n s.

Definition u8_write_zeros (n : N) (s : sink) : sink :=
  let p := pad 8 s in
  if n <=? p then mkSink (rst s) (blen s + n)
  else
    let n' := n - p in
    let bytes := (n' + 7) / 8 in
    mkSink (repeat 0 (N.to_nat bytes) ++ rst s) (blen s + p + n').

(* ---- MemSink<u64> (bitsink.rs:614-702), with the width-0 early return (fix D6) ---- *)

Definition u64_write_msbs_impl (w val n : N) (s : sink) : sink :=
  let r := pad 64 s in
  let bl := blen s + n in
  let val64 := val * P2 (64 - w) in
  let last_setter := DIV2 val64 ((64 - r) mod 64) in      (* wrapping_shr(64 - r) *)
  let val' := MOD2 (val64 * P2 (r mod 64)) 64 in        (* wrapping_shl(r) *)
  let st1 := if r =? 0 then rst s
             else match rst s with [] => [] | x :: t => N.lor x last_setter :: t end in
  let st2 := if r <? n then val' :: st1 else st1 in
  mkSink st2 bl.

Definition u64_write_msbs (w v n : N) (s : sink) : Res sink :=
  if n =? 0 then Ok s
  else if w <? n then Panic 676
  else Ok (u64_write_msbs_impl w (mask_msbs w v n) n s).

Definition u64_write_lsbs (w v n : N) (s : sink) : Res sink :=
  if n =? 0 then Ok s
  else if w <? n then Panic 683
  else Ok (u64_write_msbs_impl w (MOD2 ((MOD2 v w) * P2 (w - n)) w) n s).

Definition u64_write (w v : N) (s : sink) : Res sink := u64_write_msbs w v w s.

Definition u64_align (s : sink) : sink := mkSink (rst s) (blen s + pad 8 s).

Definition u64_write_bytes (bs : list N) (s : sink) : Res sink :=
  foldM (fun a b => u64_write 8 b a) bs (u64_align s).

Definition u64_write_zeros (n : N) (s : sink) : sink :=
  let p := pad 64 s in
  let n' := n - p in                       (* saturating_sub *)
  let elems := (n' + 63) / 64 in
  mkSink (repeat 0 (N.to_nat elems) ++ rst s) (blen s + n).

(* ---- default trait methods, expressed over any implementation of the required ones ---- *)

Section Defaults.
  Variable S : Type.
  Variable r_write : N -> N -> S -> Res S.
  Variable r_msbs : N -> N -> N -> S -> Res S.
  Variable r_align : S -> Res S.

  Definition d_write_twoc (v : Z) (n : N) (s : S) : Res S :=
    if (n =? 0) || (64 <? n) then Panic 215          (* shift amount 64 / usize underflow *)
    else r_msbs 64 (twoc_shifted v n) n s.

  Definition d_write_bytes (bs : list N) (s : S) : Res S :=
    do s1 <- r_align s; foldM (fun a b => r_write 8 b a) bs s1.

  (* while n > 64 { write(0u64); n -= 64 }; write_msbs(0u64, n) — fuel = n/64 + 1 iterations *)
  Fixpoint d_write_zeros_loop (fuel : nat) (n : N) (s : S) : Res S :=
    match fuel with
    | O => r_msbs 64 0 n s
    | Datatypes.S f =>
        if 64 <? n then do s1 <- r_write 64 0 s; d_write_zeros_loop f (n - 64) s1
        else r_msbs 64 0 n s
    end.
  Definition d_write_zeros (n : N) (s : S) : Res S :=
    d_write_zeros_loop (N.to_nat (n / 64)) n s.
End Defaults.

(* ---- one step of each sink kind ---- *)

Inductive kind := KU8 | KU64.

Definition step (k : kind) (s : sink) (o : op) : Res sink :=
  match k, o with
  | KU8, OWrite w v => u8_write w v s
  | KU8, OMsbs w v n => u8_write_msbs w v n s
  | KU8, OLsbs w v n => u8_write_lsbs w v n s
  | KU8, OTwoc v n => d_write_twoc sink u8_write_msbs v n s
  | KU8, OZeros n => Ok (u8_write_zeros n s)
  | KU8, OAlign => Ok (u8_align s)
  | KU8, OBytes bs => Ok (u8_write_bytes bs s)
  | KU64, OWrite w v => u64_write w v s
  | KU64, OMsbs w v n => u64_write_msbs w v n s
  | KU64, OLsbs w v n => u64_write_lsbs w v n s
  | KU64, OTwoc v n => d_write_twoc sink u64_write_msbs v n s
  | KU64, OZeros n => Ok (u64_write_zeros n s)
  | KU64, OAlign => Ok (u64_align s)
  | KU64, OBytes bs => u64_write_bytes bs s
  end.

Definition run (k : kind) (ops : list op) : Res sink := foldM (step k) ops sempty.

(* ---- abstraction ---- *)

Definition wordbits (k : kind) : N := match k with KU8 => 8 | KU64 => 64 end.

(* value of a storage vector (natural order) as one big-endian number *)
Definition sval (W : N) (st : list N) : N := fold_left (fun acc x => acc * 2 ^ W + x) st 0.

Definition abs (k : kind) (s : sink) : bstr :=
  let W := wordbits k in
  let total := W * N.of_nat (length (rst s)) in
  mkB (blen s) (sval W (storage s) / 2 ^ (total - blen s)).

(* representation invariant *)
Definition inv (k : kind) (s : sink) : Prop :=
  let W := wordbits k in
  let total := W * N.of_nat (length (rst s)) in
  blen s <= total /\ total < blen s + W /\
  Forall (fun x => x < 2 ^ W) (rst s) /\
  sval W (storage s) mod 2 ^ (total - blen s) = 0.

(* byte export: write_to_byte_slice into a buffer of exactly ceil(len/8) bytes *)
Fixpoint be_bytes (k : nat) (w val : N) : list N :=
  match k with
  | O => []
  | S k' => (DIV2 val (w - 8)) :: be_bytes k' w (MOD2 (val * 256) w)
  end.
Definition export_bytes (k : kind) (s : sink) : list N :=
  match k with
  | KU8 => storage s
  | KU64 => firstn (N.to_nat ((blen s + 7) / 8)) (flat_map (be_bytes 8 64) (storage s))
  end.

(* ---- a user sink that implements only the four required operations, ideally, and receives
        everything else through the default methods ---- *)

Definition ideal_req_write (w v : N) (b : bstr) : Res bstr := Ok (bpush b w v).
Definition ideal_req_msbs (w v n : N) (b : bstr) : Res bstr :=
  if w <? n then Panic 1 else Ok (bpush b n ((v mod 2 ^ w) / 2 ^ (w - n))).
Definition ideal_req_lsbs (w v n : N) (b : bstr) : Res bstr := Ok (bpush b n v).
Definition ideal_req_align (b : bstr) : Res bstr := Ok (bpush b ((8 - blen_i b mod 8) mod 8) 0).

Definition user_step (b : bstr) (o : op) : Res bstr :=
  match o with
  | OWrite w v => ideal_req_write w v b
  | OMsbs w v n => ideal_req_msbs w v n b
  | OLsbs w v n => ideal_req_lsbs w v n b
  | OTwoc v n => d_write_twoc bstr ideal_req_msbs v n b
  | OZeros n => d_write_zeros bstr ideal_req_write ideal_req_msbs n b
  | OAlign => ideal_req_align b
  | OBytes bs => d_write_bytes bstr ideal_req_write ideal_req_align bs b
  end.
Definition user_run (ops : list op) : Res bstr := foldM user_step ops bempty.
