(* What a user-defined sink (implementing only the required operations) is called with, and the
   outcome of a write when that sink fails at its k-th call (bitrepr.rs error paths). *)
From FV Require Import Model.Base Model.Sink Model.Component.
Local Open Scope N_scope.

(* while n > 64 { write(0u64); n -= 64 }; write_msbs(0u64, n) *)
Fixpoint zeros_calls (fuel : nat) (n : N) : list op :=
  match fuel with
  | O => [OMsbs 64 0 n]
  | S f => if 64 <? n then OWrite 64 0 :: zeros_calls f (n - 64) else [OMsbs 64 0 n]
  end.

(* one API-level operation as the sequence of required-method calls the default methods make *)
Definition expand_op (o : op) : list op :=
  match o with
  | OBytes bs => OAlign :: map (fun b => OWrite 8 b) bs
  | OTwoc v n => [OMsbs 64 (twoc_shifted v n) n]
  | OZeros n => zeros_calls (N.to_nat (n / 64)) n
  | _ => [o]
  end.
Definition expand (ops : list op) : list op := flat_map expand_op ops.

(* the sink fails on call number k (0-based): calls before k are accepted *)
Definition write_failing (k : nat) (ops : list op) : Res unit * list op :=
  let calls := expand ops in
  if Nat.ltb k (length calls) then (Err E_SINK, firstn k calls) else (Ok tt, calls).

Definition stream_write_failing (k : nat) (s : stream) : Res unit * list op :=
  match stream_ops s with
  | Ok ops => write_failing k ops
  | Err e => (Err e, [])
  | Panic p => (Panic p, [])
  end.
