(* Public component constructors (datatype.rs) and the verification routines (verify.rs), after
   the repairs of D11/D12.  Each constructor returns Err or the component it built; there is no
   panicking outcome left.  Arguments are N / Z (Rust usize / i32 / i16 / u32 / u8 values are
   passed as the numbers they denote); the two narrowing casts FrameHeader::new still performs
   before looking at its argument (bits_per_sample as u8, sample_rate as u32) are written out. *)
From FV Require Import Generated Model.Base Model.Sink Model.Crc Model.Codes Model.Rice Model.Predict
  Model.Component Model.Flac Model.Parser.
Local Open Scope N_scope.

Definition bps_ok (b : N) : bool :=
  (c_MIN_BITS_PER_SAMPLE <=? b) && (b <=? c_MAX_BITS_PER_SAMPLE + 1) && ((b mod 4 =? 0) || (b mod 4 =? 1)).

Definition sample_ok (bps : N) (v : Z) : bool :=
  ((- 2 ^ (Z.of_N bps - 1) <=? v) && (v <? 2 ^ (Z.of_N bps - 1)))%Z.

Definition block_ok (n : N) : bool := n <=? c_MAX_BLOCK_SIZE.

(* ---- Verify::verify ---- *)

Fixpoint rems_ok (params : list N) (part : nat) (rs : list N) : bool :=
  match params with
  | [] => match rs with [] => true | _ => false end
  | p :: ps => forallb (fun r => r <? 2 ^ p) (firstn part rs) && rems_ok ps part (skipn part rs)
  end.

Definition verify_residual (r : residual) : bool :=
  let nq := N.of_nat (length (r_quot r)) in
  let pc := 2 ^ r_order r in
  let w := N.to_nat (r_warmup r) in
  (nq =? N.of_nat (length (r_rem r))) && block_ok nq && (nq =? r_block r)
  && (r_order r <=? c_RICE_MAX_PARTITION_ORDER)
  && (N.of_nat (length (r_params r)) =? pc)
  && (pc <=? r_block r) && (r_block r mod pc =? 0)
  && (r_warmup r <=? r_block r / pc)
  && forallb (fun p => p <=? c_RICE_MAX_RICE_PARAMETER) (r_params r)
  && forallb (N.eqb 0) (firstn w (r_quot r)) && forallb (N.eqb 0) (firstn w (r_rem r))
  && rems_ok (r_params r) (N.to_nat (r_block r / pc)) (r_rem r).

Definition verify_qparams (q : qparams) : bool :=
  (q_order q <=? c_QLPC_MAX_ORDER)
  && ((Z.of_N c_QLPC_MIN_SHIFT <=? q_shift q) && (q_shift q <=? Z.of_N c_QLPC_MAX_SHIFT))%Z
  && (1 <=? q_precision q) && (q_precision q <=? c_QLPC_MAX_PRECISION)
  && forallb (sample_ok (q_precision q)) (q_coefs q).

Definition verify_subframe (s : subframe) : bool :=
  match s with
  | SConstant block dc bps => block_ok block && bps_ok bps && sample_ok bps dc
  | SVerbatim xs bps => block_ok (N.of_nat (length xs)) && bps_ok bps && forallb (sample_ok bps) xs
  | SFixed warm res bps =>
      bps_ok bps && forallb (sample_ok bps) warm && (r_warmup res =? N.of_nat (length warm))
      && verify_residual res
  | SLpc warm q res bps =>
      verify_qparams q && (1 <=? N.of_nat (length warm)) && (r_warmup res =? N.of_nat (length warm))
      && bps_ok bps && forallb (sample_ok bps) warm && verify_residual res
  end.

Definition verify_chassign (c : chassign) : bool :=
  match c with Indep n => (1 <=? n) && (n <=? c_MAX_CHANNELS) | _ => true end.

Definition verify_header (h : header) : bool :=
  block_ok (h_block h) && (negb (h_variable h) || (h_number h <? 2 ^ 36)) && verify_chassign (h_ch h).

Definition sub_block (s : subframe) : N :=
  match s with
  | SConstant b _ _ => b
  | SVerbatim xs _ => N.of_nat (length xs)
  | SFixed _ res _ | SLpc _ _ res _ => r_block res
  end.
Definition sub_bps (s : subframe) : N :=
  match s with SConstant _ _ b | SVerbatim _ b | SFixed _ _ b | SLpc _ _ _ b => b end.

Fixpoint subs_consistent (h : header) (ch : N) (subs : list subframe) : bool :=
  match subs with
  | [] => true
  | s :: t =>
      (sub_block s =? h_block h)
      && (match bits_of_ss_tag (h_ss_tag h) with
          | Some b => b + bps_offset (h_ch h) ch =? sub_bps s
          | None => true end)
      && subs_consistent h (ch + 1) t
  end.

(* Frame::verify for a frame without a precomputed bit stream *)
Definition verify_frame (f : frame) : bool :=
  forallb verify_subframe (f_subframes f) && verify_header (f_header f)
  && (N.of_nat (length (f_subframes f)) =? chassign_channels (h_ch (f_header f)))
  && subs_consistent (f_header f) 0 (f_subframes f).

Definition verify_streaminfo (i : streaminfo) : bool :=
  ((si_total i =? 0) ||
   ((si_min_block i <=? si_max_block i) && block_ok (si_min_block i) && block_ok (si_max_block i)
    && (si_min_frame i <=? si_max_frame i)))
  && (si_rate i <=? 96000) && (1 <=? si_channels i) && (si_channels i <=? 8) && bps_ok (si_bps i).

(* ---- constructors ---- *)
Definition guard (b : bool) : Res unit := if b then Ok tt else Err E_VERIFY.

(* Residual::new *)
Definition residual_new (po block warm : N) (params quots rems : list N) : Res residual :=
  do _ <- guard (po <=? c_RICE_MAX_PARTITION_ORDER);
  do _ <- guard (N.of_nat (length params) =? 2 ^ po);
  do _ <- guard (block_ok block);
  let r := mkResidual po block warm params quots rems in
  do _ <- guard (verify_residual r);
  Ok r.

(* QuantizedParameters::new(coefs, order, shift, precision) *)
Definition qparams_new (coefs : list Z) (order : N) (shift : Z) (precision : N) : Res qparams :=
  do _ <- guard (order <=? c_QLPC_MAX_ORDER);
  do _ <- guard (N.of_nat (length coefs) =? order);
  let q := mkQ coefs shift precision in
  do _ <- guard (verify_qparams q);
  Ok q.

Definition constant_new (block : N) (dc : Z) (bps : N) : Res subframe :=
  do _ <- guard (block_ok block);
  do _ <- guard (bps_ok bps);
  do _ <- guard (sample_ok bps dc);
  Ok (SConstant block dc bps).

Definition verbatim_new (xs : list Z) (bps : N) : Res subframe :=
  do _ <- guard (block_ok (N.of_nat (length xs)));
  do _ <- guard (bps_ok bps);
  do _ <- guard (forallb (sample_ok bps) xs);
  Ok (SVerbatim xs bps).

Definition fixed_new (warm : list Z) (res : residual) (bps : N) : Res subframe :=
  do _ <- guard (bps_ok bps);
  do _ <- guard (forallb (sample_ok bps) warm);
  do _ <- guard (N.of_nat (length warm) <=? c_FIXED_MAX_LPC_ORDER);
  let s := SFixed warm res bps in
  do _ <- guard (verify_subframe s);
  Ok s.

Definition lpc_new (warm : list Z) (q : qparams) (res : residual) (bps : N) : Res subframe :=
  do _ <- guard (bps_ok bps);
  do _ <- guard (forallb (sample_ok bps) warm);
  do _ <- guard (N.of_nat (length warm) <=? c_QLPC_MAX_ORDER);
  do _ <- guard (N.of_nat (length warm) =? q_order q);
  let s := SLpc warm q res bps in
  do _ <- guard (verify_subframe s);
  Ok s.

(* FrameHeader::new(block_size, channel_assignment, bits_per_sample, sample_rate, offset) *)
Definition header_new (block : N) (cha : chassign) (bps rate : N) (variable : bool) (off : N) : Res header :=
  do _ <- guard (block_ok block);
  do _ <- guard (1 <=? block);
  do _ <- guard (negb variable || (off <? 2 ^ 36));
  do bcode <- block_size_code block;
  let b8 := bps mod 2 ^ 8 in                       (* bits_per_sample as u8 *)
  let tag := sample_size_tag b8 in
  do _ <- guard (negb (tag =? 0));
  do _ <- guard (negb (b8 =? 32));
  do _ <- guard (verify_chassign cha);
  let sc := sample_rate_code (rate mod 2 ^ 32) in  (* sample_rate as u32 *)
  do _ <- guard (negb (c_tag sc =? 0));
  Ok (mkHeader variable bcode block cha tag sc off).

Definition frame_new (h : header) (subs : list subframe) : Res frame :=
  do _ <- guard (chassign_channels (h_ch h) =? N.of_nat (length subs));
  let f := mkFrame h subs None in
  do _ <- guard (verify_frame f);
  Ok f.

Definition streaminfo_ctor (rate ch bps : N) : Res streaminfo :=
  do _ <- guard (rate <=? 96000);
  do _ <- guard ((1 <=? ch) && (ch <=? 8));
  do _ <- guard (bps <=? 255);
  let i := mkInfo 65535 0 (2 ^ 32 - 1) 0 rate ch bps 0 (repeat 0 16) in
  do _ <- guard (verify_streaminfo i);
  Ok i.

Definition unknown_new (tag : N) (data : list N) : Res (N * list N) :=
  do _ <- guard ((1 <=? tag) && (tag <=? 126));
  do _ <- guard (N.of_nat (length data) <? 2 ^ 24);
  Ok (tag, data).

(* ---- what a caller observes of a constructed component: bits and bytes written ---- *)
Definition written (ops : list op) : Res (N * list N) :=
  do s <- run KU8 ops; Ok (blen s, export_bytes KU8 s).

