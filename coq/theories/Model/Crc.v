(* CRC-8 (poly 0x07, init 0) and CRC-16 (poly 0x8005, init 0), MSB-first, no reflection, no
   final xor: crc::CRC_8_SMBUS and crc::CRC_16_UMTS as used by bitrepr.rs:39-40. *)
From FV Require Import Model.Base.
Local Open Scope N_scope.

(* one message bit into a register of `width` bits; m = 2^width *)
Definition crc_bit (width m poly reg : N) (bit : bool) : N :=
  let top := N.testbit reg (width - 1) in
  let r := (reg * 2) mod m in
  if xorb top bit then N.lxor r poly else r.

Fixpoint crc_bits (width m poly : N) (k : nat) (byte reg : N) : N :=
  match k with
  | O => reg
  | S k' => crc_bits width m poly k' byte (crc_bit width m poly reg (N.testbit byte (N.of_nat k')))
  end.

Definition crc_byte (width m poly reg byte : N) : N := crc_bits width m poly 8 byte reg.
Definition crc (width poly : N) (bytes : list N) : N :=
  let m := 2 ^ width in fold_left (crc_byte width m poly) bytes 0.

Definition crc8 : list N -> N := crc 8 7.
Definition crc16 : list N -> N := crc 16 32773.   (* 0x8005 *)
