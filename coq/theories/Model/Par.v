(* Labelled transition system of the multi-threaded encoder (par.rs, after the repair of D9):
   one feeder (the calling thread), W workers, the hashing thread, and the caller's epilogue.
   Atomicity is that of the hook points (queue operations).  Blocks are identified by their index;
   encoding a block is a function of its index only (C10), so a frame is identified by its number. *)
From FV Require Import Generated Model.Base.

(* fault plan and input size *)
Record plan := mkPlan {
  p_workers : nat;                 (* W >= 1 *)
  p_blocks : nat;                  (* number of non-empty blocks the source can deliver *)
  p_read_fail : option nat;        (* the read with this index (0-based) returns an error *)
  p_invalid : nat -> bool          (* block j holds an out-of-range sample *)
}.

Definition nbuf (p : plan) : nat := N.to_nat c_PAR_FRAMEBUF_MULTIPLICITY * p_workers p.   (* 2W *)
Definition qcap (p : plan) : nat := S (nbuf p).                                             (* 2W + 1 *)
Definition HASH_CAP : nat := 16.

Inductive fpc :=
| FRecv                      (* waiting for a buffer on the refill queue *)
| FRead (b : nat)            (* holds buffer b, about to read block f_next into it *)
| FSend (b : nat)            (* block numbered, about to enqueue b for encoding *)
| FStop (sent : nat) (failed : bool)   (* sending the stop tokens *)
| FDone (failed : bool).     (* feeding finished: Ok / source error *)

Inductive wpc :=
| WRecv
| WEnc (b : nat)             (* holds buffer b, encoding its frame *)
| WPush (n : nat)            (* buffer returned, about to push frame n *)
| WExit.

Inductive hpc := HRecv | HExit.

Inductive mpc :=
| MFeeding                   (* the calling thread is inside feed_fixed_block_size *)
| MStopHash                  (* about to send the stop marker to the hashing thread *)
| MJoinHash | MJoinWorkers
| MFinal.

(* an item of the hashing queue: Some j = bytes of block j, None = empty block (stop marker) *)
Record pstate := mkP {
  s_f : fpc; s_next : nat;                 (* feeder pc, frame_count *)
  s_refill : list nat;                     (* refill queue, head = next to receive *)
  s_encq : list (option nat);              (* encode queue: Some bufid / None = stop token *)
  s_bufs : list (option nat);              (* frame number stored in each buffer *)
  s_w : list wpc;                          (* workers *)
  s_results : list nat;                    (* frame numbers pushed to the sink (the sink sorts) *)
  s_failed : list nat;                     (* frame numbers whose encoding failed *)
  s_hashq : list (option nat); s_hashed : list nat; s_h : hpc;
  s_m : mpc
}.

Definition init (p : plan) : pstate :=
  mkP FRecv 0 (seq 0 (nbuf p)) [] (repeat None (nbuf p)) (repeat WRecv (p_workers p)) [] [] [] [] HRecv MFeeding.

Inductive label :=
| LFRecv | LFRead | LFSend | LFStop | LFDone       (* feeder *)
| LWRecv (w : nat) | LWEnc (w : nat) | LWPush (w : nat)   (* worker w *)
| LHRecv                                                   (* hashing thread *)
| LMStopHash | LMJoinHash | LMJoinWorkers.                 (* epilogue *)

Fixpoint set_nth {A} (l : list A) (i : nat) (x : A) : list A :=
  match l, i with
  | [], _ => []
  | _ :: t, O => x :: t
  | y :: t, S k => y :: set_nth t k x
  end.

Definition read_fails (p : plan) (s : pstate) : bool :=
  match p_read_fail p with Some k => Nat.eqb k (s_next s) | None => false end.

Definition upd_f s f := mkP f (s_next s) (s_refill s) (s_encq s) (s_bufs s) (s_w s) (s_results s) (s_failed s) (s_hashq s) (s_hashed s) (s_h s) (s_m s).
Definition upd_w s i w := mkP (s_f s) (s_next s) (s_refill s) (s_encq s) (s_bufs s) (set_nth (s_w s) i w) (s_results s) (s_failed s) (s_hashq s) (s_hashed s) (s_h s) (s_m s).

Definition step (p : plan) (s : pstate) (l : label) : option pstate :=
  match l with
  | LFRecv =>
      match s_f s, s_refill s with
      | FRecv, b :: r => Some (mkP (FRead b) (s_next s) r (s_encq s) (s_bufs s) (s_w s) (s_results s) (s_failed s) (s_hashq s) (s_hashed s) (s_h s) (s_m s))
      | _, _ => None
      end
  | LFRead =>
      match s_f s with
      | FRead b =>
          if read_fails p s then Some (upd_f s (FStop 0 true))
          else if Nat.ltb (length (s_hashq s)) HASH_CAP then
            if Nat.ltb (s_next s) (p_blocks p) then
              Some (mkP (FSend b) (s_next s) (s_refill s) (s_encq s) (set_nth (s_bufs s) b (Some (s_next s))) (s_w s)
                        (s_results s) (s_failed s) (s_hashq s ++ [Some (s_next s)]) (s_hashed s) (s_h s) (s_m s))
            else
              (* end of input: an empty block reaches the hashing queue; the buffer stays with the feeder *)
              Some (mkP (FStop 0 false) (s_next s) (s_refill s) (s_encq s) (s_bufs s) (s_w s)
                        (s_results s) (s_failed s) (s_hashq s ++ [None]) (s_hashed s) (s_h s) (s_m s))
          else None
      | _ => None
      end
  | LFSend =>
      match s_f s with
      | FSend b =>
          if Nat.ltb (length (s_encq s)) (qcap p) then
            Some (mkP FRecv (S (s_next s)) (s_refill s) (s_encq s ++ [Some b]) (s_bufs s) (s_w s)
                      (s_results s) (s_failed s) (s_hashq s) (s_hashed s) (s_h s) (s_m s))
          else None
      | _ => None
      end
  | LFStop =>
      match s_f s with
      | FStop sent failed =>
          if Nat.ltb sent (p_workers p) then
            if Nat.ltb (length (s_encq s)) (qcap p) then
              Some (mkP (FStop (S sent) failed) (s_next s) (s_refill s) (s_encq s ++ [None]) (s_bufs s) (s_w s)
                        (s_results s) (s_failed s) (s_hashq s) (s_hashed s) (s_h s) (s_m s))
            else None
          else None
      | _ => None
      end
  | LFDone =>
      match s_f s, s_m s with
      | FStop sent failed, MFeeding =>
          if Nat.eqb sent (p_workers p) then
            Some (mkP (FDone failed) (s_next s) (s_refill s) (s_encq s) (s_bufs s) (s_w s)
                      (s_results s) (s_failed s) (s_hashq s) (s_hashed s) (s_h s) MStopHash)
          else None
      | _, _ => None
      end
  | LWRecv i =>
      match nth_error (s_w s) i, s_encq s with
      | Some WRecv, Some b :: r =>
          Some (mkP (s_f s) (s_next s) (s_refill s) r (s_bufs s) (set_nth (s_w s) i (WEnc b)) (s_results s) (s_failed s) (s_hashq s) (s_hashed s) (s_h s) (s_m s))
      | Some WRecv, None :: r =>
          Some (mkP (s_f s) (s_next s) (s_refill s) r (s_bufs s) (set_nth (s_w s) i WExit) (s_results s) (s_failed s) (s_hashq s) (s_hashed s) (s_h s) (s_m s))
      | _, _ => None
      end
  | LWEnc i =>
      match nth_error (s_w s) i with
      | Some (WEnc b) =>
          match nth_error (s_bufs s) b with
          | Some (Some n) =>
              if p_invalid p n then
                (* error: buffer returned, earliest failing frame recorded, back to the queue *)
                Some (mkP (s_f s) (s_next s) (s_refill s ++ [b]) (s_encq s) (s_bufs s) (set_nth (s_w s) i WRecv)
                          (s_results s) (n :: s_failed s) (s_hashq s) (s_hashed s) (s_h s) (s_m s))
              else
                Some (mkP (s_f s) (s_next s) (s_refill s ++ [b]) (s_encq s) (s_bufs s) (set_nth (s_w s) i (WPush n))
                          (s_results s) (s_failed s) (s_hashq s) (s_hashed s) (s_h s) (s_m s))
          | _ => None            (* FRAMENUM_NOT_SET: unreachable, see the invariant *)
          end
      | _ => None
      end
  | LWPush i =>
      match nth_error (s_w s) i with
      | Some (WPush n) =>
          Some (mkP (s_f s) (s_next s) (s_refill s) (s_encq s) (s_bufs s) (set_nth (s_w s) i WRecv)
                    (n :: s_results s) (s_failed s) (s_hashq s) (s_hashed s) (s_h s) (s_m s))
      | _ => None
      end
  | LHRecv =>
      match s_h s, s_hashq s with
      | HRecv, Some j :: r =>
          Some (mkP (s_f s) (s_next s) (s_refill s) (s_encq s) (s_bufs s) (s_w s) (s_results s) (s_failed s) r (s_hashed s ++ [j]) HRecv (s_m s))
      | HRecv, None :: r =>
          Some (mkP (s_f s) (s_next s) (s_refill s) (s_encq s) (s_bufs s) (s_w s) (s_results s) (s_failed s) r (s_hashed s) HExit (s_m s))
      | _, _ => None
      end
  | LMStopHash =>
      match s_m s with
      | MStopHash =>
          if Nat.ltb (length (s_hashq s)) HASH_CAP then
            Some (mkP (s_f s) (s_next s) (s_refill s) (s_encq s) (s_bufs s) (s_w s) (s_results s) (s_failed s) (s_hashq s ++ [None]) (s_hashed s) (s_h s) MJoinHash)
          else None
      | _ => None
      end
  | LMJoinHash =>
      match s_m s, s_h s with
      | MJoinHash, HExit =>
          Some (mkP (s_f s) (s_next s) (s_refill s) (s_encq s) (s_bufs s) (s_w s) (s_results s) (s_failed s) (s_hashq s) (s_hashed s) (s_h s) MJoinWorkers)
      | _, _ => None
      end
  | LMJoinWorkers =>
      match s_m s with
      | MJoinWorkers =>
          if forallb (fun w => match w with WExit => true | _ => false end) (s_w s) then
            Some (mkP (s_f s) (s_next s) (s_refill s) (s_encq s) (s_bufs s) (s_w s) (s_results s) (s_failed s) (s_hashq s) (s_hashed s) (s_h s) MFinal)
          else None
      | _ => None
      end
  end.

Definition final (s : pstate) : bool := match s_m s with MFinal => true | _ => false end.

(* all labels that could be enabled in a state with W workers *)
Definition all_labels (p : plan) : list label :=
  [LFRecv; LFRead; LFSend; LFStop; LFDone; LHRecv; LMStopHash; LMJoinHash; LMJoinWorkers]
  ++ flat_map (fun i => [LWRecv i; LWEnc i; LWPush i]) (seq 0 (p_workers p)).

Definition enabled (p : plan) (s : pstate) : list label :=
  filter (fun l => match step p s l with Some _ => true | None => false end) (all_labels p).

(* run a schedule (list of labels); None if some label is not enabled *)
Fixpoint run (p : plan) (s : pstate) (ls : list label) : option pstate :=
  match ls with
  | [] => Some s
  | l :: r => match step p s l with Some s' => run p s' r | None => None end
  end.

(* the caller-visible outcome of a final state *)
Inductive outcome := OutOk (frames : list nat) (hashed : list nat) | OutConfigErr | OutSourceErr.

(* ParSink is an ordered map keyed by frame number, drained in key order *)
Definition drain (s : pstate) : list nat :=
  filter (fun n => existsb (Nat.eqb n) (s_results s)) (seq 0 (s_next s)).

Definition result_of (s : pstate) : outcome :=
  match s_failed s with
  | _ :: _ => OutConfigErr
  | [] => match s_f s with
          | FDone true => OutSourceErr
          | _ => OutOk (drain s) (s_hashed s)
          end
  end.

(* the single-threaded reference: read block i, encode it, next *)
Fixpoint seq_outcome (p : plan) (fuel i : nat) : outcome :=
  match fuel with
  | O => OutOk (seq 0 i) (seq 0 i)
  | S f =>
      if match p_read_fail p with Some k => Nat.eqb k i | None => false end then OutSourceErr
      else if Nat.ltb i (p_blocks p) then
        if p_invalid p i then OutConfigErr else seq_outcome p f (S i)
      else OutOk (seq 0 i) (seq 0 i)
  end.
Definition seq_result (p : plan) : outcome := seq_outcome p (S (p_blocks p)) 0.
