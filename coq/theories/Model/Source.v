(* Sample delivery: LE byte conversion, de-interleaving into the frame buffer (with the stale
   contents the code leaves behind), the two Fill implementations of FrameBuf and Context
   (source.rs:278-429, arrayutils.rs:139-381). *)
From FV Require Import Model.Base.
Local Open Scope N_scope.

(* v.to_le_bytes()[0..nb] *)
Definition le_bytes_of (nb : N) (x : Z) : list N :=
  let u := Z.to_N (Z.modulo x 4294967296) in
  map (fun k => MOD2 (DIV2 u (8 * N.of_nat k)) 8) (seq 0 (N.to_nat nb)).

(* i32s_to_le_bytes: indexing the 4-byte array with offset >= 4 panics *)
Definition i32s_to_le_bytes (ints : list Z) (nb : N) : Res (list N) :=
  if (4 <? nb) && negb (match ints with [] => true | _ => false end) then Panic 378
  else Ok (flat_map (le_bytes_of nb) ints).

Definition le_value (bs : list N) : N := fold_right (fun b acc => b + 256 * acc) 0 bs.
Definition to_signed_bits (w u : N) : Z :=
  if w =? 0 then 0%Z else if N.testbit u (w - 1) then (Z.of_N u - 2 ^ Z.of_N w)%Z else Z.of_N u.

Fixpoint group {A} (fuel : nat) (k : nat) (l : list A) : list (list A) :=
  match fuel with
  | O => []
  | S f => match l with [] => [] | _ => firstn k l :: group f k (skipn k l) end
  end.

(* le_bytes_to_i32s: panics for a width outside 1..=4 and for a length that is not a multiple *)
Definition le_bytes_to_i32s (bytes : list N) (nb : N) : Res (list Z) :=
  if (nb =? 0) || (4 <? nb) then Panic 364
  else if negb (N.of_nat (length bytes) mod nb =? 0) then Panic 270
  else Ok (map (fun g => to_signed_bits (8 * nb) (le_value g)) (group (length bytes) (N.to_nat nb) bytes)).

(* ---- de-interleave into a buffer of `stride` samples per channel; dest keeps stale values ---- *)

Definition nthZ (l : list Z) (i : nat) : Z := nth i l 0%Z.

(* new contents of position (ch, t) *)
Definition deint_at (channels stride : nat) (src old : list Z) (ch t : nat) : Z :=
  let src_samples := Nat.div (length src) channels in
  if Nat.eqb channels 1 then
    (if Nat.ltb t (Nat.min (length old) (length src)) then nthZ src t else nthZ old t)
  else
    (if Nat.ltb t src_samples then nthZ src (channels * t + ch) else 0%Z).

Definition deinterleave (channels stride : nat) (src old : list Z) : list Z :=
  if Nat.eqb channels 1 then
    let n := Nat.min (length old) (length src) in firstn n src ++ skipn n old
  else
    flat_map (fun ch => map (fun t => deint_at channels stride src old ch t) (seq 0 stride)) (seq 0 channels).

Record framebuf := mkFB { fb_samples : list Z; fb_size : nat; fb_channels : nat; fb_filled : nat }.

Definition fb_new (channels size : nat) : framebuf := mkFB (repeat 0%Z (size * channels)) size channels 0.

(* FrameBuf as Fill: more samples than the buffer holds is an error (fix D10) *)
Definition fill_interleaved (fb : framebuf) (src : list Z) : Res framebuf :=
  if Nat.ltb (length (fb_samples fb)) (length src) then Err E_SOURCE
  else Ok (mkFB (deinterleave (fb_channels fb) (fb_size fb) src (fb_samples fb)) (fb_size fb) (fb_channels fb)
                (Nat.div (length src) (fb_channels fb))).

Definition fill_le_bytes (fb : framebuf) (bytes : list N) (nb : N) : Res framebuf :=
  if (nb =? 0) || (4 <? nb) || negb (N.of_nat (length bytes) mod nb =? 0) then Err E_SOURCE
  else do ints <- le_bytes_to_i32s bytes nb; fill_interleaved fb ints.

(* what the encoder reads: the first fb_filled samples of every channel *)
Definition channel_slice (fb : framebuf) (ch : nat) : list Z :=
  firstn (fb_filled fb) (skipn (ch * fb_size fb) (fb_samples fb)).
Definition observable (fb : framebuf) : nat * list (list Z) :=
  (fb_filled fb, map (channel_slice fb) (seq 0 (fb_channels fb))).

(* ---- Context: MD5 input accumulated so far, sample and frame counters ---- *)
Record context := mkCtx { cx_md5in : list N; cx_nb : N; cx_channels : N; cx_samples : N; cx_frames : N }.
Definition ctx_new (bps channels : N) : context := mkCtx [] ((bps + 7) / 8) channels 0 0.

Definition ctx_fill_interleaved (c : context) (src : list Z) : context :=
  match src with
  | [] => c
  | _ => mkCtx (cx_md5in c ++ flat_map (le_bytes_of (cx_nb c)) src) (cx_nb c) (cx_channels c)
               (cx_samples c + N.of_nat (length src) / cx_channels c) (cx_frames c + 1)
  end.

Definition ctx_fill_le_bytes (c : context) (bytes : list N) (nb : N) : Res context :=
  match bytes with
  | [] => Ok c
  | _ => if negb (nb =? cx_nb c) || (nb =? 0) || negb (N.of_nat (length bytes) mod nb =? 0) then Err E_SOURCE
         else Ok (mkCtx (cx_md5in c ++ bytes) (cx_nb c) (cx_channels c)
                        (cx_samples c + N.of_nat (length bytes) / cx_channels c / nb) (cx_frames c + 1))
  end.
